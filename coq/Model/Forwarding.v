(* C11 — model of constructor forwarding, get_gemini resolution and affinity dispatch.
   Syntax of the tables regenerated into Gen/Forwarding.v by translator/tr_forwarding.py, an
   interpreter for them (python call binding, __init__ bodies, super().__init__ forwarding,
   get_gemini, _str_to_gemini), the hand model of compute_affinity / Kauri._compute_kernel /
   KernelRIM._compute_kernel, and the abstract training fold.  No proofs in this file. *)
From Coq Require Import List String Bool Arith.
Import ListNotations.
Open Scope string_scope.

(* ---------------------------------------------------------------- syntax of the tables *)
(* python literals that occur as defaults and constant arguments (numbers kept as repr text) *)
Inductive const := CNone | CBool (b : bool) | CStr (s : string) | CNum (s : string).

(* run-time values: literals, or the user's own objects identified by a token (callables,
   dictionaries, GEMINI instances, anything else): the interpreter can only move them around *)
Inductive value := VC (c : const) | VCallable (k : nat) | VDict (k : nat) | VObj (k : nat).

(* argument / right-hand side expressions of __init__ and get_gemini *)
Inductive expr := EConst (c : const) | EParam (p : string) | EAttr (a : string).

(* super().__init__(e1, .., k=e) or Parent.__init__(self, e1, .., k=e): target resolved by the translator *)
Record super_call := { sc_target : string; sc_pos : list expr; sc_kw : list (string * expr) }.
Inductive stmt := SStore (a : string) (e : expr) | SSuper (c : super_call).

(* body of a get_gemini method *)
Inductive gg_body :=
  | GGCall (cls : string) (kw : list (string * expr))   (* return Cls(k=self.a, ...) *)
  | GGResolve (attr : string) (dflt : string).          (* DiscriminativeModel.get_gemini: None / str / instance *)

Record init_desc := { i_params : list (string * option const); i_body : list stmt }.

(* straight-line method bodies (score): where the values of the local variables come from.
   MOrElse a b = "a unless it is None, then b" (result of `if v is None: v = b`) *)
Inductive mexpr :=
  | MVar (v : string) | MConst (c : const)
  | MSelfCall (m : string) (args : list mexpr)            (* self.m(args) *)
  | MSelfAttr (a : string)                                (* self.a *)
  | MGetAttr (a : string) (d : mexpr)                     (* getattr(self, "a", d) *)
  | MMeth (o : mexpr) (m : string) (args : list mexpr)    (* o.m(args) *)
  | MApply (f : mexpr) (args : list mexpr)                (* f(args), f a local variable *)
  | MFn (f : string) (args : list mexpr)                  (* module-level function / builtin f(args), e.g. super() *)
  | MField (o : mexpr) (a : string)                       (* o.a *)
  | MOrElse (a b : mexpr).
Inductive mstmt :=
  | MAssign (v : string) (e : mexpr) | MIfNone (v : string) (e : mexpr)
  | MSetAttr (a : string) (e : mexpr) | MReturn (e : mexpr).

Record class_desc := { c_name : string; c_parent : option string; c_init : option init_desc;
                       c_methods : list string; c_get_gemini : option gg_body;
                       c_score : option (list mstmt); c_fit_predict : option (list mstmt) }.

(* gemini/_utils.py: AVAILABLE_GEMINIS and the if-chain of _str_to_gemini, in source order *)
Record registry := { r_available : list string; r_chain : list (string * (string * list (string * const))) }.

(* ---------------------------------------------------------------- small helpers *)
Fixpoint lookup {A} (k : string) (l : list (string * A)) : option A :=
  match l with [] => None | (k', v) :: r => if String.eqb k k' then Some v else lookup k r end.
Fixpoint remove_key {A} (k : string) (l : list (string * A)) : list (string * A) :=
  match l with [] => [] | (k', v) :: r => if String.eqb k k' then remove_key k r else (k', v) :: remove_key k r end.
Fixpoint mem (k : string) (l : list string) : bool :=
  match l with [] => false | k' :: r => if String.eqb k k' then true else mem k r end.
(* self.a = v : replace an existing attribute in place, else append (python dict semantics) *)
Fixpoint set_attr (a : string) (v : value) (l : list (string * value)) : list (string * value) :=
  match l with [] => [(a, v)] | (a', v') :: r => if String.eqb a a' then (a', v) :: r else (a', v') :: set_attr a v r end.
Definition obind {A B} (o : option A) (f : A -> option B) : option B := match o with Some x => f x | None => None end.
Fixpoint omap {A B} (f : A -> option B) (l : list A) : option (list B) :=
  match l with [] => Some [] | x :: r => obind (f x) (fun y => obind (omap f r) (fun ys => Some (y :: ys))) end.

Fixpoint find_class (tbl : list class_desc) (n : string) : option class_desc :=
  match tbl with [] => None | c :: r => if String.eqb n (c_name c) then Some c else find_class r n end.

(* ---------------------------------------------------------------- python call binding *)
(* positional arguments fill the leading parameters, keywords bind by name, defaults fill the rest;
   None = TypeError (too many positionals, unknown / duplicated keyword, missing argument) *)
Fixpoint bind (params : list (string * option const)) (pos : list value) (kw : list (string * value))
  : option (list (string * value)) :=
  match params with
  | [] => match pos, kw with [], [] => Some [] | _, _ => None end
  | (p, d) :: ps =>
    match pos with
    | v :: pos' => match lookup p kw with Some _ => None
                   | None => option_map (cons (p, v)) (bind ps pos' kw) end
    | [] => match lookup p kw with
            | Some v => option_map (cons (p, v)) (bind ps [] (remove_key p kw))
            | None => match d with Some c => option_map (cons (p, VC c)) (bind ps [] kw) | None => None end
            end
    end
  end.

Definition eval (locals attrs : list (string * value)) (e : expr) : option value :=
  match e with EConst c => Some (VC c) | EParam p => lookup p locals | EAttr a => lookup a attrs end.
Definition eval_kw (locals attrs : list (string * value)) (kw : list (string * expr)) : option (list (string * value)) :=
  omap (fun ke => option_map (fun v => (fst ke, v)) (eval locals attrs (snd ke))) kw.

(* ---------------------------------------------------------------- running a constructor *)
(* Cls(pos.., kw..): the first __init__ on the (single-inheritance) chain of cls is bound and its
   statements run in source order; a super call runs the target's constructor on the same object.
   fuel bounds the chain depth (None on exhaustion = also None on any python exception). *)
Fixpoint run_init (tbl : list class_desc) (fuel : nat) (cls : string) (pos : list value)
         (kw : list (string * value)) (attrs : list (string * value)) : option (list (string * value)) :=
  match fuel with
  | O => None
  | S f =>
    match find_class tbl cls with
    | None => None
    | Some c =>
      match c_init c with
      | None => match c_parent c with
                | Some p => run_init tbl f p pos kw attrs
                | None => match pos, kw with [], [] => Some attrs | _, _ => None end   (* object.__init__ *)
                end
      | Some ini =>
        obind (bind (i_params ini) pos kw) (fun locals =>
          fold_left (fun acc st =>
            obind acc (fun at_ =>
              match st with
              | SStore a e => option_map (fun v => set_attr a v at_) (eval locals at_ e)
              | SSuper sc => obind (omap (eval locals at_) (sc_pos sc)) (fun pos' =>
                             obind (eval_kw locals at_ (sc_kw sc)) (fun kw' =>
                               run_init tbl f (sc_target sc) pos' kw' at_))
              end)) (i_body ini) (Some attrs))
      end
    end
  end.

Definition chain_fuel (tbl : list class_desc) : nat := S (List.length tbl).
Definition construct (tbl : list class_desc) (cls : string) (pos : list value) (kw : list (string * value))
  : option (list (string * value)) := run_init tbl (chain_fuel tbl) cls pos kw [].

(* first class on the chain of cls that defines method m (python attribute lookup) *)
Fixpoint find_method (tbl : list class_desc) (fuel : nat) (cls m : string) : option class_desc :=
  match fuel with
  | O => None
  | S f => match find_class tbl cls with
           | None => None
           | Some c => if mem m (c_methods c) then Some c
                       else match c_parent c with Some p => find_method tbl f p m | None => None end
           end
  end.
Definition method_owner tbl cls m : option string := option_map c_name (find_method tbl (chain_fuel tbl) cls m).
(* the parameters of the constructor that actually runs for cls *)
Definition ctor_params (tbl : list class_desc) (cls : string) : list (string * option const) :=
  match find_method tbl (chain_fuel tbl) cls "__init__" with
  | Some c => match c_init c with Some ini => i_params ini | None => [] end
  | None => []
  end.
Definition param_names tbl cls : list string := map fst (ctor_params tbl cls).
(* the full keyword call Cls(p1=rho p1, ..., pk=rho pk) *)
Definition kw_of (tbl : list class_desc) (cls : string) (rho : string -> value) : list (string * value) :=
  map (fun p => (p, rho p)) (param_names tbl cls).

(* ---------------------------------------------------------------- score: symbolic return value *)
Fixpoint msubst (env : list (string * mexpr)) (e : mexpr) : mexpr :=
  match e with
  | MVar v => match lookup v env with Some t => t | None => MVar v end
  | MConst c => MConst c
  | MSelfCall m args => MSelfCall m (map (msubst env) args)
  | MSelfAttr a => MSelfAttr a
  | MGetAttr a d => MGetAttr a (msubst env d)
  | MMeth o m args => MMeth (msubst env o) m (map (msubst env) args)
  | MApply f args => MApply (msubst env f) (map (msubst env) args)
  | MFn f args => MFn f (map (msubst env) args)
  | MField o a => MField (msubst env o) a
  | MOrElse a b => MOrElse (msubst env a) (msubst env b)
  end.
(* the returned expression in terms of self, the arguments and calls made at that time; the
   attributes written on the way *)
Fixpoint run_body (env : list (string * mexpr)) (writes : list string) (b : list mstmt) : option (mexpr * list string) :=
  match b with
  | [] => None
  | MReturn e :: _ => Some (msubst env e, writes)
  | MAssign v e :: r => run_body ((v, msubst env e) :: env) writes r
  | MIfNone v e :: r => run_body ((v, MOrElse (msubst env (MVar v)) (msubst env e)) :: env) writes r
  | MSetAttr a e :: r => run_body env (a :: writes) r
  end.
Definition score_term (tbl : list class_desc) (cls : string) : option (mexpr * list string) :=
  match find_method tbl (chain_fuel tbl) cls "score" with
  | Some c => match c_score c with Some b => run_body [] [] b | None => None end
  | None => None
  end.
Definition fit_predict_term (tbl : list class_desc) (cls : string) : option (mexpr * list string) :=
  match find_method tbl (chain_fuel tbl) cls "fit_predict" with
  | Some c => match c_fit_predict c with Some b => run_body [] [] b | None => None end
  | None => None
  end.
(* result conversions that do not change which objective / affinity is used *)
Fixpoint strip_conv (e : mexpr) : mexpr :=
  match e with
  | MMeth o m [] => if String.eqb m "item" then strip_conv o else e
  | MFn f [a] => if String.eqb f "float" then strip_conv a else e
  | _ => e
  end.

(* ---------------------------------------------------------------- GEMINI objects *)
Inductive gobj := GUser (v : value) | GNew (cls : string) (attrs : list (string * value)).

(* gemini/_utils.py::_str_to_gemini *)
Definition str_to_gemini (tbl : list class_desc) (reg : registry) (name : string) : option gobj :=
  if mem name (r_available reg) then
    match lookup name (r_chain reg) with
    | Some (cls, kw) => option_map (GNew cls) (construct tbl cls [] (map (fun kc => (fst kc, VC (snd kc))) kw))
    | None => Some (GUser (VC CNone))          (* no branch taken: the function returns None *)
    end
  else None.                                    (* raise ValueError("Unknown GEMINI") *)

(* _base_gemini.py::get_gemini and the overrides of the convenience estimators, on an estimator
   object of class cls whose attribute dictionary is attrs *)
Definition get_gemini (tbl : list class_desc) (reg : registry) (cls : string) (attrs : list (string * value)) : option gobj :=
  match find_method tbl (chain_fuel tbl) cls "get_gemini" with
  | None => None
  | Some c =>
    match c_get_gemini c with
    | None => None
    | Some (GGCall g kw) => obind (eval_kw [] attrs kw) (fun kw' => option_map (GNew g) (construct tbl g [] kw'))
    | Some (GGResolve a d) =>
      match lookup a attrs with
      | None => None
      | Some (VC CNone) => str_to_gemini tbl reg d
      | Some (VC (CStr s)) => str_to_gemini tbl reg s
      | Some v => Some (GUser v)
      end
    end
  end.

(* which sklearn function a named affinity is computed with *)
Inductive pw := PKernels | PDistances.
(* where the affinity of a GEMINI object comes from: compute_affinity of the class that defines it
   (gemini/_geomdistances.py MMDGEMINI / WassersteinGEMINI, gemini/_fdivergences.py _FDivergence) *)
Inductive aff_src := AffNone | AffSpec (k : pw) (fn params : option value) | AffUnknown.
Record built_desc := { gd_class : string; gd_family : option string; gd_ovo : option value; gd_aff : aff_src }.
Inductive gemini_desc := DUser (v : value) | DBuilt (d : built_desc).

Definition aff_of (tbl : list class_desc) (cls : string) (attrs : list (string * value)) : aff_src :=
  match method_owner tbl cls "compute_affinity" with
  | Some o => if String.eqb o "MMDGEMINI" then AffSpec PKernels (lookup "kernel" attrs) (lookup "kernel_params" attrs)
              else if String.eqb o "WassersteinGEMINI" then AffSpec PDistances (lookup "metric" attrs) (lookup "metric_params" attrs)
              else if String.eqb o "_FDivergence" then AffNone else AffUnknown
  | None => AffUnknown
  end.
Definition describe (tbl : list class_desc) (g : gobj) : gemini_desc :=
  match g with
  | GUser v => DUser v
  | GNew cls attrs => DBuilt {| gd_class := cls; gd_family := method_owner tbl cls "evaluate";
                                gd_ovo := lookup "ovo" attrs; gd_aff := aff_of tbl cls attrs |}
  end.

(* an estimator configuration: class and the keyword arguments of the constructor call *)
Record estimator_config := { e_class : string; e_kwargs : list (string * value) }.
Definition estimator_attrs tbl (cfg : estimator_config) := construct tbl (e_class cfg) [] (e_kwargs cfg).
Definition estimator_gemini tbl reg (cfg : estimator_config) : option gobj :=
  obind (estimator_attrs tbl cfg) (get_gemini tbl reg (e_class cfg)).
Definition resolve_gemini tbl reg (cfg : estimator_config) : option gemini_desc :=
  option_map (describe tbl) (estimator_gemini tbl reg cfg).

(* ---------------------------------------------------------------- affinity dispatch *)
Inductive pwparams := PEmpty | PGiven (v : value).
Inductive outcome :=
  | CallUser (f : nat)                                  (* the user's callable applied to the data *)
  | UseGiven                                            (* the matrix passed as y *)
  | ErrorMissing                                        (* raise ValueError *)
  | Pairwise (k : pw) (metric : value) (p : pwparams).  (* pairwise_kernels / pairwise_distances(X, metric=.., params p) *)
Record affinity_spec := { a_kind : pw; a_fn : value; a_params : value }.

Definition is_precomputed (v : value) : bool :=
  match v with VC (CStr s) => String.eqb s "precomputed" | _ => false end.
(* _params = dict() if self.kernel_params is None else self.kernel_params *)
Definition params_of (p : value) : pwparams := match p with VC CNone => PEmpty | _ => PGiven p end.

(* MMDGEMINI.compute_affinity / WassersteinGEMINI.compute_affinity (gemini/_geomdistances.py) *)
Definition affinity_dispatch (s : affinity_spec) (has_y : bool) : outcome :=
  match a_fn s with
  | VCallable f => CallUser f
  | v => if is_precomputed v then (if has_y then UseGiven else ErrorMissing)
         else Pairwise (a_kind s) v (params_of (a_params s))
  end.
(* warnings.warn("Parameters ... are ignored when kernel is a callable") *)
Definition affinity_warns (s : affinity_spec) : bool :=
  match a_fn s, a_params s with VCallable _, VC CNone => false | VCallable _, _ => true | _, _ => false end.

(* tree/kauri.py::Kauri._compute_kernel — as it is: a missing precomputed matrix is replaced by the
   linear kernel with a warning, no kernel parameters, no special case for callables *)
Definition kauri_dispatch (kernel : value) (has_y : bool) : outcome * bool :=
  if is_precomputed kernel then
    (if has_y then (UseGiven, false) else (Pairwise PKernels (VC (CStr "linear")) PEmpty, true))
  else (Pairwise PKernels kernel PEmpty, false).

(* linear/_linear_geminis.py::KernelRIM._compute_kernel — kernel between new and training points:
   the callable is applied to (X, input_data_), a name goes to pairwise_kernels(X, input_data_, ..) *)
Definition kernelrim_dispatch (base_kernel base_kernel_params : value) : outcome :=
  match base_kernel with
  | VCallable f => CallUser f
  | v => Pairwise PKernels v (params_of base_kernel_params)
  end.

(* the affinity an estimator trains and scores with: fit / score call get_gemini().compute_affinity(X, y);
   Kauri calls its own _compute_kernel(X, y).  None = exception, Some None = no affinity needed *)
Definition training_affinity tbl reg (cfg : estimator_config) (has_y : bool) : option (option outcome) :=
  obind (estimator_attrs tbl cfg) (fun attrs =>
    match method_owner tbl (e_class cfg) "get_gemini" with
    | Some _ =>
      obind (get_gemini tbl reg (e_class cfg) attrs) (fun g =>
        match describe tbl g with
        | DBuilt d => match gd_aff d with
                      | AffNone => Some None
                      | AffSpec k (Some fn) (Some ps) => Some (Some (affinity_dispatch {| a_kind := k; a_fn := fn; a_params := ps |} has_y))
                      | _ => None
                      end
        | DUser _ => None       (* the user's instance decides: not described by the tables *)
        end)
    | None =>
      match method_owner tbl (e_class cfg) "_compute_kernel", lookup "kernel" attrs with
      | Some _, Some k => Some (Some (fst (kauri_dispatch k has_y)))
      | _, _ => None
      end
    end).

(* ---------------------------------------------------------------- abstract training fold *)
Section Train.
Context {T St : Type}.
(* the n x n entries of an affinity, the only thing training and scoring look at *)
Definition mat_tab (n : nat) (A : nat -> nat -> T) : list (list T) :=
  map (fun i => map (A i) (seq 0 n)) (seq 0 n).
(* states after each of [steps] optimiser / split steps started from s at step counter t *)
Fixpoint history (step : list (list T) -> nat -> St -> St) (K : list (list T)) (t steps : nat) (s : St) : list St :=
  match steps with O => [] | S m => let s' := step K t s in s' :: history step K (S t) m s' end.
(* the matrix an outcome denotes, given sklearn's pairwise functions, the user's callables (both
   already applied to the data) and the optional matrix passed as y *)
Definition affinity_matrix (pwf : pw -> value -> pwparams -> nat -> nat -> T) (callf : nat -> nat -> nat -> T)
           (y : option (nat -> nat -> T)) (o : outcome) : option (nat -> nat -> T) :=
  match o with
  | CallUser f => Some (callf f)
  | UseGiven => y
  | ErrorMissing => None
  | Pairwise k m p => Some (pwf k m p)
  end.
Definition fit_history (n : nat) (step : list (list T) -> nat -> St -> St) (steps : nat) (s0 : St)
           pwf callf (y : option (nat -> nat -> T)) (o : outcome) : option (list St) :=
  option_map (fun A => history step (mat_tab n A) 0 steps s0) (affinity_matrix pwf callf y o).
End Train.
(* EXTRACT: score_term fit_predict_term strip_conv construct ctor_params estimator_gemini resolve_gemini str_to_gemini describe training_affinity affinity_dispatch affinity_warns kauri_dispatch kernelrim_dispatch method_owner *)
