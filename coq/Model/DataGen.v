(* C20 - model of gemclus/data/synthetic_data.py: draw_gmm, multivariate_student_t, gstm, celeux_one, celeux_two.
   The generators are modelled as deterministic functions of the draws of the random oracle
   (numpy.random.RandomState): for each generator
     <g>_calls  : the requests made to the oracle, in call order, with their arguments
                  (none of them depends on an earlier answer), and
     <g>_run    : the returned arrays as a function of the list of answers ([draw]s), [None] when the answers do
                  not have the kinds the requests call for (excluded by the theorems through the oracle contract).
   Arrays are lists (matrices: lists of rows); numpy arrays are rectangular, the theorems state that where needed.
   Numbers are generic over [NumOps T]; the literal constants come from Gen/DataConstants.v (regenerated from the
   source on every build) and are injected with [ofQ] (p/q computed as one division of two exactly represented
   integers = the correctly rounded decimal literal of the source).  No proofs in this file. *)
From Coq Require Import List Arith Bool ZArith QArith.
From GV Require Import Common.Num Gen.DataConstants.
Import ListNotations.
Close Scope Q_scope.
Open Scope nat_scope.

(* raise sites of draw_gmm in source order.  EArrayCheck: sklearn's check_array (fewer than 2 rows in loc /
   scale / pvals: ensure_min_samples=2; no feature).  EArray: not an explicit test of draw_gmm but a numpy error on a
   one-dimensional mixture whose `scale` is not of shape (K, 1) ("truth value of an array is ambiguous" /
   broadcast error of normal()): still a ValueError. *)
Inductive gmm_err :=
| EArrayCheck | ECountCov | ENotSquare | ECountP | ENonPosP | ESumP
| EVar (k : nat) | ENotPSD (k : nat) | EAllZero (k : nat) | EArray.

Fixpoint first_some {A : Type} (l : list (option A)) : option A :=
  match l with [] => None | Some a :: _ => Some a | None :: r => first_some r end.
Fixpoint all_some {A : Type} (l : list (option A)) : option (list A) :=
  match l with
  | [] => Some []
  | Some a :: r => match all_some r with Some r' => Some (a :: r') | None => None end
  | None :: _ => None
  end.
(* enumerate(l) *)
Definition indexed {A : Type} (l : list A) : list (nat * A) := combine (seq 0 (length l)) l.
(* l[order] (fancy indexing by an index array) *)
Definition take_rows {A : Type} (dflt : A) (l : list A) (order : list nat) : list A := map (fun i => nth i l dflt) order.

(* X = [X[k][i].reshape((1, -1)) for i, k in enumerate(y)]        (draw_gmm, last statement but one) *)
Definition gmm_select {A : Type} (dflt : A) (y : list nat) (X : list (list A)) : list A :=
  map (fun ik => nth (fst ik) (nth (snd ik) X []) dflt) (indexed y).

Section Gen.
Context {T : Type} (o : NumOps T).

(* ---------------------------------------------------------------- constants *)
Definition ofpos (p : positive) : T := nofnat o (Pos.to_nat p).
Definition ofZ (z : Z) : T := match z with Z0 => n0 o | Zpos p => ofpos p | Zneg p => nneg o (ofpos p) end.
Definition ofQ (q : Q) : T := ndiv o (ofZ (Qnum q)) (ofpos (Qden q)).
(* np.sqrt(3) *)
Definition sqrt3 : T := nsqrt o (nofnat o 3).
(* a + b * sqrt 3, the value of sqrt 3 being an argument (the theorems keep it symbolic: s * s = 3) *)
Definition ofqs (s3 : T) (x : qs) : T := nadd o (ofQ (fst x)) (nmul o (ofQ (snd x)) s3).
Definition matQ (m : list (list Q)) : list (list T) := map (map ofQ) m.
(* np.array(<literal>) * alpha,   np.ones(5) * mu *)
Definition scaledv (c : T) (v : list Q) : list T := map (fun x => nmul o (ofQ x) c) v.
Definition scaled (c : T) (m : list (list Q)) : list (list T) := map (scaledv c) m.

(* decimal float literals: m e-k = m / 10^k (one correctly rounded division of two exactly represented integers
   = the value Python parses the literal to, for m < 2^53 and k <= 22) *)
Fixpoint pow10 (k : nat) : T := match k with O => n1 o | S k' => nmul o (pow10 k') (nofnat o 10) end.
Definition declit (m k : nat) : T := ndiv o (nofnat o m) (pow10 k).
(* np.isclose(a, b, rtol, atol) = |a - b| <= atol + rtol * |b|   (finite arguments); numpy's defaults rtol=1e-05, atol=1e-08 *)
Definition isclose_with (rt at_ : T) (a b : T) : bool := nleb o (nabs o (nsub o a b)) (nadd o at_ (nmul o rt (nabs o b))).
Definition atol : T := declit 1 8.
Definition rtol : T := declit 1 5.
Definition isclose (a b : T) : bool := isclose_with rtol atol a b.
(* np.sum of a short vector: left to right (numpy sums fewer than 8 elements sequentially) *)
Definition suml (l : list T) : T := fold_left (nadd o) l (n0 o).

(* ---------------------------------------------------------------- the random oracle *)
(* requests, named after the RandomState methods *)
Inductive call :=
| CChoice (K : nat) (p : list T) (n : nat)                 (* generator.choice(K, p=pvals, size=(n,)) *)
| CNormal (loc sd : list T) (n : nat)                      (* generator.normal(loc[k], sd, size=(n,)); loc[k], sd of shape (1,) *)
| CStdNormal (n p : nat)                                   (* generator.normal(size=(n, p)) *)
| CMvn (mean : list T) (cov : list (list T)) (n : nat)     (* generator.multivariate_normal(mean, cov, size=(n,)) *)
| CChisq (df : T) (n : nat)                                (* generator.chisquare(df, n) *)
| CPerm (n : nat).                                         (* generator.permutation(n) *)
(* answers *)
Inductive draw :=
| DLabels (l : list nat)          (* integer vector: choice, permutation *)
| DVec (v : list T)               (* float vector: normal(size=(n,)), chisquare *)
| DMat (m : list (list T)).       (* float matrix: multivariate_normal, normal(size=(n,p)) *)

(* ---------------------------------------------------------------- draw_gmm *)
(* `scale` after check_array(allow_nd=True): 2-dimensional (K, r) or 3-dimensional (K, r, c) *)
Inductive scale_arr := Sc2 (s : list (list T)) | Sc3 (s : list (list (list T))).
Definition scale_len (sc : scale_arr) : nat := match sc with Sc2 s => length s | Sc3 s => length s end.
Record gmm_in := { g_loc : list (list T); g_scale : scale_arr; g_p : list T }.
(* K, d = loc.shape *)
Definition g_K (g : gmm_in) : nat := length (g_loc g).
Definition g_d (g : gmm_in) : nat := length (hd [] (g_loc g)).
(* scale.ndim == 3 and d == scale.shape[1] and d == scale.shape[2] *)
Definition scale_square (d : nat) (sc : scale_arr) : bool :=
  match sc with Sc2 _ => false | Sc3 s => (d =? length (hd [] s)) && (d =? length (hd [] (hd [] s))) end.

(* scale.ndim, scale.shape[1], scale.shape[2] (the last one exists only for a 3-dimensional array; the source reads it
   behind `scale.ndim != 3 or ...`, so its value on a 2-dimensional array is never used) *)
Definition scale_ndim (sc : scale_arr) : nat := match sc with Sc2 _ => 2 | Sc3 _ => 3 end.
Definition scale_dim1 (sc : scale_arr) : nat := match sc with Sc2 s => length (hd [] s) | Sc3 s => length (hd [] s) end.
Definition scale_dim2 (sc : scale_arr) : nat := match sc with Sc2 _ => 0 | Sc3 s => length (hd [] (hd [] s)) end.
(* the three check_array calls: ensure_min_samples rows in loc / scale / pvals, at least one feature in loc *)
Definition array_check (ml ms mp : nat) (g : gmm_in) : bool :=
  (g_K g <? ml) || (g_d g <? 1) || (scale_len (g_scale g) <? ms) || (length (g_p g) <? mp).
(* `if <boolean array>:` - defined for exactly one element, otherwise numpy raises "truth value ... is ambiguous" *)
Definition truth1 (b : list bool) : option bool := match b with [x] => Some x | _ => None end.
(* `for k in range(K): ... scale[k] ...` in the d == 1 branch: scale[k] is a row of a 2-dimensional scale (a
   3-dimensional one ends in a numpy error);  in the d != 1 branch: scale[k] is a matrix of a 3-dimensional scale *)
Definition for_rows (sc : scale_arr) (f : nat -> list T -> option gmm_err) : option gmm_err :=
  match sc with Sc2 s => first_some (map (fun kr => f (fst kr) (snd kr)) (indexed s)) | Sc3 _ => Some EArray end.
Definition for_mats (sc : scale_arr) (f : nat -> list (list T) -> option gmm_err) : option gmm_err :=
  match sc with Sc3 s => first_some (map (fun km => f (fst km) (snd km)) (indexed s)) | Sc2 _ => Some ENotSquare end.
(* `for k in range(len(loc)): X += [generator.<draw>(loc[k], <f(scale[k])>, size=(n,))]` *)
Definition comp_calls_rows (sc : scale_arr) (loc : list (list T)) (f : list T -> list T -> call) : list call :=
  match sc with Sc2 s => map (fun lv => f (fst lv) (snd lv)) (combine loc s) | Sc3 _ => [] end.
Definition comp_calls_mats (sc : scale_arr) (loc : list (list T)) (f : list T -> list (list T) -> call) : list call :=
  match sc with Sc3 s => map (fun lm => f (fst lm) (snd lm)) (combine loc s) | Sc2 _ => [] end.

Definition mget (m : list (list T)) (i j : nat) : T := nth j (nth i m []) (n0 o).
(* np.allclose(scale[k], scale[k].T) *)
Definition sym_close (m : list (list T)) : bool :=
  forallb (fun i => forallb (fun j => isclose (mget m i j) (mget m j i)) (seq 0 (length m))) (seq 0 (length m)).

(* d == 1:  for k in range(K): if scale[k] <= 0: raise ValueError(f"The {k}-th variance is negative.") *)
Definition check_var (s : list (list T)) : option gmm_err :=
  first_some (map (fun kr => match snd kr with
                             | [v] => if nleb o v (n0 o) then Some (EVar (fst kr)) else None
                             | _ => Some EArray
                             end) (indexed s)).
(* d != 1:  for k in range(K):
     if not np.allclose(scale[k], scale[k].T) or np.any(np.linalg.eigvalsh(scale[k]) < -1e-8): raise (not PSD)
     if np.all(scale[k] == 0): raise (only zeroes)
   [eig k] = np.linalg.eigvalsh(scale[k]) is an oracle *)
Definition check_cov (s : list (list (list T))) (eig : nat -> list T) : option gmm_err :=
  first_some (map (fun km =>
      if negb (sym_close (snd km)) || existsb (fun e => nltb o e (nneg o atol)) (eig (fst km)) then Some (ENotPSD (fst km))
      else if forallb (forallb (fun x => neqb o x (n0 o))) (snd km) then Some (EAllZero (fst km))
      else None) (indexed s)).

(* the validation of draw_gmm, in source order; None = no error raised *)
Definition gmm_check (g : gmm_in) (eig : nat -> list T) : option gmm_err :=
  let K := g_K g in let d := g_d g in let sc := g_scale g in let p := g_p g in
  if (K <? 2) || (d <? 1) || (scale_len sc <? 2) || (length p <? 2) then Some EArrayCheck
  else if negb (K =? scale_len sc) then Some ECountCov                             (* K != scale.shape[0] *)
  else if negb (d =? 1) && negb (scale_square d sc) then Some ENotSquare           (* d != 1 and (ndim != 3 or ...) *)
  else if negb (K =? length p) then Some ECountP                                   (* K != pvals.shape[0] *)
  else if existsb (fun x => nleb o x (n0 o)) p then Some ENonPosP                  (* np.any(pvals <= 0) *)
  else if negb (isclose (suml p) (n1 o)) then Some ESumP                           (* not np.isclose(np.sum(pvals), 1) *)
  else if d =? 1 then match sc with Sc2 s => check_var s | Sc3 _ => Some EArray end
  else match sc with Sc3 s => check_cov s eig | Sc2 _ => Some ENotSquare end.

(* y = generator.choice(K, p=pvals, size=(n,))
   d == 1:  X += [generator.normal(loc[k], np.sqrt(scale[k]), size=(n,))]          for k in range(len(loc))
   else:    X += [generator.multivariate_normal(loc[k], scale[k], size=(n,))]      for k in range(len(loc)) *)
Definition gmm_calls (n : nat) (g : gmm_in) : list call :=
  CChoice (g_K g) (g_p g) n ::
  (if g_d g =? 1
   then match g_scale g with
        | Sc2 s => map (fun lv => CNormal (fst lv) (map (nsqrt o) (snd lv)) n) (combine (g_loc g) s)
        | Sc3 _ => []
        end
   else match g_scale g with
        | Sc3 s => map (fun lm => CMvn (fst lm) (snd lm) n) (combine (g_loc g) s)
        | Sc2 _ => []
        end).

(* X[k] as a list of rows: a vector of n scalars (1-D case; X[k][i].reshape((1,-1)) is the row [x]) or an n x d matrix *)
Definition comp_rows (r : draw) : option (list (list T)) :=
  match r with DVec v => Some (map (fun x => [x]) v) | DMat m => Some m | DLabels _ => None end.
(* return np.concatenate(X, axis=0), y *)
Definition gmm_run (rs : list draw) : option (list (list T) * list nat) :=
  match rs with
  | DLabels y :: comps =>
      match all_some (map comp_rows comps) with Some X => Some (gmm_select [] y X, y) | None => None end
  | _ => None
  end.

(* ---------------------------------------------------------------- multivariate_student_t *)
(* d = len(loc); if scale.shape[0] != d or scale.shape[1] != d: raise ValueError *)
Definition student_check (loc : list T) (scale : list (list T)) : bool :=
  let d := length loc in negb (negb (d =? length scale) || negb (d =? length (hd [] scale))).
(* nx = generator.multivariate_normal(np.zeros(d), scale, size=n);  u = generator.chisquare(df, n) *)
Definition student_calls (n : nat) (loc : list T) (scale : list (list T)) (df : T) : list call :=
  [CMvn (repeat (n0 o) (length loc)) scale n; CChisq df n].
(* an n x d array computed entry-wise from a column u (n,1), a matrix nx (n,d) and a row loc (1,d) by broadcasting *)
Definition entry_rows (f : T -> T -> T -> T) (loc : list T) (nx : list (list T)) (u : list T) : list (list T) :=
  map (fun ru => map (fun zl => f (snd ru) (fst zl) (snd zl)) (combine (fst ru) loc)) (combine nx u).
(* X = np.sqrt(df / u) * nx + loc.reshape((1, -1))         (one entry) *)
Definition student_entry (df u_i nx_ij loc_j : T) : T := nadd o (nmul o (nsqrt o (ndiv o df u_i)) nx_ij) loc_j.
Definition student_rows (df : T) (loc : list T) (nx : list (list T)) (u : list T) : list (list T) :=
  entry_rows (student_entry df) loc nx u.
Definition student_run (df : T) (loc : list T) (rs : list draw) : option (list (list T)) :=
  match rs with [DMat nx; DVec u] => Some (student_rows df loc nx u) | _ => None end.

(* ---------------------------------------------------------------- gstm *)
(* n_gaussian = 3 * n // 4 *)
Definition gstm_n_gauss (n : nat) : nat := (gstm_split_num * n) / gstm_split_den.
(* draw_gmm(n_gaussian, locations[:-1], [covariance] * 3, np.ones(3) / 3, generator) *)
Definition gstm_gmm_in (alpha : T) : gmm_in :=
  {| g_loc := scaled alpha gstm_gmm_loc_over_alpha; g_scale := Sc3 (map matQ gstm_gmm_cov); g_p := map ofQ gstm_gmm_pvals |}.
Definition gstm_student_loc (alpha : T) : list T := scaledv alpha gstm_student_loc_over_alpha.
Definition gstm_calls (n : nat) (alpha df : T) : list call :=
  let ng := gstm_n_gauss n in
  gmm_calls ng (gstm_gmm_in alpha)
  ++ student_calls (n - ng) (gstm_student_loc alpha) (matQ gstm_student_scale) df
  ++ [CPerm n].
(* X = np.vstack([X_gaussian, X_student]); y = np.concatenate([y_gaussian, np.ones(n_student) * 3]);
   order = generator.permutation(n); return X[order], y[order] *)
Definition gstm_run (n : nat) (alpha df : T) (rs : list draw) : option (list (list T) * list nat) :=
  let ng := gstm_n_gauss n in
  let k := S (length gstm_gmm_loc_over_alpha) in
  match gmm_run (firstn k rs), skipn k rs with
  | Some (Xg, yg), [zx; u; DLabels order] =>
      match student_run df (gstm_student_loc alpha) [zx; u] with
      | Some Xs => Some (take_rows [] (Xg ++ Xs) order,
                         take_rows 0 (yg ++ repeat gstm_student_label (n - ng)) order)
      | None => None
      end
  | _, _ => None
  end.

(* ---------------------------------------------------------------- celeux_one *)
(* draw_gmm(n, [mu1, mu2, mu3], [cov, cov, cov], np.ones(3) / 3, generator) *)
Definition c1_gmm_in (mu : T) : gmm_in :=
  {| g_loc := scaled mu c1_loc_over_mu; g_scale := Sc3 (map matQ c1_cov); g_p := map ofQ c1_pvals |}.
(* noise = generator.normal(size=(n, p)) *)
Definition c1_calls (n p : nat) (mu : T) : list call := gmm_calls n (c1_gmm_in mu) ++ [CStdNormal n p].
(* return np.concatenate([good_variables, noise], axis=1), y *)
Definition c1_run (rs : list draw) : option (list (list T) * list nat) :=
  let k := S (length c1_loc_over_mu) in
  match gmm_run (firstn k rs), skipn k rs with
  | Some (G, y), [DMat noise] => Some (map (fun gn => fst gn ++ snd gn) (combine G noise), y)
  | _, _ => None
  end.

(* ---------------------------------------------------------------- celeux_two *)
Definition c2_gmm_in : gmm_in :=
  {| g_loc := matQ c2_loc; g_scale := Sc3 (map matQ c2_cov); g_p := map ofQ c2_pvals |}.
Definition c2_cov_noise_T (s3 : T) : list (list T) := map (map (ofqs s3)) c2_cov_noise.
(* noise = generator.multivariate_normal(np.zeros(9), cov_noise, size=(n,))
   X12_14 = generator.multivariate_normal(np.array([3.2, 3.6, 4]), np.eye(3), size=(n,)) *)
Definition c2_calls (n : nat) : list call :=
  gmm_calls n c2_gmm_in
  ++ [CMvn (map ofQ c2_noise_mean) (c2_cov_noise_T sqrt3) n; CMvn (map ofQ c2_tail_mean) (matQ c2_tail_cov) n].
(* (good_variables @ b)[i, j] *)
Definition dotcol (g : list T) (b : list (list T)) (j : nat) : T :=
  fold_left (nadd o) (map (fun gb => nmul o (fst gb) (nth j (snd gb) (n0 o))) (combine g b)) (n0 o).
(* X3_11 = np.array([0, 0, 0.4, ...]) + good_variables @ b + noise        (one row) *)
Definition c2_linear_row (good noise : list T) : list T :=
  map (fun j => nadd o (nadd o (ofQ (nth j c2_offsets 0%Q)) (dotcol good (matQ c2_b) j)) (nth j noise (n0 o)))
      (seq 0 (length c2_offsets)).
(* bad_variables = np.concatenate([X3_11, X12_14], axis=1); return np.concatenate([good_variables, bad_variables], axis=1), y *)
Definition c2_run (rs : list draw) : option (list (list T) * list nat) :=
  let k := S (length c2_loc) in
  match gmm_run (firstn k rs), skipn k rs with
  | Some (G, y), [DMat noise; DMat tail] =>
      Some (map (fun r => fst (fst r) ++ c2_linear_row (fst (fst r)) (snd (fst r)) ++ snd r) (combine (combine G noise) tail), y)
  | _, _ => None
  end.
End Gen.

Arguments CChoice {T}. Arguments CNormal {T}. Arguments CStdNormal {T}. Arguments CMvn {T}. Arguments CChisq {T}. Arguments CPerm {T}.
Arguments DLabels {T}. Arguments DVec {T}. Arguments DMat {T}.
Arguments Sc2 {T}. Arguments Sc3 {T}.
(* EXTRACT: gmm_check gmm_calls gmm_run student_check student_calls student_run gstm_n_gauss gstm_calls gstm_run c1_calls c1_run c2_calls c2_run *)
