(* Forward passes (the `_infer` methods) of the gradient-trained models, and the softmax they share.
   Sources: sklearn.utils.extmath.softmax (row max subtracted, exp, normalised),
   linear/_linear_geminis.py::LinearModel._infer (also RIM, KernelRIM on kernel rows, sparse linear),
   mlp/_mlp_geminis.py::MLPModel._infer, sparse/_mlp_sparse.py::SparseMLPModel._infer,
   nonparametric/_categorical_models.py::CategoricalModel._infer.
   Matrices are total functions nat -> nat -> T with explicit dimensions.  No proofs here. *)
From Coq Require Import List Bool Arith.
From GV Require Import Common.Num.
Import ListNotations.

Section Forward.
Context {T : Type} (o : NumOps T).
Local Notation sum := (bsum o).
Definition Mat := nat -> nat -> T.

(* max of z 0 .. z (K-1), K >= 1 *)
Fixpoint vmax (K : nat) (z : nat -> T) : T :=
  match K with O => n0 o | S O => z O | S m => nmax o (vmax m z) (z m) end.
(* softmax of one row of logits of length K *)
Definition softmax_row (K : nat) (z : nat -> T) (k : nat) : T :=
  let m := vmax K z in
  let e := fun c => nexp o (nsub o (z c) m) in
  ndiv o (e k) (sum K e).
Definition softmax (K : nat) (Z : Mat) : Mat := fun i k => softmax_row K (Z i) k.

(* X @ W + b  with X : n x d, W : d x K, b : 1 x K *)
Definition affine (d : nat) (X W : Mat) (b : nat -> T) : Mat :=
  fun i k => nadd o (sum d (fun j => nmul o (X i j) (W j k))) (b k).
Definition matmul (d : nat) (X W : Mat) : Mat := fun i k => sum d (fun j => nmul o (X i j) (W j k)).
Definition relu (x : T) : T := nmax o x (n0 o).          (* np.maximum(x, 0) *)

(* LinearModel._infer: softmax(X @ W_ + b_) *)
Definition linear_infer (d K : nat) (W : Mat) (b : nat -> T) (X : Mat) : Mat :=
  softmax K (affine d X W b).
(* MLPModel._infer: H = max(X W1 + b1, 0); softmax(H W2 + b2) *)
Definition mlp_hidden (d h : nat) (W1 : Mat) (b1 : nat -> T) (X : Mat) : Mat :=
  fun i j => relu (affine d X W1 b1 i j).
Definition mlp_infer (d h K : nat) (W1 : Mat) (b1 : nat -> T) (W2 : Mat) (b2 : nat -> T) (X : Mat) : Mat :=
  softmax K (affine h (mlp_hidden d h W1 b1 X) W2 b2).
(* SparseMLPModel._infer: softmax(H W2 + b2 + X W_skip) *)
Definition sparse_mlp_infer (d h K : nat) (W1 : Mat) (b1 : nat -> T) (W2 : Mat) (b2 : nat -> T) (Wskip : Mat) (X : Mat) : Mat :=
  softmax K (fun i k => nadd o (affine h (mlp_hidden d h W1 b1 X) W2 b2 i k) (matmul d X Wskip i k)).
(* CategoricalModel._infer: softmax(logits_) — one row of free logits per training sample *)
Definition categorical_infer (K : nat) (logits : Mat) : Mat := softmax K logits.
(* KernelRIM.predict_proba: softmax(kernel(X, X_train) @ W_ + b_), the kernel being an oracle *)
Definition kernel_rim_infer (ntrain K : nat) (W : Mat) (b : nat -> T) (Kx : Mat) : Mat :=
  linear_infer ntrain K W b Kx.

(* argmax(axis=1): first index of the maximum *)
Fixpoint argmax_row (K : nat) (z : nat -> T) : nat :=
  match K with O => O | S O => O | S m => let a := argmax_row m z in if nltb o (z a) (z m) then m else a end.
End Forward.
(* EXTRACT: vmax softmax_row softmax affine matmul relu linear_infer mlp_hidden mlp_infer sparse_mlp_infer categorical_infer kernel_rim_infer argmax_row *)
