(* C20 - the DOCUMENTED parameters of the synthetic datasets, written by hand (nothing here is generated, nothing
   here is extracted).  Sources: the docstrings of gemclus/data/synthetic_data.py and the designs they cite.

   gstm        docstring + GEMINI article (Ohl et al., NeurIPS 2022, "Gaussian-Student mixture"): four equiprobable
               components located at (+-alpha, +-alpha) with identity covariance / scale; the first three are
               Gaussian (labels 0, 1, 2), the fourth (label 3) is a multivariate Student-t with df degrees of
               freedom.  The code realises "equiprobable" as: 3n//4 samples from a three-component GMM with
               weights 1/3, the remaining n - 3n//4 samples from the Student-t, then one shuffle.
   celeux_one  Celeux et al. (2014) section 3.1: three equiprobable spherical Gaussians N(mu_k, I_5) with
               mu_1 = -mu_2 = (mu, ..., mu), mu_3 = 0, completed by p independent N(0, 1) variables.
               (The docstring's "respective means 1, 0 and 1 ... scaled by mu" is garbled; the cited design is used.)
   celeux_two  Celeux et al. (2014) section 3.2 (design of Maugis et al. 2009): X^{1,2} is a mixture of four
               equiprobable N(mu_k, I_2), mu = (0,0), (4,0), (0,2), (4,2);
               X^{3..11} = a + X^{1,2} b + eps, eps ~ N(0, Omega),
                 a = (0, 0, 0.4, 0.8, 1.2, 1.6, 2.0, 2.4, 2.8),
                 b = ((0.5,1)', (2,0)', (0,3)', (-1,2)', (2,-4)', (0.5,0)', (4,0.5)', (3,0)', (2,1)'),
                 Omega = diag(I_3, 0.5 I_2, Omega_1, Omega_2),
                 Omega_1 = Rot(pi/3)' diag(1,3) Rot(pi/3), Omega_2 = Rot(pi/6)' diag(2,6) Rot(pi/6);
               X^{12..14} ~ N((3.2, 3.6, 4), I_3).
               The repository documents a, b and Omega only through the code; the values below are the cited
               design's and coincide with the pinned commit.
   Numbers of Q[sqrt 3] are pairs (a, b) = a + b * sqrt 3.  No proofs in this file. *)
From Coq Require Import List Arith QArith.
Import ListNotations.
Open Scope Q_scope.

(* ---- exact arithmetic in Q[sqrt 3] *)
Definition qs_add (x y : Q * Q) : Q * Q := (fst x + fst y, snd x + snd y).
Definition qs_mul (x y : Q * Q) : Q * Q := (fst x * fst y + 3 * (snd x * snd y), fst x * snd y + snd x * fst y).
Definition qs_ofQ (q : Q) : Q * Q := (q, 0).
Definition qs_red (x : Q * Q) : Q * Q := (Qred (fst x), Qred (snd x)).
Definition qs_get (m : list (list (Q * Q))) (i j : nat) : Q * Q := nth j (nth i m []) (0, 0).
Definition qsmat (m : list (list Q)) : list (list (Q * Q)) := map (map qs_ofQ) m.

Definition eyeQ (n : nat) : list (list Q) :=
  map (fun i => map (fun j => if Nat.eqb i j then 1 else 0) (seq 0 n)) (seq 0 n).
Definition scaleQ (c : Q) (m : list (list Q)) : list (list Q) := map (map (Qmult c)) m.
(* R' diag(D) R *)
Definition conj_diag (R : list (list (Q * Q))) (D : list Q) : list (list (Q * Q)) :=
  let idx := seq 0 (length D) in
  map (fun i => map (fun j =>
        fold_left qs_add (map (fun k => qs_mul (qs_mul (qs_get R k i) (qs_ofQ (nth k D 0))) (qs_get R k j)) idx) (0, 0))
      idx) idx.
Fixpoint block_diag_from (n off : nat) (bs : list (list (list (Q * Q)))) : list (list (Q * Q)) :=
  match bs with
  | [] => []
  | b :: r => map (fun row => repeat (0, 0) off ++ row ++ repeat (0, 0) (n - off - length b)) b
              ++ block_diag_from n (off + length b) r
  end.
Definition block_diag (bs : list (list (list (Q * Q)))) : list (list (Q * Q)) :=
  block_diag_from (list_sum (map (@length _) bs)) 0 bs.

(* ---- gstm *)
Definition doc_gstm_locations_over_alpha : list (list Q) := [[1; 1]; [1; -1]; [-1; 1]; [-1; -1]].
Definition doc_gstm_gaussians : nat := 3.                      (* components 0, 1, 2 are Gaussian *)
Definition doc_gstm_student_label : nat := 3.                  (* the fourth component *)
Definition doc_gstm_gaussian_share : nat * nat := (3, 4)%nat.  (* three of four equiprobable components: 3n//4 samples *)
Definition doc_gstm_gmm_pvals : list Q := [1 # 3; 1 # 3; 1 # 3].
Definition doc_gstm_cov : list (list Q) := eyeQ 2.

(* ---- celeux_one *)
Definition doc_c1_loc_over_mu : list (list Q) := [repeat 1 5; repeat (-1) 5; repeat 0 5].
Definition doc_c1_cov : list (list Q) := eyeQ 5.
Definition doc_c1_pvals : list Q := [1 # 3; 1 # 3; 1 # 3].

(* ---- celeux_two *)
Definition doc_c2_loc : list (list Q) := [[0; 0]; [4; 0]; [0; 2]; [4; 2]].
Definition doc_c2_cov : list (list Q) := eyeQ 2.
Definition doc_c2_pvals : list Q := [1 # 4; 1 # 4; 1 # 4; 1 # 4].
Definition doc_c2_offsets : list Q := [0; 0; 2 # 5; 4 # 5; 6 # 5; 8 # 5; 2; 12 # 5; 14 # 5].
Definition doc_c2_b : list (list Q) :=
  [[1 # 2; 2; 0; -1;  2; 1 # 2;     4; 3; 2];
   [    1; 0; 3;  2; -4;     0; 1 # 2; 0; 1]].
(* Rot(theta) = [[cos theta, -sin theta], [sin theta, cos theta]];  cos(pi/3) = sin(pi/6) = 1/2, sin(pi/3) = cos(pi/6) = sqrt 3 / 2 *)
Definition doc_rot_pi_3 : list (list (Q * Q)) := [[(1 # 2, 0); (0, - (1 # 2))]; [(0, 1 # 2); (1 # 2, 0)]].
Definition doc_rot_pi_6 : list (list (Q * Q)) := [[(0, 1 # 2); (- (1 # 2), 0)]; [(1 # 2, 0); (0, 1 # 2)]].
Definition doc_c2_noise_blocks : list (list (list (Q * Q))) :=
  [qsmat (eyeQ 3); qsmat (scaleQ (1 # 2) (eyeQ 2)); conj_diag doc_rot_pi_3 [1; 3]; conj_diag doc_rot_pi_6 [2; 6]].
Definition doc_c2_cov_noise : list (list (Q * Q)) := map (map qs_red) (block_diag doc_c2_noise_blocks).
Definition doc_c2_noise_mean : list Q := repeat 0 9.
Definition doc_c2_tail_mean : list Q := [16 # 5; 18 # 5; 4].
Definition doc_c2_tail_cov : list (list Q) := eyeQ 3.
