(* C04 — interpretation of the regenerated method bodies (Gen/CoherenceRules.v, syntax in
   Model/CoherenceSyntax.v).  A body is run against a *world* that gives a meaning to what the body calls:
   hyper-parameters and fitted attributes (self.a), other methods of the object (self.m(..)), the methods of
   the parent class (super().m(..), which write attributes), global functions, methods of other objects and
   calls of objects.  The worlds below bind those names to the hand-written model of Model/Coherence.v /
   Model/Forward.v (and, for Kauri, Model/KauriTree.v); Proofs/Coherence.v shows that running the regenerated
   bodies in these worlds yields exactly the hand-written relations.  Anything a world does not know
   evaluates to VErr, so a changed callee, argument, axis or attribute makes those proofs fail.
   No proofs in this file; nothing here is extracted. *)
From Coq Require Import List Bool Arith String ZArith.
From GV Require Import Common.Num Model.Forward Model.Coherence Model.CoherenceSyntax.
From GV Require Model.KauriTree.
Import ListNotations.
Local Open Scope string_scope.

Section Interp.
Context {T A : Type} (o : NumOps T).
Local Notation MatT := (@Mat T).

Inductive value :=
| VMat (cols : nat) (m : MatT)                    (* float matrix with `cols` columns (data: d, probabilities: K, kernel rows: ntrain) *)
| VLabels (l : nat -> nat)                        (* integer vector *)
| VNum (x : T) | VNat (n : nat) | VZ (z : Z) | VStr (s : string) | VBool (b : bool) | VNone
| VKw (k : string) (v : value)                    (* keyword argument *)
| VAff (a : A)                                    (* affinity returned by gemini.compute_affinity *)
| VGem                                            (* the GEMINI object returned by get_gemini *)
| VWeights | VRng | VSelf
| VOptim (k : optimiser) (w lr : value)           (* SGDOptimizer(w, lr) / AdamOptimizer(w, lr) *)
| VFitted (attrs : list (string * value))         (* the object after fit: its attribute writes *)
| VRange (n : nat)                                (* range(n) *)
| VNMat (r c : nat) (m : nat -> nat -> nat)       (* integer matrix (Kauri's Y, Z) *)
| VNVec (n : nat) (v : nat -> nat)
| VTree (t : KauriTree.tree) | VData (X : KauriTree.data) | VPreds (l : list (option nat))
| VKernel (ker : nat -> nat -> T)
| VErr.

Record world := {
  w_attr : string -> value;                                  (* self.a for hyper-parameters / attributes fitted earlier *)
  w_self : string -> list value -> value;                    (* self.m(args) *)
  w_super : string -> list value -> list (string * value);   (* attributes written by super().m(args) *)
  w_fn : string -> list value -> value;                      (* global functions / classes *)
  w_meth : value -> string -> list value -> value;           (* obj.m(args) *)
  w_apply : value -> list value -> value }.                  (* obj(args) *)

Fixpoint lookup (a : string) (l : list (string * value)) : option value :=
  match l with [] => None | (k, v) :: r => if String.eqb k a then Some v else lookup a r end.

(* built-in meaning of the canonical operators *)
Definition argmax_value (v : value) (axis : Z) : value :=
  match v, axis with
  | VMat c m, 1%Z => VLabels (labels_of o c m)                                           (* row-wise first maximiser *)
  | VNMat r c m, 0%Z => VNVec c (fun j => KauriTree.argmax_nat r (fun i => m i j))        (* column-wise first maximiser *)
  | _, _ => VErr
  end.
Definition matmul_value (a b : value) : value :=
  match a, b with
  | VNMat r c x, VNMat _ c' y => VNMat r c' (fun i j => KauriTree.sumn c (fun l => x i l * y l j))   (* inner dimension of the left operand *)
  | _, _ => VErr
  end.

Section Eval.
Variable w : world.
Variable env : string -> value.                   (* the method's arguments *)

Fixpoint eval (store : list (string * value)) (e : cexpr) : value :=
  match e with
  | EVar x => env x
  | ESelf => VSelf
  | ESelfAttr a => match lookup a store with Some v => v | None => w_attr w a end
  | ESelfCall m args => w_self w m (map (eval store) args)
  | ESuperCall _ _ => VErr                         (* only meaningful as a statement, see exec *)
  | ECall f args => w_fn w f (map (eval store) args)
  | EMeth obj m args => w_meth w (eval store obj) m (map (eval store) args)
  | EApply f args => w_apply w (eval store f) (map (eval store) args)
  | EAttr obj a => match eval store obj with
                   | VFitted attrs => match lookup a attrs with Some v => v | None => VErr end
                   | VMat c _ => if String.eqb a "shape" then VNVec 2 (fun k => match k with 1 => c | _ => 0 end) else VErr
                   | _ => VErr end
  | EIndex obj k => match eval store obj, k with
                    | VNVec _ v, 1%Z => VNat (v 1)
                    | _, _ => VErr end
  | EArgmax x axis => argmax_value (eval store x) axis
  | EItem x => match eval store x with VNum t => VNum t | _ => VErr end
  | EMatMul a b => matmul_value (eval store a) (eval store b)
  | EEq a b => match eval store a, eval store b with VStr s, VStr t => VBool (String.eqb s t) | _, _ => VErr end
  | EKw k x => VKw k (eval store x)
  | EGlobal n => VStr n
  | EStr s => VStr s | EInt z => VZ z | EBool b => VBool b | ENone => VNone
  end.

Record cstate := { cs_store : list (string * value); cs_ret : option value }.
Definition set_attr (a : string) (v : value) (st : cstate) : cstate := {| cs_store := (a, v) :: cs_store st; cs_ret := cs_ret st |}.
Definition add_attrs (l : list (string * value)) (st : cstate) : cstate := {| cs_store := l ++ cs_store st; cs_ret := cs_ret st |}.
Definition set_ret (v : value) (st : cstate) : cstate := {| cs_store := cs_store st; cs_ret := Some v |}.

Fixpoint exec_s (s : cstmt) (st : cstate) : cstate :=
  match cs_ret st with
  | Some _ => st                                   (* already returned *)
  | None =>
    let run := fix run (l : list cstmt) (st : cstate) : cstate := match l with [] => st | s :: r => run r (exec_s s st) end in
    match s with
    | SSetAttr a e => set_attr a (eval (cs_store st) e) st
    | SExpr (ESuperCall m args) => add_attrs (w_super w m (map (eval (cs_store st)) args)) st
    | SExpr e => match eval (cs_store st) e with VErr => set_ret VErr st | _ => st end
    | SIf c th el => match eval (cs_store st) c with
                     | VBool true => run th st
                     | VBool false => run el st
                     | _ => set_ret VErr st end
    | SReturn (ESuperCall m args) => set_ret VSelf (add_attrs (w_super w m (map (eval (cs_store st)) args)) st)   (* parent fit returns self *)
    | SReturn e => set_ret (eval (cs_store st) e) st
    end
  end.
Fixpoint exec (l : list cstmt) (st : cstate) : cstate := match l with [] => st | s :: r => exec r (exec_s s st) end.
Definition init_state : cstate := {| cs_store := []; cs_ret := None |}.
Definition run_body (l : list cstmt) : cstate := exec l init_state.
Definition returned (st : cstate) : value := match cs_ret st with Some v => v | None => VNone end.
Definition attr_after (a : string) (st : cstate) : value := match lookup a (cs_store st) with Some v => v | None => VErr end.
End Eval.

(* ------------------------------------------------------------------ the standard worlds *)
Definition env1 (X : value) : string -> value := fun x => if String.eqb x "X" then X else VErr.
Definition env2 (X y : value) : string -> value := fun x => if String.eqb x "X" then X else if String.eqb x "y" then y else VErr.

(* global functions: on finite numeric two-dimensional data check_array and validate_data return the data;
   check_is_fitted passes on a fitted object *)
Definition fn_std (f : string) (args : list value) : value :=
  if String.eqb f "check_array" then
    match args with
    | [VMat c X] => VMat c X | [VData X] => VData X
    (* check_array(X, dtype=np.float64): the data of the model are reals / exact integers, the conversion to double is the identity *)
    | [VMat c X; VKw k (VStr t)] => if String.eqb k "dtype" && String.eqb t "np.float64" then VMat c X else VErr
    | [VData X; VKw k (VStr t)] => if String.eqb k "dtype" && String.eqb t "np.float64" then VData X else VErr
    | _ => VErr end
  else if String.eqb f "validate_data" then match args with VSelf :: VMat c X :: _ => VMat c X | _ => VErr end
  else if String.eqb f "check_is_fitted" then match args with [VSelf] => VNone | _ => VErr end
  else if String.eqb f "check_random_state" then match args with [_] => VRng | _ => VErr end
  else if String.eqb f "check_groups" then match args with [_; VNat _] => VNone | _ => VErr end
  else if String.eqb f "SGDOptimizer" then match args with [wt; lr] => VOptim SGDOptimizer wt lr | _ => VErr end
  else if String.eqb f "AdamOptimizer" then match args with [wt; lr] => VOptim AdamOptimizer wt lr | _ => VErr end
  else if String.eqb f "range" then match args with [VNat n] => VRange n | _ => VErr end
  else VErr.

Definition no_super : string -> list value -> list (string * value) := fun _ _ => [].

(* hyper-parameters of a gradient-trained estimator *)
Record hyper := { h_max_iter : nat; h_solver : string; h_lr : T; h_n_clusters : nat }.
Definition attr_hyper (h : hyper) (a : string) : value :=
  if String.eqb a "max_iter" then VNat (h_max_iter h)
  else if String.eqb a "solver" then VStr (h_solver h)
  else if String.eqb a "learning_rate" then VNum (h_lr h)
  else if String.eqb a "n_clusters" then VNat (h_n_clusters h)
  else if String.eqb a "random_state" then VNone
  else if String.eqb a "groups" then VNone
  else VErr.

Section Gradient.
Variable K : nat.
Variable p : params (T:=T).                       (* the fitted parameters (whatever the training loop produced) *)
Variable h : hyper.
Variable gemini : MatT -> A -> T.                 (* the GEMINI returned by get_gemini, as a function *)
Variable affinity : MatT -> A.                    (* its compute_affinity(X, y), y fixed *)
Variable kern : MatT -> MatT.                     (* KernelRIM._compute_kernel: X |-> k(X, X_train) *)
Variable ntrain : nat.

(* level 0: the primitives the translated bodies bottom out in *)
Definition self0 (m : string) (args : list value) : value :=
  if String.eqb m "_infer" then
    match args with
    | [VMat _ X] => VMat K (infer o K p X)
    | [VMat _ X; VKw k (VBool _)] => if String.eqb k "retain" then VMat K (infer o K p X) else VErr
    | _ => VErr end
  else if String.eqb m "get_gemini" then match args with [] => VGem | _ => VErr end
  else if String.eqb m "_get_weights" then match args with [] => VWeights | _ => VErr end
  else if String.eqb m "_validate_params" then match args with [] => VNone | _ => VErr end
  else if String.eqb m "_init_params" then match args with [VRng; VMat _ _] => VNone | _ => VErr end
  else if String.eqb m "_compute_kernel" then match args with [VMat _ X] => VMat ntrain (kern X) | _ => VErr end
  else VErr.
Definition meth0 (obj : value) (m : string) (args : list value) : value :=
  match obj with
  | VGem => if String.eqb m "compute_affinity" then match args with [VMat _ X; _] => VAff (affinity X) | _ => VErr end else VErr
  | _ => VErr end.
Definition apply0 (f : value) (args : list value) : value :=
  match f, args with
  | VGem, [VMat _ P; VAff a] => VNum (gemini P a)
  | _, _ => VErr end.
Definition world0 : world :=
  {| w_attr := attr_hyper h; w_self := self0; w_super := no_super; w_fn := fn_std; w_meth := meth0; w_apply := apply0 |}.

Definition with_self (w : world) (m : string) (f : list value -> value) : world :=
  {| w_attr := w_attr w; w_self := fun m' args => if String.eqb m' m then f args else w_self w m' args;
     w_super := w_super w; w_fn := w_fn w; w_meth := w_meth w; w_apply := w_apply w |}.
Definition with_super (w : world) (m : string) (f : list value -> list (string * value)) : world :=
  {| w_attr := w_attr w; w_self := w_self w; w_super := fun m' args => if String.eqb m' m then f args else w_super w m' args;
     w_fn := w_fn w; w_meth := w_meth w; w_apply := w_apply w |}.

(* level 1: self.predict_proba resolves to a translated body (DiscriminativeModel's or KernelRIM's) *)
Definition run_predict_proba (pp_body : list cstmt) (X : value) : value := returned (run_body world0 (env1 X) pp_body).
Definition world1 (pp_body : list cstmt) : world :=
  with_self world0 "predict_proba" (fun args => match args with [X] => run_predict_proba pp_body X | _ => VErr end).
Definition run_predict (pp_body predict_body : list cstmt) (X : value) : value :=
  returned (run_body (world1 pp_body) (env1 X) predict_body).
Definition run_score (pp_body score_body : list cstmt) (X y : value) : value :=
  returned (run_body (world1 pp_body) (env2 X y) score_body).

(* fit of the base class: statements before the loop, [the training loop: its outcome is the parameter p],
   statements after it; the result is the object with the attributes written *)
Definition run_fit (pre post : list cstmt) (X y : value) : cstate := exec world0 (env2 X y) post (run_body world0 (env2 X y) pre).
Definition run_epochs (e : cexpr) : value := eval world0 (env2 VErr VErr) [] e.
Definition fit_store (pre post : list cstmt) (X y : value) : list (string * value) := cs_store (run_fit pre post X y).
(* a subclass fit that delegates to the parent fit through super().fit(X', y); fs X' y = the attributes the parent fit writes *)
Definition world_sub (fs : value -> value -> list (string * value)) : world :=
  with_super world0 "fit" (fun args => match args with [X; y] => fs X y | _ => [] end).
Definition run_subfit (fs : value -> value -> list (string * value)) (body : list cstmt) (X y : value) : cstate :=
  run_body (world_sub fs) (env2 X y) body.
(* fit_predict: self.fit(X, y) is the object after the class's own fit *)
Definition run_fit_predict (fs : value -> value -> list (string * value)) (body : list cstmt) (X y : value) : value :=
  returned (run_body (with_self world0 "fit" (fun args => match args with [X; y] => VFitted (fs X y) | _ => VErr end)) (env2 X y) body).
End Gradient.

(* ------------------------------------------------------------------ Kauri *)
Section Kauri.
Variable P : KauriTree.params.
Variable X : KauriTree.data.
Variable st : KauriTree.state.                    (* the loop state when Kauri.fit leaves its loop *)
Variable Kk : nat.                                (* max_clusters *)
Variable ker : KauriTree.data -> nat -> nat -> T. (* _compute_kernel(X, y), y fixed *)

Definition b2n (b : bool) : nat := if b then 1 else 0.
Definition kauri_env : string -> value := fun x =>
  let L := KauriTree.eff_max_leaves P (List.length X) in
  if String.eqb x "Y" then VNMat (KauriTree.max_clusters P) L (fun k l => b2n (KauriTree.st_Y st k l))
  else if String.eqb x "Z" then VNMat L (List.length X) (fun l i => b2n (KauriTree.st_Z st l i))
  else VErr.
Definition world_none : world :=
  {| w_attr := fun _ => VErr; w_self := fun _ _ => VErr; w_super := no_super; w_fn := fn_std; w_meth := fun _ _ _ => VErr; w_apply := fun _ _ => VErr |}.
Definition run_kauri_tail (body : list cstmt) : cstate := run_body world_none kauri_env body.

(* predict / score on data X' with the fitted tree *)
Definition kauri_world0 (t : KauriTree.tree) : world :=
  {| w_attr := fun a => if String.eqb a "tree_" then VTree t else VErr;
     w_self := fun m args => if String.eqb m "_compute_kernel" then match args with [VData X'; _] => VKernel (ker X') | _ => VErr end else VErr;
     w_super := no_super; w_fn := fn_std;
     w_meth := fun obj m args => match obj, args with
                                 | VTree t', [VData X'] => if String.eqb m "predict" then VPreds (KauriTree.predict t' X') else VErr
                                 | _, _ => VErr end;
     w_apply := fun _ _ => VErr |}.
Definition run_kauri_predict (t : KauriTree.tree) (body : list cstmt) (X' : KauriTree.data) : value :=
  returned (run_body (kauri_world0 t) (env1 (VData X')) body).
(* gemini_objective(y_pred, kernel): the C09 objective of the predicted labels (an unroutable row gets the impossible label K) *)
Definition kauri_world1 (t : KauriTree.tree) (predict_body : list cstmt) : world :=
  let w0 := kauri_world0 t in
  {| w_attr := w_attr w0;
     w_self := fun m args => if String.eqb m "predict" then match args with [VData X'] => run_kauri_predict t predict_body X' | _ => VErr end
                             else w_self w0 m args;
     w_super := no_super;
     w_fn := fun f args => if String.eqb f "gemini_objective" then
                             match args with
                             | [VPreds l; VKernel kk] => VNum (KauriTree.objective o (List.length l) Kk kk (fun i => match nth i l None with Some c => c | None => Kk end))
                             | _ => VErr end
                           else fn_std f args;
     w_meth := w_meth w0; w_apply := w_apply w0 |}.
Definition run_kauri_score (t : KauriTree.tree) (predict_body score_body : list cstmt) (X' : KauriTree.data) (y : value) : value :=
  returned (run_body (kauri_world1 t predict_body) (env2 (VData X') y) score_body).
End Kauri.

(* ------------------------------------------------------------------ method resolution *)
Fixpoint assoc (k : string) (l : override_table) : list string :=
  match l with [] => [] | (k', v) :: r => if String.eqb k k' then v else assoc k r end.
Definition defines (over : override_table) (cls m : string) : bool := existsb (String.eqb m) (assoc cls over).
(* first class along the (single-inheritance, left-most known base) chain that defines m *)
Fixpoint resolve (fuel : nat) (over bases : override_table) (cls m : string) : option string :=
  match fuel with
  | O => None
  | S f => if defines over cls m then Some cls
           else match filter (fun b => existsb (String.eqb b) (map fst over)) (assoc cls bases) with
                | b :: _ => resolve f over bases b m
                | [] => None end
  end.
End Interp.
