(* C16 — executable model of hyper-parameter validation (scikit-learn 1.9 `_param_validation` as used by
   `BaseEstimator._validate_params` and by gemclus/_constraints.py::constraint_params), of
   sparse/_base_sparse.py::check_groups, of the cross-parameter rules of Kauri.fit / Douglas._init_params, of
   the shape checks of check_array/validate_data, and of the order "checks / attribute writes" of the fit methods.
   The code is modelled as it is, quirks included.  No proofs in this file. *)
From Coq Require Import List ZArith QArith String Bool Arith.
Import ListNotations.
Open Scope string_scope.
Open Scope list_scope.

(* ------------------------------------------------------------------------------------------------ values *)
(* The Python values a hyper-parameter can be bound to, up to what the constraint objects can observe. *)
Inductive value :=
| VInt (z : Z)            (* int, numpy integer: numbers.Integral, not bool *)
| VBool (b : bool)        (* Python bool: a subclass of int, hence numbers.Integral and numbers.Real *)
| VNpBool (b : bool)      (* numpy.bool_: neither Integral nor Real nor an instance of bool *)
| VReal (q : Q)           (* finite float (every binary64 is a rational) *)
| VNaN | VPosInf | VNegInf
| VStr (s : string)
| VNone
| VCallable               (* function / lambda / builtin *)
| VArray                  (* numpy.ndarray *)
| VDict | VList | VTuple
| VInstance (cls : string) (* instance of the named class (library class, RandomState, Generator, ...) *)
| VOther.                 (* object() *)

(* extended rationals: the bounds -inf / +inf that Interval.__contains__ substitutes for None, np.inf literals *)
Inductive ext := NInf | Fin (q : Q) | PInf.
Definition qltb (x y : Q) : bool := (Qnum x * Zpos (Qden y) <? Qnum y * Zpos (Qden x))%Z.
Definition qleb (x y : Q) : bool := (Qnum x * Zpos (Qden y) <=? Qnum y * Zpos (Qden x))%Z.
(* Python compares int/int, int/float and float/float exactly *)
Definition ext_ltb (a b : ext) : bool :=
  match a, b with
  | NInf, NInf => false | NInf, _ => true
  | Fin _, NInf => false | Fin x, Fin y => qltb x y | Fin _, PInf => true
  | PInf, _ => false
  end.
Definition ext_leb (a b : ext) : bool :=
  match a, b with
  | NInf, _ => true
  | Fin _, NInf => false | Fin x, Fin y => qleb x y | Fin _, PInf => true
  | PInf, PInf => true | PInf, _ => false
  end.

(* ------------------------------------------------------------------------------------------------ constraints *)
Inductive numty := TIntegral | TReal | TRealNotInt.
Inductive closedness := CLeft | CRight | CBoth | CNeither.
Inductive constraint :=
| Interval (ty : numty) (lo hi : option ext) (c : closedness)   (* Interval(type, left, right, closed=...) *)
| StrOptions (l : list string)                                   (* StrOptions({...}) *)
| InstanceOf (cls : string)                                      (* a type object, e.g. [bool], [dict], [np.ndarray], [_GEMINI] *)
| NoneC                                                          (* None *)
| BoolC                                                          (* "boolean" *)
| CallableC                                                      (* callable *)
| RandomStateC                                                   (* "random_state" *)
| ArrayLikeC.                                                    (* "array-like" *)

(* class table: name |-> (bases, names of the special methods defined in the class body) *)
Definition class_table := list (string * (list string * list string)).
Fixpoint assoc {A} (k : string) (l : list (string * A)) : option A :=
  match l with [] => None | (k', a) :: r => if String.eqb k k' then Some a else assoc k r end.
Definition bases_of (t : class_table) (c : string) : list string := match assoc c t with Some (b, _) => b | None => [] end.
Definition methods_of (t : class_table) (c : string) : list string := match assoc c t with Some (_, m) => m | None => [] end.
Fixpoint ancestors (fuel : nat) (t : class_table) (c : string) : list string :=
  c :: match fuel with O => [] | S f => flat_map (ancestors f t) (bases_of t c) end.
Definition str_in (s : string) (l : list string) : bool := existsb (String.eqb s) l.
(* isinstance(obj of class c, target) *)
Definition subclass_of (t : class_table) (c target : string) : bool := str_in target (ancestors 8 t c).
(* hasattr(type(obj), m) for a special method m *)
Definition has_method (t : class_table) (c m : string) : bool := existsb (fun a => str_in m (methods_of t a)) (ancestors 8 t c).

Definition closed_left (c : closedness) := match c with CLeft | CBoth => true | _ => false end.
Definition closed_right (c : closedness) := match c with CRight | CBoth => true | _ => false end.
(* Interval.__contains__ (after the NaN test):
     left_cmp = lt if closed in (left, both) else le ; right_cmp = gt if closed in (right, both) else ge
     left = -inf if left is None ; right = +inf if right is None
     if left_cmp(val, left): False ; if right_cmp(val, right): False ; True *)
Definition contains (lo hi : option ext) (c : closedness) (x : ext) : bool :=
  let l := match lo with None => NInf | Some b => b end in
  let r := match hi with None => PInf | Some b => b end in
  negb (if closed_left c then ext_ltb x l else ext_leb x l) &&
  negb (if closed_right c then ext_ltb r x else ext_leb r x).

(* numeric view of a value: Some (is_integral, Some x) / Some (_, None) for NaN / None when not a number *)
Definition as_num (v : value) : option (bool * option ext) :=
  match v with
  | VInt z => Some (true, Some (Fin (inject_Z z)))
  | VBool b => Some (true, Some (Fin (inject_Z (Z.b2z b))))     (* True == 1, False == 0 *)
  | VReal q => Some (false, Some (Fin q))
  | VNaN => Some (false, None)
  | VPosInf => Some (false, Some PInf)
  | VNegInf => Some (false, Some NInf)
  | _ => None
  end.

(* Interval.is_satisfied_by: isinstance(val, self.type) and val in self;  NaN is in no interval *)
Definition sat_interval (ty : numty) (lo hi : option ext) (c : closedness) (v : value) : bool :=
  match as_num v with
  | None => false
  | Some (integral, x) =>
      (match ty with TIntegral => integral | TReal => true | TRealNotInt => negb integral end) &&
      match x with None => false | Some x => contains lo hi c x end
  end.

(* _InstancesOf.is_satisfied_by = isinstance(val, type) *)
Definition sat_instance (t : class_table) (cls : string) (v : value) : bool :=
  match v with
  | VBool _ => String.eqb cls "bool"
  | VNpBool _ => String.eqb cls "bool_"
  | VStr _ => String.eqb cls "str"
  | VDict => String.eqb cls "dict"
  | VList => String.eqb cls "list"
  | VTuple => String.eqb cls "tuple"
  | VArray => String.eqb cls "ndarray"
  | VInstance c => subclass_of t c cls
  | _ => false
  end.

(* _Callables: callable(val) — functions, and instances whose class defines __call__ (every GEMINI does) *)
Definition sat_callable (t : class_table) (v : value) : bool :=
  match v with VCallable => true | VInstance c => has_method t c "__call__" | _ => false end.

(* _ArrayLikes: _is_arraylike(x) and not np.isscalar(x), _is_arraylike = has __len__ / shape / __array__.
   A dict has __len__ and is accepted; a str is a numpy scalar and is not. *)
Definition sat_arraylike (t : class_table) (v : value) : bool :=
  match v with
  | VArray | VList | VTuple | VDict => true
  | VInstance c => has_method t c "__len__"
  | _ => false
  end.

Definition seed_max : Z := 4294967295%Z.    (* 2**32 - 1 *)

Definition satisfied (t : class_table) (c : constraint) (v : value) : bool :=
  match c with
  | Interval ty lo hi cl => sat_interval ty lo hi cl v
  | StrOptions l => match v with VStr s => str_in s l | _ => false end   (* isinstance(val, str) and val in options *)
  | InstanceOf cls => sat_instance t cls v
  | NoneC => match v with VNone => true | _ => false end
  | BoolC => match v with VBool _ | VNpBool _ => true | _ => false end   (* [bool, np.bool_] *)
  | CallableC => sat_callable t v
  | RandomStateC =>                                                      (* [Interval(Integral, 0, 2**32-1, "both"), RandomState, None] *)
      sat_interval TIntegral (Some (Fin 0)) (Some (Fin (inject_Z seed_max))) CBoth v
      || sat_instance t "RandomState" v || match v with VNone => true | _ => false end
  | ArrayLikeC => sat_arraylike t v
  end.

(* validate_parameter_constraints: `for constraint in constraints: if constraint.is_satisfied_by(val): break; else: raise` *)
Definition satisfied_any (t : class_table) (cs : list constraint) (v : value) : bool := existsb (fun c => satisfied t c v) cs.
(* `if param_name not in parameter_constraints: continue` — a parameter without an entry is not validated at all *)
Definition effective_sat (t : class_table) (oc : option (list constraint)) (v : value) : bool :=
  match oc with None => true | Some cs => satisfied_any t cs v end.

(* tables: estimator / function name |-> constructor / signature parameter |-> declared constraints *)
Definition ptable := list (string * option (list constraint)).
Definition lookup_param (tbl : list (string * ptable)) (e p : string) : option (option (list constraint)) :=
  match assoc e tbl with None => None | Some ps => assoc p ps end.

(* ------------------------------------------------------------------------------------------------ check_groups *)
(* gemclus/sparse/_base_sparse.py::check_groups(groups, n_features_in) for groups = list of lists of integers
   (groups=None returns None before anything else and is not modelled). *)
Definition zmem (x : Z) (l : list Z) : bool := existsb (Z.eqb x) l.
Definition zrange (d : nat) : list Z := map Z.of_nat (seq 0 d).
Fixpoint zmin (x : Z) (l : list Z) : Z := match l with [] => x | y :: r => zmin (Z.min x y) r end.
Fixpoint zmax (x : Z) (l : list Z) : Z := match l with [] => x | y :: r => zmax (Z.max x y) r end.
(* set(l), as the list of first occurrences *)
Fixpoint dedup (l : list Z) : list Z :=
  match l with [] => [] | x :: r => if zmem x r then dedup r else x :: dedup r end.
Definition set_eqb (a b : list Z) : bool := forallb (fun x => zmem x b) a && forallb (fun x => zmem x a) b.

Definition check_groups (groups : list (list Z)) (d : nat) : option (list (list Z)) :=
  let all := List.concat groups in                                   (* for g in groups: all_indices.extend(list(g)) *)
  (* if len(all_indices) > 0 and (min(all_indices) < 0 or max(all_indices) >= n_features_in): raise *)
  if match all with [] => false | x :: r => (zmin x r <? 0)%Z || (Z.of_nat d <=? zmax x r)%Z end then None
  else if Nat.eqb (List.length all) d then
    (* if set(all_indices) != set(range(n_features_in)): raise ; return groups *)
    if set_eqb all (zrange d) then Some groups else None
  else
    (* if len(set(all_indices)) != len(all_indices): raise *)
    if negb (Nat.eqb (List.length (dedup all)) (List.length all)) then None
    (* return groups + [[i] for i in range(n_features_in) if i not in all_indices] *)
    else Some (groups ++ map (fun i => [i]) (filter (fun i => negb (zmem i all)) (zrange d))).

(* entries of a group as check_groups sees them: `isinstance(i, bool) or not isinstance(i, (int, np.integer))` raises *)
Inductive gentry := GInt (z : Z) | GBool (b : bool) | GOther.    (* GOther: float, str, None, nested list ... *)
Definition gentry_int (e : gentry) : option Z := match e with GInt z => Some z | _ => None end.
Fixpoint all_ints (l : list gentry) : option (list Z) :=
  match l with
  | [] => Some []
  | e :: r => match gentry_int e, all_ints r with Some z, Some zs => Some (z :: zs) | _, _ => None end
  end.
Fixpoint all_int_groups (g : list (list gentry)) : option (list (list Z)) :=
  match g with
  | [] => Some []
  | x :: r => match all_ints x, all_int_groups r with Some a, Some b => Some (a :: b) | _, _ => None end
  end.
(* if any(isinstance(i, bool) or not isinstance(i, (int, np.integer)) for i in all_indices): raise ValueError ; then as above *)
Definition check_groups_entries (groups : list (list gentry)) (d : nat) : option (list (list Z)) :=
  match all_int_groups groups with None => None | Some g => check_groups g d end.

(* ---- check_groups once more, statement by statement, over the entries as Python sees them.  The primitives below give the
   meaning of the Python expressions the function uses; translator/tr_validation.py regenerates the same term from the
   source (Gen/ValidationRules.v::check_groups_gen) and Proofs/Validation.v proves it equal to check_groups_entries. *)
Definition py_is_bool (e : gentry) : bool := match e with GBool _ => true | _ => false end.                 (* isinstance(i, bool) *)
Definition py_is_int (e : gentry) : bool := match e with GInt _ | GBool _ => true | GOther => false end.    (* isinstance(i, (int, np.integer)): a bool is an int *)
(* numeric value of an entry; only used behind the integer test (GOther would raise TypeError in min / max / <) *)
Definition entry_z (e : gentry) : Z := match e with GInt z => z | GBool b => Z.b2z b | GOther => 0%Z end.
Definition py_min (l : list gentry) : Z := match l with [] => 0%Z | x :: r => zmin (entry_z x) (map entry_z r) end.   (* min(l), l non-empty *)
Definition py_max (l : list gentry) : Z := match l with [] => 0%Z | x :: r => zmax (entry_z x) (map entry_z r) end.   (* max(l), l non-empty *)
Definition py_eqb (a b : gentry) : bool :=
  match a, b with GOther, _ | _, GOther => false | _, _ => Z.eqb (entry_z a) (entry_z b) end.               (* a == b (True == 1) *)
Definition py_in (x : gentry) (l : list gentry) : bool := existsb (py_eqb x) l.                              (* x in l *)
Definition py_set_eq (a b : list gentry) : bool := forallb (fun x => py_in x b) a && forallb (fun x => py_in x a) b.  (* set(a) == set(b) *)
Fixpoint py_set (l : list gentry) : list gentry :=                                                           (* set(l), as a list *)
  match l with [] => [] | x :: r => if py_in x r then py_set r else x :: py_set r end.
Definition py_range (n : nat) : list gentry := map (fun i => GInt (Z.of_nat i)) (seq 0 n).                  (* range(n) *)
(* list(g) for a group g (list, tuple, integer array): a fresh list of its entries — on the model's groups, the same entries *)
Definition py_listify (g : list gentry) : list gentry := map (fun i => i) g.
Definition check_groups_golden (groups : list (list gentry)) (n_features_in : nat) : option (list (list gentry)) :=
  let all_indices := List.concat groups in
  if existsb (fun i => py_is_bool i || negb (py_is_int i)) all_indices then None else
  if Nat.ltb 0 (List.length all_indices) && (Z.ltb (py_min all_indices) 0 || Z.geb (py_max all_indices) (Z.of_nat n_features_in)) then None else
  if Nat.eqb (List.length all_indices) n_features_in then
    (if negb (py_set_eq all_indices (py_range n_features_in)) then None else
     Some (map py_listify groups))
  else
    (if negb (Nat.eqb (List.length (py_set all_indices)) (List.length all_indices)) then None else
     let new_groups := map py_listify groups ++ map (fun i => [i]) (filter (fun i => negb (py_in i all_indices)) (py_range n_features_in)) in
     Some new_groups).

(* ------------------------------------------------------------------------------------------------ cross-parameter rules *)
(* Kauri.fit: if self.min_samples_leaf * 2 > self.min_samples_split: raise ValueError *)
Definition kauri_cross_ok (min_samples_leaf min_samples_split : Z) : bool := negb (min_samples_split <? min_samples_leaf * 2)%Z.
(* Douglas._init_params (feature_mask=None: no check):
     if len(self.feature_mask) != X.shape[1]: raise ValueError
     cut_points_list_ = [... for i in range(X.shape[1]) if self.feature_mask[i]] ; if len(cut_points_list_) == 0: raise ValueError *)
Definition douglas_mask_ok (mask : option (list bool)) (d : nat) : bool :=
  match mask with None => true | Some m => Nat.eqb (List.length m) d && existsb (fun b => b) m end.

(* check_array(X) followed by validate_data(..., ensure_min_samples=m): two-dimensional, numeric, finite,
   at least one feature, at least max(1, m) samples.  m = n_clusters (DiscriminativeModel.fit),
   min_samples_leaf (Kauri.fit). *)
Definition data_ok (ndim n d : nat) (numeric finite : bool) (min_samples : nat) : bool :=
  Nat.eqb ndim 2 && numeric && finite && Nat.leb 1 d && Nat.leb 1 n && Nat.leb min_samples n.

(* gemini/_geomdistances.py::_check_precomputed(X, y) and the same test in Kauri._compute_kernel: check_array(y) (two-dimensional,
   numeric, finite) and y.shape[0] == y.shape[1] == len(X) *)
Definition precomputed_ok (ndim rows cols n : nat) (numeric finite : bool) : bool :=
  Nat.eqb ndim 2 && numeric && finite && Nat.eqb rows cols && Nat.eqb rows n.

(* ------------------------------------------------------------------------------------------------ fit as checks and writes *)
(* A fit is a sequence of checks (each passes or raises) and writes of attributes ending in "_". *)
Inductive step := Check (ok : bool) | Write (attr : string).
(* run: (accepted?, attributes written so far, most recent first) *)
Fixpoint run (steps : list step) (written : list string) : bool * list string :=
  match steps with
  | [] => (true, written)
  | Check true :: r => run r written
  | Check false :: _ => (false, written)
  | Write a :: r => run r (a :: written)
  end.
Fixpoint no_check (steps : list step) : bool :=
  match steps with [] => true | Check _ :: _ => false | Write _ :: r => no_check r end.
(* "validate; then write": every check precedes every write *)
Fixpoint validate_first (steps : list step) : bool :=
  match steps with [] => true | Check _ :: r => validate_first r | Write _ :: r => no_check r end.

(* outcomes of the individual checks of one fit call:
   x_ok = check_array(X) passes (two-dimensional, numeric, finite, >= 1 sample, >= 1 feature);
   samples_ok = the ensure_min_samples test of validate_data passes *)
Record checks := { params_ok : bool; x_ok : bool; samples_ok : bool; groups_ok : bool; cross_ok : bool; affinity_ok : bool }.

Definition writes (l : list string) : list step := map Write l.

(* The body of a fit method as the sequence of its validation calls, guarded raises and first stores of fitted attributes, in
   source order (regenerated from the ASTs by translator/tr_validation.py into Gen/ValidationRules.v; the golden_* lists below
   are the hand-written copies the models are built from, compared with the regenerated ones in Props/C16.v). *)
Inductive fevent :=
| EValidateParams                         (* self._validate_params() *)
| ECheckArray                             (* X = check_array(X) *)
| EValidateData (min_samples : option string)   (* validate_data(self, X, ..., ensure_min_samples=self.<attr>): stores n_features_in_ *)
| ECheckGroups                            (* check_groups(self.groups, X.shape[1]) *)
| EAffinity                               (* gemini.compute_affinity(X, y) / self._compute_kernel(..) *)
| ERaiseIf (test : string)                (* if <test>: raise ... ; test = the names the test reads, sorted *)
| EInitParams                             (* self._init_params(random_state, X) *)
| EStore (attr : string)                  (* self.<attr>_ = ... *)
| ESuperFit                               (* super().fit(...) *)
| EBranch (test : string) (a b : list fevent).   (* if <test>: a else: b, when the two branches differ *)

Section Interp.
Variable k : checks.
Variable choose : string -> bool.          (* which way an EBranch goes *)
Variable rule_ok : string -> bool.         (* whether the guarded raise with this test passes *)
Variable init : list step.                 (* the checks and writes of _init_params *)
Variable parent : list step.               (* the checks and writes of super().fit *)
Fixpoint interp_ev (e : fevent) : list step :=
  match e with
  | EValidateParams => [Check (params_ok k)]
  | ECheckArray => [Check (x_ok k)]
  | EValidateData ms => Check (x_ok k) :: (match ms with Some _ => [Check (samples_ok k)] | None => [] end) ++ [Write "n_features_in_"]
  | ECheckGroups => [Check (groups_ok k)]
  | EAffinity => [Check (affinity_ok k)]
  | ERaiseIf t => [Check (rule_ok t)]
  | EInitParams => init
  | EStore a => [Write a]
  | ESuperFit => parent
  | EBranch t a b => flat_map interp_ev (if choose t then a else b)
  end.
Definition interp (evs : list fevent) : list step := flat_map interp_ev evs.
End Interp.

(* DiscriminativeModel.fit (gemclus/_base_gemini.py) *)
Definition golden_base_fit : list fevent :=
  [EValidateParams; ECheckArray; EValidateData (Some "n_clusters"); EAffinity; EInitParams; EStore "optimiser_"; EStore "labels_"; EStore "n_iter_"].
(* SparseLinearModel.fit, SparseMLPModel.fit *)
Definition golden_sparse_fit : list fevent :=
  [EValidateParams; EValidateData (Some "n_clusters"); ECheckGroups; EStore "groups_"; ESuperFit].
(* KernelRIM.fit *)
Definition golden_kernelrim_fit : list fevent :=
  [EValidateParams; ECheckArray; EStore "input_data_"; EAffinity; EStore "training_kernel_"; ESuperFit; EStore "n_features_in_"].
(* Kauri.fit *)
Definition kauri_cross_test : string := "min_samples_leaf,min_samples_split".   (* a guarded raise is named by what its test reads *)
Definition golden_kauri_fit : list fevent :=
  [EValidateParams; ECheckArray; EValidateData (Some "min_samples_leaf"); ERaiseIf kauri_cross_test; EAffinity;
   EStore "n_features_in_"; EStore "tree_"; EStore "labels_"; EStore "leaves_"].
(* Douglas._init_params *)
Definition douglas_none_test : string := "feature_mask".
Definition douglas_len_test : string := "X,feature_mask".
Definition douglas_sel_test : string := "feature_mask".
Definition golden_douglas_init : list fevent :=
  [EBranch douglas_none_test [EStore "cut_points_list_"] [ERaiseIf douglas_len_test; ERaiseIf douglas_sel_test; EStore "cut_points_list_"];
   EStore "leaf_scores_"].

(* the models of the fit methods: the golden event lists, read with the outcomes of the individual checks *)
Definition fit_base (weights : list string) (k : checks) : list step :=
  interp k (fun _ => true) (fun _ => cross_ok k) (Check (cross_ok k) :: writes weights) [] golden_base_fit.
Definition fit_sparse (weights : list string) (k : checks) : list step :=
  interp k (fun _ => true) (fun _ => cross_ok k) [] (fit_base weights k) golden_sparse_fit.
Definition fit_kernelrim (k : checks) : list step :=
  interp k (fun _ => true) (fun _ => cross_ok k) [] (fit_base ["W_"; "b_"] k) golden_kernelrim_fit.
Definition fit_kauri (k : checks) : list step :=
  interp k (fun _ => true) (fun _ => cross_ok k) [] [] golden_kauri_fit.
(* Douglas: DiscriminativeModel.fit with _init_params spelled out; mask_none = (feature_mask is None) *)
Definition douglas_init (mask_none len_ok sel_ok : bool) (k : checks) : list step :=
  interp k (fun _ => mask_none) (fun t => if String.eqb t douglas_len_test then len_ok else sel_ok) [] [] golden_douglas_init.
Definition fit_douglas (mask_none len_ok sel_ok : bool) (k : checks) : list step :=
  interp k (fun _ => true) (fun _ => true) (douglas_init mask_none len_ok sel_ok k) [] golden_base_fit.
(* the order the property asks for: all checks, then all writes *)
Definition fit_validate_first (attrs : list string) (k : checks) : list step :=
  [Check (params_ok k); Check (x_ok k); Check (samples_ok k); Check (groups_ok k); Check (cross_ok k); Check (affinity_ok k)] ++ writes attrs.
(* helpers for the OCaml driver (arbitrary-precision literals are built with the extracted arithmetic) *)
Definition zadd := Z.add.
Definition zmul := Z.mul.
Definition zopp := Z.opp.
Definition zltb := Z.ltb.
Definition mkq (n : Z) (d : positive) : Q := Qmake n d.
(* EXTRACT: value ext constraint satisfied satisfied_any effective_sat lookup_param check_groups check_groups_entries kauri_cross_ok douglas_mask_ok data_ok precomputed_ok run validate_first fit_base fit_sparse fit_kernelrim fit_kauri fit_douglas fit_validate_first zadd zmul zopp zltb mkq subclass_of has_method *)
