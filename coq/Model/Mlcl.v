(* C14 — model of gemclus/mlcl.py: validation of must-link / cannot-link pair lists
   (_check_linking_constraint, _check_structural_constraint) and the gradient decoration
   (add_mlcl_constraint::decorate_grads).  Sample indices are arbitrary naturals.
   No proofs in this file. *)
From Coq Require Import List Arith Bool.
From GV Require Import Common.Num.
Import ListNotations.

(* ------------------------------------------------------------------ small list helpers *)
(* `x in l` on a python list of ints *)
Definition mem (x : nat) (l : list nat) : bool := existsb (Nat.eqb x) l.
(* `l.index(x)`: position of the first occurrence (length l when absent; python raises, the callers
   below only use it under `x in l`) *)
Fixpoint index (x : nat) (l : list nat) : nat :=
  match l with [] => 0 | y :: r => if x =? y then 0 else S (index x r) end.
(* `l.remove(x)`: drops the first occurrence *)
Fixpoint remove_first (x : nat) (l : list nat) : list nat :=
  match l with [] => [] | y :: r => if x =? y then r else y :: remove_first x r end.
(* `l[n] = x` *)
Fixpoint set_nth {A} (n : nat) (x : A) (l : list A) : list A :=
  match l with
  | [] => []
  | y :: r => match n with O => x :: r | S m => y :: set_nth m x r end
  end.
(* list(set(l)): the distinct elements (python's order is the hash order; the verdict does not depend on it) *)
Fixpoint dedup (l : list nat) : list nat :=
  match l with [] => [] | x :: r => if mem x r then dedup r else x :: dedup r end.
(* itertools.combinations(l, r=2) *)
Fixpoint combos (l : list nat) : list (nat * nat) :=
  match l with [] => [] | x :: r => map (fun y => (x, y)) r ++ combos r end.

(* ------------------------------------------------------------------ _check_linking_constraint *)
(* mlcl.py::_check_linking_constraint: np.any(pairs[:, 0] == pairs[:, 1]) -> ValueError *)
Definition no_self (l : list (nat * nat)) : bool := forallb (fun p => negb (fst p =? snd p)) l.

(* ------------------------------------------------------------------ _check_structural_constraint *)
(* unique_indices = list(set([p[0] for p in must_link] + [p[1] for p in must_link])) *)
Definition uniq (ml : list (nat * nat)) : list nat := dedup (map fst ml ++ map snd ml).

(* for pair in must_link: i, j = unique_indices.index(pair[0]), unique_indices.index(pair[1]);
   connection_matrix[i, j] = connection_matrix[j, i] = 1     -- the graph lives on POSITIONS of unique_indices *)
Definition pos_edges (U : list nat) (ml : list (nat * nat)) : list (nat * nat) :=
  map (fun p => (index (fst p) U, index (snd p) U)) ml.

(* Connected components of the undirected graph given by an edge list, by iterated relabelling:
   every node starts as its own label; each edge (a,b) renames the label of b's class to a's.
   [label es x = label es y] stands for "y is reachable from x" — what
   csgraph.breadth_first_order(connection_matrix, x, directed=False) enumerates (scipy is an oracle). *)
Fixpoint label (es : list (nat * nat)) : nat -> nat :=
  match es with
  | [] => fun x => x
  | (a, b) :: r => let l := label r in let la := l a in let lb := l b in
                   fun x => let lx := l x in if lx =? lb then la else lx
  end.

(* reacheable_nodes = breadth_first_order(connection_matrix, s, ...): positions in the component of s *)
Definition reach (m : nat) (lab : nat -> nat) (s : nat) : list nat :=
  filter (fun p => lab p =? lab s) (seq 0 m).

(* (i == pair_i and j == pair_j) or (i == pair_j and j == pair_i) for some pair of cannot_link *)
Definition hits (cl : list (nat * nat)) (ij : nat * nat) : bool :=
  existsb (fun p => ((fst ij =? fst p) && (snd ij =? snd p)) || ((fst ij =? snd p) && (snd ij =? fst p))) cl.

(* while len(samples_to_explore) != 0:
     reacheable_nodes = bfs(samples_to_explore[0]); for node in reacheable_nodes: samples_to_explore.remove(node)
     component = [unique_indices[node] for node in reacheable_nodes]
     for i, j in combinations(component, 2): for pair in cannot_link: if ...: raise ValueError
   Some true = loop ended without raising, Some false = ValueError, None = out of fuel (excluded by
   Proofs.Mlcl.structural_terminates). *)
Fixpoint explore (fuel : nat) (U : list nat) (lab : nat -> nat) (cl : list (nat * nat)) (todo : list nat) : option bool :=
  match todo with
  | [] => Some true
  | s :: _ =>
    match fuel with
    | O => None
    | S f =>
      let nodes := reach (length U) lab s in
      let todo' := fold_left (fun t node => remove_first node t) nodes todo in
      let component := map (fun node => nth node U 0) nodes in
      if existsb (hits cl) (combos component) then Some false else explore f U lab cl todo'
    end
  end.

Definition structural (ml cl : list (nat * nat)) : option bool :=
  let U := uniq ml in
  explore (length U) U (label (pos_edges U ml)) cl (seq 0 (length U)).

Definition nonempty {A} (l : list A) : bool := match l with [] => false | _ => true end.

(* _check_linking_constraint on well-shaped inputs: self-pair checks, then
   `if len(must_link) > 0 and len(cannot_link) > 0: _check_structural_constraint(...)`.
   true = add_mlcl_constraint accepts. *)
Definition valid (ml cl : list (nat * nat)) : bool :=
  no_self ml && no_self cl &&
  (if nonempty ml && nonempty cl
   then match structural ml cl with Some b => b | None => false end
   else true).

(* ------------------------------------------------------------------ shape checks (raw inputs) *)
(* What a caller may pass for must_link / cannot_link, as far as the shape logic can tell apart. *)
Inductive raw : Type :=
| RNone                              (* None *)
| RScalar (x : nat)                  (* 3 *)
| RFlat (l : list nat)               (* [1, 2]   ( [] is RFlat [] ) *)
| RRows (rows : list (list nat)).    (* [[1, 2], [3, 4]], also single-column [[1], [2]] and ragged lists *)

Inductive shape : Type :=
| ShAbsent                                   (* treated as "no constraint" *)
| ShPairs (w : nat) (ps : list (nat * nat))  (* accepted by check_array: w >= 2 columns, first two columns *)
| ShReject.                                  (* check_array raises ValueError *)

Definition first2 (r : list nat) : nat * nat := (nth 0 r 0, nth 1 r 0).

(* `if hasattr(x, "__len__") and len(x) == 0: x = None`, then
   check_array(x, ensure_2d=True, ensure_min_features=2, dtype=int): scalars and 1-D inputs raise,
   ragged rows raise (numpy), fewer than 2 columns raise; MORE than two columns pass (quirk). *)
Definition shape_of (r : raw) : shape :=
  match r with
  | RNone => ShAbsent
  | RScalar _ => ShReject
  | RFlat [] => ShAbsent
  | RFlat _ => ShReject
  | RRows [] => ShAbsent
  | RRows (r0 :: rs) =>
      let w := length r0 in
      if forallb (fun r => length r =? w) rs && (2 <=? w)
      then ShPairs w (map first2 (r0 :: rs)) else ShReject
  end.

(* add_mlcl_constraint acceptance on raw inputs.  With more than two columns in cannot_link the
   unpacking `pair_i, pair_j = pair` of the structural check raises ValueError as soon as it is
   reached (there is always a component of >= 2 nodes when must_link is non-empty and free of self pairs). *)
Definition accept_raw (rml rcl : raw) : bool :=
  match shape_of rml, shape_of rcl with
  | ShReject, _ => false
  | _, ShReject => false
  | ShAbsent, ShAbsent => true
  | ShAbsent, ShPairs _ cl => no_self cl
  | ShPairs _ ml, ShAbsent => no_self ml
  | ShPairs _ ml, ShPairs w cl => if w =? 2 then valid ml cl else false
  end.

(* ------------------------------------------------------------------ decorate_grads *)
Section Grads.
Context {T : Type} (o : NumOps T).

(* g (op) factor * (yi - yj), elementwise over the K columns (rows of equal length K) *)
Fixpoint upd_row (op : T -> T -> T) (f : T) (g yi yj : list T) : list T :=
  match g, yi, yj with
  | x :: g', a :: yi', b :: yj' => op x (nmul o f (nsub o a b)) :: upd_row op f g' yi' yj'
  | _, _, _ => []
  end.

(* for (i, j) in pairs:
     if i in last_indices and j in last_indices:
        idx0, idx1 = last_indices.index(i), last_indices.index(j)
        gradient[idx0] (op)= factor * (y_pred[idx0] - y_pred[idx1])
        gradient[idx1] (op)= factor * (y_pred[idx1] - y_pred[idx0])          (in place, sequentially) *)
Definition apply_pair (op : T -> T -> T) (f : T) (idx : list nat) (Y G : list (list T)) (p : nat * nat) : list (list T) :=
  let (i, j) := p in
  if mem i idx && mem j idx then
    let i0 := index i idx in let i1 := index j idx in
    let y0 := nth i0 Y [] in let y1 := nth i1 Y [] in
    let G1 := set_nth i0 (upd_row op f (nth i0 G []) y0 y1) G in
    set_nth i1 (upd_row op f (nth i1 G1 []) y1 y0) G1
  else G.

(* intercept_grads: the cannot-link loop (+=) then the must-link loop (-=); the result is what the
   wrapped _compute_grads receives as `gradient`. *)
Definition decorate_grads (f : T) (idx : list nat) (Y : list (list T)) (ml cl : list (nat * nat)) (G : list (list T)) : list (list T) :=
  fold_left (apply_pair (nsub o) f idx Y) ml (fold_left (apply_pair (nadd o) f idx Y) cl G).
End Grads.

(* ================================================================== regenerated rules
   The same algorithms, parameterised by the "holes" that translator/tr_mlcl.py re-reads from the AST of
   gemclus/mlcl.py on every build (coq/Gen/MlclRules.v::mlcl_rules): which list a loop iterates, which
   columns are read, comparison operators and constants (normalised), signs, operands, order of updates.
   [documented_rules] below is the hand-written golden copy; Proofs/MlclGen.v proves that the regenerated
   rules are the documented ones and that the parameterised model at these rules IS the hand model above
   ([valid], [accept_raw], [decorate_grads] — the entry points the driver extracts, unchanged).
   The parameterised functions are meant to be read at (or next to) the documented values: a hole whose
   other values have no modelled meaning is carried as data only (said at the field). *)
Inductive which : Type := WML | WCL.            (* must_link / cannot_link *)
Inductive slot : Type := SI | SJ.               (* first / second element of the pair (or combination) at hand *)
(* a test `len(x) <op> k`, normalised by the translator: n < k, n >= k, n == k (k > 0), n != k (k > 0) *)
Inductive ncmp : Type := NLt (k : nat) | NGe (k : nat) | NEq (k : nat) | NNe (k : nat).
Definition ncmp_holds (c : ncmp) (n : nat) : bool :=
  match c with NLt k => n <? k | NGe k => k <=? n | NEq k => n =? k | NNe k => negb (n =? k) end.
Definition pick {A} (w : which) (ml cl : A) : A := match w with WML => ml | WCL => cl end.
(* pair[c] / x[:, c] *)
Definition col (c : nat) (p : nat * nat) : nat := match c with 0 => fst p | 1 => snd p | _ => 0 end.
Definition sel (s : slot) (p : nat * nat) : nat := match s with SI => fst p | SJ => snd p end.

(* ---- _check_linking_constraint, per argument ---- *)
Record ArgRules : Type := {
  a_empty : ncmp;          (* `if hasattr(x, "__len__") and len(x) <op> k: x = None` *)
  a_2d : bool;             (* check_array(ensure_2d=...)   — data only: 1-D inputs are rejected either way *)
  a_minfeat : nat;         (* check_array(ensure_min_features=...) *)
  a_self : nat * nat       (* `if np.any(x[:, a] == x[:, b]): raise ValueError` *)
}.
Record LinkRules : Type := {
  lr_ml : ArgRules; lr_cl : ArgRules;
  lr_guard_and : bool;     (* `if <test on len(must_link)> and/or <test on len(cannot_link)>: _check_structural_constraint(..)` *)
  lr_guard_ml : ncmp; lr_guard_cl : ncmp
}.
(* ---- _check_structural_constraint ---- *)
Record StructRules : Type := {
  s_uniq_list : which; s_uniq_cols : list nat;    (* unique_indices = [p[c] for p in L] + [p[c'] for p in L] + ... *)
  s_edge_list : which; s_edge_cols : nat * nat;   (* for pair in L: i, j = unique_indices.index(pair[a]), unique_indices.index(pair[b]) *)
  s_edge_entries : list (slot * slot);            (* connection_matrix[i, j] = connection_matrix[j, i] = 1 — data only (the BFS is undirected) *)
  s_directed : bool;                              (* breadth_first_order(..., directed=...) — data only *)
  s_loop : ncmp;                                  (* while len(samples_to_explore) <op> k *)
  s_start : nat;                                  (* breadth_first_order(connection_matrix, samples_to_explore[k], ...) *)
  s_map_back : bool;                              (* component = [unique_indices[node] for node in reacheable_nodes] (true) / the raw nodes (false) *)
  s_comb_r : nat;                                 (* itertools.combinations(component, r=...) — data only ([combos] is r = 2) *)
  s_cl_list : which;                              (* for pair in L' *)
  s_orients : list (nat * nat)                    (* the disjuncts (i == pair[a] and j == pair[b]) of the raising test, sorted *)
}.
(* ---- decorate_grads ---- *)
Record UpdRule : Type := {
  u_target : slot;         (* gradient[pos of slot] ... *)
  u_minus : bool;          (* ... -= (true) / += (false) ... *)
  u_scaled : bool;         (* ... factor * (..) (true) / (..) alone (false) *)
  u_lhs : slot; u_rhs : slot   (* ... (y_pred[pos of lhs] - y_pred[pos of rhs]) *)
}.
Record LoopRule : Type := {
  l_list : which;          (* for (i, j) in L *)
  l_member_and : bool;     (* `if i in last_indices and/or j in last_indices` *)
  l_member : list slot;    (* which of i, j are tested *)
  l_updates : list UpdRule (* the update lines, in order, positions resolved through last_indices.index(..) *)
}.
Record MlclRules : Type := { mr_link : LinkRules; mr_struct : StructRules; mr_grads : list LoopRule }.

Definition documented_arg : ArgRules := {| a_empty := NLt 1; a_2d := true; a_minfeat := 2; a_self := (0, 1) |}.
Definition documented_rules : MlclRules := {|
  mr_link := {| lr_ml := documented_arg; lr_cl := documented_arg; lr_guard_and := true; lr_guard_ml := NGe 1; lr_guard_cl := NGe 1 |};
  mr_struct := {| s_uniq_list := WML; s_uniq_cols := [0; 1]; s_edge_list := WML; s_edge_cols := (0, 1);
                  s_edge_entries := [(SI, SJ); (SJ, SI)]; s_directed := false; s_loop := NGe 1; s_start := 0;
                  s_map_back := true; s_comb_r := 2; s_cl_list := WCL; s_orients := [(0, 1); (1, 0)] |};
  mr_grads := [ {| l_list := WCL; l_member_and := true; l_member := [SI; SJ];
                   l_updates := [ {| u_target := SI; u_minus := false; u_scaled := true; u_lhs := SI; u_rhs := SJ |};
                                  {| u_target := SJ; u_minus := false; u_scaled := true; u_lhs := SJ; u_rhs := SI |} ] |};
                {| l_list := WML; l_member_and := true; l_member := [SI; SJ];
                   l_updates := [ {| u_target := SI; u_minus := true; u_scaled := true; u_lhs := SI; u_rhs := SJ |};
                                  {| u_target := SJ; u_minus := true; u_scaled := true; u_lhs := SJ; u_rhs := SI |} ] |} ]
|}.

(* ---- the parameterised validation ---- *)
Definition no_self_r (ab : nat * nat) (l : list (nat * nat)) : bool :=
  forallb (fun p => negb (col (fst ab) p =? col (snd ab) p)) l.

Definition uniq_r (S : StructRules) (ml cl : list (nat * nat)) : list nat :=
  dedup (flat_map (fun c => map (col c) (pick (s_uniq_list S) ml cl)) (s_uniq_cols S)).
Definition pos_edges_r (S : StructRules) (U : list nat) (ml cl : list (nat * nat)) : list (nat * nat) :=
  map (fun p => (index (col (fst (s_edge_cols S)) p) U, index (col (snd (s_edge_cols S)) p) U)) (pick (s_edge_list S) ml cl).
Definition hits_r (S : StructRules) (cl : list (nat * nat)) (ij : nat * nat) : bool :=
  existsb (fun p => existsb (fun ab => (fst ij =? col (fst ab) p) && (snd ij =? col (snd ab) p)) (s_orients S)) cl.

Fixpoint explore_r (S : StructRules) (fuel : nat) (U : list nat) (lab : nat -> nat) (cl : list (nat * nat)) (todo : list nat) : option bool :=
  if ncmp_holds (s_loop S) (length todo) then
    match fuel with
    | O => None
    | Datatypes.S f =>
      let s := nth (s_start S) todo 0 in
      let nodes := reach (length U) lab s in
      let todo' := fold_left (fun t node => remove_first node t) nodes todo in
      let component := if s_map_back S then map (fun node => nth node U 0) nodes else nodes in
      if existsb (hits_r S cl) (combos component) then Some false else explore_r S f U lab cl todo'
    end
  else Some true.

Definition structural_r (S : StructRules) (ml cl : list (nat * nat)) : option bool :=
  let U := uniq_r S ml cl in
  explore_r S (length U) U (label (pos_edges_r S U ml cl)) (pick (s_cl_list S) ml cl) (seq 0 (length U)).

Definition valid_r (R : MlclRules) (ml cl : list (nat * nat)) : bool :=
  let L := mr_link R in
  no_self_r (a_self (lr_ml L)) ml && no_self_r (a_self (lr_cl L)) cl &&
  (if (if lr_guard_and L then andb else orb) (ncmp_holds (lr_guard_ml L) (length ml)) (ncmp_holds (lr_guard_cl L) (length cl))
   then match structural_r (mr_struct R) ml cl with Some b => b | None => false end
   else true).

Definition shape_of_r (A : ArgRules) (r : raw) : shape :=
  match r with
  | RNone => ShAbsent
  | RScalar _ => ShReject
  | RFlat l => if ncmp_holds (a_empty A) (length l) then ShAbsent else ShReject
  | RRows rows =>
      if ncmp_holds (a_empty A) (length rows) then ShAbsent else
      match rows with
      | [] => ShReject
      | r0 :: rs => let w := length r0 in
                    if forallb (fun r => length r =? w) rs && (a_minfeat A <=? w)
                    then ShPairs w (map first2 (r0 :: rs)) else ShReject
      end
  end.

Definition accept_raw_r (R : MlclRules) (rml rcl : raw) : bool :=
  match shape_of_r (lr_ml (mr_link R)) rml, shape_of_r (lr_cl (mr_link R)) rcl with
  | ShReject, _ => false
  | _, ShReject => false
  | ShAbsent, ShAbsent => valid_r R [] []
  | ShAbsent, ShPairs _ cl => valid_r R [] cl
  | ShPairs _ ml, ShAbsent => valid_r R ml []
  | ShPairs _ ml, ShPairs w cl => if w =? 2 then valid_r R ml cl else false
  end.

(* ---- the parameterised decoration ---- *)
Section GradsR.
Context {T : Type} (o : NumOps T).

Fixpoint upd_row_g (op : T -> T -> T) (sc : T -> T) (g yi yj : list T) : list T :=
  match g, yi, yj with
  | x :: g', a :: yi', b :: yj' => op x (sc (nsub o a b)) :: upd_row_g op sc g' yi' yj'
  | _, _, _ => []
  end.

Definition apply_upd (f : T) (idx : list nat) (Y : list (list T)) (p : nat * nat) (G : list (list T)) (u : UpdRule) : list (list T) :=
  let pos s := index (sel s p) idx in
  set_nth (pos (u_target u))
          (upd_row_g (if u_minus u then nsub o else nadd o) (if u_scaled u then nmul o f else fun x => x)
                     (nth (pos (u_target u)) G []) (nth (pos (u_lhs u)) Y []) (nth (pos (u_rhs u)) Y [])) G.

Definition apply_pair_r (L : LoopRule) (f : T) (idx : list nat) (Y G : list (list T)) (p : nat * nat) : list (list T) :=
  let inb s := mem (sel s p) idx in
  if (if l_member_and L then forallb inb (l_member L) else existsb inb (l_member L))
  then fold_left (apply_upd f idx Y p) (l_updates L) G
  else G.

Definition decorate_grads_r (loops : list LoopRule) (f : T) (idx : list nat) (Y : list (list T)) (ml cl : list (nat * nat)) (G : list (list T)) : list (list T) :=
  fold_left (fun G L => fold_left (apply_pair_r L f idx Y) (pick (l_list L) ml cl) G) loops G.
End GradsR.
(* EXTRACT: valid structural accept_raw shape_of uniq label pos_edges index decorate_grads *)
