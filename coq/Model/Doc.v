(* C16 — the DOCUMENTED domain of every hyper-parameter, written by hand from the docstrings of /repo
   (class docstrings of the estimators and GEMINIs, function docstrings of gemclus.data, gemclus.mlcl,
   gemclus.tree.print_kauri_tree).  Nothing here is generated.  A documented domain is a [dom] (a readable
   description) and its meaning is the predicate [dom_sem] on values.  No proofs in this file.

   Reading conventions (stated once, applied everywhere):
   * "int" means an integral number in the Python sense (numbers.Integral): int, numpy integers and — because
     bool is a subclass of int — True/False as 1/0.  "float" means a real number in the Python sense
     (numbers.Real): floats and integral numbers alike (the usual scikit-learn reading), finite: NaN and the
     infinities are never documented values.
   * Where the docstring gives only a type, the range is the one the described quantity obviously has:
     a count of clusters / epochs / neurons / samples / cuts is >= 1, a step size, temperature or scaling factor
     is > 0, a penalty weight is >= 0, a clipping precision lies strictly between 0 and 1.  Ranges stated in
     the text (min_samples_leaf*2 <= min_samples_split) are cross-parameter rules, see Validation.kauri_cross_ok.
   * "default=None" documents None as a value.  A seed is an int accepted by numpy: 0 .. 2**32-1.
   * An enumerated set {'a','b'} documents exactly these strings.  "dict", "list", "callable", "bool" mean the
     Python types; "array", "ndarray of booleans" mean numpy.ndarray; "array-like", "ndarray of shape", "list of
     ndarray" mean ndarray, list or tuple (not dict, although scikit-learn's "array-like" constraint takes one);
     "X instance" means an instance of X or of a subclass
     (this holds for the builtin types too: a subclass of dict is a dict). *)
From Coq Require Import List ZArith QArith String Bool.
From GV Require Import Model.Validation.
Import ListNotations.
Open Scope string_scope.
Open Scope list_scope.

Record zitv := { zlo : option Z; zhi : option Z }.                              (* lo <= z <= hi over the integers *)
Record qitv := { qlo : ext; qlo_closed : bool; qhi : ext; qhi_closed : bool }.  (* an interval of the extended reals *)
Record dom := {
  d_ints : list zitv;      (* integral values, taken as integers *)
  d_reals : list qitv;     (* real values (floats and integral values), taken as numbers *)
  d_bool : bool;           (* Python True / False as truth values *)
  d_npbool : bool;         (* numpy.bool_ *)
  d_strs : list string;
  d_none : bool; d_callable : bool; d_array : bool; d_dict : bool; d_list : bool; d_tuple : bool;
  d_sized : bool;          (* any object with __len__ *)
  d_insts : list string    (* instances of these classes or of subclasses *)
}.

Definition in_zitv (z : Z) (i : zitv) : bool :=
  (match zlo i with None => true | Some l => (l <=? z)%Z end) && (match zhi i with None => true | Some h => (z <=? h)%Z end).
Definition in_qitv (x : ext) (i : qitv) : bool :=
  (if qlo_closed i then ext_leb (qlo i) x else ext_ltb (qlo i) x) && (if qhi_closed i then ext_leb x (qhi i) else ext_ltb x (qhi i)).
Definition zq (z : Z) : ext := Fin (inject_Z z).

Definition dom_sem (t : class_table) (d : dom) (v : value) : bool :=
  match v with
  | VInt z => existsb (in_zitv z) (d_ints d) || existsb (in_qitv (zq z)) (d_reals d)
  | VBool b => d_bool d || existsb (in_zitv (Z.b2z b)) (d_ints d) || existsb (in_qitv (zq (Z.b2z b))) (d_reals d)
  | VNpBool _ => d_npbool d
  | VReal q => existsb (in_qitv (Fin q)) (d_reals d)
  | VNaN => false
  | VPosInf => existsb (in_qitv PInf) (d_reals d)
  | VNegInf => existsb (in_qitv NInf) (d_reals d)
  | VStr s => str_in s (d_strs d)
  | VNone => d_none d
  | VCallable => d_callable d
  | VArray => d_array d
  | VDict => d_dict d
  | VList => d_list d
  | VTuple => d_tuple d
  | VInstance c => existsb (subclass_of t c) (d_insts d) || (d_callable d && has_method t c "__call__") || (d_sized d && has_method t c "__len__")
  | VOther => false
  end.

Definition dom_empty : dom :=
  {| d_ints := []; d_reals := []; d_bool := false; d_npbool := false; d_strs := []; d_none := false; d_callable := false;
     d_array := false; d_dict := false; d_list := false; d_tuple := false; d_sized := false; d_insts := [] |}.
Definition dom_union (a b : dom) : dom :=
  {| d_ints := d_ints a ++ d_ints b; d_reals := d_reals a ++ d_reals b; d_bool := d_bool a || d_bool b;
     d_npbool := d_npbool a || d_npbool b; d_strs := d_strs a ++ d_strs b; d_none := d_none a || d_none b;
     d_callable := d_callable a || d_callable b; d_array := d_array a || d_array b; d_dict := d_dict a || d_dict b;
     d_list := d_list a || d_list b; d_tuple := d_tuple a || d_tuple b; d_sized := d_sized a || d_sized b;
     d_insts := d_insts a ++ d_insts b |}.
Definition dunion (l : list dom) : dom := fold_right dom_union dom_empty l.

(* ---- vocabulary of the docstrings *)
Definition qz (z : Z) : Q := inject_Z z.
Definition int_ge (lo : Z) : dom := {| d_ints := [{| zlo := Some lo; zhi := None |}]; d_reals := []; d_bool := false; d_npbool := false; d_strs := []; d_none := false; d_callable := false; d_array := false; d_dict := false; d_list := false; d_tuple := false; d_sized := false; d_insts := [] |}.
Definition int_between (lo hi : Z) : dom := {| d_ints := [{| zlo := Some lo; zhi := Some hi |}]; d_reals := []; d_bool := false; d_npbool := false; d_strs := []; d_none := false; d_callable := false; d_array := false; d_dict := false; d_list := false; d_tuple := false; d_sized := false; d_insts := [] |}.
Definition reals (i : qitv) : dom := {| d_ints := []; d_reals := [i]; d_bool := false; d_npbool := false; d_strs := []; d_none := false; d_callable := false; d_array := false; d_dict := false; d_list := false; d_tuple := false; d_sized := false; d_insts := [] |}.
Definition real_gt (a : Z) : dom := reals {| qlo := Fin (qz a); qlo_closed := false; qhi := PInf; qhi_closed := false |}.    (* a < x, finite *)
Definition real_ge (a : Z) : dom := reals {| qlo := Fin (qz a); qlo_closed := true; qhi := PInf; qhi_closed := false |}.     (* a <= x, finite *)
Definition real_open (a b : Z) : dom := reals {| qlo := Fin (qz a); qlo_closed := false; qhi := Fin (qz b); qhi_closed := false |}. (* a < x < b *)
Definition bool_ : dom := {| d_ints := []; d_reals := []; d_bool := true; d_npbool := false; d_strs := []; d_none := false; d_callable := false; d_array := false; d_dict := false; d_list := false; d_tuple := false; d_sized := false; d_insts := ["bool"] |}.
Definition strs (l : list string) : dom := {| d_ints := []; d_reals := []; d_bool := false; d_npbool := false; d_strs := l; d_none := false; d_callable := false; d_array := false; d_dict := false; d_list := false; d_tuple := false; d_sized := false; d_insts := [] |}.
Definition none_ : dom := {| d_ints := []; d_reals := []; d_bool := false; d_npbool := false; d_strs := []; d_none := true; d_callable := false; d_array := false; d_dict := false; d_list := false; d_tuple := false; d_sized := false; d_insts := [] |}.
Definition callable_ : dom := {| d_ints := []; d_reals := []; d_bool := false; d_npbool := false; d_strs := []; d_none := false; d_callable := true; d_array := false; d_dict := false; d_list := false; d_tuple := false; d_sized := false; d_insts := [] |}.
Definition ndarray_ : dom := {| d_ints := []; d_reals := []; d_bool := false; d_npbool := false; d_strs := []; d_none := false; d_callable := false; d_array := true; d_dict := false; d_list := false; d_tuple := false; d_sized := false; d_insts := ["ndarray"] |}.
Definition dict_ : dom := {| d_ints := []; d_reals := []; d_bool := false; d_npbool := false; d_strs := []; d_none := false; d_callable := false; d_array := false; d_dict := true; d_list := false; d_tuple := false; d_sized := false; d_insts := ["dict"] |}.
Definition list_ : dom := {| d_ints := []; d_reals := []; d_bool := false; d_npbool := false; d_strs := []; d_none := false; d_callable := false; d_array := false; d_dict := false; d_list := true; d_tuple := false; d_sized := false; d_insts := ["list"] |}.
Definition arraylike_ : dom := {| d_ints := []; d_reals := []; d_bool := false; d_npbool := false; d_strs := []; d_none := false; d_callable := false; d_array := true; d_dict := false; d_list := true; d_tuple := true; d_sized := false; d_insts := ["ndarray"; "list"; "tuple"] |}.
Definition inst (c : string) : dom := {| d_ints := []; d_reals := []; d_bool := false; d_npbool := false; d_strs := []; d_none := false; d_callable := false; d_array := false; d_dict := false; d_list := false; d_tuple := false; d_sized := false; d_insts := [c] |}.
Definition or_ (a b : dom) : dom := dom_union a b.
Infix "∪" := or_ (at level 50, left associativity).

(* "int, RandomState instance, default=None" *)
Definition seed_ : dom := int_between 0 4294967295 ∪ inst "RandomState" ∪ none_.

(* gemclus.gemini.AVAILABLE_GEMINIS as documented ("mmd_ova", "mmd_ovo", "wasserstein_ova", "wasserstein_ovo", "mi" or
   other GEMINI available in gemclus.gemini.AVAILABLE_GEMINI): the f-divergence and geometric objectives, one-vs-all / one-vs-one *)
Definition gemini_names : list string :=
  ["mmd_ova"; "mmd_ovo"; "wasserstein_ova"; "wasserstein_ovo"; "kl_ova"; "kl_ovo"; "mi"; "tv_ova"; "tv_ovo";
   "hellinger_ova"; "hellinger_ovo"; "chi2_ova"; "chi2_ovo"].
(* kernel: {'additive_chi2', 'chi2', 'cosine','linear','poly','polynomial','rbf','laplacian','sigmoid', 'precomputed'} *)
Definition kernel_names : list string :=
  ["additive_chi2"; "chi2"; "cosine"; "linear"; "poly"; "polynomial"; "rbf"; "laplacian"; "sigmoid"; "precomputed"].
(* base_kernel: {'additive_chi2', 'chi2', 'cosine','linear','poly','polynomial','rbf','laplacian','sigmoid'}, or callable *)
Definition base_kernel_names : list string :=
  ["additive_chi2"; "chi2"; "cosine"; "linear"; "poly"; "polynomial"; "rbf"; "laplacian"; "sigmoid"].
(* metric: {'cosine', 'euclidean', 'l2','l1','manhattan','cityblock', 'precomputed'} *)
Definition metric_names : list string := ["cosine"; "euclidean"; "l2"; "l1"; "manhattan"; "cityblock"; "precomputed"].

Definition dtable := list (string * dom).
(* shared by all gradient models *)
Definition d_n_clusters := ("n_clusters", int_ge 1).
Definition d_gemini := ("gemini", strs gemini_names ∪ inst "_GEMINI" ∪ none_).     (* str, GEMINI instance or None *)
Definition d_max_iter := ("max_iter", int_ge 1).
Definition d_learning_rate := ("learning_rate", real_gt 0).
Definition d_solver := ("solver", strs ["sgd"; "adam"]).
Definition d_batch_size := ("batch_size", int_ge 1 ∪ none_).                       (* int, default=None *)
Definition d_verbose := ("verbose", bool_).
Definition d_random_state := ("random_state", seed_).
Definition d_kernel := ("kernel", strs kernel_names).
Definition d_kernel_params := ("kernel_params", dict_ ∪ none_).                    (* dict, default=None *)
Definition d_metric := ("metric", strs metric_names).
Definition d_metric_params := ("metric_params", dict_ ∪ none_).
Definition d_ovo := ("ovo", bool_).
Definition d_reg := ("reg", real_ge 0).                                             (* penalty weight *)
Definition d_n_hidden_dim := ("n_hidden_dim", int_ge 1).
Definition d_groups := ("groups", list_ ∪ none_).                                   (* list of arrays, default=None *)
Definition d_alpha := ("alpha", real_ge 0).                                         (* weight of the group-lasso penalty *)
Definition d_M := ("M", real_ge 0).                                                 (* hierarchy coefficient *)
Definition d_dynamic := ("dynamic", bool_).
Definition d_epsilon := ("epsilon", real_open 0 1).                                 (* clipping precision for probabilities *)

Definition doc_generic : dtable := [d_n_clusters; d_gemini; d_max_iter; d_learning_rate; d_solver; d_batch_size; d_verbose; d_random_state].
Definition doc_table : list (string * dtable) := [
  ("DiscriminativeModel", doc_generic);
  ("LinearModel", doc_generic);
  ("LinearMMD", [d_n_clusters; d_max_iter; d_learning_rate; d_kernel; d_ovo; d_solver; d_batch_size; d_verbose; d_random_state; d_kernel_params]);
  ("LinearWasserstein", [d_n_clusters; d_max_iter; d_learning_rate; d_metric; d_ovo; d_solver; d_batch_size; d_verbose; d_random_state; d_metric_params]);
  ("RIM", [d_n_clusters; d_max_iter; d_learning_rate; d_reg; d_solver; d_batch_size; d_verbose; d_random_state]);
  ("KernelRIM", [d_n_clusters; d_max_iter; d_learning_rate; d_reg; d_solver; d_batch_size; d_verbose; d_random_state;
                 ("base_kernel", strs base_kernel_names ∪ callable_); ("base_kernel_params", dict_ ∪ none_)]);
  ("MLPModel", [d_n_clusters; d_gemini; d_max_iter; d_learning_rate; d_n_hidden_dim; d_solver; d_batch_size; d_verbose; d_random_state]);
  ("MLPMMD", [d_n_clusters; d_max_iter; d_learning_rate; d_n_hidden_dim; d_kernel; d_ovo; d_solver; d_batch_size; d_verbose; d_random_state; d_kernel_params]);
  ("MLPWasserstein", [d_n_clusters; d_max_iter; d_learning_rate; d_n_hidden_dim; d_metric; d_ovo; d_solver; d_batch_size; d_verbose; d_random_state; d_metric_params]);
  ("SparseLinearModel", [d_n_clusters; d_gemini; d_groups; d_max_iter; d_learning_rate; d_dynamic; d_solver; d_alpha; d_batch_size; d_verbose; d_random_state]);
  ("SparseLinearMMD", [d_n_clusters; d_groups; d_max_iter; d_learning_rate; d_kernel; d_ovo; d_dynamic; d_solver; d_alpha; d_batch_size; d_verbose; d_random_state; d_kernel_params]);
  ("SparseLinearMI", [d_n_clusters; d_groups; d_max_iter; d_learning_rate; d_solver; d_alpha; d_batch_size; d_verbose; d_random_state]);
  ("SparseMLPModel", [d_n_clusters; d_gemini; d_groups; d_max_iter; d_learning_rate; d_n_hidden_dim; d_dynamic; d_solver; d_alpha; d_M; d_batch_size; d_verbose; d_random_state]);
  ("SparseMLPMMD", [d_n_clusters; d_groups; d_max_iter; d_learning_rate; d_n_hidden_dim; d_kernel; d_ovo; d_solver; d_alpha; d_M; d_dynamic; d_batch_size; d_verbose; d_random_state; d_kernel_params]);
  ("CategoricalModel", [d_n_clusters; d_gemini; d_max_iter; d_learning_rate; d_solver; d_verbose; d_random_state]);
  ("CategoricalMMD", [d_n_clusters; d_max_iter; d_learning_rate; d_kernel; d_ovo; d_solver; d_verbose; d_random_state; d_kernel_params]);
  ("CategoricalWasserstein", [d_n_clusters; d_max_iter; d_learning_rate; d_metric; d_ovo; d_solver; d_verbose; d_random_state; d_metric_params]);
  (* Douglas: n_cuts "number of cuts per feature"; feature_mask "array of boolean [shape d], default None"; temperature float *)
  ("Douglas", [d_n_clusters; d_gemini; ("n_cuts", int_ge 1); ("feature_mask", ndarray_ ∪ none_); ("temperature", real_gt 0);
               d_max_iter; d_batch_size; d_solver; d_learning_rate; d_verbose; d_random_state]);
  (* Kauri: max_depth / max_features / max_leaves "int, default=None"; a node is split in two: min_samples_split >= 2,
     a split tree has at least two leaves: max_leaves >= 2 *)
  ("Kauri", [("max_clusters", int_ge 1); ("max_depth", int_ge 1 ∪ none_); ("min_samples_split", int_ge 2); ("min_samples_leaf", int_ge 1);
             ("max_features", int_ge 1 ∪ none_); ("max_leaves", int_ge 2 ∪ none_); d_kernel; d_verbose; d_random_state]);
  (* GEMINI constructors *)
  ("KLGEMINI", [d_ovo; d_epsilon]); ("TVGEMINI", [d_ovo; d_epsilon]); ("HellingerGEMINI", [d_ovo; d_epsilon]); ("ChiSquareGEMINI", [d_ovo; d_epsilon]);
  (* kernel_params / metric_params: "Ignored if the kernel is callable or precomputed" documents callables *)
  ("MMDGEMINI", [d_ovo; ("kernel", strs kernel_names ∪ callable_); d_kernel_params; d_epsilon]);
  ("WassersteinGEMINI", [d_ovo; ("metric", strs metric_names ∪ callable_); d_metric_params; d_epsilon]);
  (* print_kauri_tree: kauri_tree "Kauri", feature_names "array of shape (n_features,) or None" *)
  ("print_kauri_tree", [("kauri_tree", inst "Kauri"); ("feature_names", arraylike_ ∪ none_)]);
  (* data generators: "int, RandomState instance or None" ; loc/scale/pvals lists or arrays *)
  ("draw_gmm", [("n", int_ge 1); ("loc", arraylike_); ("scale", arraylike_); ("pvals", arraylike_); d_random_state]);
  ("multivariate_student_t", [("n", int_ge 1); ("loc", arraylike_); ("scale", arraylike_); ("df", int_ge 1) (* "df: int, default=10" *); d_random_state]);
  (* gstm: four components, each needs a sample *)
  ("gstm", [("n", int_ge 4); ("alpha", real_gt 0); ("df", real_gt 0); d_random_state]);
  ("celeux_one", [("n", int_ge 1); ("p", int_ge 1); ("mu", real_gt 0); d_random_state]);
  ("celeux_two", [("n", int_ge 1); d_random_state]);
  (* add_mlcl_constraint: gemini_model "MLP___, Linear___ or Categorical___ ... gemini maximisation with gradient descent";
     must_link / cannot_link "ndarray of shape (n_constraints, 2) or None"; factor float *)
  ("add_mlcl_constraint", [("gemini_model", inst "DiscriminativeModel"); ("must_link", arraylike_ ∪ none_); ("cannot_link", arraylike_ ∪ none_); ("factor", real_gt 0)])
].

Definition doc_dom (e p : string) : option dom := match assoc e doc_table with None => None | Some t => assoc p t end.
(* the documented-domain predicate; an undocumented parameter has the empty domain *)
Definition in_doc_domain (t : class_table) (e p : string) (v : value) : bool :=
  match doc_dom e p with Some d => dom_sem t d v | None => false end.

(* ---- as-is constraint lists that are KNOWN to disagree with the documentation, frozen here with a witness value.
   (estimator/function, parameter, constraints as declared in the code when this was written, witness) *)
Definition kernel_options : list string := ["additive_chi2"; "chi2"; "cosine"; "laplacian"; "linear"; "poly"; "polynomial"; "precomputed"; "rbf"; "sigmoid"].
Definition distance_options : list string := ["cityblock"; "cosine"; "euclidean"; "haversine"; "l1"; "l2"; "manhattan"; "nan_euclidean"; "precomputed"].
Definition asis_kernel := Some [StrOptions kernel_options; CallableC].
Definition asis_metric := Some [StrOptions distance_options; CallableC].
Definition known_asis : list (string * string * option (list constraint) * value) := [
  (* a callable kernel is accepted; the estimators' docstrings enumerate names only *)
  ("LinearMMD", "kernel", asis_kernel, VCallable); ("MLPMMD", "kernel", asis_kernel, VCallable);
  ("SparseLinearMMD", "kernel", asis_kernel, VCallable); ("SparseMLPMMD", "kernel", asis_kernel, VCallable);
  ("CategoricalMMD", "kernel", asis_kernel, VCallable); ("Kauri", "kernel", asis_kernel, VCallable);
  (* every key of sklearn's PAIRWISE_DISTANCE_FUNCTIONS is accepted; the docstrings enumerate PAIRED_DISTANCES *)
  ("LinearWasserstein", "metric", asis_metric, VStr "haversine"); ("MLPWasserstein", "metric", asis_metric, VStr "haversine");
  ("CategoricalWasserstein", "metric", asis_metric, VStr "haversine"); ("WassersteinGEMINI", "metric", asis_metric, VStr "nan_euclidean");
  (* (repaired in /repo: SparseMLP*.groups and add_mlcl_constraint.must_link / cannot_link had no constraint at all) *)
  (* scikit-learn's "array-like" accepts a dict (it has __len__) *)
  ("draw_gmm", "loc", Some [ArrayLikeC], VDict); ("draw_gmm", "scale", Some [ArrayLikeC], VDict); ("draw_gmm", "pvals", Some [ArrayLikeC], VDict);
  ("multivariate_student_t", "loc", Some [ArrayLikeC], VDict); ("multivariate_student_t", "scale", Some [ArrayLikeC], VDict);
  ("print_kauri_tree", "feature_names", Some [ArrayLikeC; NoneC], VDict);
  ("add_mlcl_constraint", "must_link", Some [ArrayLikeC; NoneC], VDict); ("add_mlcl_constraint", "cannot_link", Some [ArrayLikeC; NoneC], VDict);
  (* documented "df: int", validated as a positive real *)
  ("multivariate_student_t", "df", Some [Interval TReal (Some (Fin (Qmake 0 1))) None CNeither], VReal (Qmake 5 2))
].
(* EXTRACT: dom_sem doc_dom in_doc_domain known_asis doc_table *)
