(* C09 — model of the KAURI tree construction and of routing through the fitted tree.
   Source: gemclus/tree/kauri.py (class Tree: __init__, _add_child, get_depth, predict;
   Kauri.fit, Kauri.predict, Kauri.score) and gemclus/tree/_utils.pyx (gemini_objective,
   kernel_stock; the admissibility window of find_best_split / compute_all_splits).
   find_best_split itself is an ORACLE here (property C08 is about its gains): the loop takes a
   function [choose : state -> option ksplit].  Feature values are integers (Z): the code only
   ever compares feature values with [<=] / [==], so the harness sends order-preserving ranks.
   Not modelled: Tree.gains (floats, C08/C19), Tree.categorical_nodes (find_best_split always
   builds Split(..., is_categorical=False); the categorical branch of Tree.predict is dead).
   No proofs in this file. *)
From Coq Require Import List Arith ZArith Bool.
From GV Require Import Common.Num.
Import ListNotations.

(* ------------------------------------------------------------------ data *)
Definition row := list Z.                 (* one sample: its feature values *)
Definition data := list row.              (* X : n rows *)
Definition xval (x : row) (f : nat) : Z := nth f x 0%Z.          (* x[f] *)
Definition feat (X : data) (i f : nat) : Z := xval (nth i X []) f.  (* X[i, f] *)

(* _utils.pyx::Split (gain and is_categorical are not part of the structural model) *)
Record ksplit := { s_leaf : nat; s_feature : nat; s_threshold : Z; s_left : nat; s_right : nat }.

(* ------------------------------------------------------------------ the array-encoded tree *)
(* kauri.py::Tree.__init__ : parallel lists children_left, children_right, features, thresholds,
   target, depths, all extended in lockstep; entry a of each list is field of node a.
   -1 (children) / None (features, thresholds) are [None] here; n_nodes = length. *)
Record node := { nd_left : option nat; nd_right : option nat; nd_feature : option nat;
                 nd_threshold : option Z; nd_target : nat; nd_depth : nat }.
Definition tree := list node.
Definition leaf_node (target depth : nat) : node :=
  {| nd_left := None; nd_right := None; nd_feature := None; nd_threshold := None;
     nd_target := target; nd_depth := depth |}.
(* Tree(): children [-1], target [0], thresholds [None], features [None], depths [0], n_nodes 1 *)
Definition tree_init : tree := [leaf_node 0 0].
Definition n_nodes (t : tree) : nat := length t.
Definition get_node (t : tree) (a : nat) : node := nth a t (leaf_node 0 0).

Fixpoint upd_nth {A} (l : list A) (i : nat) (f : A -> A) : list A :=
  match l, i with
  | [], _ => []
  | x :: r, O => f x :: r
  | x :: r, S j => x :: upd_nth r j f
  end.

(* kauri.py::Tree._add_child(father, split):
     children_left[father] = n_nodes; children_right[father] = n_nodes+1;
     thresholds[father] = split.threshold; features[father] = split.feature;
     lists += two entries (-1,-1,None,None, depths[father]+1, targets left_target,right_target);
     n_nodes += 2.  The father's own target and depth are left as they were. *)
Definition add_child (t : tree) (father : nat) (sp : ksplit) : tree :=
  let n := length t in
  let dep := S (nd_depth (get_node t father)) in
  upd_nth t father (fun nd =>
    {| nd_left := Some n; nd_right := Some (S n); nd_feature := Some (s_feature sp);
       nd_threshold := Some (s_threshold sp); nd_target := nd_target nd; nd_depth := nd_depth nd |})
  ++ [leaf_node (s_left sp) dep; leaf_node (s_right sp) dep].

(* kauri.py::Tree.predict(X, node=0), one row at a time:
     if children_left[node] == -1: target[node]
     else: left iff X[:, features[node]] <= thresholds[node]; recurse into the child.
   The Python recursion has no fuel; [None] is "out of fuel or malformed tree" and is excluded by
   the theorems (fuel = n_nodes is always enough because children have larger indices). *)
Fixpoint route (fuel : nat) (t : tree) (x : row) (a : nat) : option nat :=
  match fuel with
  | O => None
  | S fu =>
    match nth_error t a with
    | None => None
    | Some nd =>
      match nd_left nd with
      | None => Some a
      | Some l =>
        match nd_right nd, nd_feature nd, nd_threshold nd with
        | Some r, Some f, Some th => if (xval x f <=? th)%Z then route fu t x l else route fu t x r
        | _, _, _ => None
        end
      end
    end
  end.
(* does the routing of x started at node a pass through node b ? *)
Fixpoint visits (fuel : nat) (t : tree) (x : row) (a b : nat) : bool :=
  match fuel with
  | O => false
  | S fu =>
    match nth_error t a with
    | None => false
    | Some nd =>
      if a =? b then true else
      match nd_left nd, nd_right nd, nd_feature nd, nd_threshold nd with
      | Some l, Some r, Some f, Some th => if (xval x f <=? th)%Z then visits fu t x l b else visits fu t x r b
      | _, _, _, _ => false
      end
    end
  end.
Definition route_leaf (t : tree) (x : row) : option nat := route (length t) t x 0.
Definition predict_row (t : tree) (x : row) : option nat :=
  match route_leaf t x with Some a => Some (nd_target (get_node t a)) | None => None end.
Definition predict (t : tree) (X : data) : list (option nat) := map (predict_row t) X.
Definition is_leafb (nd : node) : bool := match nd_left nd with None => true | Some _ => false end.
Definition count_leaves (t : tree) : nat := length (filter is_leafb t).
(* Tree.get_depth() = max(depths) *)
Definition tree_depth (t : tree) : nat := fold_right (fun nd m => Nat.max (nd_depth nd) m) 0 t.
(* number of training rows whose routing passes through node a *)
Fixpoint countb (n : nat) (p : nat -> bool) : nat :=
  match n with O => 0 | S m => countb m p + (if p m then 1 else 0) end.
Definition node_count (t : tree) (X : data) (a : nat) : nat :=
  countb (length X) (fun i => visits (length t) t (nth i X []) 0 a).

(* ------------------------------------------------------------------ parameters *)
(* Kauri.__init__ / the "Set up variables" block of Kauri.fit *)
Record params := { max_clusters : nat; max_depth : option nat; min_samples_split : nat;
                   min_samples_leaf : nat; max_leaves : option nat }.
(* max_leaves = self.max_leaves if self.max_leaves is not None else n *)
Definition eff_max_leaves (P : params) (n : nat) : nat := match max_leaves P with None => n | Some m => m end.
(* max_depth = len(X) if self.max_depth is None else self.max_depth *)
Definition eff_max_depth (P : params) (n : nat) : nat := match max_depth P with None => n | Some m => m end.

(* ------------------------------------------------------------------ state of the fit loop *)
(* Z : (max_leaves x n) 0/1 leaf->sample; Y : (max_clusters x max_leaves) 0/1 cluster->leaf;
   matrices are total functions here (an out-of-range write would be an IndexError in Python:
   excluded by the admissibility of the split and the loop guard, see Proofs). *)
Record state := { st_Z : nat -> nat -> bool; st_Y : nat -> nat -> bool; st_nl : nat; st_nc : nat;
                  st_queue : list nat; st_l2n : nat -> nat; st_tree : tree }.

(* Z[0,:] = 1; Y[0,0] = 1; n_leaves = n_clusters = 1;
   leaves_to_explore = [0] if n >= min_samples_split else []; leaf2node = {0: 0} *)
Definition init (P : params) (X : data) : state :=
  {| st_Z := fun l _ => l =? 0; st_Y := fun k l => (k =? 0) && (l =? 0); st_nl := 1; st_nc := 1;
     st_queue := if min_samples_split P <=? length X then [0] else [];
     st_l2n := fun _ => 0; st_tree := tree_init |}.

Definition b2n (b : bool) : nat := if b then 1 else 0.
(* numpy argmax: index of the first maximum of f 0 .. f (n-1) *)
Fixpoint argmax_nat (n : nat) (f : nat -> nat) : nat :=
  match n with O => 0 | S m => let a := argmax_nat m f in if f a <? f m then m else a end.
Fixpoint sumn (n : nat) (f : nat -> nat) : nat := match n with O => 0 | S m => sumn m f + f m end.
(* k = Y[:, leaf].argmax() *)
Definition cluster_of (P : params) (st : state) (l : nat) : nat :=
  argmax_nat (max_clusters P) (fun k => b2n (st_Y st k l)).
Definition leaf_size (X : data) (st : state) (l : nat) : nat := countb (length X) (st_Z st l).
(* cluster_sizes = np.dot(Y, np.sum(Z, axis=1)) *)
Definition cluster_size (X : data) (st : state) (k : nat) : nat :=
  sumn (st_nl st) (fun l => if st_Y st k l then leaf_size X st l else 0).

Fixpoint remove_first (x : nat) (l : list nat) : list nat :=
  match l with [] => [] | y :: r => if x =? y then r else y :: remove_first x r end.
Definition upd (f : nat -> nat) (a v : nat) : nat -> nat := fun x => if x =? a then v else f x.

(* left_indices = leaf_indices[X[leaf_indices, feature] <= threshold]; right = setxor1d(leaf, left) *)
Definition goes_left (X : data) (st : state) (sp : ksplit) (i : nat) : bool :=
  st_Z st (s_leaf sp) i && (feat X i (s_feature sp) <=? s_threshold sp)%Z.
Definition goes_right (X : data) (st : state) (sp : ksplit) (i : nat) : bool :=
  st_Z st (s_leaf sp) i && negb (feat X i (s_feature sp) <=? s_threshold sp)%Z.

(* body of the while loop of Kauri.fit for a split with gain > 0 *)
Definition step (P : params) (X : data) (st : state) (sp : ksplit) : state :=
  let n := length X in
  let leaf := s_leaf sp in
  let nl := st_nl st in
  let nc := st_nc st in
  let right := goes_right X st sp in
  (* Z[leaf, right_indices] = 0 ; Z[n_leaves, right_indices] = 1 *)
  let Z' := fun l i => if l =? leaf then (if right i then false else st_Z st l i)
                       else if l =? nl then (if right i then true else st_Z st l i)
                       else st_Z st l i in
  (* k = Y[:, leaf].argmax(); Y[k, leaf] = 0; Y[left_target, leaf] = 1; Y[right_target, n_leaves] = 1 *)
  let k := cluster_of P st leaf in
  let Y1 := fun c l => if (c =? k) && (l =? leaf) then false else st_Y st c l in
  let Y2 := fun c l => if (c =? s_left sp) && (l =? leaf) then true else Y1 c l in
  let Y' := fun c l => if (c =? s_right sp) && (l =? nl) then true else Y2 c l in
  (* tree_._add_child(leaf2node[leaf], split); parent_depth = tree_.get_depth(leaf2node[leaf]) *)
  let father := st_l2n st leaf in
  let t' := add_child (st_tree st) father sp in
  let parent_depth := nd_depth (get_node t' father) in
  (* leaf2node[leaf] = 2*n_leaves-1 ; leaf2node[n_leaves] = 2*n_leaves *)
  let l2n' := upd (upd (st_l2n st) leaf (2 * nl - 1)) nl (2 * nl) in
  (* leaves_to_explore.remove(leaf); append children if parent_depth+1 < max_depth and size >= min_samples_split *)
  let q0 := remove_first leaf (st_queue st) in
  let q' := if S parent_depth <? eff_max_depth P n
            then q0 ++ (if min_samples_split P <=? countb n (goes_left X st sp) then [leaf] else [])
                    ++ (if min_samples_split P <=? countb n right then [nl] else [])
            else q0 in
  (* n_leaves += 1; n_clusters += 2 if both targets >= n_clusters, += 1 if one of them *)
  let nc' := if (nc <=? s_left sp) && (nc <=? s_right sp) then nc + 2
             else if (nc <=? s_left sp) || (nc <=? s_right sp) then nc + 1 else nc in
  {| st_Z := Z'; st_Y := Y'; st_nl := S nl; st_nc := nc'; st_queue := q'; st_l2n := l2n'; st_tree := t' |}.

(* while last_gain > 0 and n_leaves < max_leaves and len(leaves_to_explore) != 0 *)
Definition guard (P : params) (X : data) (st : state) : bool :=
  (st_nl st <? eff_max_leaves P (length X)) && negb (match st_queue st with [] => true | _ => false end).

Inductive outcome := Done (st : state) | OutOfFuel.
(* the oracle returns None when the best gain is <= 0 (the loop then stops) *)
Fixpoint loop (fuel : nat) (P : params) (X : data) (choose : state -> option ksplit) (st : state) : outcome :=
  match fuel with
  | O => OutOfFuel
  | S fu => if guard P X st
            then match choose st with None => Done st | Some sp => loop fu P X choose (step P X st sp) end
            else Done st
  end.
Definition fit (P : params) (X : data) (choose : state -> option ksplit) : outcome :=
  loop (S (eff_max_leaves P (length X))) P X choose (init P X).

(* labels_ = (Y @ Z).argmax(0) ; leaves_ = Z.argmax(0)   (matrix dims: K x L and L x n) *)
Definition label_of (P : params) (X : data) (st : state) (i : nat) : nat :=
  let L := eff_max_leaves P (length X) in
  argmax_nat (max_clusters P) (fun k => sumn L (fun l => b2n (st_Y st k l) * b2n (st_Z st l i))).
Definition leaf_of (P : params) (X : data) (st : state) (i : nat) : nat :=
  argmax_nat (eff_max_leaves P (length X)) (fun l => b2n (st_Z st l i)).
Definition labels (P : params) (X : data) (st : state) : list nat := map (label_of P X st) (seq 0 (length X)).
Definition leaves (P : params) (X : data) (st : state) : list nat := map (leaf_of P X st) (seq 0 (length X)).

(* ------------------------------------------------------------------ what find_best_split may return *)
(* _utils.pyx::find_best_split / compute_all_splits, structural part only:
   - j in leaves_to_explore, feature in feature_subset (a subset of range(d));
   - threshold = X[nu[l_split], feature] for a sample of the leaf, with l_split+1 >= min_leaf samples
     at or below it and n_leaf-l_split-1 >= min_leaf strictly above (the equal-value skip makes the
     sorted position and the [<=] count coincide);
   - targets: double star (n_clusters, n_clusters+1) if n_clusters < K_max-1 and the leaf is not its
     whole cluster; single star (n_clusters, k)/(k, n_clusters) if n_clusters < K_max; switch
     (k', k)/(k, k') with k' < n_clusters; reallocation (k_l, k_r) both < n_clusters, only if the
     leaf is not its whole cluster.  [keeps] below says: the cluster k of the leaf is not emptied. *)
Definition admissibleb (P : params) (d : nat) (X : data) (st : state) (sp : ksplit) : bool :=
  let n := length X in
  let leaf := s_leaf sp in
  let k := cluster_of P st leaf in
  let nc := st_nc st in
  let lt := s_left sp in let rt := s_right sp in
  let keeps := (lt =? k) || (rt =? k) || negb (leaf_size X st leaf =? cluster_size X st k) in
  existsb (Nat.eqb leaf) (st_queue st)
  && (s_feature sp <? d)
  && existsb (fun i => st_Z st leaf i && (feat X i (s_feature sp) =? s_threshold sp)%Z) (seq 0 n)
  && (min_samples_leaf P <=? countb n (goes_left X st sp))
  && (min_samples_leaf P <=? countb n (goes_right X st sp))
  && keeps
  && (((lt <? nc) && (rt <? nc))
      || ((lt =? nc) && (rt <? nc) && (nc <? max_clusters P))
      || ((lt <? nc) && (rt =? nc) && (nc <? max_clusters P))
      || ((lt =? nc) && (rt =? S nc) && (S nc <? max_clusters P))).


(* the oracle used by the correspondence: replay a recorded sequence of splits (iteration = n_leaves-1),
   refusing any recorded split that is not admissible in the current state *)
Definition replay_oracle (P : params) (d : nat) (X : data) (sps : list ksplit) (st : state) : option ksplit :=
  match nth_error sps (st_nl st - 1) with
  | Some sp => if admissibleb P d X st sp then Some sp else None
  | None => None
  end.

(* ------------------------------------------------------------------ score *)
(* _utils.pyx::kernel_stock (one accumulator over the member pairs, in index order) and
   gemini_objective: for value in np.unique(y_pred) (ascending): score += stock(C_value)/|C_value| *)
Section Objective.
Context {T : Type} (o : NumOps T).
Fixpoint facc (n : nat) (f : nat -> T -> T) (acc : T) : T :=
  match n with O => acc | S m => f m (facc m f acc) end.
Definition stock (n : nat) (ker : nat -> nat -> T) (inC : nat -> bool) : T :=
  facc n (fun i acc => if inC i then facc n (fun j acc2 => if inC j then nadd o acc2 (ker i j) else acc2) acc else acc) (n0 o).
Definition objective (n K : nat) (ker : nat -> nat -> T) (lab : nat -> nat) : T :=
  facc K (fun k acc => let sz := countb n (fun i => lab i =? k) in
                       if sz =? 0 then acc
                       else nadd o acc (ndiv o (stock n ker (fun i => lab i =? k)) (nofnat o sz))) (n0 o).
(* Kauri.score(X, y): gemini_objective(self.predict(X), kernel); a row that cannot be routed
   (excluded by the theorems) is given the impossible label K and so contributes nothing *)
Definition score (t : tree) (X : data) (K : nat) (ker : nat -> nat -> T) : T :=
  objective (length X) K ker (fun i => match predict_row t (nth i X []) with Some c => c | None => K end).
End Objective.
(* EXTRACT: ksplit node params state outcome tree_init add_child route visits route_leaf predict_row predict count_leaves tree_depth node_count init step guard loop fit label_of leaf_of labels leaves admissibleb replay_oracle cluster_of leaf_size cluster_size stock objective score eff_max_leaves eff_max_depth *)
