(* C09 — model of the KAURI tree construction and of routing through the fitted tree.
   Source: gemclus/tree/kauri.py (class Tree: __init__, _add_child, get_depth, predict;
   Kauri.fit, Kauri.predict, Kauri.score) and gemclus/tree/_utils.pyx (gemini_objective,
   kernel_stock; the admissibility window of find_best_split / compute_all_splits).
   SKELETON + HOLES: the control skeleton is written here once, generic in a record [R : FitRules]
   of holes (comparison operators, constants, which row/column/index set is written, the order of
   the updates, index arithmetic); the value [kauri_fit_rules] of the record is REGENERATED from the
   AST of kauri.py by translator/tr_kaurifit.py into Gen/KauriFitRules.v, which also checks that the
   source still has this skeleton.  The names without suffix ([init], [step], [guard], [loop],
   [fit], [add_child], [route], ...) are the instantiation with the regenerated rules: they are what
   the theorems, the extraction and the OCaml driver use.
   find_best_split itself is an ORACLE here (property C08 is about its gains): the loop takes a
   function [choose : state -> option ksplit].  Feature values are integers (Z): the code only
   ever compares feature values with [<=] / [==], so the harness sends order-preserving ranks.
   Not modelled: Tree.gains (floats, C08/C19), Tree.categorical_nodes (find_best_split always
   builds Split(..., is_categorical=False); the categorical branch of Tree.predict is dead).
   No proofs in this file. *)
From Coq Require Import List Arith ZArith Bool.
From GV Require Import Common.Num Gen.KauriFitRules.
Import ListNotations.

(* ------------------------------------------------------------------ data *)
Definition row := list Z.                 (* one sample: its feature values *)
Definition data := list row.              (* X : n rows *)
Definition xval (x : row) (f : nat) : Z := nth f x 0%Z.          (* x[f] *)
Definition feat (X : data) (i f : nat) : Z := xval (nth i X []) f.  (* X[i, f] *)

(* _utils.pyx::Split (gain and is_categorical are not part of the structural model) *)
Record ksplit := { s_leaf : nat; s_feature : nat; s_threshold : Z; s_left : nat; s_right : nat }.

(* ------------------------------------------------------------------ the array-encoded tree *)
(* kauri.py::Tree.__init__ : parallel lists children_left, children_right, features, thresholds,
   target, depths, all extended in lockstep; entry a of each list is field of node a.
   -1 (children) / None (features, thresholds) are [None] here; n_nodes = length. *)
Record node := { nd_left : option nat; nd_right : option nat; nd_feature : option nat;
                 nd_threshold : option Z; nd_target : nat; nd_depth : nat }.
Definition tree := list node.
Definition leaf_node (target depth : nat) : node :=
  {| nd_left := None; nd_right := None; nd_feature := None; nd_threshold := None;
     nd_target := target; nd_depth := depth |}.
Definition n_nodes (t : tree) : nat := length t.
Definition get_node (t : tree) (a : nat) : node := nth a t (leaf_node 0 0).

Fixpoint upd_nth {A} (l : list A) (i : nat) (f : A -> A) : list A :=
  match l, i with
  | [], _ => []
  | x :: r, O => f x :: r
  | x :: r, S j => x :: upd_nth r j f
  end.

Definition is_leafb (nd : node) : bool := match nd_left nd with None => true | Some _ => false end.
Definition count_leaves (t : tree) : nat := length (filter is_leafb t).
(* Tree.get_depth() = max(depths) *)
Definition tree_depth (t : tree) : nat := fold_right (fun nd m => Nat.max (nd_depth nd) m) 0 t.
Fixpoint countb (n : nat) (p : nat -> bool) : nat :=
  match n with O => 0 | S m => countb m p + (if p m then 1 else 0) end.

(* ------------------------------------------------------------------ parameters *)
(* Kauri.__init__ *)
Record params := { max_clusters : nat; max_depth : option nat; min_samples_split : nat;
                   min_samples_leaf : nat; max_leaves : option nat }.

(* ------------------------------------------------------------------ state of the fit loop *)
(* Z : (max_leaves x n) 0/1 leaf->sample; Y : (max_clusters x max_leaves) 0/1 cluster->leaf;
   matrices are total functions here (an out-of-range write would be an IndexError in Python:
   excluded by the admissibility of the split and the loop guard, see Proofs). *)
Record state := { st_Z : nat -> nat -> bool; st_Y : nat -> nat -> bool; st_nl : nat; st_nc : nat;
                  st_queue : list nat; st_l2n : nat -> nat; st_tree : tree }.

Definition b2n (b : bool) : nat := if b then 1 else 0.
(* numpy argmax: index of the first maximum of f 0 .. f (n-1) *)
Fixpoint argmax_nat (n : nat) (f : nat -> nat) : nat :=
  match n with O => 0 | S m => let a := argmax_nat m f in if f a <? f m then m else a end.
Fixpoint sumn (n : nat) (f : nat -> nat) : nat := match n with O => 0 | S m => sumn m f + f m end.
(* Y[:, l].argmax() *)
Definition cluster_of (P : params) (st : state) (l : nat) : nat :=
  argmax_nat (max_clusters P) (fun k => b2n (st_Y st k l)).
Definition leaf_size (X : data) (st : state) (l : nat) : nat := countb (length X) (st_Z st l).
(* cluster_sizes = np.dot(Y, np.sum(Z, axis=1)) *)
Definition cluster_size (X : data) (st : state) (k : nat) : nat :=
  sumn (st_nl st) (fun l => if st_Y st k l then leaf_size X st l else 0).

Fixpoint remove_first (x : nat) (l : list nat) : list nat :=
  match l with [] => [] | y :: r => if x =? y then r else y :: remove_first x r end.
Definition upd (f : nat -> nat) (a v : nat) : nat -> nat := fun x => if x =? a then v else f x.

(* reading the selectors of the regenerated rules *)
Definition pick {A} (s : sidesel) (l r : A) : A := match s with SLeft => l | SRight => r end.
Definition col_of (c : colsel) (leaf nl : nat) : nat := match c with CLeaf => leaf | CNew => nl end.
Definition cl_of (c : clsel) (k lt rt : nat) : nat := match c with KOld => k | KLeft => lt | KRight => rt end.

Inductive outcome := Done (st : state) | OutOfFuel.

(* ================================================================== the skeleton, generic in the holes *)
Section Skeleton.
Variable R : FitRules.

(* Tree(): children [-1], target [<c>], thresholds [None], features [None], depths [<c>], n_nodes 1 *)
Definition tree_init_g : tree := [leaf_node (r_root_target R) (r_root_depth R)].

(* kauri.py::Tree._add_child(father, split):
     children_left[father] = <e n_nodes>; children_right[father] = <e n_nodes>;
     thresholds[father] = split.threshold; features[father] = split.feature;
     lists += two entries (-1,-1,None,None, depths <e depths[father]> x2, targets <t>,<t>);
     n_nodes += 2.  The father's own target and depth are left as they were. *)
Definition add_child_g (t : tree) (father : nat) (sp : ksplit) : tree :=
  let n := length t in
  let fd := nd_depth (get_node t father) in
  upd_nth t father (fun nd =>
    {| nd_left := Some (r_child_left R n); nd_right := Some (r_child_right R n); nd_feature := Some (s_feature sp);
       nd_threshold := Some (s_threshold sp); nd_target := nd_target nd; nd_depth := nd_depth nd |})
  ++ [leaf_node (pick (r_child_target_l R) (s_left sp) (s_right sp)) (r_child_depth_l R fd);
      leaf_node (pick (r_child_target_r R) (s_left sp) (s_right sp)) (r_child_depth_r R fd)].

(* kauri.py::Tree.predict(X, node=0), one row at a time:
     if children_left[node] == -1: target[node]
     else: X_left = X[:, features[node]] <cmp> thresholds[node]; rows of X_left go to <child>, the others to <child>.
   The Python recursion has no fuel; [None] is "out of fuel or malformed tree" and is excluded by
   the theorems (fuel = n_nodes is always enough because children have larger indices). *)
Fixpoint route_g (fuel : nat) (t : tree) (x : row) (a : nat) : option nat :=
  match fuel with
  | O => None
  | S fu =>
    match nth_error t a with
    | None => None
    | Some nd =>
      match nd_left nd with
      | None => Some a
      | Some l =>
        match nd_right nd, nd_feature nd, nd_threshold nd with
        | Some r, Some f, Some th => if r_route_left R (xval x f) th then route_g fu t x (pick (r_route_true R) l r)
                                     else route_g fu t x (pick (r_route_false R) l r)
        | _, _, _ => None
        end
      end
    end
  end.
(* does the routing of x started at node a pass through node b ? *)
Fixpoint visits_g (fuel : nat) (t : tree) (x : row) (a b : nat) : bool :=
  match fuel with
  | O => false
  | S fu =>
    match nth_error t a with
    | None => false
    | Some nd =>
      if a =? b then true else
      match nd_left nd, nd_right nd, nd_feature nd, nd_threshold nd with
      | Some l, Some r, Some f, Some th => if r_route_left R (xval x f) th then visits_g fu t x (pick (r_route_true R) l r) b
                                           else visits_g fu t x (pick (r_route_false R) l r) b
      | _, _, _, _ => false
      end
    end
  end.

(* the "Set up variables" block of Kauri.fit *)
Definition eff_max_leaves_g (P : params) (n : nat) : nat := r_max_leaves R (max_leaves P) n.
Definition eff_max_depth_g (P : params) (n : nat) : nat := r_max_depth R (max_depth P) n.
(* max_features (only the size of the feature subset handed to find_best_split) *)
Definition eff_max_features_g (mf : option nat) (d : nat) : nat := r_max_features R mf d.

(* Z[<row>, :] = 1; Y[<k>, <l>] = 1; n_leaves = <c>; n_clusters = <c>;
   leaves_to_explore = <conditional list>; leaf2node = {<k>: <v>} (other keys: KeyError, here 0) *)
Definition init_g (P : params) (X : data) : state :=
  {| st_Z := fun l _ => l =? r_init_Z_row R;
     st_Y := fun k l => (k =? r_init_Y_k R) && (l =? r_init_Y_l R);
     st_nl := r_init_nl R; st_nc := r_init_nc R;
     st_queue := r_init_queue R (length X) (min_samples_split P);
     st_l2n := fun x => if x =? r_init_l2n_key R then r_init_l2n_val R else 0;
     st_tree := tree_init_g |}.

(* leaf_indices = where(Z[leaf] == 1); left_indices = leaf_indices[X[leaf_indices, feature] <cmp> threshold];
   right_indices = setxor1d(leaf_indices, left_indices) *)
Definition goes_left_g (X : data) (st : state) (sp : ksplit) (i : nat) : bool :=
  st_Z st (s_leaf sp) i && r_goes_left R (feat X i (s_feature sp)) (s_threshold sp).
Definition goes_right_g (X : data) (st : state) (sp : ksplit) (i : nat) : bool :=
  st_Z st (s_leaf sp) i && negb (r_goes_left R (feat X i (s_feature sp)) (s_threshold sp)).

(* one `Z[<row>, <index set>] = <v>` *)
Definition Z_update (leaf nl : nat) (gl gr : nat -> bool) (Zc : nat -> nat -> bool) (u : colsel * sidesel * bool) : nat -> nat -> bool :=
  let '(c, s, v) := u in fun l i => if (l =? col_of c leaf nl) && pick s gl gr i then v else Zc l i.
(* one `Y[<cluster>, <column>] = <v>` *)
Definition Y_update (k lt rt leaf nl : nat) (Yc : nat -> nat -> bool) (u : clsel * colsel * bool) : nat -> nat -> bool :=
  let '(cs, c, v) := u in fun c0 l => if (c0 =? cl_of cs k lt rt) && (l =? col_of c leaf nl) then v else Yc c0 l.

(* body of the while loop of Kauri.fit for a split with gain > 0 *)
Definition step_g (P : params) (X : data) (st : state) (sp : ksplit) : state :=
  let n := length X in
  let leaf := s_leaf sp in
  let nl := st_nl st in
  let nc := st_nc st in
  let gl := goes_left_g X st sp in
  let gr := goes_right_g X st sp in
  (* the run of Z[..] = .. assignments, in source order *)
  let Z' := fold_left (Z_update leaf nl gl gr) (r_Z_updates R) (st_Z st) in
  (* k = Y[:, <col>].argmax(); then the run of Y[..] = .. assignments *)
  let k := cluster_of P st (col_of (r_Y_argmax_col R) leaf nl) in
  let Y' := fold_left (Y_update k (s_left sp) (s_right sp) leaf nl) (r_Y_updates R) (st_Y st) in
  (* tree_._add_child(leaf2node[leaf], split); parent_depth = tree_.get_depth(leaf2node[leaf]) *)
  let father := st_l2n st leaf in
  let t' := add_child_g (st_tree st) father sp in
  let parent_depth := nd_depth (get_node t' father) in
  (* the run of leaf2node[<key>] = <e n_leaves> *)
  let l2n' := fold_left (fun f (u : colsel * (nat -> nat)) => upd f (col_of (fst u) leaf nl) (snd u nl)) (r_l2n_updates R) (st_l2n st) in
  (* leaves_to_explore.remove(leaf); if <depth test>: the run of `if <size test>: append(<leaf>)` *)
  let q0 := remove_first leaf (st_queue st) in
  let q' := if r_depth_ok R parent_depth (eff_max_depth_g P n)
            then q0 ++ concat (map (fun u : sidesel * (nat -> nat -> bool) * colsel =>
                                      let '(s, test, c) := u in
                                      if test (countb n (pick s gl gr)) (min_samples_split P) then [col_of c leaf nl] else [])
                                   (r_queue_appends R))
            else q0 in
  {| st_Z := Z'; st_Y := Y'; st_nl := r_nl_next R nl; st_nc := r_nc_next R nc (s_left sp) (s_right sp);
     st_queue := q'; st_l2n := l2n'; st_tree := t' |}.

(* while last_gain > 0 and <n_leaves test> and <queue test> *)
Definition guard_g (P : params) (X : data) (st : state) : bool :=
  r_guard R (st_nl st) (eff_max_leaves_g P (length X)) (length (st_queue st)).

(* the oracle returns None when the best gain is <= 0 (the loop then stops) *)
Fixpoint loop_g (fuel : nat) (P : params) (X : data) (choose : state -> option ksplit) (st : state) : outcome :=
  match fuel with
  | O => OutOfFuel
  | S fu => if guard_g P X st
            then match choose st with None => Done st | Some sp => loop_g fu P X choose (step_g P X st sp) end
            else Done st
  end.
Definition fit_g (P : params) (X : data) (choose : state -> option ksplit) : outcome :=
  loop_g (S (eff_max_leaves_g P (length X))) P X choose (init_g P X).
Definition route_leaf_g (t : tree) (x : row) : option nat := route_g (length t) t x 0.
(* Kauri.predict: X = check_array(X, dtype=np.float64); return tree_.predict(X).
   fit chose the thresholds among float64 feature values (validate_data(..., dtype=np.float64)); the model has ONE number
   system (Z, through the order-preserving rank encoding of float64 values), so it describes predict only when the query
   rows are compared in that same number system: without the conversion (hole false) a float32 row would be compared with
   the threshold rounded to float32, which this model does not describe -> None (every predict theorem then fails). *)
Definition predict_row_g (t : tree) (x : row) : option nat :=
  if r_predict_float64 R
  then match route_leaf_g t x with Some a => Some (nd_target (get_node t a)) | None => None end
  else None.
Definition predict_g (t : tree) (X : data) : list (option nat) := map (predict_row_g t) X.
(* number of training rows whose routing passes through node a *)
Definition node_count_g (t : tree) (X : data) (a : nat) : nat :=
  countb (length X) (fun i => visits_g (length t) t (nth i X []) 0 a).

(* labels_ = (Y @ Z).argmax(0) ; leaves_ = Z.argmax(0)   (matrix dims: K x L and L x n) *)
Definition label_of_g (P : params) (X : data) (st : state) (i : nat) : nat :=
  let L := eff_max_leaves_g P (length X) in
  argmax_nat (max_clusters P) (fun k => sumn L (fun l => b2n (st_Y st k l) * b2n (st_Z st l i))).
Definition leaf_of_g (P : params) (X : data) (st : state) (i : nat) : nat :=
  argmax_nat (eff_max_leaves_g P (length X)) (fun l => b2n (st_Z st l i)).
Definition labels_g (P : params) (X : data) (st : state) : list nat := map (label_of_g P X st) (seq 0 (length X)).
Definition leaves_g (P : params) (X : data) (st : state) : list nat := map (leaf_of_g P X st) (seq 0 (length X)).

(* ------------------------------------------------------------------ what find_best_split may return *)
(* _utils.pyx::find_best_split / compute_all_splits, structural part only (hand-written: the .pyx is C08's):
   - j in leaves_to_explore, feature in feature_subset (a subset of range(d));
   - threshold = X[nu[l_split], feature] for a sample of the leaf, with l_split+1 >= min_leaf samples
     at or below it and n_leaf-l_split-1 >= min_leaf strictly above (the equal-value skip makes the
     sorted position and the [<=] count coincide; the two counts are taken with fit's own left/right rule);
   - targets: double star (n_clusters, n_clusters+1) if n_clusters < K_max-1 and the leaf is not its
     whole cluster; single star (n_clusters, k)/(k, n_clusters) if n_clusters < K_max; switch
     (k', k)/(k, k') with k' < n_clusters; reallocation (k_l, k_r) both < n_clusters, only if the
     leaf is not its whole cluster.  [keeps] below says: the cluster k of the leaf is not emptied. *)
Definition admissibleb_g (P : params) (d : nat) (X : data) (st : state) (sp : ksplit) : bool :=
  let n := length X in
  let leaf := s_leaf sp in
  let k := cluster_of P st leaf in
  let nc := st_nc st in
  let lt := s_left sp in let rt := s_right sp in
  let keeps := (lt =? k) || (rt =? k) || negb (leaf_size X st leaf =? cluster_size X st k) in
  existsb (Nat.eqb leaf) (st_queue st)
  && (s_feature sp <? d)
  && existsb (fun i => st_Z st leaf i && (feat X i (s_feature sp) =? s_threshold sp)%Z) (seq 0 n)
  && (min_samples_leaf P <=? countb n (goes_left_g X st sp))
  && (min_samples_leaf P <=? countb n (goes_right_g X st sp))
  && keeps
  && (((lt <? nc) && (rt <? nc))
      || ((lt =? nc) && (rt <? nc) && (nc <? max_clusters P))
      || ((lt <? nc) && (rt =? nc) && (nc <? max_clusters P))
      || ((lt =? nc) && (rt =? S nc) && (S nc <? max_clusters P))).
End Skeleton.


(* ================================================================== instantiation with the regenerated rules *)
Definition tree_init : tree := tree_init_g kauri_fit_rules.
Definition add_child : tree -> nat -> ksplit -> tree := add_child_g kauri_fit_rules.
Definition route : nat -> tree -> row -> nat -> option nat := route_g kauri_fit_rules.
Definition visits : nat -> tree -> row -> nat -> nat -> bool := visits_g kauri_fit_rules.
Definition eff_max_leaves : params -> nat -> nat := eff_max_leaves_g kauri_fit_rules.
Definition eff_max_depth : params -> nat -> nat := eff_max_depth_g kauri_fit_rules.
Definition eff_max_features : option nat -> nat -> nat := eff_max_features_g kauri_fit_rules.
Definition init : params -> data -> state := init_g kauri_fit_rules.
Definition goes_left : data -> state -> ksplit -> nat -> bool := goes_left_g kauri_fit_rules.
Definition goes_right : data -> state -> ksplit -> nat -> bool := goes_right_g kauri_fit_rules.
Definition step : params -> data -> state -> ksplit -> state := step_g kauri_fit_rules.
Definition guard : params -> data -> state -> bool := guard_g kauri_fit_rules.
Definition loop : nat -> params -> data -> (state -> option ksplit) -> state -> outcome := loop_g kauri_fit_rules.
Definition fit : params -> data -> (state -> option ksplit) -> outcome := fit_g kauri_fit_rules.

Definition route_leaf : tree -> row -> option nat := route_leaf_g kauri_fit_rules.
Definition predict_row : tree -> row -> option nat := predict_row_g kauri_fit_rules.
Definition predict : tree -> data -> list (option nat) := predict_g kauri_fit_rules.
Definition node_count : tree -> data -> nat -> nat := node_count_g kauri_fit_rules.
Definition label_of : params -> data -> state -> nat -> nat := label_of_g kauri_fit_rules.
Definition leaf_of : params -> data -> state -> nat -> nat := leaf_of_g kauri_fit_rules.
Definition labels : params -> data -> state -> list nat := labels_g kauri_fit_rules.
Definition leaves : params -> data -> state -> list nat := leaves_g kauri_fit_rules.
Definition admissibleb : params -> nat -> data -> state -> ksplit -> bool := admissibleb_g kauri_fit_rules.

(* ================================================================== the hand-written golden copy of the holes *)
(* kauri.py as of the commit this development was written for.  Props/C09.v proves
   kauri_fit_rules = golden_fit_rules (drift is an L1 failure); the correspondence runs the implementation
   against the model under BOTH records, so that drift also produces a concrete failing input. *)
Definition golden_fit_rules : FitRules := {|
  r_ensure_min_samples := fun msl mss : nat => msl;
  r_contradiction := fun msl mss : nat => Nat.ltb mss (2 * msl);
  r_max_leaves := fun (max_leaves : option nat) (n : nat) => match max_leaves with Some v => v | None => n end;
  r_max_features := fun (max_features : option nat) (d : nat) => match max_features with Some v => Nat.min (Nat.max 1 v) d | None => d end;
  r_max_depth := fun (max_depth : option nat) (n : nat) => match max_depth with Some v => v | None => n end;
  r_init_Z_row := 0; r_init_Y_k := 0; r_init_Y_l := 0; r_init_nl := 1; r_init_nc := 1;
  r_init_queue := fun n mss : nat => if Nat.leb mss n then [0] else [];
  r_init_l2n_key := 0; r_init_l2n_val := 0;
  r_guard := fun n_leaves max_leaves qlen : nat => (Nat.ltb n_leaves max_leaves) && (negb (Nat.eqb 0 qlen));
  r_goes_left := fun x th : Z => Z.leb x th;
  r_Z_updates := [(CLeaf, SRight, false); (CNew, SRight, true)];
  r_Y_argmax_col := CLeaf;
  r_Y_updates := [(KOld, CLeaf, false); (KLeft, CLeaf, true); (KRight, CNew, true)];
  r_l2n_updates := [(CLeaf, fun n_leaves : nat => 2 * n_leaves - 1); (CNew, fun n_leaves : nat => 2 * n_leaves)];
  r_depth_ok := fun parent_depth max_depth : nat => Nat.ltb (parent_depth + 1) max_depth;
  r_queue_appends := [(SLeft, (fun len_side mss : nat => Nat.leb mss len_side), CLeaf); (SRight, (fun len_side mss : nat => Nat.leb mss len_side), CNew)];
  r_nl_next := fun n_leaves : nat => n_leaves + 1;
  r_nc_next := fun n_clusters left_target right_target : nat =>
    if (Nat.leb n_clusters left_target) && (Nat.leb n_clusters right_target) then n_clusters + 2
    else if (Nat.leb n_clusters left_target) || (Nat.leb n_clusters right_target) then n_clusters + 1 else n_clusters;
  r_root_target := 0; r_root_depth := 0;
  r_child_left := fun n_nodes : nat => n_nodes; r_child_right := fun n_nodes : nat => n_nodes + 1;
  r_child_depth_l := fun father_depth : nat => father_depth + 1; r_child_depth_r := fun father_depth : nat => father_depth + 1;
  r_child_target_l := SLeft; r_child_target_r := SRight;
  r_route_left := fun x th : Z => Z.leb x th;
  r_route_true := SLeft; r_route_false := SRight;
  r_predict_float64 := true |}.

(* the oracle used by the correspondence: replay a recorded sequence of splits (iteration = n_leaves-1),
   refusing any recorded split that is not admissible in the current state *)
Definition replay_oracle (P : params) (d : nat) (X : data) (sps : list ksplit) (st : state) : option ksplit :=
  match nth_error sps (st_nl st - 1) with
  | Some sp => if admissibleb P d X st sp then Some sp else None
  | None => None
  end.

(* ------------------------------------------------------------------ score *)
(* _utils.pyx::kernel_stock (one accumulator over the member pairs, in index order) and
   gemini_objective: for value in np.unique(y_pred) (ascending): score += stock(C_value)/|C_value| *)
Section Objective.
Context {T : Type} (o : NumOps T).
Fixpoint facc (n : nat) (f : nat -> T -> T) (acc : T) : T :=
  match n with O => acc | S m => f m (facc m f acc) end.
Definition stock (n : nat) (ker : nat -> nat -> T) (inC : nat -> bool) : T :=
  facc n (fun i acc => if inC i then facc n (fun j acc2 => if inC j then nadd o acc2 (ker i j) else acc2) acc else acc) (n0 o).
Definition objective (n K : nat) (ker : nat -> nat -> T) (lab : nat -> nat) : T :=
  facc K (fun k acc => let sz := countb n (fun i => lab i =? k) in
                       if sz =? 0 then acc
                       else nadd o acc (ndiv o (stock n ker (fun i => lab i =? k)) (nofnat o sz))) (n0 o).
(* Kauri.score(X, y): gemini_objective(self.predict(X), kernel); a row that cannot be routed
   (excluded by the theorems) is given the impossible label K and so contributes nothing *)
Definition score (t : tree) (X : data) (K : nat) (ker : nat -> nat -> T) : T :=
  objective (length X) K ker (fun i => match predict_row t (nth i X []) with Some c => c | None => K end).
End Objective.
(* EXTRACT: golden_fit_rules fit_g labels_g leaves_g predict_g route_leaf_g node_count_g admissibleb_g ksplit node params state outcome tree_init add_child route visits route_leaf predict_row predict count_leaves tree_depth node_count init step guard loop fit label_of leaf_of labels leaves admissibleb replay_oracle cluster_of leaf_size cluster_size stock objective score eff_max_leaves eff_max_depth eff_max_features *)
