(* C04 — what a fitted model exposes: the output relations of DiscriminativeModel as functions of the
   fitted parameters.  Only what Model/Forward.v lacks: the forward pass selected by the estimator
   family, labels_, predict_proba, predict, score, n_iter_ and the optimiser chosen from `solver`.
   Sources: gemclus/_base_gemini.py::DiscriminativeModel.fit / predict_proba / predict / score,
   linear/_linear_geminis.py::KernelRIM.predict_proba, tree/douglas.py::Douglas._infer.
   No proofs in this file. *)
From Coq Require Import List Bool Arith String.
From GV Require Import Common.Num Model.Forward.
Import ListNotations.
Local Open Scope string_scope.

Section Coherence.
Context {T : Type} (o : NumOps T).
Local Notation MatT := (@Mat T).

(* The fitted parameters of the gradient-trained families.  Every `_infer` ends with
   `return softmax(<logits>)`; the families differ in the logits only.
   PLogits covers Douglas._infer (`softmax(leaf @ self.leaf_scores_)`, the leaf memberships being the
   subject of C15) and any further model of that shape: the logits are an arbitrary function of the data. *)
Inductive params :=
| PLinear (d : nat) (W : MatT) (b : nat -> T)                                   (* LinearModel, LinearMMD, LinearWasserstein, RIM, SparseLinear* : W_, b_ *)
| PMlp (d h : nat) (W1 : MatT) (b1 : nat -> T) (W2 : MatT) (b2 : nat -> T)       (* MLPModel, MLPMMD, MLPWasserstein : W1_, b1_, W2_, b2_ *)
| PSparseMlp (d h : nat) (W1 : MatT) (b1 : nat -> T) (W2 : MatT) (b2 : nat -> T) (Wskip : MatT)   (* SparseMLPModel, SparseMLPMMD : + W_skip_ *)
| PCategorical (logits : MatT)                                                  (* Categorical* : logits_ (the data are ignored) *)
| PKernelRim (ntrain : nat) (W : MatT) (b : nat -> T)                           (* KernelRIM : the "data" are the kernel rows k(x, X_train) *)
| PLogits (f : MatT -> MatT).                                                    (* Douglas : f X = leaf(X) @ leaf_scores_ *)

(* self._infer(X) — the value does not depend on `retain` (it only decides whether H_ / _leaf are stored) *)
Definition infer (K : nat) (p : params) (X : MatT) : MatT :=
  match p with
  | PLinear d W b => linear_infer o d K W b X
  | PMlp d h W1 b1 W2 b2 => mlp_infer o d h K W1 b1 W2 b2 X
  | PSparseMlp d h W1 b1 W2 b2 Ws => sparse_mlp_infer o d h K W1 b1 W2 b2 Ws X
  | PCategorical L => categorical_infer o K L
  | PKernelRim nt W b => kernel_rim_infer o nt K W b X
  | PLogits f => softmax o K (f X)
  end.

(* .argmax(1) / np.argmax(., axis=1) of an n x K matrix, row i *)
Definition labels_of (K : nat) (P : MatT) (i : nat) : nat := argmax_row o K (P i).

(* fit:            self.labels_ = self._infer(X).argmax(1) *)
Definition fit_labels (K : nat) (p : params) (Xtrain : MatT) : nat -> nat := labels_of K (infer K p Xtrain).
(* fit_predict:    return self.fit(X, y).labels_ *)
Definition fit_predict (K : nat) (p : params) (Xtrain : MatT) : nat -> nat := fit_labels K p Xtrain.
(* predict_proba:  y_pred = self._infer(X, retain=False); return y_pred
   (KernelRIM.predict_proba: self._infer(self._compute_kernel(X)) — X below is then the kernel rows) *)
Definition predict_proba (K : nat) (p : params) (X : MatT) : MatT := infer K p X.
(* predict:        return np.argmax(self.predict_proba(X), axis=1) *)
Definition predict (K : nat) (p : params) (X : MatT) : nat -> nat := labels_of K (predict_proba K p X).
(* score:          gemini = self.get_gemini(); K = gemini.compute_affinity(X, y); y_pred = self.predict_proba(X);
                   return gemini(y_pred, K).item()
   the GEMINI and its affinity function are parameters (they are the subject of C01 / C11) *)
Definition score {A : Type} (gemini : MatT -> A -> T) (affinity : MatT -> A) (K : nat) (p : params) (X : MatT) : T :=
  gemini (predict_proba K p X) (affinity X).

(* fit:  for i in range(self.max_iter): ...  ;  self.n_iter_ = self.max_iter *)
Fixpoint epochs_run (max_iter : nat) : nat := match max_iter with O => O | S m => S (epochs_run m) end.
Definition n_iter (max_iter : nat) : nat := max_iter.

(* fit:  if self.solver == "sgd": SGDOptimizer(weights, self.learning_rate) else: AdamOptimizer(weights, self.learning_rate) *)
Inductive optimiser := SGDOptimizer | AdamOptimizer.
Definition optimiser_of (solver : string) : optimiser :=
  if String.eqb solver "sgd" then SGDOptimizer else AdamOptimizer.
(* ... both built from the same weights with learning_rate = self.learning_rate *)
Definition optimiser_init (solver : string) (lr : T) : optimiser * T := (optimiser_of solver, lr).
(* _parameter_constraints["solver"] = [StrOptions({"sgd", "adam"})] *)
Definition solver_accepted (solver : string) : bool := String.eqb solver "sgd" || String.eqb solver "adam".
End Coherence.
(* EXTRACT: params infer labels_of fit_labels fit_predict predict_proba predict score epochs_run n_iter optimiser optimiser_of solver_accepted *)
