(* C18 — what Model/Forward.v lacks for "predictions are per-sample functions of the fitted model":
   row selection, the predict / predict_proba / labels_ layer of DiscriminativeModel, the retained
   hidden state of the MLP forward passes, KernelRIM's stored training data and kernel oracle, the
   Douglas forward pass, and the mask-based recursion of Tree.predict over the array-encoded tree.
   Sources: gemclus/_base_gemini.py (fit: labels_, predict_proba, predict),
   linear/_linear_geminis.py (KernelRIM._compute_kernel / fit / predict_proba),
   mlp/_mlp_geminis.py and sparse/_mlp_sparse.py (_infer with retain), tree/douglas.py
   (_leaf_binning, _merge_leaf, _infer), tree/kauri.py (class Tree: predict).
   Self-contained on purpose (the C09/C19 tree models are separate files).  No proofs here. *)
From Coq Require Import List Bool Arith ZArith.
From GV Require Import Common.Num Model.Forward.
Import ListNotations.

(* numpy fancy indexing X[r] : row i of the result is row r(i) of X (subset, reordering, repetitions, single row) *)
Definition select {A : Type} (r : nat -> nat) (X : nat -> nat -> A) : nat -> nat -> A := fun i j => X (r i) j.
Definition select_vec {A : Type} (r : nat -> nat) (v : nat -> A) : nat -> A := fun i => v (r i).
(* the same on a list of rows (Tree.predict works on a finite array of rows) *)
Definition select_rows {A : Type} (d : A) (r : list nat) (X : list A) : list A := map (fun i => nth i X d) r.

(* outcome of a partial computation: value, exception raised by the code, or model fuel exhausted *)
Inductive res (A : Type) : Type := Ok (a : A) | Err | Fuel.
Arguments Ok {A} a. Arguments Err {A}. Arguments Fuel {A}.

Section Rowwise.
Context {T : Type} (o : NumOps T).
Local Notation mat := (nat -> nat -> T).
Local Notation vec := (nat -> T).

(* ------------------------------------------------------------------ fitted gradient models *)
(* the fitted attributes that _infer reads: W_, b_ | W1_, b1_, W2_, b2_ | + W_skip_ *)
Inductive model : Type :=
| MLinear (d K : nat) (W : mat) (b : vec)                                      (* LinearModel, LinearMMD, LinearWasserstein, RIM, SparseLinear* *)
| MMlp (d h K : nat) (W1 : mat) (b1 : vec) (W2 : mat) (b2 : vec)               (* MLPModel, MLPMMD, MLPWasserstein *)
| MSparseMlp (d h K : nat) (W1 : mat) (b1 : vec) (W2 : mat) (b2 : vec) (Wskip : mat).   (* SparseMLPModel, SparseMLPMMD *)

Definition n_features (m : model) : nat :=
  match m with MLinear d _ _ _ => d | MMlp d _ _ _ _ _ _ => d | MSparseMlp d _ _ _ _ _ _ _ => d end.
Definition n_clusters (m : model) : nat :=
  match m with MLinear _ K _ _ => K | MMlp _ _ K _ _ _ _ => K | MSparseMlp _ _ K _ _ _ _ _ => K end.
(* self._infer(X, ...) *)
Definition infer (m : model) (X : mat) : mat :=
  match m with
  | MLinear d K W b => linear_infer o d K W b X
  | MMlp d h K W1 b1 W2 b2 => mlp_infer o d h K W1 b1 W2 b2 X
  | MSparseMlp d h K W1 b1 W2 b2 Ws => sparse_mlp_infer o d h K W1 b1 W2 b2 Ws X
  end.

(* MLPModel._infer(X, retain):  H = max(X W1 + b1, 0); if retain: self.H_ = H; return softmax(H W2 + b2)
   — as a state-passing function: (output, new value of the attribute H_) *)
Definition mlp_infer_st (d h K : nat) (W1 : mat) (b1 : vec) (W2 : mat) (b2 : vec)
    (H_ : option mat) (retain : bool) (X : mat) : mat * option mat :=
  let H := mlp_hidden o d h W1 b1 X in
  (softmax o K (affine o h H W2 b2), if retain then Some H else H_).
(* SparseMLPModel._infer(X, retain): the same with the skip connection added to the logits *)
Definition sparse_mlp_infer_st (d h K : nat) (W1 : mat) (b1 : vec) (W2 : mat) (b2 : vec) (Ws : mat)
    (H_ : option mat) (retain : bool) (X : mat) : mat * option mat :=
  let H := mlp_hidden o d h W1 b1 X in
  (softmax o K (fun i k => nadd o (affine o h H W2 b2 i k) (matmul o d X Ws i k)), if retain then Some H else H_).

(* DiscriminativeModel.predict_proba: y_pred = self._infer(X, retain=False) *)
Definition predict_proba (m : model) (X : mat) : mat := infer m X.
(* DiscriminativeModel.predict: np.argmax(self.predict_proba(X), axis=1) *)
Definition predict (m : model) (X : mat) : nat -> nat := fun i => argmax_row o (n_clusters m) (predict_proba m X i).
(* DiscriminativeModel.fit, last statement: self.labels_ = self._infer(X).argmax(1) *)
Definition fit_labels (m : model) (Xtrain : mat) : nat -> nat := fun i => argmax_row o (n_clusters m) (infer m Xtrain i).

(* ------------------------------------------------------------------ KernelRIM *)
(* The kernel (sklearn pairwise_kernels or the user's callable) is an ORACLE: kern A B is the matrix
   kernel(A, B), rows indexed by the rows of A and columns by the rows of B. *)
Record krim : Type := { kr_ntrain : nat; kr_K : nat; kr_input : mat (* input_data_ *);
                        kr_train_kernel : mat (* training_kernel_ *); kr_W : mat; kr_b : vec }.
(* KernelRIM.fit: self.input_data_ = X; self.training_kernel_ = self._compute_kernel(X); super().fit(training_kernel_)
   (the base fit then learns W_ (ntrain x K), b_ from the rows of training_kernel_) *)
Definition krim_fit_store (kern : mat -> mat -> mat) (ntrain K : nat) (Xtrain : mat) (W : mat) (b : vec) : krim :=
  {| kr_ntrain := ntrain; kr_K := K; kr_input := Xtrain; kr_train_kernel := kern Xtrain Xtrain; kr_W := W; kr_b := b |}.
(* KernelRIM._compute_kernel(X): kernel between X and the STORED input_data_ *)
Definition krim_compute_kernel (kern : mat -> mat -> mat) (m : krim) (X : mat) : mat := kern X (kr_input m).
(* KernelRIM.predict_proba(X): self._infer(self._compute_kernel(X)) *)
Definition krim_predict_proba (kern : mat -> mat -> mat) (m : krim) (X : mat) : mat :=
  kernel_rim_infer o (kr_ntrain m) (kr_K m) (kr_W m) (kr_b m) (krim_compute_kernel kern m X).
Definition krim_predict (kern : mat -> mat -> mat) (m : krim) (X : mat) : nat -> nat :=
  fun i => argmax_row o (kr_K m) (krim_predict_proba kern m X i).
(* what the base fit computes on the training kernel rows: self._infer(training_kernel_) and labels_ *)
Definition krim_fit_proba (m : krim) : mat := linear_infer o (kr_ntrain m) (kr_K m) (kr_W m) (kr_b m) (kr_train_kernel m).
Definition krim_fit_labels (m : krim) : nat -> nat := fun i => argmax_row o (kr_K m) (krim_fit_proba m i).
(* fit called on an estimator OBJECT that may already be fitted (prev = the attributes left by an earlier
   fit, None on a new object).  DiscriminativeModel.fit / KernelRIM.fit assign every attribute that
   predict / predict_proba read again (_init_params: W_, b_ | W1_, b1_, W2_, b2_ | W_skip_; KernelRIM.fit:
   input_data_, training_kernel_) and keep nothing of prev; [learned] is what the training loop of THIS fit
   produced.  No prediction-time cache exists in the code as it is. *)
Definition refit (prev : option model) (learned : model) : model := learned.
Definition krim_refit (kern : mat -> mat -> mat) (prev : option krim) (ntrain K : nat) (Xtrain W : mat) (b : vec) : krim :=
  krim_fit_store kern ntrain K Xtrain W b.
(* the linear kernel X @ Y.T, used to show that the row-wise hypothesis on the oracle is satisfiable *)
Definition linear_kernel (d : nat) (A B : mat) : mat := fun i t => bsum o d (fun j => nmul o (A i j) (B t j)).

(* ------------------------------------------------------------------ Douglas *)
(* Douglas._leaf_binning(x column, cut_points):  n = len(cut_points); W = [1..n+1];
   sorted = cut_points[argsort]; b = cumsum([0, -sorted]); softmax((x*W + b)/temperature).
   The sort acts on parameters only: the model takes the sorted cut points. *)
Definition douglas_bin (nc : nat) (sorted : vec) (temp x : T) : vec :=
  softmax_row o (S nc) (fun c => ndiv o (nadd o (nmul o x (nofnat o (S c))) (bsum o c (fun t => nneg o (sorted t)))) temp).
(* reduce(_merge_leaf, binnings): einsum("ij,ik->ijk") reshaped to (n, -1): flat index j*nb + k, so the
   LAST feature is the least significant digit.  bins_rev = binnings of one row, last feature first. *)
Fixpoint douglas_leaf (nb : nat) (bins_rev : list vec) (l : nat) : T :=
  match bins_rev with
  | [] => n1 o                       (* reduce of an empty list raises in python; excluded (>= 1 used feature) *)
  | [b] => b l
  | b :: rest => nmul o (douglas_leaf nb rest (l / nb)) (b (l mod nb))
  end.
(* Douglas._infer: softmax(leaf @ leaf_scores_) ; cuts = cut_points_list_ as (feature, sorted cut points) *)
Definition douglas_infer (nc : nat) (temp : T) (cuts : list (nat * vec)) (nleaf K : nat) (scores : mat) (X : mat) : mat :=
  softmax o K (fun i k =>
    let bins := rev (map (fun fc => douglas_bin nc (snd fc) temp (X i (fst fc))) cuts) in
    bsum o nleaf (fun l => nmul o (douglas_leaf (S nc) bins l) (scores l k))).

(* ------------------------------------------------------------------ Tree.predict *)
(* kauri.py::Tree : parallel python lists, one entry per node; -1 = no child, None = unset. *)
Record atree : Type := { a_n : Z (* n_nodes *); a_left : list Z; a_right : list Z; a_target : list Z;
                         a_feat : list (option nat); a_thr : list (option T); a_cat : list bool }.
(* l[z] for a non-negative z (negative nodes are rejected before any list access) *)
Definition zn {A : Type} (l : list A) (z : Z) : option A := if (z <? 0)%Z then None else nth_error l (Z.to_nat z).
(* X[mask] (b = true) and X[~mask] (b = false) *)
Fixpoint pick {A : Type} (b : bool) (mask : list bool) (X : list A) : list A :=
  match mask, X with
  | m :: ms, x :: xs => if Bool.eqb m b then x :: pick b ms xs else pick b ms xs
  | _, _ => []
  end.
(* predictions = zeros(len(X)); predictions[X_left] = pl; predictions[X_right] = pr *)
Fixpoint scatter (mask : list bool) (pl pr : list Z) : list Z :=
  match mask with
  | [] => []
  | true :: ms => match pl with a :: pl' => a :: scatter ms pl' pr | [] => 0%Z :: scatter ms [] pr end
  | false :: ms => match pr with a :: pr' => a :: scatter ms pl pr' | [] => 0%Z :: scatter ms pl [] end
  end.
(* Tree.predict(X, node):
     if node < 0 or node > self.n_nodes: raise ValueError          (node == n_nodes passes and hits IndexError)
     if self.children_left[node] == -1: return self.target[node] * np.ones(len(X))
     if self.categorical_nodes[node]: X_left = X[:, feature] == self.thresholds   (dead: no Split is categorical; Err here)
     else: X_left = X[:, self.features[node]] <= self.thresholds[node]
     X_right = ~X_left; predictions[X_left] = self.predict(X[X_left], children_left[node]); same on the right.
   A row is a function feature -> value; the whole sub-tree is traversed even with no rows. *)
Fixpoint predict_vec (fuel : nat) (t : atree) (X : list vec) (node : Z) : res (list Z) :=
  match fuel with
  | O => Fuel
  | S f =>
    if ((node <? 0) || (a_n t <? node))%Z then Err else
    match zn (a_left t) node with
    | None => Err
    | Some cl =>
      if (cl =? -1)%Z then
        match zn (a_target t) node with None => Err | Some tg => Ok (map (fun _ => tg) X) end
      else
        match zn (a_cat t) node, zn (a_feat t) node, zn (a_thr t) node with
        | Some false, Some (Some ft), Some (Some th) =>
          let mask := map (fun x : vec => nleb o (x ft) th) X in
          match predict_vec f t (pick true mask X) cl with
          | Ok pl =>
            match zn (a_right t) node with
            | None => Err
            | Some cr =>
              match predict_vec f t (pick false mask X) cr with
              | Ok pr => Ok (scatter mask pl pr)
              | Err => Err
              | Fuel => Fuel
              end
            end
          | Err => Err
          | Fuel => Fuel
          end
        | _, _, _ => Err
        end
    end
  end.
(* the same routing for one row alone: the label the row reaches *)
Fixpoint route (fuel : nat) (t : atree) (x : vec) (node : Z) : res Z :=
  match fuel with
  | O => Fuel
  | S f =>
    if ((node <? 0) || (a_n t <? node))%Z then Err else
    match zn (a_left t) node with
    | None => Err
    | Some cl =>
      if (cl =? -1)%Z then
        match zn (a_target t) node with None => Err | Some tg => Ok tg end
      else
        match zn (a_cat t) node, zn (a_feat t) node, zn (a_thr t) node with
        | Some false, Some (Some ft), Some (Some th) =>
          if nleb o (x ft) th then route f t x cl
          else match zn (a_right t) node with None => Err | Some cr => route f t x cr end
        | _, _, _ => Err
        end
    end
  end.
(* Kauri.predict(X) = self.tree_.predict(X)  (node = 0); fuel = number of nodes suffices for a well-formed tree *)
Definition tree_predict (t : atree) (X : list vec) : res (list Z) := predict_vec (length (a_left t)) t X 0%Z.
Definition tree_route (t : atree) (x : vec) : res Z := route (length (a_left t)) t x 0%Z.
End Rowwise.
(* EXTRACT: select select_vec select_rows res model n_features n_clusters infer mlp_infer_st sparse_mlp_infer_st predict_proba predict fit_labels krim krim_fit_store krim_compute_kernel krim_predict_proba krim_predict krim_fit_proba krim_fit_labels refit krim_refit linear_kernel douglas_bin douglas_leaf douglas_infer atree zn pick scatter predict_vec route tree_predict tree_route *)
