(* C05 — model of the proximal operators of gemclus/sparse/_prox_grad.py:
   soft_threshold, linear_prox_grad, mlp_prox_grad (LassoNet HIER-PROX), group_linear_prox_grad,
   group_mlp_prox_grad.  Generic over the number system (NumOps T): the theorems use T = R, the
   correspondence the extracted float instance.  Matrices are lists of rows.  No proofs in this file. *)
From Coq Require Import List Bool Arith.
From GV Require Import Common.Num.
Import ListNotations.

Section Generic.
Context {T : Type} (o : NumOps T).

(* _prox_grad.py::soft_threshold   np.sign(x) * np.maximum(np.abs(x) - threshold, 0) *)
Definition soft_threshold (thr x : T) : T :=
  nmul o (nsign o x) (nmax o (nsub o (nabs o x) thr) (n0 o)).

(* _prox_grad.py::linear_prox_grad, one row of W:
   W_norms = np.linalg.norm(W, axis=1, keepdims=True)
   W_star = np.maximum(W_norms - alpha, 0) * W / np.where(W_norms == 0, 1, W_norms) *)
Definition linear_prox_row (w : list T) (alpha : T) : list T :=
  let nw := norm2 o w in
  let den := if neqb o nw (n0 o) then n1 o else nw in
  let fac := nmax o (nsub o nw alpha) (n0 o) in
  map (fun x => ndiv o (nmul o fac x) den) w.

(* linear_prox_grad on the whole matrix: every operation is row-wise (axis=1, keepdims) *)
Definition linear_prox (W : list (list T)) (alpha : T) : list (list T) :=
  map (fun w => linear_prox_row w alpha) W.

(* np.sort(np.abs(u), axis=1)[:, ::-1] : descending order (insertion sort; equal keys are equal values) *)
Fixpoint insert_desc (x : T) (l : list T) : list T :=
  match l with [] => [x] | y :: r => if nltb o x y then y :: insert_desc x r else x :: l end.
Fixpoint sort_desc (l : list T) : list T :=
  match l with [] => [] | x :: r => insert_desc x (sort_desc r) end.
(* np.sort(x, axis=1) without the reversal: ascending order (only the regenerated code of Gen/ProxGen.v
   refers to it, when the source stops reversing) *)
Fixpoint insert_asc (x : T) (l : list T) : list T :=
  match l with [] => [x] | y :: r => if nltb o y x then y :: insert_asc x r else x :: l end.
Fixpoint sort_asc (l : list T) : list T :=
  match l with [] => [] | x :: r => insert_asc x (sort_asc r) end.
(* np.cumsum(a, axis=1) : [a1; a1+a2; (a1+a2)+a3; ...], sequential additions *)
Fixpoint cumsum_acc (acc : T) (l : list T) : list T :=
  match l with [] => [] | x :: r => nadd o acc x :: cumsum_acc (nadd o acc x) r end.
Definition np_cumsum (l : list T) : list T :=
  match l with [] => [] | x :: r => x :: cumsum_acc x r end.
(* np.sum(<boolean row>) *)
Fixpoint count_true (l : list bool) : nat :=
  match l with [] => 0 | b :: r => (if b then 1 else 0) + count_true r end.

(* _prox_grad.py::mlp_prox_grad, one row: v = skip row W_skip_[j], u = first-layer row W1_[j].
     u_abs_sorted = np.sort(np.abs(u), axis=1)[:, ::-1]
     s = np.arange(k + 1.0)
     a_s = alpha - M * concatenate([zeros, cumsum(u_abs_sorted)])
     norm_v = norm(v)
     x = np.maximum(1 - a_s / norm_v, 0) / (1 + s * M ** 2)
     w = M * x * norm_v
     intervals = soft_threshold(0, u_abs_sorted);  lower = concatenate([intervals, zeros])
     idx = np.sum(lower > w)
     x_star = x[idx]; w_star = w[idx]
     beta_star = x_star * v
     theta_star = np.where(u >= 0, 1, -1) * np.minimum(soft_threshold(0, np.abs(u)), w_star) *)
Definition hier_prox_row (v u : list T) (alpha M : T) : list T * list T :=
  let a := sort_desc (map (nabs o) u) in
  let k := length u in
  let cs := n0 o :: np_cumsum a in                 (* concatenate([zeros, cumsum(a)]) : length k+1 *)
  let nv := norm2 o v in
  let xs := map (fun sc : nat * T =>
                   let a_s := nsub o alpha (nmul o M (snd sc)) in
                   ndiv o (nmax o (nsub o (n1 o) (ndiv o a_s nv)) (n0 o))
                          (nadd o (n1 o) (nmul o (nofnat o (fst sc)) (nmul o M M))))
                (combine (seq 0 (S k)) cs) in
  let ws := map (fun x => nmul o (nmul o M x) nv) xs in
  let lower := map (soft_threshold (n0 o)) a ++ [n0 o] in
  let idx := count_true (map (fun lw : T * T => nltb o (snd lw) (fst lw)) (combine lower ws)) in
  let x_star := nth idx xs (n0 o) in
  let w_star := nth idx ws (n0 o) in
  (map (fun b => nmul o x_star b) v,
   map (fun t => nmul o (if nleb o (n0 o) t then n1 o else nneg o (n1 o))
                        (nmin o (soft_threshold (n0 o) (nabs o t)) w_star)) u).

(* mlp_prox_grad on the matrices: row j of the outputs depends on row j of W_skip_ and W1_ only *)
Definition mlp_prox (V U : list (list T)) (alpha M : T) : list (list T) * list (list T) :=
  let r := map (fun p : list T * list T => hier_prox_row (fst p) (snd p) alpha M) (combine V U) in
  (map fst r, map snd r).
End Generic.

(* ---- the group_* wrappers: index handling ------------------------------------------------------ *)
(* W[g] : fancy indexing, the rows of g in the order of g (IndexError when out of range: see group_ok) *)
Definition gather {A} (W : list (list A)) (g : list nat) : list (list A) := map (fun i => nth i W []) g.
(* W.shape[1] *)
Definition ncols {A} (W : list (list A)) : nat := match W with [] => 0 | r :: _ => length r end.
(* group_W.reshape((1, -1)) : row-major flattening *)
Definition flatten {A} (rows : list (list A)) : list A := concat rows.
(* group_W_star.reshape(group_W.shape) : n rows of h consecutive entries *)
Fixpoint unflatten {A} (n h : nat) (l : list A) : list (list A) :=
  match n with O => [] | S m => firstn h l :: unflatten m h (skipn h l) end.
Fixpoint set_nth {A} (i : nat) (x : A) (l : list A) : list A :=
  match l with
  | [] => []
  | y :: r => match i with O => x :: r | S j => y :: set_nth j x r end
  end.
(* W_star[g] = rows : row g[j] of W_star becomes rows[j]; W_star starts as np.empty (None = never written) *)
Definition scatter {A} (g : list nat) (rows : list A) (acc : list (option A)) : list (option A) :=
  fold_left (fun a ir => set_nth (fst ir) (Some (snd ir)) a) (combine g rows) acc.
(* numpy raises IndexError for an index >= d (negative indices are outside this model: nat) *)
Definition group_ok (d : nat) (g : list nat) : bool := forallb (fun i => i <? d) g.

Section GenericGroups.
Context {T : Type} (o : NumOps T).

(* _prox_grad.py::group_linear_prox_grad
     W_star = np.empty(W.shape)
     for g in groups:
         group_W = W[g]
         group_W_star = linear_prox_grad(group_W.reshape((1, -1)), alpha)
         W_star[g] = group_W_star.reshape(group_W.shape)
   Result: None = IndexError; otherwise the rows of W_star, None for a row no group wrote. *)
Definition group_linear_prox (groups : list (list nat)) (W : list (list T)) (alpha : T)
  : option (list (option (list T))) :=
  if forallb (group_ok (length W)) groups then
    Some (fold_left (fun acc g =>
            let star := linear_prox_row o (flatten (gather W g)) alpha in
            scatter g (unflatten (length g) (ncols W) star) acc)
          groups (repeat None (length W)))
  else None.

(* _prox_grad.py::group_mlp_prox_grad : same loop, both matrices flattened separately *)
Definition group_mlp_prox (groups : list (list nat)) (V U : list (list T)) (alpha M : T)
  : option (list (option (list T)) * list (option (list T))) :=
  if forallb (fun g => group_ok (length V) g && group_ok (length U) g) groups then
    Some (fold_left (fun acc g =>
            let star := hier_prox_row o (flatten (gather V g)) (flatten (gather U g)) alpha M in
            (scatter g (unflatten (length g) (ncols V) (fst star)) (fst acc),
             scatter g (unflatten (length g) (ncols U) (snd star)) (snd acc)))
          groups (repeat None (length V), repeat None (length U)))
  else None.
End GenericGroups.
(* EXTRACT: soft_threshold linear_prox_row linear_prox hier_prox_row mlp_prox group_linear_prox group_mlp_prox *)
