(* C01/C02/C13/C17 — executable model of the GEMINI objectives, written as the code computes them.
   Sources: gemclus/gemini/_fdivergences.py (KLGEMINI, MI, TVGEMINI, HellingerGEMINI, ChiSquareGEMINI)
            gemclus/gemini/_geomdistances.py (MMDGEMINI, WassersteinGEMINI).
   Matrices are total functions nat -> nat -> T with explicit dimensions n (samples) and K (clusters).
   Each evaluator returns (score, gradient).  The LP solver behind WassersteinGEMINI (ot.emd2) is an
   ORACLE argument: its optimal costs and dual potentials are inputs of the model.  No proofs here. *)
From Coq Require Import List Bool Arith.
From GV Require Import Common.Num.
Import ListNotations.

Section Gemini.
Context {T : Type} (o : NumOps T).
Notation "x + y" := (nadd o x y). Notation "x - y" := (nsub o x y).
Notation "x * y" := (nmul o x y). Notation "x / y" := (ndiv o x y).
Local Notation sum := (bsum o).
Definition half : T := n1 o / n2 o.
Definition two : T := n2 o.
Definition ofn (n : nat) : T := nofnat o n.

Variable eps : T.
Variables n K : nat.
Variable Y : nat -> nat -> T.            (* y_pred *)

(* clip_mask = (y_pred > eps) & (y_pred < 1 - eps) ; p_y_x = clip(y_pred, eps, 1 - eps) ; p_y = mean(0) *)
Definition mask (i k : nat) : bool := nltb o eps (Y i k) && nltb o (Y i k) (n1 o - eps).
Definition maskT (i k : nat) : T := if mask i k then n1 o else n0 o.
Definition P (i k : nat) : T := nclip o eps (n1 o - eps) (Y i k).
Definition mean (f : nat -> T) : T := sum n f / ofn n.
Definition pi (k : nat) : T := mean (fun i => P i k).

(* ---------------- KLGEMINI.evaluate ---------------- *)
Definition kl_pred_entropy : T := sum K (fun k => mean (fun i => P i k * nln o (P i k))).
Definition kl_cluster_entropy : T := sum K (fun k => pi k * nln o (pi k)).
Definition kl_score (ovo : bool) : T :=
  if ovo then kl_pred_entropy - sum K (fun k => pi k * mean (fun i => nln o (P i k)))
  else kl_pred_entropy - kl_cluster_entropy.
Definition kl_grad (ovo : bool) (i k : nat) : T :=
  (if ovo then (nln o (P i k) + n1 o) / ofn n - (pi k / P i k + mean (fun j => nln o (P j k))) / ofn n
   else nln o (P i k) / ofn n - nln o (pi k) / ofn n) * maskT i k.

(* ---------------- TVGEMINI.evaluate ---------------- *)
Definition tv_diff_ova (i k : nat) : T := P i k - pi k.
(* cross_product[i,k,k'] = p_y[k] * p_y_x[i,k'] ; difference = cross - cross^T *)
Definition tv_diff_ovo (i k k' : nat) : T := pi k * P i k' - pi k' * P i k.
Definition tv_score (ovo : bool) : T :=
  if ovo then half * sum K (fun k => sum K (fun k' => mean (fun i => nabs o (tv_diff_ovo i k k'))))
  else half * sum K (fun k => mean (fun i => nabs o (tv_diff_ova i k))).
Definition tv_grad (ovo : bool) (i k : nat) : T :=
  (if ovo then
     let base := fun i a b => nsign o (tv_diff_ovo i a b) / ofn n in
     let cpg := fun i a b => base i a b - base i b a in
     (* extended_p_y^T @ cpg : [i,k] = sum_a p_y[a] cpg[i,a,k] *)
     let g_pyx := sum K (fun a => pi a * cpg i a k) in
     (* cpg @ extended_p_y_x^T : [i,k] = sum_b cpg[i,k,b] p_y_x[i,b], then mean over i *)
     let g_py := mean (fun j => sum K (fun b => cpg j k b * P j b)) in
     half * (g_pyx + g_py)
   else half * ((nsign o (tv_diff_ova i k) - mean (fun j => nsign o (tv_diff_ova j k))) / ofn n)) * maskT i k.

(* ---------------- HellingerGEMINI.evaluate ---------------- *)
Definition he_cwe (i k : nat) : T := nsqrt o (P i k * pi k).
Definition he_est0 (i : nat) : T := sum K (fun k => he_cwe i k).
Definition he_est (ovo : bool) (i : nat) : T := if ovo then he_est0 i * he_est0 i else he_est0 i.
Definition he_score (ovo : bool) : T := n1 o - mean (he_est ovo).
Definition he_grad (ovo : bool) (i k : nat) : T :=
  (if ovo then
     let se := fun i => nsqrt o (he_est true i) in
     nneg o (pi k / he_cwe i k * se i + mean (fun j => P j k / he_cwe j k * se j)) / ofn n
   else (nneg o half * (pi k / he_cwe i k + mean (fun j => P j k / he_cwe j k))) / ofn n) * maskT i k.

(* ---------------- ChiSquareGEMINI.evaluate ---------------- *)
Definition chi_cwe (i k : nat) : T := P i k / pi k.
Definition chi_alpha (i : nat) : T := sum K (fun k => P i k * chi_cwe i k).
Definition chi_beta (i : nat) : T := sum K (fun k => pi k / chi_cwe i k).
Definition chi_score (ovo : bool) : T :=
  half * (if ovo then mean (fun i => chi_alpha i * chi_beta i) else mean chi_alpha).
Definition chi_grad (ovo : bool) (i k : nat) : T :=
  (half * ((if ovo then
     let sb := fun i k => chi_beta i * chi_cwe i k in
     let db := fun i k => sb i k * chi_cwe i k in
     let sa := fun i k => chi_alpha i / chi_cwe i k in
     let da := fun i k => sa i k / chi_cwe i k in
     two * sb i k - da i k + mean (fun j => two * sa j k - db j k)
   else two * chi_cwe i k - mean (fun j => chi_cwe j k * chi_cwe j k)) / ofn n)) * maskT i k.

(* ---------------- MMDGEMINI.evaluate ---------------- *)
Variable A : nat -> nat -> T.            (* affinity: kernel for MMD, distance for Wasserstein *)
Definition nk (i j : nat) : T := A i j / (ofn n * ofn n).
Definition mm_alpha (i k : nat) : T := P i k / pi k.
Definition mm_gamma (i k : nat) : T := sum n (fun j => nk i j * mm_alpha j k).
(* OvA *)
Definition mm_a (k : nat) : T := sum n (fun i => mm_alpha i k * mm_gamma i k).
Definition mm_b (k : nat) : T := sum n (fun i => mm_gamma i k).
Definition mm_c : T := sum n (fun i => sum n (fun j => nk i j)).
Definition mm_delta_ova (k : nat) : T := nsqrt o (nmax o (mm_a k + mm_c - two * mm_b k) (n0 o)).
(* OvO *)
Definition mm_omega (k k' : nat) : T := sum n (fun i => mm_alpha i k * mm_gamma i k').
Definition mm_delta_ovo (k k' : nat) : T :=
  nsqrt o (nmax o (nneg o two * mm_omega k k' + mm_omega k' k' + mm_omega k k) (n0 o)).
Definition mmd_score (ovo : bool) : T :=
  if ovo then sum K (fun k => sum K (fun k' => pi k * mm_delta_ovo k k' * pi k'))
  else sum K (fun k => pi k * mm_delta_ova k).
Definition mm_lambda (k k' : nat) : T :=
  if Nat.eqb k k' then n0 o
  else if neqb o (mm_delta_ovo k k') (n0 o) then n0 o
  else pi k * pi k' / mm_delta_ovo k k'.
Definition mmd_grad (ovo : bool) (i k : nat) : T :=
  (if ovo then
     let ls := fun c => sum K (fun r => mm_lambda r c) in                      (* Lambda.sum(0) *)
     let gl := fun i c => sum K (fun r => mm_gamma i r * mm_lambda r c) in     (* gamma @ Lambda *)
     let g := mm_gamma i k * ls k - gl i k - mm_omega k k * ls k / ofn n
              + mean (fun j => mm_alpha j k * gl j k) in
     two * (g / pi k + sum K (fun r => pi r * mm_delta_ovo r k) / ofn n)
   else
     (* tau_grad = (I - 1/N) @ nk @ (alpha - 1) ; gradient = tau_grad / delta, 0 where delta == 0 *)
     let t := fun i => sum n (fun j => nk i j * (mm_alpha j k - n1 o)) in
     let tau := t i - sum n t / ofn n in
     if neqb o (mm_delta_ova k) (n0 o) then n0 o else tau / mm_delta_ova k) * maskT i k.

(* ---------------- WassersteinGEMINI.evaluate (ot.emd2 is an oracle) ---------------- *)
(* weights handed to the solver: wy[k][i] = p[i,k] / (pi[k] * N) ; second marginal 1/N (OvA) or wy[k2] (OvO) *)
Definition ws_wy (k i : nat) : T := P i k / (pi k * ofn n).
Variable emd_ova : nat -> T.                 (* optimal cost for cluster k vs the data distribution *)
Variable u_ova : nat -> nat -> T.            (* dual potential log["u"] for cluster k, sample i *)
Variable emd_ovo : nat -> nat -> T.          (* optimal cost for k1 < k2 *)
Variable u_ovo : nat -> nat -> nat -> T.     (* log["u"] of the (k1,k2) problem *)
Variable v_ovo : nat -> nat -> nat -> T.     (* log["v"] of the (k1,k2) problem *)
Definition ws_dist (k1 k2 : nat) : T :=
  if Nat.ltb k1 k2 then emd_ovo k1 k2 else if Nat.ltb k2 k1 then emd_ovo k2 k1 else n0 o.
Definition ws_score (ovo : bool) : T :=
  if ovo then sum K (fun a => pi a * sum K (fun b => ws_dist a b * pi b))
  else sum K (fun k => pi k * emd_ova k).
Definition centred (f : nat -> T) (i : nat) : T := f i - mean f.
Definition ws_grad (ovo : bool) (i k : nat) : T :=
  (if ovo then
     (* contributions of every pair (k1,k2), k1<k2, to column k: as k1 (through u) and as k2 (through v) *)
     let nn := ofn n * ofn n in
     let as_first := sum K (fun k2 => if Nat.ltb k k2 then
         let ub := centred (u_ovo k k2) in
         two * pi k2 * (ub i / ofn n - sum n (fun j => ub j * P j k / (nn * pi k))) else n0 o) in
     let as_second := sum K (fun k1 => if Nat.ltb k1 k then
         let vb := centred (v_ovo k1 k) in
         two * pi k1 * (vb i / ofn n - sum n (fun j => vb j * P j k / (nn * pi k))) else n0 o) in
     as_first + as_second + two * sum K (fun b => ws_dist k b * pi b) / ofn n
   else
     let ub := centred (u_ova k) in
     ub i / ofn n + emd_ova k / ofn n - sum n (fun j => P j k * ub j) / (ofn n * ofn n * pi k)) * maskT i k.

End Gemini.
(* EXTRACT: kl_score kl_grad tv_score tv_grad he_score he_grad chi_score chi_grad mmd_score mmd_grad ws_score ws_grad ws_wy mask P pi *)
