(* C19 — model of the array-encoded KAURI tree, its printer and its reader.
   Source: gemclus/tree/kauri.py :: class Tree (__init__, _add_child, predict) and
   print_kauri_tree (guards + the recursive print_node).  No proofs in this file.

   Number systems.  Thresholds and feature values live in an arbitrary type [T] with an arbitrary
   comparison [leb : T -> T -> bool] (the code's [x <= threshold]); nothing else is assumed of it,
   so every theorem holds verbatim for binary64 with IEEE comparison (the instance the driver
   runs) as well as for Z or R.  User feature names live in an arbitrary type [N].

   Errors.  Python list indexing raises IndexError out of range: every lookup is [nth_error] and
   every function returns [option] ([None] = the code raises, or the fuel ran out).  The theorems
   state the guard (well-formedness, proved for every tree built by [_add_child]) under which the
   result is [Some].  Not modelled, excluded by that guard: negative indices other than -1 (python
   wraps around), [features]/[thresholds] entries that are None on an internal node (python prints
   "None"), categorical nodes (Split.is_categorical is always False in _utils.pyx; the harness
   checks that no fitted tree has one). *)
From Coq Require Import List Arith ZArith Bool.
Import ListNotations.

Definition bind {A B : Type} (o : option A) (f : A -> option B) : option B :=
  match o with Some a => f a | None => None end.
Notation "'do' x <- e ; k" := (bind e (fun x => k)) (at level 200, x name, e at level 100, k at level 200).

(* ---------------------------------------------------------------- data *)
(* class Tree: parallel python lists indexed by node id; -1 = no child; None = not a split node *)
Record tree (T : Type) : Type := mkTree {
  children_left : list Z;
  children_right : list Z;
  features : list (option nat);
  thresholds : list (option T);
  target : list nat;
  depths : list nat;
  n_nodes : nat }.
Arguments mkTree {T}. Arguments children_left {T}. Arguments children_right {T}. Arguments features {T}.
Arguments thresholds {T}. Arguments target {T}. Arguments depths {T}. Arguments n_nodes {T}.

(* the fields of _utils.Split that _add_child stores (gain / categorical flag are not printed) *)
Record split (T : Type) : Type := mkSplit { s_feature : nat; s_threshold : T; s_left : nat; s_right : nat }.
Arguments mkSplit {T}. Arguments s_feature {T}. Arguments s_threshold {T}. Arguments s_left {T}. Arguments s_right {T}.

(* what is printed for a feature: f"X[:, {feature}]" or feature_names[feature] *)
Inductive label (N : Type) : Type := LIdx (f : nat) | LName (nm : N).
Arguments LIdx {N}. Arguments LName {N}.
Inductive cmp : Type := LE | GT.

(* one printed line.  d = number of "| " prefixes.
   TNode    "| "*d + "Node {id}"
   TCluster "| "*d + " " + "Cluster: {c}"
   TRule    "| "*d + "|=" + "{label} <= {thr}"   /   "... > {thr}" *)
Inductive token (T N : Type) : Type :=
| TNode (d id : nat)
| TCluster (d c : nat)
| TRule (d : nat) (lab : label N) (th : T) (c : cmp).
Arguments TNode {T N}. Arguments TCluster {T N}. Arguments TRule {T N}.

(* what a reader rebuilds from the text: nested rules.  A split keeps BOTH printed lines (the
   "<=" line and the ">" line, each with its own label and threshold) — the abstract syntax of
   the text, not of the arrays. *)
Inductive rules (T N : Type) : Type :=
| RLeaf (id c : nat)
| RSplit (id : nat) (labL : label N) (thL : T) (l : rules T N) (labR : label N) (thR : T) (r : rules T N).
Arguments RLeaf {T N}. Arguments RSplit {T N}.

(* the first argument of print_kauri_tree *)
Inductive obj (T : Type) : Type := Foreign | Unfitted | Fitted (t : tree T).
Arguments Foreign {T}. Arguments Unfitted {T}. Arguments Fitted {T}.
(* the second: None, an array-like, or something that is not array-like (scalar, str) *)
Inductive names_arg (N : Type) : Type := NAbsent | NList (ns : list N) | NBad.
Arguments NAbsent {N}. Arguments NList {N}. Arguments NBad {N}.
Inductive outcome (T N : Type) : Type :=
| Printed (toks : list (token T N))
| ErrParam        (* InvalidParameterError (ValueError, TypeError) from constraint_params *)
| ErrNotFitted    (* sklearn NotFittedError (ValueError, AttributeError) *)
| ErrNames        (* ValueError("Fewer feature names than used features ...") *)
| ErrIndex.       (* an exception escaped print_node after part of the text was printed *)
Arguments Printed {T N}. Arguments ErrParam {T N}. Arguments ErrNotFitted {T N}. Arguments ErrNames {T N}. Arguments ErrIndex {T N}.

Section Model.
Context {T N : Type}.

(* ---------------------------------------------------------------- Tree.__init__ / _add_child *)
(* Tree.__init__ : one root leaf *)
Definition empty_tree : tree T := mkTree [(-1)%Z] [(-1)%Z] [None] [None] [0] [0] 1.

(* l[i] = v *)
Fixpoint set_nth {A : Type} (i : nat) (v : A) (l : list A) : list A :=
  match l, i with
  | [], _ => []
  | _ :: r, O => v :: r
  | x :: r, S j => x :: set_nth j v r
  end.

(* l[i] = v  raises IndexError when i is out of range *)
Definition store {A : Type} (i : nat) (v : A) (l : list A) : option (list A) :=
  if i <? length l then Some (set_nth i v l) else None.

(* print(tok); rest      and      print_node(child); rest      (used by the regenerated Gen/KauriPrintRules.v) *)
Definition emit {A : Type} (a : A) (k : option (list A)) : option (list A) := do r <- k; Some (a :: r).
Definition emit_all {A : Type} (l : option (list A)) (k : option (list A)) : option (list A) :=
  do a <- l; do r <- k; Some (a ++ r).

(* Tree._add_child(father, split), in statement order:
     children_left[father] = n_nodes; children_right[father] = n_nodes + 1
     thresholds[father] = split.threshold; features[father] = split.feature
     every list += two entries (-1 / None / depths[father]+1 / the two targets); n_nodes += 2
   (gains and categorical_nodes are not modelled: they are neither printed nor, for a non-categorical
   tree, read by predict) *)
Definition add_child (t : tree T) (father : nat) (s : split T) : option (tree T) :=
  let n := n_nodes t in
  do cl <- store father (Z.of_nat n) (children_left t);
  do cr <- store father (Z.of_nat (n + 1)) (children_right t);
  do th <- store father (Some (s_threshold s)) (thresholds t);
  do ft <- store father (Some (s_feature s)) (features t);
  do d <- nth_error (depths t) father;
  Some (mkTree
    (cl ++ [(-1)%Z; (-1)%Z])
    (cr ++ [(-1)%Z; (-1)%Z])
    (ft ++ [None; None])
    (th ++ [None; None])
    (target t ++ [s_left s; s_right s])
    (depths t ++ [d + 1; d + 1])
    (n + 2)).

(* a whole construction history: fold of _add_child over (father, split) pairs *)
Fixpoint build_from (t : tree T) (ops : list (nat * split T)) : option (tree T) :=
  match ops with
  | [] => Some t
  | (father, s) :: r => do t' <- add_child t father s; build_from t' r
  end.
Definition build (ops : list (nat * split T)) : option (tree T) := build_from empty_tree ops.

(* ---------------------------------------------------------------- print_kauri_tree *)
(* feature_name = feature_names[feature] if feature_names is not None else f"X[:, {feature}]" *)
Definition label_of (names : option (list N)) (f : nat) : option (label N) :=
  match names with
  | None => Some (LIdx f)
  | Some ns => match nth_error ns f with Some nm => Some (LName nm) | None => None end
  end.

(* def print_node(node_id):
     current_depth = depths[node_id];  print prefix, "Node {node_id}"
     left_child = children_left[node_id]; right_child = children_right[node_id]
     if left_child == -1: print prefix, "Cluster: {target[node_id]}"; return
     feature = features[node_id]; threshold = thresholds[node_id]; feature_name = ...
     print prefix "|=" "{feature_name} <= {threshold}";  print_node(left_child)
     print prefix "|=" "{feature_name} > {threshold}";   print_node(right_child)
   The leaf test looks at the LEFT child only.  python's recursion has no fuel; here fuel = n_nodes
   suffices because children have larger indices than their parent. *)
Fixpoint render_node (fuel : nat) (t : tree T) (names : option (list N)) (node : nat) : option (list (token T N)) :=
  match fuel with
  | O => None
  | S fuel' =>
    do d <- nth_error (depths t) node;
    do l <- nth_error (children_left t) node;
    do r <- nth_error (children_right t) node;
    if Z.eqb l (-1) then
      do c <- nth_error (target t) node;
      Some [TNode d node; TCluster d c]
    else
      do fo <- nth_error (features t) node;
      do tho <- nth_error (thresholds t) node;
      do f <- fo;
      do th <- tho;
      do lab <- label_of names f;
      do Lo <- render_node fuel' t names (Z.to_nat l);
      do Ro <- render_node fuel' t names (Z.to_nat r);
      Some ([TNode d node; TRule d lab th LE] ++ Lo ++ [TRule d lab th GT] ++ Ro)
  end.
(* print_node(0) *)
Definition render (t : tree T) (names : option (list N)) : option (list (token T N)) :=
  render_node (n_nodes t) t names 0.

(* used_features = [x for x in tree_.features if x is not None] *)
Definition used_features (t : tree T) : list nat :=
  flat_map (fun o => match o with Some f => [f] | None => [] end) (features t).
(* if len(used_features) > 0 and len(feature_names) <= max(used_features): raise ValueError *)
Definition names_guard_rejects (t : tree T) (ns : list N) : bool :=
  (0 <? length (used_features t)) && (length ns <=? list_max (used_features t)).

(* print_kauri_tree: @constraint_params (kauri_tree: Kauri instance; feature_names: array-like or
   None), isinstance, check_is_fitted, the names guard, then print_node(0) *)
Definition print_kauri_tree (o : obj T) (na : names_arg N) : outcome T N :=
  match o with
  | Foreign => ErrParam
  | Unfitted => match na with NBad => ErrParam | _ => ErrNotFitted end
  | Fitted t =>
    match na with
    | NBad => ErrParam
    | NAbsent => match render t None with Some toks => Printed toks | None => ErrIndex end
    | NList ns =>
      if names_guard_rejects t ns then ErrNames
      else match render t (Some ns) with Some toks => Printed toks | None => ErrIndex end
    end
  end.

(* ---------------------------------------------------------------- the abstract tree *)
(* the nested rules the arrays stand for (what a faithful text must read back as) *)
Fixpoint abs_node (fuel : nat) (t : tree T) (names : option (list N)) (node : nat) : option (rules T N) :=
  match fuel with
  | O => None
  | S fuel' =>
    do l <- nth_error (children_left t) node;
    do r <- nth_error (children_right t) node;
    if Z.eqb l (-1) then
      do c <- nth_error (target t) node; Some (RLeaf node c)
    else
      do fo <- nth_error (features t) node;
      do tho <- nth_error (thresholds t) node;
      do f <- fo;
      do th <- tho;
      do lab <- label_of names f;
      do Lr <- abs_node fuel' t names (Z.to_nat l);
      do Rr <- abs_node fuel' t names (Z.to_nat r);
      Some (RSplit node lab th Lr lab th Rr)
  end.
Definition abs_tree (t : tree T) (names : option (list N)) : option (rules T N) :=
  abs_node (n_nodes t) t names 0.

(* ---------------------------------------------------------------- the reader *)
(* Reading the text back using the depth prefixes only: a node printed with d prefixes is
   "Node" then either "Cluster" (same d), or a "<=" rule line (same d), a subtree one level
   deeper, a ">" rule line (same d) and a second subtree one level deeper.  Anything else —
   wrong depth, missing line, rule lines in the wrong order — is unreadable (None). *)
Fixpoint parse_node (fuel : nat) (d : nat) (toks : list (token T N)) : option (rules T N * list (token T N)) :=
  match fuel with
  | O => None
  | S fuel' =>
    match toks with
    | TNode d1 id :: rest1 =>
      if negb (d1 =? d) then None else
      match rest1 with
      | TCluster d2 c :: rest2 => if d2 =? d then Some (RLeaf id c, rest2) else None
      | TRule d2 labL thL LE :: rest2 =>
        if negb (d2 =? d) then None else
        match parse_node fuel' (S d) rest2 with
        | Some (Lr, TRule d3 labR thR GT :: rest3) =>
          if negb (d3 =? d) then None else
          match parse_node fuel' (S d) rest3 with
          | Some (Rr, rest4) => Some (RSplit id labL thL Lr labR thR Rr, rest4)
          | None => None
          end
        | _ => None
        end
      | _ => None
      end
    | _ => None
    end
  end.
(* the whole text: one tree starting with no prefix, nothing left over *)
Definition parse (toks : list (token T N)) : option (rules T N) :=
  match parse_node (length toks) 0 toks with
  | Some (r, []) => Some r
  | _ => None
  end.

(* Applying nested rules to a point.  [val lab] is the value the reader finds at the point for the
   feature printed as [lab].  The branch under "lab <= thr" is taken when that holds, the branch
   under "lab > thr" when [lab <= thr] fails for ITS label and threshold; a point for which both
   or neither line holds is not classified (None). *)
Section Eval.
Variable leb : T -> T -> bool.
Fixpoint eval_rules (val : label N -> T) (r : rules T N) : option nat :=
  match r with
  | RLeaf _ c => Some c
  | RSplit _ labL thL Lr labR thR Rr =>
    match leb (val labL) thL, negb (leb (val labR) thR) with
    | true, false => eval_rules val Lr
    | false, true => eval_rules val Rr
    | _, _ => None
    end
  end.

(* Tree.predict for one row x (x f = x[f]):
     if node < 0 or node > self.n_nodes: raise ValueError
     if children_left[node] == -1: target[node]
     elif x[features[node]] <= thresholds[node]: predict(children_left[node]) else predict(children_right[node])
   (the code is vectorised over rows and recurses into both children with the row subsets; per
   row this is the routing below) *)
Fixpoint predict_node (fuel : nat) (t : tree T) (x : nat -> T) (node : nat) : option nat :=
  match fuel with
  | O => None
  | S fuel' =>
    if (node <? 0) || (n_nodes t <? node) then None else
    do l <- nth_error (children_left t) node;
    if Z.eqb l (-1) then nth_error (target t) node
    else
      do fo <- nth_error (features t) node;
      do tho <- nth_error (thresholds t) node;
      do f <- fo;
      do th <- tho;
      if leb (x f) th then predict_node fuel' t x (Z.to_nat l)
      else do r <- nth_error (children_right t) node; predict_node fuel' t x (Z.to_nat r)
  end.
Definition predict (t : tree T) (x : nat -> T) : option nat := predict_node (n_nodes t) t x 0.
End Eval.

(* how a reader finds the value of a printed label at a point *)
(* default labels: "X[:, f]" is column f *)
Definition val_default (x : nat -> T) (dflt : T) (lab : label N) : T :=
  match lab with LIdx f => x f | LName _ => dflt end.
(* user names: the column whose name it is (first position of the name in the user's list) *)
Fixpoint index_of (eqb : N -> N -> bool) (nm : N) (ns : list N) : option nat :=
  match ns with
  | [] => None
  | a :: r => if eqb nm a then Some 0 else match index_of eqb nm r with Some k => Some (S k) | None => None end
  end.
Definition val_names (eqb : N -> N -> bool) (ns : list N) (x : nat -> T) (dflt : T) (lab : label N) : T :=
  match lab with
  | LName nm => match index_of eqb nm ns with Some f => x f | None => dflt end
  | LIdx _ => dflt
  end.

(* print, read back, apply to a point: the whole chain the property is about *)
Definition read_back (leb : T -> T -> bool) (t : tree T) (names : option (list N)) (val : label N -> T) : option nat :=
  do toks <- render t names;
  do r <- parse toks;
  eval_rules leb val r.
End Model.
(* EXTRACT: empty_tree add_child build render print_kauri_tree names_guard_rejects used_features abs_tree parse eval_rules predict val_default val_names read_back *)
