(* C03 — placeholder while the proofs are being written *)
From GV Require Import Common.Num Model.Forward Model.Backprop.
