(* C03 — Every training update follows the true gradient of the regularised objective.
   Statements only; every proof is [exact <lemma of Proofs/Backprop.v>].
   Model: Model/Forward.v (the `_infer` methods), Model/Backprop.v (the `_compute_grads` methods, the RIM /
   KernelRIM penalty terms, the step of `fit`), Model/Mlcl.v (decorate_grads).  Theorems over R (Rops).
   Vocabulary (Proofs/Backprop.v): [inner n K A B] = sum_{i<n,k<K} A i k * B i k; [lin_pert th dth t] = th + t dth;
   [X_jvp] = the forward-mode differential of the predictions written out explicitly; [smjvp K Y dZ] =
   Y o (dZ - <Y,dZ>) row-wise; [pair_pen f idx K Y pairs] = (f/2) sum over the pairs inside the batch of
   ||Y_a - Y_b||^2; [decorated_gradient] = the upstream gradient after mlcl's in-place decoration.
   SIGN CONVENTION: the code maximises.  `_compute_grads` returns MINUS the gradient ("negative sign to force
   the optimiser to maximise"), sklearn's optimisers then descend along what they are handed.  Hence every
   theorem reads  d/dt objective(theta + t dtheta) |_0 = - <direction handed to the optimiser, dtheta>. *)
From Coq Require Import Reals List.
From Coquelicot Require Import Coquelicot.
From GV Require Import Common.Num Common.NumR Model.Forward Model.Mlcl Model.Backprop.
From GV Require Import Model.Douglas.
From GV Require Import Proofs.RSumLib Proofs.GeminiDefs Proofs.Backprop Proofs.BackpropDouglas.
Import ListNotations.
Open Scope R_scope.

(* ================================================================== (a) softmax *)
(* sklearn's softmax subtracts the row maximum; it cancels *)
Theorem C03_softmax_is_normalised_exp : forall K (z : nat -> R) k, (0 < K)%nat ->
  softmax_row Rops K z k = exp (z k) / rsum K (fun c => exp (z c)).
Proof. exact softmax_row_eq. Qed.

(* derivative of softmax_row K (z + t dz) at 0: y_k (dz_k - sum_c y_c dz_c), every K >= 1 *)
Theorem C03_softmax_jvp : forall K (z dz : nat -> R) k, (0 < K)%nat -> (k < K)%nat ->
  is_derive (fun t : R => softmax_row Rops K (fun c => z c + t * dz c) k) 0
            (softmax_row Rops K z k * (dz k - rsum K (fun c => softmax_row Rops K z c * dz c))).
Proof. exact softmax_jvp. Qed.

(* the same along any differentiable curve of logits (needed for the hidden layer) *)
Theorem C03_softmax_jvp_curve : forall K (z : nat -> R -> R) (dz : nat -> R) k, (0 < K)%nat -> (k < K)%nat ->
  (forall c, (c < K)%nat -> is_derive (z c) 0 (dz c)) ->
  is_derive (fun t : R => softmax_row Rops K (fun c => z c t) k) 0
            (smjvp_row K (softmax_row Rops K (fun c => z c 0)) dz k).
Proof. exact softmax_row_derive. Qed.

(* ================================================================== (b) adjoint identities — pure algebra, all shapes *)
(* back-propagation through the softmax: tau_hat_grad is the adjoint of the softmax differential, for ANY matrix Y *)
Theorem C03_softmax_adjoint : forall n K (Y g dZ : mat),
  inner n K g (smjvp K Y dZ) = inner n K (tau_hat Rops K Y g) dZ.
Proof. exact softmax_adjoint. Qed.

(* LinearModel (also the sparse linear model, which inherits _compute_grads) *)
Theorem C03_linear_adjoint : forall n d K (X : mat) (th : @LinP R) (g : mat) (dth : @LinP R),
  inner n K g (linear_jvp d K X th dth) = - inner_lin d K (linear_step_grads Rops n d K th X g) dth.
Proof. exact linear_adjoint. Qed.

(* RIM / KernelRIM: the handed direction is the linear one plus 2 reg W, resp. 2 reg Kt W (whole training kernel) *)
Theorem C03_rim_adjoint : forall n d K reg (X : mat) (th : @LinP R) (g : mat) (dth : @LinP R),
  inner n K g (linear_jvp d K X th dth) - inner d K (fun j k => 2 * reg * lW th j k) (lW dth)
  = - inner_lin d K (rim_step_grads Rops n d K reg th X g) dth.
Proof. exact rim_adjoint. Qed.
Theorem C03_kernel_rim_adjoint : forall n nt K reg (Kt X : mat) (th : @LinP R) (g : mat) (dth : @LinP R),
  inner n K g (linear_jvp nt K X th dth)
  - inner nt K (fun j k => 2 * reg * rsum nt (fun l => Kt j l * lW th l k)) (lW dth)
  = - inner_lin nt K (kernel_rim_step_grads Rops n nt K reg Kt th X g) dth.
Proof. exact kernel_rim_adjoint. Qed.

(* MLPModel — DESIGN Appendix A verbatim; the algebra holds with or without the off-kink hypothesis *)
Theorem C03_mlp_adjoint : forall n d h K X th g dth,
  relu_off_kink n h (preact d X th) ->
  inner n K g (mlp_jvp n d h K X th dth) = - inner_mlp d h K (mlp_step_grads Rops n d h K th X g) dth.
Proof. exact mlp_adjoint. Qed.
Theorem C03_mlp_adjoint_any_state : forall n d h K (X Y g : mat) (th dth : @MlpP R),
  inner n K g (smjvp K Y (mlp_dlogits d h X th dth))
  = - inner_mlp d h K (mlp_compute_grads Rops n K (mW2 th) (mlp_hidden Rops d h (mW1 th) (mb1 th) X) X Y g) dth.
Proof. exact mlp_adjoint_any. Qed.

(* SparseMLPModel (skip connection) *)
Theorem C03_sparse_mlp_adjoint : forall n d h K X th g dth,
  inner n K g (sparse_mlp_jvp n d h K X th dth) = - inner_smlp d h K (sparse_mlp_step_grads Rops n d h K th X g) dth.
Proof. exact sparse_mlp_adjoint. Qed.

(* CategoricalModel *)
Theorem C03_categorical_adjoint : forall n K (L g dL : mat),
  inner n K g (categorical_jvp K L dL) = - inner n K (categorical_step_grads Rops K L g) dL.
Proof. exact categorical_adjoint. Qed.

(* Douglas: leaf scores and every feature's cut points simultaneously; any number of cuts, any sort order
   (argsort un-permutation), guarded division by the bin memberships (no positivity assumed on them) *)
Theorem C03_douglas_adjoint : forall n F c K temp (Sc leafm : mat) (bins : nat -> mat) (orders : nat -> list nat)
  (Y g dS : mat) (dcs : nat -> nat -> R),
  temp <> 0 -> (forall f, (f < F)%nat -> is_order c (orders f)) ->
  (forall i l, (i < n)%nat -> (l < (c + 1) ^ F)%nat -> leafm i l = leaf_prod F (c + 1) bins i l) ->
  let grads := douglas_compute_grads Rops n F c K temp Sc leafm bins orders Y g in
  inner n K g (douglas_jvp F c K temp Sc leafm bins orders Y dS dcs)
  = - (inner ((c + 1) ^ F) K (fst grads) dS + rsum F (fun f => inner_vec c (snd grads f) (dcs f))).
Proof. exact douglas_adjoint. Qed.

(* ================================================================== (b') the direction is minus the gradient *)
Theorem C03_linear_direction_is_gradient : forall n d K (X : mat) (th dth : @LinP R) (g : mat), (0 < K)%nat ->
  is_derive (fun t : R => inner n K g (linear_infer_p Rops d K (lin_pert th dth t) X)) 0
            (- inner_lin d K (linear_step_grads Rops n d K th X g) dth).
Proof. exact linear_direction_is_gradient. Qed.

(* RIM: objective MI - reg ||W||^2 (the penalty is added in _update_weights, before update_params) *)
Theorem C03_rim_direction_is_gradient : forall n d K reg (X : mat) (th dth : @LinP R) (g : mat), (0 < K)%nat ->
  is_derive (fun t : R => inner n K g (linear_infer_p Rops d K (lin_pert th dth t) X)
                          - reg * sqnorm d K (lW (lin_pert th dth t))) 0
            (- inner_lin d K (rim_step_grads Rops n d K reg th X g) dth).
Proof. exact rim_direction_is_gradient. Qed.

(* KernelRIM: objective MI(batch rows of the kernel) - reg tr(W^T Kt W) with the FULL symmetric training kernel Kt,
   whatever n x nt block X of kernel rows the batch holds *)
Theorem C03_kernel_rim_direction_is_gradient : forall n nt K reg (Kt X : mat) (th dth : @LinP R) (g : mat),
  (0 < K)%nat -> sym_on nt Kt ->
  is_derive (fun t : R => inner n K g (linear_infer_p Rops nt K (lin_pert th dth t) X)
                          - reg * trWKW nt K Kt (lW (lin_pert th dth t))) 0
            (- inner_lin nt K (kernel_rim_step_grads Rops n nt K reg Kt th X g) dth).
Proof. exact kernel_rim_direction_is_gradient. Qed.

(* MLP, sparse MLP: off the ReLU kink (no pre-activation of the batch exactly 0) *)
Theorem C03_mlp_direction_is_gradient : forall n d h K (X : mat) (th dth : @MlpP R) (g : mat), (0 < K)%nat ->
  relu_off_kink n h (preact d X th) ->
  is_derive (fun t : R => inner n K g (mlp_infer_p Rops d h K (mlp_pert th dth t) X)) 0
            (- inner_mlp d h K (mlp_step_grads Rops n d h K th X g) dth).
Proof. exact mlp_direction_is_gradient. Qed.
Theorem C03_sparse_mlp_direction_is_gradient : forall n d h K (X : mat) (th dth : @SMlpP R) (g : mat), (0 < K)%nat ->
  relu_off_kink n h (preact d X (smlp_core th)) ->
  is_derive (fun t : R => inner n K g (sparse_mlp_infer_p Rops d h K (smlp_pert th dth t) X)) 0
            (- inner_smlp d h K (sparse_mlp_step_grads Rops n d h K th X g) dth).
Proof. exact sparse_mlp_direction_is_gradient. Qed.

Theorem C03_categorical_direction_is_gradient : forall n K (L dL g : mat), (0 < K)%nat ->
  is_derive (fun t : R => inner n K g (categorical_infer Rops K (fun i k => L i k + t * dL i k))) 0
            (- inner n K (categorical_step_grads Rops K L g) dL).
Proof. exact categorical_direction_is_gradient. Qed.

(* Douglas, leaf scores *)
Theorem C03_douglas_leaf_direction_is_gradient : forall n F c K temp (Sc dS leafm : mat) (bins : nat -> mat)
  (orders : nat -> list nat) (g : mat), (0 < K)%nat ->
  is_derive (fun t : R => inner n K g (softmax Rops K (matmul Rops ((c + 1) ^ F) leafm (fun l k => Sc l k + t * dS l k)))) 0
            (- inner ((c + 1) ^ F) K
                 (fst (douglas_compute_grads Rops n F c K temp Sc leafm bins orders
                         (softmax Rops K (matmul Rops ((c + 1) ^ F) leafm Sc)) g)) dS).
Proof. exact douglas_leaf_direction_is_gradient. Qed.

(* Douglas, cut points of one feature, function-style forward pass with the sort order passed as a parameter and
   held fixed (auxiliary: the next theorems remove both restrictions).  [rest] = product of the other features' bins. *)
Theorem C03_douglas_cut_direction_is_gradient_fixed_order : forall n F c K f temp (Sc rest : mat) (x : nat -> R)
  (order : list nat) (cuts dc : nat -> R) (g : mat),
  (0 < K)%nat -> temp <> 0 -> is_order c order ->
  let B := (c + 1)%nat in let L := (B ^ F)%nat in
  let binf := fun cu => dg_bins_fixed B temp x order cu in
  let leaff := fun cu i l => binf cu i (digit F B f l) * rest i l in
  let Yf := fun cu => softmax Rops K (matmul Rops L (leaff cu) Sc) in
  is_derive (fun t : R => inner n K g (Yf (fun p => cuts p + t * dc p))) 0
            (- inner_vec c (dg_cut_direction Rops n F c L K f temp Sc (leaff cuts) (binf cuts) order
                              (tau_hat Rops K (Yf cuts) g)) dc).
Proof. exact douglas_cut_direction_is_gradient_fixed_order. Qed.

(* the sort order of pairwise distinct cut points is locally constant: argsort (cuts + t dc) = argsort cuts near t = 0,
   [argsort] being Model/Douglas.v's (the `order` returned by _leaf_binning) *)
Theorem C03_douglas_argsort_locally_constant : forall (cuts : list R) (dc : nat -> R), NoDup cuts ->
  locally 0 (fun t => argsort Rops (pert_cuts cuts dc t) = argsort Rops cuts).
Proof. exact argsort_locally_constant. Qed.

(* Douglas ON THE MODEL OF Model/Douglas.v (the list-style model the C15 correspondence runs): cpl = cut_points_list_,
   every used feature with c cut points; the retained state handed to the backward pass is read off that model
   (dgl_bins = _all_binnings, dgl_leaf = _leaf, dgl_orders = _all_orders, dgl_pred = _infer's result).
   Adjoint identity with no structural hypothesis left (the leaf vector IS the Kronecker product, argsort IS a
   permutation): *)
Theorem C03_douglas_adjoint_list_model : forall n c K temp cpl (Sc X g dS : mat) (dcs : nat -> nat -> R),
  temp <> 0 -> cpl <> [] -> uniform_cuts c cpl ->
  let F := length cpl in
  let grads := douglas_compute_grads Rops n F c K temp Sc (dgl_leaf temp cpl X) (dgl_bins temp cpl X) (dgl_orders cpl)
                 (dgl_pred temp cpl K Sc X) g in
  inner n K g (douglas_jvp F c K temp Sc (dgl_leaf temp cpl X) (dgl_bins temp cpl X) (dgl_orders cpl) (dgl_pred temp cpl K Sc X) dS dcs)
  = - (inner ((c + 1) ^ F) K (fst grads) dS + rsum F (fun f => inner_vec c (snd grads f) (dcs f))).
Proof. exact douglas_adjoint_list_model. Qed.

(* leaf scores *)
Theorem C03_douglas_leaf_direction_is_gradient_list_model : forall n c K temp cpl (Sc dS X g : mat),
  (0 < K)%nat -> cpl <> [] -> uniform_cuts c cpl ->
  let F := length cpl in
  is_derive (fun t : R => inner n K g (dgl_pred temp cpl K (fun l k => Sc l k + t * dS l k) X)) 0
            (- inner ((c + 1) ^ F) K
                 (fst (douglas_compute_grads Rops n F c K temp Sc (dgl_leaf temp cpl X) (dgl_bins temp cpl X)
                         (dgl_orders cpl) (dgl_pred temp cpl K Sc X) g)) dS).
Proof. exact douglas_leaf_direction_is_gradient_list_model. Qed.

(* cut points of used feature number f moved along dc, through the REAL forward pass (the sort is re-done at every t):
   temperature > 0 and pairwise distinct cut points for the feature considered — nothing else (the bins are positive by
   C15_bins_simplex, but the guarded division makes even that unnecessary) *)
Theorem C03_douglas_cut_direction_is_gradient : forall n c K f temp cpl (Sc X g : mat) (dc : nat -> R),
  (0 < K)%nat -> 0 < temp -> uniform_cuts c cpl -> (f < length cpl)%nat -> NoDup (snd (cpl_nth cpl f)) ->
  let F := length cpl in let feat := fst (cpl_nth cpl f) in let cuts := snd (cpl_nth cpl f) in
  is_derive (fun t : R => inner n K g (dgl_pred temp (set_nth f (feat, pert_cuts cuts dc t) cpl) K Sc X)) 0
            (- inner_vec c (snd (douglas_compute_grads Rops n F c K temp Sc (dgl_leaf temp cpl X) (dgl_bins temp cpl X)
                                   (dgl_orders cpl) (dgl_pred temp cpl K Sc X) g) f) dc).
Proof. exact douglas_cut_direction_is_gradient. Qed.

(* The genuine, not linearised, objective: if obj (the GEMINI) is differentiable at the predictions with gradient g
   along every differentiable curve through them, the direction is minus the gradient of obj o infer.  The
   hypothesis is met by linear functionals and is preserved by the mlcl decoration (second theorem). *)
Theorem C03_linear_objective_direction_is_gradient : forall n d K (obj : mat -> R) (X : mat) (th dth : @LinP R) (g : mat),
  (0 < K)%nat -> curve_differentiable n K obj (linear_infer_p Rops d K th X) g ->
  is_derive (fun t : R => obj (linear_infer_p Rops d K (lin_pert th dth t) X)) 0
            (- inner_lin d K (linear_step_grads Rops n d K th X g) dth).
Proof. exact linear_objective_direction_is_gradient. Qed.
Theorem C03_mlp_objective_direction_is_gradient : forall n d h K (obj : mat -> R) (X : mat) (th dth : @MlpP R) (g : mat),
  (0 < K)%nat -> relu_off_kink n h (preact d X th) ->
  curve_differentiable n K obj (mlp_infer_p Rops d h K th X) g ->
  is_derive (fun t : R => obj (mlp_infer_p Rops d h K (mlp_pert th dth t) X)) 0
            (- inner_mlp d h K (mlp_step_grads Rops n d h K th X g) dth).
Proof. exact mlp_objective_direction_is_gradient. Qed.
Theorem C03_decoration_preserves_differentiability : forall f idx n K (obj : mat -> R) (Y0 g : mat) ml cl,
  length idx = n -> curve_differentiable n K obj Y0 g ->
  curve_differentiable n K (fun Y => obj Y + pair_pen f idx K Y cl - pair_pen f idx K Y ml) Y0
    (decorated_gradient Rops f idx n K Y0 ml cl g).
Proof. exact curve_differentiable_decorated. Qed.

(* ================================================================== (c) penalties *)
Theorem C03_penalty_l2 : forall d K reg (W dW : mat),
  is_derive (fun t : R => reg * sqnorm d K (fun j k => W j k + t * dW j k)) 0
            (inner d K (fun j k => 2 * reg * W j k) dW).
Proof. exact penalty_l2_derive. Qed.
Theorem C03_penalty_kernel : forall nt K reg (Kt W dW : mat), sym_on nt Kt ->
  is_derive (fun t : R => reg * trWKW nt K Kt (fun j k => W j k + t * dW j k)) 0
            (inner nt K (fun j k => 2 * reg * rsum nt (fun l => Kt j l * W l k)) dW).
Proof. exact penalty_kernel_derive. Qed.

(* ================================================================== (d) must-link / cannot-link decoration *)
(* If G is the gradient of the objective w.r.t. the predictions along the curve Yc (Yc 0 = Y0, derivative D), the
   gradient after decoration is that of
        objective + (factor/2) sum_{CL in batch} ||y_a - y_b||^2 - (factor/2) sum_{ML in batch} ||y_a - y_b||^2.
   (The code adds +factor (y_a - y_b) for cannot-link and -factor (y_a - y_b) for must-link to the GEMINI's gradient and
   `_compute_grads` negates afterwards: the descent step increases the GEMINI, separates cannot-link pairs and
   brings must-link pairs together.)  idx = true sample indices of the batch rows; pairs not wholly inside
   the batch contribute nothing (Props/C14.v::C14_pair_outside_batch_inert). *)
Theorem C03_mlcl_decorated_gradient : forall f idx n K (obj : mat -> R) (Yc : R -> mat) (Y0 G D : mat) ml cl,
  length idx = n ->
  (forall i k, (i < n)%nat -> (k < K)%nat -> Yc 0 i k = Y0 i k) ->
  (forall i k, (i < n)%nat -> (k < K)%nat -> is_derive (fun t : R => Yc t i k) 0 (D i k)) ->
  is_derive (fun t : R => obj (Yc t)) 0 (inner n K G D) ->
  is_derive (fun t : R => obj (Yc t) + pair_pen f idx K (Yc t) cl - pair_pen f idx K (Yc t) ml) 0
            (inner n K (decorated_gradient Rops f idx n K Y0 ml cl G) D).
Proof. exact mlcl_decorated_gradient. Qed.

(* composed with the backward passes *)
Theorem C03_linear_decorated_direction_is_gradient : forall n d K f idx (X : mat) (th dth : @LinP R) (g : mat) ml cl,
  (0 < K)%nat -> length idx = n ->
  is_derive (fun t : R => inner n K g (linear_infer_p Rops d K (lin_pert th dth t) X)
                          + pair_pen f idx K (linear_infer_p Rops d K (lin_pert th dth t) X) cl
                          - pair_pen f idx K (linear_infer_p Rops d K (lin_pert th dth t) X) ml) 0
            (- inner_lin d K (linear_step_grads Rops n d K th X
                                (decorated_gradient Rops f idx n K (linear_infer_p Rops d K th X) ml cl g)) dth).
Proof. exact linear_decorated_direction_is_gradient. Qed.
Theorem C03_rim_decorated_direction_is_gradient : forall n d K reg f idx (X : mat) (th dth : @LinP R) (g : mat) ml cl,
  (0 < K)%nat -> length idx = n ->
  is_derive (fun t : R => inner n K g (linear_infer_p Rops d K (lin_pert th dth t) X)
                          + pair_pen f idx K (linear_infer_p Rops d K (lin_pert th dth t) X) cl
                          - pair_pen f idx K (linear_infer_p Rops d K (lin_pert th dth t) X) ml
                          - reg * sqnorm d K (lW (lin_pert th dth t))) 0
            (- inner_lin d K (rim_step_grads Rops n d K reg th X
                                (decorated_gradient Rops f idx n K (linear_infer_p Rops d K th X) ml cl g)) dth).
Proof. exact rim_decorated_direction_is_gradient. Qed.
Theorem C03_kernel_rim_decorated_direction_is_gradient : forall n nt K reg f idx (Kt X : mat) (th dth : @LinP R) (g : mat) ml cl,
  (0 < K)%nat -> length idx = n -> sym_on nt Kt ->
  is_derive (fun t : R => inner n K g (linear_infer_p Rops nt K (lin_pert th dth t) X)
                          + pair_pen f idx K (linear_infer_p Rops nt K (lin_pert th dth t) X) cl
                          - pair_pen f idx K (linear_infer_p Rops nt K (lin_pert th dth t) X) ml
                          - reg * trWKW nt K Kt (lW (lin_pert th dth t))) 0
            (- inner_lin nt K (kernel_rim_step_grads Rops n nt K reg Kt th X
                                 (decorated_gradient Rops f idx n K (linear_infer_p Rops nt K th X) ml cl g)) dth).
Proof. exact kernel_rim_decorated_direction_is_gradient. Qed.
Theorem C03_mlp_decorated_direction_is_gradient : forall n d h K f idx (X : mat) (th dth : @MlpP R) (g : mat) ml cl,
  (0 < K)%nat -> length idx = n -> relu_off_kink n h (preact d X th) ->
  is_derive (fun t : R => inner n K g (mlp_infer_p Rops d h K (mlp_pert th dth t) X)
                          + pair_pen f idx K (mlp_infer_p Rops d h K (mlp_pert th dth t) X) cl
                          - pair_pen f idx K (mlp_infer_p Rops d h K (mlp_pert th dth t) X) ml) 0
            (- inner_mlp d h K (mlp_step_grads Rops n d h K th X
                                  (decorated_gradient Rops f idx n K (mlp_infer_p Rops d h K th X) ml cl g)) dth).
Proof. exact mlp_decorated_direction_is_gradient. Qed.
Theorem C03_sparse_mlp_decorated_direction_is_gradient : forall n d h K f idx (X : mat) (th dth : @SMlpP R) (g : mat) ml cl,
  (0 < K)%nat -> length idx = n -> relu_off_kink n h (preact d X (smlp_core th)) ->
  is_derive (fun t : R => inner n K g (sparse_mlp_infer_p Rops d h K (smlp_pert th dth t) X)
                          + pair_pen f idx K (sparse_mlp_infer_p Rops d h K (smlp_pert th dth t) X) cl
                          - pair_pen f idx K (sparse_mlp_infer_p Rops d h K (smlp_pert th dth t) X) ml) 0
            (- inner_smlp d h K (sparse_mlp_step_grads Rops n d h K th X
                                   (decorated_gradient Rops f idx n K (sparse_mlp_infer_p Rops d h K th X) ml cl g)) dth).
Proof. exact sparse_mlp_decorated_direction_is_gradient. Qed.
Theorem C03_categorical_decorated_direction_is_gradient : forall n K f idx (L dL g : mat) ml cl,
  (0 < K)%nat -> length idx = n ->
  is_derive (fun t : R => inner n K g (categorical_infer Rops K (fun i k => L i k + t * dL i k))
                          + pair_pen f idx K (categorical_infer Rops K (fun i k => L i k + t * dL i k)) cl
                          - pair_pen f idx K (categorical_infer Rops K (fun i k => L i k + t * dL i k)) ml) 0
            (- inner n K (categorical_step_grads Rops K L
                            (decorated_gradient Rops f idx n K (categorical_infer Rops K L) ml cl g)) dL).
Proof. exact categorical_decorated_direction_is_gradient. Qed.

(* ================================================================== (e) row discipline — every number system *)
(* The batch is the rows 0..n-1 of the (total) matrices.  Changing the data or the upstream gradient on any other
   row changes no direction: every direction is a sum over the batch's rows only. *)
Theorem C03_linear_row_discipline : forall (T : Type) (o : NumOps T) n d K (p : @LinP T) X X' G G',
  rows_agree n X X' -> rows_agree n G G' ->
  (forall j k, lW (linear_step_grads o n d K p X G) j k = lW (linear_step_grads o n d K p X' G') j k) /\
  (forall k, lb (linear_step_grads o n d K p X G) k = lb (linear_step_grads o n d K p X' G') k).
Proof. exact @linear_row_discipline. Qed.
Theorem C03_rim_row_discipline : forall (T : Type) (o : NumOps T) n d K reg (p : @LinP T) X X' G G',
  rows_agree n X X' -> rows_agree n G G' ->
  (forall j k, lW (rim_step_grads o n d K reg p X G) j k = lW (rim_step_grads o n d K reg p X' G') j k) /\
  (forall k, lb (rim_step_grads o n d K reg p X G) k = lb (rim_step_grads o n d K reg p X' G') k).
Proof. exact @rim_row_discipline. Qed.
Theorem C03_kernel_rim_row_discipline : forall (T : Type) (o : NumOps T) n nt K reg Kt (p : @LinP T) X X' G G',
  rows_agree n X X' -> rows_agree n G G' ->
  (forall j k, lW (kernel_rim_step_grads o n nt K reg Kt p X G) j k = lW (kernel_rim_step_grads o n nt K reg Kt p X' G') j k) /\
  (forall k, lb (kernel_rim_step_grads o n nt K reg Kt p X G) k = lb (kernel_rim_step_grads o n nt K reg Kt p X' G') k).
Proof. exact @kernel_rim_row_discipline. Qed.
Theorem C03_mlp_row_discipline : forall (T : Type) (o : NumOps T) n d h K (p : @MlpP T) X X' G G',
  rows_agree n X X' -> rows_agree n G G' ->
  let a := mlp_step_grads o n d h K p X G in let b := mlp_step_grads o n d h K p X' G' in
  (forall j' j, mW1 a j' j = mW1 b j' j) /\ (forall j k, mW2 a j k = mW2 b j k) /\
  (forall j, mb1 a j = mb1 b j) /\ (forall k, mb2 a k = mb2 b k).
Proof. exact @mlp_row_discipline. Qed.
Theorem C03_sparse_mlp_row_discipline : forall (T : Type) (o : NumOps T) n d h K (p : @SMlpP T) X X' G G',
  rows_agree n X X' -> rows_agree n G G' ->
  let a := sparse_mlp_step_grads o n d h K p X G in let b := sparse_mlp_step_grads o n d h K p X' G' in
  (forall j' j, sW1 a j' j = sW1 b j' j) /\ (forall j k, sW2 a j k = sW2 b j k) /\ (forall j k, sWskip a j k = sWskip b j k) /\
  (forall j, sb1 a j = sb1 b j) /\ (forall k, sb2 a k = sb2 b k).
Proof. exact @sparse_mlp_row_discipline. Qed.
Theorem C03_categorical_row_discipline : forall (T : Type) (o : NumOps T) n K L L' G G',
  rows_agree n L L' -> rows_agree n G G' ->
  rows_agree n (categorical_step_grads o K L G) (categorical_step_grads o K L' G').
Proof. exact @categorical_row_discipline. Qed.

(* No parameter's direction involves another parameter's gradient: the adjoint identity determines every entry of
   the direction, so anything satisfying it for all parameter directions IS the model's direction. *)
Theorem C03_linear_direction_unique : forall n d K (X : mat) (th cand : @LinP R) (g : mat),
  (forall dth, inner n K g (linear_jvp d K X th dth) = - inner_lin d K cand dth) ->
  (forall j k, (j < d)%nat -> (k < K)%nat -> lW cand j k = lW (linear_step_grads Rops n d K th X g) j k) /\
  (forall k, (k < K)%nat -> lb cand k = lb (linear_step_grads Rops n d K th X g) k).
Proof. exact linear_direction_unique. Qed.
Theorem C03_mlp_direction_unique : forall n d h K (X : mat) (th cand : @MlpP R) (g : mat),
  (forall dth, inner n K g (mlp_jvp n d h K X th dth) = - inner_mlp d h K cand dth) ->
  let m := mlp_step_grads Rops n d h K th X g in
  (forall j' j, (j' < d)%nat -> (j < h)%nat -> mW1 cand j' j = mW1 m j' j) /\
  (forall j k, (j < h)%nat -> (k < K)%nat -> mW2 cand j k = mW2 m j k) /\
  (forall j, (j < h)%nat -> mb1 cand j = mb1 m j) /\ (forall k, (k < K)%nat -> mb2 cand k = mb2 m k).
Proof. exact mlp_direction_unique. Qed.

(* ================================================================== non-vacuity *)
(* a concrete MLP state off the ReLU kink (pre-activations 3/2, -1/2, -3/2, 5/2), a sort order of two cut
   points, a symmetric kernel and a batch index list — the hypotheses of the theorems above are satisfiable,
   and the pre-fix back-propagation formula (through W2_grad instead of W2_) does violate the adjoint identity *)
Example C03_nonvacuous :
  (let X : mat := fun i _ => match i with O => 1 | _ => -2 end in
   let th : @MlpP R := {| mW1 := fun _ j => match j with O => 1 | _ => -1 end; mW2 := fun _ _ => 1;
                          mb1 := fun _ => /2; mb2 := fun _ => 0 |} in
   relu_off_kink 2 2 (preact 1 X th)) /\
  is_order 2 [1; 0]%nat /\ sym_on 2 (fun j l => INR (j + l)) /\ length [7; 3; 11]%nat = 3%nat /\
  prefix_mlp_formula_violates_adjoint /\
  (let cpl := [(0%nat, [2; 0]); (2%nat, [1; -1])] in
   uniform_cuts 2 cpl /\ (1 < length cpl)%nat /\ NoDup (snd (cpl_nth cpl 1)) /\ argsort Rops (snd (cpl_nth cpl 0)) = [1; 0]%nat).
Proof. exact nonvacuous_witness_c03. Qed.

(* Print Assumptions costs ~2 s per real-analysis theorem (the whole Reals/Coquelicot closure is traversed each
   time), so the 38 theorems over R are audited through one bundle naming every one of them; the 6 theorems
   that hold in every number system are audited one by one and are closed under the global context. *)
Definition C03_all_theorems_over_R :=
  (C03_softmax_is_normalised_exp,
   C03_softmax_jvp,
   C03_softmax_jvp_curve,
   C03_softmax_adjoint,
   C03_linear_adjoint,
   C03_rim_adjoint,
   C03_kernel_rim_adjoint,
   C03_mlp_adjoint,
   C03_mlp_adjoint_any_state,
   C03_sparse_mlp_adjoint,
   C03_categorical_adjoint,
   C03_douglas_adjoint,
   C03_linear_direction_is_gradient,
   C03_rim_direction_is_gradient,
   C03_kernel_rim_direction_is_gradient,
   C03_mlp_direction_is_gradient,
   C03_sparse_mlp_direction_is_gradient,
   C03_categorical_direction_is_gradient,
   C03_douglas_leaf_direction_is_gradient,
   C03_douglas_cut_direction_is_gradient_fixed_order,
   C03_douglas_argsort_locally_constant,
   C03_douglas_adjoint_list_model,
   C03_douglas_leaf_direction_is_gradient_list_model,
   C03_douglas_cut_direction_is_gradient,
   C03_linear_objective_direction_is_gradient,
   C03_mlp_objective_direction_is_gradient,
   C03_decoration_preserves_differentiability,
   C03_penalty_l2,
   C03_penalty_kernel,
   C03_mlcl_decorated_gradient,
   C03_linear_decorated_direction_is_gradient,
   C03_rim_decorated_direction_is_gradient,
   C03_kernel_rim_decorated_direction_is_gradient,
   C03_mlp_decorated_direction_is_gradient,
   C03_sparse_mlp_decorated_direction_is_gradient,
   C03_categorical_decorated_direction_is_gradient,
   C03_linear_direction_unique,
   C03_mlp_direction_unique).
Print Assumptions C03_all_theorems_over_R.
Print Assumptions C03_linear_row_discipline.
Print Assumptions C03_rim_row_discipline.
Print Assumptions C03_kernel_rim_row_discipline.
Print Assumptions C03_mlp_row_discipline.
Print Assumptions C03_sparse_mlp_row_discipline.
Print Assumptions C03_categorical_row_discipline.
