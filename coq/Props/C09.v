(* C09 — KAURI trees respect their structural limits and reproduce their own partition.
   Statements only; every proof is [exact <lemma of Proofs/KauriTree.v>].
   Setting of every theorem: arbitrary parameters P, number of features d, data X (rows of integers:
   the code only compares feature values), and an arbitrary oracle [choose] standing for
   find_best_split, about which only [oracle_ok] is assumed: in every state the loop can reach, a split
   it returns with positive gain is admissible (explorable leaf, feature < d, threshold = value of a
   sample of the leaf, both sides >= min_samples_leaf, targets as find_best_split numbers them, the
   cluster of the split leaf not emptied).  [valid] = what Kauri.fit checks before the loop.
   [fit P X choose = Done st] : the model of Kauri.fit ended in loop state st (tree_ = st_tree st,
   labels_ = labels P X st, leaves_ = leaves P X st).
   REGENERATED TIE: [fit], [init], [step], [guard], [add_child], [route], [eff_max_*] are the generic skeleton
   of Model/KauriTree.v instantiated with [kauri_fit_rules] (Gen/KauriFitRules.v), the holes that
   translator/tr_kaurifit.py re-reads from kauri.py at every build (and whose skeleton it re-checks).  Every
   theorem below is therefore about the rules the source states now; Proofs/KauriTree.v section 0 unfolds them. *)
From Coq Require Import List Arith ZArith Reals Lia.
From GV Require Import Common.Num Common.NumR Gen.KauriFitRules Model.KauriTree Proofs.KauriTree.
Import ListNotations.

(* the regenerated holes are the ones this development was written against (hand-written golden copy in
   Proofs/KauriTree.v: golden_fit_rules); any drift of kauri.py that changes a hole shows up here *)
Theorem C09_regenerated_rules_are_documented : kauri_fit_rules = golden_fit_rules.
Proof. exact rules_golden. Qed.
(* what the regenerated pre-loop tests mean: fit only proceeds when 2*min_samples_leaf <= min_samples_split and
   n >= min_samples_leaf; the feature subset handed to find_best_split always has a legal size *)
Theorem C09_valid_parameters_documented : forall P d X, valid P d X ->
  2 * min_samples_leaf P <= min_samples_split P /\ min_samples_leaf P <= length X.
Proof. exact (fun P d X V => conj (valid_contra P d X V) (valid_n_msl P d X V)). Qed.
(* Kauri.predict routes the query rows in the number system in which fit chose the thresholds (float64): without this
   the model's [predict] is undefined (None) and none of the predict theorems below would hold *)
Theorem C09_predict_same_number_system_as_fit : r_predict_float64 kauri_fit_rules = true.
Proof. exact rule_predict_number_system. Qed.
Theorem C09_max_features_in_range : forall mf d, 1 <= d -> 1 <= eff_max_features mf d <= d.
Proof. exact rule_max_features. Qed.

(* the loop of Kauri.fit always ends (the fuel of the model is never exhausted) ... *)
Theorem C09_fit_terminates : forall P d X choose, valid P d X -> oracle_ok P d X choose ->
  exists st, fit P X choose = Done st.
Proof. exact fit_terminates. Qed.
(* ... and only because the oracle found no positive gain, max_leaves is reached or no leaf is explorable *)
Theorem C09_fit_stops : forall P d X choose st, oracle_ok P d X choose -> fit P X choose = Done st ->
  guard P X st = false \/ choose st = None.
Proof. exact fit_stop. Qed.

(* at most max_leaves leaves (n when max_leaves is None); 2*leaves-1 nodes; leaves = n_leaves of the loop *)
Theorem C09_leaves_le_max_leaves_and_node_count : forall P d X choose st,
  valid P d X -> oracle_ok P d X choose -> fit P X choose = Done st ->
  count_leaves (st_tree st) <= eff_max_leaves P (length X) /\
  length (st_tree st) = 2 * count_leaves (st_tree st) - 1 /\ count_leaves (st_tree st) = st_nl st.
Proof. exact fit_leaves_nodes. Qed.

(* every node is a proper leaf (no child, feature, threshold) or a proper internal node whose two
   children are consecutive later entries of the arrays *)
Theorem C09_tree_well_formed : forall P d X choose st,
  valid P d X -> oracle_ok P d X choose -> fit P X choose = Done st ->
  forall a nd, nth_error (st_tree st) a = Some nd ->
  is_leaf nd \/ exists l r f th, internal nd l r f th /\ a < l /\ r = S l /\ r < length (st_tree st).
Proof. exact fit_well_formed. Qed.

(* depth at most max_depth (n when None); the depths array is the real depth of each node *)
Theorem C09_depth_le_max_depth : forall P d X choose st,
  valid P d X -> oracle_ok P d X choose -> fit P X choose = Done st ->
  tree_depth (st_tree st) <= eff_max_depth P (length X) /\ nd_depth (get_node (st_tree st) 0) = 0 /\
  (forall a nd l r f th, nth_error (st_tree st) a = Some nd -> internal nd l r f th ->
     nd_depth (get_node (st_tree st) l) = S (nd_depth nd) /\ nd_depth (get_node (st_tree st) r) = S (nd_depth nd)).
Proof. exact fit_depth. Qed.

(* at most max_clusters clusters, and labels_ uses exactly the labels 0 .. n_clusters-1 *)
Theorem C09_clusters_le_max_and_contiguous : forall P d X choose st,
  valid P d X -> oracle_ok P d X choose -> fit P X choose = Done st ->
  st_nc st <= max_clusters P /\ (forall i, i < length X -> label_of P X st i < st_nc st) /\
  (forall c, c < st_nc st -> exists i, i < length X /\ label_of P X st i = c).
Proof. exact fit_clusters. Qed.

(* contiguity is a joint guarantee of fit and find_best_split: drop the clause "the cluster of the split
   leaf is not emptied" from admissibility and a reachable state has an admissible-otherwise split after
   which a label below n_clusters is unused (model-level witness; find_best_split never returns it) *)
Theorem C09_contiguity_rests_on_oracle_keeping_clusters :
  exists P d X st sp, valid P d X /\ reachable P d X st /\ guard P X st = true /\ admissible_weak P d X st sp /\
    exists c, c < st_nc (step P X st sp) /\ forall i, i < length X -> label_of P X (step P X st sp) i <> c.
Proof. exact contiguity_needs_keeps. Qed.

(* each leaf belongs to exactly one cluster (one 1 per column of Y) and each sample to exactly one leaf (Z) *)
Theorem C09_each_leaf_one_cluster : forall P d X choose st,
  valid P d X -> oracle_ok P d X choose -> fit P X choose = Done st ->
  (forall l, l < st_nl st -> exists k, k < max_clusters P /\ st_Y st k l = true /\ forall k', st_Y st k' l = true -> k' = k) /\
  (forall i, i < length X -> exists l, l < st_nl st /\ st_Z st l i = true /\ forall l', st_Z st l' i = true -> l' = l).
Proof. exact fit_one_cluster. Qed.

(* every leaf node of the tree is reached by at least min_samples_leaf training rows *)
Theorem C09_leaf_sizes_ge_min_samples_leaf : forall P d X choose st,
  valid P d X -> oracle_ok P d X choose -> fit P X choose = Done st ->
  forall b nd, nth_error (st_tree st) b = Some nd -> is_leaf nd -> min_samples_leaf P <= node_count (st_tree st) X b.
Proof. exact fit_leaf_sizes. Qed.

(* a split node (the root included) is reached by at least min_samples_split training rows; its feature is
   a feature of the data and its threshold is the value of that feature for a training row reaching it *)
Theorem C09_split_nodes_ge_min_samples_split_thresholds_observed : forall P d X choose st,
  valid P d X -> oracle_ok P d X choose -> fit P X choose = Done st ->
  forall a nd l r f th, nth_error (st_tree st) a = Some nd -> internal nd l r f th ->
  min_samples_split P <= node_count (st_tree st) X a /\ f < d /\
  exists i, i < length X /\ feat X i f = th /\ visits (length (st_tree st)) (st_tree st) (nth i X []) 0 a = true.
Proof. exact fit_split_nodes. Qed.

(* predict(X) = labels_ ; the leaf reached by training row i is the node of leaves_[i]; distinct leaf
   numbers are distinct nodes *)
Theorem C09_predict_train_eq_labels : forall P d X choose st,
  valid P d X -> oracle_ok P d X choose -> fit P X choose = Done st ->
  predict (st_tree st) X = map Some (labels P X st) /\
  (forall i, i < length X -> route_leaf (st_tree st) (nth i X []) = Some (st_l2n st (leaf_of P X st i)) /\
                             leaf_of P X st i < st_nl st) /\
  (forall l l', l < st_nl st -> l' < st_nl st -> st_l2n st l = st_l2n st l' -> l = l').
Proof. exact fit_predict_train. Qed.

(* any row x (seen or not): the leaf regions partition the row space and predict returns the target of the
   one leaf whose region (conjunction of the tests on its root path) contains x; routing never fails *)
Theorem C09_predict_is_leaf_region : forall P d X choose st,
  valid P d X -> oracle_ok P d X choose -> fit P X choose = Done st ->
  forall x, exists b nd, nth_error (st_tree st) b = Some nd /\ is_leaf nd /\ in_region (st_tree st) b x /\
                         predict_row (st_tree st) x = Some (nd_target nd) /\
                         forall b' nd', nth_error (st_tree st) b' = Some nd' -> is_leaf nd' -> in_region (st_tree st) b' x -> b' = b.
Proof. exact fit_predict_region. Qed.

(* score(X', kernel) = sum over the non-empty clusters of (sum of the kernel over the cluster) / size, for
   the labels predict gives to X' (real-number instance of gemini_objective) ... *)
Theorem C09_score_is_objective_of_predict : forall P d X choose st,
  valid P d X -> oracle_ok P d X choose -> fit P X choose = Done st ->
  forall (X' : data) (ker : nat -> nat -> R),
  exists lab, (forall i, i < length X' -> predict_row (st_tree st) (nth i X' []) = Some (lab i) /\ lab i < max_clusters P) /\
              score Rops (st_tree st) X' (max_clusters P) ker = kk_objective (length X') (max_clusters P) ker lab.
Proof. exact fit_score. Qed.
(* ... and on the training data it is the objective of labels_ *)
Theorem C09_score_train_is_objective_of_labels : forall P d X choose st,
  valid P d X -> oracle_ok P d X choose -> fit P X choose = Done st ->
  forall ker : nat -> nat -> R,
  score Rops (st_tree st) X (max_clusters P) ker = kk_objective (length X) (max_clusters P) ker (label_of P X st).
Proof. exact fit_score_train. Qed.

(* the oracle the correspondence runs (recorded splits, each re-checked) satisfies the hypothesis *)
Theorem C09_replay_oracle_ok : forall P d X sps, oracle_ok P d X (replay_oracle P d X sps).
Proof. exact replay_oracle_ok. Qed.

(* non-vacuity: valid parameters with all limits set, data with a constant feature, an oracle satisfying
   the hypothesis, and a fit that performs two splits (3 leaves, 5 nodes, 3 clusters, depth 2) *)
Example C09_nonvacuous :
  let P := {| max_clusters := 3; max_depth := Some 2; min_samples_split := 2; min_samples_leaf := 1; max_leaves := Some 4 |} in
  let X := [[0; 5]; [1; 5]; [2; 5]; [3; 5]; [4; 5]]%Z in
  let sps := [ {| s_leaf := 0; s_feature := 0; s_threshold := 1%Z; s_left := 0; s_right := 1 |};
               {| s_leaf := 1; s_feature := 0; s_threshold := 2%Z; s_left := 1; s_right := 2 |} ] in
  valid P 2 X /\ oracle_ok P 2 X (replay_oracle P 2 X sps) /\
  match fit P X (replay_oracle P 2 X sps) with
  | Done st => labels P X st = [0; 0; 1; 2; 2] /\ leaves P X st = [0; 0; 1; 2; 2] /\ length (st_tree st) = 5 /\
               tree_depth (st_tree st) = 2 /\ st_queue st = [0] /\
               predict (st_tree st) [[2; 9]; [7; 0]]%Z = [Some 1; Some 2]
  | OutOfFuel => False
  end.
Proof.
  cbv zeta. split; [constructor; cbn; try lia; try reflexivity; intros m H; injection H as <-; lia|].
  split; [apply replay_oracle_ok|]. vm_compute. repeat split.
Qed.

Print Assumptions C09_regenerated_rules_are_documented.
Print Assumptions C09_valid_parameters_documented.
Print Assumptions C09_predict_same_number_system_as_fit.
Print Assumptions C09_max_features_in_range.
Print Assumptions C09_fit_terminates.
Print Assumptions C09_fit_stops.
Print Assumptions C09_leaves_le_max_leaves_and_node_count.
Print Assumptions C09_tree_well_formed.
Print Assumptions C09_depth_le_max_depth.
Print Assumptions C09_clusters_le_max_and_contiguous.
Print Assumptions C09_contiguity_rests_on_oracle_keeping_clusters.
Print Assumptions C09_each_leaf_one_cluster.
Print Assumptions C09_leaf_sizes_ge_min_samples_leaf.
Print Assumptions C09_split_nodes_ge_min_samples_split_thresholds_observed.
Print Assumptions C09_predict_train_eq_labels.
Print Assumptions C09_predict_is_leaf_region.
Print Assumptions C09_score_is_objective_of_predict.
Print Assumptions C09_score_train_is_objective_of_labels.
Print Assumptions C09_replay_oracle_ok.
