(* C14 — Must-link / cannot-link constraints: exact validation, right samples, right sign.
   Statements only; every proof is [exact <lemma of Proofs/Mlcl.v / Proofs/MlclGen.v>].
   The theorems are about the model instantiated with the rules REGENERATED from gemclus/mlcl.py on
   every build (Gen/MlclRules.v::mlcl_rules, written by translator/tr_mlcl.py):
     valid_now = valid_r mlcl_rules, structural_now, accept_raw_now, decorate_now o = decorate_grads_r o (mr_grads mlcl_rules).
   A rule that no longer is the documented one breaks C14_regenerated_rules_are_documented and every
   theorem below with it. *)
From Coq Require Import List Arith Bool Relations Permutation Reals Lra.
From GV Require Import Common.Num Common.NumR Model.Mlcl Gen.MlclRules Proofs.Mlcl Proofs.MlclGen.
Import ListNotations.

(* ---------------------------------------------------------------- the regenerated tie *)
(* the holes read from the source now (list iterated by each loop, columns, normalised length tests,
   check_array keywords, start node, mapping back to sample indices, orientations of the raising test,
   membership test, target / sign / factor / operands and order of the four update lines) are the
   documented ones (hand-written golden copy Model/Mlcl.v::documented_rules) *)
Theorem C14_regenerated_rules_are_documented : mlcl_rules = documented_rules.
Proof. exact rules_documented. Qed.

(* and the parameterised model at these rules is the executable hand model that the correspondence runs *)
Theorem C14_regenerated_model_is_hand_model :
  (forall ml cl, valid_now ml cl = valid ml cl) /\ (forall ml cl, structural_now ml cl = structural ml cl) /\
  (forall a b, accept_raw_now a b = accept_raw a b) /\
  (forall (T : Type) (o : NumOps T) f idx Y ml cl G, decorate_now o f idx Y ml cl G = decorate_grads o f idx Y ml cl G).
Proof. exact regenerated_model_is_hand_model. Qed.

(* ---------------------------------------------------------------- validation *)
(* accept <-> no self pair in must-link, none in cannot-link, and no cannot-link pair connected in the
   reflexive-symmetric-transitive closure of the must-link edges ([edge ml a b] := (a,b) or (b,a) in ml),
   for all finite pair lists over arbitrary naturals.  [valid] runs the structural check only when both
   lists are non-empty, as the code does; the equivalence holds regardless. *)
Theorem C14_valid_iff_spec : forall ml cl, valid_now ml cl = true <->
  (forall a b, In (a,b) ml -> a <> b) /\ (forall a b, In (a,b) cl -> a <> b) /\
  (forall a b, In (a,b) cl -> ~ clos_refl_trans nat (edge ml) a b).
Proof. exact gen_valid_iff_spec. Qed.

(* the component labelling equals the closure of the edges (any edge list, any node names) *)
Theorem C14_connected_iff_closure : forall es x y,
  label es x = label es y <-> clos_refl_trans nat (edge es) x y.
Proof. exact label_spec. Qed.

(* the exploration loop of the structural check never runs out of fuel: [None] is not a verdict *)
Theorem C14_check_terminates : forall ml cl, structural_now ml cl <> None.
Proof. exact gen_structural_terminates. Qed.

(* shape layer: well-shaped pair lists (and None / [] for "no constraint") are judged by [valid];
   scalars, non-empty flat lists and 2-D inputs with a row of fewer than two columns are rejected
   whatever the other argument is *)
Theorem C14_shape_well_formed : forall ml cl,
  accept_raw_now (raw_of_pairs ml) (raw_of_pairs cl) = valid_now ml cl /\
  accept_raw_now RNone (raw_of_pairs cl) = valid_now [] cl /\
  accept_raw_now (raw_of_pairs ml) RNone = valid_now ml [].
Proof. exact gen_shape_well_formed. Qed.

Theorem C14_shape_malformed_rejected : forall r x, malformed r ->
  accept_raw_now r x = false /\ accept_raw_now x r = false.
Proof. exact gen_accept_raw_malformed. Qed.

(* ---------------------------------------------------------------- gradient decoration *)
(* rows of samples that are in no pair lying wholly inside the batch come out unchanged, in every
   number system (hence bit-identical in binary64); the number of rows never changes.  No NoDup needed. *)
Theorem C14_untouched_rows_identical : forall (T : Type) (o : NumOps T) f idx Y ml cl G p d,
  length (decorate_now o f idx Y ml cl G) = length G /\
  (p < length idx -> ~ touched ml cl idx (nth p idx 0) ->
   nth p (decorate_now o f idx Y ml cl G) d = nth p G d).
Proof. exact gen_untouched. Qed.

(* closed form over the reals, any batch, any pair lists: the shape (n rows, K columns) is kept and entry (p,k)
   of the gradient handed to the wrapped _compute_grads is the incoming entry
   + sum over cannot-link pairs (i,j) inside the batch of  factor*(y_i - y_j)  on the row of i, the opposite on the row of j
   - the same sum over must-link pairs; positions are those of the first occurrence of the true index *)
Theorem C14_decoration_rows_and_sign : forall f idx Y ml cl G n K,
  length idx = n -> wf n K Y -> wf n K G ->
  wf n K (decorate_now Rops f idx Y ml cl G) /\
  forall p k, p < n -> k < K ->
    ent (decorate_now Rops f idx Y ml cl G) p k
    = (ent G p k + csum f idx Y cl p k - csum f idx Y ml p k)%R.
Proof. exact gen_decorate_ent. Qed.

(* a pair that is not wholly inside the batch contributes nothing to any entry *)
Theorem C14_pair_outside_batch_inert : forall f idx Y i j p k,
  ~ (In i idx /\ In j idx) -> contrib f idx Y (i, j) p k = 0%R.
Proof. exact contrib_outside. Qed.

(* single must-link pair in the batch: row(i) gets -factor*(y_i - y_j) added, row(j) the opposite *)
Theorem C14_single_must_link : forall f idx Y G n K i j k,
  length idx = n -> wf n K Y -> wf n K G -> In i idx -> In j idx -> i <> j -> k < K ->
  ent (decorate_now Rops f idx Y [(i, j)] [] G) (index i idx) k
    = (ent G (index i idx) k + - (f * (ent Y (index i idx) k - ent Y (index j idx) k)))%R /\
  ent (decorate_now Rops f idx Y [(i, j)] [] G) (index j idx) k
    = (ent G (index j idx) k + (f * (ent Y (index i idx) k - ent Y (index j idx) k)))%R.
Proof. exact gen_single_ml. Qed.

(* single cannot-link pair: the reverse *)
Theorem C14_single_cannot_link : forall f idx Y G n K i j k,
  length idx = n -> wf n K Y -> wf n K G -> In i idx -> In j idx -> i <> j -> k < K ->
  ent (decorate_now Rops f idx Y [] [(i, j)] G) (index i idx) k
    = (ent G (index i idx) k + (f * (ent Y (index i idx) k - ent Y (index j idx) k)))%R /\
  ent (decorate_now Rops f idx Y [] [(i, j)] G) (index j idx) k
    = (ent G (index j idx) k + - (f * (ent Y (index i idx) k - ent Y (index j idx) k)))%R.
Proof. exact gen_single_cl. Qed.

(* the result does not depend on the order of the batch: two presentations of the same batch (same
   samples; each sample carries the same prediction row and gradient row) give each sample the same
   new gradient row — in every number system, since positions are looked up by true index *)
Theorem C14_batch_order_irrelevant : forall (T : Type) (o : NumOps T) f idx idx' Y Y' ml cl G G',
  (forall s, In s idx <-> In s idx') ->
  length G = length idx -> length G' = length idx' ->
  (forall s, In s idx -> lookup s idx Y = lookup s idx' Y' /\ lookup s idx G = lookup s idx' G') ->
  forall s, In s idx ->
    lookup s idx (decorate_now o f idx Y ml cl G) = lookup s idx' (decorate_now o f idx' Y' ml cl G').
Proof. exact gen_order_irrelevant. Qed.

(* equivariance: permuting indices, prediction rows and gradient rows consistently permutes the result *)
Theorem C14_permutation_equivariance : forall (T : Type) (o : NumOps T) f idx Y ml cl G perm,
  NoDup idx -> length Y = length idx -> length G = length idx ->
  Permutation perm (seq 0 (length idx)) ->
  decorate_now o f (permute 0 perm idx) (permute [] perm Y) ml cl (permute [] perm G)
  = permute [] perm (decorate_now o f idx Y ml cl G).
Proof. exact gen_permutation_equivariant. Qed.

(* non-vacuity: a consistent and a contradictory set over non-contiguous indices, and the hypotheses of
   the decoration theorems on a concrete batch [42; 3; 11] with the must-link pair (3, 42) *)
Example C14_nonvacuous :
  valid_now [(3, 7); (42, 7)] [(3, 11); (20, 42)] = true /\ valid_now [(3, 7); (42, 7)] [(42, 3)] = false /\
  let idx := [42; 3; 11] in let Y := [[1; 0]; [0; 1]; [/2; /2]]%R in let G := [[0; 0]; [0; 0]; [0; 0]]%R in
  length idx = 3 /\ wf 3 2 Y /\ wf 3 2 G /\ NoDup idx /\ Permutation [2; 0; 1] (seq 0 (length idx)) /\
  ent (decorate_now Rops 2%R idx Y [(3, 42)] [] G) 1 0 = 2%R /\ touched [(3, 42)] [] idx 3 /\ ~ touched [(3, 42)] [] idx 11.
Proof.
  split; [vm_compute; reflexivity|]. split; [vm_compute; reflexivity|]. cbv zeta.
  assert (W1 : wf 3 2 [[1; 0]; [0; 1]; [/2; /2]]%R) by (split; [reflexivity | repeat constructor]).
  assert (W2 : wf 3 2 [[0; 0]; [0; 0]; [0; 0]]%R) by (split; [reflexivity | repeat constructor]).
  repeat split; try exact (proj2 W1); try exact (proj2 W2).
  - repeat constructor; simpl; intuition discriminate.
  - change (Permutation [2; 0; 1] [0; 1; 2]). apply (Permutation_cons_app [0; 1] [] 2). apply Permutation_refl.
  - destruct (gen_single_ml 2%R [42; 3; 11] _ _ 3 2 3 42 0 eq_refl W1 W2) as [H _];
      [right; left; reflexivity | left; reflexivity | discriminate | repeat constructor |].
    change (index 3 [42; 3; 11]) with 1 in H. change (index 42 [42; 3; 11]) with 0 in H.
    rewrite H. unfold ent. cbn [nth]. lra.
  - exists 3, 42. cbn [app In]. intuition.
  - intros (i & j & Hin & _ & _ & Hs). cbn [app In] in Hin. destruct Hin as [Hin|[]]. inversion Hin; subst.
    destruct Hs; discriminate.
Qed.

Print Assumptions C14_regenerated_rules_are_documented.
Print Assumptions C14_regenerated_model_is_hand_model.
Print Assumptions C14_valid_iff_spec.
Print Assumptions C14_connected_iff_closure.
Print Assumptions C14_check_terminates.
Print Assumptions C14_shape_well_formed.
Print Assumptions C14_shape_malformed_rejected.
Print Assumptions C14_untouched_rows_identical.
Print Assumptions C14_decoration_rows_and_sign.
Print Assumptions C14_pair_outside_batch_inert.
Print Assumptions C14_single_must_link.
Print Assumptions C14_single_cannot_link.
Print Assumptions C14_batch_order_irrelevant.
Print Assumptions C14_permutation_equivariance.
