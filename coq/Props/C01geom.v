(* C01 on the REGENERATED kernel-MMD definitions: Gen/Geom.v is produced on every build by translator/tr_geom.py from
   the numpy source of gemclus/gemini/_geomdistances.py :: MMDGEMINI.evaluate (symbolic, shape-aware, fail-closed).
   Proofs/GeomGen.v proves, for every number system in which float(N ** 2) = float(N) * float(N) (hypothesis
   nofnat_sq, discharged for R), that each regenerated term is the code-shaped expression code_* written with the
   model's own sub-definitions (convertible), that the one-vs-all score IS the model, and - over the reals only,
   where the model regroups the code's sums - that the one-vs-one score equals the model.  A change of the source
   that alters the computed term breaks these obligations. *)
From Coq Require Import Reals.
From GV Require Import Common.Num Common.NumR Model.Gemini Proofs.RSumLib Proofs.GeminiDefs Proofs.GeminiMMD Gen.Geom Proofs.GeomGen.
Open Scope R_scope.
Theorem C01_mmd_gen_is_definition : forall eps n K P A (ovo : bool), 0 <= eps -> (0 < n)%nat -> interior eps n K P -> sym_on n A ->
  (if ovo then forall k k', (k < K)%nat -> (k' < K)%nat -> 0 <= qovo n A P k k'
   else forall k, (k < K)%nat -> 0 <= qova n A P k) ->
  gen_mmd_score Rops eps n K P A ovo = if ovo then gemini_ovo n K P (MMDdist n A) else gemini_ova n K P (MMDdist n A).
Proof. exact gen_mmd_score_is_definition. Qed.
(* the clamp np.maximum(., 0): when a kernel that is not PSD makes every one-vs-all squared distance negative the
   regenerated score is 0 *)
Theorem C01_mmd_gen_clamped_ova_zero : forall eps n K Y A,
  (forall k, (k < K)%nat -> mm_a Rops eps n Y A k + mm_c Rops n A - 2 * mm_b Rops eps n Y A k < 0) ->
  gen_mmd_score Rops eps n K Y A false = 0.
Proof. exact gen_mmd_clamped_ova_zero. Qed.
(* the regenerated terms ARE the code-shaped expressions over the model's sub-definitions (all number systems with
   nofnat_sq, floats included); for one-vs-all that expression is the model the correspondence runs *)
Theorem C01_mmd_gen_is_code : forall T (o : NumOps T) eps n K Y A ovo, nofnat_sq o n ->
  gen_mmd_score o eps n K Y A ovo = code_score o eps n K Y A ovo /\
  gen_mmd_gscore o eps n K Y A ovo = code_score o eps n K Y A ovo /\
  (forall i k, gen_mmd_grad o eps n K Y A ovo i k = code_grad o eps n K Y A ovo i k).
Proof. exact gen_mmd_is_code. Qed.
Theorem C01_mmd_gen_ova_is_model : forall T (o : NumOps T) eps n K Y A, nofnat_sq o n ->
  gen_mmd_score o eps n K Y A false = mmd_score o eps n K Y A false.
Proof. exact gen_mmd_score_ova_eq. Qed.
(* over the reals the regenerated score is the model's score for both flags, and nofnat_sq holds *)
Theorem C01_mmd_gen_is_model_R : forall eps n K (Y A : mat) ovo,
  gen_mmd_score Rops eps n K Y A ovo = mmd_score Rops eps n K Y A ovo.
Proof. exact gen_mmd_score_eq_R. Qed.
Theorem C01_nofnat_sq_R : forall n, nofnat_sq Rops n.
Proof. exact nofnat_sq_R. Qed.
Print Assumptions C01_mmd_gen_is_definition.
Print Assumptions C01_mmd_gen_clamped_ova_zero.
Print Assumptions C01_mmd_gen_is_code.
Print Assumptions C01_mmd_gen_ova_is_model.
Print Assumptions C01_mmd_gen_is_model_R.
Print Assumptions C01_nofnat_sq_R.
