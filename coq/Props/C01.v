(* C01 — GEMINI scores equal their defining statistical distances.
   Statements only.  `kl_score`, `tv_score`, ... are the executable model of the code (Model/Gemini.v,
   tied to /repo by the correspondence check); `gemini_ova/gemini_ovo` and the distances KLdiv, TVdist,
   Hell2, Chi2, MMDdist are the textbook definitions (Proofs/GeminiDefs.v): the p(y)-weighted average of
   the distance between the empirical cluster conditionals p(x_i|y=k) = P[i,k]/(n pi_k) and the empirical
   data law 1/n (one-vs-all) or between two conditionals (one-vs-one).
   Quantification: every n >= 1, every K, every interior (hence unclipped) row-stochastic P.
   Entries within eps of 0 or 1 are scored after clipping: that regime is covered by the correspondence
   and the oracle, not by these theorems (DESIGN §5 C01). *)
From Coq Require Import Reals Lra Lia.
From GV Require Import Common.Num Common.NumR Model.Gemini Proofs.RSumLib Proofs.GeminiDefs
  Proofs.GeminiKL Proofs.GeminiTV Proofs.GeminiHellinger Proofs.GeminiChi2 Proofs.GeminiMMD Proofs.GeminiWasserstein.
Open Scope R_scope.

(* KL one-vs-all (= 'mi', the mutual information) and one-vs-one *)
Theorem C01_kl_is_definition : forall eps n K P ovo, 0 <= eps -> (0 < n)%nat -> interior eps n K P -> row_stochastic n K P ->
  kl_score Rops eps n K P ovo = if ovo then gemini_ovo n K P (KLdiv n) else gemini_ova n K P (KLdiv n).
Proof. exact kl_score_is_definition. Qed.

(* total variation *)
Theorem C01_tv_is_definition : forall eps n K P ovo, 0 <= eps -> (0 < n)%nat -> interior eps n K P ->
  tv_score Rops eps n K P ovo = if ovo then gemini_ovo n K P (TVdist n) else gemini_ova n K P (TVdist n).
Proof. exact tv_score_is_definition. Qed.

(* squared Hellinger *)
Theorem C01_hellinger_is_definition : forall eps n K P ovo, 0 <= eps -> (0 < n)%nat -> interior eps n K P -> row_stochastic n K P ->
  he_score Rops eps n K P ovo = if ovo then gemini_ovo n K P (Hell2 n) else gemini_ova n K P (Hell2 n).
Proof. exact he_score_is_definition. Qed.

(* Pearson chi-square, with the family's fixed affine convention (chi2 + 1) / 2 *)
Theorem C01_chi2_is_definition : forall eps n K P ovo, 0 <= eps -> (0 < n)%nat -> interior eps n K P -> row_stochastic n K P ->
  chi_score Rops eps n K P ovo = ((if ovo then gemini_ovo n K P (Chi2 n) else gemini_ova n K P (Chi2 n)) + 1) / 2.
Proof. exact chi_score_is_definition. Qed.

(* kernel MMD for every symmetric kernel matrix; the squared distances are assumed non-negative (always
   true for PSD kernels); when a kernel that is not PSD makes one negative the code uses 0 instead *)
Theorem C01_mmd_is_definition : forall eps n K P A (ovo : bool), 0 <= eps -> (0 < n)%nat -> interior eps n K P -> sym_on n A ->
  (if ovo then forall k k', (k < K)%nat -> (k' < K)%nat -> 0 <= qovo n A P k k'
   else forall k, (k < K)%nat -> 0 <= qova n A P k) ->
  mmd_score Rops eps n K P A ovo = if ovo then gemini_ovo n K P (MMDdist n A) else gemini_ova n K P (MMDdist n A).
Proof. exact mmd_score_is_definition. Qed.
Theorem C01_mmd_clamped_uses_zero : forall eps n Y A,
  (forall k, mm_a Rops eps n Y A k + mm_c Rops n A - 2 * mm_b Rops eps n Y A k < 0 -> mm_delta_ova Rops eps n Y A k = 0) /\
  (forall k k', - 2 * mm_omega Rops eps n Y A k k' + mm_omega Rops eps n Y A k' k' + mm_omega Rops eps n Y A k k < 0 ->
     mm_delta_ovo Rops eps n Y A k k' = 0).
Proof. exact mmd_clamped_uses_zero. Qed.

(* Wasserstein-1, relative to the transport oracle: W is the optimal-transport cost between two weight
   vectors for the given distance matrix (what ot.emd2 returns: hypothesis of the correspondence, spot-checked
   against an independent LP).  The weights handed to the solver are the cluster conditionals. *)
Theorem C01_wasserstein_weights_are_conditionals : forall eps n K P k i, interior eps n K P -> (i < n)%nat -> (k < K)%nat ->
  ws_wy Rops eps n P k i = cond n P k i.
Proof. exact ws_weights_are_conditionals. Qed.
Theorem C01_wasserstein_is_definition : forall n K (W : (nat -> R) -> (nat -> R) -> R) eps P ovo,
  0 <= eps -> (0 < n)%nat -> interior eps n K P -> (ovo = true -> W_sym n W /\ W_refl0 n W) ->
  ws_score Rops eps n K P (fun k => W (cond n P k) (unif n)) (fun k1 k2 => W (cond n P k1) (cond n P k2)) ovo
  = if ovo then gemini_ovo n K P W else gemini_ova n K P W.
Proof. exact ws_score_is_definition. Qed.

(* non-vacuity: the hypotheses are met by a concrete non-uniform matrix *)
Definition ex_P : mat := fun i k => match i, k with O, O => 7/10 | O, _ => 3/10 | _, O => 4/10 | _, _ => 6/10 end.
Example C01_nonvacuous : interior (1/10) 2 2 ex_P /\ row_stochastic 2 2 ex_P /\ tv_regular 2 2 ex_P false /\ tv_regular 2 2 ex_P true.
Proof.
  assert (Hpi : forall k, (k < 2)%nat -> pi0 2 ex_P k = match k with O => 11/20 | _ => 9/20 end).
  { intros k Hk. unfold pi0, rsum. destruct k as [|[|k]]; [| |lia]; simpl; lra. }
  split; [|split; [|split]].
  - intros i k Hi Hk. destruct i as [|[|i]]; [| |lia]; destruct k as [|[|k]]; try lia; simpl; lra.
  - intros i Hi. unfold rsum. destruct i as [|[|i]]; [| |lia]; simpl; lra.
  - intros i k Hi Hk. rewrite (Hpi k Hk). destruct i as [|[|i]]; [| |lia]; destruct k as [|[|k]]; try lia; simpl; lra.
  - intros i k k' Hi Hk Hk' Hne. rewrite (Hpi k Hk), (Hpi k' Hk').
    destruct i as [|[|i]]; [| |lia]; destruct k as [|[|k]]; try lia; destruct k' as [|[|k']]; try lia; try congruence; simpl; lra.
Qed.

Print Assumptions C01_kl_is_definition.
Print Assumptions C01_tv_is_definition.
Print Assumptions C01_hellinger_is_definition.
Print Assumptions C01_chi2_is_definition.
Print Assumptions C01_mmd_is_definition.
Print Assumptions C01_mmd_clamped_uses_zero.
Print Assumptions C01_wasserstein_weights_are_conditionals.
Print Assumptions C01_wasserstein_is_definition.
