(* C13 — GEMINI scores obey their invariances and bounds.  Statements only.
   Permutation invariance and gradient equivariance hold for ALL inputs (no interior hypothesis): the
   model is the clean formula evaluated at the clipped matrix.  Bounds are stated where the code's value
   is the mathematical one (interior, row-stochastic).  Wasserstein facts are relative to the transport
   oracle (Proofs/GeminiWasserstein.v) and listed in the evidence when available. *)
From Coq Require Import Reals Lra Lia.
From GV Require Import Common.Num Common.NumR Model.Gemini Proofs.RSumLib Proofs.GeminiDefs
  Proofs.GeminiKL Proofs.GeminiTV Proofs.GeminiHellinger Proofs.GeminiChi2 Proofs.GeminiMMD Proofs.GeminiWasserstein Proofs.GeminiKL13.
Open Scope R_scope.

(* ---- consistent reordering of the samples (with the affinity rows and columns) ---- *)
Theorem C13_tv_perm_samples : forall eps n K P ovo s, perm_on n s ->
  tv_score Rops eps n K (fun i k => P (s i) k) ovo = tv_score Rops eps n K P ovo.
Proof. exact tv_perm_samples. Qed.
Theorem C13_tv_grad_perm_samples : forall eps n K P ovo s i k, perm_on n s ->
  tv_grad Rops eps n K (fun i k => P (s i) k) ovo i k = tv_grad Rops eps n K P ovo (s i) k.
Proof. exact tv_grad_perm_samples. Qed.
Theorem C13_hellinger_perm_samples : forall eps n K Y s, perm_on n s -> forall ovo,
  he_score Rops eps n K (fun i k => Y (s i) k) ovo = he_score Rops eps n K Y ovo.
Proof. exact he_perm_samples. Qed.
Theorem C13_hellinger_grad_perm_samples : forall eps n K Y s, perm_on n s -> forall ovo i k,
  he_grad Rops eps n K (fun i k => Y (s i) k) ovo i k = he_grad Rops eps n K Y ovo (s i) k.
Proof. exact he_grad_perm_samples. Qed.
Theorem C13_chi2_perm_samples : forall eps n K Y s, perm_on n s -> forall ovo,
  chi_score Rops eps n K (fun i k => Y (s i) k) ovo = chi_score Rops eps n K Y ovo.
Proof. exact chi_perm_samples. Qed.
Theorem C13_chi2_grad_perm_samples : forall eps n K Y s, perm_on n s -> forall ovo i k,
  chi_grad Rops eps n K (fun i0 k0 => Y (s i0) k0) ovo i k = chi_grad Rops eps n K Y ovo (s i) k.
Proof. exact chi_grad_perm_samples. Qed.
Theorem C13_mmd_perm_samples : forall eps n K P A ovo s, perm_on n s ->
  mmd_score Rops eps n K (fun i k => P (s i) k) (fun i j => A (s i) (s j)) ovo = mmd_score Rops eps n K P A ovo.
Proof. exact mmd_perm_samples. Qed.

(* ---- reordering of the clusters ---- *)
Theorem C13_tv_perm_clusters : forall eps n K P ovo s, perm_on K s ->
  tv_score Rops eps n K (fun i k => P i (s k)) ovo = tv_score Rops eps n K P ovo.
Proof. exact tv_perm_clusters. Qed.
Theorem C13_tv_grad_perm_clusters : forall eps n K P ovo s i k, perm_on K s ->
  tv_grad Rops eps n K (fun i k => P i (s k)) ovo i k = tv_grad Rops eps n K P ovo i (s k).
Proof. exact tv_grad_perm_clusters. Qed.
Theorem C13_hellinger_perm_clusters : forall eps n K Y s, perm_on K s -> forall ovo,
  he_score Rops eps n K (fun i k => Y i (s k)) ovo = he_score Rops eps n K Y ovo.
Proof. exact he_perm_clusters. Qed.
Theorem C13_hellinger_grad_perm_clusters : forall eps n K Y s, perm_on K s -> forall ovo i k,
  he_grad Rops eps n K (fun i k => Y i (s k)) ovo i k = he_grad Rops eps n K Y ovo i (s k).
Proof. exact he_grad_perm_clusters. Qed.
Theorem C13_chi2_perm_clusters : forall eps n K Y s, perm_on K s -> forall ovo,
  chi_score Rops eps n K (fun i k => Y i (s k)) ovo = chi_score Rops eps n K Y ovo.
Proof. exact chi_perm_clusters. Qed.
Theorem C13_chi2_grad_perm_clusters : forall eps n K Y s, perm_on K s -> forall ovo i k,
  chi_grad Rops eps n K (fun i0 k0 => Y i0 (s k0)) ovo i k = chi_grad Rops eps n K Y ovo i (s k).
Proof. exact chi_grad_perm_clusters. Qed.
Theorem C13_mmd_perm_clusters : forall eps n K P A ovo s, perm_on K s ->
  mmd_score Rops eps n K (fun i k => P i (s k)) A ovo = mmd_score Rops eps n K P A ovo.
Proof. exact mmd_perm_clusters. Qed.

(* ---- bounds ---- *)
Theorem C13_tv_nonneg : forall eps n K P ovo, 0 <= tv_score Rops eps n K P ovo.
Proof. exact tv_nonneg. Qed.
Theorem C13_tv_le_1 : forall eps n K P ovo, 0 <= eps -> (0 < n)%nat -> interior eps n K P -> row_stochastic n K P ->
  tv_score Rops eps n K P ovo <= 1.
Proof. exact tv_le_1. Qed.
Theorem C13_hellinger_nonneg : forall eps n K P ovo, 0 <= eps -> (0 < n)%nat -> interior eps n K P -> row_stochastic n K P ->
  0 <= he_score Rops eps n K P ovo.
Proof. exact he_nonneg. Qed.
Theorem C13_hellinger_le_1 : forall eps n K Y ovo, he_score Rops eps n K Y ovo <= 1.
Proof. exact he_le_1. Qed.
Theorem C13_chi2_ge_half : forall eps n K P ovo, 0 <= eps -> (0 < n)%nat -> interior eps n K P -> row_stochastic n K P ->
  1 / 2 <= chi_score Rops eps n K P ovo.
Proof. exact chi_ge_half. Qed.
Theorem C13_mmd_nonneg : forall eps n K Y A ovo, 0 <= eps <= 1 -> 0 <= mmd_score Rops eps n K Y A ovo.
Proof. exact mmd_nonneg_clipped. Qed.

(* ---- scores vanish when the predictions do not depend on the sample (chi-square: the offset 1/2) ---- *)
Theorem C13_tv_independent_zero : forall eps n K P ovo, (0 < n)%nat -> rows_equal n K P -> tv_score Rops eps n K P ovo = 0.
Proof. exact tv_independent_zero. Qed.
Theorem C13_hellinger_independent_zero : forall eps n K P ovo, 0 <= eps -> (0 < n)%nat -> interior eps n K P -> row_stochastic n K P ->
  (forall i j k, (i < n)%nat -> (j < n)%nat -> (k < K)%nat -> P i k = P j k) -> he_score Rops eps n K P ovo = 0.
Proof. exact he_independent_zero. Qed.
Theorem C13_chi2_independent_half : forall eps n K P ovo, 0 <= eps -> (0 < n)%nat -> interior eps n K P -> row_stochastic n K P ->
  (forall i j k, (i < n)%nat -> (j < n)%nat -> (k < K)%nat -> P i k = P j k) -> chi_score Rops eps n K P ovo = 1 / 2.
Proof. exact chi_independent_half. Qed.
Theorem C13_mmd_independent_zero : forall eps n K P A ovo, 0 <= eps -> (0 < n)%nat -> interior eps n K P ->
  (forall i j k, (i < n)%nat -> (j < n)%nat -> (k < K)%nat -> P i k = P j k) -> mmd_score Rops eps n K P A ovo = 0.
Proof. exact mmd_independent_zero. Qed.

(* ---- Wasserstein, relative to the transport oracle ---- *)
Theorem C13_wasserstein_nonneg : forall n K (W emd_cost : (nat -> R) -> (nat -> R) -> R),
  (forall a b, wvec n a -> wvec n b -> emd_cost a b = W a b) ->
  forall eps P, 0 <= eps -> (0 < n)%nat -> interior eps n K P -> forall ovo, W_nonneg n W -> 0 <= ws_eval n K emd_cost eps P ovo.
Proof. exact ws_nonneg. Qed.
Theorem C13_wasserstein_independent_zero : forall n K (W emd_cost : (nat -> R) -> (nat -> R) -> R),
  (forall a b, wvec n a -> wvec n b -> emd_cost a b = W a b) ->
  forall eps P, 0 <= eps -> (0 < n)%nat -> interior eps n K P -> forall ovo, W_refl0 n W -> W_local n W ->
  (forall i k, (i < n)%nat -> (k < K)%nat -> P i k = P 0%nat k) -> ws_eval n K emd_cost eps P ovo = 0.
Proof. exact ws_independent_zero. Qed.
Theorem C13_wasserstein_perm_clusters : forall n K (W emd_cost : (nat -> R) -> (nat -> R) -> R),
  (forall a b, wvec n a -> wvec n b -> emd_cost a b = W a b) ->
  forall eps P, 0 <= eps -> (0 < n)%nat -> interior eps n K P -> forall ovo s, perm_on K s -> (ovo = true -> W_sym n W) ->
  ws_eval n K emd_cost eps (fun i k => P i (s k)) ovo = ws_eval n K emd_cost eps P ovo.
Proof. exact ws_perm_clusters. Qed.

(* ---- KL / mutual information ---- *)
Theorem C13_kl_perm_samples : forall eps n K Y ovo s, perm_on n s ->
  kl_score Rops eps n K (fun i k => Y (s i) k) ovo = kl_score Rops eps n K Y ovo.
Proof. exact kl_perm_samples. Qed.
Theorem C13_kl_perm_clusters : forall eps n K Y ovo s, perm_on K s ->
  kl_score Rops eps n K (fun i k => Y i (s k)) ovo = kl_score Rops eps n K Y ovo.
Proof. exact kl_perm_clusters. Qed.
Theorem C13_kl_grad_perm_samples : forall eps n Y ovo s i k, perm_on n s ->
  kl_grad Rops eps n (fun i k => Y (s i) k) ovo i k = kl_grad Rops eps n Y ovo (s i) k.
Proof. exact kl_grad_perm_samples. Qed.
Theorem C13_kl_grad_perm_clusters : forall eps n K Y ovo s i k, perm_on K s ->
  kl_grad Rops eps n (fun i k => Y i (s k)) ovo i k = kl_grad Rops eps n Y ovo i (s k).
Proof. exact kl_grad_perm_clusters. Qed.
Theorem C13_kl_nonneg : forall eps n K Y ovo, 0 <= eps -> (0 < n)%nat -> interior eps n K Y -> row_stochastic n K Y ->
  0 <= kl_score Rops eps n K Y ovo.
Proof. exact kl_nonneg. Qed.
Theorem C13_kl_independent_zero : forall eps n K Y ovo, (0 < n)%nat -> rows_equal n K Y -> kl_score Rops eps n K Y ovo = 0.
Proof. exact kl_independent_zero. Qed.
(* the mutual information of a balanced hard K-partition is log K (unclipped evaluation; the code evaluates the
   clipped matrix, within K*eps*|ln eps| of it: that gap is measured by the harness, not proved) *)
Theorem C13_mi_balanced_hard_is_lnK : forall n K m assign p, (0 < m)%nat -> (0 < K)%nat -> n = (m * K)%nat ->
  (forall i k, (i < n)%nat -> (k < K)%nat -> p i k = if Nat.eqb (assign i) k then 1 else 0) ->
  (forall k, (k < K)%nat -> rsum n (fun i => p i k) = INR m) ->
  klc n K p = ln (INR K).
Proof. exact mi_balanced_hard_is_lnK. Qed.

(* ---- an empty cluster: zero gradient (exactly, all objectives) and unchanged score ---- *)
Theorem C13_kl_empty_cluster_neutral : forall eps n K (Y Y' : mat) ovo, (0 < n)%nat ->
  (forall i k, (i < n)%nat -> (k < K)%nat -> Y' i k = Y i k) -> (forall i, (i < n)%nat -> Y' i K <= eps) ->
  kl_score Rops eps n (S K) Y' ovo = kl_score Rops eps n K Y ovo.
Proof. exact kl_empty_cluster_neutral. Qed.
Theorem C13_tv_ova_empty_cluster_neutral : forall eps n K (Y Y' : mat), (0 < n)%nat ->
  (forall i k, (i < n)%nat -> (k < K)%nat -> Y' i k = Y i k) -> (forall i, (i < n)%nat -> Y' i K <= eps) ->
  tv_score Rops eps n (S K) Y' false = tv_score Rops eps n K Y false.
Proof. exact tv_ova_empty_cluster_neutral. Qed.
(* TV one-vs-one, Hellinger, chi-square: the clipped empty column contributes terms of order eps — only
   approximately neutral; decided by the harness (partial). *)
Theorem C13_empty_cluster_mask : forall eps (Y : mat) i k, Y i k <= eps -> mask Rops eps Y i k = false.
Proof. exact mask_false_of_le. Qed.
Theorem C13_kl_grad_clipped_zero : forall eps n Y ovo i k, mask Rops eps Y i k = false -> kl_grad Rops eps n Y ovo i k = 0.
Proof. exact kl_grad_clipped_zero. Qed.
Theorem C13_tv_grad_clipped_zero : forall eps n K Y ovo i k, mask Rops eps Y i k = false -> tv_grad Rops eps n K Y ovo i k = 0.
Proof. exact tv_grad_clipped_zero. Qed.
Theorem C13_hellinger_grad_clipped_zero : forall eps n K Y ovo i k, mask Rops eps Y i k = false -> he_grad Rops eps n K Y ovo i k = 0.
Proof. exact he_grad_clipped_zero. Qed.
Theorem C13_chi2_grad_clipped_zero : forall eps n K Y ovo i k, mask Rops eps Y i k = false -> chi_grad Rops eps n K Y ovo i k = 0.
Proof. exact chi_grad_clipped_zero. Qed.
Theorem C13_mmd_grad_clipped_zero : forall eps n K Y A ovo i k, mask Rops eps Y i k = false -> mmd_grad Rops eps n K Y A ovo i k = 0.
Proof. exact mmd_grad_clipped_zero. Qed.
Theorem C13_wasserstein_grad_clipped_zero : forall eps n K Y emd_ova u_ova emd_ovo u_ovo v_ovo ovo i k,
  mask Rops eps Y i k = false -> ws_grad Rops eps n K Y emd_ova u_ova emd_ovo u_ovo v_ovo ovo i k = 0.
Proof. exact ws_grad_clipped_zero. Qed.

(* non-vacuity: a non-identity permutation of two samples *)
Example C13_nonvacuous : perm_on 2 (fun i => 1 - i)%nat.
Proof. split; intros; lia. Qed.

Print Assumptions C13_tv_perm_samples.
Print Assumptions C13_tv_grad_perm_samples.
Print Assumptions C13_hellinger_perm_samples.
Print Assumptions C13_hellinger_grad_perm_samples.
Print Assumptions C13_chi2_perm_samples.
Print Assumptions C13_chi2_grad_perm_samples.
Print Assumptions C13_mmd_perm_samples.
Print Assumptions C13_tv_perm_clusters.
Print Assumptions C13_tv_grad_perm_clusters.
Print Assumptions C13_hellinger_perm_clusters.
Print Assumptions C13_hellinger_grad_perm_clusters.
Print Assumptions C13_chi2_perm_clusters.
Print Assumptions C13_chi2_grad_perm_clusters.
Print Assumptions C13_mmd_perm_clusters.
Print Assumptions C13_tv_nonneg.
Print Assumptions C13_tv_le_1.
Print Assumptions C13_hellinger_nonneg.
Print Assumptions C13_hellinger_le_1.
Print Assumptions C13_chi2_ge_half.
Print Assumptions C13_mmd_nonneg.
Print Assumptions C13_tv_independent_zero.
Print Assumptions C13_hellinger_independent_zero.
Print Assumptions C13_chi2_independent_half.
Print Assumptions C13_mmd_independent_zero.
Print Assumptions C13_wasserstein_nonneg.
Print Assumptions C13_wasserstein_independent_zero.
Print Assumptions C13_wasserstein_perm_clusters.
Print Assumptions C13_kl_perm_samples.
Print Assumptions C13_kl_perm_clusters.
Print Assumptions C13_kl_grad_perm_samples.
Print Assumptions C13_kl_grad_perm_clusters.
Print Assumptions C13_kl_nonneg.
Print Assumptions C13_kl_independent_zero.
Print Assumptions C13_mi_balanced_hard_is_lnK.
Print Assumptions C13_kl_empty_cluster_neutral.
Print Assumptions C13_tv_ova_empty_cluster_neutral.
Print Assumptions C13_empty_cluster_mask.
Print Assumptions C13_kl_grad_clipped_zero.
Print Assumptions C13_tv_grad_clipped_zero.
Print Assumptions C13_hellinger_grad_clipped_zero.
Print Assumptions C13_chi2_grad_clipped_zero.
Print Assumptions C13_mmd_grad_clipped_zero.
Print Assumptions C13_wasserstein_grad_clipped_zero.
