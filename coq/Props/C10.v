(* C10 — Mini-batches partition the data and stay aligned with the affinity matrix.
   Statements only; every proof is [exact <lemma of Proofs/Batch*.v>].
   The theorems are about the CODE model (Model/Batch.v: start index j, Python slice [lo, hi), step, loop guard,
   None default, which index array selects rows / affinity rows / affinity columns, which arrays a training step
   reads, the weighting of the validation score) instantiated with the rules REGENERATED from the Python AST
   (Gen/BatchRules.v: batch_rules, fit_rules, path_step_rules, deco_rules, val_rules).
   P m stands for numpy's random_state.permutation(m); a code-model result None means "out of fuel". *)
From Coq Require Import List Arith ZArith Reals.
From GV Require Import Common.Num Common.NumR Model.Batch Gen.BatchRules Proofs.Batch Proofs.BatchVal Proofs.BatchGen.
Import ListNotations.

(* the regenerated holes are the documented ones (hand-written copy in Proofs/BatchGen.v): drift is visible here *)
Theorem C10_regenerated_rules_are_documented :
  batch_rules = documented_batch_rules /\ fit_rules = documented_fit_rules /\
  path_step_rules = documented_step_rules /\ deco_rules = documented_deco_rules /\
  (forall (T : Type) (o : NumOps T), val_rules o = documented_val_rules o).
Proof. exact regenerated_rules_are_documented. Qed.

(* the index arithmetic of _batchify yields exactly the consecutive chunks of the permutation, each delivered as
   (rows of X, (rows, columns) of the affinity) = (b, (b, b)) *)
Theorem C10_batchify_is_chunks : forall n bs P, 1 <= eff_bs n bs -> length (P (Z.of_nat n)) = n ->
  code_batchify batch_rules n bs P = Some (map (fun b => (b, (b, b))) (batches (eff_bs n bs) (P (Z.of_nat n)))).
Proof. exact gen_batchify_is_batches. Qed.

(* disjoint, cover each sample exactly once, at most batch_size rows, ceil(n/bs) batches; the loop terminates *)
Theorem C10_partition : forall n bs P, 1 <= eff_bs n bs -> is_perm_of_range n (P (Z.of_nat n)) ->
  exists Y, code_batchify batch_rules n bs P = Some Y /\
    let Bs := map fst Y in
    concat Bs = P (Z.of_nat n) /\
    Forall (fun b => 1 <= length b <= eff_bs n bs) Bs /\
    length Bs = (n + eff_bs n bs - 1) / eff_bs n bs /\
    (forall i, i < n -> exists! j, j < length Bs /\ In i (nth j Bs [])).
Proof. exact gen_partition. Qed.

(* every batch but the last holds exactly batch_size rows *)
Theorem C10_full_batches : forall n bs P Y j, 1 <= eff_bs n bs -> length (P (Z.of_nat n)) = n ->
  code_batchify batch_rules n bs P = Some Y -> S j < length Y ->
  length (fst (nth j Y ([], ([], [])))) = eff_bs n bs.
Proof. exact gen_full_batches. Qed.

(* the affinity block delivered with batch j is exactly the rows and columns of the full affinity that belong to
   the batch's samples, in the same order as the data rows of the batch: element a of the batch is element
   j*bs+a of the permutation for data rows, affinity rows and affinity columns alike *)
Theorem C10_alignment : forall (T : Type) (A : nat -> nat -> T) (X : nat -> T) (d : T) n bs P Y j a b,
  1 <= eff_bs n bs -> length (P (Z.of_nat n)) = n -> code_batchify batch_rules n bs P = Some Y -> j < length Y ->
  let y := nth j Y ([], ([], [])) in
  let perm := P (Z.of_nat n) in
  a < length (fst y) -> b < length (fst y) ->
  length (fst (snd y)) = length (fst y) /\ length (snd (snd y)) = length (fst y) /\
  nth a (rows X (fst y)) d = X (nth (j * eff_bs n bs + a) perm 0) /\
  block2 A (fst (snd y)) (snd (snd y)) a b
    = A (nth (j * eff_bs n bs + a) perm 0) (nth (j * eff_bs n bs + b) perm 0).
Proof. exact gen_alignment. Qed.

(* fit performs max_iter * ceil(n / batch_size) optimiser steps; step k of epoch e runs _infer, the GEMINI and
   _compute_grads on the rows / affinity block of the k-th chunk of that epoch's permutation *)
Theorem C10_steps : forall max_iter n bs (P : nat -> Z -> list nat), 1 <= eff_bs n bs ->
  (forall e, e < max_iter -> is_perm_of_range n (P e (Z.of_nat n))) ->
  exists tr, code_fit_trace batch_rules fit_rules max_iter n bs P = Some tr /\
    length tr = max_iter * ((n + eff_bs n bs - 1) / eff_bs n bs) /\
    tr = concat (map (fun e => map (fun b => (b, ((b, b), b))) (batches (eff_bs n bs) (P e (Z.of_nat n))))
                     (seq 0 max_iter)).
Proof. exact gen_steps. Qed.

(* fit reports n_iter_ = max_iter *)
Theorem C10_n_iter : forall max_iter : Z, code_n_iter fit_rules max_iter = max_iter.
Proof. exact gen_n_iter. Qed.

(* every epoch of the training loop of path() makes the same steps on the same chunks *)
Theorem C10_path_epoch : forall n bs P, 1 <= eff_bs n bs -> length (P (Z.of_nat n)) = n ->
  code_path_epoch batch_rules path_step_rules n bs P
  = Some (map (fun b => (b, ((b, b), b))) (batches (eff_bs n bs) (P (Z.of_nat n)))).
Proof. exact gen_path_epoch. Qed.

(* constraint decoration: the recorded indices are the true sample indices of the rows it yields, which are the
   chunks of the permutation, and the affinity block it passes on belongs to the same samples *)
Theorem C10_decorated_indices : forall n bs P, 1 <= eff_bs n bs -> is_perm_of_range n (P (Z.of_nat n)) ->
  exists Y, code_decorated batch_rules deco_rules n bs P = Some Y /\
    map (fun p => fst (snd p)) Y = batches (eff_bs n bs) (P (Z.of_nat n)) /\
    Forall (fun p => fst p = fst (snd p) /\ fst (snd (snd p)) = fst p /\ snd (snd (snd p)) = fst p) Y.
Proof. exact gen_decorated_indices. Qed.

(* while step k of an epoch of fit runs on a decorated model, the indices the decorated _compute_grads reads from
   `_batchify.indices` are the true indices of the rows of that step's X_batch (fit advances the generator one
   batch per step; exhausting it first would leave the last batch's indices there) *)
Theorem C10_decorated_indices_fresh : forall n bs P, 1 <= eff_bs n bs -> is_perm_of_range n (P (Z.of_nat n)) ->
  code_decorated_visible batch_rules deco_rules fit_rules n bs P
  = Some (map (fun b => (b, b)) (batches (eff_bs n bs) (P (Z.of_nat n)))).
Proof. exact gen_decorated_visible. Qed.

(* nonparametric models always see the full data, once (CategoricalModel._batchify is matched literally by the
   translator; there is no hole to regenerate) *)
Theorem C10_categorical_full : forall n, concat (cat_epoch n) = seq 0 n /\ length (cat_epoch n) = 1.
Proof. exact cat_epoch_full. Qed.

(* the sequential validation blocks of path(): X[j:j+bs] with y[j:j+bs][:, j:j+bs], covering every sample once *)
Theorem C10_val_blocks : forall (T : Type) (o : NumOps T) n bs, 1 <= bs ->
  code_val_blocks (val_rules o) n (Z.of_nat bs) = Some (map (fun b => (b, (b, b))) (val_blocks n bs)) /\
  concat (val_blocks n bs) = seq 0 n /\ length (val_blocks n bs) = (n + bs - 1) / bs.
Proof.
  intros T o n bs Hbs. split; [exact (gen_val_blocks T o n bs Hbs)|].
  destruct (batches_partition n bs (seq 0 n) Hbs (seq_is_perm n)) as (H1 & _ & H3 & _). exact (conj H1 H3).
Qed.

(* the validation score is the len-weighted mean of the block scores: sum_b score_b * |b| / n ... *)
Theorem C10_val_score_weighted_mean : forall n bs (g : list nat -> list nat -> list nat -> R), 1 <= bs ->
  code_val_score (val_rules Rops) n (Z.of_nat bs) g
  = Some (fold_right Rplus 0%R (map (fun b => (g b b b * INR (length b))%R) (val_blocks n bs)) / INR n)%R.
Proof. exact gen_val_score. Qed.

(* ... as path() calls it (batch_size None means one block of n rows) ... *)
Theorem C10_path_val_score : forall n bs (g : list nat -> list nat -> list nat -> R), 1 <= eff_bs n bs ->
  code_path_val_score (val_rules Rops) n bs g = Some (weighted_mean n (eff_bs n bs) g).
Proof. exact gen_path_val_score. Qed.

(* ... whose weights |b| / n sum to one: it lies between the smallest and the largest block score, and equal
   block scores give that score whatever the block sizes *)
Theorem C10_val_score_is_a_mean : forall n bs g lo hi, 1 <= bs -> 1 <= n ->
  fold_right Rplus 0%R (map (fun b => INR (length b)) (val_blocks n bs)) = INR n /\
  ((forall b, In b (val_blocks n bs) -> (lo <= g b b b <= hi)%R) -> (lo <= weighted_mean n bs g <= hi)%R).
Proof. intros n bs g lo hi Hbs Hn. split; [exact (val_weights_sum n bs Hbs) | exact (weighted_mean_bounds n bs g lo hi Hbs Hn)]. Qed.

(* non-vacuity: the hypotheses are met by a concrete non-trivial state, and the code model computes on it *)
Example C10_nonvacuous :
  is_perm_of_range 5 [3; 0; 4; 1; 2] /\ batches 2 [3; 0; 4; 1; 2] = [[3; 0]; [4; 1]; [2]] /\
  code_batchify batch_rules 5 (Some 2) (fun _ => [3; 0; 4; 1; 2])
  = Some [([3; 0], ([3; 0], [3; 0])); ([4; 1], ([4; 1], [4; 1])); ([2], ([2], [2]))] /\
  code_val_blocks (val_rules Rops) 5 2 = Some [([0; 1], ([0; 1], [0; 1])); ([2; 3], ([2; 3], [2; 3])); ([4], ([4], [4]))].
Proof.
  split; [|split; [reflexivity|split; vm_compute; reflexivity]].
  repeat split; [repeat constructor; simpl; intuition discriminate | repeat constructor].
Qed.

Print Assumptions C10_regenerated_rules_are_documented.
Print Assumptions C10_batchify_is_chunks.
Print Assumptions C10_partition.
Print Assumptions C10_full_batches.
Print Assumptions C10_alignment.
Print Assumptions C10_steps.
Print Assumptions C10_n_iter.
Print Assumptions C10_path_epoch.
Print Assumptions C10_decorated_indices.
Print Assumptions C10_decorated_indices_fresh.
Print Assumptions C10_categorical_full.
Print Assumptions C10_val_blocks.
Print Assumptions C10_val_score_weighted_mean.
Print Assumptions C10_path_val_score.
Print Assumptions C10_val_score_is_a_mean.
