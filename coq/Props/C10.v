(* C10 — Mini-batches partition the data and stay aligned with the affinity matrix.
   Statements only; every proof is [exact <lemma of Proofs/Batch.v>]. *)
From Coq Require Import List Arith.
From GV Require Import Model.Batch Proofs.Batch.
Import ListNotations.

(* disjoint, cover each sample exactly once, at most batch_size rows, ceil(n/bs) batches *)
Theorem C10_partition : forall n bs perm, 1 <= bs -> is_perm_of_range n perm ->
  concat (batches bs perm) = perm /\
  Forall (fun b => 1 <= length b <= bs) (batches bs perm) /\
  length (batches bs perm) = (n + bs - 1) / bs /\
  (forall i, i < n -> exists! j, j < length (batches bs perm) /\ In i (nth j (batches bs perm) [])).
Proof. exact batches_partition. Qed.

(* every batch but the last holds exactly batch_size rows *)
Theorem C10_full_batches : forall bs perm j, 1 <= bs -> S j < length (batches bs perm) ->
  length (nth j (batches bs perm) []) = bs.
Proof. exact batches_all_but_last_full. Qed.

(* the affinity block delivered with batch j is exactly the rows and columns of the full affinity
   that belong to the batch's samples, in the same order as the data rows of the batch *)
Theorem C10_block_alignment : forall (T : Type) (A : nat -> nat -> T) bs perm j a b, 1 <= bs ->
  let B := nth j (batches bs perm) [] in
  j < length (batches bs perm) -> a < length B -> b < length B ->
  block A B a b = A (nth (j * bs + a) perm 0) (nth (j * bs + b) perm 0).
Proof. exact @block_alignment. Qed.

Theorem C10_rows_alignment : forall (T : Type) (X : nat -> T) (d : T) bs perm j a, 1 <= bs ->
  let B := nth j (batches bs perm) [] in
  j < length (batches bs perm) -> a < length B ->
  nth a (rows X B) d = X (nth (j * bs + a) perm 0).
Proof. exact @rows_alignment. Qed.

(* fit performs max_iter * ceil(n / batch_size) optimiser steps *)
Theorem C10_steps : forall max_iter n bs perms, 1 <= eff_bs n bs ->
  (forall e, e < max_iter -> is_perm_of_range n (perms e)) ->
  fit_steps max_iter n bs perms = max_iter * ((n + eff_bs n bs - 1) / eff_bs n bs).
Proof. exact fit_steps_count. Qed.

(* constraint decoration records the true sample indices of each batch *)
Theorem C10_decorated_indices : forall n bs perm, is_perm_of_range n perm ->
  Forall (fun p => fst p = snd p) (decorated_epoch n bs perm).
Proof. exact decorated_indices_true. Qed.

(* nonparametric models always see the full data, once *)
Theorem C10_categorical_full : forall n, concat (cat_epoch n) = seq 0 n /\ length (cat_epoch n) = 1.
Proof. exact cat_epoch_full. Qed.

(* the sequential validation blocks of path() cover every sample exactly once as well *)
Theorem C10_val_blocks : forall n bs, 1 <= bs ->
  concat (val_blocks n bs) = seq 0 n /\ length (val_blocks n bs) = (n + bs - 1) / bs.
Proof.
  intros n bs Hbs. destruct (batches_partition n bs (seq 0 n) Hbs (seq_is_perm n)) as (H1 & _ & H3 & _).
  exact (conj H1 H3).
Qed.

(* non-vacuity: the hypotheses are met by a concrete non-trivial state *)
Example C10_nonvacuous : is_perm_of_range 5 [3; 0; 4; 1; 2] /\ batches 2 [3; 0; 4; 1; 2] = [[3; 0]; [4; 1]; [2]].
Proof. split; [|reflexivity]. repeat split; [repeat constructor; simpl; intuition discriminate | repeat constructor]. Qed.

Print Assumptions C10_partition.
Print Assumptions C10_full_batches.
Print Assumptions C10_block_alignment.
Print Assumptions C10_rows_alignment.
Print Assumptions C10_steps.
Print Assumptions C10_decorated_indices.
Print Assumptions C10_categorical_full.
Print Assumptions C10_val_blocks.
