(* C02 on the REGENERATED f-divergence definitions (see Props/C01gen.v). *)
From Coq Require Import Reals.
From Coquelicot Require Import Coquelicot.
From GV Require Import Common.Num Common.NumR Model.Gemini Proofs.RSumLib Proofs.GeminiDefs Proofs.GeminiTV Gen.FDiv Proofs.FDivGen.
Open Scope R_scope.
Theorem C02_kl_gen_grad_is_derivative : forall eps n K P D ovo, 0 <= eps -> (0 < n)%nat -> interior eps n K P ->
  is_derive (fun t : R => gen_kl_score Rops eps n K (pert P D t) ovo) 0 (inner n K (gen_kl_grad Rops eps n K P ovo) D).
Proof. exact gen_kl_grad_is_derivative. Qed.
Theorem C02_tv_gen_grad_is_derivative : forall eps n K P D ovo, 0 <= eps -> (0 < n)%nat -> interior eps n K P ->
  tv_regular n K P ovo ->
  is_derive (fun t : R => gen_tv_score Rops eps n K (pert P D t) ovo) 0 (inner n K (gen_tv_grad Rops eps n K P ovo) D).
Proof. exact gen_tv_grad_is_derivative. Qed.
Theorem C02_hellinger_gen_grad_is_derivative : forall eps n K P D ovo, 0 <= eps -> (0 < n)%nat -> interior eps n K P ->
  is_derive (fun t : R => gen_he_score Rops eps n K (pert P D t) ovo) 0 (inner n K (gen_he_grad Rops eps n K P ovo) D).
Proof. exact gen_he_grad_is_derivative. Qed.
Theorem C02_chi2_gen_grad_is_derivative : forall eps n K P D ovo, 0 <= eps -> (0 < n)%nat -> interior eps n K P ->
  is_derive (fun t : R => gen_chi_score Rops eps n K (pert P D t) ovo) 0 (inner n K (gen_chi_grad Rops eps n K P ovo) D).
Proof. exact gen_chi_grad_is_derivative. Qed.
(* the score returned together with the gradient is the score returned alone (regenerated terms, every number system) *)
Theorem C02_gen_score_same_with_grad : forall T (o : NumOps T) eps n K Y ovo,
  gen_kl_gscore o eps n K Y ovo = gen_kl_score o eps n K Y ovo /\ gen_tv_gscore o eps n K Y ovo = gen_tv_score o eps n K Y ovo /\
  gen_he_gscore o eps n K Y ovo = gen_he_score o eps n K Y ovo /\ gen_chi_gscore o eps n K Y ovo = gen_chi_score o eps n K Y ovo.
Proof. exact gen_gscore_eq_score_all. Qed.
Print Assumptions C02_kl_gen_grad_is_derivative.
Print Assumptions C02_tv_gen_grad_is_derivative.
Print Assumptions C02_hellinger_gen_grad_is_derivative.
Print Assumptions C02_chi2_gen_grad_is_derivative.
Print Assumptions C02_gen_score_same_with_grad.
