(* C05 — Proximal operators return the exact minimiser of their penalised problem.
   Statements only; every proof is [exact <lemma of Proofs/Prox.v>].  The model (Model/Prox.v) is the
   Rops instance of the generic definitions that the correspondence runs on floats.
   Definitions used below (Proofs/Prox.v):
     rsum l = sum of l, sqnorm l = sum of squares, rnorm l = sqrt (sqnorm l), lsub a b = a - b entrywise,
     J_lasso alpha w z       = /2 * sqnorm (lsub z w) + alpha * rnorm z
     J_hier alpha v u b t    = /2 * sqnorm (lsub b v) + /2 * sqnorm (lsub t u) + alpha * rnorm b
     feasible M beta theta   = Forall (fun t => Rabs t <= M * rnorm beta) theta
     hclip w t               = sign(t) * min(|t|, w)        (sign(0) = +1 as in np.where(u >= 0, 1, -1))
     groups_wf d groups      = NoDup (concat groups) /\ every index < d   (what check_groups guarantees)
   Guarded-out case of the hierarchical operator: a zero skip row (rnorm v = 0).  Coq's x/0 = 0 is not
   IEEE's; the in-scope sub-case (u = 0, alpha > 0: alpha/0 = +inf, x = 0, output 0) is decided by the float
   instance in the correspondence and by the oracle (harness/c05.py, stream zero_skip), not by a theorem. *)
From Coq Require Import Reals List Lra.
From GV Require Import Common.Num Common.NumR Model.Prox Proofs.Prox.
Import ListNotations.
Open Scope R_scope.

(* group lasso, one row (or one flattened group): strong-convexity gap, hence unique minimiser *)
Theorem C05_group_lasso_optimal_unique : forall w z alpha, 0 <= alpha -> length z = length w ->
  J_lasso alpha w z - J_lasso alpha w (linear_prox_row Rops w alpha)
    >= / 2 * sqnorm (lsub z (linear_prox_row Rops w alpha)).
Proof. exact group_lasso_optimal_unique. Qed.

Theorem C05_group_lasso_minimiser_unique : forall w z alpha, 0 <= alpha -> length z = length w ->
  J_lasso alpha w z <= J_lasso alpha w (linear_prox_row Rops w alpha) -> z = linear_prox_row Rops w alpha.
Proof. exact group_lasso_minimiser_unique. Qed.

(* rows of norm <= alpha become exactly zero (zero rows included: the code's `den` guard), the others are
   shrunk radially by alpha *)
Theorem C05_group_lasso_closed_form : forall w alpha,
  (rnorm w <= alpha -> linear_prox_row Rops w alpha = repeat 0 (length w)) /\
  (alpha < rnorm w -> linear_prox_row Rops w alpha = map (fun x => (1 - alpha / rnorm w) * x) w).
Proof. exact group_lasso_closed_form. Qed.

(* LassoNet HIER-PROX, one skip/hidden row pair (Appendix A of DESIGN.md, verbatim) *)
Theorem C05_hier_prox_feasible_optimal : forall v u alpha M,
  0 <= alpha -> 0 <= M -> 0 < rnorm v ->
  let '(bs, ts) := hier_prox_row Rops v u alpha M in
  feasible M bs ts /\
  forall beta theta, length beta = length v -> length theta = length u -> feasible M beta theta ->
    J_hier alpha v u bs ts <= J_hier alpha v u beta theta.
Proof. exact hier_prox_feasible_optimal. Qed.

(* the matrix operators act row by row *)
Theorem C05_matrix_rows_linear : forall W alpha j,
  nth j (linear_prox Rops W alpha) [] = linear_prox_row Rops (nth j W []) alpha.
Proof. exact linear_prox_rows. Qed.
Theorem C05_matrix_rows_mlp : forall V U alpha M j, length V = length U -> (j < length V)%nat ->
  (nth j (fst (mlp_prox Rops V U alpha M)) [], nth j (snd (mlp_prox Rops V U alpha M)) [])
  = hier_prox_row Rops (nth j V []) (nth j U []) alpha M.
Proof. exact mlp_prox_rows. Qed.

(* group wrappers: no IndexError; the rows written for a group g are, in the order of g, the h-chunks of the
   row operator applied to the concatenation of the group's rows; chunking loses nothing (flatten o unflatten
   = id on the operator's output); all rows of the group share one shrink factor; rows outside every group are
   never written (np.empty) *)
Theorem C05_group_is_row_on_flattened : forall groups W alpha h,
  Forall (fun r => length r = h) W -> groups_wf (length W) groups ->
  exists R, group_linear_prox Rops groups W alpha = Some R /\ length R = length W /\
    (forall g, In g groups ->
       let star := linear_prox_row Rops (flatten (gather W g)) alpha in
       map (fun i => nth i R None) g = map Some (unflatten (length g) h star) /\
       flatten (unflatten (length g) h star) = star /\
       exists c, forall i, In i g -> nth i R None = Some (map (Rmult c) (nth i W []))) /\
    (forall i, ~ In i (concat groups) -> nth i R None = None).
Proof. exact group_linear_spec. Qed.

Theorem C05_group_mlp_is_row_on_flattened : forall groups V U alpha M hv hu, length V = length U ->
  Forall (fun r => length r = hv) V -> Forall (fun r => length r = hu) U -> groups_wf (length V) groups ->
  exists RV RU, group_mlp_prox Rops groups V U alpha M = Some (RV, RU) /\
    length RV = length V /\ length RU = length U /\
    (forall g, In g groups ->
       let star := hier_prox_row Rops (flatten (gather V g)) (flatten (gather U g)) alpha M in
       map (fun i => nth i RV None) g = map Some (unflatten (length g) hv (fst star)) /\
       map (fun i => nth i RU None) g = map Some (unflatten (length g) hu (snd star)) /\
       flatten (unflatten (length g) hv (fst star)) = fst star /\
       flatten (unflatten (length g) hu (snd star)) = snd star /\
       exists x w, forall i, In i g ->
         nth i RV None = Some (map (Rmult x) (nth i V [])) /\ nth i RU None = Some (map (hclip w) (nth i U []))) /\
    (forall i, ~ In i (concat groups) -> nth i RV None = None /\ nth i RU None = None).
Proof. exact group_mlp_spec. Qed.

(* non-vacuity: the hypotheses are met by a concrete non-trivial state (non-zero skip row, ties among |u|,
   a partition with a two-feature group given out of order) *)
Example C05_nonvacuous :
  0 <= 1 /\ 0 <= 2 /\ 0 < rnorm [3; 4] /\ length [1; -1; 0] = 3%nat /\
  groups_wf 3 [[2; 0]; [1]]%nat /\ Forall (fun r => length r = 2%nat) [[3; 4]; [0; 0]; [1; -1]].
Proof.
  split; [lra|]. split; [lra|]. split.
  - unfold rnorm, sqnorm, rsum. cbn [map lsum nadd n0 Rops]. apply sqrt_lt_R0. lra.
  - split; [reflexivity|]. split.
    + split; cbn [concat app].
      * repeat constructor; cbn [In]; intuition discriminate.
      * repeat constructor.
    + repeat constructor.
Qed.

Print Assumptions C05_group_lasso_optimal_unique.
Print Assumptions C05_group_lasso_minimiser_unique.
Print Assumptions C05_group_lasso_closed_form.
Print Assumptions C05_hier_prox_feasible_optimal.
Print Assumptions C05_matrix_rows_linear.
Print Assumptions C05_matrix_rows_mlp.
Print Assumptions C05_group_is_row_on_flattened.
Print Assumptions C05_group_mlp_is_row_on_flattened.
