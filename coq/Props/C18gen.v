(* C18 on the REGENERATED forward passes: Gen/Models.v is produced on every build by translator/tr_models.py from
   the numpy source of the `_infer` methods (symbolic, shape-aware, fail-closed), and Proofs/ModelsGen.v proves every
   generated definition convertible to the hand-written Model/Forward.v for every number system.  All statements
   hold for every [o : NumOps T] (reals and binary64 alike), every shape, every parameter value and every index map
   r : nat -> nat (subset, reordering, repetitions, single row).  A generated definition takes exactly what the code
   reads: gen_*_infer has no H_ argument, i.e. the retained state cannot reach an output. *)
From Coq Require Import List Bool Arith.
From GV Require Import Common.Num Model.Forward Model.Rowwise Gen.Models Proofs.Rowwise Proofs.ModelsGen.

(* _infer(X[r]) = _infer(X)[r], entry by entry *)
Theorem C18_linear_gen_rowwise : forall (T : Type) (o : NumOps T) d K (W : nat -> nat -> T) (b : nat -> T) (r : nat -> nat) (X : nat -> nat -> T) i k,
  gen_linear_infer o d K W b (select r X) i k = select r (gen_linear_infer o d K W b X) i k.
Proof. exact @gen_linear_rowwise. Qed.
Theorem C18_mlp_gen_rowwise : forall (T : Type) (o : NumOps T) d h K (W1 : nat -> nat -> T) (b1 : nat -> T) (W2 : nat -> nat -> T) (b2 : nat -> T)
    (r : nat -> nat) (X : nat -> nat -> T) i k,
  gen_mlp_infer o d h K W1 b1 W2 b2 (select r X) i k = select r (gen_mlp_infer o d h K W1 b1 W2 b2 X) i k.
Proof. exact @gen_mlp_rowwise. Qed.
Theorem C18_sparse_mlp_gen_rowwise : forall (T : Type) (o : NumOps T) d h K (W1 : nat -> nat -> T) (b1 : nat -> T) (W2 : nat -> nat -> T) (b2 : nat -> T)
    (Ws : nat -> nat -> T) (r : nat -> nat) (X : nat -> nat -> T) i k,
  gen_sparse_mlp_infer o d h K W1 b1 W2 b2 Ws (select r X) i k = select r (gen_sparse_mlp_infer o d h K W1 b1 W2 b2 Ws X) i k.
Proof. exact @gen_sparse_mlp_rowwise. Qed.

(* stronger form: output row i is a function of input row i (its d entries) and the parameters only *)
Theorem C18_gen_infer_depends_only_on_row : forall (T : Type) (o : NumOps T) d h K (W : nat -> nat -> T) (b : nat -> T)
    (W1 : nat -> nat -> T) (b1 : nat -> T) (W2 : nat -> nat -> T) (b2 : nat -> T) (Ws : nat -> nat -> T) (X X' : nat -> nat -> T) i i',
  (forall j, j < d -> X i j = X' i' j) ->
  forall k, gen_linear_infer o d K W b X i k = gen_linear_infer o d K W b X' i' k /\
            gen_mlp_infer o d h K W1 b1 W2 b2 X i k = gen_mlp_infer o d h K W1 b1 W2 b2 X' i' k /\
            gen_sparse_mlp_infer o d h K W1 b1 W2 b2 Ws X i k = gen_sparse_mlp_infer o d h K W1 b1 W2 b2 Ws X' i' k.
Proof. exact @gen_infer_depends_only_on_row. Qed.

(* `_infer(X, retain)` as a state-passing function (Model/Rowwise.v): the output is the regenerated gen_*_infer
   whatever H_ held; retain=True stores the regenerated gen_*_retained_H; retain=False leaves H_ alone *)
Theorem C18_mlp_gen_retained_state : forall (T : Type) (o : NumOps T) d h K (W1 : nat -> nat -> T) (b1 : nat -> T) (W2 : nat -> nat -> T) (b2 : nat -> T)
    (H_ : option (nat -> nat -> T)) (retain : bool) (X : nat -> nat -> T),
  (forall i k, fst (mlp_infer_st o d h K W1 b1 W2 b2 H_ retain X) i k = gen_mlp_infer o d h K W1 b1 W2 b2 X i k) /\
  (exists Hn, snd (mlp_infer_st o d h K W1 b1 W2 b2 H_ true X) = Some Hn /\
              forall i c, Hn i c = gen_mlp_retained_H o d W1 b1 X i c) /\
  snd (mlp_infer_st o d h K W1 b1 W2 b2 H_ false X) = H_.
Proof. exact @gen_mlp_infer_state. Qed.
Theorem C18_sparse_mlp_gen_retained_state : forall (T : Type) (o : NumOps T) d h K (W1 : nat -> nat -> T) (b1 : nat -> T) (W2 : nat -> nat -> T) (b2 : nat -> T)
    (Ws : nat -> nat -> T) (H_ : option (nat -> nat -> T)) (retain : bool) (X : nat -> nat -> T),
  (forall i k, fst (sparse_mlp_infer_st o d h K W1 b1 W2 b2 Ws H_ retain X) i k = gen_sparse_mlp_infer o d h K W1 b1 W2 b2 Ws X i k) /\
  (exists Hn, snd (sparse_mlp_infer_st o d h K W1 b1 W2 b2 Ws H_ true X) = Some Hn /\
              forall i c, Hn i c = gen_sparse_mlp_retained_H o d W1 b1 X i c) /\
  snd (sparse_mlp_infer_st o d h K W1 b1 W2 b2 Ws H_ false X) = H_.
Proof. exact @gen_sparse_mlp_infer_state. Qed.

(* the regenerated terms ARE the model the correspondence runs (all number systems, floats included) *)
Theorem C18_gen_is_model : forall (T : Type) (o : NumOps T) d h K (W : nat -> nat -> T) (b : nat -> T)
    (W1 : nat -> nat -> T) (b1 : nat -> T) (W2 : nat -> nat -> T) (b2 : nat -> T) (Ws L : nat -> nat -> T) (X : nat -> nat -> T) i k,
  gen_linear_infer o d K W b X i k = linear_infer o d K W b X i k /\
  gen_mlp_infer o d h K W1 b1 W2 b2 X i k = mlp_infer o d h K W1 b1 W2 b2 X i k /\
  gen_sparse_mlp_infer o d h K W1 b1 W2 b2 Ws X i k = sparse_mlp_infer o d h K W1 b1 W2 b2 Ws X i k /\
  gen_categorical_infer o K L i k = categorical_infer o K L i k.
Proof.
  intros. split; [apply gen_linear_infer_eq|]. split; [apply gen_mlp_infer_eq|].
  split; [apply gen_sparse_mlp_infer_eq | apply gen_categorical_infer_eq].
Qed.

Print Assumptions C18_linear_gen_rowwise.
Print Assumptions C18_mlp_gen_rowwise.
Print Assumptions C18_sparse_mlp_gen_rowwise.
Print Assumptions C18_gen_infer_depends_only_on_row.
Print Assumptions C18_mlp_gen_retained_state.
Print Assumptions C18_sparse_mlp_gen_retained_state.
Print Assumptions C18_gen_is_model.
