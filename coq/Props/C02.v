(* C02 — GEMINI gradients are the exact derivative of the returned score.
   For every objective: at every interior point of the (clipped) simplex where the score is
   differentiable, the derivative of the model's score along ANY direction D equals <grad, D>
   (so in particular along every direction that keeps the predictions on the simplex, and through any
   softmax parameterisation, by the chain rule).  No tangent-space hypothesis is needed for the
   f-divergences: the code's gradients are the full partial derivatives.  Statements only. *)
From Coq Require Import Reals Lra Lia.
From Coquelicot Require Import Coquelicot.
From GV Require Import Common.Num Common.NumR Model.Gemini Proofs.RSumLib Proofs.GeminiDefs
  Proofs.GeminiKL Proofs.GeminiTV Proofs.GeminiHellinger Proofs.GeminiChi2 Proofs.GeminiMMD Proofs.GeminiWasserstein Proofs.GeminiKL13.
Open Scope R_scope.

Theorem C02_kl_grad_is_derivative : forall eps n K P D ovo, 0 <= eps -> (0 < n)%nat -> interior eps n K P ->
  is_derive (fun t : R => kl_score Rops eps n K (pert P D t) ovo) 0 (inner n K (kl_grad Rops eps n P ovo) D).
Proof. exact kl_grad_is_derivative. Qed.

(* total variation: piecewise linear; differentiable where no difference vanishes (tv_regular) *)
Theorem C02_tv_grad_is_derivative : forall eps n K P D ovo, 0 <= eps -> (0 < n)%nat -> interior eps n K P ->
  tv_regular n K P ovo ->
  is_derive (fun t : R => tv_score Rops eps n K (pert P D t) ovo) 0 (inner n K (tv_grad Rops eps n K P ovo) D).
Proof. exact tv_grad_is_derivative. Qed.

Theorem C02_hellinger_grad_is_derivative : forall eps n K P D ovo, 0 <= eps -> (0 < n)%nat -> interior eps n K P ->
  is_derive (fun t : R => he_score Rops eps n K (pert P D t) ovo) 0 (inner n K (he_grad Rops eps n K P ovo) D).
Proof. exact he_grad_is_derivative. Qed.

Theorem C02_chi2_grad_is_derivative : forall eps n K P D ovo, 0 <= eps -> (0 < n)%nat -> interior eps n K P ->
  is_derive (fun t : R => chi_score Rops eps n K (pert P D t) ovo) 0 (inner n K (chi_grad Rops eps n K P ovo) D).
Proof. exact chi_grad_is_derivative. Qed.

(* kernel MMD, any symmetric kernel: differentiable where the squared distances are strictly positive
   (zero distances, the OvO diagonal included, are masked by the code and contribute a constant) *)
Theorem C02_mmd_grad_is_derivative : forall eps n K P A D (ovo : bool), 0 <= eps -> (0 < n)%nat -> interior eps n K P -> sym_on n A ->
  (if ovo then forall k k', (k < K)%nat -> (k' < K)%nat -> k <> k' -> 0 < qovo n A P k k'
   else forall k, (k < K)%nat -> 0 < qova n A P k) ->
  is_derive (fun t : R => mmd_score Rops eps n K (pert P D t) A ovo) 0 (inner n K (mmd_grad Rops eps n K P A ovo) D).
Proof. exact mmd_grad_is_derivative. Qed.

(* Wasserstein, relative to the transport oracle (emd_cost, emd_u, emd_v = what ot.emd2 returns for the two
   marginals it is given).  Assumed of the solver, as premises: H_cost (the returned cost is the optimal cost W)
   and the envelope property at each call (W differentiable along mass-preserving perturbations of the marginals
   with the returned dual potentials as derivative; jointly in both marginals for one-vs-one).  Proved: the
   chaining through the conditionals P/(n pi), the centring of the potentials and the W/N term. *)
Theorem C02_wasserstein_grad_is_derivative :
  forall n K (W emd_cost : (nat -> R) -> (nat -> R) -> R) (emd_u emd_v : (nat -> R) -> (nat -> R) -> nat -> R),
  (forall a b, wvec n a -> wvec n b -> emd_cost a b = W a b) ->
  forall eps P, 0 <= eps -> (0 < n)%nat -> interior eps n K P -> forall D ovo,
  envelope_calls n K W emd_u emd_v P ovo ->
  is_derive (fun t : R => ws_eval n K emd_cost eps (pert P D t) ovo) 0
            (inner n K (ws_gradient n K emd_cost emd_u emd_v eps P ovo) D).
Proof. exact ws_grad_is_derivative. Qed.
(* the solver hypotheses are satisfiable (a cost linear in the marginals with constant potentials) *)
Theorem C02_wasserstein_hypotheses_satisfiable : forall n K (c e : nat -> R) P ovo,
  let W0 := fun x y : nat -> R => dot n c x + dot n e y in
  (forall a b, wvec n a -> wvec n b -> W0 a b = W0 a b) /\
  envelope_calls n K W0 (fun _ _ => c) (fun _ _ => e) P ovo.
Proof. exact ws_hypotheses_satisfiable. Qed.

(* entries clipped at the epsilon bounds receive exactly zero gradient (every objective, every input) *)
Theorem C02_clipped_entries_zero : forall eps n K Y A emd_ova u_ova emd_ovo u_ovo v_ovo ovo i k,
  mask Rops eps Y i k = false ->
  kl_grad Rops eps n Y ovo i k = 0 /\ tv_grad Rops eps n K Y ovo i k = 0 /\ he_grad Rops eps n K Y ovo i k = 0 /\
  chi_grad Rops eps n K Y ovo i k = 0 /\ mmd_grad Rops eps n K Y A ovo i k = 0 /\
  ws_grad Rops eps n K Y emd_ova u_ova emd_ovo u_ovo v_ovo ovo i k = 0.
Proof.
  intros eps n K Y A e1 u1 e2 u2 v2 ovo i k H.
  exact (conj (kl_grad_clipped_zero eps n Y ovo i k H) (conj (tv_grad_clipped_zero eps n K Y ovo i k H)
        (conj (he_grad_clipped_zero eps n K Y ovo i k H) (conj (chi_grad_clipped_zero eps n K Y ovo i k H)
        (conj (mmd_grad_clipped_zero eps n K Y A ovo i k H) (ws_grad_clipped_zero eps n K Y e1 u1 e2 u2 v2 ovo i k H)))))).
Qed.
Theorem C02_mask_false_outside : forall eps (Y : mat) i k, (Y i k <= eps \/ 1 - eps <= Y i k) -> mask Rops eps Y i k = false.
Proof. intros eps Y i k [H|H]; [exact (mask_false_of_le eps Y i k H) | exact (mask_false_of_ge eps Y i k H)]. Qed.

(* non-vacuity: the hypotheses are met by a concrete non-uniform matrix *)
Definition ex_P : mat := fun i k => match i, k with O, O => 7/10 | O, _ => 3/10 | _, O => 4/10 | _, _ => 6/10 end.
Example C02_nonvacuous : interior (1/10) 2 2 ex_P /\ row_stochastic 2 2 ex_P /\ tv_regular 2 2 ex_P false /\ tv_regular 2 2 ex_P true.
Proof.
  assert (Hpi : forall k, (k < 2)%nat -> pi0 2 ex_P k = match k with O => 11/20 | _ => 9/20 end).
  { intros k Hk. unfold pi0, rsum. destruct k as [|[|k]]; [| |lia]; simpl; lra. }
  split; [|split; [|split]].
  - intros i k Hi Hk. destruct i as [|[|i]]; [| |lia]; destruct k as [|[|k]]; try lia; simpl; lra.
  - intros i Hi. unfold rsum. destruct i as [|[|i]]; [| |lia]; simpl; lra.
  - intros i k Hi Hk. rewrite (Hpi k Hk). destruct i as [|[|i]]; [| |lia]; destruct k as [|[|k]]; try lia; simpl; lra.
  - intros i k k' Hi Hk Hk' Hne. rewrite (Hpi k Hk), (Hpi k' Hk').
    destruct i as [|[|i]]; [| |lia]; destruct k as [|[|k]]; try lia; destruct k' as [|[|k']]; try lia; try congruence; simpl; lra.
Qed.

Print Assumptions C02_kl_grad_is_derivative.
Print Assumptions C02_tv_grad_is_derivative.
Print Assumptions C02_hellinger_grad_is_derivative.
Print Assumptions C02_chi2_grad_is_derivative.
Print Assumptions C02_mmd_grad_is_derivative.
Print Assumptions C02_wasserstein_grad_is_derivative.
Print Assumptions C02_clipped_entries_zero.
Print Assumptions C02_mask_false_outside.
