(* C05 on the REGENERATED proximal operators: Gen/ProxGen.v is produced on every build by translator/tr_prox.py
   from the source of gemclus/sparse/_prox_grad.py (all five functions translated whole, fail-closed), and
   Proofs/ProxTie.v proves every generated definition equal to the hand-written Model/Prox.v for every number
   system.  A change of the source that alters an operation, its arguments, a comparison, a sign, an index or the
   order of the steps breaks these obligations.  Statements only. *)
From Coq Require Import Reals List.
From GV Require Import Common.Num Common.NumR Model.Prox Gen.ProxGen Proofs.Prox Proofs.ProxTie.
Import ListNotations.
Open Scope R_scope.

(* golden copy = Model/Prox.v (what the OCaml driver extracts and the correspondence runs, floats included):
   the regenerated definitions are the documented ones, for all NumOps and all inputs *)
Theorem C05_regenerated_rules_are_documented : forall T (o : NumOps T),
  (forall thr x, gen_soft_threshold o thr x = soft_threshold o thr x) /\
  (forall w alpha, gen_linear_prox_row o w alpha = linear_prox_row o w alpha) /\
  (forall W alpha, gen_linear_prox o W alpha = linear_prox o W alpha) /\
  (forall v u alpha M, gen_mlp_prox_row o v u alpha M = hier_prox_row o v u alpha M) /\
  (forall V U alpha M, gen_mlp_prox o V U alpha M = mlp_prox o V U alpha M) /\
  (forall groups W alpha, gen_group_linear_prox o groups W alpha = group_linear_prox o groups W alpha) /\
  (forall groups V U alpha M, gen_group_mlp_prox o groups V U alpha M = group_mlp_prox o groups V U alpha M).
Proof. exact gen_is_model. Qed.

Theorem C05_gen_group_lasso_optimal_unique : forall w z alpha, 0 <= alpha -> length z = length w ->
  J_lasso alpha w z - J_lasso alpha w (gen_linear_prox_row Rops w alpha)
    >= / 2 * sqnorm (lsub z (gen_linear_prox_row Rops w alpha)).
Proof. exact gen_group_lasso_optimal_unique. Qed.

Theorem C05_gen_group_lasso_closed_form : forall w alpha,
  (rnorm w <= alpha -> gen_linear_prox_row Rops w alpha = repeat 0 (length w)) /\
  (alpha < rnorm w -> gen_linear_prox_row Rops w alpha = map (fun x => (1 - alpha / rnorm w) * x) w).
Proof. exact gen_group_lasso_closed_form. Qed.

Theorem C05_gen_hier_prox_feasible_optimal : forall v u alpha M,
  0 <= alpha -> 0 <= M -> 0 < rnorm v ->
  let '(bs, ts) := gen_mlp_prox_row Rops v u alpha M in
  feasible M bs ts /\
  forall beta theta, length beta = length v -> length theta = length u -> feasible M beta theta ->
    J_hier alpha v u bs ts <= J_hier alpha v u beta theta.
Proof. exact gen_hier_prox_feasible_optimal. Qed.

Theorem C05_gen_matrix_rows : forall W V U alpha M j,
  nth j (gen_linear_prox Rops W alpha) [] = gen_linear_prox_row Rops (nth j W []) alpha /\
  (length V = length U -> (j < length V)%nat ->
   (nth j (fst (gen_mlp_prox Rops V U alpha M)) [], nth j (snd (gen_mlp_prox Rops V U alpha M)) [])
   = gen_mlp_prox_row Rops (nth j V []) (nth j U []) alpha M).
Proof. exact gen_matrix_rows. Qed.

Theorem C05_gen_group_is_row_on_flattened : forall groups W alpha h,
  Forall (fun r => length r = h) W -> groups_wf (length W) groups ->
  exists R, gen_group_linear_prox Rops groups W alpha = Some R /\ length R = length W /\
    (forall g, In g groups ->
       let star := gen_linear_prox_row Rops (flatten (gather W g)) alpha in
       map (fun i => nth i R None) g = map Some (unflatten (length g) h star) /\
       flatten (unflatten (length g) h star) = star /\
       exists c, forall i, In i g -> nth i R None = Some (map (Rmult c) (nth i W []))) /\
    (forall i, ~ In i (concat groups) -> nth i R None = None).
Proof. exact gen_group_linear_spec. Qed.

Theorem C05_gen_group_mlp_is_row_on_flattened : forall groups V U alpha M hv hu, length V = length U ->
  Forall (fun r => length r = hv) V -> Forall (fun r => length r = hu) U -> groups_wf (length V) groups ->
  exists RV RU, gen_group_mlp_prox Rops groups V U alpha M = Some (RV, RU) /\
    length RV = length V /\ length RU = length U /\
    (forall g, In g groups ->
       let star := gen_mlp_prox_row Rops (flatten (gather V g)) (flatten (gather U g)) alpha M in
       map (fun i => nth i RV None) g = map Some (unflatten (length g) hv (fst star)) /\
       map (fun i => nth i RU None) g = map Some (unflatten (length g) hu (snd star)) /\
       flatten (unflatten (length g) hv (fst star)) = fst star /\
       flatten (unflatten (length g) hu (snd star)) = snd star /\
       exists x w, forall i, In i g ->
         nth i RV None = Some (map (Rmult x) (nth i V [])) /\ nth i RU None = Some (map (hclip w) (nth i U []))) /\
    (forall i, ~ In i (concat groups) -> nth i RV None = None /\ nth i RU None = None).
Proof. exact gen_group_mlp_spec. Qed.

Print Assumptions C05_regenerated_rules_are_documented.
Print Assumptions C05_gen_group_lasso_optimal_unique.
Print Assumptions C05_gen_group_lasso_closed_form.
Print Assumptions C05_gen_hier_prox_feasible_optimal.
Print Assumptions C05_gen_matrix_rows.
Print Assumptions C05_gen_group_is_row_on_flattened.
Print Assumptions C05_gen_group_mlp_is_row_on_flattened.
