(* C06 — Unselected features are inert; selection reads exact zeros; groups stay whole.
   Statements only; every proof is [exact <lemma of Proofs/Selection.v>].  Forward passes are those of
   Model/Forward.v.  The two facts C06 needs about the proximal operators (C05's subject) appear first as explicit
   premises [common_factor] / [hier_feasible] / [row_feasible] on the operator's output (they are Section hypotheses
   in Proofs/Selection.v), so that C06_* up to C06_update_groups_whole_and_inert do not depend on C05's files; the last
   block discharges them with C05's theorems (Proofs/SelectionProx.v), under C05's guards. *)
From Coq Require Import Reals Lra List Arith Permutation Sorted.
From GV Require Import Common.Num Common.NumR Model.Forward Model.Selection Proofs.Selection Proofs.SelectionProx.
Import ListNotations.
Open Scope R_scope.

(* get_selection() / _n_selected_features(): the Euclidean norm of a row is 0 exactly when every entry is 0, so the
   reported features are exactly the rows with a non-zero entry, in increasing order, and the count is their number *)
Theorem C06_selection_is_nonzero_rows : forall d K (W : nat -> nat -> R),
  (forall j, row_norm Rops K W j = 0 <-> (forall k, (k < K)%nat -> W j k = 0)) /\
  (forall j, In j (selection Rops d K W) <-> (j < d)%nat /\ exists k, (k < K)%nat /\ W j k <> 0) /\
  StronglySorted lt (selection Rops d K W) /\
  n_selected Rops d K W = length (selection Rops d K W).
Proof. exact selection_is_nonzero_rows. Qed.

(* linear model: inputs that differ only in columns whose weight row is zero (any number of them at once) get the
   same prediction for every sample i and cluster k — for all shapes *)
Theorem C06_zero_row_inert_linear : forall d K (W : nat -> nat -> R) (b : nat -> R) (X X' : nat -> nat -> R),
  (forall j, (j < d)%nat -> (forall k, (k < K)%nat -> W j k = 0) \/ (forall i, X i j = X' i j)) ->
  forall i k, (k < K)%nat -> linear_infer Rops d K W b X i k = linear_infer Rops d K W b X' i k.
Proof. exact zero_row_inert_linear. Qed.

(* the same in terms of get_selection: the prediction is a function of the selected columns only *)
Theorem C06_unselected_inert_linear : forall d K (W : nat -> nat -> R) (b : nat -> R) (X X' : nat -> nat -> R),
  (forall j, In j (selection Rops d K W) -> forall i, X i j = X' i j) ->
  forall i k, (k < K)%nat -> linear_infer Rops d K W b X i k = linear_infer Rops d K W b X' i k.
Proof. exact unselected_inert_linear. Qed.

(* sparse MLP: a feature whose skip row and first-layer row are both zero is inert *)
Theorem C06_zero_rows_inert_sparse_mlp :
  forall d h K (W1 : nat -> nat -> R) (b1 : nat -> R) (W2 : nat -> nat -> R) (b2 : nat -> R) (Wskip X X' : nat -> nat -> R),
  (forall j, (j < d)%nat ->
     ((forall k, (k < K)%nat -> Wskip j k = 0) /\ (forall c, (c < h)%nat -> W1 j c = 0)) \/ (forall i, X i j = X' i j)) ->
  forall i k, (k < K)%nat ->
    sparse_mlp_infer Rops d h K W1 b1 W2 b2 Wskip X i k = sparse_mlp_infer Rops d h K W1 b1 W2 b2 Wskip X' i k.
Proof. exact zero_rows_inert_sparse_mlp. Qed.

(* hierarchy: weights that satisfy the constraint of the hierarchical proximal step, |W1[j,c]| <= M * ||W_skip[j]||
   (row form), resp. <= M * ||W_skip[g]|| for the group g of j (group form), have a zero first-layer row wherever the
   skip row (resp. every skip row of the group) is zero *)
Theorem C06_hierarchy_zero_propagates :
  (forall d h K M (Wskip W1 : nat -> nat -> R), row_feasible d h K M Wskip W1 ->
     forall j, (j < d)%nat -> row_norm Rops K Wskip j = 0 -> forall c, (c < h)%nat -> W1 j c = 0) /\
  (forall h K M gs (Wskip W1 : nat -> nat -> R), hier_feasible h K M gs Wskip W1 ->
     forall g, In g gs -> (forall j, In j g -> row_zero K Wskip j) ->
     forall j, In j g -> forall c, (c < h)%nat -> W1 j c = 0).
Proof. exact (conj hierarchy_zero_propagates_row hierarchy_zero_propagates_group). Qed.

(* groups: when all rows of a group are multiplied by one factor (the group proximal operators), the group is either
   dropped as a whole or keeps exactly its former pattern of zero rows; so a group whose rows were all non-zero is
   kept whole or dropped whole.  Rows that were already zero stay zero: such a group stays split when the factor is
   non-zero (C06_group_split_needs_zero_row shows this does happen). *)
Theorem C06_group_whole : forall K gs (W W' : nat -> nat -> R), common_factor K gs W W' -> forall g, In g gs ->
  ((forall j, In j g -> row_zero K W' j) \/ (forall j, In j g -> (row_zero K W' j <-> row_zero K W j))) /\
  ((forall j, In j g -> ~ row_zero K W j) ->
     (forall j, In j g -> row_zero K W' j) \/ (forall j, In j g -> ~ row_zero K W' j)).
Proof. exact group_whole. Qed.

Theorem C06_group_whole_selection : forall d K gs (W W' : nat -> nat -> R), common_factor K gs W W' -> forall g, In g gs ->
  (forall j, In j g -> (j < d)%nat) ->
  (forall j, In j g -> In j (selection Rops d K W)) ->
  (forall j, In j g -> In j (selection Rops d K W')) \/ (forall j, In j g -> ~ In j (selection Rops d K W')).
Proof. exact group_whole_selection. Qed.

Theorem C06_group_split_needs_zero_row :
  exists (W W' : nat -> nat -> R), common_factor 1 [[0; 1]%nat] W W' /\ ~ row_zero 1 W' 0 /\ row_zero 1 W' 1.
Proof. exact group_whole_needs_nonzero_rows. Qed.

(* groups_ = check_groups(groups, d): a list is accepted iff its indices are < d and pairwise distinct; the result is
   the list followed by the singleton groups of the missing indices in increasing order, and it is a partition of
   [0, d): the concatenation is a duplicate-free enumeration of 0..d-1 and every feature lies in some group *)
Theorem C06_groups_completed_partition : forall groups d,
  (check_groups groups d <> None <-> (in_range d (concat groups) /\ NoDup (concat groups))) /\
  (forall r, check_groups groups d = Some r ->
     r = groups ++ map (fun i => [i]) (missing (concat groups) d) /\
     StronglySorted lt (missing (concat groups) d) /\
     (forall i, In i (missing (concat groups) d) <-> (i < d)%nat /\ ~ In i (concat groups)) /\
     NoDup (concat r) /\ Permutation (concat r) (seq 0 d) /\
     (forall i, (i < d)%nat -> exists g, In g r /\ In i g)).
Proof. intros groups d. exact (conj (check_groups_accepts groups d) (groups_completed_partition groups d)). Qed.

(* _update_weights: the optimiser's state and the untouched parameters are those of the optimiser step; the penalised
   matrices are the proximal operator applied to the stepped matrices with threshold alpha * (learning rate of the
   optimiser state *after* the step) — the plain operator when groups_ is None, the group operator otherwise *)
Theorem C06_update_is_prox_of_step :
  (forall (St : Type) (opt_step : St -> lin_params -> lin_params -> St * lin_params) (opt_lr : St -> R)
          (prox : (nat -> nat -> R) -> R -> nat -> nat -> R) (gprox : list (list nat) -> (nat -> nat -> R) -> R -> nat -> nat -> R)
          (groups_ : option (list (list nat))) (alpha : R) (s : St) (w g : lin_params),
     let stepped := opt_step s w g in
     let thr := alpha * opt_lr (fst stepped) in
     let r := update_weights_linear Rops opt_step opt_lr prox gprox groups_ alpha s w g in
     fst r = fst stepped /\ lb (snd r) = lb (snd stepped) /\
     lW (snd r) = match groups_ with None => prox (lW (snd stepped)) thr | Some gs => gprox gs (lW (snd stepped)) thr end) /\
  (forall (St : Type) (opt_step : St -> mlp_params -> mlp_params -> St * mlp_params) (opt_lr : St -> R)
          (prox : (nat -> nat -> R) -> (nat -> nat -> R) -> R -> R -> (nat -> nat -> R) * (nat -> nat -> R))
          (gprox : list (list nat) -> (nat -> nat -> R) -> (nat -> nat -> R) -> R -> R -> (nat -> nat -> R) * (nat -> nat -> R))
          (groups_ : option (list (list nat))) (alpha M : R) (s : St) (w g : mlp_params),
     let stepped := opt_step s w g in
     let thr := alpha * opt_lr (fst stepped) in
     let r := update_weights_mlp Rops opt_step opt_lr prox gprox groups_ alpha M s w g in
     fst r = fst stepped /\
     mW2 (snd r) = mW2 (snd stepped) /\ mb1 (snd r) = mb1 (snd stepped) /\ mb2 (snd r) = mb2 (snd stepped) /\
     (mWskip (snd r), mW1 (snd r)) =
       match groups_ with
       | None => prox (mWskip (snd stepped)) (mW1 (snd stepped)) thr M
       | Some gs => gprox gs (mWskip (snd stepped)) (mW1 (snd stepped)) thr M
       end) /\
  (* every state after at least one training step is the output of one such call *)
  (forall (St P : Type) (upd : St -> P -> P -> St * P) (grad : nat -> P -> P) steps s w,
     exists s' w' g', train upd grad (S steps) s w = upd s' w' g') /\
  (* with Adam the rate read is the bias-corrected rate of the step just made *)
  (forall lr0 b1 b2 t, adam_lr Rops lr0 b1 b2 t = lr0 * sqrt (1 - b2 ^ t) / (1 - b1 ^ t)).
Proof.
  split; [exact (@update_linear_is_prox_of_step)|]. split; [exact (@update_mlp_is_prox_of_step)|].
  split; [exact (@train_last_is_update) | exact adam_lr_R].
Qed.

(* end to end, sparse MLP without groups: if the plain proximal operator returns hierarchy-feasible weights whenever
   threshold and M are non-negative and the skip rows it receives are non-zero (C05's theorem and guards), then after any
   _update_weights call made under these guards every feature outside get_selection() is inert *)
Theorem C06_update_unselected_inert_mlp :
  forall (St : Type) (opt_step : St -> mlp_params -> mlp_params -> St * mlp_params) (opt_lr : St -> R)
         (prox : (nat -> nat -> R) -> (nat -> nat -> R) -> R -> R -> (nat -> nat -> R) * (nat -> nat -> R))
         (gprox : list (list nat) -> (nat -> nat -> R) -> (nat -> nat -> R) -> R -> R -> (nat -> nat -> R) * (nat -> nat -> R))
         (d h K : nat),
  (forall Ws W1 thr M, 0 <= thr -> 0 <= M -> (forall j, (j < d)%nat -> ~ row_zero K Ws j) ->
     row_feasible d h K M (fst (prox Ws W1 thr M)) (snd (prox Ws W1 thr M))) ->
  forall alpha M s w g,
  0 <= alpha * opt_lr (fst (opt_step s w g)) -> 0 <= M ->
  (forall j, (j < d)%nat -> ~ row_zero K (mWskip (snd (opt_step s w g))) j) ->
  let w' := snd (update_weights_mlp Rops opt_step opt_lr prox gprox None alpha M s w g) in
  forall X X' : nat -> nat -> R, (forall j, In j (selection Rops d K (mWskip w')) -> forall i, X i j = X' i j) ->
  forall i k, (k < K)%nat ->
    sparse_mlp_infer Rops d h K (mW1 w') (mb1 w') (mW2 w') (mb2 w') (mWskip w') X i k =
    sparse_mlp_infer Rops d h K (mW1 w') (mb1 w') (mW2 w') (mb2 w') (mWskip w') X' i k.
Proof. exact (@update_unselected_inert_mlp). Qed.

(* end to end with declared groups (groups_ = Some gs, well-formed and covering [0,d) as check_groups returns): if the
   group operator multiplies the skip rows of each group by one factor and returns hierarchy-feasible weights (C05, under
   its guards), and the skip rows handed to it by the optimiser are all non-zero, then after _update_weights every group
   is selected as a whole or discarded as a whole, and every feature outside get_selection() is inert *)
Theorem C06_update_groups_whole_and_inert :
  forall (St : Type) (opt_step : St -> mlp_params -> mlp_params -> St * mlp_params) (opt_lr : St -> R)
         (prox : (nat -> nat -> R) -> (nat -> nat -> R) -> R -> R -> (nat -> nat -> R) * (nat -> nat -> R))
         (gprox : list (list nat) -> (nat -> nat -> R) -> (nat -> nat -> R) -> R -> R -> (nat -> nat -> R) * (nat -> nat -> R))
         (d h K : nat),
  (forall gs Ws W1 thr M, groups_wf d gs -> 0 <= thr -> 0 <= M ->
     (forall g, In g gs -> forall j, In j g -> ~ row_zero K Ws j) ->
     hier_feasible h K M gs (fst (gprox gs Ws W1 thr M)) (snd (gprox gs Ws W1 thr M)) /\
     common_factor K gs Ws (fst (gprox gs Ws W1 thr M))) ->
  forall gs alpha M s w g,
  groups_wf d gs -> (forall j, (j < d)%nat -> exists g0, In g0 gs /\ In j g0) ->
  0 <= alpha * opt_lr (fst (opt_step s w g)) -> 0 <= M ->
  (forall g0, In g0 gs -> forall j, In j g0 -> ~ row_zero K (mWskip (snd (opt_step s w g))) j) ->
  let w' := snd (update_weights_mlp Rops opt_step opt_lr prox gprox (Some gs) alpha M s w g) in
  (forall g0, In g0 gs -> (forall j, In j g0 -> In j (selection Rops d K (mWskip w'))) \/
                          (forall j, In j g0 -> ~ In j (selection Rops d K (mWskip w')))) /\
  forall X X' : nat -> nat -> R, (forall j, In j (selection Rops d K (mWskip w')) -> forall i, X i j = X' i j) ->
  forall i k, (k < K)%nat ->
    sparse_mlp_infer Rops d h K (mW1 w') (mb1 w') (mW2 w') (mb2 w') (mWskip w') X i k =
    sparse_mlp_infer Rops d h K (mW1 w') (mb1 w') (mW2 w') (mb2 w') (mWskip w') X' i k.
Proof. exact (@update_unselected_inert_mlp_groups). Qed.

(* ---- the premises discharged with C05's theorems (Proofs/Prox.v) about Model/Prox.v ----
   lin_prox_fn / glin_prox_fn / mlp_prox_fn / gmlp_prox_fn (Proofs/SelectionProx.v) are C05's linear_prox,
   group_linear_prox, mlp_prox, group_mlp_prox transported from lists of rows to functions nat -> nat -> R. *)
Theorem C06_prox_facts_from_C05 : forall d h K,
  (forall W thr, common_factor K (singletons d) W (lin_prox_fn d K W thr)) /\
  (forall gs W thr, groups_wf d gs -> common_factor K gs W (glin_prox_fn d K gs W thr)) /\
  (forall Ws W1 thr M, 0 <= thr -> 0 <= M -> (forall j, (j < d)%nat -> ~ row_zero K Ws j) ->
     row_feasible d h K M (fst (mlp_prox_fn d h K Ws W1 thr M)) (snd (mlp_prox_fn d h K Ws W1 thr M)) /\
     common_factor K (singletons d) Ws (fst (mlp_prox_fn d h K Ws W1 thr M))) /\
  (forall gs Ws W1 thr M, groups_wf d gs -> 0 <= thr -> 0 <= M ->
     (forall g, In g gs -> forall j, In j g -> ~ row_zero K Ws j) ->
     hier_feasible h K M gs (fst (gmlp_prox_fn d h K gs Ws W1 thr M)) (snd (gmlp_prox_fn d h K gs Ws W1 thr M)) /\
     common_factor K gs Ws (fst (gmlp_prox_fn d h K gs Ws W1 thr M))) /\
  (forall groups r, check_groups groups d = Some r -> groups_wf d r).
Proof.
  intros d h K. split; [exact (lin_prox_fn_factor d K)|]. split; [exact (glin_prox_fn_factor d K)|].
  split; [exact (mlp_prox_fn_facts d h K)|]. split; [exact (gmlp_prox_fn_facts d h K)|].
  intros groups r. exact (check_groups_wf groups d r).
Qed.

(* hence, with the modelled operators, unconditionally in the operators (guards: threshold and M non-negative, skip rows
   handed to the proximal step non-zero): *)
Theorem C06_unselected_inert_mlp_with_C05 :
  forall (St : Type) (opt_step : St -> mlp_params -> mlp_params -> St * mlp_params) (opt_lr : St -> R) (d h K : nat)
         alpha M s w g,
  0 <= alpha * opt_lr (fst (opt_step s w g)) -> 0 <= M ->
  (forall j, (j < d)%nat -> ~ row_zero K (mWskip (snd (opt_step s w g))) j) ->
  let w' := snd (update_weights_mlp Rops opt_step opt_lr (mlp_prox_fn d h K) (gmlp_prox_fn d h K) None alpha M s w g) in
  forall X X' : nat -> nat -> R, (forall j, In j (selection Rops d K (mWskip w')) -> forall i, X i j = X' i j) ->
  forall i k, (k < K)%nat ->
    sparse_mlp_infer Rops d h K (mW1 w') (mb1 w') (mW2 w') (mb2 w') (mWskip w') X i k =
    sparse_mlp_infer Rops d h K (mW1 w') (mb1 w') (mW2 w') (mb2 w') (mWskip w') X' i k.
Proof. exact update_unselected_inert_mlp_c05. Qed.

Theorem C06_groups_whole_and_inert_mlp_with_C05 :
  forall (St : Type) (opt_step : St -> mlp_params -> mlp_params -> St * mlp_params) (opt_lr : St -> R) (d h K : nat)
         gs alpha M s w g,
  groups_wf d gs -> (forall j, (j < d)%nat -> exists g0, In g0 gs /\ In j g0) ->
  0 <= alpha * opt_lr (fst (opt_step s w g)) -> 0 <= M ->
  (forall g0, In g0 gs -> forall j, In j g0 -> ~ row_zero K (mWskip (snd (opt_step s w g))) j) ->
  let w' := snd (update_weights_mlp Rops opt_step opt_lr (mlp_prox_fn d h K) (gmlp_prox_fn d h K) (Some gs) alpha M s w g) in
  (forall g0, In g0 gs -> (forall j, In j g0 -> In j (selection Rops d K (mWskip w'))) \/
                          (forall j, In j g0 -> ~ In j (selection Rops d K (mWskip w')))) /\
  forall X X' : nat -> nat -> R, (forall j, In j (selection Rops d K (mWskip w')) -> forall i, X i j = X' i j) ->
  forall i k, (k < K)%nat ->
    sparse_mlp_infer Rops d h K (mW1 w') (mb1 w') (mW2 w') (mb2 w') (mWskip w') X i k =
    sparse_mlp_infer Rops d h K (mW1 w') (mb1 w') (mW2 w') (mb2 w') (mWskip w') X' i k.
Proof. exact update_groups_whole_and_inert_c05. Qed.

Theorem C06_groups_whole_linear_with_C05 :
  forall (St : Type) (opt_step : St -> lin_params -> lin_params -> St * lin_params) (opt_lr : St -> R) (d K : nat)
         gs alpha s w g, groups_wf d gs ->
  (forall g0, In g0 gs -> forall j, In j g0 -> ~ row_zero K (lW (snd (opt_step s w g))) j) ->
  let w' := snd (update_weights_linear Rops opt_step opt_lr (lin_prox_fn d K) (glin_prox_fn d K) (Some gs) alpha s w g) in
  forall g0, In g0 gs -> (forall j, In j g0 -> In j (selection Rops d K (lW w'))) \/
                         (forall j, In j g0 -> ~ In j (selection Rops d K (lW w'))).
Proof. exact update_groups_whole_linear_c05. Qed.

(* non-vacuity: a concrete partial group list is accepted and completed; a concrete weight matrix has a selected and an
   unselected feature, and two inputs that differ (hugely) in the unselected column satisfy the inertness hypothesis *)
Example C06_nonvacuous :
  check_groups [[3; 1]; [0]]%nat 5 = Some [[3; 1]; [0]; [2]; [4]]%nat /\
  check_groups [[0; 1]; [1]]%nat 3 = None /\
  let W : nat -> nat -> R := fun j _ => match j with O => 1 | _ => 0 end in
  let X : nat -> nat -> R := fun _ _ => 1 in
  let X' : nat -> nat -> R := fun _ j => match j with O => 1 | _ => 1000000 end in
  In 0%nat (selection Rops 2 1 W) /\ ~ In 1%nat (selection Rops 2 1 W) /\
  (forall j, In j (selection Rops 2 1 W) -> forall i, X i j = X' i j) /\ X 0%nat 1%nat <> X' 0%nat 1%nat.
Proof.
  split; [reflexivity|]. split; [reflexivity|]. cbv zeta.
  assert (A : forall j, In j (selection Rops 2 1 (fun j _ => match j with O => 1 | _ => 0 end)) <-> j = 0%nat).
  { intros j. rewrite In_selection. split.
    - intros [Hj Hn]. destruct j as [|j]; [reflexivity|]. exfalso. apply Hn. intros k _. reflexivity.
    - intros ->. split; [repeat constructor|]. intros H. specialize (H 0%nat Nat.lt_0_1). simpl in H. apply R1_neq_R0. exact H. }
  split; [apply A; reflexivity|]. split; [intros H; apply A in H; discriminate|]. split.
  - intros j Hj i. apply A in Hj. subst j. reflexivity.
  - simpl. intros H. lra.
Qed.

Print Assumptions C06_selection_is_nonzero_rows.
Print Assumptions C06_zero_row_inert_linear.
Print Assumptions C06_unselected_inert_linear.
Print Assumptions C06_zero_rows_inert_sparse_mlp.
Print Assumptions C06_hierarchy_zero_propagates.
Print Assumptions C06_group_whole.
Print Assumptions C06_group_whole_selection.
Print Assumptions C06_group_split_needs_zero_row.
Print Assumptions C06_groups_completed_partition.
Print Assumptions C06_update_is_prox_of_step.
Print Assumptions C06_update_unselected_inert_mlp.
Print Assumptions C06_update_groups_whole_and_inert.
Print Assumptions C06_prox_facts_from_C05.
Print Assumptions C06_unselected_inert_mlp_with_C05.
Print Assumptions C06_groups_whole_and_inert_mlp_with_C05.
Print Assumptions C06_groups_whole_linear_with_C05.
