(* C07 — The regularisation path honours its stopping, history and best-weights contract.
   Statements only; every proof is [exact <lemma of Proofs/Path.v>].
   Model: Model/Path.v (state machine of sparse._base_sparse._path/_run_path over an abstract training
   oracle), scalar rules: Gen/PathRules.v (regenerated from the source).  [Returned st nan] is a normal
   return of _path with the local state [st] (nan = left by `break` on a NaN score); [Unbound] is the
   UnboundLocalError; [OutOfFuel] means the outer loop was still running.  The statements about a
   returned path hold for EVERY oracle, every argument tuple and every fuel; the first group also for
   every number system and every rules record. *)
From Coq Require Import List Bool Arith ZArith Reals.
From GV Require Import Common.Num Common.NumR Model.Path Gen.PathRules Proofs.Path.
Import ListNotations.

(* the four histories have equal length (the traced per-step epoch counts have one more entry
   exactly when the run aborted on NaN) *)
Theorem C07_histories_same_length :
  forall (T : Type) (o : NumOps T) (R : PathRules T) (a : Args T) (orc : Oracle T) fuel st nan,
  path o R a orc fuel = Returned st nan ->
  length (s_gem st) = length (s_alphas st) /\ length (s_pens st) = length (s_alphas st) /\
  length (s_nfeat st) = length (s_alphas st) /\
  length (s_epochs st) = length (s_alphas st) + (if nan then 1 else 0).
Proof. exact @histories_same_length. Qed.

(* alphas[t] = clf.alpha * m^t with m the effective multiplier, which is > 1; clf.alpha is restored *)
Theorem C07_alphas_geometric : forall (a : Args R) orc fuel st nan,
  path Rops (path_rules Rops) a orc fuel = Returned st nan ->
  (forall t, t < length (s_alphas st) ->
     nth t (s_alphas st) 0%R = (a_alpha a * eff_mult (path_rules Rops) a ^ t)%R) /\
  (1 < eff_mult (path_rules Rops) a)%R /\ alpha_after a (Returned st nan) = a_alpha a.
Proof. exact alphas_geometric. Qed.

(* each recorded count, penalty and score is the oracle's observation after the last epoch (number n,
   1 <= n <= max_iter) of that step, trained with that step's alpha; earlier epochs of the step had a
   proper (non-NaN) score *)
Theorem C07_counts_are_model_counts :
  forall (T : Type) (o : NumOps T) (R : PathRules T) (a : Args T) (orc : Oracle T) fuel st nan,
  path o R a orc fuel = Returned st nan ->
  forall t, t < length (s_alphas st) ->
  exists alpha n g, nth_error (s_alphas st) t = Some alpha /\ nth_error (s_epochs st) t = Some n /\
    1 <= n <= a_max_iter a /\
    let ob := or_epoch orc t alpha (n - 1) in
    nth_error (s_nfeat st) t = Some (ob_nsel ob) /\ nth_error (s_pens st) t = Some (ob_pen ob) /\
    nth_error (s_gem st) t = Some g /\ ob_score ob = Some g /\
    (forall j, S j < n -> ob_score (or_epoch orc t alpha j) <> None).
Proof. exact @counts_are_model_counts. Qed.

(* stop rule, exactly what the loop guarantees.  Normal end: the count of the final weights — the last
   recorded count, or the initial fit's count when zero steps ran — is <= min_features (effective
   value), and every recorded step had been entered with a count > min_features.  NaN abort: the step
   after the recorded ones was entered (count still > min_features), its n-th epoch (n <= max_iter)
   returned NaN, the earlier ones did not, and nothing of that step was recorded. *)
Theorem C07_last_count_le_min_features_or_nan :
  forall (T : Type) (o : NumOps T) (R : PathRules T) (a : Args T) (orc : Oracle T) fuel st nan,
  path o R a orc fuel = Returned st nan ->
  (nan = false ->
     (Z.of_nat (last (s_nfeat st) (ob_nsel (or_init orc))) <= eff_minf R a)%Z /\
     (forall t, t < length (s_nfeat st) ->
        (eff_minf R a < Z.of_nat (nth t (ob_nsel (or_init orc) :: s_nfeat st) 0%nat))%Z)) /\
  (nan = true ->
     let t := length (s_alphas st) in
     (eff_minf R a < Z.of_nat (last (s_nfeat st) (ob_nsel (or_init orc))))%Z /\
     exists n, nth_error (s_epochs st) t = Some n /\ 1 <= n <= a_max_iter a /\
       ob_score (or_epoch orc t (s_alpha st) (n - 1)) = None /\
       (forall j, S j < n -> ob_score (or_epoch orc t (s_alpha st) j) <> None)).
Proof. exact @last_count_le_min_features_or_nan. Qed.

(* best_seen d b0 gs ns t is the maximum of the initial score b0 and the scores of the steps <= t that
   still had all d features *)
Theorem C07_best_seen_is_max : forall d b0 gs ns t,
  let B := best_seen d b0 gs ns t in
  (b0 <= B)%R /\ (forall j, j <= t -> nth j ns 0 = d -> (nth j gs 0%R <= B)%R) /\
  (B = b0 \/ exists j, j <= t /\ nth j ns 0 = d /\ B = nth j gs 0%R).
Proof. exact best_seen_is_max. Qed.

(* the returned weights are those of the LAST step whose score reached keep_threshold (effective value)
   times the best score seen so far with all features (initial fit included); the initial weights when
   no step qualifies; always the initial weights when the initial score is NaN *)
Theorem C07_best_weights_rule : forall (a : Args R) orc fuel st nan,
  path Rops (path_rules Rops) a orc fuel = Returned st nan ->
  (forall b0, ob_score (or_init orc) = Some b0 ->
     let ok t := (eff_keep (path_rules Rops) a * best_seen (a_d a) b0 (s_gem st) (s_nfeat st) t <= nth t (s_gem st) 0)%R in
     match s_bidx st with
     | Some t => t < length (s_gem st) /\ ok t /\ (forall t', t < t' < length (s_gem st) -> ~ ok t')
     | None => forall t', t' < length (s_gem st) -> ~ ok t'
     end) /\
  (ob_score (or_init orc) = None -> s_bidx st = None).
Proof. exact best_weights_rule. Qed.

(* each out-of-range argument is replaced by its documented default (= the signature default) and
   raises its warning flag; in-range arguments are untouched and raise none *)
Theorem C07_defaults_on_bad_arguments : forall a : Args R,
  let RR := path_rules Rops in
  (((a_mult a <= 1)%R -> eff_mult RR a = (105/100)%R /\ w_mult (arg_warnings RR a) = true) /\
   ((1 < a_mult a)%R -> eff_mult RR a = a_mult a /\ w_mult (arg_warnings RR a) = false) /\
   ((a_keep a < 0)%R \/ (1 < a_keep a)%R -> eff_keep RR a = (9/10)%R /\ w_keep (arg_warnings RR a) = true) /\
   ((0 <= a_keep a <= 1)%R -> eff_keep RR a = a_keep a /\ w_keep (arg_warnings RR a) = false) /\
   ((a_minf a <= 0)%Z -> eff_minf RR a = 2%Z /\ w_minf (arg_warnings RR a) = true /\
                         w_minf_ge_d (arg_warnings RR a) = false) /\
   ((0 < a_minf a)%Z -> eff_minf RR a = a_minf a /\ w_minf (arg_warnings RR a) = false /\
                        (w_minf_ge_d (arg_warnings RR a) = true <-> (Z.of_nat (a_d a) <= a_minf a)%Z))) /\
  (r_mult_default RR = r_sig_mult RR /\ r_keep_default RR = r_sig_keep RR /\ r_minf_default RR = r_sig_minf RR /\
   r_sig_esf RR = (99/100)%R /\ r_sig_patience RR = 10%Z).
Proof. exact defaults_full. Qed.

(* every step entered runs between 1 and max_iter epochs *)
Theorem C07_inner_loop_bounded :
  forall (T : Type) (o : NumOps T) (R : PathRules T) (a : Args T) (orc : Oracle T) fuel st nan,
  path o R a orc fuel = Returned st nan -> Forall (fun n => 1 <= n <= a_max_iter a) (s_epochs st).
Proof. exact @inner_loop_bounded. Qed.

(* if clf.alpha > 0 and the training drops to <= min_features features once alpha exceeds some bound,
   some fuel suffices and any larger fuel gives the same result *)
Theorem C07_terminates_if_alpha_positive : forall (a : Args R) orc B, (0 < a_alpha a)%R ->
  (forall t alpha i, (B < alpha)%R -> (Z.of_nat (ob_nsel (or_epoch orc t alpha i)) <= eff_minf (path_rules Rops) a)%Z) ->
  exists fuel, (forall st', path Rops (path_rules Rops) a orc fuel <> OutOfFuel st') /\
               (forall fuel', fuel <= fuel' -> path Rops (path_rules Rops) a orc fuel' = path Rops (path_rules Rops) a orc fuel).
Proof. exact terminates_if_alpha_positive. Qed.

(* a result other than OutOfFuel does not depend on the fuel *)
Theorem C07_more_fuel_same_result :
  forall (T : Type) (o : NumOps T) (R : PathRules T) (a : Args T) (orc : Oracle T) fuel fuel',
  (forall st', path o R a orc fuel <> OutOfFuel st') -> fuel <= fuel' -> path o R a orc fuel' = path o R a orc fuel.
Proof. exact @path_fuel_mono. Qed.

(* FINDING F12a ("path() always terminates" is false): clf.alpha = 0 passes validation, all other
   arguments in range, an oracle that does satisfy the drop condition of the termination theorem —
   and the machine is still running after every amount of fuel, alpha still 0 *)
Theorem C07_alpha_zero_diverges_refuted : exists (a : Args R) (orc : Oracle R) (B : R),
  a_alpha a = 0%R /\ (1 < a_mult a)%R /\ (0 < a_minf a < Z.of_nat (a_d a))%Z /\ (0 < a_patience a)%Z /\ 1 <= a_max_iter a /\
  (forall t alpha i, (B < alpha)%R -> (Z.of_nat (ob_nsel (or_epoch orc t alpha i)) <= eff_minf (path_rules Rops) a)%Z) /\
  forall fuel, exists st, path Rops (path_rules Rops) a orc fuel = OutOfFuel st /\ s_t st = fuel /\ s_alpha st = 0%R.
Proof. exact alpha_zero_diverges_refuted. Qed.

(* FINDING F12b: max_patience = 0 is accepted without a warning and the first step raises
   UnboundLocalError (the inner loop body never runs); with max_iter >= 1 and max_patience >= 1 it
   cannot happen, and when the initial fit already has <= min_features features the path returns at once *)
Theorem C07_max_patience_zero_unbound_refuted : exists (a : Args R) (orc : Oracle R),
  a_patience a = 0%Z /\ (0 < a_alpha a)%R /\ (1 < a_mult a)%R /\ (0 < a_minf a < Z.of_nat (a_d a))%Z /\ 1 <= a_max_iter a /\
  forall fuel, path Rops (path_rules Rops) a orc (S fuel) = Unbound (init_state a orc).
Proof. exact max_patience_zero_unbound_refuted. Qed.

Theorem C07_unbound_exactly :
  forall (T : Type) (o : NumOps T) (R : PathRules T) (a : Args T) (orc : Oracle T) fuel,
  (1 <= a_max_iter a -> (0 < a_patience a)%Z -> forall st, path o R a orc fuel <> Unbound st) /\
  (guard R a (ob_nsel (or_init orc)) = true -> a_max_iter a = 0 \/ (a_patience a <= 0)%Z ->
     path o R a orc (S fuel) = Unbound (init_state a orc)) /\
  (guard R a (ob_nsel (or_init orc)) = false -> path o R a orc fuel = Returned (init_state a orc) false).
Proof. exact @unbound_exactly. Qed.

(* path() wrappers: with restore_best_weights on a non-dynamic model the estimator ends with exactly the
   returned best weights; otherwise it keeps the last trained weights (and warns when restore meets dynamic) *)
Theorem C07_restore_rule : forall (T : Type) (restore dynamic : bool) (st : St T),
  (restore = true -> dynamic = false -> weights_after restore dynamic st = Some (s_bidx st)) /\
  (restore = false \/ dynamic = true -> weights_after restore dynamic st = None) /\
  (wrapper_warn_restore_dynamic restore dynamic = true <-> restore = true /\ dynamic = true).
Proof. exact restore_rule. Qed.

(* non-vacuity: a concrete three-step run (computable integer instance) returns, keeps the weights of
   step 1, and over R a run with clf.alpha = 1/2 on the witness oracle returns as well *)
Example C07_nonvacuous :
  (exists st, path Zops (path_rules Zops) ex_args ex_oracle 10 = Returned st false /\
     s_alphas st = [1; 2; 4]%Z /\ s_nfeat st = [3; 2; 1] /\ s_gem st = [13; 13; 5]%Z /\ s_bidx st = Some 1 /\ s_epochs st = [4; 4; 4]) /\
  (exists fuel st nan, path Rops (path_rules Rops) (wit_args (1/2)%R 1%Z) wit_oracle fuel = Returned st nan).
Proof. exact (conj ex_run wit_returns). Qed.

Print Assumptions C07_histories_same_length.
Print Assumptions C07_alphas_geometric.
Print Assumptions C07_counts_are_model_counts.
Print Assumptions C07_last_count_le_min_features_or_nan.
Print Assumptions C07_best_seen_is_max.
Print Assumptions C07_best_weights_rule.
Print Assumptions C07_defaults_on_bad_arguments.
Print Assumptions C07_inner_loop_bounded.
Print Assumptions C07_terminates_if_alpha_positive.
Print Assumptions C07_more_fuel_same_result.
Print Assumptions C07_alpha_zero_diverges_refuted.
Print Assumptions C07_max_patience_zero_unbound_refuted.
Print Assumptions C07_unbound_exactly.
Print Assumptions C07_restore_rule.
