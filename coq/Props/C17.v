(* C17 — Results stay finite on degenerate and badly scaled but legal inputs.
   Statements only; every proof is [exact <lemma of Proofs/Defined.v>].

   What is proved here is the EXACT-ARITHMETIC PRECONDITION of finiteness: evaluated on the partial
   instance [Dops : NumOps (option R)] (division by 0, ln of a non-positive number, sqrt of a negative
   number are None; None propagates through every operation; comparisons with None are false) the
   models return [Some v], i.e. no undefined real operation is performed anywhere, and v is the value of
   the same model over the reals (transfer).  Overflow, underflow and cancellation are floating-point
   phenomena which a model over R cannot exhibit: that half of the property (finite binary64 results on the
   scaled / duplicated / saturated families, for the implementation and for the extracted float instance
   of these same models) is decided by the harness (harness/c17.py), not by these theorems — the
   property as a whole is therefore claimed as "partial proof + search".

   Quantification: every n >= 1, every K (so K = 1 and K = n included), every 0 < eps < 1 (the
   validated domain of `epsilon`), every real prediction matrix Y — no hypothesis on Y at all, so the
   closed simplex (entries in [0,1], exactly one-hot rows, uniform rows, entries equal to eps or 1-eps)
   is covered a fortiori; every kernel / distance matrix A (zero, constant, indefinite ...); every real
   logit vector, weight row and alpha.  Wasserstein is relative to finite oracle values (ot.emd2 is not
   modelled).  The hierarchical operator mlp_prox_grad is NOT covered: it divides by the norm of the skip
   row, which is undefined for a zero skip row (see the harness and the report). *)
From Coq Require Import Reals Lra Lia List.
From GV Require Import Common.Num Common.NumR Model.Gemini Model.Forward Model.Prox Model.Backprop
  Proofs.RSumLib Proofs.Defined.
Import ListNotations.
Open Scope R_scope.

(* Dops is really partial (the theorems below are not vacuous): the three undefined operations are None,
   a defined result has defined arguments inside the domain, None propagates, comparisons on None are false *)
Theorem C17_partial_arithmetic :
  (forall a, ndiv Dops a (Some 0) = None) /\ (forall x, x <= 0 -> nln Dops (Some x) = None) /\
  (forall x, x < 0 -> nsqrt Dops (Some x) = None) /\
  (forall a b v, ndiv Dops a b = Some v -> exists x y, a = Some x /\ b = Some y /\ y <> 0 /\ v = x / y) /\
  (forall a v, nln Dops a = Some v -> exists x, a = Some x /\ 0 < x /\ v = ln x) /\
  (forall a v, nsqrt Dops a = Some v -> exists x, a = Some x /\ 0 <= x /\ v = sqrt x) /\
  (forall op, In op [nadd Dops; nsub Dops; nmul Dops; ndiv Dops] -> forall a b v, op a b = Some v -> exists x y, a = Some x /\ b = Some y) /\
  (forall op, In op [nsqrt Dops; nln Dops; nexp Dops; nabs Dops] -> forall a v, op a = Some v -> exists x, a = Some x) /\
  (forall c, In c [nltb Dops; nleb Dops; neqb Dops] -> forall a, c None a = false /\ c a None = false).
Proof. exact Dops_partial. Qed.

(* f-divergences (KL / MI, total variation, squared Hellinger, chi-square), both flags, score and gradient *)
Theorem C17_gemini_defined_closed_simplex : forall eps n K (Y : mat) (ovo : bool), 0 < eps < 1 -> (0 < n)%nat ->
  let oY := fun i k : nat => Some (Y i k) in
  (kl_score Dops (Some eps) n K oY ovo = Some (kl_score Rops eps n K Y ovo) /\
   forall i k, kl_grad Dops (Some eps) n oY ovo i k = Some (kl_grad Rops eps n Y ovo i k)) /\
  (tv_score Dops (Some eps) n K oY ovo = Some (tv_score Rops eps n K Y ovo) /\
   forall i k, tv_grad Dops (Some eps) n K oY ovo i k = Some (tv_grad Rops eps n K Y ovo i k)) /\
  (he_score Dops (Some eps) n K oY ovo = Some (he_score Rops eps n K Y ovo) /\
   forall i k, he_grad Dops (Some eps) n K oY ovo i k = Some (he_grad Rops eps n K Y ovo i k)) /\
  (chi_score Dops (Some eps) n K oY ovo = Some (chi_score Rops eps n K Y ovo) /\
   forall i k, chi_grad Dops (Some eps) n K oY ovo i k = Some (chi_grad Rops eps n K Y ovo i k)).
Proof. exact fdiv_defined. Qed.

(* the mechanism: the clip keeps every argument of ln, of a division and of sqrt away from 0 *)
Theorem C17_clip_bounds : forall eps n (Y : mat), 0 < eps <= 1 / 2 -> (0 < n)%nat ->
  forall i k, eps <= P Rops eps Y i k <= 1 - eps /\ eps <= pi Rops eps n Y k.
Proof. exact clip_bounds. Qed.

(* MMD, every kernel matrix: sqrt of max(.,0); divisions by pi_k > 0 and by delta only under the delta <> 0 mask *)
Theorem C17_mmd_defined : forall eps n K (Y A : mat) (ovo : bool), 0 < eps < 1 -> (0 < n)%nat ->
  let oY := fun i k : nat => Some (Y i k) in let oA := fun i j : nat => Some (A i j) in
  mmd_score Dops (Some eps) n K oY oA ovo = Some (mmd_score Rops eps n K Y A ovo) /\
  forall i k, mmd_grad Dops (Some eps) n K oY oA ovo i k = Some (mmd_grad Rops eps n K Y A ovo i k).
Proof. exact mmd_defined_all. Qed.

(* Wasserstein, relative to finite solver outputs: the marginals handed to the solver, the score and the gradient *)
Theorem C17_wasserstein_defined_given_finite_oracle :
  forall eps n K (Y : mat) emd_ova u_ova emd_ovo u_ovo v_ovo (ovo : bool), 0 < eps < 1 -> (0 < n)%nat ->
  let oY := fun i k : nat => Some (Y i k) in
  let oe1 := fun k : nat => Some (emd_ova k) in let ou1 := fun k i : nat => Some (u_ova k i) in
  let oe2 := fun a b : nat => Some (emd_ovo a b) in
  let ou2 := fun a b i : nat => Some (u_ovo a b i) in let ov2 := fun a b i : nat => Some (v_ovo a b i) in
  ws_score Dops (Some eps) n K oY oe1 oe2 ovo = Some (ws_score Rops eps n K Y emd_ova emd_ovo ovo) /\
  (forall i k, ws_grad Dops (Some eps) n K oY oe1 ou1 oe2 ou2 ov2 ovo i k
               = Some (ws_grad Rops eps n K Y emd_ova u_ova emd_ovo u_ovo v_ovo ovo i k)) /\
  (forall k i, ws_wy Dops (Some eps) n oY k i = Some (ws_wy Rops eps n Y k i)).
Proof. exact ws_defined_all. Qed.

(* sklearn's shifted softmax: every argument of exp is <= 0, the denominator lies in [1, K], so the row is
   defined for every K >= 1 and all real logits, and each probability is in (0, 1] *)
Theorem C17_softmax_shifted_bounded : forall K (z : nat -> R), (0 < K)%nat ->
  (forall c, (c < K)%nat -> z c - vmax Rops K z <= 0) /\
  1 <= rsum K (fun c => exp (z c - vmax Rops K z)) <= INR K /\
  (forall k, softmax_row Dops K (fun c => Some (z c)) k = Some (softmax_row Rops K z k)) /\
  (forall k, (k < K)%nat -> 0 < softmax_row Rops K z k <= 1).
Proof. exact softmax_shifted_bounded. Qed.

(* hence every forward pass (linear / RIM / kernel rows, MLP, sparse MLP with skip, categorical) *)
Theorem C17_forward_defined : forall d h K W1 b1 W2 b2 Ws W b X i k, (0 < K)%nat ->
  linear_infer Dops d K (olift W) (olift1v b) (olift X) i k = Some (linear_infer Rops d K W b X i k) /\
  mlp_infer Dops d h K (olift W1) (olift1v b1) (olift W2) (olift1v b2) (olift X) i k
    = Some (mlp_infer Rops d h K W1 b1 W2 b2 X i k) /\
  sparse_mlp_infer Dops d h K (olift W1) (olift1v b1) (olift W2) (olift1v b2) (olift Ws) (olift X) i k
    = Some (sparse_mlp_infer Rops d h K W1 b1 W2 b2 Ws X i k) /\
  categorical_infer Dops K (olift W) i k = Some (categorical_infer Rops K W i k).
Proof. exact forward_defined. Qed.

(* the group-lasso operator never divides by zero: every row (zero rows included), every alpha *)
Theorem C17_linear_prox_defined : forall (w : list R) (W : list (list R)) alpha,
  linear_prox_row Dops (map Some w) (Some alpha) = map Some (linear_prox_row Rops w alpha) /\
  linear_prox Dops (map (map Some) W) (Some alpha) = map (map Some) (linear_prox Rops W alpha).
Proof. exact linear_prox_both_defined. Qed.

(* Douglas' cut-point gradient after the F10 repair: the division by a bin membership happens only where the
   membership is non-zero; the other division is by the temperature (validated > 0) *)
Theorem C17_douglas_gradient_defined : forall n F c L K f temp S leafm bin order tau p, temp <> 0 ->
  dg_cut_direction Dops n F c L K f (Some temp) (olift S) (olift leafm) (olift bin) order (olift tau) p
  = Some (dg_cut_direction Rops n F c L K f temp S leafm bin order tau p).
Proof. exact douglas_cut_direction_defined. Qed.

(* non-vacuity: an exactly one-hot 2 x 2 prediction matrix satisfies the hypotheses; without the clip the
   very first operation of the KL score (ln of the entry 0) is undefined, with it the score is defined *)
Definition onehot2 : mat := fun i k => if Nat.eqb i k then 1 else 0.
Example C17_nonvacuous :
  0 < 1 / 10 < 1 /\ (0 < 2)%nat /\ nln Dops (Some (onehot2 0%nat 1%nat)) = None /\
  ndiv Dops (Some 1) (Some (onehot2 0%nat 1%nat)) = None /\
  exists v, kl_score Dops (Some (1 / 10)) 2 2 (fun i k => Some (onehot2 i k)) true = Some v.
Proof.
  split; [lra|]. split; [lia|]. split; [apply Dops_ln_nonpos; cbn; lra|]. split; [apply Dops_div_zero|].
  destruct (fdiv_defined (1 / 10) 2 2 onehot2 true ltac:(lra) ltac:(lia)) as [[H _] _]. eexists. exact H.
Qed.

Print Assumptions C17_partial_arithmetic.
Print Assumptions C17_gemini_defined_closed_simplex.
Print Assumptions C17_clip_bounds.
Print Assumptions C17_mmd_defined.
Print Assumptions C17_wasserstein_defined_given_finite_oracle.
Print Assumptions C17_softmax_shifted_bounded.
Print Assumptions C17_forward_defined.
Print Assumptions C17_linear_prox_defined.
Print Assumptions C17_douglas_gradient_defined.
