(* C11 — Kernel, metric and GEMINI choices are forwarded faithfully; precomputed = named.
   Statements only; every proof is [exact <lemma of Proofs/Forwarding.v>].  [classes] and
   [gemini_registry] are regenerated from /repo by translator/tr_forwarding.py on every build;
   [documented], [documented_registry], [documented_fixed], [documented_defaults], [expected],
   [expected_affinity], [spec_resolve] (Proofs/Forwarding.v) spell out the documentation.
   [full_call cls rho] is the call cls(p1 = rho p1, .., pk = rho pk) with arbitrary values. *)
From Coq Require Import List String Bool Arith.
From GV Require Import Model.Forwarding Gen.Forwarding Proofs.Forwarding.
Import ListNotations.
Open Scope string_scope.

(* every constructor argument of every estimator and GEMINI class is stored, unmodified, under its own
   name (through however many super().__init__ forwardings it takes); whatever else the constructor
   chain sets is a literal constant *)
Theorem C11_constructor_forwarding : forall cls, In cls (map c_name classes) -> forall rho : string -> value,
  exists attrs, construct classes cls [] (kw_of classes cls rho) = Some attrs /\
    (forall p, In p (param_names classes cls) -> lookup p attrs = Some (rho p)) /\
    Forall (fun kv => In (fst kv) (param_names classes cls) \/ exists k, snd kv = VC k) attrs.
Proof. exact ctor_stores_own_names. Qed.

(* ... and those constants are the documented ones (gemini=None for the MMD / Wasserstein variants,
   gemini="mi" for RIM, KernelRIM, SparseLinearMI, dynamic=False for SparseLinearMI, ...) *)
Theorem C11_fixed_arguments : forall cls fx, In (cls, fx) documented_fixed -> forall rho : string -> value,
  exists attrs, estimator_attrs classes (full_call cls rho) = Some attrs /\
    extras (param_names classes cls) attrs = map (fun ac => (fst ac, VC (snd ac))) fx.
Proof. exact ctor_fixed_arguments. Qed.

(* documented defaults: kernel='linear', metric='euclidean', ovo=False, *_params=None, gemini='mmd_ova' ... *)
Theorem C11_defaults : forall cls dl, In (cls, dl) documented_defaults ->
  exists attrs, construct classes cls [] [] = Some attrs /\
    Forall (fun ac => lookup (fst ac) attrs = Some (VC (snd ac))) dl.
Proof. exact ctor_defaults. Qed.

(* each of the 17 DiscriminativeModel estimators, for all argument values, returns from get_gemini():
   MMD variants -> MMDGEMINI(ovo=self.ovo, kernel=self.kernel, kernel_params=self.kernel_params);
   Wasserstein variants -> WassersteinGEMINI(ovo, metric, metric_params); RIM / KernelRIM /
   SparseLinearMI -> MI (KL, one-vs-all, no affinity); generic models: gemini=None -> MMD OvA with the
   linear kernel, a name -> its registry entry (unknown name: error), an instance -> that instance *)
Theorem C11_get_gemini_table : forall cls d, In (cls, d) documented -> forall rho : string -> value,
  resolve_gemini classes gemini_registry (full_call cls rho) = expected d rho.
Proof. exact get_gemini_table. Qed.

(* the 13 names are exactly the available ones and map to the documented (class, ovo) pairs with
   default linear kernel / euclidean metric; 'mi' = 'kl_ova' = KL one-vs-all; other names raise *)
Theorem C11_registry_table :
  (forall name e, In (name, e) documented_registry ->
     option_map (describe classes) (str_to_gemini classes gemini_registry name) = Some (DBuilt (doc_desc e))) /\
  (forall s, In s (r_available gemini_registry) <-> In s (map fst documented_registry)) /\
  (List.length (r_available gemini_registry) = 13 /\ NoDup (r_available gemini_registry)) /\
  (forall s, ~ In s (map fst documented_registry) -> str_to_gemini classes gemini_registry s = None) /\
  doc_lookup "mi" = doc_lookup "kl_ova" /\
  doc_lookup "mi" = Some {| gd_class := "MI"; gd_family := Some "KLGEMINI"; gd_ovo := Some (VC (CBool false)); gd_aff := AffNone |}.
Proof.
  split; [ exact registry_table | split; [ exact registry_available | split; [ exact registry_available_count | split ] ] ].
  - intros s Hn. exact (proj1 (registry_unknown s Hn)).
  - split; reflexivity.
Qed.

(* compute_affinity: callable -> the user's function; 'precomputed' -> the given matrix, or an error
   when there is none; a name -> the pairwise function of the GEMINI's kind with exactly the given
   parameter dictionary (empty when None); the "ignored parameters" warning exactly for callable+params *)
Theorem C11_affinity_dispatch : forall (s : affinity_spec) (has_y : bool),
  (forall f, a_fn s = VCallable f -> affinity_dispatch s has_y = CallUser f) /\
  (a_fn s = VC (CStr "precomputed") ->
     affinity_dispatch s has_y = if has_y then UseGiven else ErrorMissing) /\
  (forall name, a_fn s = VC (CStr name) -> name <> "precomputed" ->
     affinity_dispatch s has_y = Pairwise (a_kind s) (VC (CStr name)) (params_of (a_params s))) /\
  params_of (VC CNone) = PEmpty /\ (forall d, params_of (VDict d) = PGiven (VDict d)) /\
  (affinity_warns s = true <-> (exists f, a_fn s = VCallable f) /\ a_params s <> VC CNone).
Proof. exact affinity_dispatch_spec. Qed.

(* the affinity each documented estimator trains and scores with is the dispatch of exactly its own
   kernel / metric and parameter attributes (none for the MI models) *)
Theorem C11_training_affinity : forall cls d, In (cls, d) documented -> forall (rho : string -> value) has_y,
  training_affinity classes gemini_registry (full_call cls rho) has_y = expected_affinity d rho has_y.
Proof. exact training_affinity_table. Qed.

(* score(X, y) of each of the 17 estimators is get_gemini() -- called inside score, hence resolved from
   the hyper-parameters as they are at that time -- applied to predict_proba(X) and to that same object's
   compute_affinity(X, y); nothing remembered from fit is read, nothing is written.  Kauri: its
   objective on predict(X) and _compute_kernel(X, y).  (Regenerated from the bodies of `score`.) *)
Theorem C11_score_uses_current_params :
  (forall cls d, In (cls, d) documented -> score_core cls = Some (doc_score_discriminative, [])) /\
  score_core "Kauri" = Some (doc_score_kauri, []).
Proof. exact score_uses_current_params. Qed.

(* fit_predict(X, y) of every estimator (Kauri included) is fit(X, y).labels_ : the precomputed matrix
   passed as y reaches fit unchanged through this entry point too.  (Regenerated from the bodies.) *)
Theorem C11_fit_predict_forwards_matrix :
  (forall cls d, In (cls, d) documented -> fit_predict_term classes cls = Some (doc_fit_predict, [])) /\
  fit_predict_term classes "Kauri" = Some (doc_fit_predict, []).
Proof. exact fit_predict_forwards_matrix. Qed.

(* KernelRIM's kernel between new and training points *)
Theorem C11_kernelrim_dispatch : forall bk bkp,
  (forall f, bk = VCallable f -> kernelrim_dispatch bk bkp = CallUser f) /\
  (forall name, bk = VC (CStr name) -> kernelrim_dispatch bk bkp = Pairwise PKernels (VC (CStr name)) (params_of bkp)).
Proof. exact kernelrim_dispatch_spec. Qed.

(* Kauri trains and scores with _compute_kernel(self.kernel): a name -> pairwise_kernels without
   parameters, 'precomputed' with a matrix -> that matrix *)
Theorem C11_kauri_dispatch :
  (forall (rho : string -> value) has_y,
     training_affinity classes gemini_registry (full_call "Kauri" rho) has_y = Some (Some (fst (kauri_dispatch (rho "kernel") has_y)))) /\
  (forall kernel has_y,
    (kernel = VC (CStr "precomputed") -> kauri_dispatch kernel true = (UseGiven, false)) /\
    (forall name, kernel = VC (CStr name) -> name <> "precomputed" ->
       kauri_dispatch kernel has_y = (Pairwise PKernels (VC (CStr name)) PEmpty, false))).
Proof. split; [ exact kauri_training_affinity | exact kauri_dispatch_spec ]. Qed.

(* "a missing matrix is an error" does NOT hold for Kauri as it is (finding F17): it warns and trains
   on the linear kernel.  The witness replayed on the code is the known finding. *)
Theorem C11_kauri_missing_matrix_refuted :
  exists kernel, is_precomputed kernel = true /\ fst (kauri_dispatch kernel false) <> ErrorMissing /\
    kauri_dispatch kernel false = (Pairwise PKernels (VC (CStr "linear")) PEmpty, true).
Proof. exact kauri_missing_matrix_refuted. Qed.

(* ... while on the GEMINI route a missing matrix never trains *)
Theorem C11_missing_matrix_is_error : forall (T St : Type) n (step : list (list T) -> nat -> St -> St) steps s0 pwf callf kind anyparams,
  fit_history n step steps s0 pwf callf None
    (affinity_dispatch {| a_kind := kind; a_fn := VC (CStr "precomputed"); a_params := anyparams |} false) = None.
Proof. exact @missing_matrix_is_error. Qed.

(* training (any step function, any number of steps, any state type: weights, paths, scores, trees) that
   sees the affinity only through its n x n entries: naming a kernel / metric with its parameters, or
   passing a precomputed matrix with the same entries, gives the same history — and both do train *)
Theorem C11_precomputed_equals_named : forall (T St : Type) n (step : list (list T) -> nat -> St -> St) steps s0
    (pwf : pw -> value -> pwparams -> nat -> nat -> T) (callf : nat -> nat -> nat -> T)
    (kind : pw) (name : string) (params anyparams : value) (Y : nat -> nat -> T),
  name <> "precomputed" ->
  (forall i j, i < n -> j < n -> Y i j = pwf kind (VC (CStr name)) (params_of params) i j) ->
  let named := {| a_kind := kind; a_fn := VC (CStr name); a_params := params |} in
  let pre := {| a_kind := kind; a_fn := VC (CStr "precomputed"); a_params := anyparams |} in
  fit_history n step steps s0 pwf callf None (affinity_dispatch named false)
    = fit_history n step steps s0 pwf callf (Some Y) (affinity_dispatch pre true) /\
  fit_history n step steps s0 pwf callf None (affinity_dispatch named false) <> None.
Proof. exact @precomputed_equals_named. Qed.

Theorem C11_kauri_precomputed_equals_named : forall (T St : Type) n (step : list (list T) -> nat -> St -> St) steps s0
    (pwf : pw -> value -> pwparams -> nat -> nat -> T) (callf : nat -> nat -> nat -> T)
    (name : string) (Y : nat -> nat -> T),
  name <> "precomputed" ->
  (forall i j, i < n -> j < n -> Y i j = pwf PKernels (VC (CStr name)) PEmpty i j) ->
  fit_history n step steps s0 pwf callf None (fst (kauri_dispatch (VC (CStr name)) false))
    = fit_history n step steps s0 pwf callf (Some Y) (fst (kauri_dispatch (VC (CStr "precomputed")) true)) /\
  fit_history n step steps s0 pwf callf None (fst (kauri_dispatch (VC (CStr name)) false)) <> None.
Proof. exact @kauri_precomputed_equals_named. Qed.

(* non-vacuity: the tables are populated, a concrete non-default configuration resolves to a concrete
   GEMINI, and the training fold really looks at the matrix (different entries, different history) *)
Example C11_nonvacuous :
  Nat.leb 25 (List.length classes) = true /\ List.length documented = 17 /\
  resolve_gemini classes gemini_registry
    {| e_class := "MLPWasserstein"; e_kwargs := [("ovo", VC (CBool true)); ("metric", VC (CStr "cityblock")); ("metric_params", VDict 7)] |}
    = Some (DBuilt {| gd_class := "WassersteinGEMINI"; gd_family := Some "WassersteinGEMINI"; gd_ovo := Some (VC (CBool true));
                      gd_aff := AffSpec PDistances (Some (VC (CStr "cityblock"))) (Some (VDict 7)) |}) /\
  resolve_gemini classes gemini_registry {| e_class := "SparseMLPModel"; e_kwargs := [("gemini", VC (CStr "tv_ovo"))] |}
    = Some (DBuilt {| gd_class := "TVGEMINI"; gd_family := Some "TVGEMINI"; gd_ovo := Some (VC (CBool true)); gd_aff := AffNone |}) /\
  (let step := fun (K : list (list nat)) (t s : nat) => s + nth t (nth 0 K []) 0 in
   fit_history 2 step 2 0 (fun _ _ _ i j => i + 2 * j) (fun _ _ _ => 0) None (Pairwise PKernels (VC (CStr "linear")) PEmpty) = Some [0; 2] /\
   fit_history 2 step 2 0 (fun _ _ _ i j => i + 2 * j) (fun _ _ _ => 0) (Some (fun i j => 5)) UseGiven = Some [5; 10]).
Proof. vm_compute. repeat split; reflexivity. Qed.

Print Assumptions C11_constructor_forwarding.
Print Assumptions C11_fixed_arguments.
Print Assumptions C11_defaults.
Print Assumptions C11_get_gemini_table.
Print Assumptions C11_registry_table.
Print Assumptions C11_affinity_dispatch.
Print Assumptions C11_training_affinity.
Print Assumptions C11_score_uses_current_params.
Print Assumptions C11_fit_predict_forwards_matrix.
Print Assumptions C11_kernelrim_dispatch.
Print Assumptions C11_kauri_dispatch.
Print Assumptions C11_kauri_missing_matrix_refuted.
Print Assumptions C11_missing_matrix_is_error.
Print Assumptions C11_precomputed_equals_named.
Print Assumptions C11_kauri_precomputed_equals_named.
