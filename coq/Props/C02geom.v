(* C02 on the REGENERATED kernel-MMD definitions (see Props/C01geom.v). *)
From Coq Require Import Reals.
From Coquelicot Require Import Coquelicot.
From GV Require Import Common.Num Common.NumR Model.Gemini Proofs.RSumLib Proofs.GeminiDefs Proofs.GeminiMMD Gen.Geom Proofs.GeomGen.
Open Scope R_scope.
(* kernel MMD, any symmetric kernel: the regenerated gradient is the derivative of the regenerated score where the
   squared distances are strictly positive (zero distances, the one-vs-one diagonal included, are masked by the code) *)
Theorem C02_mmd_gen_grad_is_derivative : forall eps n K P A D (ovo : bool), 0 <= eps -> (0 < n)%nat -> interior eps n K P -> sym_on n A ->
  (if ovo then forall k k', (k < K)%nat -> (k' < K)%nat -> k <> k' -> 0 < qovo n A P k k'
   else forall k, (k < K)%nat -> 0 < qova n A P k) ->
  is_derive (fun t : R => gen_mmd_score Rops eps n K (pert P D t) A ovo) 0 (inner n K (gen_mmd_grad Rops eps n K P A ovo) D).
Proof. exact gen_mmd_grad_is_derivative. Qed.
(* the regenerated gradient is the model's gradient on in-range indices (reals: the model regroups the code's sums) *)
Theorem C02_mmd_gen_grad_is_model_R : forall eps n K (Y A : mat) ovo i k, (i < n)%nat -> (k < K)%nat ->
  gen_mmd_grad Rops eps n K Y A ovo i k = mmd_grad Rops eps n K Y A ovo i k.
Proof. exact gen_mmd_grad_eq_R. Qed.
(* entries clipped at the epsilon bounds receive exactly zero gradient (regenerated term) *)
Theorem C02_mmd_gen_clipped_entries_zero : forall eps n K (Y A : mat) ovo i k, (i < n)%nat -> (k < K)%nat ->
  mask Rops eps Y i k = false -> gen_mmd_grad Rops eps n K Y A ovo i k = 0.
Proof. exact gen_mmd_grad_clipped_zero. Qed.
(* the score returned together with the gradient is the score returned alone (regenerated terms, every number system) *)
Theorem C02_mmd_gen_score_same_with_grad : forall T (o : NumOps T) eps n K Y A ovo,
  gen_mmd_gscore o eps n K Y A ovo = gen_mmd_score o eps n K Y A ovo.
Proof. exact gen_mmd_gscore_eq_score. Qed.
Print Assumptions C02_mmd_gen_grad_is_derivative.
Print Assumptions C02_mmd_gen_grad_is_model_R.
Print Assumptions C02_mmd_gen_clipped_entries_zero.
Print Assumptions C02_mmd_gen_score_same_with_grad.
