(* C16 — Invalid hyperparameters and malformed inputs are rejected, never trained on.
   Statements only; every proof is [exact <lemma of Proofs/Validation.v>]. *)
From Coq Require Import List ZArith QArith String Bool Permutation Sorted.
From GV Require Import Model.Validation Model.Doc Gen.Constraints Gen.ValidationRules Proofs.Validation.
Import ListNotations.
Open Scope string_scope.
Open Scope list_scope.

(* For every estimator / GEMINI constructor / validated function of the regenerated tables (Gen.Constraints, read from
   the current sources) and every one of its parameters: the validator accepts a value iff it lies in the documented
   domain (Model/Doc.v, hand-written from the docstrings) — for ALL values: every integer, every rational, NaN and the
   infinities, every string, None, callables, containers, instances of every class.  The only escape is an entry whose
   declared constraints are literally one of the frozen rows of Doc.known_asis, each of which is refuted below. *)
Theorem C16_accepts_iff_documented : forall e ps p oc,
  In (e, ps) (estimators ++ functions) -> In (p, oc) ps ->
  (forall v, effective_sat classes oc v = in_doc_domain classes e p v) \/ (exists w, In (e, p, oc, w) known_asis).
Proof. exact accepts_iff_documented. Qed.

(* where the code and the documentation disagree: the recorded as-is constraints differ from the documented domain at
   the recorded witness value (19 rows: documentation gaps and scikit-learn's dict-as-array-like) *)
Theorem C16_known_disagreements_refuted : forall e p oc w, In (e, p, oc, w) known_asis ->
  effective_sat classes oc w <> in_doc_domain classes e p w.
Proof. exact known_disagreements_refuted. Qed.

(* check_groups, for all group lists and all d: accepted iff every index lies in [0, d) and no index occurs twice
   (within a group or across groups); the result is the input followed by the singleton groups of the missing indices
   in increasing order; its groups enumerate 0 .. d-1 without repetition (a partition of the feature range). *)
Theorem C16_check_groups_spec : forall (groups : list (list Z)) (d : nat),
  (check_groups groups d <> None <->
     Forall (fun x => (0 <= x < Z.of_nat d)%Z) (List.concat groups) /\ NoDup (List.concat groups)) /\
  (forall r, check_groups groups d = Some r ->
     r = groups ++ map (fun i => [i]) (filter (fun i => negb (zmem i (List.concat groups))) (zrange d)) /\
     StronglySorted Z.lt (filter (fun i => negb (zmem i (List.concat groups))) (zrange d)) /\
     NoDup (List.concat r) /\ Permutation (List.concat r) (zrange d)).
Proof.
  intros groups d. split; [exact (check_groups_accepts groups d)|].
  intros r H. split; [exact (check_groups_result groups d r H)|].
  destruct (check_groups_partition groups d r H) as (_ & H2 & H3 & H4). exact (conj H2 (conj H3 H4)).
Qed.

(* ... and on group lists with arbitrary entries: accepted exactly when every entry is an integer index (floats, strings,
   None, nested lists and bools are rejected) and the integer group list is accepted by the statement above *)
Theorem C16_check_groups_integer_entries : forall (groups : list (list gentry)) (d : nat) r,
  check_groups_entries groups d = Some r <-> exists gz, groups = map (map GInt) gz /\ check_groups gz d = Some r.
Proof. exact check_groups_entries_spec. Qed.

(* fit as "validate; then write fitted attributes": a rejection — of the hyper-parameters, the data, the groups, a
   cross-parameter rule or the affinity — leaves no fitted attribute; acceptance writes all of them.  The first
   statement holds for every sequence of checks and writes in which the checks come first. *)
Theorem C16_rejected_leaves_unfitted :
  (forall steps, validate_first steps = true -> fst (run steps []) = false -> snd (run steps []) = []) /\
  (forall attrs k, run (fit_validate_first attrs k) [] =
     if params_ok k && x_ok k && samples_ok k && groups_ok k && cross_ok k && affinity_ok k then (true, rev attrs) else (false, [])).
Proof. split; [exact (fun s => validate_first_unfitted s [])|exact fit_validate_first_outcome]. Qed.

(* The regenerated definitions of Gen/ValidationRules.v (translator/tr_validation.py, from the ASTs of the current sources)
   against the hand-written golden copies of Model/Validation.v: check_groups translated whole; the sequence of validation
   calls, guarded raises and first stores of fitted attributes of DiscriminativeModel.fit, SparseLinearModel.fit,
   SparseMLPModel.fit, KernelRIM.fit, Kauri.fit and Douglas._init_params; the scalar rules (Kauri's cross-parameter
   comparison, Douglas' two mask tests, the shape test of a precomputed affinity at both sites). *)
Theorem C16_regenerated_rules_are_documented :
  (forall g d, check_groups_gen g d = check_groups_golden g d) /\
  (base_fit_events = golden_base_fit /\ sparse_linear_fit_events = golden_sparse_fit /\ sparse_mlp_fit_events = golden_sparse_fit /\
   kernelrim_fit_events = golden_kernelrim_fit /\ kauri_fit_events = golden_kauri_fit /\ douglas_init_events = golden_douglas_init) /\
  (forall leaf split, kauri_cross_violated_gen leaf split = Z.gtb (leaf * 2) split) /\
  (forall m d, douglas_mask_violated_gen m d = [negb (Nat.eqb (List.length m) d); negb (existsb (fun b => b) m)]) /\
  (forall rows cols n, precomputed_shape_bad_gen rows cols n = negb (Nat.eqb rows cols) || negb (Nat.eqb rows n)) /\
  (forall rows cols n, kauri_precomputed_shape_bad_gen rows cols n = negb (Nat.eqb rows cols) || negb (Nat.eqb rows n)).
Proof. exact (conj regenerated_check_groups_golden (conj regenerated_events_golden regenerated_rules_golden)). Qed.

(* the regenerated check_groups computes the model's check_groups on every group list with arbitrary entries, hence satisfies
   C16_check_groups_spec / C16_check_groups_integer_entries *)
Theorem C16_check_groups_regenerated : forall (groups : list (list gentry)) (d : nat),
  check_groups_gen groups d = option_map (map (map GInt)) (check_groups_entries groups d).
Proof. exact check_groups_golden_spec. Qed.

(* the order of checks and writes of the code as it is now: gen_fit_* = the REGENERATED event lists read with the outcomes
   of the individual checks (they are also what the correspondence runs, through the equal golden models).  For every
   outcome of the checks, what a rejected fit has written.  DiscriminativeModel.fit, Douglas (with _init_params spelled out)
   and Kauri.fit: nothing, or n_features_in_ alone when the rejection comes after validate_data (affinity, feature_mask,
   2*min_samples_leaf <= min_samples_split).  Sparse models: nothing when the hyper-parameters, the data or the sample
   count are rejected; the bookkeeping attributes n_features_in_ (and groups_) afterwards. *)
Theorem C16_asis_rejection :
  (forall w k, fst (run (gen_fit_base w k) []) = false ->
     snd (run (gen_fit_base w k) []) = (if params_ok k && x_ok k && samples_ok k then ["n_features_in_"] else [])) /\
  (forall mask_none len_ok sel_ok k, fst (run (gen_fit_douglas mask_none len_ok sel_ok k) []) = false ->
     snd (run (gen_fit_douglas mask_none len_ok sel_ok k) []) = (if params_ok k && x_ok k && samples_ok k then ["n_features_in_"] else [])) /\
  (forall k, fst (run (gen_fit_kauri k) []) = false ->
     snd (run (gen_fit_kauri k) []) = (if params_ok k && x_ok k && samples_ok k then ["n_features_in_"] else [])) /\
  (forall w k, fst (run (gen_fit_sparse_linear w k) []) = false ->
     snd (run (gen_fit_sparse_linear w k) []) =
       (if params_ok k && x_ok k && samples_ok k then (if groups_ok k then ["n_features_in_"; "groups_"; "n_features_in_"] else ["n_features_in_"]) else [])) /\
  (forall w k, fst (run (gen_fit_sparse_mlp w k) []) = false ->
     snd (run (gen_fit_sparse_mlp w k) []) =
       (if params_ok k && x_ok k && samples_ok k then (if groups_ok k then ["n_features_in_"; "groups_"; "n_features_in_"] else ["n_features_in_"]) else [])) /\
  (* regression statements: each of these rejections left weights / groups_ / the training kernel / cut_points_list_ before the repairs *)
  run (gen_fit_base ["W_"; "b_"] bad_affinity) [] = (false, ["n_features_in_"]) /\
  run (gen_fit_sparse_linear ["W_"; "b_"] bad_params) [] = (false, []) /\
  run (gen_fit_sparse_linear ["W_"; "b_"] bad_samples) [] = (false, []) /\
  run (gen_fit_kernelrim bad_params) [] = (false, []) /\
  run (gen_fit_douglas false true false all_ok) [] = (false, ["n_features_in_"]).
Proof.
  exact (conj fit_base_rejection (conj fit_douglas_rejection (conj fit_kauri_rejection (conj fit_sparse_rejection (conj fit_sparse_rejection fit_asis_repaired))))).
Qed.

(* KernelRIM, for every outcome of its checks; partial: this order is NOT "validate first" — see the next statement *)
Theorem C16_asis_kernelrim_partial : forall k, fst (run (gen_fit_kernelrim k) []) = false ->
  snd (run (gen_fit_kernelrim k) []) =
    (if params_ok k && x_ok k then
       (if affinity_ok k then (if samples_ok k then ["n_features_in_"; "training_kernel_"; "input_data_"] else ["training_kernel_"; "input_data_"])
        else ["input_data_"])
     else []).
Proof. exact fit_kernelrim_rejection. Qed.

(* ... KernelRIM stores the training data and its kernel before the sample count is compared with n_clusters
   (bad_samples = the check record in which exactly that test fails) *)
Theorem C16_asis_validate_first_refuted :
  validate_first (gen_fit_kernelrim all_ok) = false /\
  run (gen_fit_kernelrim bad_samples) [] = (false, ["training_kernel_"; "input_data_"]).
Proof. exact fit_asis_leaves_attributes. Qed.

(* cross-parameter rules, the shape of acceptable training data and of a precomputed affinity *)
Theorem C16_cross_rules :
  (forall leaf split, kauri_cross_ok leaf split = true <-> (2 * leaf <= split)%Z) /\
  (forall m d, douglas_mask_ok m d = true <-> (m = None \/ exists l, m = Some l /\ List.length l = d /\ In true l)) /\
  (forall ndim n d numeric finite m, data_ok ndim n d numeric finite m = true <->
     (ndim = 2 /\ numeric = true /\ finite = true /\ 1 <= d /\ 1 <= n /\ m <= n)%nat) /\
  (forall ndim rows cols n numeric finite, precomputed_ok ndim rows cols n numeric finite = true <->
     (ndim = 2 /\ numeric = true /\ finite = true /\ rows = cols /\ rows = n)).
Proof. exact (conj kauri_cross_spec (conj douglas_mask_spec (conj data_ok_spec precomputed_ok_spec))). Qed.

(* ... and these rules are the regenerated ones: the model's rule functions expressed with the tests read from the sources *)
Theorem C16_cross_rules_regenerated :
  (forall leaf split, kauri_cross_ok leaf split = negb (kauri_cross_violated_gen leaf split)) /\
  (forall m d, douglas_mask_ok (Some m) d = negb (existsb (fun b => b) (douglas_mask_violated_gen m d))) /\
  (forall ndim rows cols n numeric finite,
     precomputed_ok ndim rows cols n numeric finite = Nat.eqb ndim 2 && numeric && finite && negb (precomputed_shape_bad_gen rows cols n) /\
     precomputed_shape_bad_gen rows cols n = kauri_precomputed_shape_bad_gen rows cols n).
Proof. exact (conj kauri_cross_gen (conj douglas_mask_gen precomputed_gen)). Qed.

(* non-vacuity: the tables are populated (233 entries, 214 of them equal to the documentation for all values, when written),
   a concrete entry with its boundary, and a concrete completed partition *)
Example C16_nonvacuous :
  Nat.leb 200 n_agree = true /\ Nat.leb n_agree n_entries = true /\
  lookup_param (estimators ++ functions) "Kauri" "min_samples_split" = Some (Some [Interval TIntegral (Some (Fin (Qmake 2 1))) None CLeft]) /\
  effective_sat classes (Some [Interval TIntegral (Some (Fin (Qmake 2 1))) None CLeft]) (VInt 1) = false /\
  in_doc_domain classes "Kauri" "min_samples_split" (VInt 2) = true /\
  check_groups [[3; 1]%Z; [0]%Z] 5 = Some [[3; 1]%Z; [0]%Z; [2]%Z; [4]%Z] /\
  check_groups [[0; 1]%Z; [1]%Z] 3 = None /\
  check_groups_entries [[GInt 0; GBool true]] 3 = None.
Proof. vm_compute. repeat split; reflexivity. Qed.

Print Assumptions C16_accepts_iff_documented.
Print Assumptions C16_known_disagreements_refuted.
Print Assumptions C16_check_groups_spec.
Print Assumptions C16_rejected_leaves_unfitted.
Print Assumptions C16_check_groups_integer_entries.
Print Assumptions C16_regenerated_rules_are_documented.
Print Assumptions C16_check_groups_regenerated.
Print Assumptions C16_cross_rules_regenerated.
Print Assumptions C16_asis_rejection.
Print Assumptions C16_asis_kernelrim_partial.
Print Assumptions C16_asis_validate_first_refuted.
Print Assumptions C16_cross_rules.
