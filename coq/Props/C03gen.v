(* C03 on the REGENERATED model code: Gen/Models.v is produced on every build by translator/tr_models.py from the
   numpy source of the `_infer` / `_compute_grads` methods (gemclus/linear/_linear_geminis.py, mlp/_mlp_geminis.py,
   sparse/_mlp_sparse.py, nonparametric/_categorical_models.py; symbolic, shape-aware, fail-closed), and
   Proofs/ModelsGen.v proves every generated definition convertible to the hand-written model for every number
   system.  A change of the source that alters a computed term, or what a method reads, breaks these obligations.
   In every statement BOTH sides are regenerated: the differentiated function is built from gen_*_infer, the
   direction from gen_*_grads_* composed by the call protocol of the fit loop
   (y_pred = _infer(X_batch) with retain=True, then _compute_grads(X_batch, y_pred, grads); self.H_ = gen_*_retained_H).
   Sign convention as in Props/C03.v: the code maximises, `_compute_grads` returns MINUS the gradient. *)
From Coq Require Import Reals List.
From Coquelicot Require Import Coquelicot.
From GV Require Import Common.Num Common.NumR Model.Forward Model.Mlcl Model.Backprop Gen.Models.
From GV Require Import Proofs.RSumLib Proofs.GeminiDefs Proofs.Backprop Proofs.ModelsGen.
Open Scope R_scope.

(* MLPModel — DESIGN Appendix A: adjoint identity on the regenerated step *)
Theorem C03_mlp_gen_adjoint : forall n d h K X th g dth,
  relu_off_kink n h (preact d X th) ->
  inner n K g (mlp_jvp n d h K X th dth) = - inner_mlp d h K (gen_mlp_step_grads Rops n d h K th X g) dth.
Proof. exact gen_mlp_adjoint. Qed.
Theorem C03_mlp_gen_adjoint_any_state : forall n d h K (X Y g : mat) (th dth : @MlpP R),
  inner n K g (smjvp K Y (mlp_dlogits d h X th dth))
  = - inner_mlp d h K (gen_mlp_compute_grads Rops n K (mW2 th) (gen_mlp_retained_H Rops d (mW1 th) (mb1 th) X) X Y g) dth.
Proof. exact gen_mlp_adjoint_any_state. Qed.

(* the direction handed to the optimiser is minus the gradient of t |-> <g, _infer(theta + t dtheta)(X)> *)
Theorem C03_mlp_gen_direction_is_gradient : forall n d h K (X : mat) (th dth : @MlpP R) (g : mat), (0 < K)%nat ->
  relu_off_kink n h (preact d X th) ->
  is_derive (fun t : R => inner n K g (gen_mlp_infer_p Rops d h K (mlp_pert th dth t) X)) 0
            (- inner_mlp d h K (gen_mlp_step_grads Rops n d h K th X g) dth).
Proof. exact gen_mlp_direction_is_gradient. Qed.
Theorem C03_sparse_mlp_gen_direction_is_gradient : forall n d h K (X : mat) (th dth : @SMlpP R) (g : mat), (0 < K)%nat ->
  relu_off_kink n h (preact d X (smlp_core th)) ->
  is_derive (fun t : R => inner n K g (gen_sparse_mlp_infer_p Rops d h K (smlp_pert th dth t) X)) 0
            (- inner_smlp d h K (gen_sparse_mlp_step_grads Rops n d h K th X g) dth).
Proof. exact gen_sparse_mlp_direction_is_gradient. Qed.
Theorem C03_linear_gen_direction_is_gradient : forall n d K (X : mat) (th dth : @LinP R) (g : mat), (0 < K)%nat ->
  is_derive (fun t : R => inner n K g (gen_linear_infer_p Rops d K (lin_pert th dth t) X)) 0
            (- inner_lin d K (gen_linear_step_grads Rops n d K th X g) dth).
Proof. exact gen_linear_direction_is_gradient. Qed.
(* RIM: objective MI - reg ||W||^2, the penalty term being the regenerated `gradients[0] += self.reg * 2 * self.W_` *)
Theorem C03_rim_gen_direction_is_gradient : forall n d K reg (X : mat) (th dth : @LinP R) (g : mat), (0 < K)%nat ->
  is_derive (fun t : R => inner n K g (gen_linear_infer_p Rops d K (lin_pert th dth t) X)
                          - reg * sqnorm d K (lW (lin_pert th dth t))) 0
            (- inner_lin d K (gen_rim_step_grads Rops n d K reg th X g) dth).
Proof. exact gen_rim_direction_is_gradient. Qed.
(* KernelRIM: objective MI - reg tr(W^T Kt W) with the FULL symmetric training kernel, whatever block of kernel rows X *)
Theorem C03_kernel_rim_gen_direction_is_gradient : forall n nt K reg (Kt X : mat) (th dth : @LinP R) (g : mat),
  (0 < K)%nat -> sym_on nt Kt ->
  is_derive (fun t : R => inner n K g (gen_linear_infer_p Rops nt K (lin_pert th dth t) X)
                          - reg * trWKW nt K Kt (lW (lin_pert th dth t))) 0
            (- inner_lin nt K (gen_kernel_rim_step_grads Rops n nt K reg Kt th X g) dth).
Proof. exact gen_kernel_rim_direction_is_gradient. Qed.
Theorem C03_categorical_gen_direction_is_gradient : forall n K (L dL g : mat), (0 < K)%nat ->
  is_derive (fun t : R => inner n K g (gen_categorical_infer Rops K (fun i k => L i k + t * dL i k))) 0
            (- inner n K (gen_categorical_step_grads Rops K L g) dL).
Proof. exact gen_categorical_direction_is_gradient. Qed.

(* the regenerated terms ARE the model the correspondence runs (all number systems, floats included): the step of
   every family, as whole parameter records in the order of _get_weights *)
Theorem C03_gen_is_model : forall T (o : NumOps T),
  (forall n d K p X G, gen_linear_step_grads o n d K p X G = linear_step_grads o n d K p X G) /\
  (forall n d K reg p X G, gen_rim_step_grads o n d K reg p X G = rim_step_grads o n d K reg p X G) /\
  (forall n nt K reg Kt p X G, gen_kernel_rim_step_grads o n nt K reg Kt p X G = kernel_rim_step_grads o n nt K reg Kt p X G) /\
  (forall n d h K p X G, gen_mlp_step_grads o n d h K p X G = mlp_step_grads o n d h K p X G) /\
  (forall n d h K p X G, gen_sparse_mlp_step_grads o n d h K p X G = sparse_mlp_step_grads o n d h K p X G) /\
  (forall K L G, gen_categorical_step_grads o K L G = categorical_step_grads o K L G).
Proof.
  intros T o. split; [exact (gen_linear_step_grads_eq o)|]. split; [exact (gen_rim_step_grads_eq o)|].
  split; [exact (gen_kernel_rim_step_grads_eq o)|]. split; [exact (gen_mlp_step_grads_eq o)|].
  split; [exact (gen_sparse_mlp_step_grads_eq o) | exact (gen_categorical_step_grads_eq o)].
Qed.

Print Assumptions C03_mlp_gen_adjoint.
Print Assumptions C03_mlp_gen_adjoint_any_state.
Print Assumptions C03_mlp_gen_direction_is_gradient.
Print Assumptions C03_sparse_mlp_gen_direction_is_gradient.
Print Assumptions C03_linear_gen_direction_is_gradient.
Print Assumptions C03_rim_gen_direction_is_gradient.
Print Assumptions C03_kernel_rim_gen_direction_is_gradient.
Print Assumptions C03_categorical_gen_direction_is_gradient.
Print Assumptions C03_gen_is_model.
