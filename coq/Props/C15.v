(* C15 — Douglas: masked features inert, valid soft bins, cells given by the number of cut points below,
   active points as defined.  Statements only; every proof is [exact <lemma of Proofs/Douglas.v>].
   Model: Model/Douglas.v (bins = _leaf_binning, merge = _merge_leaf, infer = _infer, used_features /
   init_cuts = _init_params, find_active_points).  Real-number theorems are about the Rops instance. *)
From Coq Require Import Reals List Arith Sorted Permutation Lra.
From Coquelicot Require Import Coquelicot.
From GV Require Import Common.Num Common.NumR Model.Forward Model.Douglas Proofs.RSumLib Proofs.Douglas.
Import ListNotations.
Open Scope R_scope.

(* _init_params lists exactly the features selected by the mask (all of them without a mask), in order;
   a mask of the wrong length or selecting no feature is an error *)
Theorem C15_mask_selects : forall (T : Type) d (mask : option (list bool)) (draw : nat -> list T) cpl,
  init_cuts d mask draw = Some cpl ->
  used_features d mask = Some (map fst cpl) /\
  match mask with
  | None => map fst cpl = seq 0 d
  | Some m => (length m = d /\ forall f, In f (map fst cpl) <-> (f < d)%nat /\ nth f m false = true) /\ cpl <> []
  end.
Proof.
  intros T d mask draw cpl H. pose proof (init_cuts_features d mask draw cpl H) as Hu. split; [exact Hu|].
  destruct mask as [m|]; [| cbn in Hu; congruence]. split; [exact (used_features_mask d m _ Hu)|].
  intros E. subst cpl. exact (used_features_nonempty d m _ Hu eq_refl).
Qed.

(* predictions do not depend on the columns excluded by the mask: for every number system, every shape,
   every parameter value (whatever training did to cut points and leaf scores) and every row *)
Theorem C15_masked_feature_inert : forall (T : Type) (o : NumOps T) d (mask : list bool) (cpl : list (nat * list T))
    temp K S (X X' : nat -> nat -> T) i,
  used_features d (Some mask) = Some (map fst cpl) ->
  (forall f, (f < d)%nat -> nth f mask false = true -> X i f = X' i f) ->
  infer o temp cpl K S X i = infer o temp cpl K S X' i.
Proof. exact @masked_feature_inert. Qed.

(* (n_cuts+1)^(number of used features) leaves: rows of leaf_scores_ and length of the merged leaf vector;
   no used feature = no prediction (reduce of an empty sequence) *)
Theorem C15_leaf_count : forall (T : Type) (o : NumOps T) d mask (draw : nat -> list T) n_cuts cpl temp x,
  init_cuts d mask draw = Some cpl -> (forall j, length (draw j) = n_cuts) ->
  length cpl = n_used d mask /\ num_leaf n_cuts cpl = (S n_cuts ^ n_used d mask)%nat /\
  (forall lf, leaf o temp cpl x = Some lf -> length lf = (S n_cuts ^ n_used d mask)%nat) /\
  (leaf o temp cpl x = None <-> n_used d mask = 0%nat).
Proof. exact @leaf_count. Qed.

(* the model's sort is a sort and `order` is consistent with it (cut points in any order, duplicates allowed) *)
Theorem C15_sorted_cuts : forall cuts : list R,
  Permutation (sort_cuts Rops cuts) cuts /\ StronglySorted Rle (sort_cuts Rops cuts) /\
  map snd (argsort_pairs Rops cuts) = sort_cuts Rops cuts.
Proof. intros cuts. exact (conj (sort_cuts_perm cuts) (conj (sort_cuts_sorted cuts) (argsort_pairs_sorted cuts))). Qed.

(* memberships of one feature: n_cuts+1 positive numbers summing to one, for every temperature > 0
   (temperature 0 is excluded by parameter validation; Coq's x/0 = 0 would make the statement true but meaningless) *)
Theorem C15_bins_simplex : forall (temp x : R) (cuts : list R), 0 < temp ->
  length (bins Rops temp x cuts) = S (length cuts) /\
  List.Forall (fun v => 0 < v) (bins Rops temp x cuts) /\ lsumR (bins Rops temp x cuts) = 1.
Proof. intros temp x cuts _. exact (bins_simplex temp x cuts). Qed.

(* Kronecker product of probability vectors is a probability vector (induction over the features), hence
   the leaf memberships of every sample *)
Theorem C15_merge_is_simplex : forall (bs : list (list R)) lf,
  List.Forall prob_vec bs -> leaf_of_bins Rops bs = Some lf -> prob_vec lf.
Proof. exact merge_is_simplex. Qed.
Theorem C15_leaf_simplex : forall temp cpl x lf, 0 < temp -> leaf Rops temp cpl x = Some lf -> prob_vec lf.
Proof. intros temp cpl x lf _. exact (leaf_simplex temp cpl x lf). Qed.

(* for every list of cut points (sorted or not, duplicates allowed) and every x different from all cuts the
   largest bin logit — and the largest membership — is attained exactly at index #{c | c < x} *)
Theorem C15_argmax_bin_is_count_below : forall (cuts : list R) (x : R), (forall c, In c cuts -> c <> x) ->
  length (bin_logits Rops x cuts) = S (length cuts) /\ (count_below x cuts <= length cuts)%nat /\
  (forall j, (j <= length cuts)%nat -> j <> count_below x cuts ->
     nth j (bin_logits Rops x cuts) 0 < nth (count_below x cuts) (bin_logits Rops x cuts) 0) /\
  (forall temp, 0 < temp -> forall j, (j <= length cuts)%nat -> j <> count_below x cuts ->
     nth j (bins Rops temp x cuts) 0 < nth (count_below x cuts) (bins Rops temp x cuts) 0).
Proof.
  intros cuts x H. destruct (argmax_logit cuts x H) as (A & B & C).
  exact (conj A (conj B (conj C (fun temp HT => argmax_membership temp cuts x HT H)))).
Qed.

(* with g <= distance from x to every cut point (e.g. the distance to the nearest one):
   membership of bin #{c < x}  >=  1 / (1 + n_cuts exp(-g/T))  >=  1 - n_cuts T / g *)
Theorem C15_membership_bound : forall (cuts : list R) (x temp g : R), 0 < temp -> 0 < g ->
  (forall c, In c cuts -> g <= Rabs (x - c)) ->
  1 / (1 + INR (length cuts) * exp (- g / temp)) <= nth (count_below x cuts) (bins Rops temp x cuts) 0 /\
  1 - INR (length cuts) * (temp / g) <= nth (count_below x cuts) (bins Rops temp x cuts) 0 <= 1.
Proof. intros cuts x temp g HT Hg H. exact (conj (membership_bound cuts x temp g HT Hg H) (membership_rate cuts x temp g HT Hg H)). Qed.

(* the limit itself: as T -> 0+ the membership of bin #{c < x} tends to 1 (the soft binning becomes the hard one) *)
Theorem C15_membership_limit : forall (cuts : list R) (x : R), (forall c, In c cuts -> c <> x) ->
  filterlim (fun temp : R => nth (count_below x cuts) (bins Rops temp x cuts) 0) (at_right 0) (locally 1).
Proof. exact membership_limit. Qed.

(* a sample's cell is given, feature by feature, by how many cut points lie below its value *)
Theorem C15_cell_index_counts : forall cpl (x x' : nat -> R),
  map (fun fc => count_below (x (fst fc)) (snd fc)) cpl = map (fun fc => count_below (x' (fst fc)) (snd fc)) cpl ->
  cell_index cpl x = cell_index cpl x'.
Proof. exact cell_index_counts. Qed.

(* inside a cell, at distance >= g from every cut point, with |leaf_scores| <= M, m used features and at most
   n cut points each: the prediction is softmax(leaf_scores_[cell]) up to the factor exp(4 M m n exp(-g/T)),
   and two points of one cell predict the same up to exp(8 M m n exp(-g/T)) *)
Theorem C15_cell_prediction : forall temp g M n cpl K (S : nat -> nat -> R) x, 0 < temp -> 0 < g -> cpl <> [] ->
  in_cell_gap g n cpl x ->
  (forall lf, leaf Rops temp cpl x = Some lf -> forall l k, (l < length lf)%nat -> (k < K)%nat -> Rabs (S l k) <= M) ->
  exists p, infer_row Rops temp cpl K S x = Some p /\
    forall k, (k < K)%nat ->
      let e := exp (4 * M * (INR (length cpl) * INR n * exp (- g / temp))) in
      let c := softmax_row Rops K (S (cell_index cpl x)) k in
      p k <= e * c /\ c <= e * p k.
Proof. exact cell_prediction. Qed.
Theorem C15_cell_constant : forall temp g M n cpl K (S : nat -> nat -> R) x x', 0 < temp -> 0 < g -> cpl <> [] ->
  in_cell_gap g n cpl x -> in_cell_gap g n cpl x' ->
  map (fun fc => count_below (x (fst fc)) (snd fc)) cpl = map (fun fc => count_below (x' (fst fc)) (snd fc)) cpl ->
  (forall l k, (l < nleaves cpl)%nat -> (k < K)%nat -> Rabs (S l k) <= M) ->
  exists p p', infer_row Rops temp cpl K S x = Some p /\ infer_row Rops temp cpl K S x' = Some p' /\
    forall k, (k < K)%nat -> p k <= exp (8 * M * (INR (length cpl) * INR n * exp (- g / temp))) * p' k.
Proof. exact cell_constant. Qed.

(* the limit statement of the property: as the temperature goes to zero the prediction of every sample not
   lying on a cut point converges to softmax(leaf_scores_[cell]), a value that depends on the cell only *)
Theorem C15_prediction_limit : forall cpl K (S : nat -> nat -> R) x k, cpl <> [] -> (k < K)%nat ->
  (forall fc, In fc cpl -> forall c, In c (snd fc) -> c <> x (fst fc)) ->
  filterlim (pred_at cpl K S x k) (at_right 0) (locally (softmax_row Rops K (S (cell_index cpl x)) k)).
Proof. exact prediction_limit. Qed.

(* find_active_points (well-formed data: at least one row, every used feature is a column): returns, in the
   order of the parameter list, exactly the used features having a cut point c with X[i,f] < c < X[j,f] for
   some rows i, j — i.e. min(x_f) < c < max(x_f) *)
Theorem C15_active_points_spec : forall nrows ncols (X : nat -> nat -> R) cpl, (0 < nrows)%nat -> (0 < ncols)%nat ->
  NoDup (map fst cpl) -> (forall fc, In fc cpl -> (fst fc < ncols)%nat) ->
  exists l, find_active_points Rops nrows ncols X cpl = FapOk l /\
    l = map fst (filter (active_feature Rops nrows X) cpl) /\
    (forall f, In f l <-> exists cuts, In (f, cuts) cpl /\
        exists c, In c cuts /\ (exists i, (i < nrows)%nat /\ X i f < c) /\ (exists j, (j < nrows)%nat /\ c < X j f)).
Proof. exact active_points_spec. Qed.

(* non-vacuity: unsorted cut points [2; 0; 1] on feature 0 of a masked 3-feature model, the value 3/2 lies in
   bin 2 at distance 1/2 from every cut; the hypotheses of the theorems above are met *)
Example C15_nonvacuous :
  let cpl := [(0%nat, [2; 0; 1]); (2%nat, [1])] in
  let x := fun f : nat => match f with 0%nat => 3 / 2 | _ => 0 end in
  used_features 3 (Some [true; false; true]) = Some (map fst cpl) /\
  count_below (x 0%nat) [2; 0; 1] = 2%nat /\
  in_cell_gap (1 / 2) 3 cpl x /\ cell_index cpl x = 4%nat /\ cpl <> [] /\ NoDup (map fst cpl).
Proof.
  cbv zeta. split; [reflexivity|]. split.
  { cbn [count_below]. repeat (destruct (Rlt_dec _ _); try lra); reflexivity. }
  split.
  { intros fc [<-|[<-|[]]]; cbn [fst snd length]; (split; [repeat constructor|]); intros c Hc; simpl in Hc;
      repeat (destruct Hc as [<-|Hc]; [unfold Rabs; destruct (Rcase_abs _); lra|]); contradiction. }
  split.
  { unfold cell_index, cell_from, kof. cbn [fst snd length count_below]. repeat (destruct (Rlt_dec _ _); try lra); reflexivity. }
  split; [discriminate|]. cbn. repeat constructor; simpl; intuition discriminate.
Qed.

Print Assumptions C15_mask_selects.
Print Assumptions C15_masked_feature_inert.
Print Assumptions C15_leaf_count.
Print Assumptions C15_sorted_cuts.
Print Assumptions C15_bins_simplex.
Print Assumptions C15_merge_is_simplex.
Print Assumptions C15_leaf_simplex.
Print Assumptions C15_argmax_bin_is_count_below.
Print Assumptions C15_membership_bound.
Print Assumptions C15_membership_limit.
Print Assumptions C15_cell_index_counts.
Print Assumptions C15_cell_prediction.
Print Assumptions C15_cell_constant.
Print Assumptions C15_prediction_limit.
Print Assumptions C15_active_points_spec.
