(* C15 — Douglas: masked features inert, valid soft bins, cells given by the number of cut points below,
   active points as defined.  Statements only; every proof is [exact <lemma of Proofs/DouglasGen.v / Douglas.v>].
   The theorems are about the REGENERATED definitions of Gen/DouglasRules.v (written on every build by
   translator/tr_douglas.py from the AST of gemclus/tree/douglas.py): gen_leaf_binning = _leaf_binning,
   gen_merge_leaf = _merge_leaf, gen_infer_row / gen_infer_state = _infer and what it retains,
   gen_init_params = _init_params, gen_find_active_points = find_active_points.  Proofs/DouglasGen.v proves each
   of them equal to the hand-written executable model Model/Douglas.v (the one the correspondence runs), for every
   number system; the real-number theorems are about the Rops instance.
   Abbreviations (Proofs/DouglasGen.v): gbins T x cuts / gorder = the two results of gen_leaf_binning Rops T x cuts,
   glogits x cuts = its local variable `logits`, gleaf = the retained leaf memberships of gen_infer_state. *)
From Coq Require Import Reals List Arith Sorted Permutation Lra.
From Coquelicot Require Import Coquelicot.
From GV Require Import Common.Num Common.NumR Model.Forward Model.Douglas Gen.DouglasRules.
From GV Require Import Proofs.RSumLib Proofs.Douglas Proofs.DouglasGen.
Import ListNotations.
Open Scope R_scope.

(* drift detector: the regenerated definitions are convertible with the golden copies of Proofs/DouglasGen.v
   (what douglas.py said when the proofs were written), for every number system *)
Theorem C15_regenerated_rules_are_documented : forall (T : Type) (o : NumOps T),
  (forall temp x cuts, gen_leaf_binning o temp x cuts = golden_leaf_binning o temp x cuts) /\
  (forall a b, gen_merge_leaf o a b = golden_merge_leaf o a b) /\
  (forall temp cpl K S x, gen_infer_row o temp cpl K S x = golden_infer_row o temp cpl K S x) /\
  (forall temp cpl K S x, gen_infer_state o temp cpl K S x = golden_infer_state o temp cpl K S x) /\
  (forall d n_cuts K mask (draw : nat -> list T), gen_init_params d n_cuts K mask draw = golden_init_params d n_cuts K mask draw) /\
  (forall nrows ncols X cpl, gen_find_active_points o nrows ncols X cpl = golden_find_active_points o nrows ncols X cpl).
Proof. intros T o. repeat split; intros; reflexivity. Qed.

(* the regenerated definitions compute exactly what the executable model computes (all number systems) *)
Theorem C15_regenerated_equals_model : forall (T : Type) (o : NumOps T),
  (forall temp x cuts, gen_leaf_binning o temp x cuts = (bins o temp x cuts, argsort o cuts)) /\
  (forall temp x cuts, gen_leaf_binning_logits o temp x cuts = bin_logits o x cuts) /\
  (forall a b, gen_merge_leaf o a b = merge o a b) /\
  (forall temp cpl K S x, gen_infer_row o temp cpl K S x = infer_row o temp cpl K S x) /\
  (forall temp cpl K S x, gen_infer_state o temp cpl K S x =
     option_map (fun lf => (lf, map (fun fc => argsort o (snd fc)) cpl, all_bins o temp cpl x)) (leaf o temp cpl x)) /\
  (forall d n_cuts K mask (draw : nat -> list T), gen_init_params d n_cuts K mask draw =
     option_map (fun cpl => (cpl, n_cuts, (num_leaf n_cuts cpl, K))) (init_cuts d mask draw)) /\
  (forall nrows ncols X cpl, gen_find_active_points o nrows ncols X cpl = find_active_points o nrows ncols X cpl).
Proof.
  intros T o. exact (conj (gen_leaf_binning_eq o) (conj (gen_leaf_binning_logits_eq o) (conj (gen_merge_leaf_eq o)
    (conj (gen_infer_row_eq o) (conj (gen_infer_state_eq o) (conj (@gen_init_params_eq T) (gen_find_active_points_eq o))))))).
Qed.

(* _init_params: every draw has n_cuts entries, leaf_scores_ has (n_cuts+1)^(number of used features) rows and
   n_clusters columns, cut points are given exactly to the features selected by the mask (all of them without a
   mask), in order; a mask of the wrong length or without any true entry is rejected *)
Theorem C15_mask_selects : forall (T : Type) d n_cuts K (mask : option (list bool)) (draw : nat -> list T) cpl sz shape,
  gen_init_params d n_cuts K mask draw = Some (cpl, sz, shape) -> (forall j, length (draw j) = n_cuts) ->
  sz = n_cuts /\ shape = ((S n_cuts ^ n_used d mask)%nat, K) /\ length cpl = n_used d mask /\
  List.Forall (fun fc => length (snd fc) = n_cuts) cpl /\
  match mask with
  | None => map fst cpl = seq 0 d
  | Some m => (length m = d /\ forall f, In f (map fst cpl) <-> (f < d)%nat /\ nth f m false = true) /\ cpl <> []
  end.
Proof. exact g_init_params. Qed.
Theorem C15_mask_rejected : forall (T : Type) d n_cuts K (m : list bool) (draw : nat -> list T),
  gen_init_params d n_cuts K (Some m) draw = None <-> length m <> d \/ (forall b, In b m -> b = false).
Proof. exact g_init_params_rejects. Qed.

(* predictions do not depend on the columns excluded by the mask: for every number system, every shape,
   every parameter value (whatever training did to cut points and leaf scores) and every row *)
Theorem C15_masked_feature_inert : forall (T : Type) (o : NumOps T) d (mask : list bool) (cpl : list (nat * list T))
    temp K S (x x' : nat -> T),
  used_features d (Some mask) = Some (map fst cpl) ->
  (forall f, (f < d)%nat -> nth f mask false = true -> x f = x' f) ->
  gen_infer_row o temp cpl K S x = gen_infer_row o temp cpl K S x'.
Proof. exact g_masked_feature_inert. Qed.

(* (n_cuts+1)^(number of used features) leaves: the retained leaf vector of _infer is as long as leaf_scores_ has
   rows; one binning and one order per used feature; no used feature = no prediction *)
Theorem C15_leaf_count : forall (T : Type) (o : NumOps T) d mask (draw : nat -> list T) n_cuts K cpl sz shape temp S x,
  gen_init_params d n_cuts K mask draw = Some (cpl, sz, shape) -> (forall j, length (draw j) = n_cuts) ->
  match gen_infer_state o temp cpl K S x with
  | Some (lf, orders, binnings) => length lf = fst shape /\ length binnings = n_used d mask /\ length orders = n_used d mask
  | None => n_used d mask = 0%nat
  end.
Proof. exact g_leaf_count. Qed.

(* cut_points[order] is the sorted permutation of the cut points (any order, duplicates allowed) *)
Theorem C15_sorted_cuts : forall temp x (cuts : list R),
  let s := map (fun i => nth i cuts 0) (gorder temp x cuts) in Permutation s cuts /\ StronglySorted Rle s.
Proof. exact g_sorted_cuts. Qed.

(* memberships of one feature: n_cuts+1 positive numbers summing to one, for every temperature > 0
   (temperature 0 is excluded by parameter validation; Coq's x/0 = 0 would make the statement true but meaningless) *)
Theorem C15_bins_simplex : forall (temp x : R) (cuts : list R), 0 < temp ->
  length (gbins temp x cuts) = S (length cuts) /\
  List.Forall (fun v => 0 < v) (gbins temp x cuts) /\ lsumR (gbins temp x cuts) = 1.
Proof. intros temp x cuts _. exact (g_bins_simplex temp x cuts). Qed.

(* _merge_leaf is the row-major Kronecker product (entry j*len(b)+k = a_j b_k) and maps probability vectors to a
   probability vector; hence (induction over the features in Proofs/Douglas.v) the leaf memberships of every sample *)
Theorem C15_merge_is_simplex : forall a b : list R, prob_vec a -> prob_vec b -> prob_vec (gen_merge_leaf Rops a b).
Proof. exact g_merge_simplex. Qed.
Theorem C15_merge_is_kronecker : forall (a b : list R) j k, (j < length a)%nat -> (k < length b)%nat ->
  length (gen_merge_leaf Rops a b) = (length a * length b)%nat /\
  nth (j * length b + k) (gen_merge_leaf Rops a b) 0 = nth j a 0 * nth k b 0.
Proof. exact g_merge_kronecker. Qed.
Theorem C15_leaf_simplex : forall temp cpl x lf, 0 < temp -> gleaf temp cpl x = Some lf -> prob_vec lf.
Proof. intros temp cpl x lf _. exact (g_leaf_simplex temp cpl x lf). Qed.

(* for every list of cut points (sorted or not, duplicates allowed) and every x different from all cuts the
   largest bin logit — and the largest membership — is attained exactly at index #{c | c < x} *)
Theorem C15_argmax_bin_is_count_below : forall (cuts : list R) (x : R), (forall c, In c cuts -> c <> x) ->
  length (glogits x cuts) = S (length cuts) /\ (count_below x cuts <= length cuts)%nat /\
  (forall j, (j <= length cuts)%nat -> j <> count_below x cuts ->
     nth j (glogits x cuts) 0 < nth (count_below x cuts) (glogits x cuts) 0) /\
  (forall temp, 0 < temp -> forall j, (j <= length cuts)%nat -> j <> count_below x cuts ->
     nth j (gbins temp x cuts) 0 < nth (count_below x cuts) (gbins temp x cuts) 0).
Proof. exact g_argmax. Qed.

(* with g <= distance from x to every cut point (e.g. the distance to the nearest one):
   membership of bin #{c < x}  >=  1 / (1 + n_cuts exp(-g/T))  >=  1 - n_cuts T / g *)
Theorem C15_membership_bound : forall (cuts : list R) (x temp g : R), 0 < temp -> 0 < g ->
  (forall c, In c cuts -> g <= Rabs (x - c)) ->
  1 / (1 + INR (length cuts) * exp (- g / temp)) <= nth (count_below x cuts) (gbins temp x cuts) 0 /\
  1 - INR (length cuts) * (temp / g) <= nth (count_below x cuts) (gbins temp x cuts) 0 <= 1.
Proof. exact g_membership_bound. Qed.

(* the limit itself: as T -> 0+ the membership of bin #{c < x} tends to 1 (the soft binning becomes the hard one) *)
Theorem C15_membership_limit : forall (cuts : list R) (x : R), (forall c, In c cuts -> c <> x) ->
  filterlim (fun temp : R => nth (count_below x cuts) (gbins temp x cuts) 0) (at_right 0) (locally 1).
Proof. exact g_membership_limit. Qed.

(* a sample's cell is given, feature by feature, by how many cut points lie below its value *)
Theorem C15_cell_index_counts : forall cpl (x x' : nat -> R),
  map (fun fc => count_below (x (fst fc)) (snd fc)) cpl = map (fun fc => count_below (x' (fst fc)) (snd fc)) cpl ->
  cell_index cpl x = cell_index cpl x'.
Proof. exact cell_index_counts. Qed.

(* inside a cell, at distance >= g from every cut point, with |leaf_scores| <= M, m used features and at most
   n cut points each: the prediction is softmax(leaf_scores_[cell]) up to the factor exp(4 M m n exp(-g/T)),
   and two points of one cell predict the same up to exp(8 M m n exp(-g/T)) *)
Theorem C15_cell_prediction : forall temp g M n cpl K (S : nat -> nat -> R) x, 0 < temp -> 0 < g -> cpl <> [] ->
  in_cell_gap g n cpl x ->
  (forall l k, (l < nleaves cpl)%nat -> (k < K)%nat -> Rabs (S l k) <= M) ->
  exists p, gen_infer_row Rops temp cpl K S x = Some p /\
    forall k, (k < K)%nat ->
      let e := exp (4 * M * (INR (length cpl) * INR n * exp (- g / temp))) in
      let c := softmax_row Rops K (S (cell_index cpl x)) k in
      p k <= e * c /\ c <= e * p k.
Proof. exact g_cell_prediction. Qed.
Theorem C15_cell_constant : forall temp g M n cpl K (S : nat -> nat -> R) x x', 0 < temp -> 0 < g -> cpl <> [] ->
  in_cell_gap g n cpl x -> in_cell_gap g n cpl x' ->
  map (fun fc => count_below (x (fst fc)) (snd fc)) cpl = map (fun fc => count_below (x' (fst fc)) (snd fc)) cpl ->
  (forall l k, (l < nleaves cpl)%nat -> (k < K)%nat -> Rabs (S l k) <= M) ->
  exists p p', gen_infer_row Rops temp cpl K S x = Some p /\ gen_infer_row Rops temp cpl K S x' = Some p' /\
    forall k, (k < K)%nat -> p k <= exp (8 * M * (INR (length cpl) * INR n * exp (- g / temp))) * p' k.
Proof. exact g_cell_constant. Qed.

(* the limit statement of the property: as the temperature goes to zero the prediction of every sample not
   lying on a cut point converges to softmax(leaf_scores_[cell]), a value that depends on the cell only *)
Theorem C15_prediction_limit : forall cpl K (S : nat -> nat -> R) x k, cpl <> [] -> (k < K)%nat ->
  (forall fc, In fc cpl -> forall c, In c (snd fc) -> c <> x (fst fc)) ->
  filterlim (gpred_at cpl K S x k) (at_right 0) (locally (softmax_row Rops K (S (cell_index cpl x)) k)).
Proof. exact g_prediction_limit. Qed.

(* find_active_points (at least one row, every used feature is a column): returns, in the order of the parameter
   list, exactly the used features having a cut point c with X[i,f] < c < X[j,f] for some rows i, j — i.e.
   min(x_f) < c < max(x_f); data lacking a used column is a ValueError, never an IndexError *)
Theorem C15_active_points_spec : forall nrows ncols (X : nat -> nat -> R) cpl, (0 < nrows)%nat -> cpl <> [] ->
  (forall fc, In fc cpl -> (fst fc < ncols)%nat) ->
  exists l, gen_find_active_points Rops nrows ncols X cpl = FapOk l /\
    (exists keep, l = map fst (filter keep cpl)) /\
    (forall f, In f l <-> exists cuts, In (f, cuts) cpl /\
        exists c, In c cuts /\ (exists i, (i < nrows)%nat /\ X i f < c) /\ (exists j, (j < nrows)%nat /\ c < X j f)).
Proof. exact g_active_points_spec. Qed.
Theorem C15_active_points_narrow_data : forall nrows ncols (X : nat -> nat -> R) cpl,
  ((exists fc, In fc cpl /\ (ncols <= fst fc)%nat) -> gen_find_active_points Rops nrows ncols X cpl = FapValueError) /\
  gen_find_active_points Rops nrows ncols X cpl <> FapIndexError.
Proof. exact g_active_points_narrow. Qed.

(* non-vacuity: unsorted cut points [2; 0; 1] on feature 0 of a masked 3-feature model, the value 3/2 lies in
   bin 2 at distance 1/2 from every cut; the hypotheses of the theorems above are met *)
Example C15_nonvacuous :
  let cpl := [(0%nat, [2; 0; 1]); (2%nat, [1])] in
  let x := fun f : nat => match f with 0%nat => 3 / 2 | _ => 0 end in
  used_features 3 (Some [true; false; true]) = Some (map fst cpl) /\
  (exists sz shape, gen_init_params 3 3 2 (Some [true; false; true]) (fun j => match j with 0%nat => [2; 0; 1] | _ => [1; 1; 1] end)
                    = Some ([(0%nat, [2; 0; 1]); (2%nat, [1; 1; 1])], sz, shape)) /\
  count_below (x 0%nat) [2; 0; 1] = 2%nat /\
  in_cell_gap (1 / 2) 3 cpl x /\ cell_index cpl x = 4%nat /\ cpl <> [] /\ NoDup (map fst cpl).
Proof.
  cbv zeta. split; [reflexivity|]. split; [eexists; eexists; reflexivity|]. split.
  { cbn [count_below]. repeat (destruct (Rlt_dec _ _); try lra); reflexivity. }
  split.
  { intros fc [<-|[<-|[]]]; cbn [fst snd length]; (split; [repeat constructor|]); intros c Hc; simpl in Hc;
      repeat (destruct Hc as [<-|Hc]; [unfold Rabs; destruct (Rcase_abs _); lra|]); contradiction. }
  split.
  { unfold cell_index, cell_from, kof. cbn [fst snd length count_below]. repeat (destruct (Rlt_dec _ _); try lra); reflexivity. }
  split; [discriminate|]. cbn. repeat constructor; simpl; intuition discriminate.
Qed.

Print Assumptions C15_regenerated_rules_are_documented.
Print Assumptions C15_regenerated_equals_model.
Print Assumptions C15_mask_selects.
Print Assumptions C15_mask_rejected.
Print Assumptions C15_masked_feature_inert.
Print Assumptions C15_leaf_count.
Print Assumptions C15_sorted_cuts.
Print Assumptions C15_bins_simplex.
Print Assumptions C15_merge_is_simplex.
Print Assumptions C15_merge_is_kronecker.
Print Assumptions C15_leaf_simplex.
Print Assumptions C15_argmax_bin_is_count_below.
Print Assumptions C15_membership_bound.
Print Assumptions C15_membership_limit.
Print Assumptions C15_cell_index_counts.
Print Assumptions C15_cell_prediction.
Print Assumptions C15_cell_constant.
Print Assumptions C15_prediction_limit.
Print Assumptions C15_active_points_spec.
Print Assumptions C15_active_points_narrow_data.
