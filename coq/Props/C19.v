(* C19 — The printed KAURI tree is a faithful description of the fitted tree.
   Statements only; every proof is [exact <lemma of Proofs/KauriPrintGen.v>].
   The statements are about the REGENERATED definitions of Gen/KauriPrintRules.v (gen_empty_tree,
   gen_add_child, gen_predict, gen_render, gen_used_features, gen_names_guard_rejects,
   gen_print_kauri_tree), which translator/tr_kauriprint.py rewrites from gemclus/tree/kauri.py on
   every build; C19_regenerated_rules_are_documented pins them to the hand-written model.
   T = type of thresholds / feature values with an ARBITRARY comparison leb (so the statements
   hold for binary64 as they stand), N = type of user feature names.  [wf] is the shape invariant
   of the arrays; C19_built_wellformed shows it holds after any sequence of _add_child calls. *)
From Coq Require Import List Arith ZArith.
From GV Require Import Model.KauriPrint Gen.KauriPrintRules Proofs.KauriPrint Proofs.KauriPrintGen.
Import ListNotations.

(* drift detector: what the source says now is, function by function and for all inputs, the documented
   hand-written model (Tree.__init__, _add_child, predict per row, print_node, the names guard, the guard cascade) *)
Theorem C19_regenerated_rules_are_documented : forall (T N : Type),
  @gen_empty_tree T = empty_tree /\
  (forall (t : tree T) father s, gen_add_child t father s = add_child t father s) /\
  (forall leb fuel (t : tree T) x node, gen_predict_node leb fuel t x node = predict_node leb fuel t x node) /\
  (forall leb (t : tree T) x, gen_predict leb t x = predict leb t x) /\
  (forall fuel (t : tree T) (names : option (list N)) node, gen_render_node fuel t names node = render_node fuel t names node) /\
  (forall (t : tree T) (names : option (list N)), gen_render t names = render t names) /\
  (forall t : tree T, gen_used_features t = used_features t) /\
  (forall (t : tree T) (ns : list N), gen_names_guard_rejects t ns = names_guard_rejects t ns) /\
  (forall (o : obj T) (na : names_arg N), gen_print_kauri_tree o na = print_kauri_tree o na).
Proof. exact @regenerated_rules_are_documented. Qed.

(* every tree produced from Tree() by _add_child calls (any fathers, any splits) is well-formed:
   the hypotheses [wf t] below are never vacuous for a fitted model *)
Theorem C19_built_wellformed : forall (T : Type) (t : tree T), gen_built t -> wf t.
Proof. exact @gen_built_wf. Qed.

Theorem C19_build_is_built : forall (T : Type) (ops : list (nat * split T)) (t : tree T),
  build ops = Some t -> gen_built t.
Proof. exact @build_gen_built. Qed.

(* the text is complete and readable: printing succeeds, and reading the printed lines back by
   their depth prefixes yields exactly the nested rules the arrays stand for *)
Theorem C19_parse_render_roundtrip : forall (T N : Type) (t : tree T) (names : option (list N)),
  wf t -> gen_names_cover t names ->
  exists toks r, gen_render t names = Some toks /\ abs_tree t names = Some r /\ parse toks = Some r.
Proof. exact @gen_parse_render_roundtrip. Qed.

(* applying those rules to any point gives the cluster predict gives — for every comparison leb,
   every point x, every reader valuation that finds x[f] under the label printed for f *)
Theorem C19_eval_is_predict : forall (T N : Type) (leb : T -> T -> bool) (t : tree T) (names : option (list N))
  (r : rules T N) (x : nat -> T) (val : label N -> T),
  wf t -> gen_names_cover t names -> abs_tree t names = Some r -> gen_val_agrees t names val x ->
  exists c, gen_predict leb t x = Some c /\ eval_rules leb val r = Some c.
Proof. exact @gen_eval_abs_is_predict. Qed.

(* the whole chain print -> read back -> apply *)
Theorem C19_read_back_is_predict : forall (T N : Type) (leb : T -> T -> bool) (t : tree T) (names : option (list N))
  (x : nat -> T) (val : label N -> T),
  wf t -> gen_names_cover t names -> gen_val_agrees t names val x ->
  exists c, gen_predict leb t x = Some c /\ gen_read_back leb t names val = Some c.
Proof. exact @gen_read_back_is_predict. Qed.

(* the two concrete readers satisfy the valuation hypothesis: "X[:, f]" read as column f; a user
   name read as the column carrying that name, provided a used feature's name is not reused *)
Theorem C19_default_valuation : forall (T N : Type) (t : tree T) (x : nat -> T) (dflt : T),
  gen_val_agrees t (@None (list N)) (val_default x dflt) x.
Proof. exact @gen_val_default_agrees. Qed.

Theorem C19_names_valuation : forall (T N : Type) (t : tree T) (eqb : N -> N -> bool) (ns : list N) (x : nat -> T) (dflt : T),
  (forall a b, eqb a b = true <-> a = b) ->
  (forall f g nm, In f (gen_used_features t) -> nth_error ns f = Some nm -> nth_error ns g = Some nm -> g = f) ->
  gen_val_agrees t (Some ns) (val_names eqb ns x dflt) x.
Proof. exact @gen_val_names_agrees. Qed.

(* the name printed on a rule line is the entry of the user's list at the index of the feature that
   node tests (and the line carries that node's depth and threshold) *)
Theorem C19_names_label_used_features : forall (T N : Type) (t : tree T) (ns : list N) (toks : list (token T N)),
  gen_print_kauri_tree (Fitted t) (NList ns) = Printed toks ->
  forall d lab th c, In (TRule d lab th c) toks ->
  exists node f nm, nth_error (features t) node = Some (Some f) /\ nth_error (thresholds t) node = Some (Some th) /\
                    nth_error (depths t) node = Some d /\ nth_error ns f = Some nm /\ lab = LName nm.
Proof. exact @gen_names_label_used_features. Qed.

Theorem C19_default_labels : forall (T N : Type) (t : tree T) (toks : list (token T N)),
  gen_print_kauri_tree (Fitted t) (@NAbsent N) = Printed toks ->
  forall d lab th c, In (TRule d lab th c) toks ->
  exists node f, nth_error (features t) node = Some (Some f) /\ nth_error (thresholds t) node = Some (Some th) /\
                 nth_error (depths t) node = Some d /\ lab = LIdx f.
Proof. exact @gen_default_labels. Qed.

(* the guard as implemented (len(names) <= max(used)) rejects exactly when some used index has no name *)
Theorem C19_names_guard_decision : forall (T N : Type) (t : tree T) (ns : list N),
  gen_names_guard_rejects t ns = true <-> exists f, In f (gen_used_features t) /\ nth_error ns f = None.
Proof. exact @gen_guard_spec. Qed.

(* too few names: rejected, nothing printed; enough names: the complete readable text is printed *)
Theorem C19_too_few_names_rejected : forall (T N : Type) (t : tree T) (ns : list N), wf t ->
  ((exists f, In f (gen_used_features t) /\ nth_error ns f = None) ->
     gen_print_kauri_tree (Fitted t) (NList ns) = ErrNames) /\
  (~ (exists f, In f (gen_used_features t) /\ nth_error ns f = None) ->
     exists toks r, gen_print_kauri_tree (Fitted t) (NList ns) = Printed toks /\
                    abs_tree t (Some ns) = Some r /\ parse toks = Some r).
Proof. exact @gen_too_few_names_rejected. Qed.

Theorem C19_absent_names_printed : forall (T N : Type) (t : tree T), wf t ->
  exists toks r, gen_print_kauri_tree (Fitted t) (@NAbsent N) = Printed toks /\ abs_tree t None = Some r /\ parse toks = Some r.
Proof. exact @gen_absent_names_printed. Qed.

(* the printer never dies after printing part of a built tree *)
Theorem C19_never_half_printed : forall (T N : Type) (t : tree T) (na : names_arg N), wf t ->
  gen_print_kauri_tree (Fitted t) na <> ErrIndex.
Proof. exact @gen_no_crash. Qed.

(* foreign objects and unfitted estimators are refused; text only for a fitted Kauri *)
Theorem C19_guards : forall (T N : Type) (o : obj T) (na : names_arg N),
  (o = Foreign -> gen_print_kauri_tree o na = ErrParam) /\
  (na = NBad -> gen_print_kauri_tree o na = ErrParam) /\
  (o = Unfitted -> na <> NBad -> gen_print_kauri_tree o na = ErrNotFitted) /\
  (forall toks, gen_print_kauri_tree o na = Printed toks -> exists t, o = Fitted t /\ na <> NBad).
Proof. exact @gen_guards. Qed.

(* non-vacuity: a concrete 5-node tree built by two regenerated _add_child calls (T = Z, names = numbers)
   is well-formed, its text is the expected 12 lines, names [7;8] are too few for feature 2 *)
Example C19_nonvacuous :
  exists t1 t : tree Z,
    gen_add_child gen_empty_tree 0 (mkSplit 2 5%Z 0 1) = Some t1 /\ gen_add_child t1 2 (mkSplit 0 (-3)%Z 1 2) = Some t /\
    gen_built t /\ wf t /\ gen_names_cover t (Some [7; 8; 9]) /\
    gen_render t (Some [7; 8; 9]) =
      Some [TNode 0 0; TRule 0 (LName 9) 5%Z LE; TNode 1 1; TCluster 1 0; TRule 0 (LName 9) 5%Z GT;
            TNode 1 2; TRule 1 (LName 7) (-3)%Z LE; TNode 2 3; TCluster 2 1; TRule 1 (LName 7) (-3)%Z GT;
            TNode 2 4; TCluster 2 2] /\
    gen_read_back Z.leb t (@None (list nat)) (val_default (fun f => Z.of_nat (10 * f)) 0%Z) = Some 2 /\
    gen_print_kauri_tree (Fitted t) (NList [7; 8]) = ErrNames.
Proof.
  exists (mkTree [1; -1; -1]%Z [2; -1; -1]%Z [Some 2; None; None] [Some 5%Z; None; None] [0; 0; 1] [0; 1; 1] 3).
  exists (mkTree [1; -1; 3; -1; -1]%Z [2; -1; 4; -1; -1]%Z [Some 2; None; Some 0; None; None]
                 [Some 5%Z; None; Some (-3)%Z; None; None] [0; 0; 1; 1; 2] [0; 1; 1; 2; 2] 5).
  split; [vm_compute; reflexivity|]. split; [vm_compute; reflexivity|].
  assert (B : gen_built (mkTree [1; -1; 3; -1; -1]%Z [2; -1; 4; -1; -1]%Z [Some 2; None; Some 0; None; None]
                 [Some 5%Z; None; Some (-3)%Z; None; None] [0; 0; 1; 1; 2] [0; 1; 1; 2; 2] 5)).
  { apply (gen_built_add (mkTree [1; -1; -1]%Z [2; -1; -1]%Z [Some 2; None; None] [Some 5%Z; None; None] [0; 0; 1] [0; 1; 1] 3)
                         2 (mkSplit 0 (-3)%Z 1 2)); [|vm_compute; reflexivity].
    apply (gen_built_add gen_empty_tree 0 (mkSplit 2 5%Z 0 1)); [apply gen_built_empty | vm_compute; reflexivity]. }
  split; [exact B|]. split; [exact (gen_built_wf _ B)|].
  split; [apply guard_pass_cover; vm_compute; reflexivity|].
  split; [vm_compute; reflexivity|]. split; vm_compute; reflexivity.
Qed.

Print Assumptions C19_regenerated_rules_are_documented.
Print Assumptions C19_built_wellformed.
Print Assumptions C19_build_is_built.
Print Assumptions C19_parse_render_roundtrip.
Print Assumptions C19_eval_is_predict.
Print Assumptions C19_read_back_is_predict.
Print Assumptions C19_default_valuation.
Print Assumptions C19_names_valuation.
Print Assumptions C19_names_label_used_features.
Print Assumptions C19_default_labels.
Print Assumptions C19_names_guard_decision.
Print Assumptions C19_too_few_names_rejected.
Print Assumptions C19_absent_names_printed.
Print Assumptions C19_never_half_printed.
Print Assumptions C19_guards.
