(* C18 — Predictions are per-sample functions of the fitted model.
   Statements only; every proof is [exact <lemma of Proofs/Rowwise.v>].  All statements hold for every
   number system [o : NumOps T] (the reals and binary64 alike), every shape, every parameter value and
   every index map r : nat -> nat (subset, reordering, repetitions, single row). *)
From Coq Require Import List Bool Arith ZArith.
From GV Require Import Common.Num Model.Forward Model.Rowwise Proofs.Rowwise.
Import ListNotations.

(* forward passes: infer theta (X[r]) = (infer theta X)[r], entry by entry *)
Theorem C18_linear_rowwise : forall (T : Type) (o : NumOps T) d K (W : nat -> nat -> T) (b : nat -> T) (r : nat -> nat) (X : nat -> nat -> T) i k,
  linear_infer o d K W b (select r X) i k = select r (linear_infer o d K W b X) i k.
Proof. exact @linear_rowwise. Qed.

Theorem C18_mlp_rowwise : forall (T : Type) (o : NumOps T) d h K (W1 : nat -> nat -> T) (b1 : nat -> T) (W2 : nat -> nat -> T) (b2 : nat -> T)
    (r : nat -> nat) (X : nat -> nat -> T) i k,
  mlp_infer o d h K W1 b1 W2 b2 (select r X) i k = select r (mlp_infer o d h K W1 b1 W2 b2 X) i k.
Proof. exact @mlp_rowwise. Qed.

Theorem C18_sparse_mlp_rowwise : forall (T : Type) (o : NumOps T) d h K (W1 : nat -> nat -> T) (b1 : nat -> T) (W2 : nat -> nat -> T) (b2 : nat -> T)
    (Ws : nat -> nat -> T) (r : nat -> nat) (X : nat -> nat -> T) i k,
  sparse_mlp_infer o d h K W1 b1 W2 b2 Ws (select r X) i k = select r (sparse_mlp_infer o d h K W1 b1 W2 b2 Ws X) i k.
Proof. exact @sparse_mlp_rowwise. Qed.

Theorem C18_douglas_rowwise : forall (T : Type) (o : NumOps T) nc temp cuts nleaf K (scores : nat -> nat -> T) (r : nat -> nat) (X : nat -> nat -> T) i k,
  douglas_infer o nc temp cuts nleaf K scores (select r X) i k = select r (douglas_infer o nc temp cuts nleaf K scores X) i k.
Proof. exact @douglas_rowwise. Qed.

(* stronger form: output row i is a function of input row i (its n_features entries) and the parameters only —
   not of the other rows, of the row's position or of the number of rows *)
Theorem C18_infer_depends_only_on_row : forall (T : Type) (o : NumOps T) (m : model) (X X' : nat -> nat -> T) i i',
  (forall j, j < n_features m -> X i j = X' i' j) ->
  (forall k, infer o m X i k = infer o m X' i' k) /\ predict o m X i = predict o m X' i'.
Proof. exact @infer_predict_row_dependence. Qed.

(* predict_proba is the forward pass with retain=False, predict its row-wise argmax; both commute with row selection *)
Theorem C18_predict_is_argmax_rowwise : forall (T : Type) (o : NumOps T) (m : model) (r : nat -> nat) (X : nat -> nat -> T),
  (forall i k, predict_proba o m (select r X) i k = select r (predict_proba o m X) i k) /\
  (forall i, predict o m (select r X) i = select_vec r (predict o m X) i) /\
  (forall i, predict o m X i = argmax_row o (n_clusters m) (predict_proba o m X i)).
Proof. exact @predict_rowwise. Qed.

(* the hidden activations retained by a previous training pass (H_) never reach an output, and a
   prediction (retain=False) does not overwrite them *)
Theorem C18_mlp_retained_state_irrelevant : forall (T : Type) (o : NumOps T) d h K (W1 : nat -> nat -> T) (b1 : nat -> T) (W2 : nat -> nat -> T) (b2 : nat -> T)
    (Ws : nat -> nat -> T) (H_ : option (nat -> nat -> T)) (retain : bool) (X : nat -> nat -> T),
  (fst (mlp_infer_st o d h K W1 b1 W2 b2 H_ retain X) = mlp_infer o d h K W1 b1 W2 b2 X /\
   snd (mlp_infer_st o d h K W1 b1 W2 b2 H_ false X) = H_) /\
  (fst (sparse_mlp_infer_st o d h K W1 b1 W2 b2 Ws H_ retain X) = sparse_mlp_infer o d h K W1 b1 W2 b2 Ws X /\
   snd (sparse_mlp_infer_st o d h K W1 b1 W2 b2 Ws H_ false X) = H_).
Proof. exact @retained_state_irrelevant. Qed.

(* predicting the training data, or any selection of it, reproduces labels_ *)
Theorem C18_train_predict_is_labels : forall (T : Type) (o : NumOps T) (m : model) (Xtrain : nat -> nat -> T) (r : nat -> nat) i,
  predict o m Xtrain i = fit_labels o m Xtrain i /\
  predict o m (select r Xtrain) i = fit_labels o m Xtrain (r i).
Proof. exact @train_predict_is_labels. Qed.

(* KernelRIM: if the kernel oracle is row-wise (row i of kernel(A, B) is determined by row i of A and by B),
   predictions are row-wise, the kernel is taken against the STORED training points, and the training-set
   probabilities / labels equal those computed during fit *)
Theorem C18_kernel_rim_rowwise : forall (T : Type) (o : NumOps T) (kern : (nat -> nat -> T) -> (nat -> nat -> T) -> nat -> nat -> T),
  kernel_rowwise kern ->
  (forall (m : krim) (r : nat -> nat) (X : nat -> nat -> T),
     (forall i k, krim_predict_proba o kern m (select r X) i k = select r (krim_predict_proba o kern m X) i k) /\
     (forall i, krim_predict o kern m (select r X) i = select_vec r (krim_predict o kern m X) i)) /\
  (forall ntrain K (Xtrain W : nat -> nat -> T) (b : nat -> T) (r : nat -> nat),
     let m := krim_fit_store kern ntrain K Xtrain W b in
     (forall i t, krim_compute_kernel kern m Xtrain i t = kr_train_kernel m i t) /\
     (forall i k, krim_predict_proba o kern m Xtrain i k = krim_fit_proba o m i k) /\
     (forall i, krim_predict o kern m Xtrain i = krim_fit_labels o m i) /\
     (forall i k, krim_predict_proba o kern m (select r Xtrain) i k = krim_fit_proba o m (r i) k) /\
     (forall i, krim_predict o kern m (select r Xtrain) i = krim_fit_labels o m (r i))).
Proof. exact @kernel_rim_rowwise. Qed.

(* refit on the same object: predictions are those of the last fit alone (nothing left by an earlier fit is
   read) and the training predictions are the last fit's labels_.  In the model this is by construction - fit
   re-assigns every attribute predict reads and there is no prediction-time cache; that the CODE has this
   shape is checked by the refit stream of harness/c18.py (and by C12's lifecycle tables). *)
Theorem C18_refit_history_independent : forall (T : Type) (o : NumOps T) (kern : (nat -> nat -> T) -> (nat -> nat -> T) -> nat -> nat -> T)
    (prev1 prev2 : option model) (kprev1 kprev2 : option krim) (learned : model) ntrain K (Xtrain W : nat -> nat -> T) (b : nat -> T)
    (X : nat -> nat -> T) i,
  (forall k, predict_proba o (refit prev1 learned) X i k = predict_proba o (refit prev2 learned) X i k) /\
  predict o (refit prev1 learned) X i = predict o (refit None learned) X i /\
  predict o (refit prev1 learned) Xtrain i = fit_labels o learned Xtrain i /\
  (forall k, krim_predict_proba o kern (krim_refit kern kprev1 ntrain K Xtrain W b) X i k =
             krim_predict_proba o kern (krim_refit kern kprev2 ntrain K Xtrain W b) X i k) /\
  kr_input (krim_refit kern kprev1 ntrain K Xtrain W b) = Xtrain /\
  krim_predict o kern (krim_refit kern kprev1 ntrain K Xtrain W b) Xtrain i =
    krim_fit_labels o (krim_fit_store kern ntrain K Xtrain W b) i.
Proof. exact @refit_history_independent. Qed.

(* Tree.predict: whenever the mask-based recursion returns, it returns one label per row, and the label of
   row i is the label reached by routing row i alone *)
Theorem C18_tree_predict_rowwise : forall (T : Type) (o : NumOps T) fuel (t : @atree T) (X : list (nat -> T)) node v (dx : nat -> T),
  predict_vec o fuel t X node = Ok v ->
  length v = length X /\ forall i, i < length X -> route o fuel t (nth i X dx) node = Ok (nth i v 0%Z).
Proof. exact @predict_vec_rowwise_nth. Qed.

(* on a well-formed tree it always returns (no exception, fuel = number of nodes suffices), whatever the rows *)
Theorem C18_tree_predict_total : forall (T : Type) (o : NumOps T) (t : @atree T) (X : list (nat -> T)),
  wf t -> 0 < length (a_left t) -> exists v, tree_predict o t X = Ok v.
Proof. exact @tree_predict_total. Qed.

(* and predicting a selection of the rows (subset, reordering, repetitions, single row) is the selection of the predictions *)
Theorem C18_tree_predict_select : forall (T : Type) (o : NumOps T) (t : @atree T) (X : list (nat -> T)) v (dx : nat -> T) (r : list nat),
  wf t -> tree_predict o t X = Ok v -> Forall (fun i => i < length X) r ->
  tree_predict o t (select_rows dx r X) = Ok (select_rows 0%Z r v).
Proof. exact @tree_predict_select. Qed.

(* non-vacuity: a well-formed 5-node tree routes 4 concrete rows, a selection with a repetition commutes,
   and the linear kernel satisfies the hypothesis made on the kernel oracle (in every number system) *)
Example C18_nonvacuous :
  wf ex_tree /\ 0 < length (a_left ex_tree) /\
  tree_predict Zops ex_tree ex_rows = Ok [0; 1; 0; 0]%Z /\
  tree_predict Zops ex_tree (select_rows (fun _ => 0%Z) [2; 2; 0; 1] ex_rows) = Ok [0; 0; 0; 1]%Z /\
  (forall (T : Type) (o : NumOps T) d, kernel_rowwise (linear_kernel o d)).
Proof.
  split; [exact ex_tree_wf|]. split; [repeat constructor|].
  split; [exact (proj1 ex_tree_predict)|]. split; [exact (proj2 ex_tree_predict)|]. exact @linear_kernel_rowwise.
Qed.

Print Assumptions C18_linear_rowwise.
Print Assumptions C18_mlp_rowwise.
Print Assumptions C18_sparse_mlp_rowwise.
Print Assumptions C18_douglas_rowwise.
Print Assumptions C18_infer_depends_only_on_row.
Print Assumptions C18_predict_is_argmax_rowwise.
Print Assumptions C18_mlp_retained_state_irrelevant.
Print Assumptions C18_train_predict_is_labels.
Print Assumptions C18_kernel_rim_rowwise.
Print Assumptions C18_refit_history_independent.
Print Assumptions C18_tree_predict_rowwise.
Print Assumptions C18_tree_predict_total.
Print Assumptions C18_tree_predict_select.
