(* C12 — Fitting is reproducible, history-independent and free of side effects.
   Statements only; every proof is [exact <lemma of Proofs/Lifecycle.v>].
   [table] is Gen/AttrFlow.v, regenerated from /repo on every build: the finite facts are re-decided
   (vm_compute) against what the code says now.  The operational statements hold for every
   interpretation I of the primitive steps (what a store writes, which branch is taken, how often a
   loop runs, where an exception is raised: arbitrary functions of the program point and of what the
   call has observed of the object so far; data, affinity and seed are part of I). *)
From Coq Require Import List String Bool.
From GV Require Import Model.Lifecycle Gen.AttrFlow Proofs.Lifecycle.
Import ListNotations.
Open Scope string_scope.

(* the table covers exactly the 18 estimator classes (plus their abstract base) *)
Theorem C12_table_classes :
  map k_name (filter k_concrete table) =
  ["LinearModel"; "LinearMMD"; "LinearWasserstein"; "RIM"; "KernelRIM"; "MLPModel"; "MLPMMD"; "MLPWasserstein";
   "SparseLinearModel"; "SparseLinearMMD"; "SparseLinearMI"; "SparseMLPModel"; "SparseMLPMMD";
   "CategoricalModel"; "CategoricalMMD"; "CategoricalWasserstein"; "Douglas"; "Kauri"].
Proof. exact table_classes. Qed.

(* the finite data-flow facts, for every class of the table:
   - along fit's flattened event tree every fitted attribute is stored before it is loaded, on every path
     (branches intersect, loops may run zero times, handlers also run after an interruption);
   - every fitted attribute any public call can leave behind is re-stored by every complete fit;
   - fit stores into no attribute of the constructor chain;
   - predict / predict_proba / score contain no store at all (the retain=False argument of _infer is evaluated);
   - path stores into a hyper-parameter only inside  v = self.a; try: ... finally: self.a = v ;
   - path has no stale load either and re-stores every fitted attribute;
   - all calls resolve inside gemclus; attributes are hyper-parameters or follow the fitted naming convention;
   - every constructor argument is stored exactly once, under its own name, unmodified. *)
Theorem C12_dataflow_facts : forall k, In k table ->
  no_stale_read k = true /\ fit_overwrites_all k = true /\ no_hyperparam_write k = true /\
  predict_methods_write_nothing k = true /\ path_restores_params k = true /\ path_no_stale_read k = true /\
  resolved k = true /\ classified k = true /\ stores_ok k = true.
Proof. exact facts_of. Qed.

(* after ANY sequence h of public calls (fit, fit_predict, predict, predict_proba, score, path, set_params,
   clone; each possibly interrupted by an exception) on an object that started without fitted attributes,
   fit behaves exactly as on a fresh object with the same hyper-parameters: it is interrupted in the same
   way or, if it completes, leaves the same value in every attribute *)
Theorem C12_fit_history_independent : forall k, In k table ->
  forall (V : Type) (I : string -> nat -> interp V) (h : list (op V)) (s0 : dict V) (d : nat),
  (forall a, mem a (hps k) = false -> mem a (dom k) = false -> s0 a = None) ->
  let s := run I k h s0 in
  let r1 := call I k "fit" d s in
  let r2 := call I k "fit" d (fresh k s) in
  snd r1 = snd r2 /\ (snd r1 = false -> forall a, fst r1 a = fst r2 a).
Proof. exact fit_history_independent. Qed.

(* the same for path, on the classes that have it *)
Theorem C12_path_history_independent : forall k, In k table -> has_method k "path" = true ->
  forall (V : Type) (I : string -> nat -> interp V) (h : list (op V)) (s0 : dict V) (d : nat),
  (forall a, mem a (hps k) = false -> mem a (dom k) = false -> s0 a = None) ->
  let s := run I k h s0 in
  let r1 := call I k "path" d s in
  let r2 := call I k "path" d (fresh k s) in
  snd r1 = snd r2 /\ (snd r1 = false -> forall a, fst r1 a = fst r2 a).
Proof. exact path_history_independent. Qed.

(* fit leaves every attribute of the constructor chain as it was, also when it is interrupted *)
Theorem C12_fit_preserves_params : forall k, In k table ->
  forall (V : Type) (I : string -> nat -> interp V) (d : nat) (s : dict V) (a : string),
  mem a (hps k) = true -> fst (call I k "fit" d s) a = s a.
Proof. exact fit_preserves_params. Qed.

(* path too: whatever it stores into alpha is undone by the finally clause, also when it is interrupted *)
Theorem C12_path_preserves_params : forall k, In k table ->
  forall (V : Type) (I : string -> nat -> interp V) (d : nat) (s : dict V) (a : string),
  mem a (hps k) = true -> fst (call I k "path" d s) a = s a.
Proof. exact path_preserves_params. Qed.

(* predict, predict_proba and score change no attribute at all *)
Theorem C12_predict_changes_nothing : forall k, In k table ->
  forall m, In m ["predict"; "predict_proba"; "score"] ->
  forall (V : Type) (I : string -> nat -> interp V) (d : nat) (s : dict V) (a : string),
  fst (call I k m d s) a = s a.
Proof. exact predict_changes_nothing. Qed.

(* get_params after the constructor returns exactly the arguments; every argument sits unmodified under its
   own name; a clone (the class called with get_params) carries the same hyper-parameter part;
   set_params applied to the result of get_params changes nothing *)
Theorem C12_params_roundtrip : forall k, In k table ->
  forall (V : Type) (cv args : string -> V) (dflt : V),
  get_params k (construct k cv args) = map (fun a => (a, Some (args a))) (k_args k) /\
  (forall a, mem a (k_args k) = true -> construct k cv args a = Some (args a)) /\
  (forall a, clone k cv dflt (construct k cv args) a = construct k cv args a) /\
  (forall (s : dict V) a, set_params k (present (get_params k s)) s a = s a).
Proof. exact params_roundtrip. Qed.

(* non-vacuity: a concrete interpretation under which a history on SparseMLPModel (fit, set_params(alpha),
   path, predict) and the final fit all run to completion; the final fit stores the weights, and the
   hypotheses of the theorems above are met *)
Example C12_nonvacuous :
  In k_SparseMLPModel table /\ has_method k_SparseMLPModel "path" = true /\
  (forall a, mem a (hps k_SparseMLPModel) = false -> mem a (dom k_SparseMLPModel) = false -> nv_start a = None) /\
  snd (call nv_interp k_SparseMLPModel "path" 1 (run nv_interp k_SparseMLPModel [OFit 0; OSetParams [("alpha", 7)]] nv_start)) = false /\
  let r := call nv_interp k_SparseMLPModel "fit" 2 (run nv_interp k_SparseMLPModel nv_history nv_start) in
  snd r = false /\ fst r "W_skip_" <> None /\ fst r "alpha" = Some 7.
Proof. exact nonvacuous. Qed.

Print Assumptions C12_table_classes.
Print Assumptions C12_dataflow_facts.
Print Assumptions C12_fit_history_independent.
Print Assumptions C12_path_history_independent.
Print Assumptions C12_fit_preserves_params.
Print Assumptions C12_path_preserves_params.
Print Assumptions C12_predict_changes_nothing.
Print Assumptions C12_params_roundtrip.
