(* C04 — fit succeeds on every valid configuration and yields a coherent model.
   Statements only; every proof is [exact <lemma of Proofs/Coherence.v>].

   WHAT IS PROVED HERE is the "coherent model" half, for every number of clusters K >= 1, every fitted
   parameter value [p] of every gradient-trained family (Model/Coherence.v: params — linear, MLP,
   sparse MLP, categorical, kernel RIM, and "softmax of arbitrary logits" which covers Douglas), every
   data matrix and every row: predict_proba rows are probability vectors of length K, predict is the
   first arg-max of predict_proba and lies in [0, K), labels_ is predict on the training data, score is the
   GEMINI of predict_proba on the given data, n_iter_ is max_iter, the optimiser is the one named by
   solver; Kauri labels lie in [0, max_clusters) and a tree exists (corollary of the C09 development).

   WHAT IS NOT A THEOREM: "fit terminates without raising for every configuration the estimator's own
   validation accepts".  That half is a statement about the Python runtime (numpy / scikit-learn / POT
   behaviour, exceptions, shapes) over a finite configuration grammar; it is decided by exhaustive
   enumeration of that grammar in harness/c04.py (quick tier: covering sample, thorough tier: full grid),
   not by a theorem.  The property is therefore claimed as: coherence = proof, no-raise = enumeration.
   The tie between these models and /repo is the correspondence of harness/c04.py (extracted model run on
   the fitted parameters of real fits). *)
From Coq Require Import Reals Lra Lia List Arith String.
From GV Require Import Common.Num Common.NumR Model.Forward Model.Coherence Proofs.RSumLib Proofs.Coherence.
From GV Require Model.KauriTree Proofs.KauriTree.
Open Scope R_scope.

(* softmax: for every K >= 1 and all real logits every entry is > 0 and the row sums to 1 *)
Theorem C04_softmax_simplex : forall (K : nat) (z : nat -> R), (1 <= K)%nat ->
  (forall k, 0 < softmax_row Rops K z k) /\ rsum K (softmax_row Rops K z) = 1.
Proof. intros K z HK. split; [intros k; apply softmax_row_pos; exact HK | apply softmax_row_sum; exact HK]. Qed.

(* ... hence every entry is <= 1, and < 1 as soon as there are two clusters *)
Theorem C04_softmax_le_one : forall (K : nat) (z : nat -> R) k, (k < K)%nat ->
  softmax_row Rops K z k <= 1 /\ ((2 <= K)%nat -> softmax_row Rops K z k < 1).
Proof. intros K z k Hk. split; [apply softmax_row_le_one; exact Hk | intros H2; apply softmax_row_lt_one; assumption]. Qed.

(* the row maximum is cancelled: every exponent is <= 0 and the normaliser lies in [1, K]
   (no overflow, no division by a vanishing sum) *)
Theorem C04_softmax_normaliser_bounds : forall (K : nat) (z : nat -> R), (1 <= K)%nat ->
  (forall k, (k < K)%nat -> z k - vmax Rops K z <= 0) /\ 1 <= sm_S K z <= INR K /\
  (forall k, softmax_row Rops K z k = exp (z k - vmax Rops K z) / sm_S K z).
Proof.
  intros K z HK. split; [intros k Hk; apply exponent_nonpos; exact Hk|].
  split; [split; [apply S_ge_one; exact HK | apply S_le_K] | intros k; apply softmax_row_unfold].
Qed.

(* arg-max lies in [0, K) — in every number system, floats included *)
Theorem C04_argmax_in_range : forall (T : Type) (o : NumOps T) (K : nat) (z : nat -> T), (1 <= K)%nat ->
  (argmax_row o K z < K)%nat.
Proof. exact @argmax_in_range. Qed.

(* arg-max is a maximiser, the first one on ties, and that determines it *)
Theorem C04_argmax_is_max : forall (K : nat) (z : nat -> R),
  (forall k, (k < K)%nat -> z k <= z (argmax_row Rops K z)) /\
  (forall k, (k < argmax_row Rops K z)%nat -> z k < z (argmax_row Rops K z)) /\
  (forall j, (j < K)%nat -> (forall k, (k < K)%nat -> z k <= z j) -> (forall k, (k < j)%nat -> z k < z j) ->
     argmax_row Rops K z = j).
Proof.
  intros K z. split; [intros k; apply argmax_is_max|]. split; [intros k; apply argmax_first_on_ties|].
  intros j; apply argmax_unique.
Qed.

(* predict = arg-max of predict_proba (any family, any number system) *)
Theorem C04_predict_is_argmax_of_proba : forall (T : Type) (o : NumOps T) K (p : params) (X : @Mat T) i,
  predict o K p X i = argmax_row o K (predict_proba o K p X i).
Proof. exact @predict_is_argmax_of_proba. Qed.

(* labels_ = predict on the training data *)
Theorem C04_labels_are_train_predict : forall (T : Type) (o : NumOps T) K (p : params) (Xtrain : @Mat T) i,
  fit_labels o K p Xtrain i = predict o K p Xtrain i.
Proof. exact @labels_are_train_predict. Qed.

(* labels_ and predictions lie in [0, n_clusters) *)
Theorem C04_labels_in_range : forall (T : Type) (o : NumOps T) K (p : params) (X : @Mat T) i, (1 <= K)%nat ->
  (fit_labels o K p X i < K)%nat /\ (predict o K p X i < K)%nat.
Proof. exact @labels_in_range. Qed.

(* predict_proba rows are probability vectors of length n_clusters, for every family and every fitted
   parameter value, on any data (training or not) *)
Theorem C04_proba_is_probability_vector : forall K (p : params) (X : @Mat R) i, (1 <= K)%nat ->
  (forall k, 0 < predict_proba Rops K p X i k) /\
  rsum K (predict_proba Rops K p X i) = 1 /\
  (forall k, (k < K)%nat -> predict_proba Rops K p X i k <= 1).
Proof. exact proba_is_probability_vector. Qed.

(* the predicted cluster is a most probable one, the first such *)
Theorem C04_predict_most_probable : forall K (p : params) (X : @Mat R) i, (1 <= K)%nat ->
  (forall k, (k < K)%nat -> predict_proba Rops K p X i k <= predict_proba Rops K p X i (predict Rops K p X i)) /\
  (forall k, (k < predict Rops K p X i)%nat -> predict_proba Rops K p X i k < predict_proba Rops K p X i (predict Rops K p X i)).
Proof. exact predict_most_probable. Qed.

(* score = GEMINI(predict_proba(X), affinity(X)) for any GEMINI and affinity function *)
Theorem C04_score_is_gemini_of_proba : forall (T A : Type) (o : NumOps T) (gemini : @Mat T -> A -> T) (affinity : @Mat T -> A) K (p : params) X,
  score o gemini affinity K p X = gemini (predict_proba o K p X) (affinity X).
Proof. exact @score_is_gemini_of_proba. Qed.

(* n_iter_ = max_iter = number of epochs the loop runs *)
Theorem C04_n_iter_is_max_iter : forall max_iter, n_iter max_iter = max_iter /\ n_iter max_iter = epochs_run max_iter.
Proof. exact n_iter_is_max_iter. Qed.

(* the optimiser is SGD exactly for solver "sgd" and Adam exactly for "adam" (the two accepted values);
   the code's else-branch sends anything else to Adam, which validation makes unreachable *)
Theorem C04_optimiser_matches_solver : forall s, solver_accepted s = true ->
  (optimiser_of s = SGDOptimizer <-> s = "sgd"%string) /\ (optimiser_of s = AdamOptimizer <-> s = "adam"%string).
Proof. exact optimiser_matches_solver. Qed.

(* Kauri: labels in [0, max_clusters) and a non-empty tree, for every finished fit of the C09 model *)
Theorem C04_kauri_labels_lt_max_clusters :
  forall (P : GV.Model.KauriTree.params) d X choose st,
  GV.Proofs.KauriTree.valid P d X -> GV.Proofs.KauriTree.oracle_ok P d X choose ->
  GV.Model.KauriTree.fit P X choose = GV.Model.KauriTree.Done st ->
  (forall i, (i < List.length X)%nat -> (GV.Model.KauriTree.label_of P X st i < GV.Model.KauriTree.max_clusters P)%nat) /\
  (1 <= List.length (GV.Model.KauriTree.st_tree st))%nat.
Proof. exact kauri_labels_lt_max_clusters. Qed.

(* non-vacuity: the hypotheses (K >= 1, k < K, an accepted solver) are met by a concrete non-trivial row of
   K = 3 logits with a tie between the last two entries: the first maximiser is chosen, its probability
   lies strictly between 0 and 1, and "sgd" selects the SGD optimiser *)
Example C04_nonvacuous :
  let z : nat -> R := fun k => match k with 0%nat => 1 | 1%nat => 3 | 2%nat => 3 | _ => 0 end in
  (1 <= 3)%nat /\ (2 <= 3)%nat /\ argmax_row Rops 3 z = 1%nat /\
  0 < softmax_row Rops 3 z (argmax_row Rops 3 z) < 1 /\
  solver_accepted "sgd" = true /\ solver_accepted "adam" = true /\ optimiser_of "sgd" = SGDOptimizer.
Proof.
  cbv zeta. set (z := fun k : nat => match k with 0%nat => 1 | 1%nat => 3 | 2%nat => 3 | _ => 0 end).
  assert (Ha : argmax_row Rops 3 z = 1%nat).
  { apply argmax_unique; [lia | |].
    - intros k Hk. destruct k as [|[|[|k]]]; unfold z; try lra; lia.
    - intros k Hk. destruct k as [|k]; unfold z; [lra | lia]. }
  split; [repeat constructor|]. split; [repeat constructor|]. split; [exact Ha|].
  split; [split; [apply softmax_row_pos; repeat constructor | apply softmax_row_lt_one; [repeat constructor | rewrite Ha; repeat constructor]]|].
  repeat split; reflexivity.
Qed.

Print Assumptions C04_softmax_simplex.
Print Assumptions C04_softmax_le_one.
Print Assumptions C04_softmax_normaliser_bounds.
Print Assumptions C04_argmax_in_range.
Print Assumptions C04_argmax_is_max.
Print Assumptions C04_predict_is_argmax_of_proba.
Print Assumptions C04_labels_are_train_predict.
Print Assumptions C04_labels_in_range.
Print Assumptions C04_proba_is_probability_vector.
Print Assumptions C04_predict_most_probable.
Print Assumptions C04_score_is_gemini_of_proba.
Print Assumptions C04_n_iter_is_max_iter.
Print Assumptions C04_optimiser_matches_solver.
Print Assumptions C04_kauri_labels_lt_max_clusters.
