(* C04 — fit succeeds on every valid configuration and yields a coherent model.
   Statements only; every proof is [exact <lemma of Proofs/Coherence.v>].

   WHAT IS PROVED HERE is the "coherent model" half, for every number of clusters K >= 1, every fitted
   parameter value [p] of every gradient-trained family (Model/Coherence.v: params — linear, MLP,
   sparse MLP, categorical, kernel RIM, and "softmax of arbitrary logits" which covers Douglas), every
   data matrix and every row: predict_proba rows are probability vectors of length K, predict is the
   first arg-max of predict_proba and lies in [0, K), labels_ is predict on the training data, score is the
   GEMINI of predict_proba on the given data, n_iter_ is max_iter, the optimiser is the one named by
   solver; Kauri labels lie in [0, max_clusters) and a tree exists (corollary of the C09 development).

   WHAT IS NOT A THEOREM: "fit terminates without raising for every configuration the estimator's own
   validation accepts".  That half is a statement about the Python runtime (numpy / scikit-learn / POT
   behaviour, exceptions, shapes) over a finite configuration grammar; it is decided by exhaustive
   enumeration of that grammar in harness/c04.py (quick tier: covering sample, thorough tier: full grid),
   not by a theorem.  The property is therefore claimed as: coherence = proof, no-raise = enumeration.
   The tie between these models and /repo is (i) the correspondence of harness/c04.py (extracted model run on
   the fitted parameters of real fits) and (ii) the REGENERATED tie of the second half of this file: the bodies of
   fit (before / after its training loop), fit_predict, predict_proba, predict, score, KernelRIM's and the sparse
   models' overrides and the tail of Kauri.fit / Kauri.predict / Kauri.score are re-translated from /repo on
   every build by translator/tr_coherence.py into Gen/CoherenceRules.v; the C04_regenerated_* theorems state
   that interpreting those regenerated bodies yields exactly the hand-written relations the theorems above are
   about.  What stays tied by correspondence only: the _infer forward passes (Model/Forward.v), the training
   loop (C03/C10), the GEMINI and its affinity (C01/C11), and the meaning given to the library calls
   check_array / validate_data / check_is_fitted (identity / no-op on valid finite data). *)
From Coq Require Import Reals Lra Lia List Bool Arith String ZArith.
From GV Require Import Common.Num Common.NumR Model.Forward Model.Coherence Proofs.RSumLib Proofs.Coherence.
From GV Require Import Model.CoherenceSyntax Model.CoherenceInterp Gen.CoherenceRules Proofs.CoherenceGen.
From GV Require Model.KauriTree Proofs.KauriTree.
Import ListNotations.
Open Scope R_scope.

(* softmax: for every K >= 1 and all real logits every entry is > 0 and the row sums to 1 *)
Theorem C04_softmax_simplex : forall (K : nat) (z : nat -> R), (1 <= K)%nat ->
  (forall k, 0 < softmax_row Rops K z k) /\ rsum K (softmax_row Rops K z) = 1.
Proof. intros K z HK. split; [intros k; apply softmax_row_pos; exact HK | apply softmax_row_sum; exact HK]. Qed.

(* ... hence every entry is <= 1, and < 1 as soon as there are two clusters *)
Theorem C04_softmax_le_one : forall (K : nat) (z : nat -> R) k, (k < K)%nat ->
  softmax_row Rops K z k <= 1 /\ ((2 <= K)%nat -> softmax_row Rops K z k < 1).
Proof. intros K z k Hk. split; [apply softmax_row_le_one; exact Hk | intros H2; apply softmax_row_lt_one; assumption]. Qed.

(* the row maximum is cancelled: every exponent is <= 0 and the normaliser lies in [1, K]
   (no overflow, no division by a vanishing sum) *)
Theorem C04_softmax_normaliser_bounds : forall (K : nat) (z : nat -> R), (1 <= K)%nat ->
  (forall k, (k < K)%nat -> z k - vmax Rops K z <= 0) /\ 1 <= sm_S K z <= INR K /\
  (forall k, softmax_row Rops K z k = exp (z k - vmax Rops K z) / sm_S K z).
Proof.
  intros K z HK. split; [intros k Hk; apply exponent_nonpos; exact Hk|].
  split; [split; [apply S_ge_one; exact HK | apply S_le_K] | intros k; apply softmax_row_unfold].
Qed.

(* arg-max lies in [0, K) — in every number system, floats included *)
Theorem C04_argmax_in_range : forall (T : Type) (o : NumOps T) (K : nat) (z : nat -> T), (1 <= K)%nat ->
  (argmax_row o K z < K)%nat.
Proof. exact @argmax_in_range. Qed.

(* arg-max is a maximiser, the first one on ties, and that determines it *)
Theorem C04_argmax_is_max : forall (K : nat) (z : nat -> R),
  (forall k, (k < K)%nat -> z k <= z (argmax_row Rops K z)) /\
  (forall k, (k < argmax_row Rops K z)%nat -> z k < z (argmax_row Rops K z)) /\
  (forall j, (j < K)%nat -> (forall k, (k < K)%nat -> z k <= z j) -> (forall k, (k < j)%nat -> z k < z j) ->
     argmax_row Rops K z = j).
Proof.
  intros K z. split; [intros k; apply argmax_is_max|]. split; [intros k; apply argmax_first_on_ties|].
  intros j; apply argmax_unique.
Qed.

(* predict = arg-max of predict_proba (any family, any number system) *)
Theorem C04_predict_is_argmax_of_proba : forall (T : Type) (o : NumOps T) K (p : params) (X : @Mat T) i,
  predict o K p X i = argmax_row o K (predict_proba o K p X i).
Proof. exact @predict_is_argmax_of_proba. Qed.

(* labels_ = predict on the training data *)
Theorem C04_labels_are_train_predict : forall (T : Type) (o : NumOps T) K (p : params) (Xtrain : @Mat T) i,
  fit_labels o K p Xtrain i = predict o K p Xtrain i.
Proof. exact @labels_are_train_predict. Qed.

(* labels_ and predictions lie in [0, n_clusters) *)
Theorem C04_labels_in_range : forall (T : Type) (o : NumOps T) K (p : params) (X : @Mat T) i, (1 <= K)%nat ->
  (fit_labels o K p X i < K)%nat /\ (predict o K p X i < K)%nat.
Proof. exact @labels_in_range. Qed.

(* predict_proba rows are probability vectors of length n_clusters, for every family and every fitted
   parameter value, on any data (training or not) *)
Theorem C04_proba_is_probability_vector : forall K (p : params) (X : @Mat R) i, (1 <= K)%nat ->
  (forall k, 0 < predict_proba Rops K p X i k) /\
  rsum K (predict_proba Rops K p X i) = 1 /\
  (forall k, (k < K)%nat -> predict_proba Rops K p X i k <= 1).
Proof. exact proba_is_probability_vector. Qed.

(* the predicted cluster is a most probable one, the first such *)
Theorem C04_predict_most_probable : forall K (p : params) (X : @Mat R) i, (1 <= K)%nat ->
  (forall k, (k < K)%nat -> predict_proba Rops K p X i k <= predict_proba Rops K p X i (predict Rops K p X i)) /\
  (forall k, (k < predict Rops K p X i)%nat -> predict_proba Rops K p X i k < predict_proba Rops K p X i (predict Rops K p X i)).
Proof. exact predict_most_probable. Qed.

(* score = GEMINI(predict_proba(X), affinity(X)) for any GEMINI and affinity function *)
Theorem C04_score_is_gemini_of_proba : forall (T A : Type) (o : NumOps T) (gemini : @Mat T -> A -> T) (affinity : @Mat T -> A) K (p : params) X,
  score o gemini affinity K p X = gemini (predict_proba o K p X) (affinity X).
Proof. exact @score_is_gemini_of_proba. Qed.

(* n_iter_ = max_iter = number of epochs the loop runs *)
Theorem C04_n_iter_is_max_iter : forall max_iter, n_iter max_iter = max_iter /\ n_iter max_iter = epochs_run max_iter.
Proof. exact n_iter_is_max_iter. Qed.

(* the optimiser is SGD exactly for solver "sgd" and Adam exactly for "adam" (the two accepted values);
   the code's else-branch sends anything else to Adam, which validation makes unreachable *)
Theorem C04_optimiser_matches_solver : forall s, solver_accepted s = true ->
  (optimiser_of s = SGDOptimizer <-> s = "sgd"%string) /\ (optimiser_of s = AdamOptimizer <-> s = "adam"%string).
Proof. exact optimiser_matches_solver. Qed.

(* Kauri: labels in [0, max_clusters) and a non-empty tree, for every finished fit of the C09 model *)
Theorem C04_kauri_labels_lt_max_clusters :
  forall (P : GV.Model.KauriTree.params) d X choose st,
  GV.Proofs.KauriTree.valid P d X -> GV.Proofs.KauriTree.oracle_ok P d X choose ->
  GV.Model.KauriTree.fit P X choose = GV.Model.KauriTree.Done st ->
  (forall i, (i < List.length X)%nat -> (GV.Model.KauriTree.label_of P X st i < GV.Model.KauriTree.max_clusters P)%nat) /\
  (1 <= List.length (GV.Model.KauriTree.st_tree st))%nat.
Proof. exact kauri_labels_lt_max_clusters. Qed.

(* ================================================================ the regenerated tie ================================================================
   Setting: any number system o, K, fitted parameters p, hyper-parameters h (max_iter, solver, learning_rate, n_clusters), the
   estimator's GEMINI as a function `gemini` with affinity function `affinity`, KernelRIM's kernel against the training data
   `kern`.  run_* interpret the bodies regenerated from /repo (Model/CoherenceInterp.v); VMat d X is a data matrix with d columns. *)

(* predict_proba, predict, score of DiscriminativeModel (all estimators but KernelRIM's predict_proba, see the resolution table) *)
Theorem C04_regenerated_predict_chain : forall (T A : Type) (o : NumOps T) K (p : params) (h : hyper) (gemini : @Mat T -> A -> T) affinity kern ntrain d X y,
  run_predict_proba o K p h gemini affinity kern ntrain base_predict_proba (VMat d X) = VMat K (predict_proba o K p X) /\
  run_predict o K p h gemini affinity kern ntrain base_predict_proba base_predict (VMat d X) = VLabels (predict o K p X) /\
  run_score o K p h gemini affinity kern ntrain base_predict_proba base_score (VMat d X) y = VNum (score o gemini affinity K p X).
Proof. intros. split; [apply gen_predict_proba | split; [apply gen_predict | apply gen_score]]. Qed.

(* KernelRIM: the overridden predict_proba feeds k(X, X_train) to the forward pass; the inherited predict / score see the override *)
Theorem C04_regenerated_kernelrim_predict_chain : forall (T A : Type) (o : NumOps T) K (p : params) (h : hyper) (gemini : @Mat T -> A -> T) affinity kern ntrain d X y,
  run_predict_proba o K p h gemini affinity kern ntrain krim_predict_proba (VMat d X) = VMat K (predict_proba o K p (kern X)) /\
  run_predict o K p h gemini affinity kern ntrain krim_predict_proba base_predict (VMat d X) = VLabels (predict o K p (kern X)) /\
  run_score o K p h gemini affinity kern ntrain krim_predict_proba base_score (VMat d X) y = VNum (gemini (predict_proba o K p (kern X)) (affinity X)).
Proof. intros. split; [apply gen_krim_predict_proba | split; [apply gen_krim_predict | apply gen_krim_score]]. Qed.

(* fit: what it leaves behind (p = the parameters the training loop ended with), how many epochs it runs, what the loop trains on *)
Theorem C04_regenerated_fit : forall (T A : Type) (o : NumOps T) K (p : params) (h : hyper) (gemini : @Mat T -> A -> T) affinity kern ntrain d X y,
  let st := run_fit o K p h gemini affinity kern ntrain base_fit_pre base_fit_post (VMat d X) y in
  attr_after "labels_" st = VLabels (fit_labels o K p X) /\
  attr_after "n_iter_" st = VNat (n_iter (h_max_iter h)) /\
  attr_after "optimiser_" st = VOptim (fst (optimiser_init (h_solver h) (h_lr h))) VWeights (VNum (snd (optimiser_init (h_solver h) (h_lr h)))) /\
  returned st = VSelf /\
  run_epochs o K p h gemini affinity kern ntrain base_fit_epochs = VRange (epochs_run (h_max_iter h)) /\
  map (fun nv => (fst nv, eval o (world0 o K p h gemini affinity kern ntrain) (env2 (VMat d X) y) [] (snd nv))) base_fit_loop_reads =
    [("X", VMat d X); ("affinity", VAff (affinity X)); ("random_state", VRng); ("gemini", VGem); ("weights", VWeights)]%string /\
  run_fit_predict o K p h gemini affinity kern ntrain (fit_store o K p h gemini affinity kern ntrain base_fit_pre base_fit_post) base_fit_predict (VMat d X) y
    = VLabels (fit_predict o K p X).
Proof.
  intros. destruct (gen_fit o K p h gemini affinity kern ntrain d X y) as (H1 & H2 & H3 & H4).
  split; [exact H1|]. split; [exact H2|]. split; [exact H3|]. split; [exact H4|].
  split; [rewrite gen_fit_epochs, epochs_run_id; reflexivity|].
  split; [apply gen_fit_loop_reads | apply gen_fit_predict].
Qed.

(* KernelRIM.fit trains the base model on the training kernel; the sparse models' fit delegates to the base fit on the same data *)
Theorem C04_regenerated_wrapped_fits : forall (T A : Type) (o : NumOps T) K (p : params) (h : hyper) (gemini : @Mat T -> A -> T) affinity kern ntrain d X y,
  let FS := fit_store o K p h gemini affinity kern ntrain base_fit_pre base_fit_post in
  (let st := run_subfit o K p h gemini affinity kern ntrain FS krim_fit (VMat d X) y in
   attr_after "input_data_" st = VMat d X /\ attr_after "training_kernel_" st = VMat ntrain (kern X) /\
   attr_after "labels_" st = VLabels (fit_labels o K p (kern X)) /\ attr_after "n_iter_" st = VNat (n_iter (h_max_iter h)) /\
   attr_after "optimiser_" st = VOptim (optimiser_of (h_solver h)) VWeights (VNum (h_lr h)) /\
   attr_after "n_features_in_" st = VNat d /\ returned st = VSelf) /\
  run_fit_predict o K p h gemini affinity kern ntrain (fun X y => cs_store (run_subfit o K p h gemini affinity kern ntrain FS krim_fit X y)) base_fit_predict (VMat d X) y
    = VLabels (fit_predict o K p (kern X)) /\
  (forall body, body = sparse_linear_fit \/ body = sparse_mlp_fit ->
   let st := run_subfit o K p h gemini affinity kern ntrain FS body (VMat d X) y in
   attr_after "labels_" st = VLabels (fit_labels o K p X) /\ attr_after "n_iter_" st = VNat (n_iter (h_max_iter h)) /\
   attr_after "optimiser_" st = VOptim (optimiser_of (h_solver h)) VWeights (VNum (h_lr h)) /\
   attr_after "groups_" st = VNone /\ returned st = VSelf).
Proof.
  intros. split; [apply gen_krim_fit | split; [apply gen_krim_fit_predict | intros body Hb; apply gen_sparse_fit; exact Hb]].
Qed.

(* Kauri: labels_ = (Y @ Z).argmax(0) and leaves_ = Z.argmax(0) are the label_of / leaf_of of the C09 model, predict is the tree's
   predict on the checked data, score is the kernel objective of predict's output, fit_predict returns the labels_ fit wrote *)
Theorem C04_regenerated_kauri : forall (T : Type) (o : NumOps T) (P : GV.Model.KauriTree.params) X st Kk (ker : GV.Model.KauriTree.data -> nat -> nat -> T) t X' y,
  (let s := run_kauri_tail (A:=unit) o P X st kauri_fit_tail in
   attr_after "labels_" s = VNVec (List.length X) (GV.Model.KauriTree.label_of P X st) /\
   attr_after "leaves_" s = VNVec (List.length X) (GV.Model.KauriTree.leaf_of P X st) /\ returned s = VSelf) /\
  run_kauri_predict (A:=unit) o ker t kauri_predict X' = VPreds (GV.Model.KauriTree.predict t X') /\
  run_kauri_score (A:=unit) o Kk ker t kauri_predict kauri_score X' y =
    VNum (GV.Model.KauriTree.objective o (List.length (GV.Model.KauriTree.predict t X')) Kk (ker X')
            (fun i => match nth i (GV.Model.KauriTree.predict t X') None with Some c => c | None => Kk end)).
Proof. intros. split; [apply gen_kauri_fit_tail | split; [apply gen_kauri_predict | apply gen_kauri_score]]. Qed.

(* which class's body each estimator runs (regenerated class table): predict / score / fit_predict are DiscriminativeModel's for all
   17 gradient estimators, predict_proba too except KernelRIM's own, fit is wrapped by KernelRIM and the sparse families only *)
Theorem C04_regenerated_method_resolution :
  forallb (fun c => match res c "predict", res c "score", res c "fit_predict" with
                    | Some a, Some b, Some c' => String.eqb a "DiscriminativeModel" && String.eqb b "DiscriminativeModel" && String.eqb c' "DiscriminativeModel"
                    | _, _, _ => false end) gradient_estimators = true /\
  map (fun c => res c "predict_proba") gradient_estimators =
    map (fun c => Some (if String.eqb c "KernelRIM" then "KernelRIM" else "DiscriminativeModel")%string) gradient_estimators /\
  map (fun c => res c "fit") gradient_estimators =
    map Some ["DiscriminativeModel"; "DiscriminativeModel"; "DiscriminativeModel"; "DiscriminativeModel"; "KernelRIM";
              "DiscriminativeModel"; "DiscriminativeModel"; "DiscriminativeModel";
              "SparseLinearModel"; "SparseLinearModel"; "SparseLinearModel"; "SparseMLPModel"; "SparseMLPModel";
              "DiscriminativeModel"; "DiscriminativeModel"; "DiscriminativeModel"; "DiscriminativeModel"]%string /\
  map (res "Kauri") ["fit"; "fit_predict"; "predict"; "score"]%string = [Some "Kauri"; Some "Kauri"; Some "Kauri"; Some "Kauri"]%string.
Proof. exact resolution_table. Qed.

(* end to end over the reals, from the regenerated bodies alone: predict_proba returns probability vectors of length K, predict their
   first arg-max inside [0, K), and the labels_ written by fit are predict on the training data *)
Theorem C04_regenerated_end_to_end : forall (A : Type) K (p : params) (h : hyper) (gemini : @Mat R -> A -> R) affinity kern ntrain d X y, (1 <= K)%nat ->
  exists P l,
    run_predict_proba Rops K p h gemini affinity kern ntrain base_predict_proba (VMat d X) = VMat K P /\
    run_predict Rops K p h gemini affinity kern ntrain base_predict_proba base_predict (VMat d X) = VLabels l /\
    attr_after "labels_" (run_fit Rops K p h gemini affinity kern ntrain base_fit_pre base_fit_post (VMat d X) y) = VLabels l /\
    (forall i, (forall k, 0 < P i k) /\ rsum K (P i) = 1 /\ l i = argmax_row Rops K (P i) /\ (l i < K)%nat /\
               (forall k, (k < K)%nat -> P i k <= P i (l i))).
Proof.
  intros A K p h gemini affinity kern ntrain d X y HK.
  exists (predict_proba Rops K p X), (predict Rops K p X).
  split; [apply gen_predict_proba|]. split; [apply gen_predict|].
  split; [apply (gen_fit Rops K p h gemini affinity kern ntrain d X y)|].
  intros i. destruct (proba_is_probability_vector K p X i HK) as (Hp & Hs & _).
  split; [exact Hp|]. split; [exact Hs|]. split; [reflexivity|].
  split; [apply labels_in_range; exact HK | apply (predict_most_probable K p X i HK)].
Qed.

(* drift detector: the regenerated bodies and class table are exactly the ones the model was written against *)
Theorem C04_regenerated_rules_are_documented :
  base_fit_predict = [SReturn (EAttr (ESelfCall "fit" [EVar "X"; EVar "y"]) "labels_")] /\
  base_predict_proba = [SExpr (ECall "check_is_fitted" [ESelf]); SReturn (ESelfCall "_infer" [ECall "check_array" [EVar "X"]; EKw "retain" (EBool false)])] /\
  base_predict = [SExpr (ECall "check_is_fitted" [ESelf]); SReturn (EArgmax (ESelfCall "predict_proba" [ECall "check_array" [EVar "X"]]) 1%Z)] /\
  base_score = [SReturn (EItem (EApply (ESelfCall "get_gemini" []) [ESelfCall "predict_proba" [EVar "X"];
                                        EMeth (ESelfCall "get_gemini" []) "compute_affinity" [EVar "X"; EVar "y"]]))] /\
  base_fit_pre = [SExpr (ESelfCall "_validate_params" []);
                  SExpr (ESelfCall "_init_params" [ECall "check_random_state" [ESelfAttr "random_state"]; VD]);
                  SIf (EEq (ESelfAttr "solver") (EStr "sgd"))
                    [SSetAttr "optimiser_" (ECall "SGDOptimizer" [ESelfCall "_get_weights" []; ESelfAttr "learning_rate"])]
                    [SSetAttr "optimiser_" (ECall "AdamOptimizer" [ESelfCall "_get_weights" []; ESelfAttr "learning_rate"])]] /\
  base_fit_loop_reads = [("X", VD); ("affinity", EMeth (ESelfCall "get_gemini" []) "compute_affinity" [VD; EVar "y"]);
                         ("random_state", ECall "check_random_state" [ESelfAttr "random_state"]); ("gemini", ESelfCall "get_gemini" []);
                         ("weights", ESelfCall "_get_weights" [])]%string /\
  base_fit_epochs = ECall "range" [ESelfAttr "max_iter"] /\
  base_fit_post = [SSetAttr "labels_" (EArgmax (ESelfCall "_infer" [VD]) 1%Z); SSetAttr "n_iter_" (ESelfAttr "max_iter"); SReturn ESelf] /\
  krim_fit = [SExpr (ESelfCall "_validate_params" []); SSetAttr "input_data_" (ECall "check_array" [EVar "X"]);
              SSetAttr "training_kernel_" (ESelfCall "_compute_kernel" [ECall "check_array" [EVar "X"]]);
              SExpr (ESuperCall "fit" [ESelfAttr "training_kernel_"; EVar "y"]);
              SSetAttr "n_features_in_" (EIndex (EAttr (ECall "check_array" [EVar "X"]) "shape") 1%Z); SReturn ESelf] /\
  krim_predict_proba = [SReturn (ESelfCall "_infer" [ESelfCall "_compute_kernel" [EVar "X"]])] /\
  sparse_linear_fit = golden_sparse_fit /\ sparse_mlp_fit = golden_sparse_fit /\
  kauri_fit_predict = [SReturn (EAttr (ESelfCall "fit" [EVar "X"; EVar "y"]) "labels_")] /\
  kauri_predict = [SExpr (ECall "check_is_fitted" [ESelf]);
                   SReturn (EMeth (ESelfAttr "tree_") "predict" [ECall "check_array" [EVar "X"; EKw "dtype" (EGlobal "np.float64")]])] /\
  kauri_score = [SReturn (ECall "gemini_objective" [ESelfCall "predict" [EVar "X"]; ESelfCall "_compute_kernel" [EVar "X"; EVar "y"]])] /\
  kauri_fit_tail = [SSetAttr "labels_" (EArgmax (EMatMul (EVar "Y") (EVar "Z")) 0%Z); SSetAttr "leaves_" (EArgmax (EVar "Z") 0%Z); SReturn ESelf] /\
  overrides = [("CategoricalMMD", []); ("CategoricalModel", []); ("CategoricalWasserstein", []);
               ("DiscriminativeModel", ["fit"; "fit_predict"; "predict"; "predict_proba"; "score"]); ("Douglas", []);
               ("Kauri", ["fit"; "fit_predict"; "predict"; "score"]); ("KernelRIM", ["fit"; "predict_proba"]); ("LinearMMD", []);
               ("LinearModel", []); ("LinearWasserstein", []); ("MLPMMD", []); ("MLPModel", []); ("MLPWasserstein", []); ("RIM", []);
               ("SparseLinearMI", []); ("SparseLinearMMD", []); ("SparseLinearModel", ["fit"]); ("SparseMLPMMD", []);
               ("SparseMLPModel", ["fit"]); ("Tree", ["predict"])]%string.
Proof. exact regenerated_rules_are_documented. Qed.

(* non-vacuity: the hypotheses (K >= 1, k < K, an accepted solver) are met by a concrete non-trivial row of
   K = 3 logits with a tie between the last two entries: the first maximiser is chosen, its probability
   lies strictly between 0 and 1, and "sgd" selects the SGD optimiser *)
Example C04_nonvacuous :
  let z : nat -> R := fun k => match k with 0%nat => 1 | 1%nat => 3 | 2%nat => 3 | _ => 0 end in
  (1 <= 3)%nat /\ (2 <= 3)%nat /\ argmax_row Rops 3 z = 1%nat /\
  0 < softmax_row Rops 3 z (argmax_row Rops 3 z) < 1 /\
  solver_accepted "sgd" = true /\ solver_accepted "adam" = true /\ optimiser_of "sgd" = SGDOptimizer.
Proof.
  cbv zeta. set (z := fun k : nat => match k with 0%nat => 1 | 1%nat => 3 | 2%nat => 3 | _ => 0 end).
  assert (Ha : argmax_row Rops 3 z = 1%nat).
  { apply argmax_unique; [lia | |].
    - intros k Hk. destruct k as [|[|[|k]]]; unfold z; try lra; lia.
    - intros k Hk. destruct k as [|k]; unfold z; [lra | lia]. }
  split; [repeat constructor|]. split; [repeat constructor|]. split; [exact Ha|].
  split; [split; [apply softmax_row_pos; repeat constructor | apply softmax_row_lt_one; [repeat constructor | rewrite Ha; repeat constructor]]|].
  repeat split; reflexivity.
Qed.

Print Assumptions C04_softmax_simplex.
Print Assumptions C04_softmax_le_one.
Print Assumptions C04_softmax_normaliser_bounds.
Print Assumptions C04_argmax_in_range.
Print Assumptions C04_argmax_is_max.
Print Assumptions C04_predict_is_argmax_of_proba.
Print Assumptions C04_labels_are_train_predict.
Print Assumptions C04_labels_in_range.
Print Assumptions C04_proba_is_probability_vector.
Print Assumptions C04_predict_most_probable.
Print Assumptions C04_score_is_gemini_of_proba.
Print Assumptions C04_n_iter_is_max_iter.
Print Assumptions C04_optimiser_matches_solver.
Print Assumptions C04_kauri_labels_lt_max_clusters.
Print Assumptions C04_regenerated_predict_chain.
Print Assumptions C04_regenerated_kernelrim_predict_chain.
Print Assumptions C04_regenerated_fit.
Print Assumptions C04_regenerated_wrapped_fits.
Print Assumptions C04_regenerated_kauri.
Print Assumptions C04_regenerated_method_resolution.
Print Assumptions C04_regenerated_end_to_end.
Print Assumptions C04_regenerated_rules_are_documented.
