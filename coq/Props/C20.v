(* C20 - Synthetic data generators follow their documented distributions.
   Statements only; every proof is [exact <lemma of Proofs/DataGen.v>].

   What is proved: the generators are modelled (Model/DataGen.v) as deterministic functions of the answers of the
   random oracle (numpy RandomState: choice, normal, multivariate_normal, chisquare, permutation).  [resp_ok c r]
   is the oracle's shape/range contract ("the answer r has the shape the request c asks for; labels are < K; a
   permutation is a permutation") - it is what is assumed of numpy and it is checked on every recorded call.
   For ALL sizes, parameters and ALL answers satisfying the contract the theorems give: which requests are made
   (with the documented means / covariances / weights), the shapes, the label ranges, that row i of a mixture
   sample is row i of the draw array of the component named by its label, the Student-t construction, gstm's
   3n//4 split and common shuffle, celeux_two's linear block, and the exact validation rule of draw_gmm.

   PARTIAL (not provable without a probability library, decided statistically by harness/c20.py, L3): the
   DISTRIBUTIONAL half of the property - that numpy's normal / multivariate_normal / chisquare / choice answers
   follow N(loc, scale), chi2(df), Categorical(p), hence that sample moments match the documented parameters within
   sampling error.  The theorems below reduce that claim to the oracle: every request carries exactly the
   documented parameters (C20_*_requests, C20_one_d_uses_sqrt_of_variance) and every output row is an unmodified
   answer row (mixtures) or the stated affine function of answer rows (Student-t, celeux_two columns 3..11).
   Also outside the theorems: np.sum / BLAS rounding (the float instance is compared in L2), inputs with NaN or
   ragged shapes (rejected by sklearn's check_array before the modelled code; exercised in the malformed stream). *)
(* The theorems about draw_gmm and multivariate_student_t are stated about gen_gmm_check / gen_gmm_calls / gen_gmm_run /
   the gen_student functions of Gen/DataGenRules.v, i.e. about the definitions REGENERATED from the source on this build
   (translator/tr_datagen.py); C20_regenerated_rules_are_documented shows them equal to the hand-written model.  The
   dataset generators (gstm, celeux_one, celeux_two) are hand-modelled over regenerated constants (Gen/DataConstants.v). *)
From Coq Require Import List Arith QArith Qreals Reals Permutation.
From GV Require Import Common.Num Common.NumR Gen.DataConstants Model.DataGen Model.DataDoc Gen.DataGenRules Proofs.DataGen Proofs.DataGenRules.
Import ListNotations.
Close Scope Q_scope.
Open Scope nat_scope.

(* draw_gmm, any number system (reals and floats alike): for a description that passes validation and any answers
   within the oracle contract, the output has n rows of d columns, n labels all < K, the labels are the categorical
   draw itself, and row i of X is row i of the draw array answered for component y_i *)
Theorem C20_gmm_row_from_labelled_component :
  forall (T : Type) (o : NumOps T) (n : nat) (g : gmm_in (T := T)) (eig : nat -> list T) (rs : list (draw (T := T))),
  gen_gmm_check o g eig = None ->
  Forall (fun r => length r = g_d g) (g_loc g) ->                (* loc is a rectangular K x d array *)
  Forall2 resp_ok (gen_gmm_calls o n g) rs ->
  exists y comps X,
    rs = DLabels y :: comps /\ length comps = g_K g /\ gen_gmm_run rs = Some (X, y) /\
    length X = n /\ Forall (fun r => length r = g_d g) X /\
    length y = n /\ Forall (fun k => k < g_K g) y /\
    forall i, i < n -> exists Xk,
      comp_rows (nth (nth i y 0) comps (DLabels [])) = Some Xk /\ is_mat n (g_d g) Xk /\ nth i X [] = nth i Xk [].
Proof. exact @gen_gmm_row_from_labelled_component. Qed.

(* draw_gmm raises no error exactly on: at least 2 components (as-is: check_array(ensure_min_samples=2)), matching
   component counts, every proportion > 0, proportions summing to 1 within np.isclose's tolerance 1e-8 + 1e-5,
   and either (d = 1) a (K,1) array of variances all > 0, or (d > 1) K square d x d matrices, each symmetric within
   np.allclose's tolerance, with every eigenvalue reported by the eigvalsh oracle >= -1e-8, and not all-zero *)
Theorem C20_validation_spec : forall (g : gmm_in (T := R)) (eig : nat -> list R),
  gen_gmm_check Rops g eig = None <->
  (2 <= g_K g /\ 1 <= g_d g /\ scale_len (g_scale g) = g_K g /\ length (g_p g) = g_K g /\
   (forall x, In x (g_p g) -> (0 < x)%R) /\
   (Rabs (fold_left Rplus (g_p g) 0 - 1) <= / 100000000 + / 100000)%R /\
   ((g_d g = 1 /\ exists s, g_scale g = Sc2 s /\ Forall (fun row => exists v, row = [v] /\ (0 < v)%R) s) \/
    (g_d g <> 1 /\ exists s, g_scale g = Sc3 s /\ length (hd [] s) = g_d g /\ length (hd [] (hd [] s)) = g_d g /\
      forall k m, nth_error s k = Some m ->
        (forall i j, i < length m -> j < length m ->
           (Rabs (mget Rops m i j - mget Rops m j i) <= / 100000000 + / 100000 * Rabs (mget Rops m j i))%R) /\
        (forall e, In e (eig k) -> (- / 100000000 <= e)%R) /\
        (exists row x, In row m /\ In x row /\ x <> 0%R)))).
Proof. exact gen_validation_spec. Qed.

(* one-dimensional mixtures: the k-th component is requested as normal(loc[k], sqrt(variance[k])) - the scale passed,
   squared, is the documented variance *)
Theorem C20_one_d_uses_sqrt_of_variance : forall (n : nat) (g : gmm_in (T := R)) (eig : nat -> list R),
  gen_gmm_check Rops g eig = None -> g_d g = 1 ->
  exists s, g_scale g = Sc2 s /\ length s = g_K g /\
    gen_gmm_calls Rops n g = CChoice (g_K g) (g_p g) n ::
                         map (fun lv => CNormal (fst lv) (map sqrt (snd lv)) n) (combine (g_loc g) s) /\
    Forall (fun row => exists v, row = [v] /\ (0 < v)%R /\ map sqrt row = [sqrt v] /\ (sqrt v * sqrt v = v)%R) s.
Proof. exact gen_one_d_uses_sqrt_of_variance. Qed.

(* multivariate_student_t: X[i, j] = sqrt(df / u[i]) * nx[i, j] + loc[j], n rows of d columns, where
   nx = multivariate_normal(0, scale) and u = chisquare(df) are the two requests made *)
Theorem C20_student_t_construction :
  forall (T : Type) (o : NumOps T) (df : T) (loc : list T) (scale nx : list (list T)) (u : list T) (n i : nat),
  is_mat n (length loc) nx -> length u = n -> i < n ->
  gen_student_calls o n loc scale df = [CMvn (repeat (n0 o) (length loc)) scale n; CChisq df n] /\
  (exists X, gen_student_run o df loc [DMat nx; DVec u] = Some X /\ length X = n /\ length (nth i X []) = length loc /\
     forall j, j < length loc ->
       nth j (nth i X []) (n0 o)
       = nadd o (nmul o (nsqrt o (ndiv o df (nth i u (n0 o)))) (nth j (nth i nx []) (n0 o))) (nth j loc (n0 o))).
Proof. exact @gen_student_t_construction. Qed.

(* gstm: 3n//4 samples of the three-component Gaussian mixture (labels 0,1,2, row taken from the draw array of its
   label), the other n - 3n//4 samples Student-t (label 3), X and y shuffled by the same permutation *)
Theorem C20_gstm_counts : forall (T : Type) (o : NumOps T) (n : nat) (alpha df : T) (rs : list (draw (T := T))),
  Forall2 resp_ok (gstm_calls o n alpha df) rs ->
  let ng := 3 * n / 4 in
  exists yg m0 m1 m2 zx u order,
    rs = [DLabels yg; DMat m0; DMat m1; DMat m2; DMat zx; DVec u; DLabels order] /\
    length yg = ng /\ Forall (fun k => k < 3) yg /\
    is_mat ng 2 m0 /\ is_mat ng 2 m1 /\ is_mat ng 2 m2 /\
    is_mat (n - ng) 2 zx /\ length u = n - ng /\
    Permutation order (seq 0 n) /\
    let Xg := gmm_select [] yg [m0; m1; m2] in
    let Xs := student_rows o df (gstm_student_loc o alpha) zx u in
    let Xall := Xg ++ Xs in
    let yall := yg ++ repeat 3 (n - ng) in
    exists X y,
      gstm_run o n alpha df rs = Some (X, y) /\
      X = take_rows [] Xall order /\ y = take_rows 0 yall order /\
      length X = n /\ length y = n /\ Forall (fun r => length r = 2) X /\
      Permutation y yall /\ Permutation X Xall /\
      count_occ Nat.eq_dec y 3 = n - ng /\ Forall (fun k => k <= 3) y /\
      forall i, i < n ->
        let j := nth i order 0 in
        (j < ng -> nth i y 0 = nth j yg 0 /\ nth j yg 0 < 3 /\
                   nth i X [] = nth j (nth (nth j yg 0) [m0; m1; m2] []) []) /\
        (ng <= j -> nth i y 0 = 3 /\ nth i X [] = nth (j - ng) Xs []).
Proof. exact @gstm_counts. Qed.

(* the requests of the three dataset generators carry the documented means, covariances, weights and sizes *)
Theorem C20_gstm_requests : forall (n : nat) (alpha df : R),
  let ng := 3 * n / 4 in
  gstm_calls Rops n alpha df =
  [CChoice 3 [/ 3; / 3; / 3]%R ng;
   CMvn [alpha; alpha] I2 ng; CMvn [alpha; - alpha]%R I2 ng; CMvn [- alpha; alpha]%R I2 ng;
   CMvn [0; 0]%R I2 (n - ng); CChisq df (n - ng); CPerm n].
Proof. exact gstm_requests. Qed.

Theorem C20_celeux_one_requests : forall (n p : nat) (mu : R),
  c1_calls Rops n p mu =
  [CChoice 3 [/ 3; / 3; / 3]%R n;
   CMvn [mu; mu; mu; mu; mu] I5 n; CMvn [- mu; - mu; - mu; - mu; - mu]%R I5 n; CMvn [0; 0; 0; 0; 0]%R I5 n;
   CStdNormal n p].
Proof. exact celeux_one_requests. Qed.

Theorem C20_celeux_two_requests : forall n : nat,
  c2_calls Rops n =
  [CChoice 4 [/ 4; / 4; / 4; / 4]%R n;
   CMvn [0; 0]%R I2 n; CMvn [4; 0]%R I2 n; CMvn [0; 2]%R I2 n; CMvn [4; 2]%R I2 n;
   CMvn [0; 0; 0; 0; 0; 0; 0; 0; 0]%R (c2_cov_noise_T Rops (sqrt 3)) n;
   CMvn [16 / 5; 18 / 5; 4]%R I3 n].
Proof. exact celeux_two_requests. Qed.

(* celeux_one: n rows of 5 + p columns; columns 1..5 are the row of the draw array of the label's component, the
   other p columns are the N(0,1) noise block, untouched *)
Theorem C20_celeux_one_layout : forall (T : Type) (o : NumOps T) (n p : nat) (mu : T) (rs : list (draw (T := T))),
  Forall2 resp_ok (c1_calls o n p mu) rs ->
  exists y m0 m1 m2 noise X,
    rs = [DLabels y; DMat m0; DMat m1; DMat m2; DMat noise] /\
    length y = n /\ Forall (fun k => k < 3) y /\
    is_mat n 5 m0 /\ is_mat n 5 m1 /\ is_mat n 5 m2 /\ is_mat n p noise /\
    c1_run rs = Some (X, y) /\ length X = n /\ Forall (fun r => length r = 5 + p) X /\
    forall i, i < n -> nth i X [] = nth i (nth (nth i y 0) [m0; m1; m2] []) [] ++ nth i noise [].
Proof. exact @celeux_one_layout. Qed.

(* celeux_two: n rows of 14 columns; columns 1,2 = the informative variables (row of the label's component);
   columns 3..11 = documented offset + informative @ documented b + noise, for all draws; columns 12..14 = the
   trailing draw, untouched *)
Theorem C20_celeux_two_linear_part : forall (n : nat) (rs : list (draw (T := R))),
  Forall2 resp_ok (c2_calls Rops n) rs ->
  exists y m0 m1 m2 m3 noise tail X,
    rs = [DLabels y; DMat m0; DMat m1; DMat m2; DMat m3; DMat noise; DMat tail] /\
    length y = n /\ Forall (fun k => k < 4) y /\
    is_mat n 2 m0 /\ is_mat n 2 m1 /\ is_mat n 2 m2 /\ is_mat n 2 m3 /\ is_mat n 9 noise /\ is_mat n 3 tail /\
    c2_run Rops rs = Some (X, y) /\ length X = n /\ Forall (fun r => length r = 14) X /\
    forall i, i < n ->
      let good := nth i (nth (nth i y 0) [m0; m1; m2; m3] []) [] in
      let g0 := nth 0 good 0%R in let g1 := nth 1 good 0%R in
      nth 0 (nth i X []) 0%R = g0 /\ nth 1 (nth i X []) 0%R = g1 /\
      (forall j, j < 9 ->
         nth (2 + j) (nth i X []) 0%R =
         (Q2R (nth j doc_c2_offsets 0%Q)
          + (g0 * Q2R (nth j (nth 0 doc_c2_b []) 0%Q) + g1 * Q2R (nth j (nth 1 doc_c2_b []) 0%Q))
          + nth j (nth i noise []) 0)%R) /\
      (forall j, j < 3 -> nth (11 + j) (nth i X []) 0%R = nth j (nth i tail []) 0%R).
Proof. exact celeux_two_linear_part. Qed.

(* the 9 x 9 noise covariance requested by celeux_two, sqrt 3 symbolic (any s with s * s = 3, in particular the
   model's own np.sqrt(3)): symmetric, with a non-negative quadratic form; and in general every conjugate
   R' diag(d0, d1) R of a non-negative diagonal is symmetric positive semi-definite; the documented R are the
   rotations by pi/3 and pi/6 *)
Theorem C20_noise_cov_symmetric_psd :
  (sqrt3 Rops * sqrt3 Rops = 3)%R /\
  (forall s : R, (s * s = 3)%R ->
     let M := c2_cov_noise_T Rops s in
     is_mat 9 9 M /\ (forall i j, mget Rops M i j = mget Rops M j i) /\
     forall x, length x = 9 -> (0 <= qform M x)%R) /\
  (forall r00 r01 r10 r11 d0 d1 : R, (0 <= d0)%R -> (0 <= d1)%R ->
     let m00 := (r00 * d0 * r00 + r10 * d1 * r10)%R in let m01 := (r00 * d0 * r01 + r10 * d1 * r11)%R in
     let m10 := (r01 * d0 * r00 + r11 * d1 * r10)%R in let m11 := (r01 * d0 * r01 + r11 * d1 * r11)%R in
     m01 = m10 /\ forall x y, (0 <= qform [[m00; m01]; [m10; m11]] [x; y])%R) /\
  map (map (qsR (sqrt 3))) doc_rot_pi_3 = [[cos (PI / 3); - sin (PI / 3)]; [sin (PI / 3); cos (PI / 3)]]%R /\
  map (map (qsR (sqrt 3))) doc_rot_pi_6 = [[cos (PI / 6); - sin (PI / 6)]; [sin (PI / 6); cos (PI / 6)]]%R.
Proof. exact noise_cov_statement. Qed.

(* the constants regenerated from the source on this build = the hand-written documented ones (Model/DataDoc.v);
   in particular the generated noise covariance is block_diag(I_3, I_2 / 2, Rot(pi/3)' diag(1,3) Rot(pi/3),
   Rot(pi/6)' diag(2,6) Rot(pi/6)) multiplied out exactly in Q[sqrt 3] *)
Theorem C20_constants_match_documented :
  (gstm_split_num, gstm_split_den) = doc_gstm_gaussian_share /\
  gstm_gmm_loc_over_alpha = firstn doc_gstm_gaussians doc_gstm_locations_over_alpha /\
  gstm_gmm_cov = repeat doc_gstm_cov doc_gstm_gaussians /\
  gstm_gmm_pvals = doc_gstm_gmm_pvals /\
  gstm_student_loc_over_alpha = nth doc_gstm_student_label doc_gstm_locations_over_alpha [] /\
  gstm_student_scale = doc_gstm_cov /\
  gstm_student_label = doc_gstm_student_label /\
  c1_loc_over_mu = doc_c1_loc_over_mu /\ c1_cov = repeat doc_c1_cov 3 /\ c1_pvals = doc_c1_pvals /\
  c2_loc = doc_c2_loc /\ c2_cov = repeat doc_c2_cov 4 /\ c2_pvals = doc_c2_pvals /\
  c2_offsets = doc_c2_offsets /\ c2_b = doc_c2_b /\
  c2_noise_mean = doc_c2_noise_mean /\ c2_cov_noise = doc_c2_cov_noise /\
  c2_tail_mean = doc_c2_tail_mean /\ c2_tail_cov = doc_c2_tail_cov.
Proof. exact constants_match_documented. Qed.

(* PARTIAL - "each sample is drawn from the component named by its label, with the documented parameters": what is
   proved is that row i of the output is row i of the answer to the request carrying loc[y_i] and scale[y_i]
   (sqrt(scale[y_i]) in one dimension).  What is NOT proved (no probability library): that the oracle's answer to
   such a request is distributed N(loc, scale) - so that moments match within sampling error; this is decided
   statistically by the harness (L3, 6-sigma bands). *)
Theorem C20_sample_from_labelled_request_partial :
  forall (T : Type) (o : NumOps T) (n : nat) (g : gmm_in (T := T)) (eig : nat -> list T) (rs : list (draw (T := T))),
  gen_gmm_check o g eig = None -> Forall (fun r => length r = g_d g) (g_loc g) ->
  Forall2 resp_ok (gen_gmm_calls o n g) rs ->
  exists X y, gen_gmm_run rs = Some (X, y) /\ length X = n /\ length y = n /\
    forall i, i < n ->
      let k := nth i y 0 in
      k < g_K g /\
      (exists Xk, comp_rows (nth (S k) rs (DLabels [])) = Some Xk /\ nth i X [] = nth i Xk []) /\
      match g_scale g with
      | Sc2 s => g_d g = 1 /\ nth (S k) (gen_gmm_calls o n g) (CPerm 0) = CNormal (nth k (g_loc g) []) (map (nsqrt o) (nth k s [])) n
      | Sc3 s => g_d g <> 1 /\ nth (S k) (gen_gmm_calls o n g) (CPerm 0) = CMvn (nth k (g_loc g) []) (nth k s []) n
      end.
Proof. exact @gen_sample_from_labelled_request. Qed.

(* the definitions regenerated from draw_gmm and multivariate_student_t on this build (validation tests in source order
   with their operators, thresholds and raise sites; requests and their arguments; row selection; Student-t shape test,
   draws and entry-wise expression) ARE the hand-written golden model of Model/DataGen.v, in every number system *)
Theorem C20_regenerated_rules_are_documented : forall (T : Type) (o : NumOps T),
  (forall g eig, gen_gmm_check o g eig = gmm_check o g eig) /\
  (forall n g, gen_gmm_calls o n g = gmm_calls o n g) /\
  (forall rs, gen_gmm_run rs = gmm_run (T := T) rs) /\
  (forall (d : list T) y X, gen_gmm_select d y X = gmm_select d y X) /\
  (forall loc scale, gen_student_check loc scale = student_check (T := T) loc scale) /\
  (forall n loc scale df, gen_student_calls o n loc scale df = student_calls o n loc scale df) /\
  (forall df u z l, gen_student_entry o df u z l = student_entry o df u z l) /\
  (forall df loc rs, gen_student_run o df loc rs = student_run o df loc rs).
Proof. exact regenerated_rules_are_documented. Qed.

(* non-vacuity: a concrete valid two-component 2-D mixture, answers within the oracle contract, and the run *)
Example C20_nonvacuous :
  let g := {| g_loc := [[0; 0]; [1; 2]]%R; g_scale := Sc3 [[[1; 0]; [0; 1]]; [[2; 1]; [1; 2]]]%R; g_p := [/ 2; / 2]%R |} in
  let eig := fun k => match k with O => [1; 1]%R | _ => [1; 3]%R end in
  let rs := [DLabels [1; 0; 1]; DMat [[10; 11]; [12; 13]; [14; 15]]%R; DMat [[20; 21]; [22; 23]; [24; 25]]%R] in
  gen_gmm_check Rops g eig = None /\ Forall (fun r => length r = g_d g) (g_loc g) /\
  Forall2 resp_ok (gen_gmm_calls Rops 3 g) rs /\
  gen_gmm_run rs = Some ([[20; 21]; [12; 13]; [24; 25]]%R, [1; 0; 1]).
Proof. exact gen_nonvacuous_example. Qed.

Print Assumptions C20_gmm_row_from_labelled_component.
Print Assumptions C20_validation_spec.
Print Assumptions C20_one_d_uses_sqrt_of_variance.
Print Assumptions C20_student_t_construction.
Print Assumptions C20_gstm_counts.
Print Assumptions C20_gstm_requests.
Print Assumptions C20_celeux_one_requests.
Print Assumptions C20_celeux_two_requests.
Print Assumptions C20_celeux_one_layout.
Print Assumptions C20_celeux_two_linear_part.
Print Assumptions C20_noise_cov_symmetric_psd.
Print Assumptions C20_constants_match_documented.
Print Assumptions C20_sample_from_labelled_request_partial.
Print Assumptions C20_regenerated_rules_are_documented.
