(* C08 — KAURI gains are real objective increases and the chosen split is the best one.
   Statements only; every proof is [exact <lemma of Proofs/KauriGain.v>].

   Vocabulary.  st : kstate R is an argument tuple of find_best_split (any real kernel matrix, data, leaves =
   rows of Z, leaf -> cluster map = columns of Y, n_clusters, K_max, min_leaf, leaves to explore, features);
   c : cand is a Split (leaf, feature, threshold, left_target, right_target).  [objective st] = sum_k
   sigma(C_k,C_k)/|C_k| (gemini_objective of the labelling), [apply_split st c] is the update Kauri.fit performs,
   [gain Rops st c] = objective (apply_split st c) - objective st is the TRUE increase.
   Lp / Rp = left / right part of the candidate's leaf, Op = the other samples of the leaf's cluster k, Cl st k' =
   members of cluster k'.  [cand_stocks st c P f] are the stocks compute_all_splits receives for that candidate
   (sl_clusters[k] = sigma(C_k, Lp), gamma[k,k] = sigma(C_k, C_k), omega[k, feature_id] = sigma(C_k, {f}), sizes as
   reals; P = members of k_prime).  KauriFormulas.* are the closed forms REGENERATED from gemclus/tree/_utils.pyx on
   every build (Gen/KauriFormulas.v): if a source formula changes these theorems are re-checked against the new
   text.  [wf_state]: symmetric kernel (PSD or not), |Y columns| = |Z rows|, the leaf exists, cluster ids in use
   are below n_clusters.

   Section 5 closes the search: the REPAIRED search (Model.find_best true true) returns the arg-max of [gain] over
   [candidates] on every well-formed state (C08_find_best_repaired_is_argmax), the AS-IS search does so on every
   state where no explorable leaf can evaluate a double star and the second right tracker is never consulted with
   three or more other clusters (C08_find_best_asis_is_argmax_on_safe_states: there as-is = repaired, which is
   exactly where the known findings F7 / F8 cannot bite).
   Still partial: the stop rule (C08_fit_stops_only_when_no_gain_or_limit_partial) is proved for a loop model local
   to this development whose structural bookkeeping is abstract, under the hypothesis that the state the loop
   stops in is well formed; preservation of [state_ok] along the loop is not proved and the loop model is tied to
   kauri.py by the oracle on recorded fits (L3) only, not by an extracted-model correspondence.  The C09 loop
   (Model/KauriTree.v) is not reused: its state (integer data, boolean membership matrices, an oracle for the
   chosen split) does not line up with the real-valued state needed to talk about gains. *)
From Coq Require Import Reals List Bool Arith ZArith.
From GV Require Import Common.Num Common.NumR Model.KauriGain Gen.KauriFormulas Proofs.KauriGain.
Import ListNotations.
Local Open Scope R_scope.

(* === 1. each regenerated gain formula is the true increase of the objective of the state ================== *)

(* left star: the left part becomes the new cluster n_clusters, the right part stays in cluster k *)
Theorem C08_left_star_is_gain : forall st c P f, wf_state st c ->
  c_left c = ks_nc st -> c_right c = leaf_cluster st c -> (ks_nc st < ks_kmax st)%nat -> Lp st c <> [] -> Rp st c <> [] ->
  left_star (cand_stocks st c P f) = gain Rops st c.
Proof. exact left_star_gain. Qed.

Theorem C08_right_star_is_gain : forall st c P f, wf_state st c ->
  c_left c = leaf_cluster st c -> c_right c = ks_nc st -> (ks_nc st < ks_kmax st)%nat -> Lp st c <> [] -> Rp st c <> [] ->
  right_star (cand_stocks st c P f) = gain Rops st c.
Proof. exact right_star_gain. Qed.

(* left switch: the left part joins another existing (non-empty) cluster *)
Theorem C08_left_switch_is_gain : forall st c f, wf_state st c ->
  (c_left c < ks_nc st)%nat -> c_left c <> leaf_cluster st c -> c_right c = leaf_cluster st c -> (ks_nc st <= ks_kmax st)%nat ->
  Lp st c <> [] -> Rp st c <> [] -> Cl st (c_left c) <> [] ->
  left_switch (cand_stocks st c (Cl st (c_left c)) f) = gain Rops st c.
Proof. exact left_switch_gain. Qed.

Theorem C08_right_switch_is_gain : forall st c f, wf_state st c ->
  (c_right c < ks_nc st)%nat -> c_right c <> leaf_cluster st c -> c_left c = leaf_cluster st c -> (ks_nc st <= ks_kmax st)%nat ->
  Lp st c <> [] -> Rp st c <> [] -> Cl st (c_right c) <> [] ->
  right_switch (cand_stocks st c (Cl st (c_right c)) f) = gain Rops st c.
Proof. exact right_switch_gain. Qed.

(* reallocation: both parts join two distinct other clusters, the rest of cluster k (non-empty) stays:
   reported = left_switch(k_left) + right_switch(k_right) + corrective_term *)
Theorem C08_realloc_is_gain : forall st c f, wf_state st c ->
  (c_left c < ks_nc st)%nat -> (c_right c < ks_nc st)%nat -> c_left c <> leaf_cluster st c -> c_right c <> leaf_cluster st c ->
  c_left c <> c_right c -> (ks_nc st <= ks_kmax st)%nat ->
  Lp st c <> [] -> Rp st c <> [] -> Op st c <> [] -> Cl st (c_left c) <> [] -> Cl st (c_right c) <> [] ->
  left_switch (cand_stocks st c (Cl st (c_left c)) f) + right_switch (cand_stocks st c (Cl st (c_right c)) f)
  + corrective_term (cand_stocks st c (Cl st (c_left c)) f) = gain Rops st c.
Proof. exact realloc_gain. Qed.

(* double star, REPAIRED text (Model.double_star_f with fix7 = true): both parts become new clusters *)
Theorem C08_double_star_corrected_is_gain : forall st c om, wf_state st c ->
  c_left c = ks_nc st -> c_right c = S (ks_nc st) -> (S (ks_nc st) < ks_kmax st)%nat ->
  Lp st c <> [] -> Rp st c <> [] -> Op st c <> [] ->
  let Ck := Lp st c ++ Rp st c ++ Op st c in let Nl := Lp st c ++ Rp st c in
  double_star_f Rops true (sigma Rops (ks_kernel st) (Lp st c) (Lp st c)) (sigma Rops (ks_kernel st) (Rp st c) (Rp st c))
                (sigma Rops (ks_kernel st) Nl Nl) (sigma Rops (ks_kernel st) Ck Ck) (sigma Rops (ks_kernel st) Ck (Lp st c))
                (sigma Rops (ks_kernel st) Ck (Rp st c)) om (length Ck) (length Nl) (length (Lp st c)) = gain Rops st c.
Proof. exact double_star_corrected_gain. Qed.

(* F7 (known finding): the double-star gain AS WRITTEN in the .pyx is not the increase.
   Witness: identity kernel, leaf {0,1} split {0}|{1}, C_k = {0,1,2}, feature_id 0: reported 5, real 2. *)
Theorem C08_double_star_asis_refuted :
  exists (kap : nat -> nat -> R) (Sl Sr O P : list nat) (f : nat),
    symmetric kap /\ Sl <> [] /\ Sr <> [] /\ O <> [] /\
    double_star_gain (stocks_of kap Sl Sr O P f) <> rterm kap Sl + rterm kap Sr + rterm kap O - rterm kap (Sl ++ Sr ++ O).
Proof. exact double_star_asis_refuted. Qed.

(* every admissible candidate is of one of the six kinds above, so its true gain is given by the corresponding
   (repaired) formula *)
Theorem C08_candidates_covered : forall st c, state_ok st -> In c (candidates Rops st) -> family_formula st c.
Proof. exact candidates_covered. Qed.

(* === 2. the same identities for ALL stocks and sizes: any symmetric kernel, any index lists ============== *)
(* (bilinearity and symmetry of sigma are the only facts used: lemmas sig_app_l, sig_app_r, sig_sym) *)

Theorem C08_left_star_formula : forall kap, symmetric kap -> forall Sl Sr O P f, Sl <> [] -> Sr ++ O <> [] ->
  left_star (stocks_of kap Sl Sr O P f) = rterm kap Sl + rterm kap (Sr ++ O) - rterm kap (Sl ++ Sr ++ O).
Proof. exact left_star_is_gain. Qed.

Theorem C08_right_star_formula : forall kap, symmetric kap -> forall Sl Sr O P f, Sr <> [] -> Sl ++ O <> [] ->
  right_star (stocks_of kap Sl Sr O P f) = rterm kap Sr + rterm kap (Sl ++ O) - rterm kap (Sl ++ Sr ++ O).
Proof. exact right_star_is_gain. Qed.

Theorem C08_left_switch_formula : forall kap, symmetric kap -> forall Sl Sr O P f, Sl <> [] -> Sr ++ O <> [] -> P <> [] ->
  left_switch (stocks_of kap Sl Sr O P f) =
  rterm kap (P ++ Sl) + rterm kap (Sr ++ O) - rterm kap P - rterm kap (Sl ++ Sr ++ O).
Proof. exact left_switch_is_gain. Qed.

Theorem C08_right_switch_formula : forall kap, symmetric kap -> forall Sl Sr O P f, Sr <> [] -> Sl ++ O <> [] -> P <> [] ->
  right_switch (stocks_of kap Sl Sr O P f) =
  rterm kap (P ++ Sr) + rterm kap (Sl ++ O) - rterm kap P - rterm kap (Sl ++ Sr ++ O).
Proof. exact right_switch_is_gain. Qed.

Theorem C08_realloc_formula : forall kap, symmetric kap -> forall Sl Sr O P Q f,
  Sl <> [] -> Sr <> [] -> O <> [] -> P <> [] -> Q <> [] ->
  left_switch (stocks_of kap Sl Sr O P f) + right_switch (stocks_of kap Sl Sr O Q f) + corrective_term (stocks_of kap Sl Sr O P f) =
  rterm kap (P ++ Sl) + rterm kap (Q ++ Sr) + rterm kap O - rterm kap P - rterm kap Q - rterm kap (Sl ++ Sr ++ O).
Proof. exact realloc_is_gain. Qed.

Theorem C08_sigma_bilinear_symmetric : forall kap a a' b b',
  sigma Rops kap (a ++ a') b = sigma Rops kap a b + sigma Rops kap a' b /\
  sigma Rops kap a (b ++ b') = sigma Rops kap a b + sigma Rops kap a b' /\
  (symmetric kap -> sigma Rops kap a b = sigma Rops kap b a).
Proof. intros. split; [apply sig_app_l | split; [apply sig_app_r | intros; now apply sig_sym]]. Qed.

(* === 3. the executable as-is model computes exactly the regenerated text =================================== *)

Theorem C08_asis_formulas_regenerated :
  forall (sl sr lf slck srck slcp srcp gkk gpp om : R) (n s c p : nat), (s <= n)%nat -> (n <= c)%nat ->
  let st := {| sl_square := sl; sr_square := sr; leaf_square := lf; sl_clusters_k := slck; sr_clusters_k := srck;
               sl_clusters_k_prime := slcp; sr_clusters_k_prime := srcp; gamma_k_k := gkk; gamma_k_prime_k_prime := gpp;
               omega_k_feature_id := om; n_leaf := INR n; split_size := INR s; cluster_sizes_k := INR c;
               cluster_sizes_k_prime := INR p |} in
  star_f Rops sl gkk slck c s = left_star st /\
  star_f Rops sr gkk srck c (n - s) = right_star st /\
  left_switch_f Rops sl gkk gpp slck slcp c p s = left_switch st /\
  left_switch_f Rops sr gkk gpp srck srcp c p (n - s) = right_switch st /\
  corrective_f Rops sl sr lf gkk slck srck c n s = corrective_term st /\
  double_star_f Rops false sl sr lf gkk slck srck om c n s = double_star_gain st.
Proof. exact asis_formulas_regenerated. Qed.

Theorem C08_asis_guards_regenerated : forall nc kmax nl cs : nat,
  let z := Z.of_nat in
  guard_double_star (z nc) (z kmax) (z nl) (z cs) = g_double_star nc kmax nl cs /\
  guard_star (z nc) (z kmax) (z nl) (z cs) = g_star nc kmax /\
  guard_switch (z nc) (z kmax) (z nl) (z cs) = g_switch nc /\
  guard_realloc (z nc) (z kmax) (z nl) (z cs) = (g_switch nc && g_realloc nc nl cs)%bool /\
  (forall k k' : nat, skip_cluster (z k) (z k') = (k =? k')%nat) /\
  (forall a b : nat, pair_distinct (z a) (z b) = negb (eq_optnat (Some a) (Some b))).
Proof. exact asis_guards_regenerated. Qed.

Theorem C08_asis_tests_regenerated : forall (g l r b rf c ls rs tl sl tr sr : R),
  upd_double_star g b = t_gt Rops g b /\
  upd_star l r b = (t_gt Rops l b || t_gt Rops r b)%bool /\
  pick_star l r = t_gt Rops l r /\
  upd_switch l r b = (t_ge Rops l b || t_ge Rops r b)%bool /\
  pick_switch l r = t_gt Rops l r /\
  upd_realloc rf c b = t_gt Rops (rf + c) b /\
  pair_choice ls rs tl sl tr sr = gt_opt Rops (add_opt Rops (Some tl) (Some sr)) (add_opt Rops (Some tr) (Some sl)) /\
  track_top_left ls rs tl sl tr sr = ge_opt Rops ls (Some tl) /\
  track_second_left ls rs tl sl tr sr = ge_opt Rops ls (Some sl) /\
  track_top_right ls rs tl sl tr sr = ge_opt Rops rs (Some tr) /\
  track_second_right ls rs tl sl tr sr = ge_opt Rops (if false then rs else ls) (Some sr).
Proof. exact asis_tests_regenerated. Qed.

(* the stocks maintained incrementally along the sorted leaf (sl_square += 2 alpha + k_xx, ...) are the stocks
   of the current prefix / suffix, for every symmetric kernel: running the loop with them is running it with the
   directly computed sigma(Sl,Sl), sigma(Sr,Sr), sum_{i in Sl} omega[a,i], sum_{i in Sr} omega[a,i] *)
Theorem C08_incremental_stocks_correct : forall (B : Type) kap omega nc
    (visit : B -> list nat -> nat -> list nat -> R -> R -> list R -> list R -> B),
  symmetric kap -> forall rest pre acc,
  scan_gen Rops kap omega nc visit pre rest (sigma Rops kap pre pre) (sigma Rops kap rest rest)
           (dir_stocks omega nc pre) (dir_stocks omega nc rest) acc
  = scan_direct kap omega nc visit pre rest acc.
Proof. exact @incremental_stocks_correct. Qed.

Theorem C08_leaf_square_is_stock : forall (st : @kstate R) j key, symmetric (ks_kernel st) ->
  let leaf := nth j (ks_leaves st) [] in
  rsuml (map (fun i => Lambda_of Rops st j i) leaf) = sigma Rops (ks_kernel st) (sort_by Rops key leaf) (sort_by Rops key leaf).
Proof. exact leaf_square_is_stock. Qed.

(* === 4. choice of the reallocation pair ===================================================================== *)

(* repaired tracker (fix8 = true): the pair returned is the best ordered pair of two distinct clusters *)
Theorem C08_top2_pair_optimal : forall es : list entry, NoDup (map e_id es) -> (2 <= length es)%nat ->
  exists r a b, pair_select Rops (track_left es) (track_right true es) = (Some r, Some a, Some b) /\ a <> b /\
    (exists ea eb, In ea es /\ In eb es /\ e_id ea = a /\ e_id eb = b /\ r = e_gl ea + e_gr eb) /\
    (forall e1 e2, In e1 es -> In e2 es -> e_id e1 <> e_id e2 -> e_gl e1 + e_gr e2 <= r).
Proof. exact top2_pair_optimal. Qed.

(* the trackers inside the model's loop over k_prime are those folds, over distinct cluster ids *)
Theorem C08_switch_loop_tracks : forall fix8 sl_square sr_square slc src cs gamma n_leaf k leaf_id split_size feat thr ks best tl tr,
  let res := fold_left (switch_step Rops fix8 sl_square sr_square slc src cs gamma n_leaf k leaf_id split_size feat thr)
                       ks (best, tl, tr) in
  snd (fst res) = track_left_from tl (entries_of sl_square sr_square slc src cs gamma n_leaf k split_size ks) /\
  snd res = track_right_from fix8 tr (entries_of sl_square sr_square slc src cs gamma n_leaf k split_size ks) /\
  (forall nc, NoDup (map e_id (entries_of sl_square sr_square slc src cs gamma n_leaf k split_size (seq 0 nc)))).
Proof.
  intros. destruct (switch_fold_tracks fix8 sl_square sr_square slc src cs gamma n_leaf k leaf_id split_size feat thr ks best tl tr) as [H1 H2].
  split; [exact H1 | split; [exact H2 | intros; apply entries_of_ids]].
Qed.

(* F8 (known finding): as written (`elif left_switch >= second_gain_right`) the best pair can be missed with
   three other clusters, i.e. n_clusters >= 4: (left, right) switch gains (10,10), (5,1), (-5,8) -> 15 instead of 18 *)
Theorem C08_second_right_asis_refuted :
  NoDup (map e_id f8_witness) /\
  pair_select Rops (track_left f8_witness) (track_right false f8_witness) = (Some 15, Some 2%nat, Some 1%nat) /\
  (exists e1 e2, In e1 f8_witness /\ In e2 f8_witness /\ e_id e1 <> e_id e2 /\ 15 < e_gl e1 + e_gr e2) /\
  (exists ls rs tl sl tr sr, track_second_right ls rs tl sl tr sr <> ge_opt Rops rs (Some sr)).
Proof. exact second_right_asis_refuted. Qed.

(* at ONE split position (given stocks) the repaired compute_all_splits (fix7 = fix8 = true) returns the running best
   updated with the maximum over EVERY target pair it evaluates there - pos_values = double star, both stars, every
   switch, every ordered pair of distinct other clusters + corrective term, each under its guard - and the split it
   returns carries the value it was compared with ([covers]: the gain never decreases, dominates every value, and
   is the old best or one of the values) *)
Theorem C08_position_is_argmax :
  forall (sl sr lf : R) (slc src : nat -> R) (cs : nat -> nat) (gamma omega : nat -> nat -> R)
         (n_leaf nc kmax k leaf_id split_size feat : nat) (thr : R) (best : split),
  covers leaf_id feat thr (pos_values sl sr lf slc src cs gamma omega n_leaf nc kmax k split_size feat) best
         (compute_all_splits Rops true true best sl sr lf slc src cs gamma omega n_leaf nc kmax k leaf_id split_size feat thr).
Proof. exact compute_all_splits_fixed_covers. Qed.

(* === 5. the whole search ===================================================================================== *)

(* THE REPAIRED SEARCH IS THE ARG-MAX.  For every state that is well formed ([state_ok]: symmetric kernel - PSD or
   not -, Y and Z describe the same leaves, cluster ids in use < n_clusters <= K_max, explorable leaves exist, the
   clusters below n_clusters are non-empty) the split r returned by the repaired search satisfies:
     - its gain is >= 0 and >= the true gain of EVERY admissible candidate (any explorable leaf, feature of the
       subset, data threshold leaving min_samples_leaf on both sides, star / double star / switch / reallocation
       targets permitted by K_max and n_clusters);
     - either it carries a candidate c* - then c* is admissible and the reported gain IS gain st c*, hence
       gain st c <= gain st c* for every admissible c (ties: any maximiser) - or it carries none, the reported gain
       is 0 and no admissible candidate has positive gain. *)
Theorem C08_find_best_repaired_is_argmax : forall st : @kstate R, state_ok st ->
  let r := find_best Rops true true st in
  0 <= sp_gain r /\
  (forall c, In c (candidates Rops st) -> gain Rops st c <= sp_gain r) /\
  match sp_cand r with
  | None => sp_gain r = 0
  | Some c => In c (candidates Rops st) /\ sp_gain r = gain Rops st c
  end.
Proof. exact find_best_repaired_is_argmax. Qed.

(* the same in the form "no admissible alternative beats the chosen split" *)
Theorem C08_find_best_repaired_dominates : forall st : @kstate R, state_ok st ->
  match sp_cand (find_best Rops true true st) with
  | Some cstar => In cstar (candidates Rops st) /\ forall c, In c (candidates Rops st) -> gain Rops st c <= gain Rops st cstar
  | None => forall c, In c (candidates Rops st) -> gain Rops st c <= 0
  end.
Proof.
  intros st Hok. destruct (find_best_repaired_is_argmax st Hok) as (_ & H2 & H3).
  destruct (sp_cand (find_best Rops true true st)) as [cstar|].
  - destruct H3 as [Hin E]. split; [exact Hin|]. intros c Hc. rewrite <- E. now apply H2.
  - intros c Hc. rewrite <- H3. now apply H2.
Qed.

(* WHERE THE KNOWN FINDINGS CANNOT BITE.  [asis_safe st]: for every explorable leaf the double-star guard of
   compute_all_splits is false (F7 unreachable) and either the reallocation guard is false or n_clusters <= 3, so
   that at most two other clusters are tracked and the elif of the right tracker is irrelevant (F8 unreachable).
   On such states the search as written returns exactly what the repaired search returns, hence the arg-max. *)
Theorem C08_find_best_asis_eq_repaired : forall st : @kstate R, state_ok st -> asis_safe st ->
  find_best_asis Rops st = find_best Rops true true st.
Proof. exact find_best_asis_eq_repaired. Qed.

Theorem C08_find_best_asis_is_argmax_on_safe_states : forall st : @kstate R, state_ok st -> asis_safe st ->
  let r := find_best_asis Rops st in
  0 <= sp_gain r /\
  (forall c, In c (candidates Rops st) -> gain Rops st c <= sp_gain r) /\
  match sp_cand r with
  | None => sp_gain r = 0
  | Some c => In c (candidates Rops st) /\ sp_gain r = gain Rops st c
  end.
Proof. exact find_best_asis_is_argmax. Qed.

(* two simple sufficient conditions: (a) at most one more cluster may be created and at most three exist;
   (b) every explorable leaf is a whole cluster (e.g. every state of a fit in which no cluster owns two leaves) *)
Theorem C08_asis_safe_conditions : forall st : @kstate R,
  ((ks_kmax st <= S (ks_nc st))%nat -> (ks_nc st <= 3)%nat -> asis_safe st) /\
  ((forall j, In j (ks_explore st) -> length (nth j (ks_leaves st) []) = csize st (nth j (ks_cl st) 0%nat)) -> asis_safe st).
Proof. intros st. split; [apply asis_safe_simple | apply asis_safe_whole]. Qed.

(* PARTIAL (see the header): why the greedy loop stops.  [fit_loop] = while gain > 0 and n_leaves < max_leaves and
   leaves remain: search, apply; [next] = apply_split + the structural bookkeeping (abstract).  The loop ends
   with StopNoGain only in a state where - if that state is well formed - NO admissible split has positive gain,
   with StopMaxLeaves only when max_leaves is reached, with StopNoLeaf only when no leaf is explorable. *)
Theorem C08_fit_stops_only_when_no_gain_or_limit_partial :
  forall fuel max_leaves next (st st' : @kstate R) s,
  fit_loop Rops true true fuel max_leaves next st = (st', s) ->
  match s with
  | StopNoGain => state_ok st' -> forall c, In c (candidates Rops st') -> gain Rops st' c <= 0
  | StopMaxLeaves => (max_leaves <= length (ks_leaves st'))%nat
  | StopNoLeaf => ks_explore st' = []
  | OutOfFuel => True
  end.
Proof. exact (fit_loop_stops_only true true state_ok find_best_repaired_is_argmax). Qed.

(* the loop as written, on states where the findings cannot bite *)
Theorem C08_fit_asis_stops_only_when_no_gain_or_limit_partial :
  forall fuel max_leaves next (st st' : @kstate R) s,
  fit_loop Rops false false fuel max_leaves next st = (st', s) ->
  match s with
  | StopNoGain => state_ok st' /\ asis_safe st' -> forall c, In c (candidates Rops st') -> gain Rops st' c <= 0
  | StopMaxLeaves => (max_leaves <= length (ks_leaves st'))%nat
  | StopNoLeaf => ks_explore st' = []
  | OutOfFuel => True
  end.
Proof.
  exact (fit_loop_stops_only false false (fun st => state_ok st /\ asis_safe st)
           (fun st H => find_best_asis_is_argmax st (proj1 H) (proj2 H))).
Qed.

(* === 6. the specification: arg-max over all admissible candidates, telescoping ============================ *)

Theorem C08_best_spec_is_argmax : forall (st : @kstate R) (c : @cand R),
  In c (candidates Rops st) -> gain Rops st c <= gain Rops st (best_spec Rops st).
Proof. exact best_spec_is_argmax. Qed.

Theorem C08_best_spec_is_candidate : forall (st : @kstate R),
  candidates Rops st <> [] -> In (best_spec Rops st) (candidates Rops st).
Proof. exact best_spec_is_candidate. Qed.

(* any history of applied splits: final objective = initial objective + sum of the true gains *)
Theorem C08_score_is_root_plus_gains : forall (cs : list (@cand R)) (st : @kstate R),
  objective Rops (run_splits Rops st cs) = objective Rops st + rsuml (gains_along Rops st cs).
Proof. exact score_is_root_plus_gains. Qed.

(* non-vacuity: a concrete 3-sample state (identity kernel, two leaves in one cluster, K_max = 3) meets the
   hypotheses of the theorems above and its double-star candidate is enumerated by [candidates] *)
Example C08_nonvacuous :
  state_ok ex_state /\ wf_state ex_state ex_cand /\
  Lp ex_state ex_cand = [0%nat] /\ Rp ex_state ex_cand = [1%nat] /\ Op ex_state ex_cand = [2%nat] /\
  c_left ex_cand = ks_nc ex_state /\ c_right ex_cand = S (ks_nc ex_state) /\ (S (ks_nc ex_state) < ks_kmax ex_state)%nat /\
  In ex_cand (candidates Rops ex_state) /\
  (* and a state on which the as-is search is provably the arg-max *)
  state_ok ex_state_safe /\ asis_safe ex_state_safe.
Proof.
  destruct ex_state_ok as (H1 & H2 & H3 & H4 & H5 & H6 & H7 & H8 & H9). destruct ex_state_safe_ok as [S1 S2].
  exact (conj H1 (conj H2 (conj H3 (conj H4 (conj H5 (conj H6 (conj H7 (conj H8 (conj H9 (conj S1 S2)))))))))).
Qed.

Print Assumptions C08_left_star_is_gain.
Print Assumptions C08_right_star_is_gain.
Print Assumptions C08_left_switch_is_gain.
Print Assumptions C08_right_switch_is_gain.
Print Assumptions C08_realloc_is_gain.
Print Assumptions C08_double_star_corrected_is_gain.
Print Assumptions C08_double_star_asis_refuted.
Print Assumptions C08_candidates_covered.
Print Assumptions C08_left_star_formula.
Print Assumptions C08_right_star_formula.
Print Assumptions C08_left_switch_formula.
Print Assumptions C08_right_switch_formula.
Print Assumptions C08_realloc_formula.
Print Assumptions C08_sigma_bilinear_symmetric.
Print Assumptions C08_asis_formulas_regenerated.
Print Assumptions C08_asis_guards_regenerated.
Print Assumptions C08_asis_tests_regenerated.
Print Assumptions C08_incremental_stocks_correct.
Print Assumptions C08_leaf_square_is_stock.
Print Assumptions C08_top2_pair_optimal.
Print Assumptions C08_switch_loop_tracks.
Print Assumptions C08_second_right_asis_refuted.
Print Assumptions C08_position_is_argmax.
Print Assumptions C08_find_best_repaired_is_argmax.
Print Assumptions C08_find_best_repaired_dominates.
Print Assumptions C08_find_best_asis_eq_repaired.
Print Assumptions C08_find_best_asis_is_argmax_on_safe_states.
Print Assumptions C08_asis_safe_conditions.
Print Assumptions C08_fit_stops_only_when_no_gain_or_limit_partial.
Print Assumptions C08_fit_asis_stops_only_when_no_gain_or_limit_partial.
Print Assumptions C08_best_spec_is_argmax.
Print Assumptions C08_best_spec_is_candidate.
Print Assumptions C08_score_is_root_plus_gains.
