(* C08 — KAURI gains are real objective increases and the chosen split is the best one.
   Statements only; every proof is [exact <lemma of Proofs/KauriGain.v>].

   Vocabulary.  kap : nat -> nat -> R is ANY symmetric kernel (PSD or not).  sigma kap a b = sum_{i in a, j in b}
   kap i j (kernel_stock), rterm kap C = sigma kap C C / |C| is the summand of gemini_objective for cluster C.
   A leaf N = Sl ++ Sr (left / right part of a split) belongs to cluster C_k = Sl ++ Sr ++ O; O are the samples
   of the other leaves of that cluster; P, Q are the members of other clusters k_prime.  [stocks_of kap Sl Sr O P f]
   are the stocks compute_all_splits receives in that situation (sl_clusters[k] = sigma(C_k, Sl), gamma[k,k] =
   sigma(C_k, C_k), omega[k, feature_id] = sigma(C_k, {f}), sizes as reals).  KauriFormulas.* are the closed forms
   REGENERATED from gemclus/tree/_utils.pyx on every build (Gen/KauriFormulas.v): if the source formula changes,
   these theorems are re-checked against the new text. *)
From Coq Require Import Reals List Bool Arith ZArith.
From GV Require Import Common.Num Common.NumR Model.KauriGain Gen.KauriFormulas Proofs.KauriGain.
Import ListNotations.
Local Open Scope R_scope.

(* --- each regenerated gain formula is the increase of the objective, for all stocks and sizes ------------- *)

(* left star: the left part becomes a new cluster, the right part stays in C_k *)
Theorem C08_left_star_is_gain : forall kap, symmetric kap -> forall Sl Sr O P f, Sl <> [] -> Sr ++ O <> [] ->
  left_star (stocks_of kap Sl Sr O P f) = rterm kap Sl + rterm kap (Sr ++ O) - rterm kap (Sl ++ Sr ++ O).
Proof. exact left_star_is_gain. Qed.

Theorem C08_right_star_is_gain : forall kap, symmetric kap -> forall Sl Sr O P f, Sr <> [] -> Sl ++ O <> [] ->
  right_star (stocks_of kap Sl Sr O P f) = rterm kap Sr + rterm kap (Sl ++ O) - rterm kap (Sl ++ Sr ++ O).
Proof. exact right_star_is_gain. Qed.

(* left switch: the left part joins cluster P *)
Theorem C08_left_switch_is_gain : forall kap, symmetric kap -> forall Sl Sr O P f, Sl <> [] -> Sr ++ O <> [] -> P <> [] ->
  left_switch (stocks_of kap Sl Sr O P f) =
  rterm kap (P ++ Sl) + rterm kap (Sr ++ O) - rterm kap P - rterm kap (Sl ++ Sr ++ O).
Proof. exact left_switch_is_gain. Qed.

Theorem C08_right_switch_is_gain : forall kap, symmetric kap -> forall Sl Sr O P f, Sr <> [] -> Sl ++ O <> [] -> P <> [] ->
  right_switch (stocks_of kap Sl Sr O P f) =
  rterm kap (P ++ Sr) + rterm kap (Sl ++ O) - rterm kap P - rterm kap (Sl ++ Sr ++ O).
Proof. exact right_switch_is_gain. Qed.

(* reallocation: left part to P, right part to Q (two distinct other clusters), the rest O of C_k stays *)
Theorem C08_realloc_is_gain : forall kap, symmetric kap -> forall Sl Sr O P Q f,
  Sl <> [] -> Sr <> [] -> O <> [] -> P <> [] -> Q <> [] ->
  left_switch (stocks_of kap Sl Sr O P f) + right_switch (stocks_of kap Sl Sr O Q f) + corrective_term (stocks_of kap Sl Sr O P f) =
  rterm kap (P ++ Sl) + rterm kap (Q ++ Sr) + rterm kap O - rterm kap P - rterm kap Q - rterm kap (Sl ++ Sr ++ O).
Proof. exact realloc_is_gain. Qed.

(* double star, repaired text (Model.double_star_f with fix7 = true): both parts become new clusters *)
Theorem C08_double_star_corrected_is_gain : forall kap, symmetric kap -> forall Sl Sr O om, Sl <> [] -> Sr <> [] -> O <> [] ->
  let Ck := Sl ++ Sr ++ O in let Nl := Sl ++ Sr in
  double_star_f Rops true (sigma Rops kap Sl Sl) (sigma Rops kap Sr Sr) (sigma Rops kap Nl Nl) (sigma Rops kap Ck Ck)
                (sigma Rops kap Ck Sl) (sigma Rops kap Ck Sr) om (length Ck) (length Nl) (length Sl) =
  rterm kap Sl + rterm kap Sr + rterm kap O - rterm kap (Sl ++ Sr ++ O).
Proof. exact double_star_corrected_is_gain. Qed.

(* F7 (known finding): the double-star gain AS WRITTEN in the .pyx is not the increase.
   Witness: identity kernel, leaf {0,1} split {0}|{1}, C_k = {0,1,2}, feature_id 0: reported 5, real 2. *)
Theorem C08_double_star_asis_refuted :
  exists (kap : nat -> nat -> R) (Sl Sr O P : list nat) (f : nat),
    symmetric kap /\ Sl <> [] /\ Sr <> [] /\ O <> [] /\
    double_star_gain (stocks_of kap Sl Sr O P f) <> rterm kap Sl + rterm kap Sr + rterm kap O - rterm kap (Sl ++ Sr ++ O).
Proof. exact double_star_asis_refuted. Qed.

(* --- the executable as-is model computes exactly the regenerated text ------------------------------------- *)

Theorem C08_asis_formulas_regenerated :
  forall (sl sr lf slck srck slcp srcp gkk gpp om : R) (n s c p : nat), (s <= n)%nat -> (n <= c)%nat ->
  let st := {| sl_square := sl; sr_square := sr; leaf_square := lf; sl_clusters_k := slck; sr_clusters_k := srck;
               sl_clusters_k_prime := slcp; sr_clusters_k_prime := srcp; gamma_k_k := gkk; gamma_k_prime_k_prime := gpp;
               omega_k_feature_id := om; n_leaf := INR n; split_size := INR s; cluster_sizes_k := INR c;
               cluster_sizes_k_prime := INR p |} in
  star_f Rops sl gkk slck c s = left_star st /\
  star_f Rops sr gkk srck c (n - s) = right_star st /\
  left_switch_f Rops sl gkk gpp slck slcp c p s = left_switch st /\
  left_switch_f Rops sr gkk gpp srck srcp c p (n - s) = right_switch st /\
  corrective_f Rops sl sr lf gkk slck srck c n s = corrective_term st /\
  double_star_f Rops false sl sr lf gkk slck srck om c n s = double_star_gain st.
Proof. exact asis_formulas_regenerated. Qed.

Theorem C08_asis_guards_regenerated : forall nc kmax nl cs : nat,
  let z := Z.of_nat in
  guard_double_star (z nc) (z kmax) (z nl) (z cs) = g_double_star nc kmax nl cs /\
  guard_star (z nc) (z kmax) (z nl) (z cs) = g_star nc kmax /\
  guard_switch (z nc) (z kmax) (z nl) (z cs) = g_switch nc /\
  guard_realloc (z nc) (z kmax) (z nl) (z cs) = (g_switch nc && g_realloc nc nl cs)%bool /\
  (forall k k' : nat, skip_cluster (z k) (z k') = (k =? k')%nat) /\
  (forall a b : nat, pair_distinct (z a) (z b) = negb (eq_optnat (Some a) (Some b))).
Proof. exact asis_guards_regenerated. Qed.

Theorem C08_asis_tests_regenerated : forall (g l r b rf c ls rs tl sl tr sr : R),
  upd_double_star g b = t_gt Rops g b /\
  upd_star l r b = (t_gt Rops l b || t_gt Rops r b)%bool /\
  pick_star l r = t_gt Rops l r /\
  upd_switch l r b = (t_ge Rops l b || t_ge Rops r b)%bool /\
  pick_switch l r = t_gt Rops l r /\
  upd_realloc rf c b = t_gt Rops (rf + c) b /\
  pair_choice ls rs tl sl tr sr = gt_opt Rops (add_opt Rops (Some tl) (Some sr)) (add_opt Rops (Some tr) (Some sl)) /\
  track_top_left ls rs tl sl tr sr = ge_opt Rops ls (Some tl) /\
  track_second_left ls rs tl sl tr sr = ge_opt Rops ls (Some sl) /\
  track_top_right ls rs tl sl tr sr = ge_opt Rops rs (Some tr) /\
  track_second_right ls rs tl sl tr sr = ge_opt Rops (if false then rs else ls) (Some sr).
Proof. exact asis_tests_regenerated. Qed.

(* --- choice of the reallocation pair ------------------------------------------------------------------------ *)

(* repaired tracker (fix8 = true): the pair returned is the best ordered pair of two distinct clusters *)
Theorem C08_top2_pair_optimal : forall es : list entry, NoDup (map e_id es) -> (2 <= length es)%nat ->
  exists r a b, pair_select Rops (track_left es) (track_right true es) = (Some r, Some a, Some b) /\ a <> b /\
    (exists ea eb, In ea es /\ In eb es /\ e_id ea = a /\ e_id eb = b /\ r = e_gl ea + e_gr eb) /\
    (forall e1 e2, In e1 es -> In e2 es -> e_id e1 <> e_id e2 -> e_gl e1 + e_gr e2 <= r).
Proof. exact top2_pair_optimal. Qed.

(* the trackers inside the model's loop over k_prime are those folds *)
Theorem C08_switch_loop_tracks : forall fix8 sl_square sr_square slc src cs gamma n_leaf k leaf_id split_size feat thr ks best tl tr,
  let res := fold_left (switch_step Rops fix8 sl_square sr_square slc src cs gamma n_leaf k leaf_id split_size feat thr)
                       ks (best, tl, tr) in
  snd (fst res) = track_left_from tl (entries_of sl_square sr_square slc src cs gamma n_leaf k split_size ks) /\
  snd res = track_right_from fix8 tr (entries_of sl_square sr_square slc src cs gamma n_leaf k split_size ks).
Proof. exact switch_fold_tracks. Qed.

(* F8 (known finding): as written (`elif left_switch >= second_gain_right`) the best pair can be missed with
   three other clusters, i.e. n_clusters >= 4: (left, right) switch gains (10,10), (5,1), (-5,8) -> 15 instead of 18 *)
Theorem C08_second_right_asis_refuted :
  NoDup (map e_id f8_witness) /\
  pair_select Rops (track_left f8_witness) (track_right false f8_witness) = (Some 15, Some 2%nat, Some 1%nat) /\
  (exists e1 e2, In e1 f8_witness /\ In e2 f8_witness /\ e_id e1 <> e_id e2 /\ 15 < e_gl e1 + e_gr e2) /\
  (exists ls rs tl sl tr sr, track_second_right ls rs tl sl tr sr <> ge_opt Rops rs (Some sr)).
Proof. exact second_right_asis_refuted. Qed.

(* --- the specification: arg-max over all admissible candidates, telescoping -------------------------------- *)

Theorem C08_best_spec_is_argmax : forall (st : @kstate R) (c : @cand R),
  In c (candidates Rops st) -> gain Rops st c <= gain Rops st (best_spec Rops st).
Proof. exact best_spec_is_argmax. Qed.

Theorem C08_best_spec_is_candidate : forall (st : @kstate R),
  candidates Rops st <> [] -> In (best_spec Rops st) (candidates Rops st).
Proof. exact best_spec_is_candidate. Qed.

(* any history of applied splits: final objective = initial objective + sum of the true gains *)
Theorem C08_score_is_root_plus_gains : forall (cs : list (@cand R)) (st : @kstate R),
  objective Rops (run_splits Rops st cs) = objective Rops st + rsuml (gains_along Rops st cs).
Proof. exact score_is_root_plus_gains. Qed.

(* non-vacuity: the F7 witness state evaluated on the executable as-is formula and on the objective *)
Example C08_nonvacuous :
  symmetric kid /\
  double_star_f Rops false (sigma Rops kid [0%nat] [0%nat]) (sigma Rops kid [1%nat] [1%nat]) (sigma Rops kid [0;1]%nat [0;1]%nat)
                (sigma Rops kid [0;1;2]%nat [0;1;2]%nat) (sigma Rops kid [0;1;2]%nat [0%nat]) (sigma Rops kid [0;1;2]%nat [1%nat])
                (sigma Rops kid [0;1;2]%nat [0%nat]) 3 2 1 = 5 /\
  rterm kid [0%nat] + rterm kid [1%nat] + rterm kid [2%nat] - rterm kid [0;1;2]%nat = 2.
Proof. split; [exact kid_sym | exact double_star_asis_model_refuted]. Qed.

Print Assumptions C08_left_star_is_gain.
Print Assumptions C08_right_star_is_gain.
Print Assumptions C08_left_switch_is_gain.
Print Assumptions C08_right_switch_is_gain.
Print Assumptions C08_realloc_is_gain.
Print Assumptions C08_double_star_corrected_is_gain.
Print Assumptions C08_double_star_asis_refuted.
Print Assumptions C08_asis_formulas_regenerated.
Print Assumptions C08_asis_guards_regenerated.
Print Assumptions C08_asis_tests_regenerated.
Print Assumptions C08_top2_pair_optimal.
Print Assumptions C08_switch_loop_tracks.
Print Assumptions C08_second_right_asis_refuted.
Print Assumptions C08_best_spec_is_argmax.
Print Assumptions C08_best_spec_is_candidate.
Print Assumptions C08_score_is_root_plus_gains.
