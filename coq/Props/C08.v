(* C08 — KAURI gains are real objective increases and the chosen split is the best one.
   Statements only; every proof is [exact <lemma of Proofs/KauriGain.v>].

   Vocabulary.  st : kstate R is an argument tuple of find_best_split (any real kernel matrix, data, leaves =
   rows of Z, leaf -> cluster map = columns of Y, n_clusters, K_max, min_leaf, leaves to explore, features);
   c : cand is a Split (leaf, feature, threshold, left_target, right_target).  [objective st] = sum_k
   sigma(C_k,C_k)/|C_k| (gemini_objective of the labelling), [apply_split st c] is the update Kauri.fit performs,
   [gain Rops st c] = objective (apply_split st c) - objective st is the TRUE increase.
   Lp / Rp = left / right part of the candidate's leaf, Op = the other samples of the leaf's cluster k, Cl st k' =
   members of cluster k'.  [cand_stocks st c P f] are the stocks compute_all_splits receives for that candidate
   (sl_clusters[k] = sigma(C_k, Lp), gamma[k,k] = sigma(C_k, C_k), omega[k, feature_id] = sigma(C_k, {f}), sizes as
   reals; P = members of k_prime).  KauriFormulas.* are the closed forms REGENERATED from gemclus/tree/_utils.pyx on
   every build (Gen/KauriFormulas.v): if a source formula changes these theorems are re-checked against the new
   text.  [wf_state]: symmetric kernel (PSD or not), |Y columns| = |Z rows|, the leaf exists, cluster ids in use
   are below n_clusters.

   Not proved here (decided by L2 + L3 on every generated state instead): that the whole incremental scan with the
   running maximum (Model.find_best true true) returns the arg-max of [gain] over [candidates] - the pieces are
   proved (formulas C08_*_is_gain, coverage C08_candidates_covered, incremental stocks C08_incremental_stocks_correct,
   pair choice C08_top2_pair_optimal, per-position maximum C08_scan_is_argmax_partial, arg-max of the specification
   C08_best_spec_is_argmax), their composition through the fold over leaves/features/positions is not; and the stop
   rule of the fit loop (C09's loop model), checked by the oracle on every recorded fit. *)
From Coq Require Import Reals List Bool Arith ZArith.
From GV Require Import Common.Num Common.NumR Model.KauriGain Gen.KauriFormulas Proofs.KauriGain.
Import ListNotations.
Local Open Scope R_scope.

(* === 1. each regenerated gain formula is the true increase of the objective of the state ================== *)

(* left star: the left part becomes the new cluster n_clusters, the right part stays in cluster k *)
Theorem C08_left_star_is_gain : forall st c P f, wf_state st c ->
  c_left c = ks_nc st -> c_right c = leaf_cluster st c -> (ks_nc st < ks_kmax st)%nat -> Lp st c <> [] -> Rp st c <> [] ->
  left_star (cand_stocks st c P f) = gain Rops st c.
Proof. exact left_star_gain. Qed.

Theorem C08_right_star_is_gain : forall st c P f, wf_state st c ->
  c_left c = leaf_cluster st c -> c_right c = ks_nc st -> (ks_nc st < ks_kmax st)%nat -> Lp st c <> [] -> Rp st c <> [] ->
  right_star (cand_stocks st c P f) = gain Rops st c.
Proof. exact right_star_gain. Qed.

(* left switch: the left part joins another existing (non-empty) cluster *)
Theorem C08_left_switch_is_gain : forall st c f, wf_state st c ->
  (c_left c < ks_nc st)%nat -> c_left c <> leaf_cluster st c -> c_right c = leaf_cluster st c -> (ks_nc st <= ks_kmax st)%nat ->
  Lp st c <> [] -> Rp st c <> [] -> Cl st (c_left c) <> [] ->
  left_switch (cand_stocks st c (Cl st (c_left c)) f) = gain Rops st c.
Proof. exact left_switch_gain. Qed.

Theorem C08_right_switch_is_gain : forall st c f, wf_state st c ->
  (c_right c < ks_nc st)%nat -> c_right c <> leaf_cluster st c -> c_left c = leaf_cluster st c -> (ks_nc st <= ks_kmax st)%nat ->
  Lp st c <> [] -> Rp st c <> [] -> Cl st (c_right c) <> [] ->
  right_switch (cand_stocks st c (Cl st (c_right c)) f) = gain Rops st c.
Proof. exact right_switch_gain. Qed.

(* reallocation: both parts join two distinct other clusters, the rest of cluster k (non-empty) stays:
   reported = left_switch(k_left) + right_switch(k_right) + corrective_term *)
Theorem C08_realloc_is_gain : forall st c f, wf_state st c ->
  (c_left c < ks_nc st)%nat -> (c_right c < ks_nc st)%nat -> c_left c <> leaf_cluster st c -> c_right c <> leaf_cluster st c ->
  c_left c <> c_right c -> (ks_nc st <= ks_kmax st)%nat ->
  Lp st c <> [] -> Rp st c <> [] -> Op st c <> [] -> Cl st (c_left c) <> [] -> Cl st (c_right c) <> [] ->
  left_switch (cand_stocks st c (Cl st (c_left c)) f) + right_switch (cand_stocks st c (Cl st (c_right c)) f)
  + corrective_term (cand_stocks st c (Cl st (c_left c)) f) = gain Rops st c.
Proof. exact realloc_gain. Qed.

(* double star, REPAIRED text (Model.double_star_f with fix7 = true): both parts become new clusters *)
Theorem C08_double_star_corrected_is_gain : forall st c om, wf_state st c ->
  c_left c = ks_nc st -> c_right c = S (ks_nc st) -> (S (ks_nc st) < ks_kmax st)%nat ->
  Lp st c <> [] -> Rp st c <> [] -> Op st c <> [] ->
  let Ck := Lp st c ++ Rp st c ++ Op st c in let Nl := Lp st c ++ Rp st c in
  double_star_f Rops true (sigma Rops (ks_kernel st) (Lp st c) (Lp st c)) (sigma Rops (ks_kernel st) (Rp st c) (Rp st c))
                (sigma Rops (ks_kernel st) Nl Nl) (sigma Rops (ks_kernel st) Ck Ck) (sigma Rops (ks_kernel st) Ck (Lp st c))
                (sigma Rops (ks_kernel st) Ck (Rp st c)) om (length Ck) (length Nl) (length (Lp st c)) = gain Rops st c.
Proof. exact double_star_corrected_gain. Qed.

(* F7 (known finding): the double-star gain AS WRITTEN in the .pyx is not the increase.
   Witness: identity kernel, leaf {0,1} split {0}|{1}, C_k = {0,1,2}, feature_id 0: reported 5, real 2. *)
Theorem C08_double_star_asis_refuted :
  exists (kap : nat -> nat -> R) (Sl Sr O P : list nat) (f : nat),
    symmetric kap /\ Sl <> [] /\ Sr <> [] /\ O <> [] /\
    double_star_gain (stocks_of kap Sl Sr O P f) <> rterm kap Sl + rterm kap Sr + rterm kap O - rterm kap (Sl ++ Sr ++ O).
Proof. exact double_star_asis_refuted. Qed.

(* every admissible candidate is of one of the six kinds above, so its true gain is given by the corresponding
   (repaired) formula *)
Theorem C08_candidates_covered : forall st c, state_ok st -> In c (candidates Rops st) -> family_formula st c.
Proof. exact candidates_covered. Qed.

(* === 2. the same identities for ALL stocks and sizes: any symmetric kernel, any index lists ============== *)
(* (bilinearity and symmetry of sigma are the only facts used: lemmas sig_app_l, sig_app_r, sig_sym) *)

Theorem C08_left_star_formula : forall kap, symmetric kap -> forall Sl Sr O P f, Sl <> [] -> Sr ++ O <> [] ->
  left_star (stocks_of kap Sl Sr O P f) = rterm kap Sl + rterm kap (Sr ++ O) - rterm kap (Sl ++ Sr ++ O).
Proof. exact left_star_is_gain. Qed.

Theorem C08_right_star_formula : forall kap, symmetric kap -> forall Sl Sr O P f, Sr <> [] -> Sl ++ O <> [] ->
  right_star (stocks_of kap Sl Sr O P f) = rterm kap Sr + rterm kap (Sl ++ O) - rterm kap (Sl ++ Sr ++ O).
Proof. exact right_star_is_gain. Qed.

Theorem C08_left_switch_formula : forall kap, symmetric kap -> forall Sl Sr O P f, Sl <> [] -> Sr ++ O <> [] -> P <> [] ->
  left_switch (stocks_of kap Sl Sr O P f) =
  rterm kap (P ++ Sl) + rterm kap (Sr ++ O) - rterm kap P - rterm kap (Sl ++ Sr ++ O).
Proof. exact left_switch_is_gain. Qed.

Theorem C08_right_switch_formula : forall kap, symmetric kap -> forall Sl Sr O P f, Sr <> [] -> Sl ++ O <> [] -> P <> [] ->
  right_switch (stocks_of kap Sl Sr O P f) =
  rterm kap (P ++ Sr) + rterm kap (Sl ++ O) - rterm kap P - rterm kap (Sl ++ Sr ++ O).
Proof. exact right_switch_is_gain. Qed.

Theorem C08_realloc_formula : forall kap, symmetric kap -> forall Sl Sr O P Q f,
  Sl <> [] -> Sr <> [] -> O <> [] -> P <> [] -> Q <> [] ->
  left_switch (stocks_of kap Sl Sr O P f) + right_switch (stocks_of kap Sl Sr O Q f) + corrective_term (stocks_of kap Sl Sr O P f) =
  rterm kap (P ++ Sl) + rterm kap (Q ++ Sr) + rterm kap O - rterm kap P - rterm kap Q - rterm kap (Sl ++ Sr ++ O).
Proof. exact realloc_is_gain. Qed.

Theorem C08_sigma_bilinear_symmetric : forall kap a a' b b',
  sigma Rops kap (a ++ a') b = sigma Rops kap a b + sigma Rops kap a' b /\
  sigma Rops kap a (b ++ b') = sigma Rops kap a b + sigma Rops kap a b' /\
  (symmetric kap -> sigma Rops kap a b = sigma Rops kap b a).
Proof. intros. split; [apply sig_app_l | split; [apply sig_app_r | intros; now apply sig_sym]]. Qed.

(* === 3. the executable as-is model computes exactly the regenerated text =================================== *)

Theorem C08_asis_formulas_regenerated :
  forall (sl sr lf slck srck slcp srcp gkk gpp om : R) (n s c p : nat), (s <= n)%nat -> (n <= c)%nat ->
  let st := {| sl_square := sl; sr_square := sr; leaf_square := lf; sl_clusters_k := slck; sr_clusters_k := srck;
               sl_clusters_k_prime := slcp; sr_clusters_k_prime := srcp; gamma_k_k := gkk; gamma_k_prime_k_prime := gpp;
               omega_k_feature_id := om; n_leaf := INR n; split_size := INR s; cluster_sizes_k := INR c;
               cluster_sizes_k_prime := INR p |} in
  star_f Rops sl gkk slck c s = left_star st /\
  star_f Rops sr gkk srck c (n - s) = right_star st /\
  left_switch_f Rops sl gkk gpp slck slcp c p s = left_switch st /\
  left_switch_f Rops sr gkk gpp srck srcp c p (n - s) = right_switch st /\
  corrective_f Rops sl sr lf gkk slck srck c n s = corrective_term st /\
  double_star_f Rops false sl sr lf gkk slck srck om c n s = double_star_gain st.
Proof. exact asis_formulas_regenerated. Qed.

Theorem C08_asis_guards_regenerated : forall nc kmax nl cs : nat,
  let z := Z.of_nat in
  guard_double_star (z nc) (z kmax) (z nl) (z cs) = g_double_star nc kmax nl cs /\
  guard_star (z nc) (z kmax) (z nl) (z cs) = g_star nc kmax /\
  guard_switch (z nc) (z kmax) (z nl) (z cs) = g_switch nc /\
  guard_realloc (z nc) (z kmax) (z nl) (z cs) = (g_switch nc && g_realloc nc nl cs)%bool /\
  (forall k k' : nat, skip_cluster (z k) (z k') = (k =? k')%nat) /\
  (forall a b : nat, pair_distinct (z a) (z b) = negb (eq_optnat (Some a) (Some b))).
Proof. exact asis_guards_regenerated. Qed.

Theorem C08_asis_tests_regenerated : forall (g l r b rf c ls rs tl sl tr sr : R),
  upd_double_star g b = t_gt Rops g b /\
  upd_star l r b = (t_gt Rops l b || t_gt Rops r b)%bool /\
  pick_star l r = t_gt Rops l r /\
  upd_switch l r b = (t_ge Rops l b || t_ge Rops r b)%bool /\
  pick_switch l r = t_gt Rops l r /\
  upd_realloc rf c b = t_gt Rops (rf + c) b /\
  pair_choice ls rs tl sl tr sr = gt_opt Rops (add_opt Rops (Some tl) (Some sr)) (add_opt Rops (Some tr) (Some sl)) /\
  track_top_left ls rs tl sl tr sr = ge_opt Rops ls (Some tl) /\
  track_second_left ls rs tl sl tr sr = ge_opt Rops ls (Some sl) /\
  track_top_right ls rs tl sl tr sr = ge_opt Rops rs (Some tr) /\
  track_second_right ls rs tl sl tr sr = ge_opt Rops (if false then rs else ls) (Some sr).
Proof. exact asis_tests_regenerated. Qed.

(* the stocks maintained incrementally along the sorted leaf (sl_square += 2 alpha + k_xx, ...) are the stocks
   of the current prefix / suffix, for every symmetric kernel: running the loop with them is running it with the
   directly computed sigma(Sl,Sl), sigma(Sr,Sr), sum_{i in Sl} omega[a,i], sum_{i in Sr} omega[a,i] *)
Theorem C08_incremental_stocks_correct : forall (B : Type) kap omega nc
    (visit : B -> list nat -> nat -> list nat -> R -> R -> list R -> list R -> B),
  symmetric kap -> forall rest pre acc,
  scan_gen Rops kap omega nc visit pre rest (sigma Rops kap pre pre) (sigma Rops kap rest rest)
           (dir_stocks omega nc pre) (dir_stocks omega nc rest) acc
  = scan_direct kap omega nc visit pre rest acc.
Proof. exact @incremental_stocks_correct. Qed.

Theorem C08_leaf_square_is_stock : forall (st : @kstate R) j key, symmetric (ks_kernel st) ->
  let leaf := nth j (ks_leaves st) [] in
  rsuml (map (fun i => Lambda_of Rops st j i) leaf) = sigma Rops (ks_kernel st) (sort_by Rops key leaf) (sort_by Rops key leaf).
Proof. exact leaf_square_is_stock. Qed.

(* === 4. choice of the reallocation pair ===================================================================== *)

(* repaired tracker (fix8 = true): the pair returned is the best ordered pair of two distinct clusters *)
Theorem C08_top2_pair_optimal : forall es : list entry, NoDup (map e_id es) -> (2 <= length es)%nat ->
  exists r a b, pair_select Rops (track_left es) (track_right true es) = (Some r, Some a, Some b) /\ a <> b /\
    (exists ea eb, In ea es /\ In eb es /\ e_id ea = a /\ e_id eb = b /\ r = e_gl ea + e_gr eb) /\
    (forall e1 e2, In e1 es -> In e2 es -> e_id e1 <> e_id e2 -> e_gl e1 + e_gr e2 <= r).
Proof. exact top2_pair_optimal. Qed.

(* the trackers inside the model's loop over k_prime are those folds, over distinct cluster ids *)
Theorem C08_switch_loop_tracks : forall fix8 sl_square sr_square slc src cs gamma n_leaf k leaf_id split_size feat thr ks best tl tr,
  let res := fold_left (switch_step Rops fix8 sl_square sr_square slc src cs gamma n_leaf k leaf_id split_size feat thr)
                       ks (best, tl, tr) in
  snd (fst res) = track_left_from tl (entries_of sl_square sr_square slc src cs gamma n_leaf k split_size ks) /\
  snd res = track_right_from fix8 tr (entries_of sl_square sr_square slc src cs gamma n_leaf k split_size ks) /\
  (forall nc, NoDup (map e_id (entries_of sl_square sr_square slc src cs gamma n_leaf k split_size (seq 0 nc)))).
Proof.
  intros. destruct (switch_fold_tracks fix8 sl_square sr_square slc src cs gamma n_leaf k leaf_id split_size feat thr ks best tl tr) as [H1 H2].
  split; [exact H1 | split; [exact H2 | intros; apply entries_of_ids]].
Qed.

(* F8 (known finding): as written (`elif left_switch >= second_gain_right`) the best pair can be missed with
   three other clusters, i.e. n_clusters >= 4: (left, right) switch gains (10,10), (5,1), (-5,8) -> 15 instead of 18 *)
Theorem C08_second_right_asis_refuted :
  NoDup (map e_id f8_witness) /\
  pair_select Rops (track_left f8_witness) (track_right false f8_witness) = (Some 15, Some 2%nat, Some 1%nat) /\
  (exists e1 e2, In e1 f8_witness /\ In e2 f8_witness /\ e_id e1 <> e_id e2 /\ 15 < e_gl e1 + e_gr e2) /\
  (exists ls rs tl sl tr sr, track_second_right ls rs tl sl tr sr <> ge_opt Rops rs (Some sr)).
Proof. exact second_right_asis_refuted. Qed.

(* PARTIAL towards "the repaired scan returns the arg-max": at ONE split position (given stocks), the repaired
   compute_all_splits (fix7 = fix8 = true) returns the running best updated with the maximum over EVERY target pair
   it evaluates there - pos_values = double star, both stars, every switch, every ordered pair of distinct other
   clusters + corrective term, each under its guard - and the split it returns carries the value it was compared
   with ([covers]: the gain never decreases, dominates every value, and is the old best or one of the values).
   Missing for the full statement: (a) the stocks at the position are cand_stocks of a threshold candidate (needs
   sortedness of the argsort model and prefix = {X <= t}); (b) pos_values correspond one-to-one to [candidates];
   (c) the fold of this lemma over positions, features and leaves.  (a)-(c) are covered by L2/L3: the extracted
   repaired model is compared with best_spec and with a python brute force on every generated state. *)
Theorem C08_scan_is_argmax_partial :
  forall (sl sr lf : R) (slc src : nat -> R) (cs : nat -> nat) (gamma omega : nat -> nat -> R)
         (n_leaf nc kmax k leaf_id split_size feat : nat) (thr : R) (best : split),
  covers leaf_id feat thr (pos_values sl sr lf slc src cs gamma omega n_leaf nc kmax k split_size feat) best
         (compute_all_splits Rops true true best sl sr lf slc src cs gamma omega n_leaf nc kmax k leaf_id split_size feat thr).
Proof. exact compute_all_splits_fixed_covers. Qed.

(* === 5. the specification: arg-max over all admissible candidates, telescoping ============================ *)

Theorem C08_best_spec_is_argmax : forall (st : @kstate R) (c : @cand R),
  In c (candidates Rops st) -> gain Rops st c <= gain Rops st (best_spec Rops st).
Proof. exact best_spec_is_argmax. Qed.

Theorem C08_best_spec_is_candidate : forall (st : @kstate R),
  candidates Rops st <> [] -> In (best_spec Rops st) (candidates Rops st).
Proof. exact best_spec_is_candidate. Qed.

(* any history of applied splits: final objective = initial objective + sum of the true gains *)
Theorem C08_score_is_root_plus_gains : forall (cs : list (@cand R)) (st : @kstate R),
  objective Rops (run_splits Rops st cs) = objective Rops st + rsuml (gains_along Rops st cs).
Proof. exact score_is_root_plus_gains. Qed.

(* non-vacuity: a concrete 3-sample state (identity kernel, two leaves in one cluster, K_max = 3) meets the
   hypotheses of the theorems above and its double-star candidate is enumerated by [candidates] *)
Example C08_nonvacuous :
  state_ok ex_state /\ wf_state ex_state ex_cand /\
  Lp ex_state ex_cand = [0%nat] /\ Rp ex_state ex_cand = [1%nat] /\ Op ex_state ex_cand = [2%nat] /\
  c_left ex_cand = ks_nc ex_state /\ c_right ex_cand = S (ks_nc ex_state) /\ (S (ks_nc ex_state) < ks_kmax ex_state)%nat /\
  In ex_cand (candidates Rops ex_state).
Proof. exact ex_state_ok. Qed.

Print Assumptions C08_left_star_is_gain.
Print Assumptions C08_right_star_is_gain.
Print Assumptions C08_left_switch_is_gain.
Print Assumptions C08_right_switch_is_gain.
Print Assumptions C08_realloc_is_gain.
Print Assumptions C08_double_star_corrected_is_gain.
Print Assumptions C08_double_star_asis_refuted.
Print Assumptions C08_candidates_covered.
Print Assumptions C08_left_star_formula.
Print Assumptions C08_right_star_formula.
Print Assumptions C08_left_switch_formula.
Print Assumptions C08_right_switch_formula.
Print Assumptions C08_realloc_formula.
Print Assumptions C08_sigma_bilinear_symmetric.
Print Assumptions C08_asis_formulas_regenerated.
Print Assumptions C08_asis_guards_regenerated.
Print Assumptions C08_asis_tests_regenerated.
Print Assumptions C08_incremental_stocks_correct.
Print Assumptions C08_leaf_square_is_stock.
Print Assumptions C08_top2_pair_optimal.
Print Assumptions C08_switch_loop_tracks.
Print Assumptions C08_second_right_asis_refuted.
Print Assumptions C08_scan_is_argmax_partial.
Print Assumptions C08_best_spec_is_argmax.
Print Assumptions C08_best_spec_is_candidate.
Print Assumptions C08_score_is_root_plus_gains.
