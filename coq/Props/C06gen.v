(* C06 — the regenerated tie (second statement file of C06; Props/C06.v holds the theorems about the hand-written model).
   Statements only.  When a regenerated rule changes, Proofs/SelectionGen.v and hence this file stop compiling, while
   Props/C06.v keeps checking the hand model. *)
From Coq Require Import Reals Lra String List Arith Permutation Sorted.
From GV Require Import Common.Num Common.NumR Model.Forward Model.Selection Gen.SelectionRules Proofs.Selection Proofs.SelectionProx Proofs.SelectionGen.
Import ListNotations.
Open Scope R_scope.

(* ================================================================================================================
   The regenerated tie.  Gen/SelectionRules.v is rewritten by translator/tr_selection.py from the CURRENT sources of
   gemclus/sparse/_linear_sparse.py and _mlp_sparse.py on every build: gen_update_weights_* (whole-method symbolic
   execution of _update_weights), gen_get_selection_* / gen_n_selected_features_* / gen_group_lasso_penalty_* (whole
   one-line methods in the numpy vocabulary of Model/Selection.v), gen_fit_rules_* (skeleton + holes of fit).
   The theorems below are about these regenerated definitions. *)

(* the regenerated definitions are the hand-written model, and the regenerated fit rules are the documented ones
   (golden copy written out here): any drift of a hole breaks this theorem *)
Theorem C06_regenerated_rules_are_documented :
  let documented := {| fr_steps := ["_validate_params"; "validate_data"; "check_groups"; "super().fit"]%string;
                       fr_groups_source := "groups"%string; fr_shape_axis := 1;
                       fr_groups_target := "groups_"%string; fr_min_samples := "n_clusters"%string |} in
  gen_fit_rules_linear = documented /\ gen_fit_rules_mlp = documented /\
  (forall (T St : Type) (o : NumOps T) up lr p gp groups_ alpha hp s w g,
     @gen_update_weights_linear T St o up lr p gp groups_ alpha hp s w g = update_weights_linear o up lr p gp groups_ alpha s w g) /\
  (forall (T St : Type) (o : NumOps T) up lr p gp groups_ alpha M hp s w g,
     @gen_update_weights_mlp T St o up lr p gp groups_ alpha M hp s w g = update_weights_mlp o up lr p gp groups_ alpha M s w g) /\
  (forall (T : Type) (o : NumOps T) d K (w : @lin_params T),
     gen_get_selection_linear o d K w = np_nonzero0 o d (np_norm_axis1 o K (lW w)) /\
     gen_get_selection_linear o d K w = selection o d K (lW w) /\
     gen_n_selected_features_linear o d K w = np_count d (np_ne0 o (np_norm_axis1 o K (lW w))) /\
     gen_n_selected_features_linear o d K w = n_selected o d K (lW w) /\
     gen_group_lasso_penalty_linear o d K w = group_lasso_penalty o d K (lW w)) /\
  (forall (T : Type) (o : NumOps T) d h K (w : @mlp_params T),
     gen_get_selection_mlp o d h K w = np_nonzero0 o d (np_norm_axis1 o K (mWskip w)) /\
     gen_get_selection_mlp o d h K w = selection o d K (mWskip w) /\
     gen_n_selected_features_mlp o d h K w = np_count d (np_ne0 o (np_norm_axis1 o K (mWskip w))) /\
     gen_n_selected_features_mlp o d h K w = n_selected o d K (mWskip w) /\
     gen_group_lasso_penalty_mlp o d h K w = group_lasso_penalty o d K (mWskip w)).
Proof.
  cbv zeta. split; [reflexivity|]. split; [reflexivity|].
  split; [intros; apply gen_update_weights_linear_is_model|]. split; [intros; apply gen_update_weights_mlp_is_model|].
  split; intros.
  - repeat split; try reflexivity; apply gen_n_selected_features_linear_is_model.
  - repeat split; try reflexivity; apply gen_n_selected_features_mlp_is_model.
Qed.

Theorem C06_regenerated_selection_is_nonzero_rows : forall d h K (wl : @lin_params R) (wm : @mlp_params R),
  (forall j, In j (gen_get_selection_linear Rops d K wl) <-> (j < d)%nat /\ exists k, (k < K)%nat /\ lW wl j k <> 0) /\
  StronglySorted lt (gen_get_selection_linear Rops d K wl) /\
  gen_n_selected_features_linear Rops d K wl = length (gen_get_selection_linear Rops d K wl) /\
  (forall j, In j (gen_get_selection_mlp Rops d h K wm) <-> (j < d)%nat /\ exists k, (k < K)%nat /\ mWskip wm j k <> 0) /\
  StronglySorted lt (gen_get_selection_mlp Rops d h K wm) /\
  gen_n_selected_features_mlp Rops d h K wm = length (gen_get_selection_mlp Rops d h K wm).
Proof. exact regen_selection_is_nonzero_rows. Qed.

Theorem C06_regenerated_update_is_prox_of_step :
  (forall (St : Type) (update_params : St -> lin_params -> lin_params -> St * lin_params) (learning_rate : St -> R)
          (linear_prox_grad : (nat -> nat -> R) -> R -> nat -> nat -> R)
          (group_linear_prox_grad : list (list nat) -> (nat -> nat -> R) -> R -> nat -> nat -> R)
          (groups_ : option (list (list nat))) (alpha hp_learning_rate : R) (s : St) (w g : lin_params),
     let stepped := update_params s w g in
     let thr := alpha * learning_rate (fst stepped) in
     let r := gen_update_weights_linear Rops update_params learning_rate linear_prox_grad group_linear_prox_grad groups_ alpha hp_learning_rate s w g in
     fst r = fst stepped /\ lb (snd r) = lb (snd stepped) /\
     lW (snd r) = match groups_ with None => linear_prox_grad (lW (snd stepped)) thr | Some gs => group_linear_prox_grad gs (lW (snd stepped)) thr end) /\
  (forall (St : Type) (update_params : St -> mlp_params -> mlp_params -> St * mlp_params) (learning_rate : St -> R)
          (mlp_prox_grad : (nat -> nat -> R) -> (nat -> nat -> R) -> R -> R -> (nat -> nat -> R) * (nat -> nat -> R))
          (group_mlp_prox_grad : list (list nat) -> (nat -> nat -> R) -> (nat -> nat -> R) -> R -> R -> (nat -> nat -> R) * (nat -> nat -> R))
          (groups_ : option (list (list nat))) (alpha M hp_learning_rate : R) (s : St) (w g : mlp_params),
     let stepped := update_params s w g in
     let thr := alpha * learning_rate (fst stepped) in
     let r := gen_update_weights_mlp Rops update_params learning_rate mlp_prox_grad group_mlp_prox_grad groups_ alpha M hp_learning_rate s w g in
     fst r = fst stepped /\
     mW2 (snd r) = mW2 (snd stepped) /\ mb1 (snd r) = mb1 (snd stepped) /\ mb2 (snd r) = mb2 (snd stepped) /\
     (mWskip (snd r), mW1 (snd r)) =
       match groups_ with
       | None => mlp_prox_grad (mWskip (snd stepped)) (mW1 (snd stepped)) thr M
       | Some gs => group_mlp_prox_grad gs (mWskip (snd stepped)) (mW1 (snd stepped)) thr M
       end).
Proof. exact regen_update_is_prox_of_step. Qed.

(* the regenerated get_selection of the linear model: the prediction is a function of the selected columns only *)
Theorem C06_regenerated_unselected_inert_linear : forall d K (w : @lin_params R) (X X' : nat -> nat -> R),
  (forall j, In j (gen_get_selection_linear Rops d K w) -> forall i, X i j = X' i j) ->
  forall i k, (k < K)%nat -> linear_infer Rops d K (lW w) (lb w) X i k = linear_infer Rops d K (lW w) (lb w) X' i k.
Proof. exact regen_unselected_inert_linear. Qed.

(* the regenerated _update_weights of the sparse MLP with C05's operators, followed by the regenerated get_selection *)
Theorem C06_regenerated_unselected_inert_mlp_with_C05 :
  forall (St : Type) (update_params : St -> mlp_params -> mlp_params -> St * mlp_params) (learning_rate : St -> R) (d h K : nat)
         alpha M hp_learning_rate s w g,
  0 <= alpha * learning_rate (fst (update_params s w g)) -> 0 <= M ->
  (forall j, (j < d)%nat -> ~ row_zero K (mWskip (snd (update_params s w g))) j) ->
  let w' := snd (gen_update_weights_mlp Rops update_params learning_rate (mlp_prox_fn d h K) (gmlp_prox_fn d h K) None alpha M hp_learning_rate s w g) in
  forall X X' : nat -> nat -> R, (forall j, In j (gen_get_selection_mlp Rops d h K w') -> forall i, X i j = X' i j) ->
  forall i k, (k < K)%nat ->
    sparse_mlp_infer Rops d h K (mW1 w') (mb1 w') (mW2 w') (mb2 w') (mWskip w') X i k =
    sparse_mlp_infer Rops d h K (mW1 w') (mb1 w') (mW2 w') (mb2 w') (mWskip w') X' i k.
Proof. exact regen_unselected_inert_mlp_with_C05. Qed.

Theorem C06_regenerated_groups_whole_and_inert_mlp_with_C05 :
  forall (St : Type) (update_params : St -> mlp_params -> mlp_params -> St * mlp_params) (learning_rate : St -> R) (d h K : nat)
         gs alpha M hp_learning_rate s w g,
  groups_wf d gs -> (forall j, (j < d)%nat -> exists g0, In g0 gs /\ In j g0) ->
  0 <= alpha * learning_rate (fst (update_params s w g)) -> 0 <= M ->
  (forall g0, In g0 gs -> forall j, In j g0 -> ~ row_zero K (mWskip (snd (update_params s w g))) j) ->
  let w' := snd (gen_update_weights_mlp Rops update_params learning_rate (mlp_prox_fn d h K) (gmlp_prox_fn d h K) (Some gs) alpha M hp_learning_rate s w g) in
  (forall g0, In g0 gs -> (forall j, In j g0 -> In j (gen_get_selection_mlp Rops d h K w')) \/
                          (forall j, In j g0 -> ~ In j (gen_get_selection_mlp Rops d h K w'))) /\
  forall X X' : nat -> nat -> R, (forall j, In j (gen_get_selection_mlp Rops d h K w') -> forall i, X i j = X' i j) ->
  forall i k, (k < K)%nat ->
    sparse_mlp_infer Rops d h K (mW1 w') (mb1 w') (mW2 w') (mb2 w') (mWskip w') X i k =
    sparse_mlp_infer Rops d h K (mW1 w') (mb1 w') (mW2 w') (mb2 w') (mWskip w') X' i k.
Proof. exact regen_groups_whole_and_inert_mlp_with_C05. Qed.

Theorem C06_regenerated_groups_whole_linear_with_C05 :
  forall (St : Type) (update_params : St -> lin_params -> lin_params -> St * lin_params) (learning_rate : St -> R) (d K : nat)
         gs alpha hp_learning_rate s w g, groups_wf d gs ->
  (forall g0, In g0 gs -> forall j, In j g0 -> ~ row_zero K (lW (snd (update_params s w g))) j) ->
  let w' := snd (gen_update_weights_linear Rops update_params learning_rate (lin_prox_fn d K) (glin_prox_fn d K) (Some gs) alpha hp_learning_rate s w g) in
  forall g0, In g0 gs -> (forall j, In j g0 -> In j (gen_get_selection_linear Rops d K w')) \/
                         (forall j, In j g0 -> ~ In j (gen_get_selection_linear Rops d K w')).
Proof. exact regen_groups_whole_linear_with_C05. Qed.

(* the regenerated fit rules: groups_ receives check_groups(self.groups, X.shape[1]) after validation and before the
   parent's fit; groups=None gives None; an accepted list is completed with increasing singletons into a partition *)
Theorem C06_regenerated_fit_sets_groups : forall (rules : fit_rules), rules = gen_fit_rules_linear \/ rules = gen_fit_rules_mlp ->
  fr_groups_target rules = "groups_"%string /\
  fr_steps rules = ["_validate_params"; "validate_data"; "check_groups"; "super().fit"]%string /\
  forall hp shape,
    fit_groups_with rules hp shape = fit_groups (hp "groups"%string) (shape 1%nat) /\
    (hp "groups"%string = None -> fit_groups_with rules hp shape = Some None) /\
    (forall r, fit_groups_with rules hp shape = Some (Some r) ->
       exists gs, hp "groups"%string = Some gs /\ r = (gs ++ map (fun i => [i]) (missing (concat gs) (shape 1%nat)))%list /\
                  Permutation (concat r) (seq 0 (shape 1%nat)) /\ groups_wf (shape 1%nat) r).
Proof. exact regen_fit_sets_groups. Qed.

Print Assumptions C06_regenerated_rules_are_documented.
Print Assumptions C06_regenerated_selection_is_nonzero_rows.
Print Assumptions C06_regenerated_update_is_prox_of_step.
Print Assumptions C06_regenerated_unselected_inert_linear.
Print Assumptions C06_regenerated_unselected_inert_mlp_with_C05.
Print Assumptions C06_regenerated_groups_whole_and_inert_mlp_with_C05.
Print Assumptions C06_regenerated_groups_whole_linear_with_C05.
Print Assumptions C06_regenerated_fit_sets_groups.
