(* C01 on the REGENERATED f-divergence definitions: Gen/FDiv.v is produced on every build by
   translator/tr_fdiv.py from the numpy source of gemclus/gemini/_fdivergences.py (symbolic, shape-aware,
   fail-closed), and Proofs/FDivGen.v proves it convertible to the hand-written model for every number
   system.  A change of the source that alters the computed term breaks these obligations. *)
From Coq Require Import Reals.
From GV Require Import Common.Num Common.NumR Model.Gemini Proofs.RSumLib Proofs.GeminiDefs Gen.FDiv Proofs.FDivGen.
Open Scope R_scope.
Theorem C01_kl_gen_is_definition : forall eps n K P ovo, 0 <= eps -> (0 < n)%nat -> interior eps n K P -> row_stochastic n K P ->
  gen_kl_score Rops eps n K P ovo = if ovo then gemini_ovo n K P (KLdiv n) else gemini_ova n K P (KLdiv n).
Proof. exact gen_kl_score_is_definition. Qed.
Theorem C01_tv_gen_is_definition : forall eps n K P ovo, 0 <= eps -> (0 < n)%nat -> interior eps n K P ->
  gen_tv_score Rops eps n K P ovo = if ovo then gemini_ovo n K P (TVdist n) else gemini_ova n K P (TVdist n).
Proof. exact gen_tv_score_is_definition. Qed.
Theorem C01_hellinger_gen_is_definition : forall eps n K P ovo, 0 <= eps -> (0 < n)%nat -> interior eps n K P -> row_stochastic n K P ->
  gen_he_score Rops eps n K P ovo = if ovo then gemini_ovo n K P (Hell2 n) else gemini_ova n K P (Hell2 n).
Proof. exact gen_he_score_is_definition. Qed.
Theorem C01_chi2_gen_is_definition : forall eps n K P ovo, 0 <= eps -> (0 < n)%nat -> interior eps n K P -> row_stochastic n K P ->
  gen_chi_score Rops eps n K P ovo = ((if ovo then gemini_ovo n K P (Chi2 n) else gemini_ova n K P (Chi2 n)) + 1) / 2.
Proof. exact gen_chi_score_is_definition. Qed.
(* the regenerated terms ARE the model the correspondence runs (all number systems, floats included) *)
Theorem C01_gen_is_model : forall T (o : NumOps T) eps n K Y ovo,
  gen_kl_score o eps n K Y ovo = kl_score o eps n K Y ovo /\ gen_tv_score o eps n K Y ovo = tv_score o eps n K Y ovo /\
  gen_he_score o eps n K Y ovo = he_score o eps n K Y ovo /\ gen_chi_score o eps n K Y ovo = chi_score o eps n K Y ovo.
Proof. intros. split; [apply gen_kl_score_eq | split; [apply gen_tv_score_eq | split; [apply gen_he_score_eq | apply gen_chi_score_eq]]]. Qed.
Print Assumptions C01_kl_gen_is_definition.
Print Assumptions C01_tv_gen_is_definition.
Print Assumptions C01_hellinger_gen_is_definition.
Print Assumptions C01_chi2_gen_is_definition.
Print Assumptions C01_gen_is_model.
