(* C09 — proofs about the KAURI tree model (Model/KauriTree.v).
   Plan: (0) the regenerated rules Gen/KauriFitRules.v unfolded into the concrete equations of the model;
   (1) list / counting / argmax lemmas; (2) the routing relation [seg] and its link with the
   fuelled [route] / [visits]; (3) the loop invariant [Inv], established by [init] and preserved by
   [step] for every admissible split; (4) reachability and the loop; (5) the clauses of C09. *)
From Coq Require Import List Arith Lia ZArith Bool.
From GV Require Import Common.Num Gen.KauriFitRules Model.KauriTree.
Import ListNotations.

(* ================================================================== 0. the regenerated rules, unfolded *)
(* The hand-written copy of the holes is Model.KauriTree.golden_fit_rules; [rules_golden] (end of this file) makes
   any drift of the regenerated record visible.  The unfolding lemmas below state, by
   computation with the REGENERATED rules, the concrete equations the rest of the development relies on:
   a changed rule breaks them (and with them L1) before it can silently change the meaning of a theorem. *)

(* ---- Tree: __init__, _add_child, predict *)
Lemma rule_tree_init : tree_init = [leaf_node 0 0].
Proof. reflexivity. Qed.
(* the hand-written _add_child: children n_nodes and n_nodes+1, both at depth depths[father]+1, targets (left, right) *)
Definition add_child_h (t : tree) (father : nat) (sp : ksplit) : tree :=
  let n := length t in
  let dep := S (nd_depth (get_node t father)) in
  upd_nth t father (fun nd =>
    {| nd_left := Some n; nd_right := Some (S n); nd_feature := Some (s_feature sp);
       nd_threshold := Some (s_threshold sp); nd_target := nd_target nd; nd_depth := nd_depth nd |})
  ++ [leaf_node (s_left sp) dep; leaf_node (s_right sp) dep].
Lemma rule_add_child t father sp : add_child t father sp = add_child_h t father sp.
Proof.
  change (add_child t father sp) with
    (upd_nth t father (fun nd =>
       {| nd_left := Some (length t); nd_right := Some (length t + 1); nd_feature := Some (s_feature sp);
          nd_threshold := Some (s_threshold sp); nd_target := nd_target nd; nd_depth := nd_depth nd |})
     ++ [leaf_node (s_left sp) (nd_depth (get_node t father) + 1); leaf_node (s_right sp) (nd_depth (get_node t father) + 1)]).
  unfold add_child_h. rewrite !Nat.add_1_r. reflexivity.
Qed.
Lemma rule_route_0 t x a : route 0 t x a = None.
Proof. reflexivity. Qed.
Lemma rule_route_S fu t x a : route (S fu) t x a =
  match nth_error t a with
  | None => None
  | Some nd =>
    match nd_left nd with
    | None => Some a
    | Some l =>
      match nd_right nd, nd_feature nd, nd_threshold nd with
      | Some r, Some f, Some th => if (xval x f <=? th)%Z then route fu t x l else route fu t x r
      | _, _, _ => None
      end
    end
  end.
Proof. reflexivity. Qed.
Lemma rule_visits_0 t x a b : visits 0 t x a b = false.
Proof. reflexivity. Qed.
Lemma rule_visits_S fu t x a b : visits (S fu) t x a b =
  match nth_error t a with
  | None => false
  | Some nd =>
    if a =? b then true else
    match nd_left nd, nd_right nd, nd_feature nd, nd_threshold nd with
    | Some l, Some r, Some f, Some th => if (xval x f <=? th)%Z then visits fu t x l b else visits fu t x r b
    | _, _, _, _ => false
    end
  end.
Proof. reflexivity. Qed.

Lemma rule_route_leaf t x : route_leaf t x = route (length t) t x 0.
Proof. reflexivity. Qed.
Lemma rule_predict_row t x :
  predict_row t x = match route_leaf t x with Some a => Some (nd_target (get_node t a)) | None => None end.
Proof. reflexivity. Qed.
(* predict compares the query rows in fit's number system (float64): the regenerated flag says so *)
Lemma rule_predict_number_system : r_predict_float64 kauri_fit_rules = true.
Proof. reflexivity. Qed.
Lemma rule_predict t X : predict t X = map (predict_row t) X.
Proof. reflexivity. Qed.
Lemma rule_node_count t X a : node_count t X a = countb (length X) (fun i => visits (length t) t (nth i X []) 0 a).
Proof. reflexivity. Qed.

(* ---- Kauri.fit: effective limits, initial state, guard, loop *)
Lemma rule_max_leaves P n : eff_max_leaves P n = match max_leaves P with None => n | Some m => m end.
Proof. reflexivity. Qed.
Lemma rule_max_depth P n : eff_max_depth P n = match max_depth P with None => n | Some m => m end.
Proof. reflexivity. Qed.
(* random_state.choice(d, size=max_features, replace=False) is always legal: 1 <= max_features <= d *)
Lemma rule_max_features mf d : 1 <= d -> 1 <= eff_max_features mf d <= d.
Proof.
  intros Hd. change (eff_max_features mf d) with (match mf with Some v => Nat.min (Nat.max 1 v) d | None => d end).
  destruct mf as [v|]; lia.
Qed.
Definition init_h (P : params) (X : data) : state :=
  {| st_Z := fun l _ => l =? 0; st_Y := fun k l => (k =? 0) && (l =? 0); st_nl := 1; st_nc := 1;
     st_queue := if min_samples_split P <=? length X then [0] else [];
     st_l2n := fun x => if x =? 0 then 0 else 0; st_tree := [leaf_node 0 0] |}.
Lemma rule_init P X : init P X = init_h P X.
Proof. reflexivity. Qed.
Lemma rule_guard P X st :
  guard P X st = (st_nl st <? eff_max_leaves P (length X)) && negb (0 =? length (st_queue st)).
Proof. reflexivity. Qed.
Lemma rule_loop_0 P X choose st : loop 0 P X choose st = OutOfFuel.
Proof. reflexivity. Qed.
Lemma rule_loop_S fu P X choose st : loop (S fu) P X choose st =
  if guard P X st then match choose st with None => Done st | Some sp => loop fu P X choose (step P X st sp) end else Done st.
Proof. reflexivity. Qed.
Lemma rule_fit P X choose : fit P X choose = loop (S (eff_max_leaves P (length X))) P X choose (init P X).
Proof. reflexivity. Qed.

(* ---- Kauri.fit: one iteration, field by field *)
Lemma rule_goes_left X st sp i :
  goes_left X st sp i = st_Z st (s_leaf sp) i && (feat X i (s_feature sp) <=? s_threshold sp)%Z.
Proof. reflexivity. Qed.
Lemma rule_goes_right X st sp i :
  goes_right X st sp i = st_Z st (s_leaf sp) i && negb (feat X i (s_feature sp) <=? s_threshold sp)%Z.
Proof. reflexivity. Qed.
(* Z[leaf, right_indices] = 0 then Z[n_leaves, right_indices] = 1 (the later assignment wins) *)
Lemma rule_step_Z P X st sp l i : st_Z (step P X st sp) l i =
  if (l =? st_nl st) && goes_right X st sp i then true
  else if (l =? s_leaf sp) && goes_right X st sp i then false else st_Z st l i.
Proof. reflexivity. Qed.
(* k = Y[:, leaf].argmax(); Y[k, leaf] = 0; Y[left_target, leaf] = 1; Y[right_target, n_leaves] = 1 *)
Lemma rule_step_Y P X st sp c l : st_Y (step P X st sp) c l =
  if (c =? s_right sp) && (l =? st_nl st) then true
  else if (c =? s_left sp) && (l =? s_leaf sp) then true
  else if (c =? cluster_of P st (s_leaf sp)) && (l =? s_leaf sp) then false else st_Y st c l.
Proof. reflexivity. Qed.
Lemma rule_step_nl P X st sp : st_nl (step P X st sp) = S (st_nl st).
Proof. change (st_nl (step P X st sp)) with (st_nl st + 1). apply Nat.add_1_r. Qed.
Lemma rule_step_nc P X st sp : st_nc (step P X st sp) =
  if (st_nc st <=? s_left sp) && (st_nc st <=? s_right sp) then st_nc st + 2
  else if (st_nc st <=? s_left sp) || (st_nc st <=? s_right sp) then st_nc st + 1 else st_nc st.
Proof. reflexivity. Qed.
Lemma rule_step_tree P X st sp : st_tree (step P X st sp) = add_child_h (st_tree st) (st_l2n st (s_leaf sp)) sp.
Proof. change (st_tree (step P X st sp)) with (add_child (st_tree st) (st_l2n st (s_leaf sp)) sp). apply rule_add_child. Qed.
(* leaf2node[leaf] = 2*n_leaves-1 ; leaf2node[n_leaves] = 2*n_leaves *)
Lemma rule_step_l2n P X st sp : st_l2n (step P X st sp) =
  upd (upd (st_l2n st) (s_leaf sp) (2 * st_nl st - 1)) (st_nl st) (2 * st_nl st).
Proof. reflexivity. Qed.
(* remove(leaf); if parent_depth + 1 < max_depth: append leaf if |left| >= min_samples_split, then n_leaves if |right| >= .. *)
Lemma rule_step_queue P X st sp : st_queue (step P X st sp) =
  if S (nd_depth (get_node (add_child_h (st_tree st) (st_l2n st (s_leaf sp)) sp) (st_l2n st (s_leaf sp)))) <? eff_max_depth P (length X)
  then remove_first (s_leaf sp) (st_queue st)
       ++ (if min_samples_split P <=? countb (length X) (goes_left X st sp) then [s_leaf sp] else [])
       ++ (if min_samples_split P <=? countb (length X) (goes_right X st sp) then [st_nl st] else [])
  else remove_first (s_leaf sp) (st_queue st).
Proof.
  change (st_queue (step P X st sp)) with
    (if nd_depth (get_node (add_child (st_tree st) (st_l2n st (s_leaf sp)) sp) (st_l2n st (s_leaf sp))) + 1 <? eff_max_depth P (length X)
     then remove_first (s_leaf sp) (st_queue st)
          ++ ((if min_samples_split P <=? countb (length X) (goes_left X st sp) then [s_leaf sp] else [])
              ++ ((if min_samples_split P <=? countb (length X) (goes_right X st sp) then [st_nl st] else []) ++ []))
     else remove_first (s_leaf sp) (st_queue st)).
  rewrite rule_add_child, Nat.add_1_r, app_nil_r. reflexivity.
Qed.

(* labels_ = (Y @ Z).argmax(0) ; leaves_ = Z.argmax(0) *)
Lemma rule_label_of P X st i : label_of P X st i =
  argmax_nat (max_clusters P) (fun k => sumn (eff_max_leaves P (length X)) (fun l => b2n (st_Y st k l) * b2n (st_Z st l i))).
Proof. reflexivity. Qed.
Lemma rule_leaf_of P X st i : leaf_of P X st i = argmax_nat (eff_max_leaves P (length X)) (fun l => b2n (st_Z st l i)).
Proof. reflexivity. Qed.
Lemma rule_labels P X st : labels P X st = map (label_of P X st) (seq 0 (length X)).
Proof. reflexivity. Qed.
Lemma rule_leaves P X st : leaves P X st = map (leaf_of P X st) (seq 0 (length X)).
Proof. reflexivity. Qed.

(* ================================================================== 1. basics *)
Lemma countb_ext n p q : (forall i, i < n -> p i = q i) -> countb n p = countb n q.
Proof.
  induction n as [|n IH]; intros H; [reflexivity|]. cbn [countb].
  rewrite IH by (intros; apply H; lia). rewrite (H n) by lia. reflexivity.
Qed.
Lemma countb_mono n p q : (forall i, i < n -> p i = true -> q i = true) -> countb n p <= countb n q.
Proof.
  induction n as [|n IH]; intros H; [reflexivity|]. cbn [countb].
  assert (countb n p <= countb n q) by (apply IH; intros; apply H; [lia|assumption]).
  destruct (p n) eqn:Hp; [rewrite (H n) by (lia || assumption)|destruct (q n)]; lia.
Qed.
Lemma countb_le n p : countb n p <= n.
Proof. induction n as [|n IH]; cbn [countb]; [lia|destruct (p n); lia]. Qed.
Lemma countb_pos n p : 0 < countb n p -> exists i, i < n /\ p i = true.
Proof.
  induction n as [|n IH]; cbn [countb]; [lia|]. destruct (p n) eqn:Hp.
  - intros _. exists n. split; [lia|assumption].
  - intros H. destruct IH as (i & Hi & Hpi); [lia|]. exists i. split; [lia|assumption].
Qed.

Lemma sumn_ge n g l : l < n -> g l <= sumn n g.
Proof.
  induction n as [|n IH]; intros Hl; [lia|]. cbn [sumn].
  destruct (Nat.eq_dec l n) as [->|Hne]; [lia|]. assert (g l <= sumn n g) by (apply IH; lia). lia.
Qed.
Lemma sumn_pos n g : 0 < sumn n g -> exists l, l < n /\ 0 < g l.
Proof.
  induction n as [|n IH]; cbn [sumn]; [lia|]. intros H.
  destruct (Nat.eq_dec (g n) 0) as [Hz|Hz].
  - destruct IH as (l & Hl & Hg); [lia|]. exists l. split; [lia|assumption].
  - exists n. split; lia.
Qed.
Lemma sumn_single n g l0 : l0 < n -> (forall l, l < n -> l <> l0 -> g l = 0) -> sumn n g = g l0.
Proof.
  induction n as [|n IH]; intros Hl H; [lia|]. cbn [sumn].
  destruct (Nat.eq_dec l0 n) as [->|Hne].
  - assert (sumn n g = 0) as ->; [|lia].
    clear IH Hl. induction n as [|m IHm]; [reflexivity|]. cbn [sumn].
    rewrite IHm by (intros; apply H; lia). rewrite (H m) by lia. reflexivity.
  - rewrite IH by (try lia; intros; apply H; lia). rewrite (H n) by lia. lia.
Qed.

Lemma argmax_spec n f : 0 < n -> argmax_nat n f < n /\ (forall j, j < n -> f j <= f (argmax_nat n f)).
Proof.
  induction n as [|n IH]; intros Hn; [lia|]. cbn [argmax_nat].
  destruct (Nat.eq_dec n 0) as [->|Hpos].
  - cbn [argmax_nat]. rewrite Nat.ltb_irrefl. split; [lia|]. intros j Hj. replace j with 0 by lia. lia.
  - destruct IH as (Ha & Hmax); [lia|].
    destruct (f (argmax_nat n f) <? f n) eqn:Hlt.
    + apply Nat.ltb_lt in Hlt. split; [lia|]. intros j Hj.
      destruct (Nat.eq_dec j n) as [->|Hne]; [lia|]. specialize (Hmax j ltac:(lia)). lia.
    + apply Nat.ltb_ge in Hlt. split; [lia|]. intros j Hj.
      destruct (Nat.eq_dec j n) as [->|Hne]; [lia|]. apply Hmax. lia.
Qed.
(* argmax of a 0/1 column with exactly one 1 *)
Lemma argmax_onehot n (p : nat -> bool) k :
  k < n -> p k = true -> (forall k', k' < n -> p k' = true -> k' = k) -> argmax_nat n (fun j => b2n (p j)) = k.
Proof.
  intros Hk Hp Hu. destruct (argmax_spec n (fun j => b2n (p j)) ltac:(lia)) as (Ha & Hmax).
  specialize (Hmax k Hk). cbn beta in Hmax. rewrite Hp in Hmax. cbn [b2n] in Hmax.
  apply Hu; [assumption|]. destruct (p (argmax_nat n (fun j => b2n (p j)))); [reflexivity|cbn [b2n] in Hmax; lia].
Qed.

Lemma upd_nth_length {A} (l : list A) i f : length (upd_nth l i f) = length l.
Proof. revert i. induction l as [|x l IH]; intros [|i]; cbn [upd_nth length]; try reflexivity. rewrite IH. reflexivity. Qed.
Lemma upd_nth_same {A} (l : list A) i f : nth_error (upd_nth l i f) i = option_map f (nth_error l i).
Proof. revert i. induction l as [|x l IH]; intros [|i]; cbn [upd_nth nth_error option_map]; try reflexivity. apply IH. Qed.
Lemma upd_nth_other {A} (l : list A) i j f : j <> i -> nth_error (upd_nth l i f) j = nth_error l j.
Proof.
  revert i j. induction l as [|x l IH]; intros [|i] [|j] H; cbn [upd_nth nth_error]; try reflexivity; try lia.
  apply IH. lia.
Qed.
Lemma upd_nth_filter {A} (p : A -> bool) (l : list A) i f x :
  nth_error l i = Some x -> p x = true -> p (f x) = false ->
  S (length (filter p (upd_nth l i f))) = length (filter p l).
Proof.
  revert i. induction l as [|y l IH]; intros [|i] Hn Hp Hf; cbn [nth_error] in Hn; try discriminate.
  - injection Hn as ->. cbn [upd_nth filter]. rewrite Hp, Hf. reflexivity.
  - cbn [upd_nth filter]. destruct (p y); cbn [length]; rewrite <- (IH i Hn Hp Hf); reflexivity.
Qed.

Lemma remove_first_in x y l : In y (remove_first x l) -> In y l.
Proof.
  induction l as [|z l IH]; cbn [remove_first]; [tauto|]. destruct (x =? z); cbn [In]; [tauto|]. intros [H|H]; [left; assumption|right; apply IH; assumption].
Qed.
Lemma remove_first_nodup x l : NoDup l -> NoDup (remove_first x l) /\ ~ In x (remove_first x l).
Proof.
  induction l as [|z l IH]; intros Hnd; cbn [remove_first]; [split; [constructor|intros []]|].
  inversion Hnd as [|? ? Hz Hl]; subst. destruct (x =? z) eqn:E.
  - apply Nat.eqb_eq in E. subst. split; assumption.
  - apply Nat.eqb_neq in E. destruct (IH Hl) as (H1 & H2). split.
    + constructor; [|assumption]. intros Hin. apply Hz. eapply remove_first_in. eassumption.
    + cbn [In]. intros [H|H]; [congruence|tauto].
Qed.
Lemma remove_first_keep x y l : In y l -> y <> x -> In y (remove_first x l).
Proof.
  induction l as [|z l IH]; cbn [remove_first In]; [tauto|]. intros [->|H] Hne.
  - destruct (x =? y) eqn:E; [apply Nat.eqb_eq in E; congruence|left; reflexivity].
  - destruct (x =? z); [assumption|right; apply IH; assumption].
Qed.

Lemma nth_error_get t a nd : nth_error t a = Some nd -> get_node t a = nd.
Proof. intros H. unfold get_node. apply nth_error_nth. assumption. Qed.

(* ================================================================== 2. routing *)
Definition internal (nd : node) (l r f : nat) (th : Z) : Prop :=
  nd_left nd = Some l /\ nd_right nd = Some r /\ nd_feature nd = Some f /\ nd_threshold nd = Some th.
Definition is_leaf (nd : node) : Prop :=
  nd_left nd = None /\ nd_right nd = None /\ nd_feature nd = None /\ nd_threshold nd = None.

(* seg t x a b : the routing of row x, started at node a, passes through node b *)
Inductive seg (t : tree) (x : row) : nat -> nat -> Prop :=
| seg_refl a nd : nth_error t a = Some nd -> seg t x a a
| seg_step a nd l r f th b : nth_error t a = Some nd -> internal nd l r f th ->
    seg t x (if (xval x f <=? th)%Z then l else r) b -> seg t x a b.

(* the same thing said with the region of a node: the list of tests on the path from a to b *)
Inductive cpath (t : tree) : nat -> nat -> list (nat * Z * bool) -> Prop :=
| cp_refl a nd : nth_error t a = Some nd -> cpath t a a []
| cp_left a nd l r f th b cs : nth_error t a = Some nd -> internal nd l r f th ->
    cpath t l b cs -> cpath t a b ((f, th, true) :: cs)
| cp_right a nd l r f th b cs : nth_error t a = Some nd -> internal nd l r f th ->
    cpath t r b cs -> cpath t a b ((f, th, false) :: cs).
Definition sat (x : row) (cs : list (nat * Z * bool)) : Prop :=
  Forall (fun c => match c with (f, th, true) => (xval x f <= th)%Z | (f, th, false) => (th < xval x f)%Z end) cs.
(* x lies in the region of node b: it satisfies every test on a root-to-b path *)
Definition in_region (t : tree) (b : nat) (x : row) : Prop := exists cs, cpath t 0 b cs /\ sat x cs.

Lemma seg_iff_cpath t x a b : seg t x a b <-> exists cs, cpath t a b cs /\ sat x cs.
Proof.
  split.
  - induction 1 as [a nd Hn | a nd l r f th b Hn Hi _ (cs & Hc & Hs)].
    + exists []. split; [econstructor; eassumption|constructor].
    + destruct (xval x f <=? th)%Z eqn:E.
      * exists ((f, th, true) :: cs). split; [eapply cp_left; eassumption|]. constructor; [apply Z.leb_le; assumption|assumption].
      * exists ((f, th, false) :: cs). split; [eapply cp_right; eassumption|]. constructor; [apply Z.leb_gt; assumption|assumption].
  - intros (cs & Hc & Hs). induction Hc as [a nd Hn | a nd l r f th b cs Hn Hi Hc IH | a nd l r f th b cs Hn Hi Hc IH].
    + econstructor; eassumption.
    + inversion Hs as [|? ? H1 H2]; subst. eapply seg_step; [eassumption..|].
      apply Z.leb_le in H1. rewrite H1. apply IH. assumption.
    + inversion Hs as [|? ? H1 H2]; subst. eapply seg_step; [eassumption..|].
      apply Z.leb_gt in H1. rewrite H1. apply IH. assumption.
Qed.

Lemma seg_trans t x a b c : seg t x a b -> seg t x b c -> seg t x a c.
Proof. induction 1 as [|a nd l r f th b Hn Hi _ IH]; intros H2; [assumption|]. eapply seg_step; [eassumption..|]. apply IH. assumption. Qed.

Lemma leaf_not_internal nd l r f th : is_leaf nd -> internal nd l r f th -> False.
Proof. intros (H & _) (H' & _). congruence. Qed.

Lemma internal_fun nd l r f th l' r' f' th' : internal nd l r f th -> internal nd l' r' f' th' -> l = l' /\ r = r' /\ f = f' /\ th = th'.
Proof. intros (A & B & C & D) (A' & B' & C' & D'). repeat split; congruence. Qed.

(* routing is deterministic: at most one leaf is reached *)
Lemma seg_leaf_unique t x a b b' nb nb' :
  seg t x a b -> nth_error t b = Some nb -> is_leaf nb ->
  seg t x a b' -> nth_error t b' = Some nb' -> is_leaf nb' -> b = b'.
Proof.
  intros H. revert b' nb'. induction H as [a nd Hn | a nd l r f th b Hn Hi _ IH]; intros b' nb' Hb Hlb H' Hb' Hlb'.
  - inversion H' as [|? nd' l r f th ? Hn' Hi' _]; subst; [reflexivity|].
    exfalso. rewrite Hn' in Hb. injection Hb as ->. exact (leaf_not_internal _ _ _ _ _ Hlb Hi').
  - inversion H' as [? nd' Hn'|? nd' l' r' f' th' ? Hn' Hi' Hs']; subst.
    + exfalso. rewrite Hn in Hb'. injection Hb' as ->. exact (leaf_not_internal _ _ _ _ _ Hlb' Hi).
    + rewrite Hn in Hn'. injection Hn' as <-. destruct (internal_fun _ _ _ _ _ _ _ _ _ Hi Hi') as (-> & -> & -> & ->).
      eapply IH; eassumption.
Qed.

(* structural well-formedness of the array encoding *)
Definition tree_ok (d : nat) (t : tree) : Prop :=
  forall a nd, nth_error t a = Some nd ->
    is_leaf nd \/
    exists l r f th, internal nd l r f th /\ a < l /\ r = S l /\ r < length t /\ f < d /\
                     nd_depth (get_node t l) = S (nd_depth nd) /\ nd_depth (get_node t r) = S (nd_depth nd).

Lemma route_visits_total d t x : tree_ok d t ->
  forall fuel a, a < length t -> length t - a <= fuel ->
  exists b nb, route fuel t x a = Some b /\ nth_error t b = Some nb /\ is_leaf nb /\ seg t x a b.
Proof.
  intros Hok. induction fuel as [|fu IH]; intros a Ha Hf; [lia|].
  destruct (nth_error t a) as [nd|] eqn:Hn; [|apply nth_error_None in Hn; lia].
  rewrite rule_route_S, Hn. destruct (Hok a nd Hn) as [Hl | (l & r & f & th & Hi & Hal & Hr & Hrl & _)].
  - destruct Hl as (H1 & H2 & H3 & H4). rewrite H1. exists a, nd. split; [reflexivity|]. split; [assumption|]. split; [repeat split; assumption|]. econstructor; eassumption.
  - pose proof Hi as (H1 & H2 & H3 & H4). rewrite H1, H2, H3, H4.
    destruct (xval x f <=? th)%Z eqn:E.
    + destruct (IH l ltac:(lia) ltac:(lia)) as (b & nb & Hr1 & Hr2 & Hr3 & Hr4). exists b, nb. split; [assumption|]. split; [assumption|]. split; [assumption|].
      eapply seg_step; [eassumption..|]. rewrite E. assumption.
    + destruct (IH r ltac:(lia) ltac:(lia)) as (b & nb & Hr1 & Hr2 & Hr3 & Hr4). exists b, nb. split; [assumption|]. split; [assumption|]. split; [assumption|].
      eapply seg_step; [eassumption..|]. rewrite E. assumption.
Qed.

Lemma seg_route d t x b nb : tree_ok d t -> seg t x 0 b -> nth_error t b = Some nb -> is_leaf nb -> route_leaf t x = Some b.
Proof.
  intros Hok Hs Hb Hl. assert (0 < length t) as Hlen.
  { inversion Hs as [? nd Hn|? nd ? ? ? ? ? Hn]; subst; apply nth_error_Some; congruence. }
  destruct (route_visits_total d t x Hok (length t) 0 Hlen ltac:(lia)) as (b' & nb' & Hr & Hb' & Hl' & Hs').
  rewrite rule_route_leaf, Hr. f_equal. eapply seg_leaf_unique; eassumption.
Qed.

Lemma visits_seg t x b : forall fuel a, visits fuel t x a b = true -> seg t x a b.
Proof.
  induction fuel as [|fu IH]; intros a H; [rewrite rule_visits_0 in H; discriminate|]. rewrite rule_visits_S in H.
  destruct (nth_error t a) as [nd|] eqn:Hn; [|discriminate].
  destruct (a =? b) eqn:E; [apply Nat.eqb_eq in E; subst; econstructor; eassumption|].
  destruct (nd_left nd) as [l|] eqn:H1; [|discriminate]. destruct (nd_right nd) as [r|] eqn:H2; [|discriminate].
  destruct (nd_feature nd) as [f|] eqn:H3; [|discriminate]. destruct (nd_threshold nd) as [th|] eqn:H4; [|discriminate].
  eapply seg_step; [eassumption|repeat split; eassumption|].
  destruct (xval x f <=? th)%Z; apply IH; assumption.
Qed.
Lemma seg_visits d t x a b : tree_ok d t -> seg t x a b -> forall fuel, length t - a <= fuel -> visits fuel t x a b = true.
Proof.
  intros Hok. induction 1 as [a nd Hn | a nd l r f th b Hn Hi Hs IH]; intros fuel Hf.
  - assert (a < length t) by (apply nth_error_Some; congruence).
    destruct fuel as [|fu]; [lia|]. rewrite rule_visits_S, Hn, Nat.eqb_refl. reflexivity.
  - assert (a < length t) by (apply nth_error_Some; congruence).
    destruct fuel as [|fu]; [lia|]. rewrite rule_visits_S, Hn. destruct (a =? b); [reflexivity|].
    destruct (Hok a nd Hn) as [Hl | (l' & r' & f' & th' & Hi' & Hal & Hr & Hrl & _)]; [exfalso; eapply leaf_not_internal; eassumption|].
    destruct (internal_fun _ _ _ _ _ _ _ _ _ Hi Hi') as (<- & <- & <- & <-).
    pose proof Hi as (H1 & H2 & H3 & H4). rewrite H1, H2, H3, H4.
    destruct (xval x f <=? th)%Z; apply IH; lia.
Qed.

(* ---------------------------------------------------------------- add_child *)
Section AddChild.
Variables (t : tree) (father : nat) (sp : ksplit) (fnd : node).
Hypothesis Hfather : nth_error t father = Some fnd.
Let t' := add_child_h t father sp.
Let n0 := length t.
Definition new_father : node :=
  {| nd_left := Some n0; nd_right := Some (S n0); nd_feature := Some (s_feature sp);
     nd_threshold := Some (s_threshold sp); nd_target := nd_target fnd; nd_depth := nd_depth fnd |}.

Lemma add_child_length : length t' = n0 + 2.
Proof. unfold t', add_child_h. rewrite app_length, upd_nth_length. cbn [length]. reflexivity. Qed.
Lemma father_lt : father < n0.
Proof. apply nth_error_Some. unfold n0. congruence. Qed.
Lemma add_child_other a : a < n0 -> a <> father -> nth_error t' a = nth_error t a.
Proof.
  intros Ha Hne. unfold t', add_child_h. rewrite nth_error_app1 by (rewrite upd_nth_length; exact Ha).
  apply upd_nth_other. assumption.
Qed.
Lemma add_child_father : nth_error t' father = Some new_father.
Proof.
  unfold t', add_child_h. rewrite nth_error_app1 by (rewrite upd_nth_length; exact father_lt).
  rewrite upd_nth_same, Hfather. reflexivity.
Qed.
Lemma add_child_left : nth_error t' n0 = Some (leaf_node (s_left sp) (S (nd_depth fnd))).
Proof.
  unfold t', add_child_h. rewrite nth_error_app2 by (rewrite upd_nth_length; apply Nat.le_refl).
  rewrite upd_nth_length, Nat.sub_diag. cbn [nth_error]. rewrite (nth_error_get _ _ _ Hfather). reflexivity.
Qed.
Lemma add_child_right : nth_error t' (S n0) = Some (leaf_node (s_right sp) (S (nd_depth fnd))).
Proof.
  unfold t', add_child_h. rewrite nth_error_app2 by (rewrite upd_nth_length; unfold n0; lia).
  rewrite upd_nth_length. replace (S n0 - length t) with 1 by (unfold n0; lia). cbn [nth_error].
  rewrite (nth_error_get _ _ _ Hfather). reflexivity.
Qed.
Lemma add_child_cases a nd' : nth_error t' a = Some nd' ->
  (a < n0 /\ a <> father /\ nth_error t a = Some nd') \/ (a = father /\ nd' = new_father) \/
  (a = n0 /\ nd' = leaf_node (s_left sp) (S (nd_depth fnd))) \/ (a = S n0 /\ nd' = leaf_node (s_right sp) (S (nd_depth fnd))).
Proof.
  intros H. assert (a < n0 + 2) as Ha by (rewrite <- add_child_length; apply nth_error_Some; congruence).
  destruct (Nat.eq_dec a father) as [->|Hne]; [rewrite add_child_father in H; injection H as <-; tauto|].
  destruct (Nat.eq_dec a n0) as [->|H0]; [rewrite add_child_left in H; injection H as <-; tauto|].
  destruct (Nat.eq_dec a (S n0)) as [->|H1]; [rewrite add_child_right in H; injection H as <-; tauto|].
  left. rewrite add_child_other in H by lia. repeat split; [lia|assumption|assumption].
Qed.
Lemma add_child_depth a : a < n0 -> nd_depth (get_node t' a) = nd_depth (get_node t a).
Proof.
  intros Ha. destruct (Nat.eq_dec a father) as [->|Hne].
  - rewrite (nth_error_get _ _ _ add_child_father), (nth_error_get _ _ _ Hfather). reflexivity.
  - unfold get_node. destruct (nth_error t a) as [nd|] eqn:Hn; [|apply nth_error_None in Hn; unfold n0 in Ha; lia].
    rewrite (nth_error_nth t a _ Hn). pose proof (add_child_other a Ha Hne) as H. rewrite Hn in H.
    rewrite (nth_error_nth t' a _ H). reflexivity.
Qed.

Hypothesis Hfleaf : is_leaf fnd.

Lemma add_child_tree_ok d : tree_ok d t -> s_feature sp < d -> tree_ok d t'.
Proof.
  intros Hok Hf a nd' Hn. destruct (add_child_cases a nd' Hn) as [(Ha & Hne & Hold) | [(-> & ->) | [(-> & ->) | (-> & ->)]]].
  - destruct (Hok a nd' Hold) as [Hl | (l & r & f & th & Hi & Hal & Hr & Hrl & Hfd & Hd1 & Hd2)]; [left; assumption|].
    right. exists l, r, f, th. repeat split; try assumption; try apply Hi.
    + rewrite add_child_length. fold n0 in Hrl. lia.
    + rewrite add_child_depth by (fold n0 in Hrl; lia). assumption.
    + rewrite add_child_depth by (fold n0 in Hrl; lia). assumption.
  - right. exists n0, (S n0), (s_feature sp), (s_threshold sp). pose proof father_lt.
    repeat split; try reflexivity; try assumption.
    + rewrite add_child_length. lia.
    + rewrite (nth_error_get _ _ _ add_child_left). reflexivity.
    + rewrite (nth_error_get _ _ _ add_child_right). reflexivity.
  - left. repeat split.
  - left. repeat split.
Qed.

Lemma seg_add_child x a b : seg t x a b -> seg t' x a b.
Proof.
  induction 1 as [a nd Hn | a nd l r f th b Hn Hi _ IH].
  - assert (a < n0) as Ha by (apply nth_error_Some; unfold n0; congruence).
    destruct (Nat.eq_dec a father) as [->|Hne]; [eapply seg_refl; apply add_child_father|].
    eapply seg_refl. rewrite add_child_other; eassumption.
  - assert (a < n0) as Ha by (apply nth_error_Some; unfold n0; congruence).
    assert (a <> father) as Hne. { intros ->. rewrite Hfather in Hn. injection Hn as ->. eapply leaf_not_internal; eassumption. }
    eapply seg_step; [rewrite add_child_other; eassumption|eassumption|assumption].
Qed.
Lemma seg_add_child_new x :
  seg t' x father (if (xval x (s_feature sp) <=? s_threshold sp)%Z then n0 else S n0).
Proof.
  eapply seg_step; [apply add_child_father|repeat split|].
  destruct (xval x (s_feature sp) <=? s_threshold sp)%Z; eapply seg_refl; [apply add_child_left|apply add_child_right].
Qed.
Lemma add_child_count_leaves : count_leaves t' = S (count_leaves t).
Proof.
  unfold count_leaves, t', add_child_h. rewrite filter_app, app_length. cbn [filter is_leafb leaf_node nd_left length].
  pose proof (upd_nth_filter is_leafb t father
    (fun nd => {| nd_left := Some (length t); nd_right := Some (S (length t)); nd_feature := Some (s_feature sp);
                  nd_threshold := Some (s_threshold sp); nd_target := nd_target nd; nd_depth := nd_depth nd |}) fnd Hfather) as H.
  destruct Hfleaf as (H1 & _). unfold is_leafb in H at 1 2. rewrite H1 in H. cbn [nd_left] in H.
  specialize (H eq_refl eq_refl). lia.
Qed.
End AddChild.

(* ================================================================== 3. admissible splits, the loop invariant *)
(* targets as find_best_split can return them: two existing clusters, one new cluster numbered
   n_clusters (if n_clusters < max_clusters), or two new ones numbered n_clusters, n_clusters+1 *)
Definition targets_ok (K nc lt rt : nat) : Prop :=
  (lt < nc /\ rt < nc) \/ (lt = nc /\ rt < nc /\ nc < K) \/ (lt < nc /\ rt = nc /\ nc < K) \/
  (lt = nc /\ rt = S nc /\ S nc < K).

Record admissible (P : params) (d : nat) (X : data) (st : state) (sp : ksplit) : Prop := {
  ad_queue : In (s_leaf sp) (st_queue st);
  ad_feat : s_feature sp < d;
  ad_obs : exists i, i < length X /\ st_Z st (s_leaf sp) i = true /\ feat X i (s_feature sp) = s_threshold sp;
  ad_left : min_samples_leaf P <= countb (length X) (goes_left X st sp);
  ad_right : min_samples_leaf P <= countb (length X) (goes_right X st sp);
  (* the cluster of the split leaf is not emptied *)
  ad_keeps : s_left sp = cluster_of P st (s_leaf sp) \/ s_right sp = cluster_of P st (s_leaf sp) \/
             leaf_size X st (s_leaf sp) <> cluster_size X st (cluster_of P st (s_leaf sp));
  ad_targets : targets_ok (max_clusters P) (st_nc st) (s_left sp) (s_right sp) }.

Lemma existsb_eqb_in x l : existsb (Nat.eqb x) l = true <-> In x l.
Proof.
  rewrite existsb_exists. split; [intros (y & Hy & E); apply Nat.eqb_eq in E; subst; assumption|].
  intros H. exists x. split; [assumption|apply Nat.eqb_refl].
Qed.

Lemma admissibleb_iff P d X st sp : admissibleb P d X st sp = true <-> admissible P d X st sp.
Proof.
  unfold admissibleb, admissibleb_g. fold goes_left goes_right. rewrite !andb_true_iff, !orb_true_iff, !andb_true_iff, negb_true_iff.
  rewrite existsb_eqb_in, existsb_exists, !Nat.ltb_lt, !Nat.leb_le, !Nat.eqb_eq, Nat.eqb_neq.
  split.
  - intros ((((((H1 & H2) & (i & Hi & H3)) & H4) & H5) & H6) & H7).
    apply in_seq in Hi. apply andb_true_iff in H3. destruct H3 as (H3 & H3'). apply Z.eqb_eq in H3'.
    constructor; try assumption.
    + exists i. repeat split; [lia|assumption|assumption].
    + tauto.
    + unfold targets_ok. tauto.
  - intros [H1 H2 (i & Hi & H3 & H3') H4 H5 H6 H7]. repeat split; try assumption.
    + exists i. split; [apply in_seq; lia|]. apply andb_true_iff. split; [assumption|apply Z.eqb_eq; assumption].
    + tauto.
    + unfold targets_ok in H7. tauto.
Qed.

(* what Kauri.fit is entitled to assume about its arguments: _parameter_constraints, the
   2*min_samples_leaf <= min_samples_split test, check_array (n >= 1, d >= 1) and
   ensure_min_samples = min_samples_leaf *)
Record valid (P : params) (d : nat) (X : data) : Prop := {
  v_K : 1 <= max_clusters P;
  v_depth : forall m, max_depth P = Some m -> 1 <= m;
  v_mss : 2 <= min_samples_split P;
  v_msl : 1 <= min_samples_leaf P;
  v_leaves : forall m, max_leaves P = Some m -> 2 <= m;
  (* the cross-parameter test of fit does not raise *)
  v_contra : r_contradiction kauri_fit_rules (min_samples_leaf P) (min_samples_split P) = false;
  v_n : 1 <= length X;
  (* validate_data(..., ensure_min_samples=..) accepts X *)
  v_n_msl : r_ensure_min_samples kauri_fit_rules (min_samples_leaf P) (min_samples_split P) <= length X;
  v_d : 1 <= d }.

Lemma valid_contra P d X : valid P d X -> 2 * min_samples_leaf P <= min_samples_split P.
Proof.
  intros V. pose proof (v_contra _ _ _ V) as H.
  change (r_contradiction kauri_fit_rules (min_samples_leaf P) (min_samples_split P))
    with (min_samples_split P <? 2 * min_samples_leaf P) in H.
  apply Nat.ltb_ge in H. exact H.
Qed.
Lemma valid_n_msl P d X : valid P d X -> min_samples_leaf P <= length X.
Proof. intros V. exact (v_n_msl _ _ _ V). Qed.

Record Inv (P : params) (d : nat) (X : data) (st : state) : Prop := {
  I_nl : 1 <= st_nl st <= eff_max_leaves P (length X);
  I_len : length (st_tree st) = 2 * st_nl st - 1;
  I_cl : count_leaves (st_tree st) = st_nl st;
  I_tree : tree_ok d (st_tree st);
  I_root : nd_depth (get_node (st_tree st) 0) = 0;
  I_depth : forall a nd, nth_error (st_tree st) a = Some nd -> nd_depth nd <= eff_max_depth P (length X);
  I_l2n : forall l, l < st_nl st -> exists nd, nth_error (st_tree st) (st_l2n st l) = Some nd /\ is_leaf nd /\
                                               st_Y st (nd_target nd) l = true;
  I_l2n_inj : forall l l', l < st_nl st -> l' < st_nl st -> st_l2n st l = st_l2n st l' -> l = l';
  I_l2n_surj : forall a nd, nth_error (st_tree st) a = Some nd -> is_leaf nd -> exists l, l < st_nl st /\ st_l2n st l = a;
  I_Zcover : forall i, i < length X -> exists l, l < st_nl st /\ st_Z st l i = true;
  I_Zuniq : forall l l' i, st_Z st l i = true -> st_Z st l' i = true -> l = l';
  I_Zout : forall l i, st_nl st <= l -> st_Z st l i = false;
  I_Zsize : forall l, l < st_nl st -> min_samples_leaf P <= leaf_size X st l;
  I_Zseg : forall l i, l < st_nl st -> i < length X -> st_Z st l i = true ->
                       seg (st_tree st) (nth i X []) 0 (st_l2n st l);
  I_Ycover : forall l, l < st_nl st -> exists k, k < st_nc st /\ st_Y st k l = true;
  I_Yuniq : forall k k' l, st_Y st k l = true -> st_Y st k' l = true -> k = k';
  I_Yout : forall k l, st_nl st <= l -> st_Y st k l = false;
  I_nc : 1 <= st_nc st <= max_clusters P;
  I_Yused : forall k, k < st_nc st -> exists l, l < st_nl st /\ st_Y st k l = true;
  I_q_nodup : NoDup (st_queue st);
  I_q : forall l, In l (st_queue st) -> l < st_nl st /\ min_samples_split P <= leaf_size X st l /\
                  nd_depth (get_node (st_tree st) (st_l2n st l)) < eff_max_depth P (length X);
  (* every split node was reached by at least min_samples_split training rows, one of which carries the threshold *)
  I_split : forall a nd l r f th, nth_error (st_tree st) a = Some nd -> internal nd l r f th ->
            exists S : nat -> bool, (forall i, i < length X -> S i = true -> seg (st_tree st) (nth i X []) 0 a) /\
                                    min_samples_split P <= countb (length X) S /\
                                    (exists i, i < length X /\ S i = true /\ feat X i f = th) }.

Lemma inv_init P d X : valid P d X -> Inv P d X (init P X).
Proof.
  intros V. assert (1 <= eff_max_leaves P (length X)) as HL.
  { rewrite rule_max_leaves. destruct (max_leaves P) as [m|] eqn:E; [pose proof (v_leaves _ _ _ V m E); lia|apply (v_n _ _ _ V)]. }
  assert (1 <= eff_max_depth P (length X)) as HD.
  { rewrite rule_max_depth. destruct (max_depth P) as [m|] eqn:E; [apply (v_depth _ _ _ V m E)|apply (v_n _ _ _ V)]. }
  rewrite rule_init.
  assert (forall a nd, nth_error [leaf_node 0 0] a = Some nd -> a = 0 /\ nd = leaf_node 0 0) as Hone.
  { intros [|a] nd H; cbn in H; [injection H as <-; tauto|destruct a; discriminate]. }
  assert (leaf_size X (init_h P X) 0 = length X) as Hsz.
  { unfold leaf_size. cbn [init_h st_Z]. generalize (length X). intros m. induction m as [|m IH]; [reflexivity|]. cbn [countb]. rewrite IH. cbn. lia. }
  constructor; cbn [init_h st_nl st_nc st_tree st_Z st_Y st_l2n st_queue].
  - lia.
  - reflexivity.
  - reflexivity.
  - intros a nd H. destruct (Hone a nd H) as (-> & ->). left. repeat split.
  - reflexivity.
  - intros a nd H. destruct (Hone a nd H) as (-> & ->). cbn. lia.
  - intros l Hl. exists (leaf_node 0 0). replace l with 0 by lia. repeat split.
  - intros; lia.
  - intros a nd H _. destruct (Hone a nd H) as (-> & ->). exists 0. split; [lia|reflexivity].
  - intros i Hi. exists 0. split; [lia|reflexivity].
  - intros l l' i H1 H2. apply Nat.eqb_eq in H1, H2. congruence.
  - intros l i Hl. apply Nat.eqb_neq. lia.
  - intros l Hl. replace l with 0 by lia. rewrite Hsz. apply (valid_n_msl _ _ _ V).
  - intros l i Hl Hi _. replace l with 0 by lia. eapply seg_refl. reflexivity.
  - intros l Hl. exists 0. replace l with 0 by lia. split; [lia|reflexivity].
  - intros k k' l H1 H2. apply andb_true_iff in H1, H2. destruct H1 as (H1 & _), H2 as (H2 & _). apply Nat.eqb_eq in H1, H2. congruence.
  - intros k l Hl. apply andb_false_iff. right. apply Nat.eqb_neq. lia.
  - pose proof (v_K _ _ _ V). lia.
  - intros k Hk. exists 0. replace k with 0 by lia. split; [lia|reflexivity].
  - destruct (min_samples_split P <=? length X); [constructor; [intros []|constructor]|constructor].
  - intros l Hl. destruct (min_samples_split P <=? length X) eqn:E; [|destruct Hl].
    destruct Hl as [<-|[]]. apply Nat.leb_le in E. rewrite Hsz. split; [lia|split; [exact E|exact HD]].
  - intros a nd l r f th H Hi. destruct (Hone a nd H) as (-> & ->). destruct Hi as (Hi & _). discriminate.
Qed.


Lemma find_other n (p : nat -> bool) l0 :
  (exists l, l < n /\ l <> l0 /\ p l = true) \/ (forall l, l < n -> l <> l0 -> p l = false).
Proof.
  induction n as [|n [(l & Hl & Hne & Hp)|IH]].
  - right. intros; lia.
  - left. exists l. repeat split; [lia|assumption|assumption].
  - destruct (Nat.eq_dec n l0) as [->|Hne].
    + right. intros l Hl Hne. apply IH; [lia|assumption].
    + destruct (p n) eqn:Hp; [left; exists n; repeat split; [lia|assumption|assumption]|].
      right. intros l Hl Hne'. destruct (Nat.eq_dec l n) as [->|H]; [assumption|apply IH; [lia|assumption]].
Qed.
Lemma nodup_snoc (l : list nat) x : NoDup l -> ~ In x l -> NoDup (l ++ [x]).
Proof.
  induction l as [|y l IH]; intros Hnd Hin; cbn [app]; [constructor; [intros []|constructor]|].
  inversion Hnd as [|? ? Hy Hl]; subst. constructor.
  - rewrite in_app_iff. cbn [In]. intros [H|[H|[]]]; [tauto|]. apply Hin. left. congruence.
  - apply IH; [assumption|]. intros H. apply Hin. right. assumption.
Qed.

(* ---------------------------------------------------------------- one loop iteration preserves the invariant *)
Section Step.
Variables (P : params) (d : nat) (X : data) (st : state) (sp : ksplit).
Hypothesis V : valid P d X.
Hypothesis HI : Inv P d X st.
Hypothesis HG : guard P X st = true.
Hypothesis HA : admissible P d X st sp.
Let n := length X.
Let leaf := s_leaf sp.
Let nl := st_nl st.
Let nc := st_nc st.
Let t := st_tree st.
Let father := st_l2n st leaf.
Let k := cluster_of P st leaf.
Let right := goes_right X st sp.
Let st' := step P X st sp.

Lemma sp_leaf_lt : leaf < nl.
Proof. apply (I_q _ _ _ _ HI). apply (ad_queue _ _ _ _ _ HA). Qed.
Lemma sp_nl_lt : nl < eff_max_leaves P n.
Proof. pose proof HG as H0. rewrite rule_guard in H0. apply andb_true_iff in H0. destruct H0 as (H & _). apply Nat.ltb_lt in H. exact H. Qed.
Lemma sp_nl_pos : 1 <= nl.
Proof. apply (I_nl _ _ _ _ HI). Qed.
Lemma sp_father : exists fnd, nth_error t father = Some fnd /\ is_leaf fnd /\ st_Y st (nd_target fnd) leaf = true.
Proof. apply (I_l2n _ _ _ _ HI). exact sp_leaf_lt. Qed.
Lemma sp_len : length t = 2 * nl - 1.
Proof. apply (I_len _ _ _ _ HI). Qed.
Lemma sp_k : st_Y st k leaf = true /\ k < nc.
Proof.
  destruct (I_Ycover _ _ _ _ HI leaf sp_leaf_lt) as (k0 & Hk0 & HY).
  assert (k = k0) as ->; [|split; assumption].
  unfold k, cluster_of. apply argmax_onehot; [pose proof (I_nc _ _ _ _ HI); fold nc in Hk0; lia|assumption|].
  intros k' _ H. eapply (I_Yuniq _ _ _ _ HI); eassumption.
Qed.
Lemma right_in_leaf i : right i = true -> st_Z st leaf i = true.
Proof. unfold right. rewrite rule_goes_right. intros H. apply andb_true_iff in H. apply H. Qed.

Lemma step_nl : st_nl st' = S nl. Proof. apply rule_step_nl. Qed.
Lemma step_tree : st_tree st' = add_child_h t father sp. Proof. apply rule_step_tree. Qed.

Lemma Z'_true l i : st_Z st' l i = true <->
  (l = leaf /\ st_Z st leaf i = true /\ right i = false) \/ (l = nl /\ right i = true) \/
  (l <> leaf /\ l <> nl /\ st_Z st l i = true).
Proof.
  unfold st'. rewrite rule_step_Z. fold leaf nl right.
  pose proof sp_leaf_lt as Hlt.
  destruct (l =? nl) eqn:E2; [apply Nat.eqb_eq in E2|apply Nat.eqb_neq in E2];
    (destruct (l =? leaf) eqn:E1; [apply Nat.eqb_eq in E1|apply Nat.eqb_neq in E1]); try lia.
  - subst l. cbn [andb]. destruct (right i) eqn:Er.
    + split; [intros _; right; left; tauto|reflexivity].
    + rewrite (I_Zout _ _ _ _ HI nl i (Nat.le_refl _)). split; [discriminate|].
      intros [(H & _)|[(_ & H)|(_ & H & _)]]; [lia|discriminate|congruence].
  - subst l. cbn [andb]. destruct (right i) eqn:Er.
    + split; [discriminate|]. intros [(_ & _ & H)|[(H & _)|(H & _)]]; [discriminate|lia|congruence].
    + split; [intros H; left; tauto|]. intros [(_ & H & _)|[(H & _)|(H & _)]]; [assumption|lia|congruence].
  - cbn [andb]. split; [intros H; right; right; tauto|]. intros [(H & _)|[(H & _)|(_ & _ & H)]]; [congruence|congruence|assumption].
Qed.

Lemma Y'_true c l : st_Y st' c l = true <->
  (c = s_right sp /\ l = nl) \/ (c = s_left sp /\ l = leaf) \/ (~ (c = k /\ l = leaf) /\ st_Y st c l = true).
Proof.
  change (st_Y st' c l) with (if (c =? s_right sp) && (l =? nl) then true
                              else if (c =? s_left sp) && (l =? leaf) then true
                              else if (c =? k) && (l =? leaf) then false else st_Y st c l).
  destruct ((c =? s_right sp) && (l =? nl)) eqn:E1.
  { apply andb_true_iff in E1. destruct E1 as (A & B). apply Nat.eqb_eq in A, B. tauto. }
  destruct ((c =? s_left sp) && (l =? leaf)) eqn:E2.
  { apply andb_true_iff in E2. destruct E2 as (A & B). apply Nat.eqb_eq in A, B. tauto. }
  apply andb_false_iff in E1, E2. rewrite !Nat.eqb_neq in E1, E2.
  destruct ((c =? k) && (l =? leaf)) eqn:E3.
  - apply andb_true_iff in E3. destruct E3 as (A & B). apply Nat.eqb_eq in A, B.
    split; [discriminate|]. intros [(H1 & H2)|[(H1 & H2)|(H1 & _)]]; [lia|lia|tauto].
  - apply andb_false_iff in E3. rewrite !Nat.eqb_neq in E3.
    split; [intros H; right; right; split; [lia|assumption]|]. intros [(H1 & H2)|[(H1 & H2)|(_ & H)]]; [lia|lia|assumption].
Qed.
(* columns of the new Y *)
Lemma Y'_leaf c : st_Y st' c leaf = true <-> c = s_left sp.
Proof.
  rewrite Y'_true. pose proof sp_leaf_lt. pose proof sp_k as (Hk & _). split.
  - intros [(_ & H1)|[(H1 & _)|(H1 & H2)]]; [lia|assumption|].
    exfalso. apply H1. split; [|reflexivity]. eapply (I_Yuniq _ _ _ _ HI); eassumption.
  - intros ->. tauto.
Qed.
Lemma Y'_new c : st_Y st' c nl = true <-> c = s_right sp.
Proof.
  rewrite Y'_true. pose proof sp_leaf_lt. split.
  - intros [(H1 & _)|[(_ & H1)|(_ & H2)]]; [assumption|lia|].
    rewrite (I_Yout _ _ _ _ HI c nl (Nat.le_refl _)) in H2. discriminate.
  - intros ->. tauto.
Qed.
Lemma Y'_other c l : l <> leaf -> l <> nl -> st_Y st' c l = st_Y st c l.
Proof.
  intros H1 H2. destruct (st_Y st c l) eqn:E.
  - apply Y'_true. right. right. split; [intros (_ & H); congruence|assumption].
  - destruct (st_Y st' c l) eqn:E'; [|reflexivity]. apply Y'_true in E'.
    destruct E' as [(_ & H)|[(_ & H)|(_ & H)]]; congruence.
Qed.

Lemma step_nc_cases :
  s_left sp < st_nc st' /\ s_right sp < st_nc st' /\ nc <= st_nc st' /\ st_nc st' <= max_clusters P /\
  (forall c, c < st_nc st' -> c < nc \/ c = s_left sp \/ c = s_right sp).
Proof.
  change (st_nc st') with (if (nc <=? s_left sp) && (nc <=? s_right sp) then nc + 2
                           else if (nc <=? s_left sp) || (nc <=? s_right sp) then nc + 1 else nc).
  pose proof (I_nc _ _ _ _ HI) as Hnc. fold nc in Hnc.
  destruct (ad_targets _ _ _ _ _ HA) as [(A & B)|[(A & B & C)|[(A & B & C)|(A & B & C)]]]; fold nc in A, B; try fold nc in C.
  - replace (nc <=? s_left sp) with false by (symmetry; apply Nat.leb_gt; lia).
    replace (nc <=? s_right sp) with false by (symmetry; apply Nat.leb_gt; lia). cbn [andb orb].
    repeat split; (lia || (intros; lia)).
  - replace (nc <=? s_left sp) with true by (symmetry; apply Nat.leb_le; lia).
    replace (nc <=? s_right sp) with false by (symmetry; apply Nat.leb_gt; lia). cbn [andb orb].
    repeat split; (lia || (intros; lia)).
  - replace (nc <=? s_left sp) with false by (symmetry; apply Nat.leb_gt; lia).
    replace (nc <=? s_right sp) with true by (symmetry; apply Nat.leb_le; lia). cbn [andb orb].
    repeat split; (lia || (intros; lia)).
  - replace (nc <=? s_left sp) with true by (symmetry; apply Nat.leb_le; lia).
    replace (nc <=? s_right sp) with true by (symmetry; apply Nat.leb_le; lia). cbn [andb orb].
    repeat split; (lia || (intros; lia)).
Qed.

(* sizes of the leaves after the split *)
Lemma size'_leaf : leaf_size X st' leaf = countb n (goes_left X st sp).
Proof.
  unfold leaf_size. apply countb_ext. intros i _. pose proof sp_leaf_lt. unfold st'. rewrite rule_step_Z. fold leaf nl.
  replace (leaf =? nl) with false by (symmetry; apply Nat.eqb_neq; lia). rewrite Nat.eqb_refl. cbn [andb].
  rewrite rule_goes_left, rule_goes_right. fold leaf.
  destruct (st_Z st leaf i); destruct (feat X i (s_feature sp) <=? s_threshold sp)%Z; reflexivity.
Qed.
Lemma size'_new : leaf_size X st' nl = countb n right.
Proof.
  unfold leaf_size. apply countb_ext. intros i _. pose proof sp_leaf_lt. unfold st'. rewrite rule_step_Z. fold leaf nl right.
  replace (nl =? leaf) with false by (symmetry; apply Nat.eqb_neq; lia). rewrite Nat.eqb_refl. cbn [andb].
  rewrite (I_Zout _ _ _ _ HI nl i (Nat.le_refl _)). destruct (right i); reflexivity.
Qed.
Lemma size'_other l : l <> leaf -> l <> nl -> leaf_size X st' l = leaf_size X st l.
Proof.
  intros H1 H2. unfold leaf_size. apply countb_ext. intros i _. unfold st'. rewrite rule_step_Z. fold leaf nl.
  replace (l =? leaf) with false by (symmetry; apply Nat.eqb_neq; lia).
  replace (l =? nl) with false by (symmetry; apply Nat.eqb_neq; lia). reflexivity.
Qed.

Lemma l2n'_leaf : st_l2n st' leaf = length t.
Proof.
  pose proof sp_leaf_lt. pose proof sp_nl_pos. change (st_l2n st' leaf) with (upd (upd (st_l2n st) leaf (2 * nl - 1)) nl (2 * nl) leaf).
  unfold upd. replace (leaf =? nl) with false by (symmetry; apply Nat.eqb_neq; lia). rewrite Nat.eqb_refl. rewrite sp_len. reflexivity.
Qed.
Lemma l2n'_new : st_l2n st' nl = S (length t).
Proof.
  pose proof sp_nl_pos. change (st_l2n st' nl) with (upd (upd (st_l2n st) leaf (2 * nl - 1)) nl (2 * nl) nl).
  unfold upd. rewrite Nat.eqb_refl. rewrite sp_len. lia.
Qed.
Lemma l2n'_other l : l <> leaf -> l <> nl -> st_l2n st' l = st_l2n st l.
Proof.
  intros H1 H2. change (st_l2n st' l) with (upd (upd (st_l2n st) leaf (2 * nl - 1)) nl (2 * nl) l).
  unfold upd. replace (l =? nl) with false by (symmetry; apply Nat.eqb_neq; lia).
  replace (l =? leaf) with false by (symmetry; apply Nat.eqb_neq; lia). reflexivity.
Qed.
Lemma l2n_old_lt l : l < nl -> st_l2n st l < length t.
Proof. intros H. destruct (I_l2n _ _ _ _ HI l H) as (nd & Hn & _). apply nth_error_Some. fold t in Hn. congruence. Qed.
Lemma l2n_old_ne l : l < nl -> l <> leaf -> st_l2n st l <> father.
Proof. intros H Hne E. apply Hne. apply (I_l2n_inj _ _ _ _ HI); [assumption|exact sp_leaf_lt|exact E]. Qed.
Lemma sp_depth_lt fnd : nth_error t father = Some fnd -> nd_depth fnd < eff_max_depth P n.
Proof.
  intros Hfn. destruct (I_q _ _ _ _ HI leaf (ad_queue _ _ _ _ _ HA)) as (_ & _ & H).
  fold t father in H. rewrite (nth_error_get _ _ _ Hfn) in H. exact H.
Qed.

Lemma step_inv_tree :
  (1 <= st_nl st' <= eff_max_leaves P (length X)) /\ length (st_tree st') = 2 * st_nl st' - 1 /\
  count_leaves (st_tree st') = st_nl st' /\ tree_ok d (st_tree st') /\ nd_depth (get_node (st_tree st') 0) = 0 /\
  (forall a nd, nth_error (st_tree st') a = Some nd -> nd_depth nd <= eff_max_depth P (length X)).
Proof.
  destruct sp_father as (fnd & Hfn & Hfl & HfY). rewrite step_nl, step_tree.
  pose proof sp_nl_lt. pose proof sp_nl_pos. pose proof sp_len as Hlen. pose proof (sp_depth_lt fnd Hfn) as Hdl.
  repeat split.
  - lia.
  - fold n. lia.
  - rewrite add_child_length. lia.
  - rewrite (add_child_count_leaves t father sp fnd Hfn Hfl). f_equal. apply (I_cl _ _ _ _ HI).
  - apply (add_child_tree_ok t father sp fnd Hfn); [apply (I_tree _ _ _ _ HI)|apply (ad_feat _ _ _ _ _ HA)].
  - rewrite (add_child_depth t father sp fnd Hfn) by lia. apply (I_root _ _ _ _ HI).
  - intros a nd Hn. destruct (add_child_cases t father sp fnd Hfn a nd Hn) as [(Ha & Hne & Hold) | [(-> & ->) | [(-> & ->) | (-> & ->)]]].
    + apply (I_depth _ _ _ _ HI a nd Hold).
    + cbn [new_father nd_depth]. fold n. lia.
    + cbn [leaf_node nd_depth]. fold n. lia.
    + cbn [leaf_node nd_depth]. fold n. lia.
Qed.

Lemma step_inv_l2n :
  (forall l, l < st_nl st' -> exists nd, nth_error (st_tree st') (st_l2n st' l) = Some nd /\ is_leaf nd /\
                                         st_Y st' (nd_target nd) l = true) /\
  (forall l l', l < st_nl st' -> l' < st_nl st' -> st_l2n st' l = st_l2n st' l' -> l = l') /\
  (forall a nd, nth_error (st_tree st') a = Some nd -> is_leaf nd -> exists l, l < st_nl st' /\ st_l2n st' l = a).
Proof.
  destruct sp_father as (fnd & Hfn & Hfl & HfY). rewrite step_nl, step_tree.
  pose proof sp_leaf_lt as Hll. repeat split.
  - intros l Hl. destruct (Nat.eq_dec l leaf) as [->|Hne1]; [|destruct (Nat.eq_dec l nl) as [->|Hne2]].
    + rewrite l2n'_leaf. exists (leaf_node (s_left sp) (S (nd_depth fnd))). split; [apply add_child_left; exact Hfn|].
      split; [repeat split|]. cbn [leaf_node nd_target]. apply Y'_leaf. reflexivity.
    + rewrite l2n'_new. exists (leaf_node (s_right sp) (S (nd_depth fnd))). split; [apply add_child_right; exact Hfn|].
      split; [repeat split|]. cbn [leaf_node nd_target]. apply Y'_new. reflexivity.
    + rewrite l2n'_other by assumption. assert (l < nl) as Hl' by lia.
      destruct (I_l2n _ _ _ _ HI l Hl') as (nd & Hn & Hlf & HY). exists nd.
      split; [rewrite add_child_other; [exact Hn|apply l2n_old_lt; exact Hl'|apply l2n_old_ne; assumption]|].
      split; [exact Hlf|]. rewrite Y'_other by assumption. exact HY.
  - intros l l' Hl Hl' E.
    assert (forall m, m < S nl -> (m = leaf /\ st_l2n st' m = length t) \/ (m = nl /\ st_l2n st' m = S (length t)) \/
                      (m <> leaf /\ m <> nl /\ st_l2n st' m = st_l2n st m /\ st_l2n st m < length t)) as Hc.
    { intros m Hm. destruct (Nat.eq_dec m leaf) as [->|H1]; [left; split; [reflexivity|apply l2n'_leaf]|].
      destruct (Nat.eq_dec m nl) as [->|H2]; [right; left; split; [reflexivity|apply l2n'_new]|].
      right; right. repeat split; try assumption; [apply l2n'_other; assumption|apply l2n_old_lt; lia]. }
    destruct (Hc l Hl) as [(-> & A)|[(-> & A)|(A1 & A2 & A3 & A4)]]; destruct (Hc l' Hl') as [(-> & B)|[(-> & B)|(B1 & B2 & B3 & B4)]];
      try reflexivity; try lia.
    apply (I_l2n_inj _ _ _ _ HI); [fold nl; lia|fold nl; lia|congruence].
  - intros a nd Hn Hlf. destruct (add_child_cases t father sp fnd Hfn a nd Hn) as [(Ha & Hne & Hold) | [(-> & ->) | [(-> & ->) | (-> & ->)]]].
    + destruct (I_l2n_surj _ _ _ _ HI a nd Hold Hlf) as (l & Hl & E). fold nl in Hl. exists l. split; [lia|].
      rewrite l2n'_other; [exact E|intros ->; apply Hne; symmetry; exact E|lia].
    + destruct Hlf as (H & _). discriminate.
    + exists leaf. split; [lia|apply l2n'_leaf].
    + exists nl. split; [lia|apply l2n'_new].
Qed.

Lemma step_inv_Z :
  (forall i, i < length X -> exists l, l < st_nl st' /\ st_Z st' l i = true) /\
  (forall l l' i, st_Z st' l i = true -> st_Z st' l' i = true -> l = l') /\
  (forall l i, st_nl st' <= l -> st_Z st' l i = false) /\
  (forall l, l < st_nl st' -> min_samples_leaf P <= leaf_size X st' l) /\
  (forall l i, l < st_nl st' -> i < length X -> st_Z st' l i = true -> seg (st_tree st') (nth i X []) 0 (st_l2n st' l)).
Proof.
  destruct sp_father as (fnd & Hfn & Hfl & HfY). rewrite step_nl, step_tree.
  pose proof sp_leaf_lt as Hll. repeat split.
  - intros i Hi. destruct (I_Zcover _ _ _ _ HI i Hi) as (l0 & Hl0 & HZ). fold nl in Hl0.
    destruct (Nat.eq_dec l0 leaf) as [->|Hne].
    + destruct (right i) eqn:Er; [exists nl; split; [lia|apply Z'_true; tauto]|exists leaf; split; [lia|apply Z'_true; tauto]].
    + exists l0. split; [lia|]. apply Z'_true. right. right. repeat split; [assumption|lia|assumption].
  - intros l l' i H1 H2. apply Z'_true in H1, H2.
    assert (forall m, st_Z st m i = true -> st_Z st leaf i = true -> m = leaf) as Hu by (intros; eapply (I_Zuniq _ _ _ _ HI); eassumption).
    destruct H1 as [(-> & A & A')|[(-> & A)|(A1 & A2 & A3)]]; destruct H2 as [(-> & B & B')|[(-> & B)|(B1 & B2 & B3)]];
      try reflexivity; try congruence.
    + exfalso. apply B1. apply Hu; assumption.
    + exfalso. apply B1. apply Hu; [assumption|apply right_in_leaf; assumption].
    + exfalso. apply A1. apply Hu; assumption.
    + exfalso. apply A1. apply Hu; [assumption|apply right_in_leaf; assumption].
    + eapply (I_Zuniq _ _ _ _ HI); eassumption.
  - intros l i Hl. destruct (st_Z st' l i) eqn:E; [|reflexivity]. apply Z'_true in E.
    destruct E as [(-> & _)|[(-> & _)|(_ & _ & H)]]; [lia|lia|]. rewrite (I_Zout _ _ _ _ HI l i) in H; [discriminate|fold nl; lia].
  - intros l Hl. destruct (Nat.eq_dec l leaf) as [->|Hne1]; [|destruct (Nat.eq_dec l nl) as [->|Hne2]].
    + rewrite size'_leaf. apply (ad_left _ _ _ _ _ HA).
    + rewrite size'_new. apply (ad_right _ _ _ _ _ HA).
    + rewrite size'_other by assumption. apply (I_Zsize _ _ _ _ HI). fold nl. lia.
  - intros l i Hl Hi HZ. apply Z'_true in HZ.
    assert (forall b, st_Z st leaf i = true -> seg (add_child_h t father sp) (nth i X []) father b -> seg (add_child_h t father sp) (nth i X []) 0 b) as Hgo.
    { intros b Hz Hs. eapply seg_trans; [|exact Hs]. apply (seg_add_child t father sp fnd Hfn Hfl).
      apply (I_Zseg _ _ _ _ HI leaf i Hll Hi Hz). }
    pose proof (seg_add_child_new t father sp fnd Hfn (nth i X [])) as Hnew.
    destruct HZ as [(-> & A & A')|[(-> & A)|(A1 & A2 & A3)]].
    + rewrite l2n'_leaf. apply Hgo; [exact A|]. unfold right in A'. rewrite rule_goes_right in A'. fold leaf in A'. rewrite A in A'. cbn [andb] in A'.
      apply negb_false_iff in A'. unfold feat in A'. rewrite A' in Hnew. exact Hnew.
    + rewrite l2n'_new. pose proof (right_in_leaf i A) as Hz. apply Hgo; [exact Hz|]. unfold right in A. rewrite rule_goes_right in A. fold leaf in A. rewrite Hz in A.
      cbn [andb] in A. apply negb_true_iff in A. unfold feat in A. rewrite A in Hnew. exact Hnew.
    + rewrite l2n'_other by assumption. apply (seg_add_child t father sp fnd Hfn Hfl).
      apply (I_Zseg _ _ _ _ HI l i); [fold nl; lia|assumption|assumption].
Qed.

Lemma sp_other_leaf : leaf_size X st leaf <> cluster_size X st k ->
  exists l, l < nl /\ l <> leaf /\ st_Y st k l = true.
Proof.
  intros Hne. destruct (find_other nl (st_Y st k) leaf) as [(l & H1 & H2 & H3)|Hall]; [exists l; tauto|].
  exfalso. apply Hne. unfold cluster_size. fold nl.
  rewrite (sumn_single nl _ leaf sp_leaf_lt).
  - destruct sp_k as (Hk & _). rewrite Hk. reflexivity.
  - intros l Hl Hne'. rewrite (Hall l Hl Hne'). reflexivity.
Qed.

Lemma step_inv_Y :
  (forall l, l < st_nl st' -> exists c, c < st_nc st' /\ st_Y st' c l = true) /\
  (forall c c' l, st_Y st' c l = true -> st_Y st' c' l = true -> c = c') /\
  (forall c l, st_nl st' <= l -> st_Y st' c l = false) /\
  (1 <= st_nc st' <= max_clusters P) /\
  (forall c, c < st_nc st' -> exists l, l < st_nl st' /\ st_Y st' c l = true).
Proof.
  rewrite step_nl. pose proof sp_leaf_lt as Hll. pose proof step_nc_cases as (Hlt & Hrt & Hge & HK & Hcases).
  pose proof (I_nc _ _ _ _ HI) as Hnc. fold nc in Hnc. repeat split.
  - intros l Hl. destruct (Nat.eq_dec l leaf) as [->|Hne1]; [|destruct (Nat.eq_dec l nl) as [->|Hne2]].
    + exists (s_left sp). split; [assumption|apply Y'_leaf; reflexivity].
    + exists (s_right sp). split; [assumption|apply Y'_new; reflexivity].
    + destruct (I_Ycover _ _ _ _ HI l) as (c & Hc & HY); [fold nl; lia|]. exists c. fold nc in Hc. split; [lia|].
      rewrite Y'_other by assumption. exact HY.
  - intros c c' l H1 H2. destruct (Nat.eq_dec l leaf) as [->|Hne1]; [|destruct (Nat.eq_dec l nl) as [->|Hne2]].
    + apply Y'_leaf in H1, H2. congruence.
    + apply Y'_new in H1, H2. congruence.
    + rewrite Y'_other in H1, H2 by assumption. eapply (I_Yuniq _ _ _ _ HI); eassumption.
  - intros c l Hl. rewrite Y'_other by lia. apply (I_Yout _ _ _ _ HI). fold nl. lia.
  - lia.
  - exact HK.
  - intros c Hc.
    assert (c = s_left sp -> exists l, l < S nl /\ st_Y st' c l = true) as HL.
    { intros ->. exists leaf. split; [lia|apply Y'_leaf; reflexivity]. }
    assert (c = s_right sp -> exists l, l < S nl /\ st_Y st' c l = true) as HR.
    { intros ->. exists nl. split; [lia|apply Y'_new; reflexivity]. }
    destruct (Hcases c Hc) as [Hold|[H|H]]; [|apply HL; exact H|apply HR; exact H].
    destruct (I_Yused _ _ _ _ HI c Hold) as (l & Hl & HY). fold nl in Hl.
    destruct (Nat.eq_dec l leaf) as [->|Hne].
    + assert (c = k) as -> by (destruct sp_k as (Hk & _); eapply (I_Yuniq _ _ _ _ HI); eassumption).
      destruct (ad_keeps _ _ _ _ _ HA) as [H|[H|H]]; fold leaf k in H.
      * apply HL. symmetry. exact H.
      * apply HR. symmetry. exact H.
      * destruct (sp_other_leaf H) as (l' & Hl' & Hne' & HY'). exists l'. split; [lia|].
        rewrite Y'_other by lia. exact HY'.
    + exists l. split; [lia|]. rewrite Y'_other by lia. exact HY.
Qed.

Lemma step_queue_in l : In l (st_queue st') ->
  (In l (st_queue st) /\ l <> leaf) \/
  ((l = leaf \/ l = nl) /\ min_samples_split P <= leaf_size X st' l /\
   nd_depth (get_node (st_tree st') (st_l2n st' l)) < eff_max_depth P n).
Proof.
  destruct sp_father as (fnd & Hfn & Hfl & HfY).
  assert (nd_depth (get_node (add_child_h t father sp) father) = nd_depth fnd) as Hpd.
  { rewrite (nth_error_get _ _ _ (add_child_father t father sp fnd Hfn)). reflexivity. }
  change (st_queue st') with (st_queue (step P X st sp)). rewrite rule_step_queue. fold leaf nl n t father right.
  rewrite Hpd.
  assert (forall m, In m (remove_first leaf (st_queue st)) -> In m (st_queue st) /\ m <> leaf) as Hq0.
  { intros m Hm. split; [eapply remove_first_in; exact Hm|]. intros ->.
    destruct (remove_first_nodup leaf (st_queue st) (I_q_nodup _ _ _ _ HI)) as (_ & H). apply H. exact Hm. }
  destruct (S (nd_depth fnd) <? eff_max_depth P n) eqn:Ed; [|intros H; left; apply Hq0; exact H].
  apply Nat.ltb_lt in Ed. rewrite !in_app_iff. intros [H|[H|H]]; [left; apply Hq0; exact H| |].
  - destruct (min_samples_split P <=? countb n (goes_left X st sp)) eqn:E; [|destruct H].
    destruct H as [<-|[]]. right. split; [left; reflexivity|]. rewrite size'_leaf. apply Nat.leb_le in E. split; [exact E|].
    rewrite step_tree, l2n'_leaf, (nth_error_get _ _ _ (add_child_left t father sp fnd Hfn)). exact Ed.
  - destruct (min_samples_split P <=? countb n right) eqn:E; [|destruct H].
    destruct H as [<-|[]]. right. split; [right; reflexivity|]. rewrite size'_new. apply Nat.leb_le in E. split; [exact E|].
    rewrite step_tree, l2n'_new, (nth_error_get _ _ _ (add_child_right t father sp fnd Hfn)). exact Ed.
Qed.

Lemma step_inv_q :
  NoDup (st_queue st') /\
  (forall l, In l (st_queue st') -> l < st_nl st' /\ min_samples_split P <= leaf_size X st' l /\
             nd_depth (get_node (st_tree st') (st_l2n st' l)) < eff_max_depth P (length X)).
Proof.
  destruct sp_father as (fnd & Hfn & Hfl & HfY). pose proof sp_leaf_lt as Hll. split.
  - change (st_queue st') with (st_queue (step P X st sp)). rewrite rule_step_queue. fold leaf nl n t father right.
    destruct (remove_first_nodup leaf (st_queue st) (I_q_nodup _ _ _ _ HI)) as (Hnd & Hnin).
    assert (~ In nl (remove_first leaf (st_queue st))) as Hnl.
    { intros H. apply remove_first_in in H. apply (I_q _ _ _ _ HI) in H. fold nl in H. lia. }
    destruct (_ <? _); [|exact Hnd]. rewrite app_assoc.
    assert (NoDup (remove_first leaf (st_queue st) ++ (if min_samples_split P <=? countb n (goes_left X st sp) then [leaf] else []))) as H1.
    { destruct (_ <=? _); [apply nodup_snoc; assumption|rewrite app_nil_r; assumption]. }
    destruct (min_samples_split P <=? countb n right); [|rewrite app_nil_r; exact H1].
    apply nodup_snoc; [exact H1|]. rewrite in_app_iff. intros [H|H]; [tauto|].
    destruct (_ <=? _); [destruct H as [H|[]]; lia|destruct H].
  - intros l Hl. rewrite step_nl. destruct (step_queue_in l Hl) as [(Hin & Hne)|(Hc & H1 & H2)].
    + destruct (I_q _ _ _ _ HI l Hin) as (A & B & C). fold nl in A. split; [lia|].
      rewrite size'_other by lia. split; [exact B|]. rewrite step_tree, l2n'_other by lia.
      rewrite (add_child_depth t father sp fnd Hfn); [exact C|apply l2n_old_lt; exact A].
    + split; [destruct Hc; lia|]. split; [exact H1|exact H2].
Qed.

Lemma step_inv_split :
  forall a nd l r f th, nth_error (st_tree st') a = Some nd -> internal nd l r f th ->
  exists S : nat -> bool, (forall i, i < length X -> S i = true -> seg (st_tree st') (nth i X []) 0 a) /\
                          min_samples_split P <= countb (length X) S /\
                          (exists i, i < length X /\ S i = true /\ feat X i f = th).
Proof.
  destruct sp_father as (fnd & Hfn & Hfl & HfY). rewrite step_tree. intros a nd l r f th Hn Hi.
  destruct (add_child_cases t father sp fnd Hfn a nd Hn) as [(Ha & Hne & Hold) | [(-> & ->) | [(-> & ->) | (-> & ->)]]].
  - destruct (I_split _ _ _ _ HI a nd l r f th Hold Hi) as (S & H1 & H2 & H3). exists S. split; [|split; assumption].
    intros i Hi' HS. apply (seg_add_child t father sp fnd Hfn Hfl). apply H1; assumption.
  - exists (st_Z st leaf). split; [|split].
    + intros i Hi' HZ. apply (seg_add_child t father sp fnd Hfn Hfl). apply (I_Zseg _ _ _ _ HI leaf i sp_leaf_lt Hi' HZ).
    + apply (I_q _ _ _ _ HI leaf (ad_queue _ _ _ _ _ HA)).
    + destruct Hi as (_ & _ & Hf & Hth). cbn [new_father nd_feature nd_threshold] in Hf, Hth.
      injection Hf as <-. injection Hth as <-. apply (ad_obs _ _ _ _ _ HA).
  - destruct Hi as (H & _). discriminate.
  - destruct Hi as (H & _). discriminate.
Qed.

Lemma inv_step : Inv P d X st'.
Proof.
  destruct step_inv_tree as (A1 & A2 & A3 & A4 & A5 & A6). destruct step_inv_l2n as (B1 & B2 & B3).
  destruct step_inv_Z as (C1 & C2 & C3 & C4 & C5). destruct step_inv_Y as (D1 & D2 & D3 & D4 & D5).
  destruct step_inv_q as (E1 & E2).
  constructor; try assumption. exact step_inv_split.
Qed.
End Step.

(* ================================================================== 4. reachable states, the loop *)
Inductive reachable (P : params) (d : nat) (X : data) : state -> Prop :=
| reach_init : reachable P d X (init P X)
| reach_step st sp : reachable P d X st -> guard P X st = true -> admissible P d X st sp ->
                     reachable P d X (step P X st sp).

(* the only thing assumed of find_best_split: whenever it reports a positive gain in a state the
   loop can be in, the split it returns is admissible *)
Definition oracle_ok (P : params) (d : nat) (X : data) (choose : state -> option ksplit) : Prop :=
  forall st sp, reachable P d X st -> guard P X st = true -> choose st = Some sp -> admissible P d X st sp.

Lemma reachable_inv P d X st : valid P d X -> reachable P d X st -> Inv P d X st.
Proof. intros V. induction 1 as [|st sp _ IH HG HA]; [apply inv_init; exact V|apply inv_step; assumption]. Qed.

Lemma loop_reachable P d X choose : oracle_ok P d X choose ->
  forall fuel st st', reachable P d X st -> loop fuel P X choose st = Done st' ->
  reachable P d X st' /\ (guard P X st' = false \/ choose st' = None).
Proof.
  intros Hor. induction fuel as [|fu IH]; intros st st' Hr H; [rewrite rule_loop_0 in H; discriminate|]. rewrite rule_loop_S in H.
  destruct (guard P X st) eqn:HG.
  - destruct (choose st) as [sp|] eqn:Hc.
    + apply IH in H; [exact H|]. apply reach_step; [exact Hr|exact HG|apply Hor; assumption].
    + injection H as <-. split; [exact Hr|right; exact Hc].
  - injection H as <-. split; [exact Hr|left; exact HG].
Qed.

Lemma loop_fuel P d X choose : valid P d X -> oracle_ok P d X choose ->
  forall fuel st, reachable P d X st -> eff_max_leaves P (length X) - st_nl st < fuel ->
  loop fuel P X choose st <> OutOfFuel.
Proof.
  intros V Hor. induction fuel as [|fu IH]; intros st Hr Hf; [lia|]. rewrite rule_loop_S.
  destruct (guard P X st) eqn:HG; [|discriminate]. destruct (choose st) as [sp|] eqn:Hc; [|discriminate].
  apply IH; [apply reach_step; [exact Hr|exact HG|apply Hor; assumption]|].
  rewrite rule_step_nl.
  rewrite rule_guard in HG. apply andb_true_iff in HG. destruct HG as (HG & _). apply Nat.ltb_lt in HG. lia.
Qed.

Lemma fit_terminates P d X choose : valid P d X -> oracle_ok P d X choose -> exists st, fit P X choose = Done st.
Proof.
  intros V Hor. destruct (fit P X choose) as [st|] eqn:E; [exists st; reflexivity|]. exfalso. revert E.
  rewrite rule_fit. apply (loop_fuel P d X choose V Hor); [apply reach_init|]. rewrite rule_init. cbn [init_h st_nl]. lia.
Qed.

Lemma fit_reachable P d X choose st : oracle_ok P d X choose -> fit P X choose = Done st ->
  reachable P d X st /\ (guard P X st = false \/ choose st = None).
Proof. intros Hor H. rewrite rule_fit in H. eapply loop_reachable; [exact Hor|apply reach_init|exact H]. Qed.

Lemma fit_inv P d X choose st : valid P d X -> oracle_ok P d X choose -> fit P X choose = Done st -> Inv P d X st.
Proof. intros V Hor H. apply reachable_inv; [exact V|]. eapply fit_reachable; eassumption. Qed.

(* ================================================================== 5. the clauses of C09, from the invariant *)
Section Final.
Variables (P : params) (d : nat) (X : data) (st : state).
Hypothesis V : valid P d X.
Hypothesis HI : Inv P d X st.
Let n := length X.
Let t := st_tree st.

Lemma sample_spec i : i < n -> exists l k, l < st_nl st /\ st_Z st l i = true /\ k < st_nc st /\ st_Y st k l = true /\
  leaf_of P X st i = l /\ label_of P X st i = k.
Proof.
  intros Hi. destruct (I_Zcover _ _ _ _ HI i Hi) as (l & Hl & HZ). destruct (I_Ycover _ _ _ _ HI l Hl) as (k & Hk & HY).
  pose proof (I_nl _ _ _ _ HI) as Hnl. pose proof (I_nc _ _ _ _ HI) as Hnc.
  exists l, k. repeat split; try assumption.
  - rewrite rule_leaf_of. apply (argmax_onehot _ (fun l => st_Z st l i)); [lia|exact HZ|].
    intros l' _ H. eapply (I_Zuniq _ _ _ _ HI); eassumption.
  - rewrite rule_label_of. set (L := eff_max_leaves P (length X)). set (f := fun c => sumn L (fun l0 => b2n (st_Y st c l0) * b2n (st_Z st l0 i))).
    destruct (argmax_spec (max_clusters P) f ltac:(lia)) as (Ha & Hmax).
    assert (1 <= f k) as Hfk.
    { unfold f. pose proof (sumn_ge L (fun l0 => b2n (st_Y st k l0) * b2n (st_Z st l0 i)) l ltac:(unfold L; lia)) as H.
      cbn beta in H. rewrite HY, HZ in H. exact H. }
    assert (forall c, 0 < f c -> c = k) as Hone.
    { intros c Hc. apply sumn_pos in Hc. destruct Hc as (l0 & _ & Hpos).
      destruct (st_Y st c l0) eqn:E1; [|cbn in Hpos; lia]. destruct (st_Z st l0 i) eqn:E2; [|cbn in Hpos; lia].
      assert (l0 = l) as -> by (eapply (I_Zuniq _ _ _ _ HI); eassumption). eapply (I_Yuniq _ _ _ _ HI); eassumption. }
    apply Hone. specialize (Hmax k ltac:(lia)). lia.
Qed.

(* at most max_leaves leaves; 2*leaves-1 nodes *)
Lemma final_leaves : count_leaves t <= eff_max_leaves P n /\ length t = 2 * count_leaves t - 1 /\ count_leaves t = st_nl st.
Proof. unfold t. rewrite (I_cl _ _ _ _ HI). pose proof (I_nl _ _ _ _ HI). pose proof (I_len _ _ _ _ HI). fold n in H. lia. Qed.

(* depth at most max_depth; the depths array is the true depth: root 0, children one more than their parent *)
Lemma final_depth :
  tree_depth t <= eff_max_depth P n /\ nd_depth (get_node t 0) = 0 /\
  (forall a nd l r f th, nth_error t a = Some nd -> internal nd l r f th ->
     nd_depth (get_node t l) = S (nd_depth nd) /\ nd_depth (get_node t r) = S (nd_depth nd)).
Proof.
  split; [|split; [apply (I_root _ _ _ _ HI)|]].
  - assert (forall u : tree, (forall nd, In nd u -> nd_depth nd <= eff_max_depth P n) -> tree_depth u <= eff_max_depth P n) as H.
    { induction u as [|x u IH]; intros Hall; cbn [tree_depth fold_right]; [lia|].
      apply Nat.max_lub; [apply Hall; left; reflexivity|apply IH; intros; apply Hall; right; assumption]. }
    apply H. intros nd Hin. apply In_nth_error in Hin. destruct Hin as (a & Ha). apply (I_depth _ _ _ _ HI a nd Ha).
  - intros a nd l r f th Hn Hi. destruct (I_tree _ _ _ _ HI a nd Hn) as [Hl|(l' & r' & f' & th' & Hi' & _ & _ & _ & _ & D1 & D2)].
    + exfalso. eapply leaf_not_internal; eassumption.
    + destruct (internal_fun _ _ _ _ _ _ _ _ _ Hi Hi') as (-> & -> & _ & _). split; assumption.
Qed.

(* at most max_clusters clusters, and the labels in use are exactly 0 .. n_clusters-1 *)
Lemma final_clusters :
  st_nc st <= max_clusters P /\ (forall i, i < n -> label_of P X st i < st_nc st) /\
  (forall c, c < st_nc st -> exists i, i < n /\ label_of P X st i = c).
Proof.
  split; [apply (I_nc _ _ _ _ HI)|split].
  - intros i Hi. destruct (sample_spec i Hi) as (l & k & _ & _ & Hk & _ & _ & ->). exact Hk.
  - intros c Hc. destruct (I_Yused _ _ _ _ HI c Hc) as (l & Hl & HY).
    pose proof (I_Zsize _ _ _ _ HI l Hl) as Hsz. pose proof (v_msl _ _ _ V).
    destruct (countb_pos (length X) (st_Z st l) ltac:(unfold leaf_size in Hsz; lia)) as (i & Hi & HZ).
    exists i. split; [exact Hi|]. destruct (sample_spec i Hi) as (l' & k & _ & HZ' & _ & HY' & _ & ->).
    assert (l' = l) as -> by (eapply (I_Zuniq _ _ _ _ HI); eassumption). eapply (I_Yuniq _ _ _ _ HI); eassumption.
Qed.

(* each leaf belongs to exactly one cluster (one 1 per column of Y), each sample to exactly one leaf *)
Lemma final_one_cluster :
  (forall l, l < st_nl st -> exists k, k < max_clusters P /\ st_Y st k l = true /\ forall k', st_Y st k' l = true -> k' = k) /\
  (forall i, i < n -> exists l, l < st_nl st /\ st_Z st l i = true /\ forall l', st_Z st l' i = true -> l' = l).
Proof.
  split.
  - intros l Hl. destruct (I_Ycover _ _ _ _ HI l Hl) as (k & Hk & HY). pose proof (I_nc _ _ _ _ HI). exists k.
    split; [lia|split; [exact HY|]]. intros k' H'. eapply (I_Yuniq _ _ _ _ HI); eassumption.
  - intros i Hi. destruct (I_Zcover _ _ _ _ HI i Hi) as (l & Hl & HZ). exists l. split; [exact Hl|split; [exact HZ|]].
    intros l' H'. eapply (I_Zuniq _ _ _ _ HI); eassumption.
Qed.

Lemma seg_node_count a (S : nat -> bool) :
  (forall i, i < n -> S i = true -> seg t (nth i X []) 0 a) -> countb n S <= node_count t X a.
Proof.
  intros H. rewrite rule_node_count. apply countb_mono. intros i Hi HS.
  apply (seg_visits d); [apply (I_tree _ _ _ _ HI)|apply H; assumption|lia].
Qed.

(* every leaf node is reached by at least min_samples_leaf training rows *)
Lemma final_leaf_sizes : forall b nd, nth_error t b = Some nd -> is_leaf nd -> min_samples_leaf P <= node_count t X b.
Proof.
  intros b nd Hn Hl. destruct (I_l2n_surj _ _ _ _ HI b nd Hn Hl) as (l & Hlt & <-).
  pose proof (I_Zsize _ _ _ _ HI l Hlt) as Hsz. unfold leaf_size in Hsz.
  eapply Nat.le_trans; [exact Hsz|]. apply seg_node_count. intros i Hi HZ. apply (I_Zseg _ _ _ _ HI l i Hlt Hi HZ).
Qed.

(* no node reached by fewer than min_samples_split training rows is split; its feature is a real
   feature and its threshold is the value of that feature for a training row reaching the node *)
Lemma final_split_nodes : forall a nd l r f th, nth_error t a = Some nd -> internal nd l r f th ->
  min_samples_split P <= node_count t X a /\ f < d /\
  exists i, i < n /\ feat X i f = th /\ visits (length t) t (nth i X []) 0 a = true.
Proof.
  intros a nd l r f th Hn Hi. destruct (I_split _ _ _ _ HI a nd l r f th Hn Hi) as (S & H1 & H2 & (i & Hi' & HS & Hth)).
  split; [eapply Nat.le_trans; [exact H2|apply seg_node_count; exact H1]|]. split.
  - destruct (I_tree _ _ _ _ HI a nd Hn) as [Hl|(l' & r' & f' & th' & Hi'' & _ & _ & _ & Hf & _)].
    + exfalso. eapply leaf_not_internal; eassumption.
    + destruct (internal_fun _ _ _ _ _ _ _ _ _ Hi Hi'') as (_ & _ & -> & _). exact Hf.
  - exists i. split; [exact Hi'|split; [exact Hth|]]. apply (seg_visits d); [apply (I_tree _ _ _ _ HI)|apply H1; assumption|lia].
Qed.

(* routing the training data through the recorded thresholds reproduces the Z / Y bookkeeping *)
Lemma final_predict_train i : i < n ->
  route_leaf t (nth i X []) = Some (st_l2n st (leaf_of P X st i)) /\
  predict_row t (nth i X []) = Some (label_of P X st i).
Proof.
  intros Hi. destruct (sample_spec i Hi) as (l & k & Hl & HZ & Hk & HY & -> & ->).
  destruct (I_l2n _ _ _ _ HI l Hl) as (nd & Hn & Hlf & HYt).
  assert (route_leaf t (nth i X []) = Some (st_l2n st l)) as Hr.
  { eapply seg_route; [apply (I_tree _ _ _ _ HI)|apply (I_Zseg _ _ _ _ HI l i Hl Hi HZ)|exact Hn|exact Hlf]. }
  split; [exact Hr|]. rewrite rule_predict_row, Hr. fold t in Hn. rewrite (nth_error_get _ _ _ Hn). f_equal.
  eapply (I_Yuniq _ _ _ _ HI); eassumption.
Qed.

Lemma map_nth_seq_gen {A B} (f : A -> B) (g : nat -> B) (dflt : A) (l : list A) : forall s,
  (forall i, i < length l -> f (nth i l dflt) = g (s + i)) -> map f l = map g (seq s (length l)).
Proof.
  induction l as [|x l IH]; intros s H; [reflexivity|]. cbn [map length seq]. f_equal.
  - specialize (H 0 ltac:(cbn; lia)). rewrite Nat.add_0_r in H. exact H.
  - apply IH. intros i Hi. specialize (H (S i) ltac:(cbn; lia)). rewrite Nat.add_succ_r in H. exact H.
Qed.
Lemma map_nth_seq {A B} (f : A -> B) (g : nat -> B) (dflt : A) (l : list A) :
  (forall i, i < length l -> f (nth i l dflt) = g i) -> map f l = map g (seq 0 (length l)).
Proof. intros H. apply (map_nth_seq_gen f g dflt). exact H. Qed.
Lemma final_predict_labels : predict t X = map Some (labels P X st).
Proof.
  rewrite rule_predict, rule_labels, map_map. apply (map_nth_seq _ _ []). intros i Hi. apply final_predict_train. exact Hi.
Qed.

(* any row, seen or not, receives the target of the one leaf whose region contains it *)
Lemma final_predict_region x :
  exists b nd, nth_error t b = Some nd /\ is_leaf nd /\ in_region t b x /\ predict_row t x = Some (nd_target nd) /\
               forall b' nd', nth_error t b' = Some nd' -> is_leaf nd' -> in_region t b' x -> b' = b.
Proof.
  pose proof (I_len _ _ _ _ HI) as Hlen. pose proof (I_nl _ _ _ _ HI) as Hnl. fold t in Hlen.
  destruct (route_visits_total d t x (I_tree _ _ _ _ HI) (length t) 0 ltac:(lia) ltac:(lia)) as (b & nb & Hr & Hb & Hl & Hs).
  exists b, nb. split; [exact Hb|split; [exact Hl|split; [apply seg_iff_cpath; exact Hs|split]]].
  - rewrite rule_predict_row, rule_route_leaf, Hr, (nth_error_get _ _ _ Hb). reflexivity.
  - intros b' nd' Hb' Hl' Hreg. apply seg_iff_cpath in Hreg. eapply seg_leaf_unique; [exact Hreg|exact Hb'|exact Hl'|exact Hs|exact Hb|exact Hl].
Qed.
End Final.

(* ================================================================== 6. score = kernel-KMeans objective (real-number instance) *)
From Coq Require Import Reals Lra.
From GV Require Import Common.NumR.
Section ScoreR.
Local Open Scope R_scope.
Definition ind (b : bool) : R := if b then 1 else 0.
Fixpoint rsum (n : nat) (f : nat -> R) : R := match n with O => 0 | S m => rsum m f + f m end.
(* sum over the non-empty clusters k < K of  (sum_{i,j in C_k} kappa_ij) / |C_k| *)
Definition kk_objective (n K : nat) (ker : nat -> nat -> R) (lab : nat -> nat) : R :=
  rsum K (fun k => let sz := countb n (fun i => Nat.eqb (lab i) k) in
                   if Nat.eqb sz 0 then 0
                   else rsum n (fun i => rsum n (fun j => ind (Nat.eqb (lab i) k) * ind (Nat.eqb (lab j) k) * ker i j)) / INR sz).

Lemma rsum_ext n f g : (forall i, (i < n)%nat -> f i = g i) -> rsum n f = rsum n g.
Proof. induction n as [|n IH]; intros H; [reflexivity|]. cbn [rsum]. rewrite IH by (intros; apply H; lia). rewrite (H n) by lia. reflexivity. Qed.
Lemma rsum_scal n c f : c * rsum n f = rsum n (fun j => c * f j).
Proof. induction n as [|n IH]; cbn [rsum]; [lra|]. rewrite <- IH. lra. Qed.
Lemma facc_cond_add n (c : nat -> bool) (g : nat -> R) acc :
  facc n (fun j a => if c j then nadd Rops a (g j) else a) acc = acc + rsum n (fun j => ind (c j) * g j).
Proof.
  induction n as [|n IH]; cbn [facc rsum]; [lra|]. rewrite IH. unfold ind. cbn [nadd Rops]. destruct (c n); lra.
Qed.
Lemma facc_cond_nest n (c : nat -> bool) (h : nat -> R) acc :
  facc n (fun i a => if c i then a + h i else a) acc = acc + rsum n (fun i => ind (c i) * h i).
Proof. induction n as [|n IH]; cbn [facc rsum]; [lra|]. rewrite IH. unfold ind. destruct (c n); lra. Qed.

Lemma facc_ext {T} n (f g : nat -> T -> T) acc : (forall i a, (i < n)%nat -> f i a = g i a) -> facc n f acc = facc n g acc.
Proof. induction n as [|n IH]; intros H; [reflexivity|]. cbn [facc]. rewrite IH by (intros; apply H; lia). apply H. lia. Qed.

Lemma stock_R n ker inC :
  stock Rops n ker inC = rsum n (fun i => rsum n (fun j => ind (inC i) * ind (inC j) * ker i j)).
Proof.
  unfold stock.
  rewrite (facc_ext n _ (fun i a => if inC i then a + rsum n (fun j => ind (inC j) * ker i j) else a)).
  - rewrite facc_cond_nest. cbn [n0 Rops]. rewrite Rplus_0_l. apply rsum_ext. intros i _. rewrite rsum_scal. apply rsum_ext. intros j _. ring.
  - intros i a _. destruct (inC i); [|reflexivity]. apply facc_cond_add.
Qed.

Lemma objective_R n K ker lab : objective Rops n K ker lab = kk_objective n K ker lab.
Proof.
  unfold objective, kk_objective.
  induction K as [|K IH]; cbn [facc rsum]; [reflexivity|]. rewrite IH.
  destruct (Nat.eqb (countb n (fun i => Nat.eqb (lab i) K)) 0); [cbn [n0 Rops]; lra|].
  cbn [nadd ndiv nofnat Rops]. rewrite stock_R. reflexivity.
Qed.

Lemma kk_objective_ext n K ker lab lab' : (forall i, (i < n)%nat -> lab i = lab' i) -> kk_objective n K ker lab = kk_objective n K ker lab'.
Proof.
  intros H. unfold kk_objective. apply rsum_ext. intros k _. cbv zeta.
  rewrite (countb_ext n (fun i => Nat.eqb (lab i) k) (fun i => Nat.eqb (lab' i) k)) by (intros i Hi; rewrite (H i Hi); reflexivity).
  destruct (Nat.eqb _ 0); [reflexivity|]. f_equal. apply rsum_ext. intros i Hi. apply rsum_ext. intros j Hj.
  rewrite (H i Hi), (H j Hj). reflexivity.
Qed.

(* Kauri.score on any data X' (with its kernel matrix): the objective of the labels predict assigns *)
Lemma final_score P d X st (X' : data) ker : Inv P d X st ->
  exists lab, (forall i, (i < length X')%nat -> predict_row (st_tree st) (nth i X' []) = Some (lab i) /\ (lab i < max_clusters P)%nat) /\
              score Rops (st_tree st) X' (max_clusters P) ker = kk_objective (length X') (max_clusters P) ker lab.
Proof.
  intros HI. exists (fun i => match predict_row (st_tree st) (nth i X' []) with Some c => c | None => max_clusters P end).
  split; [|apply objective_R]. intros i _.
  destruct (final_predict_region P d X st HI (nth i X' [])) as (b & nd & Hb & Hl & _ & Hp & _). rewrite Hp. split; [reflexivity|].
  destruct (I_l2n_surj _ _ _ _ HI b nd Hb Hl) as (l & Hlt & <-). destruct (I_l2n _ _ _ _ HI l Hlt) as (nd' & Hn' & _ & HY).
  rewrite Hb in Hn'. injection Hn' as <-. destruct (I_Ycover _ _ _ _ HI l Hlt) as (k & Hk & HY').
  rewrite (I_Yuniq _ _ _ _ HI _ _ _ HY HY'). pose proof (I_nc _ _ _ _ HI). lia.
Qed.
(* on the training data: the objective of labels_ *)
Lemma final_score_train P d X st ker : valid P d X -> Inv P d X st ->
  score Rops (st_tree st) X (max_clusters P) ker = kk_objective (length X) (max_clusters P) ker (label_of P X st).
Proof.
  intros V HI. unfold score. rewrite objective_R. apply kk_objective_ext. intros i Hi.
  destruct (final_predict_train P d X st HI i Hi) as (_ & ->). reflexivity.
Qed.
End ScoreR.

(* ================================================================== 7. a checked oracle; what contiguity rests on *)
Lemma replay_oracle_ok P d X sps : oracle_ok P d X (replay_oracle P d X sps).
Proof.
  intros st sp _ _ H. unfold replay_oracle in H. destruct (nth_error sps (st_nl st - 1)) as [sp'|]; [|discriminate].
  destruct (admissibleb P d X st sp') eqn:E; [|discriminate]. injection H as <-. apply admissibleb_iff. exact E.
Qed.

(* admissibility without the clause "the cluster of the split leaf is not emptied" *)
Definition admissible_weak (P : params) (d : nat) (X : data) (st : state) (sp : ksplit) : Prop :=
  In (s_leaf sp) (st_queue st) /\ s_feature sp < d /\
  (exists i, i < length X /\ st_Z st (s_leaf sp) i = true /\ feat X i (s_feature sp) = s_threshold sp) /\
  min_samples_leaf P <= countb (length X) (goes_left X st sp) /\
  min_samples_leaf P <= countb (length X) (goes_right X st sp) /\
  targets_ok (max_clusters P) (st_nc st) (s_left sp) (s_right sp).

(* Kauri.fit alone does not make the labels contiguous: if the oracle sent both halves of a leaf that
   is a whole cluster to another existing cluster, a label below n_clusters would be unused.
   find_best_split never does (its switch keeps one side, its double-star / reallocation branches
   require n_leaf != cluster_sizes[k]); [ad_keeps] records exactly that. *)
Lemma contiguity_needs_keeps :
  exists P d X st sp, valid P d X /\ reachable P d X st /\ guard P X st = true /\ admissible_weak P d X st sp /\
    exists c, c < st_nc (step P X st sp) /\ forall i, i < length X -> label_of P X (step P X st sp) i <> c.
Proof.
  set (P := {| max_clusters := 3; max_depth := None; min_samples_split := 2; min_samples_leaf := 1; max_leaves := None |}).
  set (X := [[0%Z]; [1%Z]; [2%Z]; [3%Z]]).
  set (sp1 := {| s_leaf := 0; s_feature := 0; s_threshold := 1%Z; s_left := 0; s_right := 1 |}).
  set (sp2 := {| s_leaf := 0; s_feature := 0; s_threshold := 0%Z; s_left := 1; s_right := 1 |}).
  exists P, 1, X, (step P X (init P X) sp1), sp2.
  split; [constructor; cbn; try lia; intros; discriminate|].
  split; [apply reach_step; [apply reach_init|reflexivity|apply admissibleb_iff; vm_compute; reflexivity]|].
  split; [reflexivity|]. split.
  - unfold admissible_weak. split; [left; reflexivity|]. split; [cbn; lia|].
    split; [exists 0; vm_compute; repeat split; lia|]. split; [vm_compute; lia|]. split; [vm_compute; lia|].
    left. vm_compute. lia.
  - exists 0. split; [vm_compute; lia|]. intros i Hi. change (length X) with 4 in Hi.
    destruct i as [|[|[|[|i]]]]; [vm_compute; discriminate..|lia].
Qed.

(* ================================================================== 8. the clauses, stated for a finished fit *)
Section Fit.
Variables (P : params) (d : nat) (X : data) (choose : state -> option ksplit) (st : state).
Hypothesis V : valid P d X.
Hypothesis Hor : oracle_ok P d X choose.
Hypothesis Hfit : fit P X choose = Done st.
Let HI : Inv P d X st := fit_inv P d X choose st V Hor Hfit.

Lemma fit_leaves_nodes :
  count_leaves (st_tree st) <= eff_max_leaves P (length X) /\
  length (st_tree st) = 2 * count_leaves (st_tree st) - 1 /\ count_leaves (st_tree st) = st_nl st.
Proof. exact (final_leaves P d X st HI). Qed.
Lemma fit_depth :
  tree_depth (st_tree st) <= eff_max_depth P (length X) /\ nd_depth (get_node (st_tree st) 0) = 0 /\
  (forall a nd l r f th, nth_error (st_tree st) a = Some nd -> internal nd l r f th ->
     nd_depth (get_node (st_tree st) l) = S (nd_depth nd) /\ nd_depth (get_node (st_tree st) r) = S (nd_depth nd)).
Proof. exact (final_depth P d X st HI). Qed.
Lemma fit_clusters :
  st_nc st <= max_clusters P /\ (forall i, i < length X -> label_of P X st i < st_nc st) /\
  (forall c, c < st_nc st -> exists i, i < length X /\ label_of P X st i = c).
Proof. exact (final_clusters P d X st V HI). Qed.
Lemma fit_one_cluster :
  (forall l, l < st_nl st -> exists k, k < max_clusters P /\ st_Y st k l = true /\ forall k', st_Y st k' l = true -> k' = k) /\
  (forall i, i < length X -> exists l, l < st_nl st /\ st_Z st l i = true /\ forall l', st_Z st l' i = true -> l' = l).
Proof. exact (final_one_cluster P d X st HI). Qed.
Lemma fit_leaf_sizes : forall b nd, nth_error (st_tree st) b = Some nd -> is_leaf nd ->
  min_samples_leaf P <= node_count (st_tree st) X b.
Proof. exact (final_leaf_sizes P d X st HI). Qed.
Lemma fit_split_nodes : forall a nd l r f th, nth_error (st_tree st) a = Some nd -> internal nd l r f th ->
  min_samples_split P <= node_count (st_tree st) X a /\ f < d /\
  exists i, i < length X /\ feat X i f = th /\ visits (length (st_tree st)) (st_tree st) (nth i X []) 0 a = true.
Proof. exact (final_split_nodes P d X st HI). Qed.
Lemma fit_well_formed : forall a nd, nth_error (st_tree st) a = Some nd ->
  is_leaf nd \/ exists l r f th, internal nd l r f th /\ a < l /\ r = S l /\ r < length (st_tree st).
Proof.
  intros a nd Hn. destruct (I_tree _ _ _ _ HI a nd Hn) as [H|(l & r & f & th & H1 & H2 & H3 & H4 & _)]; [left; exact H|].
  right. exists l, r, f, th. repeat split; assumption || apply H1.
Qed.
Lemma fit_predict_train :
  predict (st_tree st) X = map Some (labels P X st) /\
  (forall i, i < length X -> route_leaf (st_tree st) (nth i X []) = Some (st_l2n st (leaf_of P X st i)) /\
                             leaf_of P X st i < st_nl st) /\
  (forall l l', l < st_nl st -> l' < st_nl st -> st_l2n st l = st_l2n st l' -> l = l').
Proof.
  split; [exact (final_predict_labels P d X st HI)|split; [|exact (I_l2n_inj _ _ _ _ HI)]].
  intros i Hi. split; [apply (final_predict_train P d X st HI i Hi)|].
  destruct (sample_spec P d X st HI i Hi) as (l & k & Hl & _ & _ & _ & -> & _). exact Hl.
Qed.
Lemma fit_predict_region : forall x,
  exists b nd, nth_error (st_tree st) b = Some nd /\ is_leaf nd /\ in_region (st_tree st) b x /\
               predict_row (st_tree st) x = Some (nd_target nd) /\
               forall b' nd', nth_error (st_tree st) b' = Some nd' -> is_leaf nd' -> in_region (st_tree st) b' x -> b' = b.
Proof. exact (final_predict_region P d X st HI). Qed.
Lemma fit_score : forall (X' : data) ker,
  exists lab, (forall i, i < length X' -> predict_row (st_tree st) (nth i X' []) = Some (lab i) /\ lab i < max_clusters P) /\
              score Rops (st_tree st) X' (max_clusters P) ker = kk_objective (length X') (max_clusters P) ker lab.
Proof. intros X' ker. exact (final_score P d X st X' ker HI). Qed.
Lemma fit_score_train : forall ker,
  score Rops (st_tree st) X (max_clusters P) ker = kk_objective (length X) (max_clusters P) ker (label_of P X st).
Proof. intros ker. exact (final_score_train P d X st ker V HI). Qed.
Lemma fit_stop : guard P X st = false \/ choose st = None.
Proof. exact (proj2 (fit_reachable P d X choose st Hor Hfit)). Qed.
End Fit.

(* ================================================================== 9. drift of the regenerated holes *)
(* stated last so that, when a hole changes, the specific [rule_*] equation above is the one reported *)
Lemma rules_golden : kauri_fit_rules = golden_fit_rules.
Proof. reflexivity. Qed.
