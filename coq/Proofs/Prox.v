(* C05 — proofs about the proximal-operator models of Model/Prox.v at the real-number instance Rops.
   Part 1: list algebra over R, Cauchy-Schwarz, the group-lasso operator (closed form, unique minimiser).
   Part 2: the hierarchical (LassoNet) operator: sorting, the prefix property of the breakpoint search,
           feasibility and optimality.
   Part 3: the group wrappers (gather / flatten / unflatten / scatter). *)
From Coq Require Import Reals Lra Lia Psatz List Bool Arith Permutation Sorted.
From GV Require Import Common.Num Common.NumR Model.Prox.
Import ListNotations.
Open Scope R_scope.

(* ------------------------------------------------------------------------------------------------ *)
(* booleans of Rops *)
Lemma pRltb_true x y : Rltb x y = true <-> x < y.
Proof. unfold Rltb. destruct (Rlt_dec x y); split; intros; try discriminate; try reflexivity; tauto. Qed.
Lemma pRltb_false x y : Rltb x y = false <-> y <= x.
Proof. unfold Rltb. destruct (Rlt_dec x y); split; intros; try discriminate; try reflexivity; lra. Qed.
Lemma pRleb_true x y : Rleb x y = true <-> x <= y.
Proof. unfold Rleb. destruct (Rle_dec x y); split; intros; try discriminate; try reflexivity; tauto. Qed.
Lemma pRleb_false x y : Rleb x y = false <-> y < x.
Proof. unfold Rleb. destruct (Rle_dec x y); split; intros; try discriminate; try reflexivity; lra. Qed.

Lemma nmax_Rmax a b : nmax Rops a b = Rmax a b.
Proof.
  unfold nmax, Rmax. cbn [nltb Rops]. unfold Rltb.
  destruct (Rlt_dec a b), (Rle_dec a b); try reflexivity; lra.
Qed.
Lemma nmin_Rmin a b : nmin Rops a b = Rmin a b.
Proof.
  unfold nmin, Rmin. cbn [nltb Rops]. unfold Rltb.
  destruct (Rlt_dec b a), (Rle_dec a b); try reflexivity; lra.
Qed.

(* positive part *)
Definition pos (x : R) : R := Rmax x 0.
Lemma pos_ge0 x : 0 <= pos x. Proof. unfold pos. apply Rmax_r. Qed.
Lemma pos_of_nonneg x : 0 <= x -> pos x = x. Proof. intros H. unfold pos. apply Rmax_left. exact H. Qed.
Lemma pos_of_nonpos x : x <= 0 -> pos x = 0. Proof. intros H. unfold pos. apply Rmax_right. exact H. Qed.
Lemma pos_cases x : (0 <= x /\ pos x = x) \/ (x < 0 /\ pos x = 0).
Proof. destruct (Rle_dec 0 x); [left; split; [lra|apply pos_of_nonneg; lra] | right; split; [lra|apply pos_of_nonpos; lra]]. Qed.

(* ------------------------------------------------------------------------------------------------ *)
(* sums, dot products, norms of lists *)
Definition rsum (l : list R) : R := lsum Rops l.
Definition sqnorm (l : list R) : R := rsum (map (fun x => x * x) l).
Definition rnorm (l : list R) : R := sqrt (sqnorm l).
Definition lsub (a b : list R) : list R := map (fun '(x, y) => x - y) (combine a b).
Definition dot (a b : list R) : R := rsum (map (fun '(x, y) => x * y) (combine a b)).

Lemma rsum_nil : rsum [] = 0. Proof. reflexivity. Qed.
Lemma rsum_cons x l : rsum (x :: l) = x + rsum l. Proof. reflexivity. Qed.
Lemma rsum_app l1 l2 : rsum (l1 ++ l2) = rsum l1 + rsum l2.
Proof. induction l1 as [|x l1 IH]; cbn [app]; rewrite ?rsum_nil, ?rsum_cons; [lra | rewrite IH; lra]. Qed.
Lemma rsum_perm l l' : Permutation l l' -> rsum l = rsum l'.
Proof. induction 1; rewrite ?rsum_cons; lra. Qed.
Lemma rsum_nonneg l : Forall (fun x => 0 <= x) l -> 0 <= rsum l.
Proof. induction 1; rewrite ?rsum_nil, ?rsum_cons; lra. Qed.
Lemma sqnorm_nil : sqnorm [] = 0. Proof. reflexivity. Qed.
Lemma sqnorm_cons x l : sqnorm (x :: l) = x * x + sqnorm l. Proof. reflexivity. Qed.
Lemma sqnorm_nonneg l : 0 <= sqnorm l.
Proof. induction l as [|x l IH]; rewrite ?sqnorm_nil, ?sqnorm_cons; [lra | nra]. Qed.
Lemma norm2_rnorm l : norm2 Rops l = rnorm l. Proof. reflexivity. Qed.
Lemma rnorm_nonneg l : 0 <= rnorm l. Proof. apply sqrt_pos. Qed.
Lemma rnorm_sq l : rnorm l * rnorm l = sqnorm l. Proof. apply sqrt_sqrt, sqnorm_nonneg. Qed.
Lemma sqnorm_zero_all l : sqnorm l = 0 -> Forall (fun x => x = 0) l.
Proof.
  induction l as [|x l IH]; intros H; [constructor|]. rewrite sqnorm_cons in H.
  pose proof (sqnorm_nonneg l) as Hl. assert (Hx : x * x = 0) by nra. assert (Hs : sqnorm l = 0) by nra.
  constructor; [nra | apply IH, Hs].
Qed.
Lemma rnorm_zero_all l : rnorm l = 0 -> Forall (fun x => x = 0) l.
Proof. intros H. apply sqnorm_zero_all. rewrite <- rnorm_sq, H. lra. Qed.
Lemma dot_nil_l b : dot [] b = 0. Proof. reflexivity. Qed.
Lemma dot_nil_r a : dot a [] = 0. Proof. destruct a; reflexivity. Qed.
Lemma dot_cons x a y b : dot (x :: a) (y :: b) = x * y + dot a b. Proof. reflexivity. Qed.

Lemma sqnorm_scale c l : sqnorm (map (Rmult c) l) = c * c * sqnorm l.
Proof. induction l as [|x l IH]; cbn [map]; rewrite ?sqnorm_nil, ?sqnorm_cons; [lra | rewrite IH; ring]. Qed.
Lemma rnorm_scale c l : 0 <= c -> rnorm (map (Rmult c) l) = c * rnorm l.
Proof.
  intros Hc. unfold rnorm. rewrite sqnorm_scale, sqrt_mult_alt by nra.
  rewrite sqrt_square by exact Hc. reflexivity.
Qed.
Lemma dot_scale_r c z w : dot z (map (Rmult c) w) = c * dot z w.
Proof.
  revert w; induction z as [|x z IH]; intros [|y w]; cbn [map]; rewrite ?dot_nil_l, ?dot_nil_r, ?dot_cons; try lra.
  rewrite IH. ring.
Qed.
Lemma dot_self w : dot w w = sqnorm w.
Proof. induction w as [|x w IH]; [reflexivity|]. rewrite dot_cons, sqnorm_cons, IH. reflexivity. Qed.
Lemma sqnorm_lsub a b : length a = length b -> sqnorm (lsub a b) = sqnorm a - 2 * dot a b + sqnorm b.
Proof.
  revert b; induction a as [|x a IH]; intros [|y b] Hl; try discriminate Hl.
  - unfold lsub; cbn [combine map]. rewrite dot_nil_l, sqnorm_nil. lra.
  - injection Hl as Hl. specialize (IH b Hl). unfold lsub in *. cbn [combine map].
    rewrite !sqnorm_cons, dot_cons, IH. ring.
Qed.

(* Cauchy-Schwarz on lists (combine truncates: no length hypothesis needed) *)
Lemma cs_step x y A B D : 0 <= A -> 0 <= B -> D * D <= A * B ->
  (x * y + D) * (x * y + D) <= (x * x + A) * (y * y + B).
Proof.
  intros HA HB HD.
  assert (H2 : 2 * (x * y) * D <= x * x * B + y * y * A).
  { set (p := x * x * B + y * y * A). set (q := 2 * (x * y) * D).
    assert (Hp : 0 <= p) by (unfold p; nra).
    assert (Hq : q * q <= p * p).
    { unfold p, q.
      assert (E1 : 2 * (x * y) * D * (2 * (x * y) * D) = 4 * (x * x * (y * y)) * (D * D)) by ring.
      assert (E2 : (x * x * B + y * y * A) * (x * x * B + y * y * A)
                   = (x * x * B - y * y * A) * (x * x * B - y * y * A) + 4 * (x * x * (y * y)) * (A * B)) by ring.
      rewrite E1, E2.
      assert (0 <= x * x * (y * y)) by nra.
      assert (4 * (x * x * (y * y)) * (D * D) <= 4 * (x * x * (y * y)) * (A * B)) by (apply Rmult_le_compat_l; nra).
      pose proof (Rle_0_sqr (x * x * B - y * y * A)) as Hs. unfold Rsqr in Hs. lra. }
    destruct (Rle_dec q p) as [Hle|Hgt]; [exact Hle|]. exfalso. nra. }
  nra.
Qed.
Lemma cauchy_schwarz_sq a b : dot a b * dot a b <= sqnorm a * sqnorm b.
Proof.
  revert b; induction a as [|x a IH]; intros [|y b]; rewrite ?dot_nil_l, ?dot_nil_r, ?sqnorm_nil.
  - lra.
  - lra.
  - pose proof (sqnorm_nonneg (x :: a)). lra.
  - rewrite dot_cons, !sqnorm_cons. apply cs_step; [apply sqnorm_nonneg | apply sqnorm_nonneg | apply IH].
Qed.
Lemma cauchy_schwarz a b : dot a b <= rnorm a * rnorm b.
Proof.
  pose proof (cauchy_schwarz_sq a b) as H. pose proof (rnorm_nonneg a) as Ha. pose proof (rnorm_nonneg b) as Hb.
  rewrite <- (rnorm_sq a), <- (rnorm_sq b) in H.
  set (p := rnorm a * rnorm b) in *. assert (Hp : 0 <= p) by (unfold p; nra).
  assert (Hq : dot a b * dot a b <= p * p) by (unfold p; nra).
  destruct (Rle_dec (dot a b) p) as [Hle|Hgt]; [exact Hle|]. exfalso. nra.
Qed.

(* ------------------------------------------------------------------------------------------------ *)
(* Part 1: group lasso *)
Definition J_lasso (alpha : R) (w z : list R) : R := / 2 * sqnorm (lsub z w) + alpha * rnorm z.

Definition lasso_factor (w : list R) (alpha : R) : R :=
  Rmax (rnorm w - alpha) 0 / (if Req_EM_T (rnorm w) 0 then 1 else rnorm w).

Lemma linear_prox_row_scale w alpha : linear_prox_row Rops w alpha = map (Rmult (lasso_factor w alpha)) w.
Proof.
  unfold linear_prox_row, lasso_factor. rewrite norm2_rnorm, nmax_Rmax. cbn [neqb nsub ndiv nmul n0 n1 Rops].
  unfold Reqb. destruct (Req_EM_T (rnorm w) 0); apply map_ext; intros x; unfold Rdiv; ring.
Qed.

Lemma map_zero_repeat (c : R) (w : list R) : Forall (fun x => x = 0) w -> map (Rmult c) w = repeat 0 (length w).
Proof. induction 1 as [|x w Hx _ IH]; [reflexivity|]. cbn [map length repeat]. rewrite IH, Hx. f_equal. ring. Qed.
Lemma map_zero_scale (w : list R) : map (Rmult 0) w = repeat 0 (length w).
Proof. induction w as [|x w IH]; [reflexivity|]. cbn [map length repeat]. rewrite IH. f_equal. ring. Qed.

Lemma group_lasso_closed_form : forall w alpha,
  (rnorm w <= alpha -> linear_prox_row Rops w alpha = repeat 0 (length w)) /\
  (alpha < rnorm w -> linear_prox_row Rops w alpha = map (fun x => (1 - alpha / rnorm w) * x) w).
Proof.
  intros w alpha. rewrite linear_prox_row_scale. unfold lasso_factor. split; intros H.
  - rewrite Rmax_right by lra. unfold Rdiv. rewrite Rmult_0_l. apply map_zero_scale.
  - destruct (Req_EM_T (rnorm w) 0) as [E|NE].
    + pose proof (rnorm_zero_all w E) as Hz. rewrite map_zero_repeat by exact Hz.
      symmetry. rewrite (map_ext _ (Rmult (1 - alpha / rnorm w))) by reflexivity. apply map_zero_repeat, Hz.
    + apply map_ext. intros x. rewrite Rmax_left by lra. field. exact NE.
Qed.

Lemma group_lasso_optimal_unique : forall w z alpha, 0 <= alpha -> length z = length w ->
  J_lasso alpha w z - J_lasso alpha w (linear_prox_row Rops w alpha)
    >= / 2 * sqnorm (lsub z (linear_prox_row Rops w alpha)).
Proof.
  intros w z alpha Ha Hl. rewrite linear_prox_row_scale. set (c := lasso_factor w alpha).
  pose proof (rnorm_nonneg w) as Hnw. pose proof (rnorm_nonneg z) as Hnz.
  pose proof (cauchy_schwarz z w) as Hcs. pose proof (rnorm_sq w) as Hsw.
  assert (Hc : 0 <= c).
  { unfold c, lasso_factor. apply Rmult_le_pos; [apply Rmax_r|].
    destruct (Req_EM_T (rnorm w) 0); [lra|]. apply Rlt_le, Rinv_0_lt_compat. lra. }
  unfold J_lasso. rewrite (rnorm_scale c w Hc).
  rewrite (sqnorm_lsub z w Hl), (sqnorm_lsub (map (Rmult c) w) w) by (rewrite map_length; reflexivity).
  rewrite (sqnorm_lsub z (map (Rmult c) w)) by (rewrite map_length; exact Hl).
  rewrite sqnorm_scale, !dot_scale_r.
  assert (Hdz : forall k, dot (map (Rmult k) w) w = k * sqnorm w).
  { clear. intros k. induction w as [|x w IH]; [cbn [map]; rewrite dot_nil_l, sqnorm_nil; lra|].
    cbn [map]. rewrite dot_cons, sqnorm_cons, IH. ring. }
  rewrite (Hdz c). rewrite <- Hsw.
  set (nw := rnorm w) in *. set (nz := rnorm z) in *. set (d := dot z w) in *. set (szz := sqnorm z).
  (* reduces to (c-1) d + alpha nz + c nw^2 - c^2 nw^2 - alpha c nw >= 0 *)
  assert (Hgoal : 0 <= (c - 1) * d + alpha * nz + c * (nw * nw) - c * c * (nw * nw) - alpha * c * nw); [|lra].
  unfold c, lasso_factor. fold nw. destruct (Rle_dec nw alpha) as [Hle|Hgt].
  - rewrite Rmax_right by lra. unfold Rdiv. rewrite Rmult_0_l.
    assert (0 <= nz * (alpha - nw)) by (apply Rmult_le_pos; lra). nra.
  - assert (Hpos : 0 < nw) by lra. destruct (Req_EM_T nw 0) as [E|NE]; [lra|].
    rewrite Rmax_left by lra. set (k := (nw - alpha) / nw).
    assert (Hk : k * nw = nw - alpha) by (unfold k; field; exact NE).
    assert (Hk1 : (k - 1) * nw = - alpha) by lra.
    (* (k-1) d = -(alpha/nw) d >= -(alpha/nw) nz nw = -alpha nz *)
    assert (Hd : (k - 1) * d >= - alpha * nz).
    { assert (Hkm : k - 1 = - (alpha / nw)) by (unfold k; field; exact NE).
      rewrite Hkm. assert (0 <= alpha / nw) by (apply Rmult_le_pos; [lra | apply Rlt_le, Rinv_0_lt_compat; lra]).
      assert (alpha / nw * d <= alpha / nw * (nz * nw)) by (apply Rmult_le_compat_l; lra).
      assert (alpha / nw * (nz * nw) = alpha * nz) by (field; exact NE). lra. }
    assert (Hrest : k * (nw * nw) - k * k * (nw * nw) - alpha * k * nw = 0).
    { replace (k * (nw * nw) - k * k * (nw * nw) - alpha * k * nw) with ((k * nw) * (nw - k * nw - alpha)) by ring.
      rewrite Hk. ring. }
    lra.
Qed.

(* ------------------------------------------------------------------------------------------------ *)
(* Part 2: the hierarchical operator *)

(* --- list helpers --- *)
Lemma nth_firstn_lt {A} (l : list A) d : forall k i, (i < k)%nat -> nth i (firstn k l) d = nth i l d.
Proof.
  induction l as [|x l IH]; intros k i Hi; [rewrite firstn_nil; reflexivity|].
  destruct k as [|k]; [lia|]. destruct i as [|i]; [reflexivity|]. cbn [firstn nth]. apply IH. lia.
Qed.
Lemma nth_skipn_plus {A} (l : list A) d : forall k i, nth i (skipn k l) d = nth (k + i) l d.
Proof.
  induction l as [|x l IH]; intros k i; [rewrite skipn_nil; destruct i, (k + 0)%nat, k; reflexivity|].
  destruct k as [|k]; [reflexivity|]. cbn [skipn Nat.add nth]. apply IH.
Qed.
Lemma rsum_firstn_S (l : list R) : forall s, rsum (firstn (S s) l) = rsum (firstn s l) + nth s l 0.
Proof.
  induction l as [|x l IH]; intros s; [rewrite !firstn_nil; destruct s; rewrite rsum_nil; cbn [nth]; lra|].
  destruct s as [|s]; [cbn [firstn nth]; rewrite rsum_cons, !rsum_nil; lra|].
  change (firstn (S (S s)) (x :: l)) with (x :: firstn (S s) l). change (firstn (S s) (x :: l)) with (x :: firstn s l).
  rewrite !rsum_cons, IH. cbn [nth]. lra.
Qed.
Lemma map_combine_as_seq {A B C} (F : A * B -> C) (dA : A) (dB : B) : forall (l1 : list A) (l2 : list B) n,
  length l1 = n -> length l2 = n ->
  map F (combine l1 l2) = map (fun i => F (nth i l1 dA, nth i l2 dB)) (seq 0 n).
Proof.
  induction l1 as [|x l1 IH]; intros [|y l2] [|n] H1 H2; try discriminate; [reflexivity|].
  cbn [combine map seq nth]. f_equal. rewrite <- seq_shift, map_map.
  apply IH; [injection H1 as H1; exact H1 | injection H2 as H2; exact H2].
Qed.
Lemma nth_map_in {A B} (g : A -> B) (l : list A) dA dB i : (i < length l)%nat -> nth i (map g l) dB = g (nth i l dA).
Proof. intros Hi. rewrite (nth_indep _ dB (g dA)) by (rewrite map_length; exact Hi). apply map_nth. Qed.
Lemma nth_map_combine_seq {B} (f : nat * R -> B) (d : B) : forall (l : list R) n st s, length l = n -> (s < n)%nat ->
  nth s (map f (combine (seq st n) l)) d = f ((st + s)%nat, nth s l 0).
Proof.
  induction l as [|x l IH]; intros n st s Hn Hs; [cbn in Hn; lia|].
  destruct n as [|n]; [lia|]. cbn [length] in Hn.
  cbn [seq combine map]. destruct s as [|s]; [cbn [nth]; rewrite Nat.add_0_r; reflexivity|].
  cbn [nth]. rewrite (IH n) by lia. f_equal. f_equal. lia.
Qed.

(* --- sorting --- *)
Definition desc (l : list R) : Prop := StronglySorted (fun x y => y <= x) l.
Lemma insert_desc_perm x l : Permutation (insert_desc Rops x l) (x :: l).
Proof.
  induction l as [|y l IH]; cbn [insert_desc]; [apply Permutation_refl|].
  destruct (nltb Rops x y); [|apply Permutation_refl].
  eapply perm_trans; [apply perm_skip, IH | apply perm_swap].
Qed.
Lemma sort_desc_perm l : Permutation (sort_desc Rops l) l.
Proof.
  induction l as [|x l IH]; cbn [sort_desc]; [constructor|].
  eapply perm_trans; [apply insert_desc_perm | apply perm_skip, IH].
Qed.
Lemma insert_desc_sorted x l : desc l -> desc (insert_desc Rops x l).
Proof.
  unfold desc. induction 1 as [|y l Hl IH Hy]; cbn [insert_desc].
  - constructor; constructor.
  - cbn [nltb Rops]. destruct (Rltb x y) eqn:E.
    + apply pRltb_true in E. constructor; [exact IH|].
      eapply Permutation_Forall; [apply Permutation_sym, insert_desc_perm|]. constructor; [lra | exact Hy].
    + apply pRltb_false in E. constructor; [constructor; assumption|].
      constructor; [exact E|]. eapply Forall_impl; [|exact Hy]. cbn beta. intros z Hz. lra.
Qed.
Lemma sort_desc_sorted l : desc (sort_desc Rops l).
Proof. induction l as [|x l IH]; cbn [sort_desc]; [constructor | apply insert_desc_sorted, IH]. Qed.
Lemma desc_nth l : desc l -> forall i j, (i <= j)%nat -> (j < length l)%nat -> nth j l 0 <= nth i l 0.
Proof.
  unfold desc. induction 1 as [|x l Hl IH Hx]; intros i j Hij Hj; [cbn in Hj; lia|].
  destruct j as [|j]; [replace i with 0%nat by lia; lra|]. cbn [length] in Hj.
  destruct i as [|i]; cbn [nth].
  - rewrite Forall_forall in Hx. apply Hx, nth_In. lia.
  - apply IH; lia.
Qed.
Lemma nonneg_nth l : Forall (fun x => 0 <= x) l -> forall i, 0 <= nth i l 0.
Proof.
  intros H i. destruct (Nat.lt_ge_cases i (length l)) as [Hi|Hi].
  - rewrite Forall_forall in H. apply H, nth_In, Hi.
  - rewrite nth_overflow by exact Hi. lra.
Qed.

(* --- counting a predicate that is true exactly on a prefix --- *)
Lemma count_prefix_from (P : nat -> bool) : forall n st,
  (forall s, (st <= s)%nat -> (S s < st + n)%nat -> P s = false -> P (S s) = false) ->
  let k := count_true (map P (seq st n)) in
  (k <= n)%nat /\ (forall s, (st <= s < st + k)%nat -> P s = true) /\ ((k < n)%nat -> P (st + k)%nat = false).
Proof.
  induction n as [|n IH]; intros st Hstep; cbn [seq map count_true].
  - split; [lia|]. split; [intros s Hs; lia | lia].
  - destruct (P st) eqn:E.
    + specialize (IH (S st)). cbn zeta in IH.
      destruct IH as (H1 & H2 & H3). { intros s Hs1 Hs2. apply Hstep; lia. }
      set (k := count_true (map P (seq (S st) n))) in *. cbn [Nat.add]. split; [lia|]. split.
      * intros s Hs. destruct (Nat.eq_dec s st) as [->|Hne]; [exact E|]. apply H2. lia.
      * intros Hk. replace (st + S k)%nat with (S st + k)%nat by lia. apply H3. lia.
    + (* everything after st is false: the count is 0 *)
      assert (Hall : forall m st', P st' = false -> (forall s, (st' <= s)%nat -> (S s < st' + S m)%nat -> P s = false -> P (S s) = false) ->
                count_true (map P (seq (S st') m)) = 0%nat).
      { clear. induction m as [|m IHm]; intros st' E Hs; [reflexivity|]. cbn [seq map count_true].
        assert (E' : P (S st') = false) by (apply Hs; [lia | lia | exact E]). rewrite E'.
        rewrite IHm; [reflexivity | exact E' |]. intros s Hs1 Hs2. apply Hs; lia. }
      rewrite (Hall n st E Hstep). cbn [Nat.add]. split; [lia|]. split; [intros s Hs; lia|].
      intros _. rewrite Nat.add_0_r. exact E.
Qed.

(* --- the scalar steps of the breakpoint search (prototype Hp2.v, restated with q = M*M) --- *)
Lemma w_step (w a q s : R) : 0 <= s -> 0 <= q -> a <= w ->
  a <= (w * (1 + s * q) + q * a) / (1 + (s + 1) * q).
Proof.
  intros Hs Hq Ha. assert (0 < 1 + (s + 1) * q) by nra.
  assert (0 <= (w - a) * (s * q)) by (apply Rmult_le_pos; nra).
  apply (Rmult_le_reg_r (1 + (s + 1) * q)); [lra|]. unfold Rdiv. rewrite Rmult_assoc, Rinv_l by lra. nra.
Qed.
Lemma w_step_strict (w a q s : R) : 0 <= s -> 0 <= q -> w < a ->
  (w * (1 + s * q) + q * a) / (1 + (s + 1) * q) < a.
Proof.
  intros Hs Hq Ha. assert (0 < 1 + (s + 1) * q) by nra.
  assert (0 <= (a - w) * (s * q)) by (apply Rmult_le_pos; nra).
  apply (Rmult_lt_reg_r (1 + (s + 1) * q)); [lra|]. unfold Rdiv. rewrite Rmult_assoc, Rinv_l by lra. nra.
Qed.

Section Hier.
Variables (a : list R) (alpha M nv : R).
Hypothesis Hdesc : desc a.
Hypothesis Hnn : Forall (fun x => 0 <= x) a.
Hypothesis HM : 0 <= M.
Hypothesis Hnv : 0 < nv.

Definition A_ (i : nat) : R := nth i a 0.                       (* order statistics, 0 beyond the end *)
Definition C_ (s : nat) : R := rsum (firstn s a).                (* cumulative sums *)
Definition t_ (s : nat) : R := nv - alpha + M * C_ s.
Definition X_ (s : nat) : R := Rmax (1 - (alpha - M * C_ s) / nv) 0 / (1 + INR s * (M * M)).
Definition W_ (s : nat) : R := M * X_ s * nv.
Definition B_ (s : nat) : R := Rmax (t_ s) 0 / (1 + INR s * (M * M)).   (* = X_ s * nv = ||beta*|| *)

Lemma den_pos s : 0 < 1 + INR s * (M * M).
Proof. pose proof (pos_INR s). assert (0 <= INR s * (M * M)) by (apply Rmult_le_pos; nra). lra. Qed.
Lemma A_nonneg i : 0 <= A_ i. Proof. apply nonneg_nth, Hnn. Qed.
Lemma A_antitone i j : (i <= j)%nat -> A_ j <= A_ i.
Proof.
  intros Hij. unfold A_. destruct (Nat.lt_ge_cases j (length a)) as [Hj|Hj].
  - apply desc_nth; assumption.
  - rewrite (nth_overflow a 0 Hj). apply A_nonneg.
Qed.
Lemma C_S s : C_ (S s) = C_ s + A_ s. Proof. apply rsum_firstn_S. Qed.
Lemma t_S s : t_ (S s) = t_ s + M * A_ s. Proof. unfold t_. rewrite C_S. ring. Qed.
Lemma X_nv s : X_ s * nv = B_ s.
Proof.
  unfold X_, B_, t_. set (p := alpha - M * C_ s).
  assert (E : 1 - p / nv = (nv - p) / nv) by (field; lra).
  replace (nv - alpha + M * C_ s) with (nv - p) by (unfold p; ring).
  pose proof (den_pos s) as Hd.
  assert (Hm : Rmax (1 - p / nv) 0 * nv = Rmax (nv - p) 0).
  { rewrite E. assert (Hi : 0 < / nv) by (apply Rinv_0_lt_compat; lra).
    destruct (Rle_dec 0 (nv - p)) as [H|H].
    - assert (H' : 0 <= (nv - p) / nv) by (apply Rmult_le_pos; lra).
      rewrite (Rmax_left _ _ H), (Rmax_left _ _ H'). field. lra.
    - assert (H' : (nv - p) / nv <= 0).
      { assert (0 < (p - nv) * / nv) by (apply Rmult_lt_0_compat; lra). unfold Rdiv. lra. }
      rewrite (Rmax_right (nv - p) 0), (Rmax_right _ _ H') by lra. ring. }
  rewrite <- Hm. unfold Rdiv. ring.
Qed.
Lemma B_nonneg s : 0 <= B_ s.
Proof. unfold B_. apply Rmult_le_pos; [apply Rmax_r | apply Rlt_le, Rinv_0_lt_compat, den_pos]. Qed.
Lemma X_nonneg s : 0 <= X_ s.
Proof. unfold X_. apply Rmult_le_pos; [apply Rmax_r | apply Rlt_le, Rinv_0_lt_compat, den_pos]. Qed.
Lemma W_B s : W_ s = M * B_ s. Proof. unfold W_. rewrite <- X_nv. ring. Qed.
Lemma W_nonneg s : 0 <= W_ s. Proof. rewrite W_B. apply Rmult_le_pos; [exact HM | apply B_nonneg]. Qed.
Lemma B_den s : B_ s * (1 + INR s * (M * M)) = Rmax (t_ s) 0.
Proof. unfold B_. field. pose proof (den_pos s). lra. Qed.

(* lower_s <= w_s  implies  lower_{s+1} <= w_{s+1} : the predicate "lower > w" is true on a prefix only *)
Lemma step_up s : A_ s <= W_ s -> A_ (S s) <= W_ (S s).
Proof.
  intros H. pose proof (A_antitone s (S s) ltac:(lia)) as Hanti. pose proof (A_nonneg s) as Ha0.
  pose proof (A_nonneg (S s)) as Ha1. pose proof (W_nonneg (S s)) as Hw1.
  destruct (Rle_dec 0 (t_ s)) as [Ht|Ht].
  - assert (Ht1 : 0 <= t_ (S s)) by (rewrite t_S; assert (0 <= M * A_ s) by (apply Rmult_le_pos; lra); lra).
    pose proof (B_den s) as Hb. rewrite Rmax_left in Hb by exact Ht.
    assert (E : W_ (S s) = (W_ s * (1 + INR s * (M * M)) + M * M * A_ s) / (1 + (INR s + 1) * (M * M))).
    { rewrite !W_B. unfold B_ at 1. rewrite Rmax_left by exact Ht1. rewrite t_S, S_INR.
      rewrite Rmult_assoc, Hb. pose proof (den_pos (S s)) as Hd. rewrite S_INR in Hd. field. lra. }
    rewrite E. eapply Rle_trans; [exact Hanti|]. apply w_step; [apply pos_INR | nra | exact H].
  - assert (Hw : W_ s = 0). { rewrite W_B. unfold B_. rewrite Rmax_right by lra. unfold Rdiv. ring. }
    lra.
Qed.
(* w_s < lower_s  implies  w_{s+1} <= lower_s *)
Lemma step_down s : W_ s < A_ s -> W_ (S s) <= A_ s.
Proof.
  intros H. pose proof (A_nonneg s) as Ha0. pose proof (den_pos (S s)) as Hd. rewrite S_INR in Hd.
  pose proof (pos_INR s) as Hs.
  destruct (Rle_dec 0 (t_ s)) as [Ht|Ht].
  - assert (Ht1 : 0 <= t_ (S s)) by (rewrite t_S; assert (0 <= M * A_ s) by (apply Rmult_le_pos; lra); lra).
    pose proof (B_den s) as Hb. rewrite Rmax_left in Hb by exact Ht.
    assert (E : W_ (S s) = (W_ s * (1 + INR s * (M * M)) + M * M * A_ s) / (1 + (INR s + 1) * (M * M))).
    { rewrite !W_B. unfold B_ at 1. rewrite Rmax_left by exact Ht1. rewrite t_S, S_INR.
      rewrite Rmult_assoc, Hb. field. lra. }
    rewrite E. apply Rlt_le, w_step_strict; [exact Hs | nra | exact H].
  - destruct (Rle_dec 0 (t_ (S s))) as [Ht1|Ht1].
    + rewrite W_B. unfold B_. rewrite Rmax_left by exact Ht1. rewrite t_S, S_INR.
      apply (Rmult_le_reg_r (1 + (INR s + 1) * (M * M))); [lra|].
      replace (M * ((t_ s + M * A_ s) / (1 + (INR s + 1) * (M * M))) * (1 + (INR s + 1) * (M * M)))
        with (M * (t_ s + M * A_ s)) by (field; lra).
      assert (M * t_ s <= 0) by nra.
      assert (0 <= A_ s * (INR s * (M * M))) by (apply Rmult_le_pos; [lra | apply Rmult_le_pos; nra]).
      nra.
    + rewrite W_B. unfold B_. rewrite Rmax_right by lra. unfold Rdiv. rewrite Rmult_0_l, Rmult_0_r. exact Ha0.
Qed.

(* the index found by the search: idx = #{ s <= h : w_s < lower_s } *)
Definition Pb (s : nat) : bool := Rltb (W_ s) (A_ s).
Definition idx_ : nat := count_true (map Pb (seq 0 (S (length a)))).

Lemma idx_spec : (idx_ <= length a)%nat /\ (forall s, (s < idx_)%nat -> W_ s < A_ s) /\ A_ idx_ <= W_ idx_.
Proof.
  pose proof (count_prefix_from Pb (S (length a)) 0) as H. cbn zeta in H. fold idx_ in H.
  destruct H as (H1 & H2 & H3).
  { intros s _ _ E. unfold Pb in *. apply pRltb_false in E. apply pRltb_false. apply step_up, E. }
  assert (Hlast : Pb (length a) = false).
  { unfold Pb. apply pRltb_false. unfold A_. rewrite nth_overflow by lia. apply W_nonneg. }
  assert (Hle : (idx_ <= length a)%nat).
  { destruct (Nat.le_gt_cases idx_ (length a)) as [Hle|Hgt]; [exact Hle|].
    rewrite (H2 (length a)) in Hlast by lia. discriminate. }
  split; [exact Hle|]. split.
  - intros s Hs. apply pRltb_true. apply (H2 s). lia.
  - apply pRltb_false. apply (H3 ltac:(lia)).
Qed.

(* sum of positive parts above the found threshold *)
Lemma sum_pos_ge (w : R) (l : list R) : Forall (fun x => w <= x) l ->
  rsum (map (fun x => pos (x - w)) l) = rsum l - INR (length l) * w.
Proof.
  induction 1 as [|x l Hx _ IH]; [cbn [map length INR]; rewrite rsum_nil; ring|].
  cbn [map]. change (length (x :: l)) with (S (length l)). rewrite S_INR, !rsum_cons, IH, pos_of_nonneg by lra. ring.
Qed.
Lemma sum_pos_le (w : R) (l : list R) : Forall (fun x => x <= w) l -> rsum (map (fun x => pos (x - w)) l) = 0.
Proof.
  induction 1 as [|x l Hx _ IH]; [reflexivity|]. cbn [map]. rewrite rsum_cons, IH, pos_of_nonpos by lra. ring.
Qed.
Lemma sum_pos_at_idx : rsum (map (fun x => pos (x - W_ idx_)) a) = C_ idx_ - INR idx_ * W_ idx_.
Proof.
  destruct idx_spec as (Hle & Hlt & Hge). set (k := idx_) in *.
  rewrite <- (firstn_skipn k a) at 1. rewrite map_app, rsum_app.
  rewrite sum_pos_ge, sum_pos_le.
  - rewrite firstn_length_le by exact Hle. unfold C_. ring.
  - rewrite Forall_forall. intros x Hx. destruct (In_nth _ _ 0 Hx) as (i & Hi & <-).
    rewrite nth_skipn_plus. eapply Rle_trans; [apply (A_antitone k (k + i)); lia | exact Hge].
  - rewrite Forall_forall. intros x Hx. destruct (In_nth _ _ 0 Hx) as (i & Hi & <-).
    rewrite firstn_length_le in Hi by exact Hle. rewrite nth_firstn_lt by exact Hi.
    destruct k as [|k]; [lia|].
    eapply Rle_trans; [apply (step_down k), Hlt; lia|]. apply (A_antitone i k). lia.
Qed.

(* first-order optimality of b* = B_ idx_ for the one-dimensional convex problem *)
Lemma D_condition : forall b, 0 <= b ->
  0 <= (B_ idx_ - nv + alpha - M * rsum (map (fun x => pos (x - W_ idx_)) a)) * (b - B_ idx_).
Proof.
  intros b Hb. rewrite sum_pos_at_idx, W_B. set (k := idx_).
  pose proof (B_den k) as Hd. pose proof (B_nonneg k) as Hb0.
  assert (E : B_ k - nv + alpha - M * (C_ k - INR k * (M * B_ k)) = Rmax (t_ k) 0 - t_ k).
  { rewrite <- Hd. unfold t_. ring. }
  rewrite E. destruct (Rle_dec 0 (t_ k)) as [Ht|Ht].
  - rewrite Rmax_left by exact Ht. lra.
  - assert (Hz : B_ k = 0). { unfold B_. rewrite Rmax_right by lra. unfold Rdiv. ring. }
    rewrite Hz, Rmax_right by lra. nra.
Qed.
End Hier.

(* --- the model's row operator in closed form --- *)
Definition hclip (w t : R) : R := (if Rleb 0 t then 1 else 0 - 1) * Rmin (Rabs t) w.

Lemma soft_threshold0_nonneg x : 0 <= x -> soft_threshold Rops 0 x = x.
Proof.
  intros Hx. unfold soft_threshold, nsign, nneg. rewrite nmax_Rmax. cbn [nmul nsub nabs nltb n0 n1 Rops].
  rewrite Rabs_pos_eq by exact Hx. rewrite Rminus_0_r, Rmax_left by exact Hx.
  destruct (Rltb 0 x) eqn:E1; [ring|]. apply pRltb_false in E1. assert (Hx0 : x = 0) by lra. rewrite Hx0.
  destruct (Rltb 0 0); ring.
Qed.
Lemma cumsum_acc_length l : forall acc, length (cumsum_acc Rops acc l) = length l.
Proof. induction l as [|x l IH]; intros acc; cbn [cumsum_acc length]; [reflexivity | rewrite IH; reflexivity]. Qed.
Lemma cumsum_acc_nth l : forall acc s, (s < length l)%nat -> nth s (cumsum_acc Rops acc l) 0 = acc + rsum (firstn (S s) l).
Proof.
  induction l as [|x l IH]; intros acc s Hs; [cbn in Hs; lia|]. cbn [cumsum_acc nadd Rops].
  change (firstn (S s) (x :: l)) with (x :: firstn s l). rewrite rsum_cons.
  destruct s as [|s]; [cbn [nth firstn]; rewrite rsum_nil; lra|].
  cbn [nth]. rewrite IH by (cbn [length] in Hs; lia). lra.
Qed.
(* concatenate([zeros, cumsum(a)]) *)
Lemma cumsum_length l : length (0 :: np_cumsum Rops l) = S (length l).
Proof. destruct l as [|x l]; [reflexivity|]. cbn [np_cumsum length]. rewrite cumsum_acc_length. reflexivity. Qed.
Lemma cumsum_nth l : forall s, (s <= length l)%nat -> nth s (0 :: np_cumsum Rops l) 0 = rsum (firstn s l).
Proof.
  intros s Hs. destruct s as [|s]; [cbn [nth firstn]; rewrite rsum_nil; reflexivity|]. cbn [nth].
  destruct l as [|x l]; [cbn in Hs; lia|]. cbn [np_cumsum]. change (firstn (S s) (x :: l)) with (x :: firstn s l).
  rewrite rsum_cons. destruct s as [|s]; [cbn [nth firstn]; rewrite rsum_nil; lra|].
  cbn [nth]. rewrite cumsum_acc_nth by (cbn [length] in Hs; lia). reflexivity.
Qed.
Lemma sorted_abs_props u : let a := sort_desc Rops (map Rabs u) in
  desc a /\ Forall (fun x => 0 <= x) a /\ length a = length u /\ Permutation a (map Rabs u).
Proof.
  intros a. pose proof (sort_desc_perm (map Rabs u)) as Hp. fold a in Hp. split; [apply sort_desc_sorted|]. split.
  - eapply Permutation_Forall; [apply Permutation_sym, Hp|]. rewrite Forall_forall. intros x Hx.
    apply in_map_iff in Hx. destruct Hx as (t & <- & _). apply Rabs_pos.
  - split; [|exact Hp]. rewrite (Permutation_length Hp). apply map_length.
Qed.

Lemma hier_prox_row_closed v u alpha M : 0 <= M -> 0 < rnorm v ->
  let a := sort_desc Rops (map Rabs u) in
  let k := idx_ a alpha M (rnorm v) in
  hier_prox_row Rops v u alpha M = (map (Rmult (X_ a alpha M (rnorm v) k)) v, map (hclip (W_ a alpha M (rnorm v) k)) u).
Proof.
  intros HM Hnv a k. destruct (sorted_abs_props u) as (Hdesc & Hnn & Hlen & _). fold a in Hdesc, Hnn, Hlen.
  set (nv := rnorm v) in *.
  unfold hier_prox_row. rewrite norm2_rnorm. fold nv. cbn [nabs nsub nmul ndiv nadd nofnat n0 n1 nltb nleb Rops].
  fold a. rewrite <- Hlen.
  set (xs := map _ (combine (seq 0 (S (length a))) (0 :: np_cumsum Rops a))).
  set (ws := map (fun x => M * x * nv) xs).
  assert (Hxs_len : length xs = S (length a)).
  { unfold xs. rewrite map_length, combine_length, seq_length, cumsum_length. apply Nat.min_id. }
  assert (Hws_len : length ws = S (length a)) by (unfold ws; rewrite map_length; exact Hxs_len).
  assert (Hxs : forall s, (s <= length a)%nat -> nth s xs 0 = X_ a alpha M nv s).
  { intros s Hs. unfold xs. rewrite (nth_map_combine_seq _ 0 _ (S (length a))); [| apply cumsum_length | lia].
    cbn [fst snd Nat.add]. rewrite nmax_Rmax, cumsum_nth by exact Hs. reflexivity. }
  assert (Hws : forall s, (s <= length a)%nat -> nth s ws 0 = W_ a alpha M nv s).
  { intros s Hs. unfold ws. rewrite (nth_map_in _ _ 0 0) by (rewrite Hxs_len; lia). rewrite Hxs by exact Hs. reflexivity. }
  assert (Hidx : count_true (map (fun lw : R * R => Rltb (snd lw) (fst lw))
                    (combine (map (soft_threshold Rops 0) a ++ [0]) ws)) = k).
  { rewrite (map_combine_as_seq _ 0 0 _ _ (S (length a))); [| rewrite app_length, map_length; cbn [length]; lia | exact Hws_len].
    unfold k, idx_. f_equal. apply map_ext_in. intros i Hi. apply in_seq in Hi. cbn [fst snd]. unfold Pb.
    rewrite Hws by lia. f_equal. unfold A_.
    destruct (Nat.eq_dec i (length a)) as [->|Hne].
    - rewrite app_nth2 by (rewrite map_length; lia). rewrite map_length, Nat.sub_diag. cbn [nth].
      rewrite nth_overflow by lia. reflexivity.
    - rewrite app_nth1 by (rewrite map_length; lia). rewrite (nth_map_in _ _ 0 0) by lia.
      apply soft_threshold0_nonneg, nonneg_nth, Hnn. }
  rewrite Hidx.
  destruct (idx_spec a alpha M nv Hdesc Hnn HM Hnv) as (Hk & _ & _). fold k in Hk.
  rewrite Hxs, Hws by exact Hk. f_equal.
  apply map_ext. intros t. unfold hclip. rewrite nmin_Rmin, soft_threshold0_nonneg by apply Rabs_pos.
  unfold nneg. cbn [nsub n0 n1 Rops]. reflexivity.
Qed.

(* --- pointwise inequalities --- *)
Lemma pw_theta t x y : Rabs t <= y -> pos (Rabs x - y) * pos (Rabs x - y) <= (t - x) * (t - x).
Proof.
  intros H. destruct (pos_cases (Rabs x - y)) as [(Hp & ->)|(Hp & ->)];
    [|pose proof (Rle_0_sqr (t - x)) as Hs; unfold Rsqr in Hs; lra].
  unfold Rabs in *. destruct (Rcase_abs x), (Rcase_abs t); nra.
Qed.
Lemma pw_tangent a y y0 :
  pos (a - y) * pos (a - y) - pos (a - y0) * pos (a - y0) >= - 2 * (y - y0) * pos (a - y0).
Proof.
  destruct (pos_cases (a - y)) as [(H1 & ->)|(H1 & ->)], (pos_cases (a - y0)) as [(H2 & ->)|(H2 & ->)].
  - pose proof (Rle_0_sqr (y - y0)) as Hs. unfold Rsqr in Hs.
    replace ((a - y) * (a - y) - (a - y0) * (a - y0)) with ((y - y0) * (y - y0) - 2 * (y - y0) * (a - y0)) by ring. lra.
  - pose proof (Rle_0_sqr (a - y)) as Hs. unfold Rsqr in Hs. lra.
  - assert (0 <= (a - y0) * ((y - a) + (y - y0))) by (apply Rmult_le_pos; lra).
    replace (0 * 0 - (a - y0) * (a - y0)) with ((a - y0) * ((y - a) + (y - y0)) - 2 * (y - y0) * (a - y0)) by ring. lra.
  - lra.
Qed.
Lemma hclip_abs w t : 0 <= w -> Rabs (hclip w t) = Rmin (Rabs t) w.
Proof.
  intros Hw. unfold hclip. assert (Hm : 0 <= Rmin (Rabs t) w) by (apply Rmin_glb; [apply Rabs_pos | exact Hw]).
  destruct (Rleb 0 t).
  - rewrite Rmult_1_l. apply Rabs_pos_eq, Hm.
  - replace ((0 - 1) * Rmin (Rabs t) w) with (- Rmin (Rabs t) w) by ring. rewrite Rabs_Ropp. apply Rabs_pos_eq, Hm.
Qed.
Lemma pw_out w t : 0 <= w -> (hclip w t - t) * (hclip w t - t) = pos (Rabs t - w) * pos (Rabs t - w).
Proof.
  intros Hw. unfold hclip. destruct (Rleb 0 t) eqn:E.
  - apply pRleb_true in E. rewrite Rabs_pos_eq by exact E. unfold Rmin. destruct (Rle_dec t w).
    + rewrite pos_of_nonpos by lra. ring.
    + rewrite pos_of_nonneg by lra. ring.
  - apply pRleb_false in E. rewrite Rabs_left by exact E. unfold Rmin. destruct (Rle_dec (- t) w).
    + rewrite pos_of_nonpos by lra. ring.
    + rewrite pos_of_nonneg by lra. ring.
Qed.

(* --- list-level versions --- *)
Definition J_hier (alpha : R) (v u beta theta : list R) : R :=
  / 2 * sqnorm (lsub beta v) + / 2 * sqnorm (lsub theta u) + alpha * rnorm beta.
Definition feasible (M : R) (beta theta : list R) : Prop := Forall (fun t => Rabs t <= M * rnorm beta) theta.

Lemma dot_scale_self c w : dot (map (Rmult c) w) w = c * sqnorm w.
Proof.
  induction w as [|x w IH]; [cbn [map]; rewrite dot_nil_l, sqnorm_nil; lra|].
  cbn [map]. rewrite dot_cons, sqnorm_cons, IH. ring.
Qed.
Lemma theta_lower y : forall u theta, length theta = length u -> Forall (fun t => Rabs t <= y) theta ->
  rsum (map (fun x => pos (Rabs x - y) * pos (Rabs x - y)) u) <= sqnorm (lsub theta u).
Proof.
  induction u as [|x u IH]; intros [|t theta] Hl Hf; try discriminate Hl.
  - unfold lsub. cbn [combine map]. rewrite rsum_nil, sqnorm_nil. lra.
  - injection Hl as Hl. inversion Hf as [|? ? Ht Hf']; subst.
    unfold lsub in *. cbn [combine map]. rewrite rsum_cons, sqnorm_cons.
    pose proof (pw_theta t x y Ht). specialize (IH theta Hl Hf'). lra.
Qed.
Lemma theta_out w : 0 <= w -> forall u,
  sqnorm (lsub (map (hclip w) u) u) = rsum (map (fun x => pos (Rabs x - w) * pos (Rabs x - w)) u).
Proof.
  intros Hw. induction u as [|x u IH]; [reflexivity|].
  unfold lsub in *. cbn [combine map]. rewrite rsum_cons, sqnorm_cons, IH, pw_out by exact Hw. reflexivity.
Qed.
Lemma sum_tangent y y0 : forall u,
  rsum (map (fun x => pos (Rabs x - y) * pos (Rabs x - y)) u)
  - rsum (map (fun x => pos (Rabs x - y0) * pos (Rabs x - y0)) u)
  >= - 2 * (y - y0) * rsum (map (fun x => pos (Rabs x - y0)) u).
Proof.
  induction u as [|x u IH]; cbn [map]; rewrite ?rsum_nil, ?rsum_cons; [lra|].
  pose proof (pw_tangent (Rabs x) y y0). lra.
Qed.

Lemma hier_prox_feasible_optimal_gen : forall v u alpha M, 0 <= M -> 0 < rnorm v ->
  let '(bs, ts) := hier_prox_row Rops v u alpha M in
  feasible M bs ts /\
  forall beta theta, length beta = length v -> length theta = length u -> feasible M beta theta ->
    J_hier alpha v u bs ts <= J_hier alpha v u beta theta.
Proof.
  intros v u alpha M HM Hnv. rewrite (hier_prox_row_closed v u alpha M HM Hnv).
  destruct (sorted_abs_props u) as (Hdesc & Hnn & Hlen & Hperm).
  set (a := sort_desc Rops (map Rabs u)) in *. set (nv := rnorm v) in *. set (k := idx_ a alpha M nv).
  pose proof (X_nonneg a alpha M nv k) as Hx0. pose proof (W_nonneg a alpha M nv HM Hnv k) as Hw0.
  pose proof (X_nv a alpha M nv Hnv k) as HB. pose proof (W_B a alpha M nv Hnv k) as HWB.
  set (xs := X_ a alpha M nv k) in *. set (ws := W_ a alpha M nv k) in *. set (bst := B_ a alpha M nv k) in *.
  assert (Hnb : rnorm (map (Rmult xs) v) = bst) by (rewrite rnorm_scale by exact Hx0; exact HB).
  split.
  - unfold feasible. rewrite Hnb, Forall_forall. intros t Ht. apply in_map_iff in Ht. destruct Ht as (t0 & <- & _).
    rewrite hclip_abs by exact Hw0. rewrite <- HWB. apply Rmin_r.
  - intros beta theta Hlb Hlt Hfeas. unfold J_hier. rewrite Hnb.
    set (b := rnorm beta). pose proof (rnorm_nonneg beta) as Hb0. fold b in Hb0.
    (* value at the output *)
    rewrite (sqnorm_lsub (map (Rmult xs) v) v) by apply map_length.
    rewrite sqnorm_scale, dot_scale_self, (theta_out ws Hw0 u).
    (* lower bound for the competitor *)
    rewrite (sqnorm_lsub beta v Hlb).
    pose proof (cauchy_schwarz beta v) as Hcs. fold b nv in Hcs.
    pose proof (theta_lower (M * b) u theta Hlt Hfeas) as Hth.
    pose proof (sum_tangent (M * b) ws u) as Htan.
    pose proof (D_condition a alpha M nv Hdesc Hnn HM Hnv b Hb0) as HD. fold k bst ws in HD.
    assert (Hsum : rsum (map (fun x => pos (x - ws)) a) = rsum (map (fun x => pos (Rabs x - ws)) u)).
    { rewrite (rsum_perm _ _ (Permutation_map (fun x => pos (x - ws)) Hperm)), map_map. reflexivity. }
    rewrite Hsum in HD.
    pose proof (rnorm_sq beta) as Hsb. fold b in Hsb. pose proof (rnorm_sq v) as Hsv. fold nv in Hsv.
    rewrite <- Hsb, <- Hsv. rewrite HWB in Htan, HD |- *.
    set (S1 := rsum (map (fun x => pos (Rabs x - M * b) * pos (Rabs x - M * b)) u)) in *.
    set (S0 := rsum (map (fun x => pos (Rabs x - M * bst) * pos (Rabs x - M * bst)) u)) in *.
    set (P0 := rsum (map (fun x => pos (Rabs x - M * bst)) u)) in *.
    set (T := sqnorm (lsub theta u)) in *. set (dt := dot beta v) in *.
    assert (Hxb : xs * xs * (nv * nv) - 2 * (xs * (nv * nv)) + nv * nv = (bst - nv) * (bst - nv)) by (rewrite <- HB; ring).
    rewrite Hxb.
    assert (Hexp : (bst - nv + alpha - M * P0) * (b - bst)
                   = (bst - nv) * (b - bst) + alpha * (b - bst) - M * (b - bst) * P0) by ring.
    rewrite Hexp in HD.
    assert (Hsq : b * b - 2 * dt + nv * nv
                  = (bst - nv) * (bst - nv) + 2 * ((bst - nv) * (b - bst)) + (b - bst) * (b - bst) + 2 * (b * nv - dt)) by ring.
    rewrite Hsq.
    pose proof (Rle_0_sqr (b - bst)) as Hsq0. unfold Rsqr in Hsq0.
    assert (Htan' : S1 - S0 >= - 2 * (M * (b - bst) * P0)) by (replace (M * (b - bst)) with (M * b - M * bst) by ring; lra).
    set (X1 := (bst - nv) * (b - bst)) in *. set (X2 := M * (b - bst) * P0) in *.
    set (X3 := (b - bst) * (b - bst)) in *. set (X5 := (bst - nv) * (bst - nv)) in *. set (X6 := b * nv) in *.
    lra.
Qed.

(* ------------------------------------------------------------------------------------------------ *)
(* Part 3: matrices and the group wrappers *)
Lemma linear_prox_rows : forall W alpha j,
  nth j (linear_prox Rops W alpha) [] = linear_prox_row Rops (nth j W []) alpha.
Proof. intros W alpha j. unfold linear_prox. exact (map_nth (fun w => linear_prox_row Rops w alpha) W [] j). Qed.
Lemma mlp_prox_rows : forall V U alpha M j, length V = length U -> (j < length V)%nat ->
  (nth j (fst (mlp_prox Rops V U alpha M)) [], nth j (snd (mlp_prox Rops V U alpha M)) [])
  = hier_prox_row Rops (nth j V []) (nth j U []) alpha M.
Proof.
  intros V U alpha M j Hl Hj. unfold mlp_prox. cbn [fst snd]. rewrite !map_map.
  assert (Hc : (j < length (combine V U))%nat) by (rewrite combine_length, <- Hl, Nat.min_id; exact Hj).
  rewrite (nth_map_in _ _ ([], []) []), (nth_map_in _ _ ([], []) []) by exact Hc.
  rewrite combine_nth by exact Hl. cbn [fst snd]. symmetry. apply surjective_pairing.
Qed.

(* --- set_nth / scatter --- *)
Lemma set_nth_length {A} (x : A) : forall l i, length (set_nth i x l) = length l.
Proof. induction l as [|y l IH]; intros [|i]; cbn [set_nth length]; try reflexivity. rewrite IH. reflexivity. Qed.
Lemma nth_set_nth_eq {A} (x d : A) : forall l i, (i < length l)%nat -> nth i (set_nth i x l) d = x.
Proof. induction l as [|y l IH]; intros [|i] Hi; cbn [length] in Hi; try lia; cbn [set_nth nth]; [reflexivity | apply IH; lia]. Qed.
Lemma nth_set_nth_neq {A} (x d : A) : forall l i j, i <> j -> nth j (set_nth i x l) d = nth j l d.
Proof.
  induction l as [|y l IH]; intros [|i] [|j] Hij; cbn [set_nth nth]; try reflexivity; try congruence.
  apply IH. congruence.
Qed.
Lemma scatter_length {A} : forall g (rows : list A) acc, length (scatter g rows acc) = length acc.
Proof.
  unfold scatter. induction g as [|i g IH]; intros [|r rows] acc; cbn [combine fold_left]; try reflexivity.
  rewrite IH. apply set_nth_length.
Qed.
Lemma scatter_notin {A} : forall g (rows : list A) acc i, ~ In i g -> nth i (scatter g rows acc) None = nth i acc None.
Proof.
  unfold scatter. induction g as [|i0 g IH]; intros [|r rows] acc i Hi; cbn [combine fold_left]; try reflexivity.
  rewrite IH by (intros H; apply Hi; right; exact H). cbn [fst snd]. apply nth_set_nth_neq. intros ->. apply Hi. left. reflexivity.
Qed.
Lemma scatter_in {A} : forall g (rows : list A) acc, NoDup g -> length rows = length g ->
  Forall (fun i => (i < length acc)%nat) g ->
  map (fun i => nth i (scatter g rows acc) None) g = map Some rows.
Proof.
  induction g as [|i0 g IH]; intros [|r rows] acc Hnd Hl Hlt; try discriminate Hl; [reflexivity|].
  injection Hl as Hl. inversion Hnd as [|? ? Hni Hnd']; subst. inversion Hlt as [|? ? Hi0 Hlt']; subst.
  cbn [map]. f_equal.
  - change (scatter (i0 :: g) (r :: rows) acc) with (scatter g rows (set_nth i0 (Some r) acc)).
    rewrite scatter_notin by exact Hni. apply nth_set_nth_eq, Hi0.
  - change (scatter (i0 :: g) (r :: rows) acc) with (scatter g rows (set_nth i0 (Some r) acc)).
    apply IH; [exact Hnd' | exact Hl |]. rewrite set_nth_length. exact Hlt'.
Qed.

(* --- the loop over the groups --- *)
Definition gstep {A} (F : list nat -> list A) (acc : list (option A)) (g : list nat) := scatter g (F g) acc.
Lemma gfold_length {A} (F : list nat -> list A) : forall groups init, length (fold_left (gstep F) groups init) = length init.
Proof. induction groups as [|g groups IH]; intros init; cbn [fold_left]; [reflexivity|]. rewrite IH. apply scatter_length. Qed.
Lemma gfold_notin {A} (F : list nat -> list A) : forall groups init i, ~ In i (concat groups) ->
  nth i (fold_left (gstep F) groups init) None = nth i init None.
Proof.
  induction groups as [|g groups IH]; intros init i Hi; cbn [fold_left]; [reflexivity|].
  cbn [concat] in Hi. rewrite IH by (intros H; apply Hi, in_or_app; right; exact H).
  apply scatter_notin. intros H. apply Hi, in_or_app. left. exact H.
Qed.
Lemma nodup_app_inv {A} : forall (l1 l2 : list A), NoDup (l1 ++ l2) ->
  NoDup l1 /\ NoDup l2 /\ (forall x, In x l1 -> ~ In x l2).
Proof.
  induction l1 as [|x l1 IH]; intros l2 H; cbn [app] in H.
  - split; [constructor|]. split; [exact H|]. intros x [].
  - inversion H as [|? ? Hni Hnd]; subst. destruct (IH l2 Hnd) as (H1 & H2 & H3). split.
    + constructor; [|exact H1]. intros Hin. apply Hni, in_or_app. left. exact Hin.
    + split; [exact H2|]. intros y [<-|Hy]; [intros Hin; apply Hni, in_or_app; right; exact Hin | apply H3, Hy].
Qed.
Lemma gfold_in {A} (F : list nat -> list A) : forall groups init, NoDup (concat groups) ->
  (forall g, In g groups -> length (F g) = length g) ->
  Forall (fun i => (i < length init)%nat) (concat groups) ->
  forall g, In g groups -> map (fun i => nth i (fold_left (gstep F) groups init) None) g = map Some (F g).
Proof.
  induction groups as [|g0 groups IH]; intros init Hnd HF Hlt g Hg; [destruct Hg|].
  cbn [concat] in Hnd, Hlt. destruct (nodup_app_inv _ _ Hnd) as (Hnd0 & Hnd1 & Hdisj).
  apply Forall_app in Hlt. destruct Hlt as (Hlt0 & Hlt1). cbn [fold_left].
  destruct (list_eq_dec Nat.eq_dec g g0) as [->|Hne].
  - rewrite <- (scatter_in g0 (F g0) init Hnd0 (HF g0 (or_introl eq_refl)) Hlt0).
    apply map_ext_in. intros i Hi. apply gfold_notin. apply Hdisj, Hi.
  - destruct Hg as [Heq|Hg]; [congruence|].
    apply IH; [exact Hnd1 | intros g' Hg'; apply HF; right; exact Hg' | | exact Hg].
    unfold gstep. rewrite scatter_length. exact Hlt1.
Qed.

(* --- flatten / unflatten --- *)
Lemma firstn_app_exact {A} : forall (l1 l2 : list A), firstn (length l1) (l1 ++ l2) = l1.
Proof. induction l1 as [|x l1 IH]; intros l2; cbn [length firstn app]; [reflexivity | rewrite IH; reflexivity]. Qed.
Lemma skipn_app_exact {A} : forall (l1 l2 : list A), skipn (length l1) (l1 ++ l2) = l2.
Proof. induction l1 as [|x l1 IH]; intros l2; cbn [length skipn app]; [reflexivity | apply IH]. Qed.
Lemma unflatten_length {A} : forall n h (l : list A), length (unflatten n h l) = n.
Proof. induction n as [|n IH]; intros h l; cbn [unflatten length]; [reflexivity | rewrite IH; reflexivity]. Qed.
Lemma unflatten_concat {A} h : forall (rows : list (list A)), Forall (fun r => length r = h) rows ->
  unflatten (length rows) h (concat rows) = rows.
Proof.
  induction 1 as [|r rows Hr _ IH]; [reflexivity|]. cbn [length unflatten concat].
  rewrite <- Hr, firstn_app_exact, skipn_app_exact. rewrite Hr, IH. reflexivity.
Qed.
Lemma unflatten_map {A B} (f : A -> B) : forall n h (l : list A),
  unflatten n h (map f l) = map (map f) (unflatten n h l).
Proof. induction n as [|n IH]; intros h l; cbn [unflatten map]; [reflexivity|]. rewrite firstn_map, skipn_map, IH. reflexivity. Qed.
Lemma concat_unflatten {A} : forall n h (l : list A), length l = (n * h)%nat -> concat (unflatten n h l) = l.
Proof.
  induction n as [|n IH]; intros h l Hl; cbn [unflatten concat].
  - destruct l; [reflexivity | discriminate Hl].
  - rewrite IH; [apply firstn_skipn|]. rewrite skipn_length, Hl. cbn [Nat.mul]. lia.
Qed.
Lemma concat_length_uniform {A} h : forall (rows : list (list A)), Forall (fun r => length r = h) rows ->
  length (concat rows) = (length rows * h)%nat.
Proof. induction 1 as [|r rows Hr _ IH]; [reflexivity|]. cbn [concat length Nat.mul]. rewrite app_length, IH, Hr. reflexivity. Qed.
Lemma gather_length {A} (W : list (list A)) g : length (gather W g) = length g.
Proof. apply map_length. Qed.
Lemma gather_uniform {A} (W : list (list A)) h g : Forall (fun r => length r = h) W ->
  Forall (fun i => (i < length W)%nat) g -> Forall (fun r => length r = h) (gather W g).
Proof.
  intros HW Hg. unfold gather. rewrite Forall_forall in *. intros r Hr. apply in_map_iff in Hr.
  destruct Hr as (i & <- & Hi). apply HW, nth_In, Hg, Hi.
Qed.
Lemma ncols_uniform {A} (W : list (list A)) h g : Forall (fun r => length r = h) W ->
  Forall (fun i => (i < length W)%nat) g -> forall s : list A,
  unflatten (length g) (ncols W) s = unflatten (length g) h s.
Proof.
  intros HW Hg s. destruct g as [|i g]; [reflexivity|]. inversion Hg as [|? ? Hi _]; subst.
  destruct W as [|r W]; [cbn in Hi; lia|]. inversion HW as [|? ? Hr _]; subst. reflexivity.
Qed.

Definition groups_wf (d : nat) (groups : list (list nat)) : Prop :=
  NoDup (concat groups) /\ Forall (fun i => (i < d)%nat) (concat groups).
Lemma groups_wf_in d groups g : groups_wf d groups -> In g groups -> NoDup g /\ Forall (fun i => (i < d)%nat) g.
Proof.
  intros (Hnd & Hlt) Hg. apply in_split in Hg. destruct Hg as (l1 & l2 & ->).
  rewrite concat_app in Hnd, Hlt. cbn [concat] in Hnd, Hlt.
  apply nodup_app_inv in Hnd. destruct Hnd as (_ & Hnd & _). apply nodup_app_inv in Hnd. destruct Hnd as (Hnd & _ & _).
  apply Forall_app in Hlt. destruct Hlt as (_ & Hlt). apply Forall_app in Hlt. destruct Hlt as (Hlt & _).
  split; assumption.
Qed.
Lemma groups_ok_forallb d groups : Forall (fun i => (i < d)%nat) (concat groups) -> forallb (group_ok d) groups = true.
Proof.
  induction groups as [|g groups IH]; intros H; [reflexivity|]. cbn [concat] in H. apply Forall_app in H.
  destruct H as (Hg & Hr). cbn [forallb]. rewrite IH by exact Hr. rewrite andb_true_r.
  unfold group_ok. apply forallb_forall. intros i Hi. rewrite Forall_forall in Hg. apply Nat.ltb_lt, Hg, Hi.
Qed.
Lemma nth_repeat_none {A} n i : nth i (repeat (@None A) n) None = None.
Proof. revert i; induction n as [|n IH]; intros [|i]; cbn [repeat nth]; try reflexivity. apply IH. Qed.

(* group lasso with groups: the rows of a group are the row operator applied to their concatenation *)
Lemma group_linear_spec : forall groups W alpha h,
  Forall (fun r => length r = h) W -> groups_wf (length W) groups ->
  exists R, group_linear_prox Rops groups W alpha = Some R /\ length R = length W /\
    (forall g, In g groups ->
       let star := linear_prox_row Rops (flatten (gather W g)) alpha in
       map (fun i => nth i R None) g = map Some (unflatten (length g) h star) /\
       flatten (unflatten (length g) h star) = star /\
       exists c, forall i, In i g -> nth i R None = Some (map (Rmult c) (nth i W []))) /\
    (forall i, ~ In i (concat groups) -> nth i R None = None).
Proof.
  intros groups W alpha h HW Hwf. pose proof Hwf as (Hnd & Hlt).
  unfold group_linear_prox. rewrite (groups_ok_forallb _ _ Hlt).
  set (F := fun g => unflatten (length g) (ncols W) (linear_prox_row Rops (flatten (gather W g)) alpha)).
  change (fold_left _ groups (repeat None (length W))) with (fold_left (gstep F) groups (repeat None (length W))).
  eexists. split; [reflexivity|]. split; [rewrite gfold_length; apply repeat_length|]. split.
  - intros g Hg. set (star := linear_prox_row Rops (flatten (gather W g)) alpha).
    destruct (groups_wf_in _ _ _ Hwf Hg) as (Hndg & Hltg).
    pose proof (gather_uniform W h g HW Hltg) as Hu.
    assert (HFg : F g = unflatten (length g) h star) by (unfold F; apply (ncols_uniform W h g HW Hltg)).
    assert (Hmain : map (fun i => nth i (fold_left (gstep F) groups (repeat None (length W))) None) g = map Some (F g)).
    { apply gfold_in; [exact Hnd | intros g' _; unfold F; apply unflatten_length | rewrite repeat_length; exact Hlt | exact Hg]. }
    split; [rewrite <- HFg; exact Hmain|]. split.
    + unfold flatten. apply concat_unflatten. unfold star. rewrite linear_prox_row_scale, map_length.
      unfold flatten. rewrite (concat_length_uniform h _ Hu), gather_length. reflexivity.
    + exists (lasso_factor (flatten (gather W g)) alpha). apply map_ext_in_iff.
      rewrite Hmain, HFg. unfold star. rewrite linear_prox_row_scale, unflatten_map. unfold flatten.
      rewrite <- (gather_length W g) at 1. rewrite (unflatten_concat h _ Hu). unfold gather. rewrite !map_map. reflexivity.
  - intros i Hi. rewrite gfold_notin by exact Hi. apply nth_repeat_none.
Qed.

(* the hierarchical operator always has the shape (x . v, clip_w u) *)
Lemma hier_prox_row_shape v u alpha M : exists x w,
  hier_prox_row Rops v u alpha M = (map (Rmult x) v, map (hclip w) u).
Proof.
  unfold hier_prox_row. cbn [nmul nabs nleb n0 n1 Rops]. eexists. eexists. f_equal.
  apply map_ext. intros t. unfold hclip. rewrite nmin_Rmin, soft_threshold0_nonneg by apply Rabs_pos.
  unfold nneg. cbn [nsub n0 n1 Rops]. reflexivity.
Qed.
Lemma hier_prox_row_lengths v u alpha M :
  length (fst (hier_prox_row Rops v u alpha M)) = length v /\ length (snd (hier_prox_row Rops v u alpha M)) = length u.
Proof. destruct (hier_prox_row_shape v u alpha M) as (x & w & ->). cbn [fst snd]. rewrite !map_length. split; reflexivity. Qed.

Lemma gfold_pair {A} (F1 F2 : list nat -> list A) : forall groups i1 i2,
  fold_left (fun acc g => (scatter g (F1 g) (fst acc), scatter g (F2 g) (snd acc))) groups (i1, i2)
  = (fold_left (gstep F1) groups i1, fold_left (gstep F2) groups i2).
Proof. induction groups as [|g groups IH]; intros i1 i2; cbn [fold_left fst snd]; [reflexivity | apply IH]. Qed.

Lemma group_mlp_spec : forall groups V U alpha M hv hu, length V = length U ->
  Forall (fun r => length r = hv) V -> Forall (fun r => length r = hu) U -> groups_wf (length V) groups ->
  exists RV RU, group_mlp_prox Rops groups V U alpha M = Some (RV, RU) /\
    length RV = length V /\ length RU = length U /\
    (forall g, In g groups ->
       let star := hier_prox_row Rops (flatten (gather V g)) (flatten (gather U g)) alpha M in
       map (fun i => nth i RV None) g = map Some (unflatten (length g) hv (fst star)) /\
       map (fun i => nth i RU None) g = map Some (unflatten (length g) hu (snd star)) /\
       flatten (unflatten (length g) hv (fst star)) = fst star /\
       flatten (unflatten (length g) hu (snd star)) = snd star /\
       exists x w, forall i, In i g ->
         nth i RV None = Some (map (Rmult x) (nth i V [])) /\ nth i RU None = Some (map (hclip w) (nth i U []))) /\
    (forall i, ~ In i (concat groups) -> nth i RV None = None /\ nth i RU None = None).
Proof.
  intros groups V U alpha M hv hu HVU HV HU Hwf. pose proof Hwf as (Hnd & Hlt).
  assert (HwfU : groups_wf (length U) groups) by (rewrite <- HVU; exact Hwf). pose proof HwfU as (_ & HltU).
  unfold group_mlp_prox.
  assert (Hok : forallb (fun g => group_ok (length V) g && group_ok (length U) g) groups = true).
  { rewrite <- HVU. pose proof (groups_ok_forallb _ _ Hlt) as H. rewrite forallb_forall in *. intros g Hg.
    rewrite (H g Hg). reflexivity. }
  rewrite Hok.
  set (star := fun g => hier_prox_row Rops (flatten (gather V g)) (flatten (gather U g)) alpha M).
  set (F1 := fun g => unflatten (length g) (ncols V) (fst (star g))).
  set (F2 := fun g => unflatten (length g) (ncols U) (snd (star g))).
  change (fold_left _ groups (repeat None (length V), repeat None (length U)))
    with (fold_left (fun acc g => (scatter g (F1 g) (fst acc), scatter g (F2 g) (snd acc))) groups
            (repeat None (length V), repeat None (length U))).
  rewrite gfold_pair. eexists. eexists. split; [reflexivity|].
  split; [rewrite gfold_length; apply repeat_length|]. split; [rewrite gfold_length; apply repeat_length|]. split.
  - intros g Hg. change (hier_prox_row Rops (flatten (gather V g)) (flatten (gather U g)) alpha M) with (star g).
    destruct (groups_wf_in _ _ _ Hwf Hg) as (Hndg & HltgV). destruct (groups_wf_in _ _ _ HwfU Hg) as (_ & HltgU).
    pose proof (gather_uniform V hv g HV HltgV) as HuV. pose proof (gather_uniform U hu g HU HltgU) as HuU.
    assert (HF1 : F1 g = unflatten (length g) hv (fst (star g))) by (unfold F1; apply (ncols_uniform V hv g HV HltgV)).
    assert (HF2 : F2 g = unflatten (length g) hu (snd (star g))) by (unfold F2; apply (ncols_uniform U hu g HU HltgU)).
    assert (Hm1 : map (fun i => nth i (fold_left (gstep F1) groups (repeat None (length V))) None) g = map Some (F1 g)).
    { apply gfold_in; [exact Hnd | intros g' _; unfold F1; apply unflatten_length | rewrite repeat_length; exact Hlt | exact Hg]. }
    assert (Hm2 : map (fun i => nth i (fold_left (gstep F2) groups (repeat None (length U))) None) g = map Some (F2 g)).
    { apply gfold_in; [exact Hnd | intros g' _; unfold F2; apply unflatten_length | rewrite repeat_length; exact HltU | exact Hg]. }
    destruct (hier_prox_row_lengths (flatten (gather V g)) (flatten (gather U g)) alpha M) as (Hl1 & Hl2).
    fold (star g) in Hl1, Hl2.
    split; [rewrite <- HF1; exact Hm1|]. split; [rewrite <- HF2; exact Hm2|]. split; [|split].
    + unfold flatten at 1. apply concat_unflatten. rewrite Hl1. unfold flatten.
      rewrite (concat_length_uniform hv _ HuV), gather_length. reflexivity.
    + unfold flatten at 1. apply concat_unflatten. rewrite Hl2. unfold flatten.
      rewrite (concat_length_uniform hu _ HuU), gather_length. reflexivity.
    + destruct (hier_prox_row_shape (flatten (gather V g)) (flatten (gather U g)) alpha M) as (x & w & Hsh).
      fold (star g) in Hsh. exists x, w.
      assert (E1 : forall i, In i g -> nth i (fold_left (gstep F1) groups (repeat None (length V))) None
                                      = Some (map (Rmult x) (nth i V []))).
      { apply map_ext_in_iff. rewrite Hm1, HF1, Hsh. cbn [fst]. rewrite unflatten_map. unfold flatten.
        rewrite <- (gather_length V g) at 1. rewrite (unflatten_concat hv _ HuV). unfold gather. rewrite !map_map. reflexivity. }
      assert (E2 : forall i, In i g -> nth i (fold_left (gstep F2) groups (repeat None (length U))) None
                                      = Some (map (hclip w) (nth i U []))).
      { apply map_ext_in_iff. rewrite Hm2, HF2, Hsh. cbn [snd]. rewrite unflatten_map. unfold flatten.
        rewrite <- (gather_length U g) at 1. rewrite (unflatten_concat hu _ HuU). unfold gather. rewrite !map_map. reflexivity. }
      intros i Hi. split; [apply E1, Hi | apply E2, Hi].
  - intros i Hi. rewrite !gfold_notin by exact Hi. split; apply nth_repeat_none.
Qed.

(* uniqueness as a corollary of the strong-convexity inequality *)
Lemma lsub_zero_eq : forall a b : list R, length a = length b -> sqnorm (lsub a b) = 0 -> a = b.
Proof.
  induction a as [|x a IH]; intros [|y b] Hl H; try discriminate Hl; [reflexivity|].
  injection Hl as Hl. unfold lsub in *. cbn [combine map] in H. rewrite sqnorm_cons in H.
  pose proof (sqnorm_nonneg (map (fun '(x0, y0) => x0 - y0) (combine a b))) as Hn.
  pose proof (Rle_0_sqr (x - y)) as Hs. unfold Rsqr in Hs.
  assert (Hx : (x - y) * (x - y) = 0) by lra. assert (Hr : sqnorm (map (fun '(x0, y0) => x0 - y0) (combine a b)) = 0) by lra.
  f_equal; [apply Rsqr_0_uniq in Hx; lra | apply IH; assumption].
Qed.
Lemma group_lasso_minimiser_unique : forall w z alpha, 0 <= alpha -> length z = length w ->
  J_lasso alpha w z <= J_lasso alpha w (linear_prox_row Rops w alpha) -> z = linear_prox_row Rops w alpha.
Proof.
  intros w z alpha Ha Hl Hle. pose proof (group_lasso_optimal_unique w z alpha Ha Hl) as H.
  pose proof (sqnorm_nonneg (lsub z (linear_prox_row Rops w alpha))) as Hn.
  apply lsub_zero_eq; [rewrite linear_prox_row_scale, map_length; exact Hl | lra].
Qed.
Lemma hier_prox_feasible_optimal : forall v u alpha M, 0 <= alpha -> 0 <= M -> 0 < rnorm v ->
  let '(bs, ts) := hier_prox_row Rops v u alpha M in
  feasible M bs ts /\
  forall beta theta, length beta = length v -> length theta = length u -> feasible M beta theta ->
    J_hier alpha v u bs ts <= J_hier alpha v u beta theta.
Proof. intros v u alpha M _. apply hier_prox_feasible_optimal_gen. Qed.
