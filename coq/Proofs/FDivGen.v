(* Static tie between the hand-written model of the f-divergence GEMINIs (Model/Gemini.v) and the source:
   Gen/FDiv.v is regenerated on every build by translator/tr_fdiv.py from the numpy code of
   gemclus/gemini/_fdivergences.py (KLGEMINI, TVGEMINI, HellingerGEMINI, ChiSquareGEMINI .evaluate).
   Part 1: every generated definition equals the model, for ALL number systems (any NumOps T: reals, IEEE
           doubles, option R ...) and all inputs; gradients pointwise on in-range indices.  Every proof is
           `reflexivity`: the generated term and the model are convertible (same operations, same grouping;
           they differ only by let/definition unfolding and bound-variable names).  No equality is stated
           over R only.  If one of these stops compiling, the code and the model no longer compute the same
           expression (or group it differently: then equality over floats is genuinely lost).
   Part 2: the C01 / C02 theorems restated on the regenerated definitions (instance Rops). *)
From Coq Require Import Reals Lra Lia.
From Coquelicot Require Import Coquelicot.
From GV Require Import Common.Num Common.NumR Model.Gemini Gen.FDiv Proofs.RSumLib Proofs.GeminiDefs
  Proofs.GeminiKL Proofs.GeminiTV Proofs.GeminiHellinger Proofs.GeminiChi2.

(* ---------------------------------------------------------------------------------------------------- *)
(* generic extensionality of the structural sum (any number system), for equalities up to in-range indices *)
Lemma bsum_ext : forall T (o : NumOps T) n (f g : nat -> T),
  (forall i, (i < n)%nat -> f i = g i) -> bsum o n f = bsum o n g.
Proof.
  intros T o n f g. induction n as [|n IH]; intros H; [reflexivity|].
  cbn [bsum]. rewrite IH by (intros i Hi; apply H; lia). rewrite (H n) by lia. reflexivity.
Qed.
Lemma bsum_ext2 : forall T (o : NumOps T) n m (f g : nat -> nat -> T),
  (forall i j, (i < n)%nat -> (j < m)%nat -> f i j = g i j) ->
  bsum o n (fun i => bsum o m (f i)) = bsum o n (fun i => bsum o m (g i)).
Proof. intros T o n m f g H. apply bsum_ext. intros i Hi. apply bsum_ext. intros j Hj. apply H; assumption. Qed.

(* ---------------------------------------------------------------------------------------------------- *)
(* Part 1: generated = model, all NumOps.  score = evaluate(..., return_grad=False); gscore / grad = the two
   components of evaluate(..., return_grad=True). *)

(* KLGEMINI *)
Lemma gen_kl_score_ova_eq : forall T (o : NumOps T) eps n K Y,
  gen_kl_score_ova o eps n K Y = kl_score o eps n K Y false.
Proof. intros. reflexivity. Qed.
Lemma gen_kl_gscore_ova_eq : forall T (o : NumOps T) eps n K Y,
  gen_kl_gscore_ova o eps n K Y = kl_score o eps n K Y false.
Proof. intros. reflexivity. Qed.
Lemma gen_kl_grad_ova_eq : forall T (o : NumOps T) eps n K Y i k, (i < n)%nat -> (k < K)%nat ->
  gen_kl_grad_ova o eps n K Y i k = kl_grad o eps n Y false i k.
Proof. intros. reflexivity. Qed.
Lemma gen_kl_score_ovo_eq : forall T (o : NumOps T) eps n K Y,
  gen_kl_score_ovo o eps n K Y = kl_score o eps n K Y true.
Proof. intros. reflexivity. Qed.
Lemma gen_kl_gscore_ovo_eq : forall T (o : NumOps T) eps n K Y,
  gen_kl_gscore_ovo o eps n K Y = kl_score o eps n K Y true.
Proof. intros. reflexivity. Qed.
Lemma gen_kl_grad_ovo_eq : forall T (o : NumOps T) eps n K Y i k, (i < n)%nat -> (k < K)%nat ->
  gen_kl_grad_ovo o eps n K Y i k = kl_grad o eps n Y true i k.
Proof. intros. reflexivity. Qed.

(* TVGEMINI *)
Lemma gen_tv_score_ova_eq : forall T (o : NumOps T) eps n K Y,
  gen_tv_score_ova o eps n K Y = tv_score o eps n K Y false.
Proof. intros. reflexivity. Qed.
Lemma gen_tv_gscore_ova_eq : forall T (o : NumOps T) eps n K Y,
  gen_tv_gscore_ova o eps n K Y = tv_score o eps n K Y false.
Proof. intros. reflexivity. Qed.
Lemma gen_tv_grad_ova_eq : forall T (o : NumOps T) eps n K Y i k, (i < n)%nat -> (k < K)%nat ->
  gen_tv_grad_ova o eps n K Y i k = tv_grad o eps n K Y false i k.
Proof. intros. reflexivity. Qed.
Lemma gen_tv_score_ovo_eq : forall T (o : NumOps T) eps n K Y,
  gen_tv_score_ovo o eps n K Y = tv_score o eps n K Y true.
Proof. intros. reflexivity. Qed.
Lemma gen_tv_gscore_ovo_eq : forall T (o : NumOps T) eps n K Y,
  gen_tv_gscore_ovo o eps n K Y = tv_score o eps n K Y true.
Proof. intros. reflexivity. Qed.
Lemma gen_tv_grad_ovo_eq : forall T (o : NumOps T) eps n K Y i k, (i < n)%nat -> (k < K)%nat ->
  gen_tv_grad_ovo o eps n K Y i k = tv_grad o eps n K Y true i k.
Proof. intros. reflexivity. Qed.

(* HellingerGEMINI *)
Lemma gen_he_score_ova_eq : forall T (o : NumOps T) eps n K Y,
  gen_he_score_ova o eps n K Y = he_score o eps n K Y false.
Proof. intros. reflexivity. Qed.
Lemma gen_he_gscore_ova_eq : forall T (o : NumOps T) eps n K Y,
  gen_he_gscore_ova o eps n K Y = he_score o eps n K Y false.
Proof. intros. reflexivity. Qed.
Lemma gen_he_grad_ova_eq : forall T (o : NumOps T) eps n K Y i k, (i < n)%nat -> (k < K)%nat ->
  gen_he_grad_ova o eps n K Y i k = he_grad o eps n K Y false i k.
Proof. intros. reflexivity. Qed.
Lemma gen_he_score_ovo_eq : forall T (o : NumOps T) eps n K Y,
  gen_he_score_ovo o eps n K Y = he_score o eps n K Y true.
Proof. intros. reflexivity. Qed.
Lemma gen_he_gscore_ovo_eq : forall T (o : NumOps T) eps n K Y,
  gen_he_gscore_ovo o eps n K Y = he_score o eps n K Y true.
Proof. intros. reflexivity. Qed.
Lemma gen_he_grad_ovo_eq : forall T (o : NumOps T) eps n K Y i k, (i < n)%nat -> (k < K)%nat ->
  gen_he_grad_ovo o eps n K Y i k = he_grad o eps n K Y true i k.
Proof. intros. reflexivity. Qed.

(* ChiSquareGEMINI *)
Lemma gen_chi_score_ova_eq : forall T (o : NumOps T) eps n K Y,
  gen_chi_score_ova o eps n K Y = chi_score o eps n K Y false.
Proof. intros. reflexivity. Qed.
Lemma gen_chi_gscore_ova_eq : forall T (o : NumOps T) eps n K Y,
  gen_chi_gscore_ova o eps n K Y = chi_score o eps n K Y false.
Proof. intros. reflexivity. Qed.
Lemma gen_chi_grad_ova_eq : forall T (o : NumOps T) eps n K Y i k, (i < n)%nat -> (k < K)%nat ->
  gen_chi_grad_ova o eps n K Y i k = chi_grad o eps n K Y false i k.
Proof. intros. reflexivity. Qed.
Lemma gen_chi_score_ovo_eq : forall T (o : NumOps T) eps n K Y,
  gen_chi_score_ovo o eps n K Y = chi_score o eps n K Y true.
Proof. intros. reflexivity. Qed.
Lemma gen_chi_gscore_ovo_eq : forall T (o : NumOps T) eps n K Y,
  gen_chi_gscore_ovo o eps n K Y = chi_score o eps n K Y true.
Proof. intros. reflexivity. Qed.
Lemma gen_chi_grad_ovo_eq : forall T (o : NumOps T) eps n K Y i k, (i < n)%nat -> (k < K)%nat ->
  gen_chi_grad_ovo o eps n K Y i k = chi_grad o eps n K Y true i k.
Proof. intros. reflexivity. Qed.

(* ---------------------------------------------------------------------------------------------------- *)
(* the generated definitions selected by the flag, and their equality with the model *)
Definition gen_kl_score {T : Type} (o : NumOps T) (eps : T) (n K : nat) (Y : nat -> nat -> T) (ovo : bool) : T :=
  if ovo then gen_kl_score_ovo o eps n K Y else gen_kl_score_ova o eps n K Y.
Definition gen_kl_gscore {T : Type} (o : NumOps T) (eps : T) (n K : nat) (Y : nat -> nat -> T) (ovo : bool) : T :=
  if ovo then gen_kl_gscore_ovo o eps n K Y else gen_kl_gscore_ova o eps n K Y.
Definition gen_kl_grad {T : Type} (o : NumOps T) (eps : T) (n K : nat) (Y : nat -> nat -> T) (ovo : bool) (i k : nat) : T :=
  if ovo then gen_kl_grad_ovo o eps n K Y i k else gen_kl_grad_ova o eps n K Y i k.
Lemma gen_kl_score_eq : forall T (o : NumOps T) eps n K Y ovo, gen_kl_score o eps n K Y ovo = kl_score o eps n K Y ovo.
Proof. intros. destruct ovo; [apply gen_kl_score_ovo_eq | apply gen_kl_score_ova_eq]. Qed.
(* the score returned together with the gradient is the score returned alone *)
Lemma gen_kl_gscore_eq_score : forall T (o : NumOps T) eps n K Y ovo, gen_kl_gscore o eps n K Y ovo = gen_kl_score o eps n K Y ovo.
Proof. intros. rewrite gen_kl_score_eq. destruct ovo; [apply gen_kl_gscore_ovo_eq | apply gen_kl_gscore_ova_eq]. Qed.
Lemma gen_kl_grad_eq : forall T (o : NumOps T) eps n K Y ovo i k, (i < n)%nat -> (k < K)%nat ->
  gen_kl_grad o eps n K Y ovo i k = kl_grad o eps n Y ovo i k.
Proof. intros T o eps n K Y ovo i k Hi Hk. destruct ovo; [apply gen_kl_grad_ovo_eq | apply gen_kl_grad_ova_eq]; assumption. Qed.

Definition gen_tv_score {T : Type} (o : NumOps T) (eps : T) (n K : nat) (Y : nat -> nat -> T) (ovo : bool) : T :=
  if ovo then gen_tv_score_ovo o eps n K Y else gen_tv_score_ova o eps n K Y.
Definition gen_tv_gscore {T : Type} (o : NumOps T) (eps : T) (n K : nat) (Y : nat -> nat -> T) (ovo : bool) : T :=
  if ovo then gen_tv_gscore_ovo o eps n K Y else gen_tv_gscore_ova o eps n K Y.
Definition gen_tv_grad {T : Type} (o : NumOps T) (eps : T) (n K : nat) (Y : nat -> nat -> T) (ovo : bool) (i k : nat) : T :=
  if ovo then gen_tv_grad_ovo o eps n K Y i k else gen_tv_grad_ova o eps n K Y i k.
Lemma gen_tv_score_eq : forall T (o : NumOps T) eps n K Y ovo, gen_tv_score o eps n K Y ovo = tv_score o eps n K Y ovo.
Proof. intros. destruct ovo; [apply gen_tv_score_ovo_eq | apply gen_tv_score_ova_eq]. Qed.
(* the score returned together with the gradient is the score returned alone *)
Lemma gen_tv_gscore_eq_score : forall T (o : NumOps T) eps n K Y ovo, gen_tv_gscore o eps n K Y ovo = gen_tv_score o eps n K Y ovo.
Proof. intros. rewrite gen_tv_score_eq. destruct ovo; [apply gen_tv_gscore_ovo_eq | apply gen_tv_gscore_ova_eq]. Qed.
Lemma gen_tv_grad_eq : forall T (o : NumOps T) eps n K Y ovo i k, (i < n)%nat -> (k < K)%nat ->
  gen_tv_grad o eps n K Y ovo i k = tv_grad o eps n K Y ovo i k.
Proof. intros T o eps n K Y ovo i k Hi Hk. destruct ovo; [apply gen_tv_grad_ovo_eq | apply gen_tv_grad_ova_eq]; assumption. Qed.

Definition gen_he_score {T : Type} (o : NumOps T) (eps : T) (n K : nat) (Y : nat -> nat -> T) (ovo : bool) : T :=
  if ovo then gen_he_score_ovo o eps n K Y else gen_he_score_ova o eps n K Y.
Definition gen_he_gscore {T : Type} (o : NumOps T) (eps : T) (n K : nat) (Y : nat -> nat -> T) (ovo : bool) : T :=
  if ovo then gen_he_gscore_ovo o eps n K Y else gen_he_gscore_ova o eps n K Y.
Definition gen_he_grad {T : Type} (o : NumOps T) (eps : T) (n K : nat) (Y : nat -> nat -> T) (ovo : bool) (i k : nat) : T :=
  if ovo then gen_he_grad_ovo o eps n K Y i k else gen_he_grad_ova o eps n K Y i k.
Lemma gen_he_score_eq : forall T (o : NumOps T) eps n K Y ovo, gen_he_score o eps n K Y ovo = he_score o eps n K Y ovo.
Proof. intros. destruct ovo; [apply gen_he_score_ovo_eq | apply gen_he_score_ova_eq]. Qed.
(* the score returned together with the gradient is the score returned alone *)
Lemma gen_he_gscore_eq_score : forall T (o : NumOps T) eps n K Y ovo, gen_he_gscore o eps n K Y ovo = gen_he_score o eps n K Y ovo.
Proof. intros. rewrite gen_he_score_eq. destruct ovo; [apply gen_he_gscore_ovo_eq | apply gen_he_gscore_ova_eq]. Qed.
Lemma gen_he_grad_eq : forall T (o : NumOps T) eps n K Y ovo i k, (i < n)%nat -> (k < K)%nat ->
  gen_he_grad o eps n K Y ovo i k = he_grad o eps n K Y ovo i k.
Proof. intros T o eps n K Y ovo i k Hi Hk. destruct ovo; [apply gen_he_grad_ovo_eq | apply gen_he_grad_ova_eq]; assumption. Qed.

Definition gen_chi_score {T : Type} (o : NumOps T) (eps : T) (n K : nat) (Y : nat -> nat -> T) (ovo : bool) : T :=
  if ovo then gen_chi_score_ovo o eps n K Y else gen_chi_score_ova o eps n K Y.
Definition gen_chi_gscore {T : Type} (o : NumOps T) (eps : T) (n K : nat) (Y : nat -> nat -> T) (ovo : bool) : T :=
  if ovo then gen_chi_gscore_ovo o eps n K Y else gen_chi_gscore_ova o eps n K Y.
Definition gen_chi_grad {T : Type} (o : NumOps T) (eps : T) (n K : nat) (Y : nat -> nat -> T) (ovo : bool) (i k : nat) : T :=
  if ovo then gen_chi_grad_ovo o eps n K Y i k else gen_chi_grad_ova o eps n K Y i k.
Lemma gen_chi_score_eq : forall T (o : NumOps T) eps n K Y ovo, gen_chi_score o eps n K Y ovo = chi_score o eps n K Y ovo.
Proof. intros. destruct ovo; [apply gen_chi_score_ovo_eq | apply gen_chi_score_ova_eq]. Qed.
(* the score returned together with the gradient is the score returned alone *)
Lemma gen_chi_gscore_eq_score : forall T (o : NumOps T) eps n K Y ovo, gen_chi_gscore o eps n K Y ovo = gen_chi_score o eps n K Y ovo.
Proof. intros. rewrite gen_chi_score_eq. destruct ovo; [apply gen_chi_gscore_ovo_eq | apply gen_chi_gscore_ova_eq]. Qed.
Lemma gen_chi_grad_eq : forall T (o : NumOps T) eps n K Y ovo i k, (i < n)%nat -> (k < K)%nat ->
  gen_chi_grad o eps n K Y ovo i k = chi_grad o eps n K Y ovo i k.
Proof. intros T o eps n K Y ovo i k Hi Hk. destruct ovo; [apply gen_chi_grad_ovo_eq | apply gen_chi_grad_ova_eq]; assumption. Qed.

(* ---------------------------------------------------------------------------------------------------- *)
(* Part 2: C01 / C02 on the regenerated definitions (real-number instance) *)
Open Scope R_scope.

Lemma inner_ext_in_range : forall n K (G G' D : mat),
  (forall i k, (i < n)%nat -> (k < K)%nat -> G i k = G' i k) -> inner n K G D = inner n K G' D.
Proof.
  intros n K G G' D H. unfold inner. apply rsum_ext. intros i Hi. apply rsum_ext. intros k Hk.
  rewrite (H i k Hi Hk). reflexivity.
Qed.

Theorem gen_kl_score_is_definition : forall eps n K P ovo, 0 <= eps -> (0 < n)%nat -> interior eps n K P -> row_stochastic n K P ->
  gen_kl_score Rops eps n K P ovo = if ovo then gemini_ovo n K P (KLdiv n) else gemini_ova n K P (KLdiv n).
Proof. intros. rewrite gen_kl_score_eq. apply kl_score_is_definition; assumption. Qed.
Theorem gen_tv_score_is_definition : forall eps n K P ovo, 0 <= eps -> (0 < n)%nat -> interior eps n K P ->
  gen_tv_score Rops eps n K P ovo = if ovo then gemini_ovo n K P (TVdist n) else gemini_ova n K P (TVdist n).
Proof. intros. rewrite gen_tv_score_eq. apply tv_score_is_definition; assumption. Qed.
Theorem gen_he_score_is_definition : forall eps n K P ovo, 0 <= eps -> (0 < n)%nat -> interior eps n K P -> row_stochastic n K P ->
  gen_he_score Rops eps n K P ovo = if ovo then gemini_ovo n K P (Hell2 n) else gemini_ova n K P (Hell2 n).
Proof. intros. rewrite gen_he_score_eq. apply he_score_is_definition; assumption. Qed.
Theorem gen_chi_score_is_definition : forall eps n K P ovo, 0 <= eps -> (0 < n)%nat -> interior eps n K P -> row_stochastic n K P ->
  gen_chi_score Rops eps n K P ovo = ((if ovo then gemini_ovo n K P (Chi2 n) else gemini_ova n K P (Chi2 n)) + 1) / 2.
Proof. intros. rewrite gen_chi_score_eq. apply chi_score_is_definition; assumption. Qed.

Theorem gen_kl_grad_is_derivative : forall eps n K P D ovo, 0 <= eps -> (0 < n)%nat -> interior eps n K P ->
  is_derive (fun t : R => gen_kl_score Rops eps n K (pert P D t) ovo) 0 (inner n K (gen_kl_grad Rops eps n K P ovo) D).
Proof.
  intros. apply (dR_ext (fun t : R => kl_score Rops eps n K (pert P D t) ovo)).
  { intros t. symmetry. apply gen_kl_score_eq. }
  rewrite (inner_ext_in_range n K (gen_kl_grad Rops eps n K P ovo) (kl_grad Rops eps n P ovo) D).
  { apply kl_grad_is_derivative; assumption. }
  intros i k Hi Hk. apply gen_kl_grad_eq; assumption.
Qed.
Theorem gen_tv_grad_is_derivative : forall eps n K P D ovo, 0 <= eps -> (0 < n)%nat -> interior eps n K P -> tv_regular n K P ovo ->
  is_derive (fun t : R => gen_tv_score Rops eps n K (pert P D t) ovo) 0 (inner n K (gen_tv_grad Rops eps n K P ovo) D).
Proof.
  intros. apply (dR_ext (fun t : R => tv_score Rops eps n K (pert P D t) ovo)).
  { intros t. symmetry. apply gen_tv_score_eq. }
  rewrite (inner_ext_in_range n K (gen_tv_grad Rops eps n K P ovo) (tv_grad Rops eps n K P ovo) D).
  { apply tv_grad_is_derivative; assumption. }
  intros i k Hi Hk. apply gen_tv_grad_eq; assumption.
Qed.
Theorem gen_he_grad_is_derivative : forall eps n K P D ovo, 0 <= eps -> (0 < n)%nat -> interior eps n K P ->
  is_derive (fun t : R => gen_he_score Rops eps n K (pert P D t) ovo) 0 (inner n K (gen_he_grad Rops eps n K P ovo) D).
Proof.
  intros. apply (dR_ext (fun t : R => he_score Rops eps n K (pert P D t) ovo)).
  { intros t. symmetry. apply gen_he_score_eq. }
  rewrite (inner_ext_in_range n K (gen_he_grad Rops eps n K P ovo) (he_grad Rops eps n K P ovo) D).
  { apply he_grad_is_derivative; assumption. }
  intros i k Hi Hk. apply gen_he_grad_eq; assumption.
Qed.
Theorem gen_chi_grad_is_derivative : forall eps n K P D ovo, 0 <= eps -> (0 < n)%nat -> interior eps n K P ->
  is_derive (fun t : R => gen_chi_score Rops eps n K (pert P D t) ovo) 0 (inner n K (gen_chi_grad Rops eps n K P ovo) D).
Proof.
  intros. apply (dR_ext (fun t : R => chi_score Rops eps n K (pert P D t) ovo)).
  { intros t. symmetry. apply gen_chi_score_eq. }
  rewrite (inner_ext_in_range n K (gen_chi_grad Rops eps n K P ovo) (chi_grad Rops eps n K P ovo) D).
  { apply chi_grad_is_derivative; assumption. }
  intros i k Hi Hk. apply gen_chi_grad_eq; assumption.
Qed.

(* all four objectives: the score returned with the gradient is the score returned alone (any number system) *)
Lemma gen_gscore_eq_score_all : forall T (o : NumOps T) eps n K Y ovo,
  gen_kl_gscore o eps n K Y ovo = gen_kl_score o eps n K Y ovo /\ gen_tv_gscore o eps n K Y ovo = gen_tv_score o eps n K Y ovo /\
  gen_he_gscore o eps n K Y ovo = gen_he_score o eps n K Y ovo /\ gen_chi_gscore o eps n K Y ovo = gen_chi_score o eps n K Y ovo.
Proof.
  intros T o eps n K Y ovo.
  exact (conj (gen_kl_gscore_eq_score T o eps n K Y ovo) (conj (gen_tv_gscore_eq_score T o eps n K Y ovo)
        (conj (gen_he_gscore_eq_score T o eps n K Y ovo) (gen_chi_gscore_eq_score T o eps n K Y ovo)))).
Qed.
