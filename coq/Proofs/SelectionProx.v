(* C06 — discharging the two premises about the proximal operators ([common_factor], [row_feasible] /
   [hier_feasible] of Proofs/Selection.v) with C05's theorems about Model/Prox.v (Proofs/Prox.v).
   C05's operators work on matrices as lists of rows; C06's models on functions nat -> nat -> R.  [of_fn] / [to_fn]
   convert; the operators transported this way are the [prox] / [gprox] arguments of update_weights_*.
   Guards inherited from C05: threshold >= 0, M >= 0, and the skip rows handed to the hierarchical operator non-zero
   (C05 leaves a zero skip row to the float instance: x/0). *)
From Coq Require Import Reals Lra Lia List Arith.
From GV Require Import Common.Num Common.NumR Model.Forward Model.Selection Model.Prox Proofs.RSumLib Proofs.Selection.
From GV Require Proofs.Prox.
Module PP := GV.Proofs.Prox.
Import ListNotations.
Open Scope R_scope.

Local Notation mat := (nat -> nat -> R).

Definition of_fn (d K : nat) (W : mat) : list (list R) := map (fun j => map (W j) (seq 0 K)) (seq 0 d).
Definition to_fn (L : list (list R)) : mat := fun j k => nth k (nth j L []) 0.
(* rows never written by a group operator (np.empty) read as 0; with a partition every row is written *)
Definition to_fn_opt (L : list (option (list R))) : mat :=
  fun j k => match nth j L None with Some r => nth k r 0 | None => 0 end.

(* ---- list / function bridge ---- *)
Lemma nth_map_seq {A} (f : nat -> A) (n j : nat) (dflt : A) : (j < n)%nat -> nth j (map f (seq 0 n)) dflt = f j.
Proof.
  intros Hj. rewrite (PP.nth_map_in f (seq 0 n) O dflt j) by (rewrite seq_length; exact Hj).
  rewrite seq_nth by exact Hj. reflexivity.
Qed.
Lemma of_fn_length d K W : length (of_fn d K W) = d.
Proof. unfold of_fn. rewrite map_length, seq_length. reflexivity. Qed.
Lemma of_fn_nth d K W j : (j < d)%nat -> nth j (of_fn d K W) [] = map (W j) (seq 0 K).
Proof. intros Hj. unfold of_fn. exact (nth_map_seq (fun j => map (W j) (seq 0 K)) d j [] Hj). Qed.
Lemma of_fn_uniform d K W : Forall (fun r => length r = K) (of_fn d K W).
Proof.
  unfold of_fn. apply Forall_forall. intros r Hr. apply in_map_iff in Hr. destruct Hr as (j & <- & _).
  rewrite map_length, seq_length. reflexivity.
Qed.
Lemma row_entry (f : nat -> R) K k : (k < K)%nat -> nth k (map f (seq 0 K)) 0 = f k.
Proof. intros Hk. exact (nth_map_seq f K k 0 Hk). Qed.

Lemma lsum_lsumR (l : list R) : lsum Rops l = lsumR l.
Proof. induction l as [|x l IH]; [reflexivity|]. cbn [lsum lsumR nadd Rops]. rewrite IH. reflexivity. Qed.
Lemma map_nth_seq (l : list R) : map (fun k => nth k l 0) (seq 0 (length l)) = l.
Proof.
  apply (nth_ext _ _ 0 0).
  - rewrite map_length, seq_length. reflexivity.
  - intros n Hn. rewrite map_length, seq_length in Hn. exact (nth_map_seq (fun k => nth k l 0) (length l) n 0 Hn).
Qed.
(* C05's squared norm of a list = C06's sum over the indices *)
Lemma sqnorm_as_rsum (l : list R) : PP.sqnorm l = rsum (length l) (fun k => nth k l 0 * nth k l 0).
Proof.
  rewrite rsum_as_list. unfold PP.sqnorm, PP.rsum. rewrite lsum_lsumR. f_equal.
  rewrite <- (map_nth_seq l) at 1. rewrite map_map. reflexivity.
Qed.
Lemma sqnorm_row (f : nat -> R) K : PP.sqnorm (map f (seq 0 K)) = rsum K (fun k => f k * f k).
Proof.
  rewrite sqnorm_as_rsum, map_length, seq_length. apply rsum_ext. intros k Hk. rewrite row_entry by exact Hk. reflexivity.
Qed.
Lemma rnorm_row (W : mat) K j : PP.rnorm (map (W j) (seq 0 K)) = row_norm Rops K W j.
Proof. unfold PP.rnorm. rewrite sqnorm_row, row_norm_R. reflexivity. Qed.
Lemma rnorm_row_pos (W : mat) K j : ~ row_zero K W j -> 0 < PP.rnorm (map (W j) (seq 0 K)).
Proof.
  intros Hn. pose proof (PP.rnorm_nonneg (map (W j) (seq 0 K))) as Hp.
  destruct (Req_EM_T (PP.rnorm (map (W j) (seq 0 K))) 0) as [E|E]; [|lra].
  exfalso. apply Hn. apply row_norm_zero_iff. rewrite <- rnorm_row. exact E.
Qed.
(* a list of length K read back as a row of a function matrix *)
Lemma rowsq_of_list (F : mat) K j (r : list R) : length r = K -> (forall k, F j k = nth k r 0) -> rowsq K F j = PP.sqnorm r.
Proof.
  intros Hl HF. rewrite sqnorm_as_rsum, Hl. unfold rowsq. apply rsum_ext. intros k _. rewrite HF. reflexivity.
Qed.

(* ================================================================================ plain operators *)
Definition lin_prox_fn (d K : nat) (W : mat) (thr : R) : mat := to_fn (linear_prox Rops (of_fn d K W) thr).
Definition mlp_prox_fn (d h K : nat) (Ws W1 : mat) (thr M : R) : mat * mat :=
  let r := mlp_prox Rops (of_fn d K Ws) (of_fn d h W1) thr M in (to_fn (fst r), to_fn (snd r)).

Lemma lin_prox_fn_factor d K W thr : common_factor K (singletons d) W (lin_prox_fn d K W thr).
Proof.
  intros g Hg. apply In_singletons in Hg. destruct Hg as (j & Hj & ->).
  exists (PP.lasso_factor (map (W j) (seq 0 K)) thr). intros j0 [<-|[]] k Hk.
  unfold lin_prox_fn, to_fn. rewrite PP.linear_prox_rows, of_fn_nth by exact Hj.
  rewrite PP.linear_prox_row_scale.
  rewrite (PP.nth_map_in _ _ 0 0) by (rewrite map_length, seq_length; exact Hk). rewrite row_entry by exact Hk. reflexivity.
Qed.

Lemma mlp_prox_fn_facts d h K Ws W1 thr M : 0 <= thr -> 0 <= M -> (forall j, (j < d)%nat -> ~ row_zero K Ws j) ->
  row_feasible d h K M (fst (mlp_prox_fn d h K Ws W1 thr M)) (snd (mlp_prox_fn d h K Ws W1 thr M)) /\
  common_factor K (singletons d) Ws (fst (mlp_prox_fn d h K Ws W1 thr M)).
Proof.
  intros Hthr HM Hnz. unfold mlp_prox_fn. cbn [fst snd].
  set (r := mlp_prox Rops (of_fn d K Ws) (of_fn d h W1) thr M).
  assert (Hrow : forall j, (j < d)%nat ->
     (nth j (fst r) [], nth j (snd r) []) = hier_prox_row Rops (map (Ws j) (seq 0 K)) (map (W1 j) (seq 0 h)) thr M).
  { intros j Hj. unfold r. rewrite PP.mlp_prox_rows; [| rewrite !of_fn_length; reflexivity | rewrite of_fn_length; exact Hj].
    rewrite !of_fn_nth by exact Hj. reflexivity. }
  clearbody r. split.
  - intros j Hj c Hc. specialize (Hrow j Hj).
    pose proof (PP.hier_prox_feasible_optimal (map (Ws j) (seq 0 K)) (map (W1 j) (seq 0 h)) thr M Hthr HM (rnorm_row_pos Ws K j (Hnz j Hj))) as HF.
    pose proof (PP.hier_prox_row_lengths (map (Ws j) (seq 0 K)) (map (W1 j) (seq 0 h)) thr M) as [Lb Lt].
    rewrite <- Hrow in HF, Lb, Lt. cbn [fst snd] in Lb, Lt. rewrite map_length, seq_length in Lb, Lt. destruct HF as [HF _].
    assert (Hn : row_norm Rops K (to_fn (fst r)) j = PP.rnorm (nth j (fst r) [])).
    { rewrite row_norm_R. unfold PP.rnorm. f_equal. apply rowsq_of_list; [exact Lb|]. intros k. reflexivity. }
    rewrite Hn. unfold PP.feasible in HF. rewrite Forall_forall in HF. apply HF. unfold to_fn. apply nth_In. rewrite Lt. exact Hc.
  - intros g Hg. apply In_singletons in Hg. destruct Hg as (j & Hj & ->). specialize (Hrow j Hj).
    destruct (PP.hier_prox_row_shape (map (Ws j) (seq 0 K)) (map (W1 j) (seq 0 h)) thr M) as (x & w & E).
    rewrite E in Hrow. pose proof (f_equal fst Hrow) as Eb. cbn [fst] in Eb. exists x. intros j0 [<-|[]] k Hk.
    unfold to_fn. rewrite Eb.
    rewrite (PP.nth_map_in _ _ 0 0) by (rewrite map_length, seq_length; exact Hk). rewrite row_entry by exact Hk. reflexivity.
Qed.

(* ================================================================================ group operators *)
(* None = IndexError of the library function (excluded by groups_wf): the weights are left as they are *)
Definition glin_prox_fn (d K : nat) (gs : list (list nat)) (W : mat) (thr : R) : mat :=
  match group_linear_prox Rops gs (of_fn d K W) thr with Some R => to_fn_opt R | None => W end.
Definition gmlp_prox_fn (d h K : nat) (gs : list (list nat)) (Ws W1 : mat) (thr M : R) : mat * mat :=
  match group_mlp_prox Rops gs (of_fn d K Ws) (of_fn d h W1) thr M with
  | Some (RV, RU) => (to_fn_opt RV, to_fn_opt RU)
  | None => (Ws, W1)
  end.

Lemma wf_in_lt d gs g j : PP.groups_wf d gs -> In g gs -> In j g -> (j < d)%nat.
Proof.
  intros Hwf Hg Hj. destruct (PP.groups_wf_in d gs g Hwf Hg) as [_ Hlt]. rewrite Forall_forall in Hlt. apply Hlt, Hj.
Qed.

Lemma glin_prox_fn_factor d K gs W thr : PP.groups_wf d gs -> common_factor K gs W (glin_prox_fn d K gs W thr).
Proof.
  intros Hwf g Hg. unfold glin_prox_fn.
  assert (Hwf' : PP.groups_wf (length (of_fn d K W)) gs) by (rewrite of_fn_length; exact Hwf).
  destruct (PP.group_linear_spec gs (of_fn d K W) thr K (of_fn_uniform d K W) Hwf') as (R & -> & _ & Hin & _).
  destruct (Hin g Hg) as (_ & _ & c & Hc). exists c. intros j Hj k Hk.
  unfold to_fn_opt. rewrite (Hc j Hj), of_fn_nth by (apply (wf_in_lt d gs g j Hwf Hg Hj)).
  rewrite (PP.nth_map_in _ _ 0 0) by (rewrite map_length, seq_length; exact Hk). rewrite row_entry by exact Hk. reflexivity.
Qed.

(* rows of the right length cut out of a list of the right total length *)
Lemma unflatten_uniform {A} : forall n h (l : list A), length l = (n * h)%nat -> Forall (fun r => length r = h) (unflatten n h l).
Proof.
  induction n as [|n IH]; intros h l Hl; cbn [unflatten]; constructor.
  - rewrite firstn_length. cbn [Nat.mul] in Hl. lia.
  - apply IH. rewrite skipn_length. cbn [Nat.mul] in Hl. lia.
Qed.
Lemma sqnorm_app a b : PP.sqnorm (a ++ b) = PP.sqnorm a + PP.sqnorm b.
Proof. unfold PP.sqnorm. rewrite map_app. apply PP.rsum_app. Qed.
(* the group's rows of a written matrix, in the order of the group, carry the squared norm of their concatenation *)
Lemma group_sq_of_rows K (R : list (option (list R))) : forall g rows,
  map (fun i => nth i R None) g = map Some rows -> Forall (fun r => length r = K) rows ->
  group_sq K (to_fn_opt R) g = PP.sqnorm (concat rows).
Proof.
  unfold group_sq. induction g as [|i g IH]; intros rows Hm Hu; destruct rows as [|r rows]; try discriminate.
  - reflexivity.
  - cbn [map] in Hm. injection Hm as Hi Hrest. apply Forall_cons_iff in Hu. destruct Hu as [Hr Hu'].
    cbn [map lsumR concat]. rewrite sqnorm_app, (IH rows Hrest Hu'). f_equal.
    apply rowsq_of_list; [exact Hr|]. intros k. unfold to_fn_opt. rewrite Hi. reflexivity.
Qed.

Lemma gmlp_prox_fn_facts d h K gs Ws W1 thr M : PP.groups_wf d gs -> 0 <= thr -> 0 <= M ->
  (forall g, In g gs -> forall j, In j g -> ~ row_zero K Ws j) ->
  hier_feasible h K M gs (fst (gmlp_prox_fn d h K gs Ws W1 thr M)) (snd (gmlp_prox_fn d h K gs Ws W1 thr M)) /\
  common_factor K gs Ws (fst (gmlp_prox_fn d h K gs Ws W1 thr M)).
Proof.
  intros Hwf Hthr HM Hnz. unfold gmlp_prox_fn.
  assert (Hwf' : PP.groups_wf (length (of_fn d K Ws)) gs) by (rewrite of_fn_length; exact Hwf).
  destruct (PP.group_mlp_spec gs (of_fn d K Ws) (of_fn d h W1) thr M K h
              ltac:(rewrite !of_fn_length; reflexivity) (of_fn_uniform d K Ws) (of_fn_uniform d h W1) Hwf')
    as (RV & RU & -> & _ & _ & Hin & _).
  cbn [fst snd]. split.
  - intros g Hg j Hj c Hc. destruct (Hin g Hg) as (HmV & HmU & HfV & HfU & _).
    set (v := flatten (gather (of_fn d K Ws) g)) in *. set (u := flatten (gather (of_fn d h W1) g)) in *.
    assert (Hlt : Forall (fun i => (i < length (of_fn d K Ws))%nat) g).
    { apply Forall_forall. intros i Hi. rewrite of_fn_length. apply (wf_in_lt d gs g i Hwf Hg Hi). }
    (* the flattened skip group is non-zero *)
    assert (Hpos : 0 < PP.rnorm v).
    { pose proof (PP.rnorm_nonneg v) as Hp. destruct (Req_EM_T (PP.rnorm v) 0) as [E|E]; [|lra]. exfalso.
      apply (Hnz g Hg j Hj). intros k Hk. apply PP.rnorm_zero_all in E. rewrite Forall_forall in E.
      apply (E (Ws j k)). unfold v, flatten, gather. apply in_concat. exists (map (Ws j) (seq 0 K)). split.
      - apply in_map_iff. exists j. split; [apply of_fn_nth, (wf_in_lt d gs g j Hwf Hg Hj) | exact Hj].
      - apply in_map_iff. exists k. split; [reflexivity | apply in_seq; lia]. }
    pose proof (PP.hier_prox_feasible_optimal v u thr M Hthr HM Hpos) as HF.
    pose proof (PP.hier_prox_row_lengths v u thr M) as [Lb _].
    destruct (hier_prox_row Rops v u thr M) as [bs ts] eqn:E. cbn [fst snd] in *. destruct HF as [HF _].
    (* the right-hand side: the group norm of the written skip rows is ||bs|| *)
    assert (Lv : length v = (length g * K)%nat).
    { unfold v, flatten. rewrite (PP.concat_length_uniform K) by (apply PP.gather_uniform; [apply of_fn_uniform | exact Hlt]).
      rewrite PP.gather_length. reflexivity. }
    assert (Hgn : group_norm K (to_fn_opt RV) g = PP.rnorm bs).
    { unfold group_norm, PP.rnorm. f_equal.
      rewrite (group_sq_of_rows K RV g (unflatten (length g) K bs) HmV) by (apply unflatten_uniform; lia).
      unfold flatten in HfV. rewrite HfV. reflexivity. }
    rewrite Hgn.
    (* the left-hand side: an entry of a written first-layer row of the group is an entry of ts (or a default 0) *)
    assert (Hrow : exists r, nth j RU None = Some r /\ In r (unflatten (length g) h ts)).
    { assert (Hi : In (nth j RU None) (map (fun i => nth i RU None) g)) by (apply in_map_iff; exists j; split; [reflexivity | exact Hj]).
      rewrite HmU in Hi. apply in_map_iff in Hi. destruct Hi as (r & Er & Hr). exists r. split; [symmetry; exact Er | exact Hr]. }
    destruct Hrow as (r & Er & Hr). unfold to_fn_opt. rewrite Er.
    destruct (Nat.lt_ge_cases c (length r)) as [L|L].
    + unfold PP.feasible in HF. rewrite Forall_forall in HF. apply HF. rewrite <- HfU. unfold flatten. apply in_concat.
      exists r. split; [exact Hr | apply nth_In; exact L].
    + rewrite nth_overflow by exact L. rewrite Rabs_R0. apply Rmult_le_pos; [exact HM | apply PP.rnorm_nonneg].
  - intros g Hg. destruct (Hin g Hg) as (_ & _ & _ & _ & x & w & Hx). exists x. intros j Hj k Hk.
    destruct (Hx j Hj) as [EV _]. unfold to_fn_opt. rewrite EV, of_fn_nth by (apply (wf_in_lt d gs g j Hwf Hg Hj)).
    rewrite (PP.nth_map_in _ _ 0 0) by (rewrite map_length, seq_length; exact Hk). rewrite row_entry by exact Hk. reflexivity.
Qed.

(* ================================================================================ the end-to-end theorems with C05's operators *)
(* C06's groups_wf is C05's *)
Lemma groups_wf_pp d gs : groups_wf d gs -> PP.groups_wf d gs.
Proof. intros H. exact H. Qed.

Lemma update_unselected_inert_mlp_c05 :
  forall (St : Type) (opt_step : St -> @mlp_params R -> @mlp_params R -> St * @mlp_params R) (opt_lr : St -> R) (d h K : nat)
         alpha M s w g,
  0 <= alpha * opt_lr (fst (opt_step s w g)) -> 0 <= M ->
  (forall j, (j < d)%nat -> ~ row_zero K (mWskip (snd (opt_step s w g))) j) ->
  let w' := snd (update_weights_mlp Rops opt_step opt_lr (mlp_prox_fn d h K) (gmlp_prox_fn d h K) None alpha M s w g) in
  forall X X' : mat, (forall j, In j (selection Rops d K (mWskip w')) -> forall i, X i j = X' i j) ->
  forall i k, (k < K)%nat ->
    sparse_mlp_infer Rops d h K (mW1 w') (mb1 w') (mW2 w') (mb2 w') (mWskip w') X i k =
    sparse_mlp_infer Rops d h K (mW1 w') (mb1 w') (mW2 w') (mb2 w') (mWskip w') X' i k.
Proof.
  intros St opt_step opt_lr d h K. apply (update_unselected_inert_mlp opt_step opt_lr (mlp_prox_fn d h K) (gmlp_prox_fn d h K) d h K).
  intros Ws W1 thr M Hthr HM Hnz. exact (proj1 (mlp_prox_fn_facts d h K Ws W1 thr M Hthr HM Hnz)).
Qed.

Lemma update_groups_whole_and_inert_c05 :
  forall (St : Type) (opt_step : St -> @mlp_params R -> @mlp_params R -> St * @mlp_params R) (opt_lr : St -> R) (d h K : nat)
         gs alpha M s w g,
  groups_wf d gs -> (forall j, (j < d)%nat -> exists g0, In g0 gs /\ In j g0) ->
  0 <= alpha * opt_lr (fst (opt_step s w g)) -> 0 <= M ->
  (forall g0, In g0 gs -> forall j, In j g0 -> ~ row_zero K (mWskip (snd (opt_step s w g))) j) ->
  let w' := snd (update_weights_mlp Rops opt_step opt_lr (mlp_prox_fn d h K) (gmlp_prox_fn d h K) (Some gs) alpha M s w g) in
  (forall g0, In g0 gs -> (forall j, In j g0 -> In j (selection Rops d K (mWskip w'))) \/
                          (forall j, In j g0 -> ~ In j (selection Rops d K (mWskip w')))) /\
  forall X X' : mat, (forall j, In j (selection Rops d K (mWskip w')) -> forall i, X i j = X' i j) ->
  forall i k, (k < K)%nat ->
    sparse_mlp_infer Rops d h K (mW1 w') (mb1 w') (mW2 w') (mb2 w') (mWskip w') X i k =
    sparse_mlp_infer Rops d h K (mW1 w') (mb1 w') (mW2 w') (mb2 w') (mWskip w') X' i k.
Proof.
  intros St opt_step opt_lr d h K.
  apply (update_unselected_inert_mlp_groups opt_step opt_lr (mlp_prox_fn d h K) (gmlp_prox_fn d h K) d h K).
  intros gs Ws W1 thr M Hwf Hthr HM Hnz. exact (gmlp_prox_fn_facts d h K gs Ws W1 thr M (groups_wf_pp d gs Hwf) Hthr HM Hnz).
Qed.

Lemma update_groups_whole_linear_c05 :
  forall (St : Type) (opt_step : St -> @lin_params R -> @lin_params R -> St * @lin_params R) (opt_lr : St -> R) (d K : nat)
         gs alpha s w g, groups_wf d gs ->
  (forall g0, In g0 gs -> forall j, In j g0 -> ~ row_zero K (lW (snd (opt_step s w g))) j) ->
  let w' := snd (update_weights_linear Rops opt_step opt_lr (lin_prox_fn d K) (glin_prox_fn d K) (Some gs) alpha s w g) in
  forall g0, In g0 gs -> (forall j, In j g0 -> In j (selection Rops d K (lW w'))) \/
                         (forall j, In j g0 -> ~ In j (selection Rops d K (lW w'))).
Proof.
  intros St opt_step opt_lr d K. apply (update_groups_whole_linear St opt_step opt_lr (lin_prox_fn d K) (glin_prox_fn d K) d K).
  intros gs W thr Hwf. apply glin_prox_fn_factor. exact (groups_wf_pp d gs Hwf).
Qed.
