(* C04 — the regenerated tie: running the method bodies that translator/tr_coherence.py re-extracts from /repo
   (Gen/CoherenceRules.v) in the worlds of Model/CoherenceInterp.v yields exactly the hand-written output
   relations of Model/Coherence.v (and, for Kauri, the label / leaf / predict functions of Model/KauriTree.v).
   Every proof computes the interpretation of the generated term: a changed callee, argument, axis, attribute,
   comparison or branch in the Python source changes the term and breaks the lemma that covers it. *)
From Coq Require Import List Bool Arith String ZArith.
From GV Require Import Common.Num Model.Forward Model.Coherence Model.CoherenceSyntax Model.CoherenceInterp Gen.CoherenceRules.
From GV Require Model.KauriTree.
Import ListNotations.
Local Open Scope string_scope.

Section Gradient.
Context {T A : Type} (o : NumOps T).
Variables (K : nat) (p : params (T:=T)) (h : hyper (T:=T)).
Variables (gemini : @Mat T -> A -> T) (affinity : @Mat T -> A) (kern : @Mat T -> @Mat T) (ntrain : nat).
Local Notation RPP := (run_predict_proba o K p h gemini affinity kern ntrain).
Local Notation RP := (run_predict o K p h gemini affinity kern ntrain).
Local Notation RS := (run_score o K p h gemini affinity kern ntrain).
Local Notation RFIT := (run_fit o K p h gemini affinity kern ntrain).
Local Notation RSUB := (run_subfit o K p h gemini affinity kern ntrain).
Local Notation RFP := (run_fit_predict o K p h gemini affinity kern ntrain).

(* ---- DiscriminativeModel.predict_proba / predict / score *)
Lemma gen_predict_proba d X : RPP base_predict_proba (VMat d X) = VMat K (predict_proba o K p X).
Proof. reflexivity. Qed.
Lemma gen_predict d X : RP base_predict_proba base_predict (VMat d X) = VLabels (predict o K p X).
Proof. reflexivity. Qed.
Lemma gen_score d X y : RS base_predict_proba base_score (VMat d X) y = VNum (score o gemini affinity K p X).
Proof. reflexivity. Qed.
(* ---- KernelRIM: predict_proba is overridden, predict and score are inherited and see the override *)
Lemma gen_krim_predict_proba d X : RPP krim_predict_proba (VMat d X) = VMat K (predict_proba o K p (kern X)).
Proof. reflexivity. Qed.
Lemma gen_krim_predict d X : RP krim_predict_proba base_predict (VMat d X) = VLabels (predict o K p (kern X)).
Proof. reflexivity. Qed.
Lemma gen_krim_score d X y : RS krim_predict_proba base_score (VMat d X) y = VNum (gemini (predict_proba o K p (kern X)) (affinity X)).
Proof. reflexivity. Qed.

(* ---- DiscriminativeModel.fit: optimiser, labels_, n_iter_, return value, number of epochs *)
Local Notation W0 := (world0 o K p h gemini affinity kern ntrain).
Definition opt_value : value (T:=T) (A:=A) := VOptim (optimiser_of (h_solver h)) VWeights (VNum (h_lr h)).
Lemma gen_fit_pre d X y :
  run_body o W0 (env2 (VMat d X) y) base_fit_pre = {| cs_store := [("optimiser_", opt_value)]; cs_ret := None |}.
Proof.
  transitivity (if String.eqb (h_solver h) "sgd"
                then {| cs_store := [("optimiser_", VOptim SGDOptimizer VWeights (VNum (h_lr h)))]; cs_ret := @None (value (T:=T) (A:=A)) |}
                else {| cs_store := [("optimiser_", VOptim AdamOptimizer VWeights (VNum (h_lr h)))]; cs_ret := None |}).
  - reflexivity.
  - unfold opt_value, optimiser_of. destruct (String.eqb (h_solver h) "sgd"); reflexivity.
Qed.
Lemma gen_fit_state d X y :
  RFIT base_fit_pre base_fit_post (VMat d X) y =
  {| cs_store := [("n_iter_", VNat (n_iter (h_max_iter h))); ("labels_", VLabels (fit_labels o K p X)); ("optimiser_", opt_value)];
     cs_ret := Some VSelf |}.
Proof. unfold run_fit. rewrite gen_fit_pre. reflexivity. Qed.
Lemma gen_fit d X y :
  let st := RFIT base_fit_pre base_fit_post (VMat d X) y in
  attr_after "labels_" st = VLabels (fit_labels o K p X) /\
  attr_after "n_iter_" st = VNat (n_iter (h_max_iter h)) /\
  attr_after "optimiser_" st = VOptim (fst (optimiser_init (h_solver h) (h_lr h))) VWeights (VNum (snd (optimiser_init (h_solver h) (h_lr h)))) /\
  returned st = VSelf.
Proof. cbv zeta. rewrite gen_fit_state. repeat split; reflexivity. Qed.
Lemma gen_fit_epochs : run_epochs o K p h gemini affinity kern ntrain base_fit_epochs = VRange (h_max_iter h).
Proof. reflexivity. Qed.
(* what the (literally matched) training loop reads: the validated data, the affinity of the validated data,
   the estimator's GEMINI and weights *)
Lemma gen_fit_loop_reads d X y :
  map (fun nv => (fst nv, eval o W0 (env2 (VMat d X) y) [] (snd nv))) base_fit_loop_reads =
  [("X", VMat d X); ("affinity", VAff (affinity X)); ("random_state", VRng); ("gemini", VGem); ("weights", VWeights)].
Proof. reflexivity. Qed.
Local Notation FS := (fit_store o K p h gemini affinity kern ntrain base_fit_pre base_fit_post).
Lemma gen_fit_store d X y : FS (VMat d X) y =
  [("n_iter_", VNat (n_iter (h_max_iter h))); ("labels_", VLabels (fit_labels o K p X)); ("optimiser_", opt_value)].
Proof. unfold fit_store. rewrite gen_fit_state. reflexivity. Qed.
Lemma gen_fit_predict d X y : RFP FS base_fit_predict (VMat d X) y = VLabels (fit_predict o K p X).
Proof.
  transitivity (match lookup "labels_" (FS (VMat d X) y) with Some v => v | None => VErr end); [reflexivity|].
  rewrite gen_fit_store. reflexivity.
Qed.

(* ---- KernelRIM.fit: the base fit runs on the training kernel *)
Lemma gen_krim_fit_state fs d X y :
  RSUB fs krim_fit (VMat d X) y =
  {| cs_store := ("n_features_in_", VNat d) :: fs (VMat ntrain (kern X)) y ++ [("training_kernel_", VMat ntrain (kern X)); ("input_data_", VMat d X)];
     cs_ret := Some VSelf |}.
Proof. reflexivity. Qed.
Lemma gen_krim_fit d X y :
  let st := RSUB FS krim_fit (VMat d X) y in
  attr_after "input_data_" st = VMat d X /\
  attr_after "training_kernel_" st = VMat ntrain (kern X) /\
  attr_after "labels_" st = VLabels (fit_labels o K p (kern X)) /\
  attr_after "n_iter_" st = VNat (n_iter (h_max_iter h)) /\
  attr_after "optimiser_" st = opt_value /\
  attr_after "n_features_in_" st = VNat d /\
  returned st = VSelf.
Proof. cbv zeta. rewrite gen_krim_fit_state, gen_fit_store. repeat split; reflexivity. Qed.
Lemma gen_krim_fit_predict d X y :
  RFP (fun X y => cs_store (RSUB FS krim_fit X y)) base_fit_predict (VMat d X) y = VLabels (fit_predict o K p (kern X)).
Proof.
  transitivity (match lookup "labels_" (cs_store (RSUB FS krim_fit (VMat d X) y)) with Some v => v | None => VErr end); [reflexivity|].
  rewrite gen_krim_fit_state, gen_fit_store. reflexivity.
Qed.
(* ---- sparse models: fit validates, checks the groups and delegates to the base fit on the same data *)
Lemma gen_sparse_fit_state fs body d X y : body = sparse_linear_fit \/ body = sparse_mlp_fit ->
  RSUB fs body (VMat d X) y = {| cs_store := fs (VMat d X) y ++ [("groups_", VNone)]; cs_ret := Some VSelf |}.
Proof. intros [-> | ->]; reflexivity. Qed.
Lemma gen_sparse_fit body d X y : body = sparse_linear_fit \/ body = sparse_mlp_fit ->
  let st := RSUB FS body (VMat d X) y in
  attr_after "labels_" st = VLabels (fit_labels o K p X) /\
  attr_after "n_iter_" st = VNat (n_iter (h_max_iter h)) /\
  attr_after "optimiser_" st = opt_value /\
  attr_after "groups_" st = VNone /\ returned st = VSelf.
Proof. intros Hb. cbv zeta. rewrite (gen_sparse_fit_state _ _ _ _ _ Hb), gen_fit_store. repeat split; reflexivity. Qed.
End Gradient.

(* ---- Kauri: the statements after the loop, predict, score *)
Section Kauri.
Context {T : Type} (o : NumOps T).
Variables (P : KauriTree.params) (X : KauriTree.data) (st : KauriTree.state) (Kk : nat) (ker : KauriTree.data -> nat -> nat -> T).
Lemma gen_kauri_fit_tail :
  let s := run_kauri_tail (A:=unit) o P X st kauri_fit_tail in
  attr_after "labels_" s = VNVec (List.length X) (KauriTree.label_of P X st) /\
  attr_after "leaves_" s = VNVec (List.length X) (KauriTree.leaf_of P X st) /\
  returned s = VSelf.
Proof. repeat split; reflexivity. Qed.
Lemma gen_kauri_predict t X' : run_kauri_predict (A:=unit) o ker t kauri_predict X' = VPreds (KauriTree.predict t X').
Proof. reflexivity. Qed.
Lemma gen_kauri_score t X' y :
  run_kauri_score (A:=unit) o Kk ker t kauri_predict kauri_score X' y =
  VNum (KauriTree.objective o (List.length (KauriTree.predict t X')) Kk (ker X')
          (fun i => match nth i (KauriTree.predict t X') None with Some c => c | None => Kk end)).
Proof. reflexivity. Qed.
Lemma gen_kauri_fit_predict (labels : nat -> nat) n y :
  returned (run_body (A:=unit) o
    {| w_attr := fun _ => VErr; w_self := fun m args => if String.eqb m "fit" then match args with [_; _] => VFitted [("labels_", VNVec n labels)] | _ => VErr end else VErr;
       w_super := no_super; w_fn := fn_std; w_meth := fun _ _ _ => VErr; w_apply := fun _ _ => VErr |}
    (env2 (VData X) y) kauri_fit_predict) = VNVec n labels.
Proof. reflexivity. Qed.
End Kauri.

(* ---- method resolution: which body each estimator runs *)
Definition res (cls m : string) : option string := resolve 8 overrides class_bases cls m.
Definition gradient_estimators : list string :=
  ["LinearModel"; "LinearMMD"; "LinearWasserstein"; "RIM"; "KernelRIM"; "MLPModel"; "MLPMMD"; "MLPWasserstein";
   "SparseLinearModel"; "SparseLinearMMD"; "SparseLinearMI"; "SparseMLPModel"; "SparseMLPMMD";
   "CategoricalModel"; "CategoricalMMD"; "CategoricalWasserstein"; "Douglas"].
Lemma resolution_table :
  (* predict, score and fit_predict are DiscriminativeModel's for all 17 gradient estimators *)
  forallb (fun c => match res c "predict", res c "score", res c "fit_predict" with
                    | Some a, Some b, Some c' => String.eqb a "DiscriminativeModel" && String.eqb b "DiscriminativeModel" && String.eqb c' "DiscriminativeModel"
                    | _, _, _ => false end) gradient_estimators = true /\
  (* predict_proba is DiscriminativeModel's except for KernelRIM *)
  map (fun c => res c "predict_proba") gradient_estimators =
    map (fun c => Some (if String.eqb c "KernelRIM" then "KernelRIM" else "DiscriminativeModel")) gradient_estimators /\
  (* fit: KernelRIM and the sparse families wrap the base fit, all others run it directly *)
  map (fun c => res c "fit") gradient_estimators =
    map Some ["DiscriminativeModel"; "DiscriminativeModel"; "DiscriminativeModel"; "DiscriminativeModel"; "KernelRIM";
              "DiscriminativeModel"; "DiscriminativeModel"; "DiscriminativeModel";
              "SparseLinearModel"; "SparseLinearModel"; "SparseLinearModel"; "SparseMLPModel"; "SparseMLPModel";
              "DiscriminativeModel"; "DiscriminativeModel"; "DiscriminativeModel"; "DiscriminativeModel"] /\
  (* Kauri defines all of its own *)
  map (res "Kauri") ["fit"; "fit_predict"; "predict"; "score"] = [Some "Kauri"; Some "Kauri"; Some "Kauri"; Some "Kauri"].
Proof. repeat split; vm_compute; reflexivity. Qed.

(* ---- the golden copy: what the bodies looked like when the model was written *)
Definition VD : cexpr :=     (* the validated training data inside fit *)
  ECall "validate_data" [ESelf; ECall "check_array" [EVar "X"]; EKw "accept_sparse" (EBool true); EKw "dtype" (EGlobal "np.float64"); EKw "ensure_min_samples" (ESelfAttr "n_clusters")].
Definition VS : cexpr := ECall "validate_data" [ESelf; EVar "X"; EKw "ensure_min_samples" (ESelfAttr "n_clusters")].
Definition golden_sparse_fit : list cstmt :=
  [SExpr (ESelfCall "_validate_params" []); SSetAttr "groups_" (ECall "check_groups" [ESelfAttr "groups"; EIndex (EAttr VS "shape") 1%Z]);
   SReturn (ESuperCall "fit" [VS; EVar "y"])].
Lemma regenerated_rules_are_documented :
  base_fit_predict = [SReturn (EAttr (ESelfCall "fit" [EVar "X"; EVar "y"]) "labels_")] /\
  base_predict_proba = [SExpr (ECall "check_is_fitted" [ESelf]); SReturn (ESelfCall "_infer" [ECall "check_array" [EVar "X"]; EKw "retain" (EBool false)])] /\
  base_predict = [SExpr (ECall "check_is_fitted" [ESelf]); SReturn (EArgmax (ESelfCall "predict_proba" [ECall "check_array" [EVar "X"]]) 1%Z)] /\
  base_score = [SReturn (EItem (EApply (ESelfCall "get_gemini" []) [ESelfCall "predict_proba" [EVar "X"];
                                        EMeth (ESelfCall "get_gemini" []) "compute_affinity" [EVar "X"; EVar "y"]]))] /\
  base_fit_pre = [SExpr (ESelfCall "_validate_params" []);
                  SExpr (ESelfCall "_init_params" [ECall "check_random_state" [ESelfAttr "random_state"]; VD]);
                  SIf (EEq (ESelfAttr "solver") (EStr "sgd"))
                    [SSetAttr "optimiser_" (ECall "SGDOptimizer" [ESelfCall "_get_weights" []; ESelfAttr "learning_rate"])]
                    [SSetAttr "optimiser_" (ECall "AdamOptimizer" [ESelfCall "_get_weights" []; ESelfAttr "learning_rate"])]] /\
  base_fit_loop_reads = [("X", VD); ("affinity", EMeth (ESelfCall "get_gemini" []) "compute_affinity" [VD; EVar "y"]);
                         ("random_state", ECall "check_random_state" [ESelfAttr "random_state"]); ("gemini", ESelfCall "get_gemini" []);
                         ("weights", ESelfCall "_get_weights" [])] /\
  base_fit_epochs = ECall "range" [ESelfAttr "max_iter"] /\
  base_fit_post = [SSetAttr "labels_" (EArgmax (ESelfCall "_infer" [VD]) 1%Z); SSetAttr "n_iter_" (ESelfAttr "max_iter"); SReturn ESelf] /\
  krim_fit = [SExpr (ESelfCall "_validate_params" []); SSetAttr "input_data_" (ECall "check_array" [EVar "X"]);
              SSetAttr "training_kernel_" (ESelfCall "_compute_kernel" [ECall "check_array" [EVar "X"]]);
              SExpr (ESuperCall "fit" [ESelfAttr "training_kernel_"; EVar "y"]);
              SSetAttr "n_features_in_" (EIndex (EAttr (ECall "check_array" [EVar "X"]) "shape") 1%Z); SReturn ESelf] /\
  krim_predict_proba = [SReturn (ESelfCall "_infer" [ESelfCall "_compute_kernel" [EVar "X"]])] /\
  sparse_linear_fit = golden_sparse_fit /\ sparse_mlp_fit = golden_sparse_fit /\
  kauri_fit_predict = [SReturn (EAttr (ESelfCall "fit" [EVar "X"; EVar "y"]) "labels_")] /\
  kauri_predict = [SExpr (ECall "check_is_fitted" [ESelf]);
                   SReturn (EMeth (ESelfAttr "tree_") "predict" [ECall "check_array" [EVar "X"; EKw "dtype" (EGlobal "np.float64")]])] /\
  kauri_score = [SReturn (ECall "gemini_objective" [ESelfCall "predict" [EVar "X"]; ESelfCall "_compute_kernel" [EVar "X"; EVar "y"]])] /\
  kauri_fit_tail = [SSetAttr "labels_" (EArgmax (EMatMul (EVar "Y") (EVar "Z")) 0%Z); SSetAttr "leaves_" (EArgmax (EVar "Z") 0%Z); SReturn ESelf] /\
  overrides = [("CategoricalMMD", []); ("CategoricalModel", []); ("CategoricalWasserstein", []);
               ("DiscriminativeModel", ["fit"; "fit_predict"; "predict"; "predict_proba"; "score"]); ("Douglas", []);
               ("Kauri", ["fit"; "fit_predict"; "predict"; "score"]); ("KernelRIM", ["fit"; "predict_proba"]); ("LinearMMD", []);
               ("LinearModel", []); ("LinearWasserstein", []); ("MLPMMD", []); ("MLPModel", []); ("MLPWasserstein", []); ("RIM", []);
               ("SparseLinearMI", []); ("SparseLinearMMD", []); ("SparseLinearModel", ["fit"]); ("SparseMLPMMD", []);
               ("SparseMLPModel", ["fit"]); ("Tree", ["predict"])].
Proof. repeat split; reflexivity. Qed.
