(* C15 — proofs about the Douglas model (Model/Douglas.v) at the real-number instance Rops, and the
   purely structural facts (feature mask, leaf count) for every number system. *)
From Coq Require Import Reals Lra Lia Psatz List Bool Arith Sorted Permutation.
From Coquelicot Require Import Coquelicot.
From GV Require Import Common.Num Common.NumR Model.Forward Model.Douglas Proofs.RSumLib.
Import ListNotations.
Open Scope R_scope.

(* ------------------------------------------------------------------ booleans of Rops *)
Lemma Rltb_iff x y : Rltb x y = true <-> x < y.
Proof. unfold Rltb. destruct (Rlt_dec x y); split; intros; try assumption; try reflexivity; try discriminate; contradiction. Qed.
Lemma Rleb_iff x y : Rleb x y = true <-> x <= y.
Proof. unfold Rleb. destruct (Rle_dec x y); split; intros; try assumption; try reflexivity; try discriminate; contradiction. Qed.

(* ------------------------------------------------------------------ list sums *)
Lemma lsumR_map_scal a l : lsumR (map (fun b => a * b) l) = a * lsumR l.
Proof. induction l as [|x l IH]; simpl; [lra | rewrite IH; lra]. Qed.
Lemma lsumR_map_seq K (f : nat -> R) : lsumR (map f (seq 0 K)) = rsum K f.
Proof. symmetry. apply rsum_as_list. Qed.
Lemma nth_map_seq {A} (f : nat -> A) K k d : (k < K)%nat -> nth k (map f (seq 0 K)) d = f k.
Proof.
  intros Hk. rewrite (nth_indep _ d (f 0%nat)) by (rewrite map_length, seq_length; exact Hk).
  rewrite map_nth. rewrite seq_nth by exact Hk. reflexivity.
Qed.
Lemma nth_map_in {A B} (f : A -> B) l k d d' : (k < length l)%nat -> nth k (map f l) d = f (nth k l d').
Proof.
  revert k. induction l as [|a l IH]; intros k Hk; [simpl in Hk; lia|].
  destruct k as [|k]; [reflexivity|]. cbn [map nth]. apply IH. simpl in Hk. lia.
Qed.
Lemma lsumR_as_rsum l : lsumR l = rsum (length l) (fun j => nth j l 0).
Proof.
  rewrite rsum_as_list. f_equal. apply (nth_ext _ _ 0 0).
  - rewrite map_length, seq_length. reflexivity.
  - intros j Hj. rewrite nth_map_seq by exact Hj. reflexivity.
Qed.

(* ------------------------------------------------------------------ softmax over R *)
Definition smx (K : nat) (z : nat -> R) (k : nat) : R := softmax_row Rops K z k.
Lemma smx_unfold K z k : smx K z k = exp (z k - vmax Rops K z) / rsum K (fun c => exp (z c - vmax Rops K z)).
Proof. reflexivity. Qed.
Lemma rsum_exp_pos K (f : nat -> R) : (0 < K)%nat -> 0 < rsum K (fun c => exp (f c)).
Proof. intros HK. apply rsum_pos; [exact HK | intros; apply exp_pos]. Qed.
Lemma smx_pos K z k : (0 < K)%nat -> 0 < smx K z k.
Proof.
  intros HK. rewrite smx_unfold. apply Rdiv_lt_0_compat; [apply exp_pos|].
  apply (rsum_exp_pos K (fun c => z c - vmax Rops K z) HK).
Qed.
Lemma smx_sum K z : (0 < K)%nat -> rsum K (smx K z) = 1.
Proof.
  intros HK. pose proof (rsum_exp_pos K (fun c => z c - vmax Rops K z) HK) as Hp.
  rewrite (rsum_ext K (smx K z) (fun k => exp (z k - vmax Rops K z) / rsum K (fun c => exp (z c - vmax Rops K z))))
    by (intros; apply smx_unfold).
  rewrite rsum_divc. field. lra.
Qed.
(* shift invariance: the subtraction of the row maximum is only a numerical device *)
Lemma smx_shift K z k (m : R) : (0 < K)%nat ->
  smx K z k = exp (z k - m) / rsum K (fun c => exp (z c - m)).
Proof.
  intros HK. rewrite smx_unfold. set (M := vmax Rops K z).
  pose proof (rsum_exp_pos K (fun c => z c - M) HK) as Hp.
  pose proof (rsum_exp_pos K (fun c => z c - m) HK) as Hq.
  assert (E : forall c, exp (z c - M) = exp (z c - m) * exp (m - M)).
  { intros c. rewrite <- exp_plus. f_equal. lra. }
  rewrite (rsum_ext K (fun c => exp (z c - M)) (fun c => exp (z c - m) * exp (m - M))) by (intros; apply E).
  rewrite rsum_scal_r, E. pose proof (exp_pos (m - M)). field. split; lra.
Qed.
Lemma smx_inv K z k : (0 < K)%nat -> smx K z k = / rsum K (fun c => exp (z c - z k)).
Proof.
  intros HK. rewrite (smx_shift K z k (z k) HK). replace (z k - z k) with 0 by lra. rewrite exp_0.
  unfold Rdiv. lra.
Qed.
Lemma smx_plain K z k : (0 < K)%nat -> smx K z k = exp (z k) / rsum K (fun c => exp (z c)).
Proof.
  intros HK. rewrite (smx_shift K z k 0 HK). rewrite Rminus_0_r.
  rewrite (rsum_ext K (fun c => exp (z c - 0)) (fun c => exp (z c))); [reflexivity|].
  intros; f_equal; lra.
Qed.
Lemma smx_ext K z z' k : (forall c, (c < K)%nat -> z c = z' c) -> (k < K)%nat -> smx K z k = smx K z' k.
Proof.
  intros H Hk. assert (HK : (0 < K)%nat) by lia. rewrite !smx_plain by exact HK. rewrite (H k Hk).
  f_equal. apply rsum_ext. intros c Hc. rewrite (H c Hc). reflexivity.
Qed.
Lemma smx_lt K z j k : (0 < K)%nat -> z j < z k -> smx K z j < smx K z k.
Proof.
  intros HK Hlt. rewrite !smx_plain by exact HK. pose proof (rsum_exp_pos K z HK) as Hp.
  unfold Rdiv. apply Rmult_lt_compat_r; [apply Rinv_0_lt_compat; exact Hp | apply exp_increasing; exact Hlt].
Qed.

(* softmax of a list *)
Lemma softmax_list_length l : length (softmax_list Rops l) = length l.
Proof. unfold softmax_list. rewrite map_length, seq_length. reflexivity. Qed.
Lemma softmax_list_nth l k : (k < length l)%nat ->
  nth k (softmax_list Rops l) 0 = smx (length l) (fun j => nth j l 0) k.
Proof. intros Hk. unfold softmax_list. rewrite nth_map_seq by exact Hk. reflexivity. Qed.
Lemma softmax_list_sum l : l <> [] -> lsumR (softmax_list Rops l) = 1.
Proof.
  intros Hl. unfold softmax_list. rewrite lsumR_map_seq. apply smx_sum.
  destruct l; [contradiction | simpl; lia].
Qed.
Lemma softmax_list_pos l : List.Forall (fun v => 0 < v) (softmax_list Rops l).
Proof.
  unfold softmax_list. apply Forall_forall. intros v Hv. apply in_map_iff in Hv.
  destruct Hv as (k & <- & Hk). apply in_seq in Hk. apply smx_pos. lia.
Qed.

(* ------------------------------------------------------------------ sorting the cut points *)
Lemma insert_perm x l : Permutation (insert Rops x l) (x :: l).
Proof.
  induction l as [|h t IH]; [apply Permutation_refl|]. cbn [insert nleb Rops].
  destruct (Rleb x h); [apply Permutation_refl|].
  eapply perm_trans; [apply perm_skip; exact IH | apply perm_swap].
Qed.
Lemma sort_cuts_perm l : Permutation (sort_cuts Rops l) l.
Proof.
  induction l as [|x l IH]; [apply perm_nil|]. cbn [sort_cuts].
  eapply perm_trans; [apply insert_perm | apply perm_skip; exact IH].
Qed.
Lemma insert_sorted x l : StronglySorted Rle l -> StronglySorted Rle (insert Rops x l).
Proof.
  induction l as [|h t IH]; intros Hs; cbn [insert nleb Rops].
  - constructor; constructor.
  - inversion Hs as [|? ? Hst Hall]; subst. destruct (Rleb x h) eqn:E.
    + apply Rleb_iff in E. constructor; [exact Hs|]. constructor; [exact E|].
      eapply Forall_impl; [|exact Hall]. intros a Ha. simpl in Ha. lra.
    + assert (Hhx : h <= x). { destruct (Rle_dec x h) as [H|H]; [apply Rleb_iff in H; congruence | lra]. }
      constructor; [apply IH; exact Hst|].
      apply Forall_forall. intros a Ha.
      apply (Permutation_in _ (insert_perm x t)) in Ha. destruct Ha as [<-|Ha]; [exact Hhx|].
      rewrite Forall_forall in Hall. apply Hall. exact Ha.
Qed.
Lemma sort_cuts_sorted l : StronglySorted Rle (sort_cuts Rops l).
Proof. induction l as [|x l IH]; [constructor | cbn [sort_cuts]; apply insert_sorted; exact IH]. Qed.
Lemma sort_cuts_length l : length (sort_cuts Rops l) = length l.
Proof. apply Permutation_length, sort_cuts_perm. Qed.

(* the permutation `order` really sorts: cut_points[order] = sorted cut points *)
Lemma insert_p_snd x l : map snd (insert_p Rops x l) = insert Rops (snd x) (map snd l).
Proof.
  induction l as [|h t IH]; [reflexivity|]. cbn [insert_p insert map].
  destruct (nleb Rops (snd x) (snd h)); [reflexivity|]. cbn [map]. rewrite IH. reflexivity.
Qed.
Lemma sort_pairs_snd l : map snd (sort_pairs Rops l) = sort_cuts Rops (map snd l).
Proof. induction l as [|x l IH]; [reflexivity|]. cbn [sort_pairs sort_cuts map]. rewrite insert_p_snd, IH. reflexivity. Qed.
Lemma argsort_pairs_sorted cuts : map snd (argsort_pairs Rops cuts) = sort_cuts Rops cuts.
Proof.
  unfold argsort_pairs. rewrite sort_pairs_snd. f_equal.
  assert (G : forall (l : list R) s, map snd (combine (seq s (length l)) l) = l).
  { induction l as [|a l IH]; intros s; [reflexivity|]. cbn [length seq combine map snd]. rewrite IH. reflexivity. }
  apply G.
Qed.

(* ------------------------------------------------------------------ closed form of the bin logits *)
Definition psum (j : nat) (s : list R) : R := lsumR (firstn j s).
Lemma psum_S j s : (j < length s)%nat -> psum (S j) s = psum j s + nth j s 0.
Proof.
  revert j. induction s as [|c r IH]; intros j Hj; [simpl in Hj; lia|].
  destruct j as [|j]; unfold psum in *.
  - rewrite firstn_cons, !firstn_O. cbn [lsumR nth]. lra.
  - rewrite !firstn_cons. cbn [lsumR nth]. cbn [length] in Hj. rewrite IH by lia. lra.
Qed.
Lemma cumbias_length acc s : length (cumbias Rops acc s) = S (length s).
Proof. revert acc. induction s as [|c r IH]; intros acc; [reflexivity|]. cbn [cumbias length]. rewrite IH. reflexivity. Qed.
Lemma logits_from_length i x bs : length (logits_from Rops i x bs) = length bs.
Proof. revert i. induction bs as [|b r IH]; intros i; [reflexivity|]. cbn [logits_from length]. rewrite IH. reflexivity. Qed.
Lemma logits_closed s : forall i acc x j, (j <= length s)%nat ->
  nth j (logits_from Rops i x (cumbias Rops acc s)) 0 = INR (S (i + j)) * x + (acc - psum j s).
Proof.
  induction s as [|c r IH]; intros i acc x j Hj.
  - cbn [length] in Hj. assert (j = 0%nat) by lia. subst j.
    cbn [cumbias logits_from nth nadd nmul nofnat Rops]. unfold psum. cbn [firstn lsumR].
    rewrite Nat.add_0_r. lra.
  - cbn [cumbias logits_from]. destruct j as [|j].
    + cbn [nth nadd nmul nofnat Rops]. unfold psum. cbn [firstn lsumR]. rewrite Nat.add_0_r. lra.
    + cbn [nth]. cbn [length] in Hj. rewrite IH by lia.
      unfold psum. cbn [firstn lsumR]. unfold nneg. cbn [nadd nsub n0 Rops].
      replace (S i + j)%nat with (i + S j)%nat by lia. lra.
Qed.
Lemma bin_logits_length x cuts : length (bin_logits Rops x cuts) = S (length cuts).
Proof. unfold bin_logits, bias. rewrite logits_from_length, cumbias_length, sort_cuts_length. reflexivity. Qed.
(* l_j = (j+1) x - (sum of the j smallest cut points) *)
Lemma bin_logits_closed x cuts j : (j <= length cuts)%nat ->
  nth j (bin_logits Rops x cuts) 0 = INR (S j) * x - psum j (sort_cuts Rops cuts).
Proof.
  intros Hj. unfold bin_logits, bias. rewrite logits_closed by (rewrite sort_cuts_length; exact Hj).
  cbn [n0 Rops Nat.add]. lra.
Qed.

(* ------------------------------------------------------------------ the number of cut points below a value *)
Fixpoint count_below (x : R) (l : list R) : nat :=
  match l with [] => 0%nat | c :: r => ((if Rlt_dec c x then 1 else 0) + count_below x r)%nat end.
Lemma count_below_perm x l l' : Permutation l l' -> count_below x l = count_below x l'.
Proof. induction 1; cbn [count_below]; lia. Qed.
Lemma count_below_le x l : (count_below x l <= length l)%nat.
Proof. induction l as [|c r IH]; cbn [count_below length]; [lia | destruct (Rlt_dec c x); lia]. Qed.
Lemma count_below_none x l : List.Forall (fun c => x < c) l -> count_below x l = 0%nat.
Proof.
  induction 1 as [|c r Hc _ IH]; [reflexivity|]. cbn [count_below]. destruct (Rlt_dec c x); [lra | lia].
Qed.
(* in a sorted list the elements below x are exactly the first count_below x positions, with margin g *)
Lemma sorted_split g x s : 0 < g -> StronglySorted Rle s -> (forall c, In c s -> g <= Rabs (x - c)) ->
  forall j, (j < length s)%nat ->
    ((j < count_below x s)%nat -> g <= x - nth j s 0) /\ ((count_below x s <= j)%nat -> g <= nth j s 0 - x).
Proof.
  intros Hg Hs. induction Hs as [|h t Hst IH Hall]; intros Hgap j Hj; [simpl in Hj; lia|].
  assert (Hh : g <= Rabs (x - h)) by (apply Hgap; left; reflexivity).
  assert (Hgt : forall c, In c t -> g <= Rabs (x - c)) by (intros c Hc; apply Hgap; right; exact Hc).
  cbn [count_below]. destruct (Rlt_dec h x) as [Hlt|Hnlt].
  - rewrite Rabs_right in Hh by lra. destruct j as [|j]; cbn [nth].
    + split; intros; [lra | lia].
    + cbn [length] in Hj. destruct (IH Hgt j ltac:(lia)) as [A B]. split; intros; [apply A | apply B]; lia.
  - assert (Hxh : x < h).
    { destruct (Rle_dec (x - h) 0) as [H|H]; [|lra]. rewrite Rabs_left1 in Hh by lra. lra. }
    rewrite Rabs_left1 in Hh by lra.
    assert (Hnone : count_below x t = 0%nat).
    { apply count_below_none. eapply Forall_impl; [|exact Hall]. intros a Ha. simpl in Ha. lra. }
    rewrite Hnone. destruct j as [|j]; cbn [nth].
    + split; intros; [lia | lra].
    + split; intros; [lia|]. cbn [length] in Hj. rewrite Forall_forall in Hall.
      assert (h <= nth j t 0) by (apply Hall, nth_In; lia). lra.
Qed.

(* ------------------------------------------------------------------ concavity: the arg-max bin *)
Section ArgMax.
Variables (x g : R) (cuts : list R).
Hypothesis Hg : 0 < g.
Hypothesis Hgap : forall c, In c cuts -> g <= Rabs (x - c).
Let s := sort_cuts Rops cuts.
Let n := length cuts.
Let k := count_below x cuts.
Let L (j : nat) : R := INR (S j) * x - psum j s.

Lemma am_len : length s = n. Proof. apply sort_cuts_length. Qed.
Lemma am_k_le : (k <= n)%nat. Proof. apply count_below_le. Qed.
Lemma am_k_sorted : count_below x s = k.
Proof. apply count_below_perm, sort_cuts_perm. Qed.
Lemma am_gap_sorted c : In c s -> g <= Rabs (x - c).
Proof. intros Hc. apply Hgap. apply (Permutation_in _ (sort_cuts_perm cuts)). exact Hc. Qed.
(* l_(j+1) - l_j = x - c_(j+1) *)
Lemma am_step j : (j < n)%nat -> L (S j) - L j = x - nth j s 0.
Proof.
  intros Hj. unfold L. rewrite psum_S by (rewrite am_len; exact Hj). rewrite (S_INR (S j)). lra.
Qed.
Lemma am_up j : (j < k)%nat -> g <= L (S j) - L j.
Proof.
  intros Hj. pose proof am_k_le. rewrite am_step by lia.
  destruct (sorted_split g x s Hg (sort_cuts_sorted cuts) am_gap_sorted j) as [A _]; [rewrite am_len; lia|].
  apply A. rewrite am_k_sorted. exact Hj.
Qed.
Lemma am_down j : (k <= j)%nat -> (j < n)%nat -> g <= L j - L (S j).
Proof.
  intros Hk Hj. rewrite <- (Ropp_minus_distr (L (S j)) (L j)). rewrite am_step by lia.
  destruct (sorted_split g x s Hg (sort_cuts_sorted cuts) am_gap_sorted j) as [_ B]; [rewrite am_len; lia|].
  specialize (B ltac:(rewrite am_k_sorted; exact Hk)). lra.
Qed.
Lemma am_below d : forall j, (j + d <= k)%nat -> INR d * g <= L (j + d) - L j.
Proof.
  induction d as [|d IH]; intros j Hj.
  - rewrite Nat.add_0_r. simpl. lra.
  - rewrite S_INR. specialize (IH j ltac:(lia)). pose proof (am_up (j + d) ltac:(lia)) as Hu.
    replace (j + S d)%nat with (S (j + d)) by lia. lra.
Qed.
Lemma am_above d : (k + d <= n)%nat -> INR d * g <= L k - L (k + d).
Proof.
  induction d as [|d IH]; intros Hd.
  - rewrite Nat.add_0_r. simpl. lra.
  - rewrite S_INR. specialize (IH ltac:(lia)). pose proof (am_down (k + d) ltac:(lia) ltac:(lia)) as Hu.
    replace (k + S d)%nat with (S (k + d)) by lia. lra.
Qed.
(* every other bin is at least g below the bin of index #{c < x} *)
Lemma am_margin j : (j <= n)%nat -> j <> k -> g <= L k - L j.
Proof.
  intros Hj Hne. destruct (lt_dec j k) as [Hlt|Hge].
  - pose proof (am_below (k - j) j ltac:(lia)) as H. replace (j + (k - j))%nat with k in H by lia.
    assert (1 <= INR (k - j)) by (replace 1 with (INR 1) by reflexivity; apply le_INR; lia). nra.
  - pose proof (am_above (j - k) ltac:(lia)) as H. replace (k + (j - k))%nat with j in H by lia.
    assert (1 <= INR (j - k)) by (replace 1 with (INR 1) by reflexivity; apply le_INR; lia). nra.
Qed.
Lemma am_logit j : (j <= n)%nat -> nth j (bin_logits Rops x cuts) 0 = L j.
Proof. intros Hj. apply bin_logits_closed. exact Hj. Qed.
End ArgMax.

Lemma logit_margin x g cuts j : 0 < g -> (forall c, In c cuts -> g <= Rabs (x - c)) ->
  (j <= length cuts)%nat -> j <> count_below x cuts ->
  g <= nth (count_below x cuts) (bin_logits Rops x cuts) 0 - nth j (bin_logits Rops x cuts) 0.
Proof.
  intros Hg Hgap Hj Hne. rewrite !am_logit by (try exact Hj; apply count_below_le).
  apply am_margin; assumption.
Qed.

(* a value different from finitely many cut points keeps a positive distance from all of them *)
Lemma gap_exists x cuts : (forall c, In c cuts -> c <> x) ->
  exists g, 0 < g /\ forall c, In c cuts -> g <= Rabs (x - c).
Proof.
  induction cuts as [|a l IH]; intros H.
  - exists 1. split; [lra | intros c []].
  - destruct IH as (g & Hg & Hl); [intros c Hc; apply H; right; exact Hc|].
    assert (Ha : 0 < Rabs (x - a)). { apply Rabs_pos_lt. intros E. apply (H a); [left; reflexivity | lra]. }
    exists (Rmin g (Rabs (x - a))). split; [apply Rmin_pos; assumption|].
    intros c [<-|Hc]; [apply Rmin_r|]. eapply Rle_trans; [apply Rmin_l | apply Hl; exact Hc].
Qed.

Lemma argmax_logit cuts x : (forall c, In c cuts -> c <> x) ->
  length (bin_logits Rops x cuts) = S (length cuts) /\ (count_below x cuts <= length cuts)%nat /\
  forall j, (j <= length cuts)%nat -> j <> count_below x cuts ->
    nth j (bin_logits Rops x cuts) 0 < nth (count_below x cuts) (bin_logits Rops x cuts) 0.
Proof.
  intros H. split; [apply bin_logits_length|]. split; [apply count_below_le|].
  intros j Hj Hne. destruct (gap_exists x cuts H) as (g & Hg & Hgap).
  pose proof (logit_margin x g cuts j Hg Hgap Hj Hne). lra.
Qed.

(* ------------------------------------------------------------------ memberships *)
Lemma bins_length temp x cuts : length (bins Rops temp x cuts) = S (length cuts).
Proof. unfold bins. rewrite softmax_list_length, map_length. apply bin_logits_length. Qed.
Definition zrow (temp x : R) (cuts : list R) (j : nat) : R := nth j (bin_logits Rops x cuts) 0 / temp.
Lemma bins_nth temp x cuts k : (k <= length cuts)%nat ->
  nth k (bins Rops temp x cuts) 0 = smx (S (length cuts)) (zrow temp x cuts) k.
Proof.
  intros Hk. unfold bins. rewrite softmax_list_nth by (rewrite map_length, bin_logits_length; lia).
  rewrite map_length, bin_logits_length. apply smx_ext; [|lia].
  intros c Hc. unfold zrow. cbn [ndiv Rops].
  rewrite (nth_map_in (fun l => l / temp) _ c 0 0) by (rewrite bin_logits_length; exact Hc). reflexivity.
Qed.
Lemma bins_simplex temp x cuts :
  length (bins Rops temp x cuts) = S (length cuts) /\
  List.Forall (fun v => 0 < v) (bins Rops temp x cuts) /\ lsumR (bins Rops temp x cuts) = 1.
Proof.
  split; [apply bins_length|]. split; [apply softmax_list_pos|]. unfold bins. apply softmax_list_sum.
  intros E. apply (f_equal (@length R)) in E. rewrite map_length, bin_logits_length in E. discriminate.
Qed.
Lemma bins_le_1 temp x cuts k : (k <= length cuts)%nat -> nth k (bins Rops temp x cuts) 0 <= 1.
Proof.
  intros Hk. destruct (bins_simplex temp x cuts) as (Hl & Hp & Hs).
  rewrite lsumR_as_rsum, Hl in Hs. rewrite <- Hs.
  set (f := fun j => nth j (bins Rops temp x cuts) 0).
  assert (Hf : forall j, (j < S (length cuts))%nat -> 0 <= f j).
  { intros j Hj. unfold f. rewrite Forall_forall in Hp. apply Rlt_le, Hp, nth_In. rewrite Hl. exact Hj. }
  assert (G : forall N, (N <= S (length cuts))%nat -> (k < N)%nat -> f k <= rsum N f).
  { induction N as [|N IH]; intros HN HkN; [lia|]. rewrite rsum_S.
    destruct (Nat.eq_dec k N) as [->|Hne].
    - assert (0 <= rsum N f) by (apply rsum_nonneg; intros; apply Hf; lia). lra.
    - specialize (IH ltac:(lia) ltac:(lia)). specialize (Hf N ltac:(lia)). lra. }
  apply (G (S (length cuts))); lia.
Qed.

Lemma argmax_membership temp cuts x : 0 < temp -> (forall c, In c cuts -> c <> x) ->
  forall j, (j <= length cuts)%nat -> j <> count_below x cuts ->
    nth j (bins Rops temp x cuts) 0 < nth (count_below x cuts) (bins Rops temp x cuts) 0.
Proof.
  intros HT H j Hj Hne. destruct (argmax_logit cuts x H) as (_ & Hk & Hlt).
  rewrite !bins_nth by assumption. apply smx_lt; [lia|]. unfold zrow.
  unfold Rdiv. apply Rmult_lt_compat_r; [apply Rinv_0_lt_compat; exact HT | apply Hlt; assumption].
Qed.

(* sum with one distinguished term equal to 1 and all the others at most q *)
Lemma rsum_one_plus_small n (f : nat -> R) k q : (k <= n)%nat -> f k = 1 ->
  (forall c, (c <= n)%nat -> c <> k -> f c <= q) -> rsum (S n) f <= 1 + INR n * q.
Proof.
  intros Hk Hfk Hq.
  eapply Rle_trans; [apply (rsum_le (S n) f (fun c => q + (if Nat.eq_dec c k then 1 - q else 0)))|].
  - intros c Hc. destruct (Nat.eq_dec c k) as [->|Hne]; [lra|]. specialize (Hq c ltac:(lia) Hne). lra.
  - rewrite rsum_plus, rsum_const, S_INR.
    rewrite (rsum_single (S n) k); [| lia | intros i _ Hi; destruct (Nat.eq_dec i k); [contradiction | reflexivity]].
    destruct (Nat.eq_dec k k); [lra | contradiction].
Qed.

Lemma membership_bound cuts x temp g : 0 < temp -> 0 < g -> (forall c, In c cuts -> g <= Rabs (x - c)) ->
  1 / (1 + INR (length cuts) * exp (- g / temp)) <= nth (count_below x cuts) (bins Rops temp x cuts) 0.
Proof.
  intros HT Hg Hgap. set (k := count_below x cuts). set (n := length cuts).
  assert (Hk : (k <= n)%nat) by apply count_below_le.
  rewrite bins_nth by exact Hk. rewrite smx_inv by lia. fold n.
  set (f := fun c => exp (zrow temp x cuts c - zrow temp x cuts k)).
  assert (Hpos : 0 < rsum (S n) f) by (apply (rsum_exp_pos (S n) (fun c => zrow temp x cuts c - zrow temp x cuts k)); lia).
  assert (Hle : rsum (S n) f <= 1 + INR n * exp (- g / temp)).
  { apply (rsum_one_plus_small n f k); [exact Hk | unfold f; rewrite Rminus_diag_eq by reflexivity; apply exp_0 |].
    intros c Hc Hne. unfold f. destruct (Rle_dec (zrow temp x cuts c - zrow temp x cuts k) (- g / temp)) as [H|H].
    - destruct H as [H|H]; [left; apply exp_increasing; exact H | right; rewrite H; reflexivity].
    - exfalso. apply H. unfold zrow. pose proof (logit_margin x g cuts c Hg Hgap Hc Hne) as Hm. fold k in Hm.
      unfold Rdiv. rewrite <- Rmult_minus_distr_r. apply Rmult_le_compat_r; [left; apply Rinv_0_lt_compat; exact HT | lra]. }
  unfold Rdiv. rewrite Rmult_1_l. apply Rinv_le_contravar; assumption.
Qed.

(* explicit rate: 1 - n T / g <= membership <= 1 *)
Lemma exp_neg_le_inv y : 0 < y -> exp (- y) <= / y.
Proof.
  intros Hy. rewrite exp_Ropp. apply Rinv_le_contravar; [exact Hy|].
  pose proof (exp_ineq1 y ltac:(lra)). lra.
Qed.
Lemma membership_rate cuts x temp g : 0 < temp -> 0 < g -> (forall c, In c cuts -> g <= Rabs (x - c)) ->
  1 - INR (length cuts) * (temp / g) <= nth (count_below x cuts) (bins Rops temp x cuts) 0 <= 1.
Proof.
  intros HT Hg Hgap. split; [|apply bins_le_1, count_below_le].
  eapply Rle_trans; [|apply (membership_bound cuts x temp g HT Hg Hgap)].
  set (n := INR (length cuts)). assert (Hn : 0 <= n) by apply pos_INR.
  assert (Hq : exp (- g / temp) <= temp / g).
  { replace (- g / temp) with (- (g / temp)) by (field; lra).
    eapply Rle_trans; [apply exp_neg_le_inv; apply Rdiv_lt_0_compat; assumption|].
    right. field. split; lra. }
  pose proof (exp_pos (- g / temp)) as Hq0. set (q := exp (- g / temp)) in *.
  assert (Hnq : 0 <= n * q) by (apply Rmult_le_pos; lra).
  assert (Hnq2 : n * q <= n * (temp / g)) by (apply Rmult_le_compat_l; lra).
  apply (Rmult_le_reg_r (1 + n * q)); [lra|].
  replace (1 / (1 + n * q) * (1 + n * q)) with 1 by (field; lra). nra.
Qed.

(* the limit itself: as the temperature tends to 0 from above the membership of bin #{c < x} tends to 1 *)
Lemma lin_right (n g : R) : 0 <= n -> 0 < g -> filterlim (fun temp : R => 1 - n * (temp / g)) (at_right 0) (Rbar_locally 1).
Proof.
  intros Hn Hg P [eps HP].
  assert (Hd : 0 < eps * g / (n + 1)). { apply Rdiv_lt_0_compat; [apply Rmult_lt_0_compat; [apply cond_pos | exact Hg] | lra]. }
  exists (mkposreal _ Hd). intros y Hy Hpos. apply HP.
  unfold ball in Hy. simpl in Hy. unfold AbsRing_ball, abs, minus, plus, opp in Hy. simpl in Hy.
  replace (y + - 0) with y in Hy by lra. rewrite Rabs_right in Hy by lra.
  unfold ball; simpl; unfold AbsRing_ball, abs, minus, plus, opp; simpl.
  match goal with |- Rabs ?e < _ => replace e with (- (n * (y / g))) by lra end. rewrite Rabs_Ropp.
  assert (Hyg : 0 <= y / g) by (apply Rlt_le, Rdiv_lt_0_compat; assumption).
  rewrite Rabs_right by (apply Rle_ge, Rmult_le_pos; assumption).
  assert (y / g < eps / (n + 1)).
  { replace (eps / (n + 1)) with (eps * g / (n + 1) / g) by (field; lra).
    unfold Rdiv at 1 3. apply Rmult_lt_compat_r; [apply Rinv_0_lt_compat; exact Hg | exact Hy]. }
  pose proof (cond_pos eps) as He0. set (e := pos eps) in *.
  assert (He : e = (n + 1) * (e / (n + 1))) by (field; lra).
  assert (0 < e / (n+1)) by (apply Rdiv_lt_0_compat; lra).
  rewrite He. nra.
Qed.
Lemma membership_limit cuts x : (forall c, In c cuts -> c <> x) ->
  filterlim (fun temp : R => nth (count_below x cuts) (bins Rops temp x cuts) 0) (at_right 0) (locally 1).
Proof.
  intros H. destruct (gap_exists x cuts H) as (g & Hg & Hgap).
  set (n := INR (length cuts)). assert (Hn : 0 <= n) by apply pos_INR.
  apply (filterlim_le_le (F := at_right 0) (fun temp : R => 1 - n * (temp / g)) _ (fun _ : R => 1) (Finite 1)).
  - exists (mkposreal 1 Rlt_0_1). intros temp _ HT. apply membership_rate; assumption.
  - apply lin_right; assumption.
  - apply filterlim_const.
Qed.

(* ------------------------------------------------------------------ Kronecker merge *)
Lemma merge_cons a l1 l2 : merge Rops (a :: l1) l2 = map (fun b => a * b) l2 ++ merge Rops l1 l2.
Proof. reflexivity. Qed.
Lemma merge_sum l1 l2 : lsumR (merge Rops l1 l2) = lsumR l1 * lsumR l2.
Proof.
  induction l1 as [|a l1 IH]; [simpl; lra|]. rewrite merge_cons, lsumR_app, lsumR_map_scal, IH. simpl. lra.
Qed.
Lemma merge_pos l1 l2 : List.Forall (fun v => 0 < v) l1 -> List.Forall (fun v => 0 < v) l2 -> List.Forall (fun v => 0 < v) (merge Rops l1 l2).
Proof.
  intros H1 H2. induction H1 as [|a l1 Ha _ IH]; [constructor|]. rewrite merge_cons. apply Forall_app. split; [|exact IH].
  apply Forall_forall. intros v Hv. apply in_map_iff in Hv. destruct Hv as (b & <- & Hb).
  rewrite Forall_forall in H2. apply Rmult_lt_0_compat; [exact Ha | apply H2; exact Hb].
Qed.
Definition prob_vec (l : list R) : Prop := List.Forall (fun v => 0 < v) l /\ lsumR l = 1.
Lemma fold_merge_simplex r : forall b, prob_vec b -> List.Forall prob_vec r -> prob_vec (fold_left (merge Rops) r b).
Proof.
  induction r as [|c r IH]; intros b Hb Hr; [exact Hb|]. cbn [fold_left].
  inversion Hr as [|? ? Hc Hr']; subst. apply IH; [|exact Hr'].
  destruct Hb as [Hb1 Hb2], Hc as [Hc1 Hc2]. split; [apply merge_pos; assumption | rewrite merge_sum, Hb2, Hc2; lra].
Qed.
Lemma merge_is_simplex bs lf : List.Forall prob_vec bs -> leaf_of_bins Rops bs = Some lf -> prob_vec lf.
Proof.
  intros H E. destruct bs as [|b r]; [discriminate|]. cbn [leaf_of_bins] in E. injection E as <-.
  inversion H; subst. apply fold_merge_simplex; assumption.
Qed.
Lemma all_bins_simplex temp cpl x : List.Forall prob_vec (all_bins Rops temp cpl x).
Proof.
  unfold all_bins. apply Forall_forall. intros b Hb. apply in_map_iff in Hb. destruct Hb as (fc & <- & _).
  destruct (bins_simplex temp (x (fst fc)) (snd fc)) as (_ & Hp & Hs). split; assumption.
Qed.
Lemma leaf_simplex temp cpl x lf : leaf Rops temp cpl x = Some lf -> prob_vec lf.
Proof. apply merge_is_simplex, all_bins_simplex. Qed.

(* ------------------------------------------------------------------ structural facts, any number system *)
Section Structural.
Context {T : Type} (o : NumOps T).
Lemma merge_length (l1 l2 : list T) : length (merge o l1 l2) = (length l1 * length l2)%nat.
Proof.
  induction l1 as [|a l1 IH]; [reflexivity|]. unfold merge in *. cbn [flat_map length].
  rewrite app_length, map_length, IH. lia.
Qed.
Lemma insert_length (x : T) l : length (insert o x l) = S (length l).
Proof. induction l as [|h t IH]; [reflexivity|]. cbn [insert]. destruct (nleb o x h); cbn [length]; [reflexivity | rewrite IH; reflexivity]. Qed.
Lemma sort_cuts_length_gen (l : list T) : length (sort_cuts o l) = length l.
Proof. induction l as [|x l IH]; [reflexivity|]. cbn [sort_cuts]. rewrite insert_length, IH. reflexivity. Qed.
Lemma cumbias_length_gen acc (s : list T) : length (cumbias o acc s) = S (length s).
Proof. revert acc. induction s as [|c r IH]; intros acc; [reflexivity|]. cbn [cumbias length]. rewrite IH. reflexivity. Qed.
Lemma logits_from_length_gen i x (bs : list T) : length (logits_from o i x bs) = length bs.
Proof. revert i. induction bs as [|b r IH]; intros i; [reflexivity|]. cbn [logits_from length]. rewrite IH. reflexivity. Qed.
Lemma bins_length_gen temp x (cuts : list T) : length (bins o temp x cuts) = S (length cuts).
Proof.
  unfold bins, softmax_list, bin_logits, bias.
  rewrite map_length, seq_length, map_length, logits_from_length_gen, cumbias_length_gen, sort_cuts_length_gen. reflexivity.
Qed.
Lemma fold_merge_length_gen m (r : list (list T)) : forall b, List.Forall (fun c => length c = m) r ->
  length (fold_left (merge o) r b) = (length b * m ^ length r)%nat.
Proof.
  induction r as [|c r IH]; intros b Hr; cbn [fold_left length Nat.pow]; [lia|].
  inversion Hr as [|? ? Hc Hr']. rewrite (IH _ Hr'), merge_length, Hc. lia.
Qed.
Lemma fold_merge_length m (r : list (list T)) b : length b = m -> List.Forall (fun c => length c = m) r ->
  length (fold_left (merge o) r b) = (m ^ S (length r))%nat.
Proof. intros Hb Hr. rewrite (fold_merge_length_gen m r b Hr), Hb. cbn [Nat.pow]. reflexivity. Qed.

(* features of the cut list = features selected by the mask, in increasing order *)
Lemma init_cuts_features d mask (draw : nat -> list T) cpl :
  init_cuts d mask draw = Some cpl -> used_features d mask = Some (map fst cpl).
Proof.
  unfold init_cuts. destruct (used_features d mask) as [u|]; [|discriminate]. cbn [option_map]. intros E. injection E as <-.
  f_equal. assert (G : forall (w : list nat) (v : list (list T)), length w = length v -> map fst (combine w v) = w).
  { clear. induction w as [|a w IH]; intros [|b v] Hl; try reflexivity; try discriminate. cbn [combine map fst]. rewrite IH; [reflexivity | simpl in Hl; lia]. }
  symmetry. apply G. rewrite map_length, seq_length. reflexivity.
Qed.
Lemma init_cuts_sizes d mask (draw : nat -> list T) cpl n_cuts :
  init_cuts d mask draw = Some cpl -> (forall j, length (draw j) = n_cuts) -> List.Forall (fun fc => length (snd fc) = n_cuts) cpl.
Proof.
  unfold init_cuts. destruct (used_features d mask) as [u|]; [|discriminate]. cbn [option_map]. intros E Hd. injection E as <-.
  apply Forall_forall. intros [f c] Hin. apply in_combine_r in Hin. apply in_map_iff in Hin. destruct Hin as (j & <- & _). apply Hd.
Qed.
Lemma used_features_mask d m u : used_features d (Some m) = Some u ->
  length m = d /\ forall f, In f u <-> (f < d)%nat /\ nth f m false = true.
Proof.
  cbn [used_features]. destruct (length m =? d)%nat eqn:E; [|discriminate]. apply Nat.eqb_eq in E.
  destruct (existsb (fun b : bool => b) m); [|discriminate]. intros H. injection H as <-.
  split; [exact E|]. intros f. rewrite filter_In, in_seq. split; intros [A B]; split; try assumption; lia.
Qed.

Lemma used_features_nonempty d m u : used_features d (Some m) = Some u -> u <> [].
Proof.
  cbn [used_features]. destruct (length m =? d)%nat eqn:E; [|discriminate]. apply Nat.eqb_eq in E.
  destruct (existsb (fun b : bool => b) m) eqn:Ex; [|discriminate]. intros H. injection H as <-.
  apply existsb_exists in Ex. destruct Ex as (b & Hb & ->). destruct (In_nth m true false Hb) as (i & Hi & Hn).
  intros Hnil. assert (Hin : In i (filter (fun i0 => nth i0 m false) (seq 0 d))).
  { apply filter_In. split; [apply in_seq; lia | exact Hn]. }
  rewrite Hnil in Hin. exact Hin.
Qed.

Definition n_used (d : nat) (mask : option (list bool)) : nat :=
  match mask with None => d | Some m => length (filter (fun b : bool => b) m) end.
Lemma filter_seq_nth (m : list bool) : forall s,
  length (filter (fun i => nth (i - s) m false) (seq s (length m))) = length (filter (fun b : bool => b) m).
Proof.
  induction m as [|b m IH]; intros s; [reflexivity|]. cbn [length seq filter].
  assert (E : filter (fun i => nth (i - s) (b :: m) false) (seq (S s) (length m)) = filter (fun i => nth (i - S s) m false) (seq (S s) (length m))).
  { apply filter_ext_in. intros i Hi. apply in_seq in Hi. replace (i - s)%nat with (S (i - S s)) by lia. reflexivity. }
  rewrite E, Nat.sub_diag. cbn [nth]. destruct b; cbn [length]; rewrite IH; reflexivity.
Qed.
Lemma used_features_count d mask u : used_features d mask = Some u -> length u = n_used d mask.
Proof.
  destruct mask as [m|]; cbn [used_features n_used].
  - destruct (length m =? d)%nat eqn:E; [|discriminate]. apply Nat.eqb_eq in E.
    destruct (existsb (fun b : bool => b) m); [|discriminate]. intros H. injection H as <-. subst d.
    rewrite <- (filter_seq_nth m 0). f_equal. apply filter_ext. intros i. rewrite Nat.sub_0_r. reflexivity.
  - intros H. injection H as <-. apply seq_length.
Qed.

Lemma leaf_count d mask (draw : nat -> list T) n_cuts cpl temp x :
  init_cuts d mask draw = Some cpl -> (forall j, length (draw j) = n_cuts) ->
  length cpl = n_used d mask /\ num_leaf n_cuts cpl = (S n_cuts ^ n_used d mask)%nat /\
  (forall lf, leaf o temp cpl x = Some lf -> length lf = (S n_cuts ^ n_used d mask)%nat) /\
  (leaf o temp cpl x = None <-> n_used d mask = 0%nat).
Proof.
  intros Hi Hd. pose proof (init_cuts_features _ _ _ _ Hi) as Hu. apply used_features_count in Hu. rewrite map_length in Hu.
  pose proof (init_cuts_sizes _ _ _ _ _ Hi Hd) as Hs. rewrite <- Hu.
  split; [reflexivity|]. split; [reflexivity|]. unfold leaf, all_bins. destruct cpl as [|fc r]; cbn [map leaf_of_bins length].
  - split; [intros lf E; discriminate | split; reflexivity].
  - split; [|split; [discriminate | lia]]. intros lf E. injection E as <-.
    inversion Hs as [|? ? Hfc Hr]; subst. rewrite (fold_merge_length (S (length (snd fc)))).
    + rewrite map_length. reflexivity.
    + apply bins_length_gen.
    + apply Forall_forall. intros b Hb. apply in_map_iff in Hb. destruct Hb as (fc' & <- & Hin).
      rewrite bins_length_gen. rewrite Forall_forall in Hr. rewrite (Hr fc' Hin). reflexivity.
Qed.

(* predictions only read the columns listed in the cut list *)
Lemma all_bins_agree temp cpl (x x' : nat -> T) : (forall f, In f (map fst cpl) -> x f = x' f) ->
  all_bins o temp cpl x = all_bins o temp cpl x'.
Proof.
  intros H. unfold all_bins. apply map_ext_in. intros fc Hfc. rewrite (H (fst fc)); [reflexivity|]. apply in_map. exact Hfc.
Qed.
Lemma infer_row_agree temp cpl K S (x x' : nat -> T) : (forall f, In f (map fst cpl) -> x f = x' f) ->
  infer_row o temp cpl K S x = infer_row o temp cpl K S x'.
Proof. intros H. unfold infer_row, leaf. rewrite (all_bins_agree temp cpl x x' H). reflexivity. Qed.

Lemma masked_feature_inert d (mask : list bool) cpl temp K S (X X' : nat -> nat -> T) i :
  used_features d (Some mask) = Some (map fst cpl) ->
  (forall f, (f < d)%nat -> nth f mask false = true -> X i f = X' i f) ->
  infer o temp cpl K S X i = infer o temp cpl K S X' i.
Proof.
  intros Hu H. unfold infer. apply infer_row_agree. intros f Hf.
  destruct (used_features_mask _ _ _ Hu) as [_ Hm]. apply Hm in Hf. destruct Hf as [A B]. apply H; assumption.
Qed.
End Structural.

(* ------------------------------------------------------------------ find_active_points *)
Lemma nmin_R a b : nmin Rops a b = Rmin a b.
Proof.
  unfold nmin. cbn [nltb Rops]. unfold Rmin. destruct (Rle_dec a b) as [H|H].
  - rewrite Rltb_false by lra. reflexivity.
  - rewrite Rltb_true by lra. reflexivity.
Qed.
Lemma nmax_R a b : nmax Rops a b = Rmax a b.
Proof.
  unfold nmax. cbn [nltb Rops]. unfold Rmax. destruct (Rle_dec a b) as [H|H].
  - destruct H as [H|H]; [rewrite Rltb_true by lra; reflexivity | rewrite Rltb_false by lra; exact H].
  - rewrite Rltb_false by lra. reflexivity.
Qed.
Lemma colmin_spec n col : (0 < n)%nat ->
  (forall i, (i < n)%nat -> colmin Rops n col <= col i) /\ (exists i, (i < n)%nat /\ colmin Rops n col = col i).
Proof.
  induction n as [|n IH]; intros Hn; [lia|]. destruct n as [|n].
  - cbn [colmin]. split; [intros i Hi; replace i with 0%nat by lia; lra | exists 0%nat; split; [lia | reflexivity]].
  - change (colmin Rops (S (S n)) col) with (nmin Rops (colmin Rops (S n) col) (col (S n))). rewrite nmin_R.
    destruct (IH ltac:(lia)) as [A (i0 & Hi0 & E)]. split.
    + intros i Hi. destruct (Nat.eq_dec i (S n)) as [->|Hne]; [apply Rmin_r|].
      eapply Rle_trans; [apply Rmin_l | apply A; lia].
    + unfold Rmin. destruct (Rle_dec (colmin Rops (S n) col) (col (S n))); [exists i0; split; [lia | exact E] | exists (S n); split; [lia | reflexivity]].
Qed.
Lemma colmax_spec n col : (0 < n)%nat ->
  (forall i, (i < n)%nat -> col i <= colmax Rops n col) /\ (exists i, (i < n)%nat /\ colmax Rops n col = col i).
Proof.
  induction n as [|n IH]; intros Hn; [lia|]. destruct n as [|n].
  - cbn [colmax]. split; [intros i Hi; replace i with 0%nat by lia; lra | exists 0%nat; split; [lia | reflexivity]].
  - change (colmax Rops (S (S n)) col) with (nmax Rops (colmax Rops (S n) col) (col (S n))). rewrite nmax_R.
    destruct (IH ltac:(lia)) as [A (i0 & Hi0 & E)]. split.
    + intros i Hi. destruct (Nat.eq_dec i (S n)) as [->|Hne]; [apply Rmax_r|].
      eapply Rle_trans; [apply A; lia | apply Rmax_l].
    + unfold Rmax. destruct (Rle_dec (colmax Rops (S n) col) (col (S n))); [exists (S n); split; [lia | reflexivity] | exists i0; split; [lia | exact E]].
Qed.

(* a cut point strictly inside the range taken by feature f in the data *)
Definition cut_inside (nrows : nat) (X : nat -> nat -> R) (f : nat) (cuts : list R) : Prop :=
  exists c, In c cuts /\ (exists i, (i < nrows)%nat /\ X i f < c) /\ (exists j, (j < nrows)%nat /\ c < X j f).
Lemma active_feature_spec nrows X f cuts : (0 < nrows)%nat ->
  active_feature Rops nrows X (f, cuts) = true <-> cut_inside nrows X f cuts.
Proof.
  intros Hn. unfold active_feature, cut_inside. cbn [fst snd]. rewrite existsb_exists.
  destruct (colmin_spec nrows (fun i => X i f) Hn) as [Amin (imin & Himin & Emin)].
  destruct (colmax_spec nrows (fun i => X i f) Hn) as [Amax (imax & Himax & Emax)].
  split.
  - intros (c & Hc & Hb). apply andb_true_iff in Hb. destruct Hb as [B1 B2]. cbn [nltb Rops] in B1, B2.
    apply Rltb_iff in B1. apply Rltb_iff in B2. exists c. split; [exact Hc|]. split.
    + exists imin. split; [exact Himin | rewrite <- Emin; exact B1].
    + exists imax. split; [exact Himax | rewrite <- Emax; exact B2].
  - intros (c & Hc & (i & Hi & Hlo) & (j & Hj & Hhi)). exists c. split; [exact Hc|].
    apply andb_true_iff. cbn [nltb Rops]. split; apply Rltb_iff.
    + eapply Rle_lt_trans; [apply (Amin i Hi) | exact Hlo].
    + eapply Rlt_le_trans; [exact Hhi | apply (Amax j Hj)].
Qed.

Lemma py_max_nat_spec l : match py_max_nat l with
  | None => l = []
  | Some m => In m l /\ forall a, In a l -> (a <= m)%nat end.
Proof.
  induction l as [|a r IH]; [reflexivity|]. cbn [py_max_nat]. destruct (py_max_nat r) as [m|].
  - destruct IH as [Hin Hle]. split.
    + destruct (Nat.max_spec a m) as [[_ ->]|[_ ->]]; [right; exact Hin | left; reflexivity].
    + intros b [<-|Hb]; [apply Nat.le_max_l | eapply Nat.le_trans; [apply Hle; exact Hb | apply Nat.le_max_r]].
  - subst r. split; [left; reflexivity | intros b [<-|[]]; lia].
Qed.

Lemma active_points_spec nrows ncols X cpl : (0 < nrows)%nat -> cpl <> [] ->
  (forall fc, In fc cpl -> (fst fc < ncols)%nat) ->
  exists l, find_active_points Rops nrows ncols X cpl = FapOk l /\
    l = map fst (filter (active_feature Rops nrows X) cpl) /\
    (forall f, In f l <-> exists cuts, In (f, cuts) cpl /\ cut_inside nrows X f cuts).
Proof.
  intros Hn Hne Hlt. unfold find_active_points.
  assert (Hc : (0 < ncols)%nat).
  { destruct cpl as [|fc r]; [contradiction|]. specialize (Hlt fc (or_introl eq_refl)). lia. }
  assert (E1 : ((nrows =? 0) || (ncols =? 0))%nat = false).
  { apply orb_false_iff. split; apply Nat.eqb_neq; lia. }
  rewrite E1. pose proof (py_max_nat_spec (map fst cpl)) as Hmax.
  destruct (py_max_nat (map fst cpl)) as [mx|].
  2:{ destruct cpl; [contradiction | discriminate]. }
  destruct Hmax as [Hin _]. apply in_map_iff in Hin. destruct Hin as (fc & <- & Hfc).
  assert (E2 : (ncols <=? fst fc)%nat = false) by (apply Nat.leb_gt, Hlt; exact Hfc).
  rewrite E2.
  assert (E3 : forallb (fun fc0 : nat * list R => (fst fc0 <? ncols)%nat) cpl = true).
  { apply forallb_forall. intros fc0 Hfc0. apply Nat.ltb_lt. apply Hlt. exact Hfc0. }
  rewrite E3. eexists. split; [reflexivity|]. split; [reflexivity|].
  intros f. rewrite in_map_iff. split.
  - intros ([f' cuts] & Hf & Hin). cbn [fst] in Hf. subst f'. apply filter_In in Hin. destruct Hin as [Hin Ha].
    exists cuts. split; [exact Hin | apply (active_feature_spec nrows X f cuts Hn); exact Ha].
  - intros (cuts & Hin & Hci). exists (f, cuts). split; [reflexivity|]. apply filter_In. split; [exact Hin|].
    apply (active_feature_spec nrows X f cuts Hn). exact Hci.
Qed.

(* data lacking a used column is rejected with ValueError; IndexError cannot happen any more *)
Lemma active_points_narrow nrows ncols (X : nat -> nat -> R) cpl :
  (exists fc, In fc cpl /\ (ncols <= fst fc)%nat) -> find_active_points Rops nrows ncols X cpl = FapValueError.
Proof.
  intros (fc & Hfc & Hle). unfold find_active_points. destruct ((nrows =? 0) || (ncols =? 0))%nat; [reflexivity|].
  pose proof (py_max_nat_spec (map fst cpl)) as Hmax. destruct (py_max_nat (map fst cpl)) as [mx|]; [|reflexivity].
  destruct Hmax as [_ Hm]. assert (fst fc <= mx)%nat by (apply Hm, in_map; exact Hfc).
  assert (E : (ncols <=? mx)%nat = true) by (apply Nat.leb_le; lia). rewrite E. reflexivity.
Qed.
Lemma active_points_never_index_error nrows ncols (X : nat -> nat -> R) cpl :
  find_active_points Rops nrows ncols X cpl <> FapIndexError.
Proof.
  unfold find_active_points. destruct ((nrows =? 0) || (ncols =? 0))%nat; [discriminate|].
  pose proof (py_max_nat_spec (map fst cpl)) as Hmax. destruct (py_max_nat (map fst cpl)) as [mx|]; [|discriminate].
  destruct Hmax as [_ Hm]. destruct (ncols <=? mx)%nat eqn:E; [discriminate|]. apply Nat.leb_gt in E.
  assert (E3 : forallb (fun fc0 : nat * list R => (fst fc0 <? ncols)%nat) cpl = true).
  { apply forallb_forall. intros fc0 Hfc0. apply Nat.ltb_lt. assert (fst fc0 <= mx)%nat by (apply Hm, in_map; exact Hfc0). lia. }
  rewrite E3. discriminate.
Qed.

(* ------------------------------------------------------------------ grid cells: the prediction inside a cell *)
Definition kof (x : nat -> R) (fc : nat * list R) : nat := count_below (x (fst fc)) (snd fc).
(* leaf index of the cell: mixed-radix number of the per-feature counts, most significant = first used feature *)
Fixpoint cell_from (idx : nat) (r : list (nat * list R)) (x : nat -> R) : nat :=
  match r with [] => idx | fc :: r' => cell_from (idx * S (length (snd fc)) + kof x fc) r' x end.
Definition cell_index (cpl : list (nat * list R)) (x : nat -> R) : nat :=
  match cpl with [] => 0%nat | fc :: r => cell_from (kof x fc) r x end.
Lemma cell_from_counts r x x' : map (kof x) r = map (kof x') r -> forall idx, cell_from idx r x = cell_from idx r x'.
Proof.
  induction r as [|fc r IH]; intros E idx; [reflexivity|]. cbn [map] in E. injection E as E1 E2.
  cbn [cell_from]. rewrite E1. apply IH. exact E2.
Qed.
(* the cell depends only on how many cut points lie below the value, feature by feature *)
Lemma cell_index_counts cpl x x' : map (kof x) cpl = map (kof x') cpl -> cell_index cpl x = cell_index cpl x'.
Proof.
  destruct cpl as [|fc r]; [reflexivity|]. cbn [map cell_index]. intros E. injection E as E1 E2.
  rewrite E1. apply cell_from_counts. exact E2.
Qed.

Definition mem (temp : R) (x : nat -> R) (fc : nat * list R) : R :=
  nth (kof x fc) (bins Rops temp (x (fst fc)) (snd fc)) 0.
Fixpoint cellprob_from (p : R) (r : list (nat * list R)) (x : nat -> R) (temp : R) : R :=
  match r with [] => p | fc :: r' => cellprob_from (p * mem temp x fc) r' x temp end.

Lemma merge_nth l1 : forall l2 a b, (a < length l1)%nat -> (b < length l2)%nat ->
  nth (a * length l2 + b) (merge Rops l1 l2) 0 = nth a l1 0 * nth b l2 0.
Proof.
  induction l1 as [|h l1 IH]; intros l2 a b Ha Hb; [simpl in Ha; lia|]. rewrite merge_cons.
  destruct a as [|a].
  - cbn [Nat.mul Nat.add nth]. rewrite app_nth1 by (rewrite map_length; exact Hb).
    rewrite (nth_map_in (fun v => h * v) l2 b 0 0 Hb). reflexivity.
  - rewrite app_nth2 by (rewrite map_length; lia). rewrite map_length.
    replace (S a * length l2 + b - length l2)%nat with (a * length l2 + b)%nat by lia.
    cbn [nth]. apply IH; [simpl in Ha; lia | exact Hb].
Qed.

Lemma fold_cell temp x r : forall b idx, (idx < length b)%nat ->
  (cell_from idx r x < length (fold_left (merge Rops) (map (fun fc => bins Rops temp (x (fst fc)) (snd fc)) r) b))%nat /\
  nth (cell_from idx r x) (fold_left (merge Rops) (map (fun fc => bins Rops temp (x (fst fc)) (snd fc)) r) b) 0
    = cellprob_from (nth idx b 0) r x temp.
Proof.
  induction r as [|fc r IH]; intros b idx Hidx; cbn [map fold_left cell_from cellprob_from]; [split; [exact Hidx | reflexivity]|].
  set (bn := bins Rops temp (x (fst fc)) (snd fc)).
  assert (Hlen : length bn = S (length (snd fc))) by apply bins_length.
  assert (Hk : (kof x fc < length bn)%nat). { rewrite Hlen. unfold kof. pose proof (count_below_le (x (fst fc)) (snd fc)). lia. }
  rewrite <- Hlen.
  assert (Hi : (idx * length bn + kof x fc < length (merge Rops b bn))%nat) by (rewrite merge_length; nia).
  destruct (IH (merge Rops b bn) (idx * length bn + kof x fc)%nat Hi) as [A B]. split; [exact A|].
  rewrite B. rewrite merge_nth by assumption. reflexivity.
Qed.

Lemma cellprob_lower beta temp x r : 0 <= beta -> (forall fc, In fc r -> beta <= mem temp x fc) ->
  forall p, 0 <= p -> p * beta ^ length r <= cellprob_from p r x temp.
Proof.
  intros Hb. induction r as [|fc r IH]; intros Hm p Hp; cbn [length cellprob_from pow]; [lra|].
  assert (Hfc : beta <= mem temp x fc) by (apply Hm; left; reflexivity).
  assert (Hpm : 0 <= p * mem temp x fc) by (apply Rmult_le_pos; lra).
  eapply Rle_trans; [|apply IH; [intros fc' H'; apply Hm; right; exact H' | exact Hpm]].
  assert (Hpow : 0 <= beta ^ length r) by (apply pow_le; exact Hb).
  replace (p * (beta * beta ^ length r)) with (p * beta * beta ^ length r) by ring.
  apply Rmult_le_compat_r; [exact Hpow | apply Rmult_le_compat_l; assumption].
Qed.

Lemma one_minus_pow beta m : 0 <= beta <= 1 -> 1 - beta ^ m <= INR m * (1 - beta).
Proof.
  intros [H0 H1]. induction m as [|m IH]; [simpl; lra|]. rewrite S_INR. cbn [pow].
  assert (Hp : 0 <= beta ^ m <= 1). { split; [apply pow_le; exact H0 | rewrite <- (pow1 m); apply pow_incr; split; assumption]. }
  nra.
Qed.

Lemma rsum_ge_term n (f : nat -> R) k : (forall i, (i < n)%nat -> 0 <= f i) -> (k < n)%nat -> f k <= rsum n f.
Proof.
  intros Hf. induction n as [|n IH]; intros Hk; [lia|]. rewrite rsum_S.
  destruct (Nat.eq_dec k n) as [->|Hne].
  - assert (0 <= rsum n f) by (apply rsum_nonneg; intros; apply Hf; lia). lra.
  - assert (f k <= rsum n f) by (apply IH; [intros; apply Hf; lia | lia]). specialize (Hf n ltac:(lia)). lra.
Qed.

Lemma leaf_logits_R lf S k : leaf_logits Rops lf S k = rsum (length lf) (fun l => nth l lf 0 * S l k).
Proof. reflexivity. Qed.

(* a probability vector concentrated on index c yields logits close to row c of the scores *)
Lemma leaf_logit_close lf (S : nat -> nat -> R) c k M : prob_vec lf -> (c < length lf)%nat ->
  (forall l, (l < length lf)%nat -> Rabs (S l k) <= M) ->
  Rabs (leaf_logits Rops lf S k - S c k) <= 2 * M * (1 - nth c lf 0).
Proof.
  intros [Hpos Hsum] Hc HM. rewrite leaf_logits_R. set (L := length lf) in *. set (w := fun l => nth l lf 0).
  assert (Hw : forall l, (l < L)%nat -> 0 < w l). { intros l Hl. unfold w. rewrite Forall_forall in Hpos. apply Hpos, nth_In. exact Hl. }
  assert (Hs1 : rsum L w = 1). { rewrite <- Hsum. symmetry. apply lsumR_as_rsum. }
  assert (E : rsum L (fun l => w l * S l k) - S c k = rsum L (fun l => w l * (S l k - S c k))).
  { rewrite (rsum_ext L (fun l => w l * (S l k - S c k)) (fun l => w l * S l k - w l * S c k)) by (intros; ring).
    rewrite rsum_minus, rsum_scal_r, Hs1. ring. }
  change (Rabs (rsum L (fun l => w l * S l k) - S c k) <= 2 * M * (1 - w c)).
  rewrite E. eapply Rle_trans; [apply rsum_abs_le|].
  pose proof (HM c Hc) as HMc. assert (HM0 : 0 <= M) by (eapply Rle_trans; [apply Rabs_pos | exact HMc]).
  eapply Rle_trans; [apply (rsum_le L _ (fun l => 2 * M * (w l - (if Nat.eq_dec l c then w c else 0))))|].
  - intros l Hl. destruct (Nat.eq_dec l c) as [->|Hne].
    + replace (S c k - S c k) with 0 by ring. rewrite Rmult_0_r, Rabs_R0. lra.
    + rewrite Rabs_mult, (Rabs_right (w l)) by (left; apply Hw; exact Hl).
      assert (Rabs (S l k - S c k) <= 2 * M).
      { unfold Rminus. eapply Rle_trans; [apply Rabs_triang|]. rewrite Rabs_Ropp. specialize (HM l Hl). lra. }
      specialize (Hw l Hl). nra.
  - rewrite rsum_scal, rsum_minus, Hs1.
    rewrite (rsum_single L c (fun l => if Nat.eq_dec l c then w c else 0)); [| exact Hc | intros i _ Hi; destruct (Nat.eq_dec i c); [contradiction | reflexivity]].
    destruct (Nat.eq_dec c c); [lra | contradiction].
Qed.

Lemma Rabs_le_both a e : Rabs a <= e -> - e <= a <= e.
Proof. intros H. pose proof (Rle_abs a). pose proof (Rle_abs (- a)) as H2. rewrite Rabs_Ropp in H2. lra. Qed.
(* softmax is multiplicatively stable under a uniform perturbation of the logits *)
Lemma smx_perturb K y y' eta k : (0 < K)%nat -> (forall c, (c < K)%nat -> Rabs (y c - y' c) <= eta) -> (k < K)%nat ->
  smx K y k <= exp (2 * eta) * smx K y' k.
Proof.
  intros HK H Hk. rewrite !smx_plain by exact HK.
  pose proof (rsum_exp_pos K y HK) as Hp. pose proof (rsum_exp_pos K y' HK) as Hp'.
  assert (Hup : exp (y k) <= exp eta * exp (y' k)).
  { rewrite <- exp_plus. specialize (H k Hk). apply Rabs_le_both in H.
    destruct (Rle_lt_or_eq_dec (y k) (eta + y' k) ltac:(lra)) as [Hl|He]; [left; apply exp_increasing; exact Hl | right; rewrite He; reflexivity]. }
  assert (Hlow : exp (- eta) * rsum K (fun c => exp (y' c)) <= rsum K (fun c => exp (y c))).
  { rewrite <- rsum_scal. apply rsum_le. intros c Hc. rewrite <- exp_plus. specialize (H c Hc). apply Rabs_le_both in H.
    destruct (Rle_lt_or_eq_dec (- eta + y' c) (y c) ltac:(lra)) as [Hl|He]; [left; apply exp_increasing; exact Hl | right; rewrite He; reflexivity]. }
  replace (2 * eta) with (eta + eta) by ring. rewrite exp_plus.
  set (A := rsum K (fun c => exp (y c))) in *. set (A' := rsum K (fun c => exp (y' c))) in *.
  pose proof (exp_pos eta) as He. pose proof (exp_pos (y' k)) as Hyk.
  assert (Hinv : exp (- eta) = / exp eta) by apply exp_Ropp.
  apply (Rmult_le_reg_r A); [exact Hp|]. replace (exp (y k) / A * A) with (exp (y k)) by (field; lra).
  eapply Rle_trans; [exact Hup|].
  assert (HA : A' <= exp eta * A).
  { rewrite Hinv in Hlow. apply (Rmult_le_reg_l (/ exp eta)); [apply Rinv_0_lt_compat; exact He|].
    replace (/ exp eta * (exp eta * A)) with A by (field; lra). exact Hlow. }
  replace (exp eta * exp eta * (exp (y' k) / A') * A) with (exp eta * exp (y' k) * (exp eta * A / A')) by (field; lra).
  assert (1 <= exp eta * A / A'). { apply (Rmult_le_reg_r A'); [exact Hp'|]. replace (exp eta * A / A' * A') with (exp eta * A) by (field; lra). lra. }
  assert (0 < exp eta * exp (y' k)) by (apply Rmult_lt_0_compat; assumption). nra.
Qed.

(* membership of the cell bin, uniform in the number of cut points n >= length *)
Lemma mem_lower temp g n x fc : 0 < temp -> 0 < g -> (length (snd fc) <= n)%nat ->
  (forall c, In c (snd fc) -> g <= Rabs (x (fst fc) - c)) ->
  1 / (1 + INR n * exp (- g / temp)) <= mem temp x fc.
Proof.
  intros HT Hg Hn Hgap. eapply Rle_trans; [|apply (membership_bound (snd fc) (x (fst fc)) temp g HT Hg Hgap)].
  pose proof (exp_pos (- g / temp)) as Hq. pose proof (pos_INR (length (snd fc))) as Hl. apply le_INR in Hn.
  unfold Rdiv. rewrite !Rmult_1_l. apply Rinv_le_contravar; [|apply Rplus_le_compat_l, Rmult_le_compat_r; lra].
  assert (0 <= INR (length (snd fc)) * exp (- g * / temp)) by (apply Rmult_le_pos; lra). lra.
Qed.

Definition in_cell_gap (g : R) (n : nat) (cpl : list (nat * list R)) (x : nat -> R) : Prop :=
  forall fc, In fc cpl -> (length (snd fc) <= n)%nat /\ forall c, In c (snd fc) -> g <= Rabs (x (fst fc) - c).

(* the leaf of the cell carries all the mass but at most m n exp(-g/T) *)
Lemma leaf_cell_mass temp g n cpl x : 0 < temp -> 0 < g -> cpl <> [] -> in_cell_gap g n cpl x ->
  exists lf, leaf Rops temp cpl x = Some lf /\ (cell_index cpl x < length lf)%nat /\
    1 - nth (cell_index cpl x) lf 0 <= INR (length cpl) * INR n * exp (- g / temp).
Proof.
  intros HT Hg Hne Hcell. destruct cpl as [|fc r]; [contradiction|]. unfold leaf, all_bins. cbn [map leaf_of_bins].
  eexists. split; [reflexivity|]. cbn [cell_index].
  set (bn := bins Rops temp (x (fst fc)) (snd fc)).
  assert (Hlen : length bn = S (length (snd fc))) by apply bins_length.
  assert (Hk : (kof x fc < length bn)%nat). { rewrite Hlen. unfold kof. pose proof (count_below_le (x (fst fc)) (snd fc)). lia. }
  destruct (fold_cell temp x r bn (kof x fc) Hk) as [A B]. split; [exact A|]. rewrite B.
  set (q := exp (- g / temp)). assert (Hq : 0 < q) by apply exp_pos. pose proof (pos_INR n) as Hn.
  set (beta := 1 / (1 + INR n * q)).
  assert (Hnq : 0 <= INR n * q) by (apply Rmult_le_pos; lra).
  assert (Hbeta : 0 <= beta <= 1).
  { unfold beta. split; [apply Rlt_le, Rdiv_lt_0_compat; lra|]. apply (Rmult_le_reg_r (1 + INR n * q)); [lra|].
    replace (1 / (1 + INR n * q) * (1 + INR n * q)) with 1 by (field; lra). lra. }
  assert (Hmem : forall fc', In fc' (fc :: r) -> beta <= mem temp x fc').
  { intros fc' Hin. destruct (Hcell fc' Hin) as [H1 H2]. apply (mem_lower temp g n x fc' HT Hg H1 H2). }
  assert (Hlow : beta ^ length (fc :: r) <= cellprob_from (nth (kof x fc) bn 0) r x temp).
  { eapply Rle_trans; [|apply (cellprob_lower beta temp x r (proj1 Hbeta)); [intros fc' H'; apply Hmem; right; exact H' |]].
    - cbn [length pow]. apply Rmult_le_compat_r; [apply pow_le; tauto | apply (Hmem fc); left; reflexivity].
    - eapply Rle_trans; [exact (proj1 Hbeta) | apply (Hmem fc); left; reflexivity]. }
  pose proof (one_minus_pow beta (length (fc :: r)) Hbeta) as Hb.
  assert (H1b : 1 - beta <= INR n * q).
  { unfold beta. apply (Rmult_le_reg_r (1 + INR n * q)); [lra|].
    replace ((1 - 1 / (1 + INR n * q)) * (1 + INR n * q)) with (INR n * q) by (field; lra). nra. }
  pose proof (pos_INR (length (fc :: r))) as Hm.
  assert (INR (length (fc :: r)) * (1 - beta) <= INR (length (fc :: r)) * (INR n * q)) by (apply Rmult_le_compat_l; assumption).
  lra.
Qed.

(* predictions inside a grid cell: within the factor exp(4 M m n exp(-g/T)) of softmax(leaf_scores[cell]) *)
Lemma cell_prediction temp g M n cpl K (S : nat -> nat -> R) x : 0 < temp -> 0 < g -> cpl <> [] ->
  in_cell_gap g n cpl x ->
  (forall lf, leaf Rops temp cpl x = Some lf -> forall l k, (l < length lf)%nat -> (k < K)%nat -> Rabs (S l k) <= M) ->
  exists p, infer_row Rops temp cpl K S x = Some p /\
    forall k, (k < K)%nat ->
      let e := exp (4 * M * (INR (length cpl) * INR n * exp (- g / temp))) in
      let c := smx K (S (cell_index cpl x)) k in
      p k <= e * c /\ c <= e * p k.
Proof.
  intros HT Hg Hne Hcell HM. destruct (leaf_cell_mass temp g n cpl x HT Hg Hne Hcell) as (lf & Hlf & Hc & Hmass).
  unfold infer_row. rewrite Hlf. cbn [option_map]. eexists. split; [reflexivity|].
  intros k Hk. cbv zeta. fold (smx K (leaf_logits Rops lf S) k).
  pose proof (leaf_simplex temp cpl x lf Hlf) as Hpv.
  set (delta := INR (length cpl) * INR n * exp (- g / temp)) in *.
  assert (HM0 : 0 <= M). { eapply Rle_trans; [apply Rabs_pos | apply (HM lf Hlf (cell_index cpl x) k Hc Hk)]. }
  assert (Hclose : forall c, (c < K)%nat -> Rabs (leaf_logits Rops lf S c - S (cell_index cpl x) c) <= 2 * M * delta).
  { intros c Hck. eapply Rle_trans; [apply (leaf_logit_close lf S (cell_index cpl x) c M Hpv Hc); intros l Hl; apply (HM lf Hlf); assumption|].
    apply Rmult_le_compat_l; lra. }
  replace (4 * M * delta) with (2 * (2 * M * delta)) by ring. split.
  - apply smx_perturb; [lia | exact Hclose | exact Hk].
  - apply smx_perturb; [lia | | exact Hk]. intros c Hck. rewrite Rabs_minus_sym. apply Hclose. exact Hck.
Qed.

(* ------------------------------------------------------------------ the limit of the predictions as T -> 0+ *)
Definition pred_at (cpl : list (nat * list R)) (K : nat) (S : nat -> nat -> R) (x : nat -> R) (k : nat) (temp : R) : R :=
  match infer_row Rops temp cpl K S x with Some p => p k | None => 0 end.

Definition nleaves_from (a : nat) (r : list (nat * list R)) : nat := fold_left (fun a fc => (a * S (length (snd fc)))%nat) r a.
Lemma fold_merge_length_any temp x r : forall b,
  length (fold_left (merge Rops) (map (fun fc => bins Rops temp (x (fst fc)) (snd fc)) r) b) = nleaves_from (length b) r.
Proof.
  induction r as [|fc r IH]; intros b; [reflexivity|]. unfold nleaves_from in *. cbn [map fold_left].
  rewrite IH, merge_length, bins_length. reflexivity.
Qed.
Definition nleaves (cpl : list (nat * list R)) : nat :=
  match cpl with [] => 0%nat | fc :: r => nleaves_from (S (length (snd fc))) r end.
Lemma leaf_length temp cpl x lf : leaf Rops temp cpl x = Some lf -> length lf = nleaves cpl.
Proof.
  destruct cpl as [|fc r]; [discriminate|]. unfold leaf, all_bins. cbn [map leaf_of_bins nleaves]. intros E. injection E as <-.
  rewrite fold_merge_length_any, bins_length. reflexivity.
Qed.

Lemma matrix_bounded (S : nat -> nat -> R) N K : exists M, forall l k, (l < N)%nat -> (k < K)%nat -> Rabs (S l k) <= M.
Proof.
  exists (rsum N (fun l => rsum K (fun k => Rabs (S l k)))). intros l k Hl Hk.
  eapply Rle_trans; [apply (rsum_ge_term K (fun k => Rabs (S l k)) k); [intros; apply Rabs_pos | exact Hk]|].
  apply (rsum_ge_term N (fun l => rsum K (fun k => Rabs (S l k))) l); [|exact Hl].
  intros i _. apply rsum_nonneg. intros; apply Rabs_pos.
Qed.

Lemma gap_exists_cpl cpl x : (forall fc, In fc cpl -> forall c, In c (snd fc) -> c <> x (fst fc)) ->
  exists g n, 0 < g /\ in_cell_gap g n cpl x.
Proof.
  induction cpl as [|fc r IH]; intros H.
  - exists 1, 0%nat. split; [lra | intros fc []].
  - destruct IH as (g & n & Hg & Hr); [intros fc' H' c Hc; apply (H fc'); [right; exact H' | exact Hc]|].
    destruct (gap_exists (x (fst fc)) (snd fc)) as (g0 & Hg0 & Hgap0); [intros c Hc; apply (H fc); [left; reflexivity | exact Hc]|].
    exists (Rmin g g0), (Nat.max n (length (snd fc))). split; [apply Rmin_pos; assumption|].
    intros fc' [<-|Hin].
    + split; [apply Nat.le_max_r|]. intros c Hc. eapply Rle_trans; [apply Rmin_r | apply Hgap0; exact Hc].
    + destruct (Hr fc' Hin) as [A B]. split; [eapply Nat.le_trans; [exact A | apply Nat.le_max_l]|].
      intros c Hc. eapply Rle_trans; [apply Rmin_l | apply B; exact Hc].
Qed.

Lemma cont_at_right (f : R -> R) : continuous f 0 -> filterlim f (at_right 0) (locally (f 0)).
Proof. intros Hc. eapply filterlim_filter_le_1; [|exact Hc]. apply filter_le_within. Qed.
Lemma exp_lin_right (C c : R) : filterlim (fun temp : R => exp (C * temp) * c) (at_right 0) (locally c).
Proof.
  assert (Hc : continuous (fun temp : R => exp (C * temp) * c) 0).
  { apply (ex_derive_continuous (fun temp : R => exp (C * temp) * c)). auto_derive. trivial. }
  pose proof (cont_at_right (fun temp : R => exp (C * temp) * c) Hc) as H. cbv beta in H.
  rewrite Rmult_0_r, exp_0, Rmult_1_l in H. exact H.
Qed.

Lemma prediction_limit cpl K (S : nat -> nat -> R) x k : cpl <> [] -> (k < K)%nat ->
  (forall fc, In fc cpl -> forall c, In c (snd fc) -> c <> x (fst fc)) ->
  filterlim (pred_at cpl K S x k) (at_right 0) (locally (smx K (S (cell_index cpl x)) k)).
Proof.
  intros Hne Hk Hdist. destruct (gap_exists_cpl cpl x Hdist) as (g & n & Hg & Hcell).
  destruct (matrix_bounded S (nleaves cpl) K) as (M & HM).
  set (c := smx K (S (cell_index cpl x)) k). assert (Hc : 0 < c) by (apply smx_pos; lia).
  assert (HM0 : 0 <= M).
  { destruct (leaf_cell_mass 1 g n cpl x Rlt_0_1 Hg Hne Hcell) as (lf & Hlf & Hci & _).
    eapply Rle_trans; [apply Rabs_pos | apply (HM (cell_index cpl x) k); [rewrite <- (leaf_length 1 cpl x lf Hlf); exact Hci | exact Hk]]. }
  set (C := 4 * M * (INR (length cpl) * INR n) / g).
  assert (HC : 0 <= C).
  { unfold C. apply Rmult_le_pos; [|left; apply Rinv_0_lt_compat; exact Hg].
    apply Rmult_le_pos; [lra | apply Rmult_le_pos; apply pos_INR]. }
  apply (filterlim_le_le (F := at_right 0) (fun temp : R => exp (- C * temp) * c) _ (fun temp : R => exp (C * temp) * c) (Finite c)).
  - exists (mkposreal 1 Rlt_0_1). intros temp _ HT.
    destruct (cell_prediction temp g M n cpl K S x HT Hg Hne Hcell) as (p & Hp & Hb).
    { intros lf Hlf l k0 Hl Hk0. apply HM; [rewrite <- (leaf_length temp cpl x lf Hlf); exact Hl | exact Hk0]. }
    unfold pred_at. rewrite Hp. specialize (Hb k Hk). cbv zeta in Hb. fold c in Hb. destruct Hb as [Hb1 Hb2].
    set (e := exp (4 * M * (INR (length cpl) * INR n * exp (- g / temp)))) in *.
    assert (He : e <= exp (C * temp)).
    { unfold e. assert (Hq : exp (- g / temp) <= temp / g).
      { replace (- g / temp) with (- (g / temp)) by (field; lra).
        eapply Rle_trans; [apply exp_neg_le_inv; apply Rdiv_lt_0_compat; assumption|]. right. field. split; lra. }
      assert (Hle : 4 * M * (INR (length cpl) * INR n * exp (- g / temp)) <= C * temp).
      { unfold C. replace (4 * M * (INR (length cpl) * INR n) / g * temp) with (4 * M * (INR (length cpl) * INR n * (temp / g))) by (field; lra).
        apply Rmult_le_compat_l; [lra|]. apply Rmult_le_compat_l; [apply Rmult_le_pos; apply pos_INR | exact Hq]. }
      destruct Hle as [Hlt|Heq]; [left; apply exp_increasing; exact Hlt | right; rewrite Heq; reflexivity]. }
    assert (He0 : 0 < e) by apply exp_pos.
    assert (Hp0 : 0 < p k). { apply (Rmult_lt_reg_l e); [exact He0 | lra]. }
    split.
    + replace (- C * temp) with (- (C * temp)) by ring. rewrite exp_Ropp.
      apply (Rmult_le_reg_l (exp (C * temp))); [apply exp_pos|].
      replace (exp (C * temp) * (/ exp (C * temp) * c)) with c by (field; apply Rgt_not_eq, exp_pos).
      eapply Rle_trans; [exact Hb2 | apply Rmult_le_compat_r; lra].
    + eapply Rle_trans; [exact Hb1 | apply Rmult_le_compat_r; lra].
  - apply exp_lin_right.
  - apply exp_lin_right.
Qed.

(* two points of one grid cell: predictions agree up to the factor exp(8 M m n exp(-g/T)) *)
Lemma cell_constant temp g M n cpl K (S : nat -> nat -> R) x x' : 0 < temp -> 0 < g -> cpl <> [] ->
  in_cell_gap g n cpl x -> in_cell_gap g n cpl x' -> map (kof x) cpl = map (kof x') cpl ->
  (forall l k, (l < nleaves cpl)%nat -> (k < K)%nat -> Rabs (S l k) <= M) ->
  exists p p', infer_row Rops temp cpl K S x = Some p /\ infer_row Rops temp cpl K S x' = Some p' /\
    forall k, (k < K)%nat -> p k <= exp (8 * M * (INR (length cpl) * INR n * exp (- g / temp))) * p' k.
Proof.
  intros HT Hg Hne Hc Hc' Hsame HM.
  destruct (cell_prediction temp g M n cpl K S x HT Hg Hne Hc) as (p & Hp & Hb).
  { intros lf Hlf l k Hl Hk. apply HM; [rewrite <- (leaf_length temp cpl x lf Hlf); exact Hl | exact Hk]. }
  destruct (cell_prediction temp g M n cpl K S x' HT Hg Hne Hc') as (p' & Hp' & Hb').
  { intros lf Hlf l k Hl Hk. apply HM; [rewrite <- (leaf_length temp cpl x' lf Hlf); exact Hl | exact Hk]. }
  exists p, p'. split; [exact Hp|]. split; [exact Hp'|]. intros k Hk.
  specialize (Hb k Hk). specialize (Hb' k Hk). cbv zeta in Hb, Hb'.
  rewrite <- (cell_index_counts cpl x x' Hsame) in Hb'.
  set (d := INR (length cpl) * INR n * exp (- g / temp)) in *.
  replace (8 * M * d) with (4 * M * d + 4 * M * d) by ring. rewrite exp_plus.
  set (e := exp (4 * M * d)) in *. assert (He : 0 < e) by apply exp_pos.
  set (c := smx K (S (cell_index cpl x)) k) in *. destruct Hb as [Hb1 _]. destruct Hb' as [_ Hb2].
  eapply Rle_trans; [exact Hb1|]. rewrite Rmult_assoc. apply Rmult_le_compat_l; [lra | exact Hb2].
Qed.
