(* Total-Variation GEMINI (one-vs-all and one-vs-one): score = definition (C01), gradient =
   derivative of the score on the differentiability region (C02), and the C13 facts
   (non-negativity, upper bound 1, zero on independent predictions, permutation in/equivariance).

   Remarks on hypotheses (checked by hand, then proved):
   * the code's TV gradient is the derivative along EVERY direction D: no [tangent] hypothesis is
     needed (neither OvA nor OvO);
   * [tv_score_is_definition] needs no [row_stochastic] hypothesis (unlike KL one-vs-one);
   * the score is not differentiable where a difference vanishes and changes sign; the derivative
     theorem therefore assumes that every (off-diagonal, for OvO) difference is non-zero.  The
     diagonal OvO differences pi_k P_ik - pi_k P_ik are identically zero: they contribute the
     constant 0, and np.sign(0) = 0 makes the code's formula right for them;
   * the clean forms below are stated at the CLIPPED matrix, which makes the score/gradient
     equal to the clean forms everywhere ([tv_score_clean], [tv_grad_clean], no interior needed);
     non-negativity, zero on equal rows and the permutation facts hence hold for all inputs. *)
From Coq Require Import Reals Lra Lia Psatz.
From Coquelicot Require Import Coquelicot.
From GV Require Import Common.Num Common.NumR Model.Gemini Proofs.RSumLib Proofs.GeminiDefs.
Open Scope R_scope.

(* ------------------------------------------------------------------ np.sign over R is Coquelicot's sign *)
Definition sg (x : R) : R := nsign Rops x.
Lemma sg_sign x : sg x = sign x.
Proof.
  unfold sg, nsign, nneg. cbn [nltb nsub n0 n1 Rops].
  destruct (Rlt_dec 0 x) as [Hp|Hp].
  - rewrite (Rltb_true 0 x Hp), (sign_eq_1 x Hp). reflexivity.
  - rewrite (Rltb_false 0 x Hp). destruct (Rlt_dec x 0) as [Hm|Hm].
    + rewrite (Rltb_true x 0 Hm), (sign_eq_m1 x Hm). lra.
    + rewrite (Rltb_false x 0 Hm). assert (x = 0) by lra. subst x. rewrite sign_0. reflexivity.
Qed.
Lemma sg_0 : sg 0 = 0.
Proof. rewrite sg_sign. apply sign_0. Qed.

(* ------------------------------------------------------------------ clean (unclipped) forms *)
Definition hf : R := 1 / (1 + 1).
Lemma hf_half : hf = / 2. Proof. unfold hf. lra. Qed.

Definition tvc (n K : nat) (p : mat) : R :=
  hf * rsum K (fun k => rsum n (fun i => Rabs (p i k - pi0 n p k)) / INR n).
Definition tvc_grad (n K : nat) (p : mat) (i k : nat) : R :=
  hf * ((sg (p i k - pi0 n p k) - rsum n (fun j => sg (p j k - pi0 n p k)) / INR n) / INR n).
Definition odif (n : nat) (p : mat) (i a b : nat) : R := pi0 n p a * p i b - pi0 n p b * p i a.
Definition tvo (n K : nat) (p : mat) : R :=
  hf * rsum K (fun a => rsum K (fun b => rsum n (fun i => Rabs (odif n p i a b)) / INR n)).
Definition ocpg (n : nat) (p : mat) (i a b : nat) : R :=
  sg (odif n p i a b) / INR n - sg (odif n p i b a) / INR n.
Definition tvo_grad (n K : nat) (p : mat) (i k : nat) : R :=
  hf * (rsum K (fun a => pi0 n p a * ocpg n p i a k)
        + rsum n (fun j => rsum K (fun b => ocpg n p j k b * p j b)) / INR n).

(* the model IS the clean form at the clipped matrix, for every input *)
Lemma tv_score_clean eps n K Y ovo :
  tv_score Rops eps n K Y ovo = if ovo then tvo n K (P Rops eps Y) else tvc n K (P Rops eps Y).
Proof. destruct ovo; reflexivity. Qed.
Lemma tv_grad_clean eps n K Y ovo i k :
  tv_grad Rops eps n K Y ovo i k
  = (if ovo then tvo_grad n K (P Rops eps Y) i k else tvc_grad n K (P Rops eps Y) i k) * maskT Rops eps Y i k.
Proof. destruct ovo; reflexivity. Qed.

(* the clean forms only look at the entries with i < n, k < K *)
Lemma pi0_ext n p q k : (forall i, (i < n)%nat -> p i k = q i k) -> pi0 n p k = pi0 n q k.
Proof. intros H. unfold pi0. f_equal. apply rsum_ext. exact H. Qed.
Lemma odif_ext n K p q i a b : (forall i k, (i < n)%nat -> (k < K)%nat -> p i k = q i k) ->
  (i < n)%nat -> (a < K)%nat -> (b < K)%nat -> odif n p i a b = odif n q i a b.
Proof.
  intros H Hi Ha Hb. unfold odif. rewrite (pi0_ext n p q a), (pi0_ext n p q b) by (intros; apply H; assumption).
  rewrite !H by assumption. reflexivity.
Qed.
Lemma tvc_ext n K p q : (forall i k, (i < n)%nat -> (k < K)%nat -> p i k = q i k) -> tvc n K p = tvc n K q.
Proof.
  intros H. unfold tvc. f_equal. apply rsum_ext. intros k Hk. f_equal. apply rsum_ext. intros i Hi.
  rewrite (pi0_ext n p q k) by (intros; apply H; assumption). rewrite H by assumption. reflexivity.
Qed.
Lemma tvo_ext n K p q : (forall i k, (i < n)%nat -> (k < K)%nat -> p i k = q i k) -> tvo n K p = tvo n K q.
Proof.
  intros H. unfold tvo. f_equal. apply rsum_ext. intros a Ha. apply rsum_ext. intros b Hb. f_equal.
  apply rsum_ext. intros i Hi. rewrite (odif_ext n K p q) by assumption. reflexivity.
Qed.
Lemma tvc_grad_ext n K p q i k : (forall i k, (i < n)%nat -> (k < K)%nat -> p i k = q i k) ->
  (i < n)%nat -> (k < K)%nat -> tvc_grad n K p i k = tvc_grad n K q i k.
Proof.
  intros H Hi Hk. unfold tvc_grad. rewrite (pi0_ext n p q k) by (intros; apply H; assumption).
  rewrite H by assumption. f_equal. f_equal. f_equal. f_equal. apply rsum_ext. intros j Hj. rewrite H by assumption. reflexivity.
Qed.
Lemma ocpg_ext n K p q i a b : (forall i k, (i < n)%nat -> (k < K)%nat -> p i k = q i k) ->
  (i < n)%nat -> (a < K)%nat -> (b < K)%nat -> ocpg n p i a b = ocpg n q i a b.
Proof. intros H Hi Ha Hb. unfold ocpg. rewrite (odif_ext n K p q i a b), (odif_ext n K p q i b a) by assumption. reflexivity. Qed.
Lemma tvo_grad_ext n K p q i k : (forall i k, (i < n)%nat -> (k < K)%nat -> p i k = q i k) ->
  (i < n)%nat -> (k < K)%nat -> tvo_grad n K p i k = tvo_grad n K q i k.
Proof.
  intros H Hi Hk. unfold tvo_grad. f_equal. f_equal.
  - apply rsum_ext. intros a Ha. rewrite (pi0_ext n p q a) by (intros; apply H; assumption).
    rewrite (ocpg_ext n K p q) by assumption. reflexivity.
  - f_equal. apply rsum_ext. intros j Hj. apply rsum_ext. intros b Hb.
    rewrite (ocpg_ext n K p q) by assumption. rewrite H by assumption. reflexivity.
Qed.

Lemma tv_score_interior eps n K Y ovo : interior eps n K Y ->
  tv_score Rops eps n K Y ovo = if ovo then tvo n K Y else tvc n K Y.
Proof.
  intros HI. rewrite tv_score_clean.
  destruct ovo; [apply tvo_ext | apply tvc_ext]; intros i k Hi Hk; apply (P_interior eps n K Y HI); assumption.
Qed.
Lemma tv_grad_interior eps n K Y ovo i k : interior eps n K Y -> (i < n)%nat -> (k < K)%nat ->
  tv_grad Rops eps n K Y ovo i k = if ovo then tvo_grad n K Y i k else tvc_grad n K Y i k.
Proof.
  intros HI Hi Hk. rewrite tv_grad_clean. rewrite (maskT_interior eps n K Y HI) by assumption. rewrite Rmult_1_r.
  destruct ovo; [apply (tvo_grad_ext n K) | apply (tvc_grad_ext n K)]; try assumption;
    intros i' k' Hi' Hk'; apply (P_interior eps n K Y HI); assumption.
Qed.

(* ------------------------------------------------------------------ small sum lemmas *)
Lemma rsum_swap3 n K (F : nat -> nat -> nat -> R) :
  rsum K (fun a => rsum K (fun b => rsum n (fun i => F i a b)))
  = rsum n (fun i => rsum K (fun a => rsum K (fun b => F i a b))).
Proof.
  rewrite (rsum_ext K _ (fun a => rsum n (fun i => rsum K (fun b => F i a b)))).
  2:{ intros a Ha. apply (rsum_swap K n (fun b i => F i a b)). }
  apply (rsum_swap K n (fun a i => rsum K (fun b => F i a b))).
Qed.
(* pairing with an antisymmetrised quantity = antisymmetrising the weight *)
Lemma rsum_antisym K (f g : nat -> nat -> R) :
  rsum K (fun a => rsum K (fun b => f a b * (g a b - g b a)))
  = rsum K (fun a => rsum K (fun b => (f a b - f b a) * g a b)).
Proof.
  rewrite (rsum_ext K _ (fun a => rsum K (fun b => f a b * g a b) - rsum K (fun b => f a b * g b a))).
  2:{ intros a Ha. rewrite <- rsum_minus. apply rsum_ext. intros b Hb. ring. }
  rewrite rsum_minus.
  rewrite (rsum_swap K K (fun a b => f a b * g b a)).
  rewrite <- rsum_minus. apply rsum_ext. intros a Ha. rewrite <- rsum_minus. apply rsum_ext. intros b Hb. ring.
Qed.

(* ------------------------------------------------------------------ C02: scalar derivative lemmas *)
Lemma dR_valR (f : R -> R) (x a b : R) : a = b -> is_derive f x a -> is_derive f x b.
Proof. intros ->. trivial. Qed.
Lemma d_abs_lin (a b : R) : a <> 0 -> is_derive (fun t : R => Rabs (a + t * b)) 0 (sg a * b).
Proof.
  intros Ha. rewrite sg_sign. auto_derive.
  - rewrite Rmult_0_l, Rplus_0_r. exact Ha.
  - rewrite Rmult_0_l, Rplus_0_r. ring.
Qed.
Lemma d_abs_bilin (A A' B B' C C' E E' : R) : A * B - C * E <> 0 ->
  is_derive (fun t : R => Rabs ((A + t * A') * (B + t * B') - (C + t * C') * (E + t * E'))) 0
            (sg (A * B - C * E) * ((A' * B + A * B') - (C' * E + C * E'))).
Proof.
  intros H. rewrite sg_sign. auto_derive.
  - rewrite !Rmult_0_l, !Rplus_0_r. exact H.
  - rewrite !Rmult_0_l, !Rplus_0_r. unfold Rminus. ring.
Qed.

(* ------------------------------------------------------------------ C02: derivative, one-vs-all *)
Theorem tvc_derive n K p d :
  (forall i k, (i < n)%nat -> (k < K)%nat -> p i k - pi0 n p k <> 0) ->
  is_derive (fun t : R => tvc n K (pert p d t)) 0 (inner n K (tvc_grad n K p) d).
Proof.
  intros Hnz. unfold tvc, inner.
  set (S0 := fun k => pi0 n p k). set (S1 := fun k => pi0 n d k).
  set (s := fun i k => sg (p i k - S0 k)).
  assert (H : is_derive (fun t : R =>
      hf * rsum K (fun k => rsum n (fun i => Rabs (pert p d t i k - pi0 n (pert p d t) k)) / INR n)) 0
      (hf * rsum K (fun k => rsum n (fun i => s i k * (d i k - S1 k)) / INR n))).
  { apply dR_scal.
    apply (dR_rsum K (fun k t => rsum n (fun i => Rabs (pert p d t i k - pi0 n (pert p d t) k)) / INR n)).
    intros k Hk. apply dR_divc.
    apply (dR_rsum n (fun i t => Rabs (pert p d t i k - pi0 n (pert p d t) k))).
    intros i Hi.
    apply (dR_ext (fun t : R => Rabs ((p i k - S0 k) + t * (d i k - S1 k)))).
    { intros t. rewrite pi0_pert. unfold pert, S0, S1. f_equal. ring. }
    apply d_abs_lin. apply Hnz; assumption. }
  eapply dR_val; [|exact H].
  rewrite (rsum_swap n K). rewrite <- rsum_scal. apply rsum_ext. intros k Hk.
  unfold tvc_grad. fold (S0 k).
  set (M := rsum n (fun j => sg (p j k - S0 k))).
  rewrite (rsum_ext n (fun i => s i k * (d i k - S1 k)) (fun i => s i k * d i k - S1 k * s i k)) by (intros i Hi; ring).
  rewrite rsum_minus, rsum_scal. fold M.
  rewrite (rsum_ext n (fun i => hf * ((sg (p i k - S0 k) - M / INR n) / INR n) * d i k)
             (fun i => (hf / INR n) * (s i k * d i k) - (hf * M / INR n) * (d i k / INR n))).
  2:{ intros i Hi. unfold s, Rdiv. ring. }
  rewrite rsum_minus, !rsum_scal, rsum_divc. fold (pi0 n d k). fold (S1 k).
  replace (rsum n (fun i => s i k)) with M by reflexivity. unfold Rdiv. ring.
Qed.

(* ------------------------------------------------------------------ C02: derivative, one-vs-one *)
Theorem tvo_derive n K p d :
  (forall i a b, (i < n)%nat -> (a < K)%nat -> (b < K)%nat -> a <> b -> odif n p i a b <> 0) ->
  is_derive (fun t : R => tvo n K (pert p d t)) 0 (inner n K (tvo_grad n K p) d).
Proof.
  intros Hnz. unfold tvo, inner.
  set (S0 := fun k => pi0 n p k). set (S1 := fun k => pi0 n d k).
  set (cp' := fun i a b => S1 a * p i b + S0 a * d i b).
  set (base := fun i a b => sg (odif n p i a b) / INR n).
  assert (H : is_derive (fun t : R =>
      hf * rsum K (fun a => rsum K (fun b => rsum n (fun i => Rabs (odif n (pert p d t) i a b)) / INR n))) 0
      (hf * rsum K (fun a => rsum K (fun b =>
          rsum n (fun i => sg (odif n p i a b) * (cp' i a b - cp' i b a)) / INR n)))).
  { apply dR_scal.
    apply (dR_rsum K (fun a t => rsum K (fun b => rsum n (fun i => Rabs (odif n (pert p d t) i a b)) / INR n))).
    intros a Ha.
    apply (dR_rsum K (fun b t => rsum n (fun i => Rabs (odif n (pert p d t) i a b)) / INR n)).
    intros b Hb. apply dR_divc.
    apply (dR_rsum n (fun i t => Rabs (odif n (pert p d t) i a b))).
    intros i Hi.
    destruct (Nat.eq_dec a b) as [->|Hab].
    - (* diagonal: the difference is identically zero *)
      apply (dR_ext (fun _ : R => 0)).
      { intros t. unfold odif. rewrite Rminus_diag_eq by reflexivity. rewrite Rabs_R0. reflexivity. }
      apply (dR_valR _ 0 0); [ring | apply dR_const].
    - apply (dR_ext (fun t : R => Rabs ((S0 a + t * S1 a) * (p i b + t * d i b) - (S0 b + t * S1 b) * (p i a + t * d i a)))).
      { intros t. unfold odif. rewrite !pi0_pert. reflexivity. }
      unfold cp'. apply (d_abs_bilin (S0 a) (S1 a) (p i b) (d i b) (S0 b) (S1 b) (p i a) (d i a)).
      apply (Hnz i a b); assumption. }
  eapply dR_val; [|exact H]. clear H Hnz.
  (* right-hand side: sum_i sum_a sum_b cpg_iab * cp'_iab *)
  rewrite (rsum_ext K _ (fun a => rsum K (fun b => rsum n (fun i => base i a b * (cp' i a b - cp' i b a))))).
  2:{ intros a Ha. apply rsum_ext. intros b Hb. rewrite <- rsum_divc. apply rsum_ext. intros i Hi. unfold base, Rdiv. ring. }
  rewrite (rsum_swap3 n K (fun i a b => base i a b * (cp' i a b - cp' i b a))).
  rewrite (rsum_ext n _ (fun i =>
       rsum K (fun a => rsum K (fun b => ocpg n p i a b * S0 a * d i b))
     + rsum K (fun a => rsum K (fun b => ocpg n p i a b * S1 a * p i b)))).
  2:{ intros i Hi. rewrite (rsum_antisym K (base i) (cp' i)). rewrite <- rsum_plus. apply rsum_ext. intros a Ha.
      rewrite <- rsum_plus. apply rsum_ext. intros b Hb. unfold ocpg, base, cp'. ring. }
  rewrite rsum_plus.
  (* left-hand side *)
  rewrite (rsum_ext n (fun i => rsum K (fun k => tvo_grad n K p i k * d i k)) (fun i =>
       hf * rsum K (fun a => rsum K (fun b => ocpg n p i a b * S0 a * d i b))
     + hf * rsum K (fun k => (rsum n (fun j => rsum K (fun b => ocpg n p j k b * p j b)) / INR n) * d i k))).
  2:{ intros i Hi. rewrite (rsum_swap K K (fun a b => ocpg n p i a b * S0 a * d i b)).
      rewrite <- !rsum_scal, <- rsum_plus. apply rsum_ext. intros k Hk. unfold tvo_grad.
      rewrite Rmult_plus_distr_l, Rmult_plus_distr_r. f_equal; [|ring].
      rewrite Rmult_assoc. f_equal. rewrite <- rsum_scal_r. apply rsum_ext. intros a Ha. unfold S0. ring. }
  rewrite rsum_plus, !rsum_scal. rewrite Rmult_plus_distr_l. f_equal. f_equal.
  rewrite (rsum_swap n K (fun i a => rsum K (fun b => ocpg n p i a b * S1 a * p i b))).
  rewrite (rsum_swap n K (fun i k => rsum n (fun j => rsum K (fun b => ocpg n p j k b * p j b)) / INR n * d i k)).
  apply rsum_ext. intros k Hk.
  rewrite rsum_scal.
  replace (rsum n (fun j => rsum K (fun b => ocpg n p j k b * p j b)) / INR n * rsum n (fun i => d i k))
    with (S1 k * rsum n (fun j => rsum K (fun b => ocpg n p j k b * p j b))) by (unfold S1, pi0, Rdiv; ring).
  rewrite <- rsum_scal. apply rsum_ext. intros j Hj. rewrite <- rsum_scal. apply rsum_ext. intros b Hb. ring.
Qed.

(* ------------------------------------------------------------------ C01: score = definition *)
(* one-vs-all: sum_k pi_k TV( p(x|y=k), p(x) ) *)
Lemma tvc_is_definition n K p : (0 < n)%nat -> (forall i k, (i < n)%nat -> (k < K)%nat -> 0 < p i k) ->
  tvc n K p = gemini_ova n K p (TVdist n).
Proof.
  intros Hn Hp. assert (HN : 0 < INR n) by (apply lt_0_INR; lia).
  unfold tvc, gemini_ova. rewrite <- rsum_scal. apply rsum_ext. intros k Hk.
  assert (Hpi : 0 < pi0 n p k) by (apply (pi0_pos n K); auto).
  unfold TVdist.
  rewrite (rsum_ext n (fun i => Rabs (cond n p k i - unif n i))
            (fun i => Rabs (p i k - pi0 n p k) / (INR n * pi0 n p k))).
  2:{ intros i Hi. unfold cond, unif.
      replace (p i k / (INR n * pi0 n p k) - / INR n) with ((p i k - pi0 n p k) * / (INR n * pi0 n p k)) by (field; lra).
      rewrite Rabs_mult. rewrite (Rabs_pos_eq (/ (INR n * pi0 n p k))).
      - reflexivity.
      - apply Rlt_le, Rinv_0_lt_compat, Rmult_lt_0_compat; lra. }
  rewrite rsum_divc, hf_half. field. lra.
Qed.
(* one-vs-one: sum_{a,b} pi_a pi_b TV( p(x|y=a), p(x|y=b) ) *)
Lemma tvo_is_definition n K p : (0 < n)%nat -> (forall i k, (i < n)%nat -> (k < K)%nat -> 0 < p i k) ->
  tvo n K p = gemini_ovo n K p (TVdist n).
Proof.
  intros Hn Hp. assert (HN : 0 < INR n) by (apply lt_0_INR; lia).
  assert (Hpi : forall k, (k < K)%nat -> 0 < pi0 n p k) by (intros; apply (pi0_pos n K); auto).
  unfold tvo, gemini_ovo. rewrite <- rsum_scal. apply rsum_ext. intros a Ha. rewrite <- rsum_scal. apply rsum_ext. intros b Hb.
  specialize (Hpi a Ha) as Hpa. specialize (Hpi b Hb) as Hpb.
  unfold TVdist.
  rewrite (rsum_ext n (fun i => Rabs (cond n p a i - cond n p b i))
            (fun i => Rabs (odif n p i a b) / (INR n * (pi0 n p a * pi0 n p b)))).
  2:{ intros i Hi. unfold cond, odif.
      replace (p i a / (INR n * pi0 n p a) - p i b / (INR n * pi0 n p b))
        with (- (pi0 n p a * p i b - pi0 n p b * p i a) * / (INR n * (pi0 n p a * pi0 n p b))) by (field; lra).
      rewrite Rabs_mult, Rabs_Ropp. rewrite (Rabs_pos_eq (/ (INR n * (pi0 n p a * pi0 n p b)))).
      - reflexivity.
      - apply Rlt_le, Rinv_0_lt_compat. apply Rmult_lt_0_compat; [lra | apply Rmult_lt_0_compat; lra]. }
  rewrite rsum_divc, hf_half. field. lra.
Qed.

(* ------------------------------------------------------------------ final statements about the model *)
(* The differentiability region: no difference under an absolute value vanishes (for one-vs-one,
   no OFF-DIAGONAL difference; the diagonal ones are identically zero).  No tangent hypothesis. *)
Definition tv_regular (n K : nat) (P : mat) (ovo : bool) : Prop :=
  if ovo then forall i k k', (i < n)%nat -> (k < K)%nat -> (k' < K)%nat -> k <> k' ->
                pi0 n P k * P i k' - pi0 n P k' * P i k <> 0
  else forall i k, (i < n)%nat -> (k < K)%nat -> P i k - pi0 n P k <> 0.

Theorem tv_grad_is_derivative eps n K P D ovo : 0 <= eps -> (0 < n)%nat -> interior eps n K P ->
  tv_regular n K P ovo ->
  is_derive (fun t : R => tv_score Rops eps n K (pert P D t) ovo) 0 (inner n K (tv_grad Rops eps n K P ovo) D).
Proof.
  intros He Hn HI Hreg.
  apply (lift_derivative (fun Y => tv_score Rops eps n K Y ovo) (fun Y => if ovo then tvo n K Y else tvc n K Y)
           (tv_grad Rops eps n K P ovo) (if ovo then tvo_grad n K P else tvc_grad n K P) eps n K P D).
  - intros Y HY. apply tv_score_interior. exact HY.
  - intros i k Hi Hk. rewrite (tv_grad_interior eps n K P ovo i k HI Hi Hk). destruct ovo; reflexivity.
  - exact HI.
  - destruct ovo; [apply tvo_derive | apply tvc_derive]; exact Hreg.
Qed.
Theorem tv_score_is_definition eps n K P ovo : 0 <= eps -> (0 < n)%nat -> interior eps n K P ->
  tv_score Rops eps n K P ovo = if ovo then gemini_ovo n K P (TVdist n) else gemini_ova n K P (TVdist n).
Proof.
  intros He Hn HI. pose proof (interior_pos eps n K P He HI) as Hp. rewrite tv_score_interior by exact HI.
  destruct ovo; [apply tvo_is_definition | apply tvc_is_definition]; assumption.
Qed.

(* ------------------------------------------------------------------ C13: range *)
Lemma div_INR_nonneg n x : 0 <= x -> 0 <= x / INR n.
Proof.
  intros Hx. destruct n as [|n].
  - simpl. unfold Rdiv. rewrite Rinv_0. lra.
  - apply Rmult_le_pos; [exact Hx|]. apply Rlt_le, Rinv_0_lt_compat, lt_0_INR. lia.
Qed.
Lemma hf_pos : 0 < hf. Proof. rewrite hf_half. lra. Qed.
Lemma tvc_nonneg n K p : 0 <= tvc n K p.
Proof.
  unfold tvc. apply Rmult_le_pos; [apply Rlt_le, hf_pos|]. apply rsum_nonneg. intros k Hk.
  apply div_INR_nonneg. apply rsum_nonneg. intros i Hi. apply Rabs_pos.
Qed.
Lemma tvo_nonneg n K p : 0 <= tvo n K p.
Proof.
  unfold tvo. apply Rmult_le_pos; [apply Rlt_le, hf_pos|]. apply rsum_nonneg. intros a Ha. apply rsum_nonneg. intros b Hb.
  apply div_INR_nonneg. apply rsum_nonneg. intros i Hi. apply Rabs_pos.
Qed.
(* every input, clipped or not, any n and K *)
Theorem tv_nonneg eps n K P ovo : 0 <= tv_score Rops eps n K P ovo.
Proof. rewrite tv_score_clean. destruct ovo; [apply tvo_nonneg | apply tvc_nonneg]. Qed.

Lemma Rabs_minus_le_plus a b : 0 <= a -> 0 <= b -> Rabs (a - b) <= a + b.
Proof. intros Ha Hb. unfold Rabs. destruct (Rcase_abs (a - b)); lra. Qed.
Lemma tvc_le_1 n K p : (0 < n)%nat -> (forall i k, (i < n)%nat -> (k < K)%nat -> 0 < p i k) ->
  row_stochastic n K p -> tvc n K p <= 1.
Proof.
  intros Hn Hp Hr. assert (HN : 0 < INR n) by (apply lt_0_INR; lia).
  assert (Hsum : rsum K (fun k => pi0 n p k) = 1) by (apply pi0_sum_one; auto).
  unfold tvc.
  assert (B : rsum K (fun k => rsum n (fun i => Rabs (p i k - pi0 n p k)) / INR n)
              <= rsum K (fun k => pi0 n p k + pi0 n p k)).
  { apply rsum_le. intros k Hk.
    assert (Hpi : 0 < pi0 n p k) by (apply (pi0_pos n K); auto).
    apply Rle_trans with (rsum n (fun i => p i k + pi0 n p k) / INR n).
    - apply Rmult_le_compat_r; [apply Rlt_le, Rinv_0_lt_compat; exact HN|].
      apply rsum_le. intros i Hi. apply Rabs_minus_le_plus; [apply Rlt_le, Hp; assumption | lra].
    - rewrite rsum_plus, rsum_const. unfold pi0. apply Req_le. field. lra. }
  rewrite (rsum_plus K (fun k => pi0 n p k) (fun k => pi0 n p k)) in B. rewrite Hsum in B. rewrite hf_half. lra.
Qed.
Lemma tvo_le_1 n K p : (0 < n)%nat -> (forall i k, (i < n)%nat -> (k < K)%nat -> 0 < p i k) ->
  row_stochastic n K p -> tvo n K p <= 1.
Proof.
  intros Hn Hp Hr. assert (HN : 0 < INR n) by (apply lt_0_INR; lia).
  assert (Hpi : forall k, (k < K)%nat -> 0 < pi0 n p k) by (intros; apply (pi0_pos n K); auto).
  assert (Hsum : rsum K (fun k => pi0 n p k) = 1) by (apply pi0_sum_one; auto).
  unfold tvo.
  assert (B : rsum K (fun a => rsum K (fun b => rsum n (fun i => Rabs (odif n p i a b)) / INR n))
              <= rsum K (fun a => rsum K (fun b => pi0 n p a * pi0 n p b + pi0 n p b * pi0 n p a))).
  { apply rsum_le. intros a Ha. apply rsum_le. intros b Hb.
    specialize (Hpi a Ha) as Hpa. specialize (Hpi b Hb) as Hpb.
    apply Rle_trans with (rsum n (fun i => pi0 n p a * p i b + pi0 n p b * p i a) / INR n).
    - apply Rmult_le_compat_r; [apply Rlt_le, Rinv_0_lt_compat; exact HN|].
      apply rsum_le. intros i Hi. unfold odif.
      apply Rabs_minus_le_plus; apply Rlt_le, Rmult_lt_0_compat; try assumption; apply Hp; assumption.
    - rewrite rsum_plus, !rsum_scal. unfold pi0. apply Req_le. field. lra. }
  assert (E : rsum K (fun a => rsum K (fun b => pi0 n p a * pi0 n p b + pi0 n p b * pi0 n p a)) = 2).
  { rewrite (rsum_ext K _ (fun a => 2 * pi0 n p a)).
    - rewrite (rsum_scal K 2 (fun a => pi0 n p a)), Hsum. lra.
    - intros a Ha. rewrite (rsum_plus K (fun b => pi0 n p a * pi0 n p b) (fun b => pi0 n p b * pi0 n p a)).
      rewrite (rsum_scal K (pi0 n p a) (fun b => pi0 n p b)), (rsum_scal_r K (pi0 n p a) (fun b => pi0 n p b)), Hsum. lra. }
  rewrite E in B. rewrite hf_half. lra.
Qed.
Theorem tv_le_1 eps n K P ovo : 0 <= eps -> (0 < n)%nat -> interior eps n K P -> row_stochastic n K P ->
  tv_score Rops eps n K P ovo <= 1.
Proof.
  intros He Hn HI Hr. pose proof (interior_pos eps n K P He HI) as Hp. rewrite tv_score_interior by exact HI.
  destruct ovo; [apply tvo_le_1 | apply tvc_le_1]; assumption.
Qed.

(* ------------------------------------------------------------------ C13: zero on independent predictions *)
Definition rows_equal (n K : nat) (p : mat) : Prop :=
  forall i j k, (i < n)%nat -> (j < n)%nat -> (k < K)%nat -> p i k = p j k.
Lemma pi0_rows_equal n K p i k : (0 < n)%nat -> rows_equal n K p -> (i < n)%nat -> (k < K)%nat -> pi0 n p k = p i k.
Proof.
  intros Hn He Hi Hk. unfold pi0. rewrite (rsum_ext n _ (fun _ => p i k)) by (intros j Hj; apply He; assumption).
  rewrite rsum_const. field. apply not_0_INR. lia.
Qed.
Lemma tvc_rows_equal n K p : (0 < n)%nat -> rows_equal n K p -> tvc n K p = 0.
Proof.
  intros Hn He. unfold tvc. rewrite rsum_zero; [ring|]. intros k Hk. rewrite rsum_zero; [unfold Rdiv; ring|].
  intros i Hi. rewrite (pi0_rows_equal n K p i k) by assumption. rewrite Rminus_diag_eq by reflexivity. apply Rabs_R0.
Qed.
Lemma tvo_rows_equal n K p : (0 < n)%nat -> rows_equal n K p -> tvo n K p = 0.
Proof.
  intros Hn He. unfold tvo. rewrite rsum_zero; [ring|]. intros a Ha. rewrite rsum_zero; [reflexivity|]. intros b Hb.
  rewrite rsum_zero; [unfold Rdiv; ring|]. intros i Hi. unfold odif.
  rewrite (pi0_rows_equal n K p i a), (pi0_rows_equal n K p i b) by assumption.
  rewrite Rminus_diag_eq by ring. apply Rabs_R0.
Qed.
(* holds for every input with equal rows (clipping keeps rows equal): interior is not needed *)
Theorem tv_independent_zero eps n K P ovo : (0 < n)%nat -> rows_equal n K P -> tv_score Rops eps n K P ovo = 0.
Proof.
  intros Hn He. rewrite tv_score_clean.
  assert (He' : rows_equal n K (Gemini.P Rops eps P)).
  { intros i j k Hi Hj Hk. unfold Gemini.P. rewrite (He i j k) by assumption. reflexivity. }
  destruct ovo; [apply tvo_rows_equal | apply tvc_rows_equal]; assumption.
Qed.

(* ------------------------------------------------------------------ C13: permutations of samples *)
Lemma pi0_perm_samples n s p k : perm_on n s -> pi0 n (fun i k => p (s i) k) k = pi0 n p k.
Proof. intros Hs. unfold pi0. f_equal. apply (rsum_perm n s (fun i => p i k)). exact Hs. Qed.
Lemma odif_perm_samples n s p i a b : perm_on n s -> odif n (fun i k => p (s i) k) i a b = odif n p (s i) a b.
Proof. intros Hs. unfold odif. rewrite (pi0_perm_samples n s p a Hs), (pi0_perm_samples n s p b Hs). reflexivity. Qed.
Lemma ocpg_perm_samples n s p i a b : perm_on n s -> ocpg n (fun i k => p (s i) k) i a b = ocpg n p (s i) a b.
Proof. intros Hs. unfold ocpg. rewrite (odif_perm_samples n s p i a b Hs), (odif_perm_samples n s p i b a Hs). reflexivity. Qed.
Lemma tvc_perm_samples n K s p : perm_on n s -> tvc n K (fun i k => p (s i) k) = tvc n K p.
Proof.
  intros Hs. unfold tvc. f_equal. apply rsum_ext. intros k Hk. f_equal.
  rewrite pi0_perm_samples by exact Hs. apply (rsum_perm n s (fun i => Rabs (p i k - pi0 n p k))). exact Hs.
Qed.
Lemma tvo_perm_samples n K s p : perm_on n s -> tvo n K (fun i k => p (s i) k) = tvo n K p.
Proof.
  intros Hs. unfold tvo. f_equal. apply rsum_ext. intros a Ha. apply rsum_ext. intros b Hb. f_equal.
  rewrite (rsum_ext n _ (fun i => Rabs (odif n p (s i) a b))) by (intros i Hi; rewrite odif_perm_samples by exact Hs; reflexivity).
  apply (rsum_perm n s (fun i => Rabs (odif n p i a b))). exact Hs.
Qed.
Lemma tvc_grad_perm_samples n K s p i k : perm_on n s ->
  tvc_grad n K (fun i k => p (s i) k) i k = tvc_grad n K p (s i) k.
Proof.
  intros Hs. unfold tvc_grad. rewrite pi0_perm_samples by exact Hs.
  rewrite (rsum_perm n s (fun j => sg (p j k - pi0 n p k)) Hs). reflexivity.
Qed.
Lemma tvo_grad_perm_samples n K s p i k : perm_on n s ->
  tvo_grad n K (fun i k => p (s i) k) i k = tvo_grad n K p (s i) k.
Proof.
  intros Hs. unfold tvo_grad. f_equal. f_equal.
  - apply rsum_ext. intros a Ha. rewrite pi0_perm_samples, ocpg_perm_samples by exact Hs. reflexivity.
  - f_equal.
    rewrite (rsum_ext n _ (fun j => rsum K (fun b => ocpg n p (s j) k b * p (s j) b))).
    2:{ intros j Hj. apply rsum_ext. intros b Hb. rewrite ocpg_perm_samples by exact Hs. reflexivity. }
    apply (rsum_perm n s (fun j => rsum K (fun b => ocpg n p j k b * p j b))). exact Hs.
Qed.
Theorem tv_perm_samples eps n K P ovo s : perm_on n s ->
  tv_score Rops eps n K (fun i k => P (s i) k) ovo = tv_score Rops eps n K P ovo.
Proof.
  intros Hs. rewrite !tv_score_clean.
  destruct ovo; [apply (tvo_perm_samples n K s (Gemini.P Rops eps P) Hs) | apply (tvc_perm_samples n K s (Gemini.P Rops eps P) Hs)].
Qed.
(* the gradient of the row-permuted input is the row-permuted gradient (all i, k) *)
Theorem tv_grad_perm_samples eps n K P ovo s i k : perm_on n s ->
  tv_grad Rops eps n K (fun i k => P (s i) k) ovo i k = tv_grad Rops eps n K P ovo (s i) k.
Proof.
  intros Hs. rewrite !tv_grad_clean.
  replace (maskT Rops eps (fun i k => P (s i) k) i k) with (maskT Rops eps P (s i) k) by reflexivity.
  f_equal.
  destruct ovo; [apply (tvo_grad_perm_samples n K s (Gemini.P Rops eps P) i k Hs) | apply (tvc_grad_perm_samples n K s (Gemini.P Rops eps P) i k Hs)].
Qed.

(* ------------------------------------------------------------------ C13: permutations of clusters *)
Lemma tvc_perm_clusters n K s p : perm_on K s -> tvc n K (fun i k => p i (s k)) = tvc n K p.
Proof.
  intros Hs. unfold tvc. f_equal.
  apply (rsum_perm K s (fun k => rsum n (fun i => Rabs (p i k - pi0 n p k)) / INR n)). exact Hs.
Qed.
Lemma tvo_perm_clusters n K s p : perm_on K s -> tvo n K (fun i k => p i (s k)) = tvo n K p.
Proof.
  intros Hs. unfold tvo. f_equal.
  rewrite <- (rsum_perm K s (fun a => rsum K (fun b => rsum n (fun i => Rabs (odif n p i a b)) / INR n)) Hs).
  apply rsum_ext. intros a Ha.
  apply (rsum_perm K s (fun b => rsum n (fun i => Rabs (odif n p i (s a) b)) / INR n)). exact Hs.
Qed.
Lemma tvc_grad_perm_clusters n K s p i k : tvc_grad n K (fun i k => p i (s k)) i k = tvc_grad n K p i (s k).
Proof. reflexivity. Qed.
Lemma tvo_grad_perm_clusters n K s p i k : perm_on K s ->
  tvo_grad n K (fun i k => p i (s k)) i k = tvo_grad n K p i (s k).
Proof.
  intros Hs. unfold tvo_grad. f_equal. f_equal.
  - apply (rsum_perm K s (fun a => pi0 n p a * ocpg n p i a (s k))). exact Hs.
  - f_equal. apply rsum_ext. intros j Hj.
    apply (rsum_perm K s (fun b => ocpg n p j (s k) b * p j b)). exact Hs.
Qed.
Theorem tv_perm_clusters eps n K P ovo s : perm_on K s ->
  tv_score Rops eps n K (fun i k => P i (s k)) ovo = tv_score Rops eps n K P ovo.
Proof.
  intros Hs. rewrite !tv_score_clean.
  destruct ovo; [apply (tvo_perm_clusters n K s (Gemini.P Rops eps P) Hs) | apply (tvc_perm_clusters n K s (Gemini.P Rops eps P) Hs)].
Qed.
(* the gradient of the column-permuted input is the column-permuted gradient (all i, k) *)
Theorem tv_grad_perm_clusters eps n K P ovo s i k : perm_on K s ->
  tv_grad Rops eps n K (fun i k => P i (s k)) ovo i k = tv_grad Rops eps n K P ovo i (s k).
Proof.
  intros Hs. rewrite !tv_grad_clean.
  replace (maskT Rops eps (fun i k => P i (s k)) i k) with (maskT Rops eps P i (s k)) by reflexivity.
  f_equal.
  destruct ovo; [apply (tvo_grad_perm_clusters n K s (Gemini.P Rops eps P) i k Hs) | apply (tvc_grad_perm_clusters n K s (Gemini.P Rops eps P) i k)].
Qed.
