(* KL GEMINI (one-vs-all = mutual information, and one-vs-one): score = definition (C01),
   gradient = derivative of the score (C02). *)
From Coq Require Import Reals Lra Lia Psatz.
From Coquelicot Require Import Coquelicot.
From GV Require Import Common.Num Common.NumR Model.Gemini Proofs.RSumLib Proofs.GeminiDefs.
Open Scope R_scope.

(* ------------------------------------------------------------------ clean (unclipped) forms *)
Definition klc (n K : nat) (p : mat) : R :=
  rsum K (fun k => rsum n (fun i => p i k * ln (p i k)) / INR n)
  - rsum K (fun k => pi0 n p k * ln (pi0 n p k)).
Definition klc_grad (n K : nat) (p : mat) (i k : nat) : R :=
  ln (p i k) / INR n - ln (pi0 n p k) / INR n.
Definition klo (n K : nat) (p : mat) : R :=
  rsum K (fun k => rsum n (fun i => p i k * ln (p i k)) / INR n)
  - rsum K (fun k => pi0 n p k * (rsum n (fun i => ln (p i k)) / INR n)).
Definition klo_grad (n K : nat) (p : mat) (i k : nat) : R :=
  (ln (p i k) + 1) / INR n - (pi0 n p k / p i k + rsum n (fun j => ln (p j k)) / INR n) / INR n.

Lemma kl_score_interior eps n K Y ovo : interior eps n K Y ->
  kl_score Rops eps n K Y ovo = if ovo then klo n K Y else klc n K Y.
Proof.
  intros HI. unfold kl_score, kl_pred_entropy, kl_cluster_entropy, klc, klo, mean, ofn.
  cbn [nsub nmul ndiv nln nofnat Rops]. fold (rsum K). fold (rsum n).
  destruct ovo; f_equal; apply rsum_ext; intros k Hk.
  - f_equal. apply rsum_ext. intros i Hi. rewrite (P_interior eps n K Y HI) by assumption. reflexivity.
  - rewrite (pi_interior eps n K Y HI) by assumption. f_equal. f_equal. apply rsum_ext. intros i Hi.
    rewrite (P_interior eps n K Y HI) by assumption. reflexivity.
  - f_equal. apply rsum_ext. intros i Hi. rewrite (P_interior eps n K Y HI) by assumption. reflexivity.
  - rewrite (pi_interior eps n K Y HI) by assumption. reflexivity.
Qed.

Lemma kl_grad_interior eps n K Y ovo i k : interior eps n K Y -> (i < n)%nat -> (k < K)%nat ->
  kl_grad Rops eps n Y ovo i k = if ovo then klo_grad n K Y i k else klc_grad n K Y i k.
Proof.
  intros HI Hi Hk. unfold kl_grad, klc_grad, klo_grad, mean, ofn.
  rewrite (maskT_interior eps n K Y HI) by assumption.
  cbn [nadd nsub nmul ndiv nln nofnat n1 Rops]. fold (rsum n).
  rewrite (P_interior eps n K Y HI) by assumption. rewrite (pi_interior eps n K Y HI) by assumption.
  destruct ovo; rewrite Rmult_1_r; [|reflexivity].
  f_equal. f_equal. f_equal. f_equal. apply rsum_ext. intros j Hj. rewrite (P_interior eps n K Y HI) by assumption. reflexivity.
Qed.

(* ------------------------------------------------------------------ C02: derivative, one-vs-all *)
Lemma d_xlnx (a b : R) : 0 < a -> is_derive (fun t : R => (a + t * b) * ln (a + t * b)) 0 (b * ln a + b).
Proof.
  intros Ha. auto_derive.
  - rewrite Rmult_0_l, Rplus_0_r. exact Ha.
  - rewrite Rmult_0_l, Rplus_0_r. field. lra.
Qed.
Lemma d_ln_lin (a b : R) : 0 < a -> is_derive (fun t : R => ln (a + t * b)) 0 (b / a).
Proof.
  intros Ha. auto_derive.
  - rewrite Rmult_0_l, Rplus_0_r. exact Ha.
  - rewrite Rmult_0_l, Rplus_0_r. field. lra.
Qed.

Theorem klc_derive n K p d :
  (0 < n)%nat -> (forall i k, (i < n)%nat -> (k < K)%nat -> 0 < p i k) ->
  is_derive (fun t : R => klc n K (pert p d t)) 0 (inner n K (klc_grad n K p) d).
Proof.
  intros Hn Hp. unfold klc, inner.
  assert (HN : 0 < INR n) by (apply lt_0_INR; lia).
  set (S0 := fun k => pi0 n p k). set (S1 := fun k => pi0 n d k).
  assert (HS0 : forall k, (k < K)%nat -> 0 < S0 k) by (intros; apply (pi0_pos n K); auto).
  assert (H : is_derive (fun t : R =>
      rsum K (fun k => rsum n (fun i => pert p d t i k * ln (pert p d t i k)) / INR n)
    - rsum K (fun k => pi0 n (pert p d t) k * ln (pi0 n (pert p d t) k))) 0
      (rsum K (fun k => rsum n (fun i => d i k * ln (p i k) + d i k) / INR n)
     - rsum K (fun k => S1 k * ln (S0 k) + S1 k))).
  { apply dR_minus.
    - apply (dR_rsum K (fun k t => rsum n (fun i => pert p d t i k * ln (pert p d t i k)) / INR n)).
      intros k Hk. apply dR_divc.
      apply (dR_rsum n (fun i t => pert p d t i k * ln (pert p d t i k))).
      intros i Hi. unfold pert. apply d_xlnx. apply Hp; auto.
    - apply (dR_rsum K (fun k t => pi0 n (pert p d t) k * ln (pi0 n (pert p d t) k))).
      intros k Hk.
      apply (dR_ext (fun t : R => (S0 k + t * S1 k) * ln (S0 k + t * S1 k))).
      { intros t. rewrite pi0_pert. reflexivity. }
      apply d_xlnx. apply HS0; exact Hk. }
  eapply dR_val; [|exact H].
  rewrite (rsum_swap n K). rewrite <- rsum_minus. apply rsum_ext. intros k Hk.
  unfold klc_grad. fold (S0 k).
  rewrite rsum_plus.
  replace (rsum n (fun i => (ln (p i k) / INR n - ln (S0 k) / INR n) * d i k))
    with (rsum n (fun i => d i k * ln (p i k)) / INR n - ln (S0 k) * S1 k).
  2:{ unfold S1, pi0.
      rewrite <- (rsum_divc n (INR n) (fun i => d i k * ln (p i k))).
      rewrite <- (rsum_divc n (INR n) (fun i => d i k)).
      rewrite <- (rsum_scal n (ln (S0 k)) (fun i => d i k / INR n)).
      rewrite <- rsum_minus. apply rsum_ext. intros i Hi. field. lra. }
  unfold S1 at 2. unfold pi0. field. lra.
Qed.

(* ------------------------------------------------------------------ C02: derivative, one-vs-one *)
Theorem klo_derive n K p d :
  (0 < n)%nat -> (forall i k, (i < n)%nat -> (k < K)%nat -> 0 < p i k) ->
  is_derive (fun t : R => klo n K (pert p d t)) 0 (inner n K (klo_grad n K p) d).
Proof.
  intros Hn Hp. unfold klo, inner.
  assert (HN : 0 < INR n) by (apply lt_0_INR; lia).
  set (S0 := fun k => pi0 n p k). set (S1 := fun k => pi0 n d k).
  set (L0 := fun k => rsum n (fun i => ln (p i k)) / INR n).
  set (L1 := fun k => rsum n (fun i => d i k / p i k) / INR n).
  assert (H : is_derive (fun t : R =>
      rsum K (fun k => rsum n (fun i => pert p d t i k * ln (pert p d t i k)) / INR n)
    - rsum K (fun k => pi0 n (pert p d t) k * (rsum n (fun i => ln (pert p d t i k)) / INR n))) 0
      (rsum K (fun k => rsum n (fun i => d i k * ln (p i k) + d i k) / INR n)
     - rsum K (fun k => S1 k * L0 k + S0 k * L1 k))).
  { apply dR_minus.
    - apply (dR_rsum K (fun k t => rsum n (fun i => pert p d t i k * ln (pert p d t i k)) / INR n)).
      intros k Hk. apply dR_divc.
      apply (dR_rsum n (fun i t => pert p d t i k * ln (pert p d t i k))).
      intros i Hi. unfold pert. apply d_xlnx. apply Hp; auto.
    - apply (dR_rsum K (fun k t => pi0 n (pert p d t) k * (rsum n (fun i => ln (pert p d t i k)) / INR n))).
      intros k Hk.
      assert (Ha : is_derive (fun t : R => pi0 n (pert p d t) k) 0 (S1 k)).
      { apply (dR_ext (fun t : R => S0 k + t * S1 k)); [intros t; rewrite pi0_pert; reflexivity | apply dR_lin]. }
      assert (Hb : is_derive (fun t : R => rsum n (fun i => ln (pert p d t i k)) / INR n) 0 (L1 k)).
      { unfold L1. apply dR_divc. apply (dR_rsum n (fun i t => ln (pert p d t i k))).
        intros i Hi. unfold pert. apply d_ln_lin. apply Hp; auto. }
      eapply dR_val; [|exact (dR_mult _ _ 0 _ _ Ha Hb)].
      cbn beta. unfold L0, S0. f_equal; [|f_equal].
      + f_equal. f_equal. apply rsum_ext. intros i Hi. unfold pert. rewrite Rmult_0_l, Rplus_0_r. reflexivity.
      + unfold pi0. f_equal. apply rsum_ext. intros i Hi. unfold pert. rewrite Rmult_0_l, Rplus_0_r. reflexivity. }
  eapply dR_val; [|exact H].
  rewrite (rsum_swap n K). rewrite <- rsum_minus. apply rsum_ext. intros k Hk.
  unfold klo_grad. fold (S0 k). fold (L0 k).
  rewrite rsum_plus.
  assert (E1 : rsum n (fun i => ((ln (p i k) + 1) / INR n - (S0 k / p i k + L0 k) / INR n) * d i k)
     = rsum n (fun i => d i k * ln (p i k)) / INR n + rsum n (fun i => d i k) / INR n
       - S0 k * (rsum n (fun i => d i k / p i k) / INR n) - L0 k * (rsum n (fun i => d i k) / INR n)).
  { rewrite <- !rsum_divc.
    replace (S0 k * rsum n (fun i => d i k / p i k / INR n)) with (rsum n (fun i => S0 k * (d i k / p i k / INR n))) by apply rsum_scal.
    replace (L0 k * rsum n (fun i => d i k / INR n)) with (rsum n (fun i => L0 k * (d i k / INR n))) by apply rsum_scal.
    rewrite <- rsum_plus, <- !rsum_minus. apply rsum_ext. intros i Hi.
    assert (0 < p i k) by (apply Hp; auto). field. lra. }
  rewrite E1. unfold S1, L1, pi0. field. lra.
Qed.

(* ------------------------------------------------------------------ C01: score = definition *)
(* one-vs-all: sum_k pi_k KL( p(x|y=k) || p(x) )  — the mutual information *)
Lemma klc_is_definition n K p : (0 < n)%nat -> (forall i k, (i < n)%nat -> (k < K)%nat -> 0 < p i k) ->
  klc n K p = gemini_ova n K p (KLdiv n).
Proof.
  intros Hn Hp. assert (HN : 0 < INR n) by (apply lt_0_INR; lia).
  unfold klc, gemini_ova. rewrite <- rsum_minus. apply rsum_ext. intros k Hk.
  assert (Hpi : 0 < pi0 n p k) by (apply (pi0_pos n K); auto).
  unfold KLdiv.
  rewrite (rsum_ext n (fun i => cond n p k i * ln (cond n p k i / unif n i))
            (fun i => (p i k * ln (p i k) - p i k * ln (pi0 n p k)) / (INR n * pi0 n p k))).
  2:{ intros i Hi. assert (0 < p i k) by (apply Hp; auto). unfold cond, unif.
      replace (p i k / (INR n * pi0 n p k) / / INR n) with (p i k * / pi0 n p k) by (field; lra).
      rewrite ln_mult by (try apply Rinv_0_lt_compat; lra). rewrite ln_Rinv by lra. field. lra. }
  rewrite rsum_divc, rsum_minus, rsum_scal_r.
  assert (HS : rsum n (fun i => p i k) = INR n * pi0 n p k) by (unfold pi0; field; lra).
  rewrite HS. field. lra.
Qed.
(* one-vs-one: sum_{a,b} pi_a pi_b KL( p(x|y=a) || p(x|y=b) ) *)
Lemma klo_is_definition n K p : (0 < n)%nat -> (forall i k, (i < n)%nat -> (k < K)%nat -> 0 < p i k) ->
  row_stochastic n K p ->
  klo n K p = gemini_ovo n K p (KLdiv n).
Proof.
  intros Hn Hp Hrow. assert (HN : 0 < INR n) by (apply lt_0_INR; lia).
  assert (Hpi : forall k, (k < K)%nat -> 0 < pi0 n p k) by (intros; apply (pi0_pos n K); auto).
  assert (Hsum : rsum K (fun k => pi0 n p k) = 1) by (apply pi0_sum_one; auto).
  unfold gemini_ovo, KLdiv.
  (* inner term: pi_a pi_b sum_i q_a(i) (ln p_ia - ln pi_a - ln p_ib + ln pi_b) *)
  rewrite (rsum_ext K _ (fun a => rsum K (fun b =>
      pi0 n p b * (rsum n (fun i => p i a * ln (p i a)) / INR n - pi0 n p a * ln (pi0 n p a))
    - pi0 n p b * (rsum n (fun i => p i a * ln (p i b)) / INR n) + pi0 n p a * (pi0 n p b * ln (pi0 n p b))))).
  2:{ intros a Ha. apply rsum_ext. intros b Hb. specialize (Hpi a Ha) as Hpa. specialize (Hpi b Hb) as Hpb.
      rewrite (rsum_ext n _ (fun i => (p i a * ln (p i a) - p i a * ln (pi0 n p a) - p i a * ln (p i b) + p i a * ln (pi0 n p b)) / (INR n * pi0 n p a))).
      2:{ intros i Hi. assert (0 < p i a) by (apply Hp; auto). assert (0 < p i b) by (apply Hp; auto). unfold cond.
          replace (p i a / (INR n * pi0 n p a) / (p i b / (INR n * pi0 n p b))) with ((p i a * pi0 n p b) * / (pi0 n p a * p i b)) by (field; lra).
          rewrite ln_mult; [| apply Rmult_lt_0_compat; lra | apply Rinv_0_lt_compat, Rmult_lt_0_compat; lra].
          rewrite ln_Rinv by (apply Rmult_lt_0_compat; lra). rewrite !ln_mult by lra. field. lra. }
      rewrite rsum_divc, rsum_plus, !rsum_minus, !rsum_scal_r.
      assert (HS : rsum n (fun i => p i a) = INR n * pi0 n p a) by (unfold pi0; field; lra).
      rewrite HS. field. lra. }
  (* sum over b, then over a *)
  rewrite (rsum_ext K _ (fun a =>
      (rsum n (fun i => p i a * ln (p i a)) / INR n - pi0 n p a * ln (pi0 n p a))
    - rsum K (fun b => pi0 n p b * (rsum n (fun i => p i a * ln (p i b)) / INR n))
    + pi0 n p a * rsum K (fun b => pi0 n p b * ln (pi0 n p b)))).
  2:{ intros a Ha. rewrite rsum_plus, rsum_minus.
      rewrite (rsum_scal_r K _ (fun b => pi0 n p b)), Hsum.
      rewrite (rsum_scal K (pi0 n p a) (fun b => pi0 n p b * ln (pi0 n p b))). ring. }
  rewrite rsum_plus, rsum_minus, rsum_minus.
  rewrite (rsum_scal_r K _ (fun a => pi0 n p a)), Hsum.
  unfold klo.
  assert (E : rsum K (fun a => rsum K (fun b => pi0 n p b * (rsum n (fun i => p i a * ln (p i b)) / INR n)))
            = rsum K (fun b => pi0 n p b * (rsum n (fun i => ln (p i b)) / INR n))).
  { rewrite rsum_swap. apply rsum_ext. intros b Hb. rewrite rsum_scal. f_equal. rewrite rsum_divc. f_equal.
    rewrite rsum_swap. apply rsum_ext. intros i Hi. rewrite (rsum_scal_r K (ln (p i b)) (fun a => p i a)). rewrite (Hrow i Hi). ring. }
  rewrite E. ring.
Qed.

(* ------------------------------------------------------------------ final statements about the model *)
Theorem kl_grad_is_derivative eps n K P D ovo : 0 <= eps -> (0 < n)%nat -> interior eps n K P ->
  is_derive (fun t : R => kl_score Rops eps n K (pert P D t) ovo) 0 (inner n K (kl_grad Rops eps n P ovo) D).
Proof.
  intros He Hn HI. pose proof (interior_pos eps n K P He HI) as Hp.
  apply (lift_derivative (fun Y => kl_score Rops eps n K Y ovo) (fun Y => if ovo then klo n K Y else klc n K Y)
           (kl_grad Rops eps n P ovo) (if ovo then klo_grad n K P else klc_grad n K P) eps n K P D).
  - intros Y HY. apply kl_score_interior. exact HY.
  - intros i k Hi Hk. rewrite (kl_grad_interior eps n K P ovo i k HI Hi Hk). destruct ovo; reflexivity.
  - exact HI.
  - destruct ovo; [apply klo_derive | apply klc_derive]; assumption.
Qed.
Theorem kl_score_is_definition eps n K P ovo : 0 <= eps -> (0 < n)%nat -> interior eps n K P -> row_stochastic n K P ->
  kl_score Rops eps n K P ovo = if ovo then gemini_ovo n K P (KLdiv n) else gemini_ova n K P (KLdiv n).
Proof.
  intros He Hn HI Hr. pose proof (interior_pos eps n K P He HI) as Hp. rewrite kl_score_interior by exact HI.
  destruct ovo; [apply klo_is_definition | apply klc_is_definition]; assumption.
Qed.
