(* Wasserstein GEMINI (one-vs-all and one-vs-one) relative to the ot.emd2 ORACLE  (C01, C02, C13).
   Source: gemclus/gemini/_geomdistances.py, class WassersteinGEMINI; model: Model/Gemini.v (the ws_ definitions).

   The LP solver is not modelled.  In [Section Wasserstein]
     W        : the abstract optimal-transport cost between two weight vectors on the n sample points,
     emd_cost, emd_u, emd_v : what the solver returns (cost, log["u"], log["v"]) for given marginals,
   and everything assumed of the solver is explicit:
     H_cost      (Section hypothesis)  on probability vectors the returned cost is W of the marginals given;
     H_envelope  (Section hypothesis, [envelope_calls P ovo])  at each call made at P the returned
                 potentials are the derivative of W along mass-preserving perturbations of the marginals
                 of that call (envelope property at a non-degenerate optimum):
                   one-vs-all  [envelope_line]   directional derivative in the first marginal,
                   one-vs-one  [envelope_joint]  differentiability in the two step sizes (s,r) of
                                                 (a + s da, b + r db)  -- see the remark before
                                                 [envelope_calls] for why lines are not enough there.
   Properties of W itself (symmetry, W a a = 0, W >= 0, locality) are premises of the C01/C13 statements
   that need them, never of the derivative theorem.

   Results: ws_weights_are_conditionals, ws_score_is_definition (+ ws_eval_is_definition),
            ws_grad_is_derivative_ova / _ovo / ws_grad_is_derivative, ws_nonneg, ws_independent_zero,
            ws_perm_clusters.
   Remarks found while proving:
   * [tangent n K D] is NOT needed: cond n (P + tD) k has total mass 1 for every direction D, so its
     velocity [qd] sums to zero by itself (qd_sum0).
   * the perturbed conditional is a quotient in t but it runs on a straight line:
       cond n (P + tD) k = cond n P k + sp(t) * qd,   sp(t) = t pi_k / (pi_k + t d_k)   (cond_pert_line),
     so the chain rule needed is the one-dimensional one (one-vs-all) or the two-variable one (one-vs-one).
   * centring the potentials is immaterial for correctness: [chain_centre] holds for any potential f and
     pairs the *uncentred* f with qd (constants are killed by sum qd = 0).
   * the one-vs-one derivative needs neither symmetry of W nor W a a = 0 (ws_dist symmetrises and zeroes
     the diagonal by construction); the identification with gemini_ovo and cluster-permutation
     invariance do need symmetry. *)
From Coq Require Import Reals Lra Lia Psatz FunctionalExtensionality.
From Coquelicot Require Import Coquelicot.
From GV Require Import Common.Num Common.NumR Model.Gemini Proofs.RSumLib Proofs.GeminiDefs.
Open Scope R_scope.

(* ------------------------------------------------------------------ small sum helpers *)
Lemma rsum_lin2 n c1 c2 (f1 f2 : nat -> R) :
  rsum n (fun i => c1 * f1 i + c2 * f2 i) = c1 * rsum n f1 + c2 * rsum n f2.
Proof. rewrite rsum_plus, !rsum_scal. reflexivity. Qed.
Lemma rsum_lin3 n c1 c2 c3 (f1 f2 f3 : nat -> R) :
  rsum n (fun i => c1 * f1 i + c2 * f2 i + c3 * f3 i) = c1 * rsum n f1 + c2 * rsum n f2 + c3 * rsum n f3.
Proof. rewrite !rsum_plus, !rsum_scal. reflexivity. Qed.

(* probability vectors on the n sample points: what the solver is ever called with *)
Definition wvec (n : nat) (a : nat -> R) : Prop := (forall i, (i < n)%nat -> 0 < a i) /\ rsum n a = 1.

Lemma unif_wvec n : (0 < n)%nat -> wvec n (unif n).
Proof.
  intros Hn. assert (HN : 0 < INR n) by (apply lt_0_INR; lia). split.
  - intros i _. unfold unif. apply Rinv_0_lt_compat. exact HN.
  - unfold unif. rewrite rsum_const. field. lra.
Qed.
Lemma rsum_col n P k : (0 < n)%nat -> rsum n (fun i => P i k) = INR n * pi0 n P k.
Proof. intros Hn. assert (HN : 0 < INR n) by (apply lt_0_INR; lia). unfold pi0. field. lra. Qed.
Lemma cond_wvec n K P k : (0 < n)%nat -> (forall i k, (i < n)%nat -> (k < K)%nat -> 0 < P i k) ->
  (k < K)%nat -> wvec n (cond n P k).
Proof.
  intros Hn Hp Hk. assert (HN : 0 < INR n) by (apply lt_0_INR; lia).
  assert (Hpi : 0 < pi0 n P k) by (apply (pi0_pos n K); auto).
  split.
  - intros i Hi. unfold cond. apply Rdiv_lt_0_compat; [apply Hp; auto | apply Rmult_lt_0_compat; lra].
  - unfold cond. rewrite rsum_divc, rsum_col by exact Hn. field. lra.
Qed.
Lemma cond_wvec_interior eps n K P k : 0 <= eps -> (0 < n)%nat -> interior eps n K P -> (k < K)%nat -> wvec n (cond n P k).
Proof. intros He Hn HI Hk. apply (cond_wvec n K); auto. apply (interior_pos eps); auto. Qed.

(* ------------------------------------------------------------------ the conditional moves on a line *)
(* velocity of the conditional q_k(t) = cond n (P + tD) k at t = 0 *)
Definition qd (n : nat) (P D : mat) (k i : nat) : R :=
  D i k / (INR n * pi0 n P k) - P i k * pi0 n D k / (INR n * (pi0 n P k) ^ 2).
(* reparametrisation: q_k(t) = q_k(0) + sp(t) * qd, sp(t) = t pi_k / (pi_k + t d_k) *)
Definition sp (n : nat) (P D : mat) (k : nat) (t : R) : R := t * pi0 n P k / (pi0 n P k + t * pi0 n D k).

Lemma qd_sum0 n P D k : (0 < n)%nat -> pi0 n P k <> 0 -> rsum n (qd n P D k) = 0.
Proof.
  intros Hn Hpi. assert (HN : 0 < INR n) by (apply lt_0_INR; lia). unfold qd.
  rewrite rsum_minus, rsum_divc.
  rewrite (rsum_ext n (fun i => P i k * pi0 n D k / (INR n * pi0 n P k ^ 2))
                      (fun i => (pi0 n D k / (INR n * pi0 n P k ^ 2)) * P i k)).
  2:{ intros i Hi. field. repeat split; lra. }
  rewrite rsum_scal, !rsum_col by exact Hn. field. repeat split; lra.
Qed.
Lemma sp_0 n P D k : sp n P D k 0 = 0.
Proof. unfold sp. unfold Rdiv. ring. Qed.
Lemma sp_derive n P D k : pi0 n P k <> 0 -> is_derive (sp n P D k) 0 1.
Proof.
  intros Hpi. unfold sp. auto_derive.
  - rewrite Rmult_0_l, Rplus_0_r. exact Hpi.
  - rewrite !Rmult_0_l, !Rplus_0_r. field. exact Hpi.
Qed.
Lemma cond_pert_line n P D k t : (0 < n)%nat -> pi0 n P k <> 0 -> pi0 n P k + t * pi0 n D k <> 0 ->
  cond n (pert P D t) k = (fun i => cond n P k i + sp n P D k t * qd n P D k i).
Proof.
  intros Hn Hpi Ht. assert (HN : 0 < INR n) by (apply lt_0_INR; lia).
  apply functional_extensionality. intros i. unfold cond, sp, qd. rewrite pi0_pert. unfold pert.
  field. repeat split; lra.
Qed.
Lemma pi0_pert_pos_locally n P D k : 0 < pi0 n P k -> locally 0 (fun t => 0 < pi0 n P k + t * pi0 n D k).
Proof.
  intros Hpi.
  assert (Hc : continuous (fun t : R => pi0 n P k + t * pi0 n D k) 0).
  { apply (ex_derive_continuous (fun t : R => pi0 n P k + t * pi0 n D k)). exists (pi0 n D k). apply dR_lin. }
  apply (Hc (fun y => 0 < y)). apply (open_gt 0). rewrite Rmult_0_l, Rplus_0_r. exact Hpi.
Qed.

(* centring a potential does not change its pairing with a zero-sum direction; the chained form *)
Definition cen (n : nat) (f : nat -> R) (i : nat) : R := f i - rsum n f / INR n.
Lemma chain_centre n P D (f : nat -> R) k : (0 < n)%nat -> pi0 n P k <> 0 ->
  rsum n (fun i => (cen n f i / INR n - rsum n (fun j => cen n f j * P j k) / (INR n * INR n * pi0 n P k)) * D i k)
  = pi0 n P k * rsum n (fun i => f i * qd n P D k i).
Proof.
  intros Hn Hpi. assert (HN : 0 < INR n) by (apply lt_0_INR; lia).
  set (m := rsum n f / INR n). set (p := pi0 n P k) in *. set (d := pi0 n D k).
  set (SfD := rsum n (fun i => f i * D i k)). set (SfP := rsum n (fun i => f i * P i k)).
  assert (E1 : rsum n (fun j => cen n f j * P j k) = SfP - m * (INR n * p)).
  { unfold cen. fold m. rewrite (rsum_ext n _ (fun j => 1 * (f j * P j k) + (- m) * P j k)) by (intros; ring).
    rewrite rsum_lin2, rsum_col by exact Hn. fold SfP p. ring. }
  rewrite E1.
  set (c := (SfP - m * (INR n * p)) / (INR n * INR n * p)).
  rewrite (rsum_ext n _ (fun i => (/ INR n) * (f i * D i k) + (- m / INR n - c) * D i k)).
  2:{ intros i Hi. unfold cen. fold m. field. lra. }
  rewrite rsum_lin2, rsum_col by exact Hn. fold SfD d.
  unfold qd. fold p d.
  rewrite (rsum_ext n (fun i => f i * (D i k / (INR n * p) - P i k * d / (INR n * p ^ 2)))
            (fun i => (/ (INR n * p)) * (f i * D i k) + (- d / (INR n * p ^ 2)) * (f i * P i k))).
  2:{ intros i Hi. field. repeat split; lra. }
  rewrite rsum_lin2. fold SfD SfP. unfold c. field. repeat split; lra.
Qed.

(* ------------------------------------------------------------------ envelope property of the solver's potentials *)
(* [vline a s da] is the marginal a moved by s along da *)
Definition vline (a : nat -> R) (s : R) (da : nat -> R) : nat -> R := fun i => a i + s * da i.
Definition dot (n : nat) (u x : nat -> R) : R := rsum n (fun i => u i * x i).

(* first marginal only (the second marginal of the one-vs-all calls is the constant 1/n):
   directional (Gateaux) derivative along every mass-preserving line. *)
Definition envelope_line (n : nat) (W : (nat -> R) -> (nat -> R) -> R) (a b u : nat -> R) : Prop :=
  forall da, rsum n da = 0 -> is_derive (fun t : R => W (vline a t da) b) 0 (dot n u da).
(* both marginals: W is differentiable at (a,b) jointly in the two step sizes, for every pair of
   mass-preserving directions (at a non-degenerate LP optimum W is even locally affine there). *)
Definition envelope_joint (n : nat) (W : (nat -> R) -> (nat -> R) -> R) (a b u v : nat -> R) : Prop :=
  forall da db, rsum n da = 0 -> rsum n db = 0 ->
    differentiable_pt_lim (fun s r : R => W (vline a s da) (vline b r db)) 0 0 (dot n u da) (dot n v db).

Lemma vline_0 a da : vline a 0 da = a.
Proof. apply functional_extensionality. intros i. unfold vline. ring. Qed.
Lemma vline_zero_dir a s : vline a s (fun _ => 0) = a.
Proof. apply functional_extensionality. intros i. unfold vline. ring. Qed.

(* chain rule along a curve of marginals whose two components run on (reparametrised) lines *)
Lemma envelope_joint_curve n W a b u v da db (s r : R -> R) s' r' :
  envelope_joint n W a b u v -> rsum n da = 0 -> rsum n db = 0 ->
  s 0 = 0 -> r 0 = 0 -> is_derive s 0 s' -> is_derive r 0 r' ->
  is_derive (fun t : R => W (vline a (s t) da) (vline b (r t) db)) 0 (dot n u da * s' + dot n v db * r').
Proof.
  intros HE Ha Hb Hs0 Hr0 Hs Hr.
  apply is_derive_Reals.
  apply (derivable_pt_lim_comp_2d (fun x y : R => W (vline a x da) (vline b y db)) s r 0).
  - rewrite Hs0, Hr0. apply HE; assumption.
  - apply is_derive_Reals. exact Hs.
  - apply is_derive_Reals. exact Hr.
Qed.
Lemma envelope_line_curve n W a b u da (s : R -> R) s' :
  envelope_line n W a b u -> rsum n da = 0 -> s 0 = 0 -> is_derive s 0 s' ->
  is_derive (fun t : R => W (vline a (s t) da) b) 0 (dot n u da * s').
Proof.
  intros HE Ha Hs0 Hs.
  replace (dot n u da * s') with (scal s' (dot n u da)) by (unfold scal; simpl; unfold mult; simpl; ring).
  apply (is_derive_comp (fun x : R => W (vline a x da) b) s 0 (dot n u da) s').
  - rewrite Hs0. apply HE. exact Ha.
  - exact Hs.
Qed.
(* the joint property contains the one-marginal one *)
Lemma envelope_joint_line n W a b u v : envelope_joint n W a b u v -> envelope_line n W a b u.
Proof.
  intros HE da Ha.
  assert (H0 : rsum n (fun _ : nat => 0) = 0) by (apply rsum_zero; reflexivity).
  pose proof (envelope_joint_curve n W a b u v da (fun _ => 0) (fun t => t) (fun _ => 0) 1 0 HE Ha H0
                eq_refl eq_refl (dR_id 0) (dR_const 0 0)) as H.
  apply (dR_val _ 0 (dot n u da * 1 + dot n v (fun _ => 0) * 0)); [lra|].
  apply (dR_ext (fun t : R => W (vline a t da) (vline b 0 (fun _ => 0)))).
  - intros t. rewrite vline_zero_dir. reflexivity.
  - exact H.
Qed.

(* the two calls' first arguments along the perturbation, as lines *)
Lemma W_cond_ova_derive n K W P D k u :
  (0 < n)%nat -> (forall i k, (i < n)%nat -> (k < K)%nat -> 0 < P i k) -> (k < K)%nat ->
  envelope_line n W (cond n P k) (unif n) u ->
  is_derive (fun t : R => W (cond n (pert P D t) k) (unif n)) 0 (dot n u (qd n P D k)).
Proof.
  intros Hn Hp Hk HE.
  assert (Hpi : 0 < pi0 n P k) by (apply (pi0_pos n K); auto).
  apply (dR_ext_loc (fun t : R => W (vline (cond n P k) (sp n P D k t) (qd n P D k)) (unif n))).
  - generalize (pi0_pert_pos_locally n P D k Hpi). apply filter_imp. intros t Ht.
    rewrite (cond_pert_line n P D k t Hn) by lra. reflexivity.
  - apply (dR_val _ 0 (dot n u (qd n P D k) * 1)); [lra|].
    apply (envelope_line_curve n W _ _ u _ (sp n P D k) 1 HE).
    + apply qd_sum0; [exact Hn | lra].
    + apply sp_0.
    + apply sp_derive. lra.
Qed.
Lemma W_cond_ovo_derive n K W P D a b u v :
  (0 < n)%nat -> (forall i k, (i < n)%nat -> (k < K)%nat -> 0 < P i k) -> (a < K)%nat -> (b < K)%nat ->
  envelope_joint n W (cond n P a) (cond n P b) u v ->
  is_derive (fun t : R => W (cond n (pert P D t) a) (cond n (pert P D t) b)) 0
            (dot n u (qd n P D a) + dot n v (qd n P D b)).
Proof.
  intros Hn Hp Ha Hb HE.
  assert (Hpa : 0 < pi0 n P a) by (apply (pi0_pos n K); auto).
  assert (Hpb : 0 < pi0 n P b) by (apply (pi0_pos n K); auto).
  apply (dR_ext_loc (fun t : R => W (vline (cond n P a) (sp n P D a t) (qd n P D a))
                                    (vline (cond n P b) (sp n P D b t) (qd n P D b)))).
  - generalize (filter_and _ _ (pi0_pert_pos_locally n P D a Hpa) (pi0_pert_pos_locally n P D b Hpb)).
    apply filter_imp. intros t [Hta Htb].
    rewrite (cond_pert_line n P D a t Hn), (cond_pert_line n P D b t Hn) by lra. reflexivity.
  - apply (dR_val _ 0 (dot n u (qd n P D a) * 1 + dot n v (qd n P D b) * 1)); [lra|].
    apply (envelope_joint_curve n W _ _ u v _ _ (sp n P D a) (sp n P D b) 1 1 HE).
    + apply qd_sum0; [exact Hn | lra].
    + apply qd_sum0; [exact Hn | lra].
    + apply sp_0.
    + apply sp_0.
    + apply sp_derive. lra.
    + apply sp_derive. lra.
Qed.

(* the hypotheses are satisfiable: a cost that is linear in the marginals has constant potentials *)
Lemma envelope_joint_linear n (c e a b : nat -> R) :
  envelope_joint n (fun x y => dot n c x + dot n e y) a b c e.
Proof.
  intros da db _ _ eps. exists (mkposreal 1 Rlt_0_1). intros s r _ _.
  assert (E : forall (w x dx : nat -> R) (t : R), dot n w (vline x t dx) = dot n w x + t * dot n w dx).
  { intros w x dx t. unfold dot, vline.
    rewrite (rsum_ext n _ (fun i => 1 * (w i * x i) + t * (w i * dx i))) by (intros; ring).
    rewrite rsum_lin2. ring. }
  rewrite !E.
  replace (dot n c a + s * dot n c da + (dot n e b + r * dot n e db) - (dot n c a + 0 * dot n c da + (dot n e b + 0 * dot n e db))
           - (dot n c da * (s - 0) + dot n e db * (r - 0))) with 0 by ring.
  rewrite Rabs_R0. apply Rmult_le_pos; [apply Rlt_le, cond_pos | apply Rmax_case; apply Rabs_pos].
Qed.

(* ------------------------------------------------------------------ the model in the interior (clean forms) *)
Lemma two_R : two Rops = 2. Proof. unfold two, n2. cbn [nadd n1 Rops]. lra. Qed.
Lemma centred_cen n f i : centred Rops n f i = cen n f i. Proof. reflexivity. Qed.

Definition wsa_grad (n : nat) (Y : mat) (eo : nat -> R) (uo : nat -> nat -> R) (i k : nat) : R :=
  cen n (uo k) i / INR n + eo k / INR n
  - rsum n (fun j => Y j k * cen n (uo k) j) / (INR n * INR n * pi0 n Y k).
Definition wso_grad (n K : nat) (Y : mat) (ee : nat -> nat -> R) (uu vv : nat -> nat -> nat -> R) (i k : nat) : R :=
  rsum K (fun k2 => if Nat.ltb k k2 then
      2 * pi0 n Y k2 * (cen n (uu k k2) i / INR n
        - rsum n (fun j => cen n (uu k k2) j * Y j k) / (INR n * INR n * pi0 n Y k)) else 0)
  + rsum K (fun k1 => if Nat.ltb k1 k then
      2 * pi0 n Y k1 * (cen n (vv k1 k) i / INR n
        - rsum n (fun j => cen n (vv k1 k) j * Y j k) / (INR n * INR n * pi0 n Y k)) else 0)
  + 2 * rsum K (fun b => ws_dist Rops ee k b * pi0 n Y b) / INR n.

Lemma ws_score_interior eps n K Y eo ee ovo : interior eps n K Y ->
  ws_score Rops eps n K Y eo ee ovo =
  if ovo then rsum K (fun a => pi0 n Y a * rsum K (fun b => ws_dist Rops ee a b * pi0 n Y b))
  else rsum K (fun k => pi0 n Y k * eo k).
Proof.
  intros HI. unfold ws_score. cbn [nmul Rops]. fold (rsum K).
  destruct ovo; apply rsum_ext; intros a Ha; rewrite (pi_interior eps n K Y HI) by assumption; [|reflexivity].
  f_equal. apply rsum_ext. intros b Hb. rewrite (pi_interior eps n K Y HI) by assumption. reflexivity.
Qed.

Lemma ws_grad_interior eps n K Y eo uo ee uu vv ovo i k : interior eps n K Y -> (i < n)%nat -> (k < K)%nat ->
  ws_grad Rops eps n K Y eo uo ee uu vv ovo i k =
  if ovo then wso_grad n K Y ee uu vv i k else wsa_grad n Y eo uo i k.
Proof.
  intros HI Hi Hk. unfold ws_grad.
  rewrite (maskT_interior eps n K Y HI) by assumption.
  rewrite two_R. unfold ofn. cbn [nadd nsub nmul ndiv nofnat n0 Rops]. fold (rsum n). fold (rsum K).
  rewrite Rmult_1_r. rewrite (pi_interior eps n K Y HI k) by assumption.
  destruct ovo.
  - unfold wso_grad. f_equal; [f_equal|].
    + apply rsum_ext. intros k2 Hk2. destruct (Nat.ltb k k2); [|reflexivity].
      rewrite (pi_interior eps n K Y HI) by assumption. f_equal. f_equal.
      rewrite <- rsum_divc. apply rsum_ext. intros j Hj.
      rewrite (P_interior eps n K Y HI) by assumption. reflexivity.
    + apply rsum_ext. intros k1 Hk1. destruct (Nat.ltb k1 k); [|reflexivity].
      rewrite (pi_interior eps n K Y HI) by assumption. f_equal. f_equal.
      rewrite <- rsum_divc. apply rsum_ext. intros j Hj.
      rewrite (P_interior eps n K Y HI) by assumption. reflexivity.
    + f_equal. f_equal. apply rsum_ext. intros b Hb. rewrite (pi_interior eps n K Y HI) by assumption. reflexivity.
  - unfold wsa_grad. f_equal. f_equal. apply rsum_ext. intros j Hj.
    rewrite (P_interior eps n K Y HI) by assumption. reflexivity.
Qed.

(* 1. the weights handed to the solver are the cluster conditionals p(x_i | y = k) *)
Theorem ws_weights_are_conditionals eps n K P k i : interior eps n K P -> (i < n)%nat -> (k < K)%nat ->
  ws_wy Rops eps n P k i = cond n P k i.
Proof.
  intros HI Hi Hk. unfold ws_wy, cond, ofn. cbn [nmul ndiv nofnat Rops].
  rewrite (P_interior eps n K P HI), (pi_interior eps n K P HI) by assumption.
  f_equal. apply Rmult_comm.
Qed.

(* ================================================================== the solver as an oracle *)
Section Wasserstein.
Variables (n K : nat).
(* W a b : the optimal-transport cost between the weight vectors a, b on the n sample points for the
   given cost matrix -- the optimum of the LP that ot.emd2 solves.  Abstract. *)
Variable W : (nat -> R) -> (nat -> R) -> R.
(* the solver: given the two marginals it returns (cost, log["u"], log["v"]) *)
Variable emd_cost : (nat -> R) -> (nat -> R) -> R.
Variables emd_u emd_v : (nat -> R) -> (nat -> R) -> nat -> R.

(* H_cost: on probability vectors the returned cost is W of the marginals the solver was given *)
Hypothesis H_cost : forall a b, wvec n a -> wvec n b -> emd_cost a b = W a b.

(* How the model's oracle arguments are instantiated at a prediction matrix Y -- the Python call sites:
     one-vs-all   ot.emd2(wy[k],  constant_weights, affinity, log=True)   second marginal  unif n
     one-vs-one   ot.emd2(wy[k1], wy[k2],           affinity, log=True)   second marginal  cond n Y k2
   with wy[k] = cond n Y k (ws_weights_are_conditionals). *)
Definition o_emd_ova (Y : mat) (k : nat) : R := emd_cost (cond n Y k) (unif n).
Definition o_u_ova (Y : mat) (k : nat) : nat -> R := emd_u (cond n Y k) (unif n).
Definition o_emd_ovo (Y : mat) (k1 k2 : nat) : R := emd_cost (cond n Y k1) (cond n Y k2).
Definition o_u_ovo (Y : mat) (k1 k2 : nat) : nat -> R := emd_u (cond n Y k1) (cond n Y k2).
Definition o_v_ovo (Y : mat) (k1 k2 : nat) : nat -> R := emd_v (cond n Y k1) (cond n Y k2).
(* WassersteinGEMINI.evaluate with the oracle called at Y *)
Definition ws_eval (eps : R) (Y : mat) (ovo : bool) : R :=
  ws_score Rops eps n K Y (o_emd_ova Y) (o_emd_ovo Y) ovo.
Definition ws_gradient (eps : R) (Y : mat) (ovo : bool) : mat :=
  ws_grad Rops eps n K Y (o_emd_ova Y) (o_u_ova Y) (o_emd_ovo Y) (o_u_ovo Y) (o_v_ovo Y) ovo.

(* properties of the transport cost used by C01 / C13 (true of the LP optimum when the cost matrix is
   symmetric / has zero diagonal and non-negative entries); premises of the theorems that need them *)
Definition W_sym : Prop := forall a b, wvec n a -> wvec n b -> W a b = W b a.
Definition W_refl0 : Prop := forall a, wvec n a -> W a a = 0.
Definition W_nonneg : Prop := forall a b, wvec n a -> wvec n b -> 0 <= W a b.
(* W only looks at the n sample points (vectors are encoded as total functions on nat) *)
Definition W_local : Prop := forall a a' b b',
  (forall i, (i < n)%nat -> a i = a' i) -> (forall i, (i < n)%nat -> b i = b' i) -> W a b = W a' b'.

(* ------------------------------------------------------------------ 2. score = definition *)
Definition Wc (P : mat) (a b : nat) : R := W (cond n P a) (cond n P b).

Lemma ovo_sum_is_definition (P : mat) :
  (forall a b, (a < K)%nat -> (b < K)%nat -> Wc P a b = Wc P b a) ->
  (forall a, (a < K)%nat -> Wc P a a = 0) ->
  rsum K (fun a => pi0 n P a * rsum K (fun b => ws_dist Rops (Wc P) a b * pi0 n P b)) = gemini_ovo n K P W.
Proof.
  intros Hs Hd. unfold gemini_ovo. apply rsum_ext. intros a Ha. rewrite <- rsum_scal. apply rsum_ext. intros b Hb.
  fold (Wc P a b). unfold ws_dist. cbn [n0 Rops].
  destruct (Nat.ltb a b) eqn:E1; [ring|]. destruct (Nat.ltb b a) eqn:E2.
  - rewrite (Hs b a) by assumption. ring.
  - apply Nat.ltb_ge in E1. apply Nat.ltb_ge in E2. assert (a = b) by lia. subst b. rewrite Hd by assumption. ring.
Qed.

Theorem ws_score_is_definition eps P ovo : 0 <= eps -> (0 < n)%nat -> interior eps n K P ->
  (ovo = true -> W_sym /\ W_refl0) ->
  ws_score Rops eps n K P (fun k => W (cond n P k) (unif n)) (fun k1 k2 => W (cond n P k1) (cond n P k2)) ovo
  = if ovo then gemini_ovo n K P W else gemini_ova n K P W.
Proof.
  intros He Hn HI HW. rewrite ws_score_interior by exact HI. destruct ovo; [|reflexivity].
  destruct (HW eq_refl) as [Hs Hd].
  assert (Hw : forall k, (k < K)%nat -> wvec n (cond n P k)) by (intros; apply (cond_wvec_interior eps n K); auto).
  apply (ovo_sum_is_definition P).
  - intros a b Ha Hb. apply Hs; auto.
  - intros a Ha. apply Hd; auto.
Qed.

(* the same for the model with the solver called at P, through H_cost *)
Lemma ws_eval_clean eps Y ovo : 0 <= eps -> (0 < n)%nat -> interior eps n K Y ->
  ws_eval eps Y ovo =
  if ovo then rsum K (fun a => pi0 n Y a * rsum K (fun b => ws_dist Rops (Wc Y) a b * pi0 n Y b))
  else gemini_ova n K Y W.
Proof.
  intros He Hn HI. unfold ws_eval. rewrite ws_score_interior by exact HI.
  assert (Hw : forall k, (k < K)%nat -> wvec n (cond n Y k)) by (intros; apply (cond_wvec_interior eps n K); auto).
  destruct ovo.
  - apply rsum_ext. intros a Ha. f_equal. apply rsum_ext. intros b Hb. f_equal.
    unfold ws_dist, o_emd_ovo, Wc.
    destruct (Nat.ltb a b); [apply H_cost; auto|]. destruct (Nat.ltb b a); [apply H_cost; auto | reflexivity].
  - unfold gemini_ova. apply rsum_ext. intros k Hk. unfold o_emd_ova. rewrite H_cost; auto. apply unif_wvec. exact Hn.
Qed.
Theorem ws_eval_is_definition eps P ovo : 0 <= eps -> (0 < n)%nat -> interior eps n K P ->
  (ovo = true -> W_sym /\ W_refl0) ->
  ws_eval eps P ovo = if ovo then gemini_ovo n K P W else gemini_ova n K P W.
Proof.
  intros He Hn HI HW. rewrite ws_eval_clean by assumption. destruct ovo; [|reflexivity].
  destruct (HW eq_refl) as [Hs Hd].
  assert (Hw : forall k, (k < K)%nat -> wvec n (cond n P k)) by (intros; apply (cond_wvec_interior eps n K); auto).
  apply (ovo_sum_is_definition P).
  - intros a b Ha Hb. apply Hs; auto.
  - intros a Ha. apply Hd; auto.
Qed.

(* ------------------------------------------------------------------ 3. gradient = derivative, one-vs-all *)
Lemma pert_0 (P D : mat) : pert P D 0 = P.
Proof. apply functional_extensionality. intros i. apply functional_extensionality. intros k. unfold pert. ring. Qed.
Lemma pi0_pert_derive (P D : mat) k : is_derive (fun t : R => pi0 n (pert P D t) k) 0 (pi0 n D k).
Proof. apply (dR_ext (fun t : R => pi0 n P k + t * pi0 n D k)); [intros t; rewrite pi0_pert; reflexivity | apply dR_lin]. Qed.

Theorem wsa_derive (P D : mat) (uo : nat -> nat -> R) :
  (0 < n)%nat -> (forall i k, (i < n)%nat -> (k < K)%nat -> 0 < P i k) ->
  (forall k, (k < K)%nat -> envelope_line n W (cond n P k) (unif n) (uo k)) ->
  is_derive (fun t : R => gemini_ova n K (pert P D t) W) 0
            (inner n K (wsa_grad n P (fun k => W (cond n P k) (unif n)) uo) D).
Proof.
  intros Hn Hp HE. assert (HN : 0 < INR n) by (apply lt_0_INR; lia).
  assert (H : is_derive (fun t : R => gemini_ova n K (pert P D t) W) 0
     (rsum K (fun k => pi0 n D k * W (cond n P k) (unif n) + pi0 n P k * dot n (uo k) (qd n P D k)))).
  { unfold gemini_ova.
    apply (dR_rsum K (fun k t => pi0 n (pert P D t) k * W (cond n (pert P D t) k) (unif n))).
    intros k Hk.
    pose proof (dR_mult _ _ 0 _ _ (pi0_pert_derive P D k) (W_cond_ova_derive n K W P D k (uo k) Hn Hp Hk (HE k Hk))) as Hm.
    cbn beta in Hm. rewrite pert_0 in Hm. exact Hm. }
  eapply dR_val; [|exact H].
  unfold inner. rewrite (rsum_swap n K). apply rsum_ext. intros k Hk.
  assert (Hpi : 0 < pi0 n P k) by (apply (pi0_pos n K); auto).
  unfold wsa_grad. set (Wk := W (cond n P k) (unif n)).
  rewrite (rsum_ext n _ (fun i =>
     (cen n (uo k) i / INR n - rsum n (fun j => cen n (uo k) j * P j k) / (INR n * INR n * pi0 n P k)) * D i k
     + (Wk / INR n) * D i k)).
  2:{ intros i Hi. rewrite (rsum_ext n (fun j => P j k * cen n (uo k) j) (fun j => cen n (uo k) j * P j k)) by (intros; apply Rmult_comm).
      ring. }
  rewrite rsum_plus, chain_centre by (try exact Hn; lra).
  rewrite rsum_scal, rsum_col by exact Hn. unfold dot. field. lra.
Qed.

(* ------------------------------------------------------------------ 3. gradient = derivative, one-vs-one *)
Definition wso_clean (Y : mat) : R :=
  rsum K (fun a => pi0 n Y a * rsum K (fun b => ws_dist Rops (Wc Y) a b * pi0 n Y b)).

Lemma rsum2_sym (f g : nat -> nat -> R) :
  (forall a b, (a < K)%nat -> (b < K)%nat -> f a b + f b a = g a b + g b a) ->
  rsum K (fun a => rsum K (fun b => f a b)) = rsum K (fun a => rsum K (fun b => g a b)).
Proof.
  intros H.
  assert (E : forall h : nat -> nat -> R,
    2 * rsum K (fun a => rsum K (fun b => h a b)) = rsum K (fun a => rsum K (fun b => h a b + h b a))).
  { intros h.
    rewrite (rsum_ext K (fun a => rsum K (fun b => h a b + h b a))
                        (fun a => rsum K (fun b => h a b) + rsum K (fun b => h b a))) by (intros; apply rsum_plus).
    rewrite rsum_plus. rewrite (rsum_swap K K (fun a b => h b a)). lra. }
  assert (E2 : 2 * rsum K (fun a => rsum K (fun b => f a b)) = 2 * rsum K (fun a => rsum K (fun b => g a b))).
  { rewrite !E. apply rsum_ext. intros a Ha. apply rsum_ext. intros b Hb. apply H; assumption. }
  lra.
Qed.

Lemma ovo_algebra (p d : nat -> R) (c U V : nat -> nat -> R) :
  rsum K (fun a => d a * rsum K (fun b => ws_dist Rops c a b * p b)
                 + p a * rsum K (fun b => ws_dist Rops (fun x y => U x y + V x y) a b * p b + ws_dist Rops c a b * d b))
  = rsum K (fun k => rsum K (fun k2 => if Nat.ltb k k2 then 2 * p k2 * (p k * U k k2) else 0)
                   + rsum K (fun k1 => if Nat.ltb k1 k then 2 * p k1 * (p k * V k1 k) else 0)
                   + 2 * rsum K (fun b => ws_dist Rops c k b * p b) * d k).
Proof.
  transitivity (rsum K (fun a => rsum K (fun b =>
      d a * (ws_dist Rops c a b * p b)
    + p a * (ws_dist Rops (fun x y => U x y + V x y) a b * p b + ws_dist Rops c a b * d b)))).
  { apply rsum_ext. intros a Ha.
    rewrite (rsum_plus K (fun b => d a * (ws_dist Rops c a b * p b))
       (fun b => p a * (ws_dist Rops (fun x y => U x y + V x y) a b * p b + ws_dist Rops c a b * d b))).
    rewrite !rsum_scal. reflexivity. }
  transitivity (rsum K (fun a => rsum K (fun b =>
      (if Nat.ltb a b then 2 * p b * (p a * U a b) else 0)
    + (if Nat.ltb b a then 2 * p b * (p a * V b a) else 0)
    + (2 * d a) * (ws_dist Rops c a b * p b)))).
  2:{ apply rsum_ext. intros a Ha. rewrite !rsum_plus, rsum_scal. ring. }
  apply rsum2_sym. intros a b Ha Hb. unfold ws_dist. cbn [n0 Rops].
  destruct (Nat.ltb_spec a b); destruct (Nat.ltb_spec b a); try lia; ring.
Qed.

Lemma dist_derive (P D : mat) (uu vv : nat -> nat -> nat -> R) a b :
  (0 < n)%nat -> (forall i k, (i < n)%nat -> (k < K)%nat -> 0 < P i k) -> (a < K)%nat -> (b < K)%nat ->
  (forall k1 k2, (k1 < k2)%nat -> (k2 < K)%nat ->
     envelope_joint n W (cond n P k1) (cond n P k2) (uu k1 k2) (vv k1 k2)) ->
  is_derive (fun t : R => ws_dist Rops (Wc (pert P D t)) a b) 0
    (ws_dist Rops (fun x y => dot n (uu x y) (qd n P D x) + dot n (vv x y) (qd n P D y)) a b).
Proof.
  intros Hn Hp Ha Hb HE. unfold ws_dist, Wc. cbn [n0 Rops].
  destruct (Nat.ltb_spec a b) as [Hab|Hab].
  - apply (W_cond_ovo_derive n K W P D a b); auto.
  - destruct (Nat.ltb_spec b a) as [Hba|Hba].
    + apply (W_cond_ovo_derive n K W P D b a); auto.
    + apply dR_const.
Qed.

Theorem wso_derive (P D : mat) (uu vv : nat -> nat -> nat -> R) :
  (0 < n)%nat -> (forall i k, (i < n)%nat -> (k < K)%nat -> 0 < P i k) ->
  (forall k1 k2, (k1 < k2)%nat -> (k2 < K)%nat ->
     envelope_joint n W (cond n P k1) (cond n P k2) (uu k1 k2) (vv k1 k2)) ->
  is_derive (fun t : R => wso_clean (pert P D t)) 0 (inner n K (wso_grad n K P (Wc P) uu vv) D).
Proof.
  intros Hn Hp HE. assert (HN : 0 < INR n) by (apply lt_0_INR; lia).
  set (U := fun x y => dot n (uu x y) (qd n P D x)). set (V := fun x y => dot n (vv x y) (qd n P D y)).
  set (p := fun k => pi0 n P k). set (d := fun k => pi0 n D k).
  assert (H : is_derive (fun t : R => wso_clean (pert P D t)) 0
     (rsum K (fun a => d a * rsum K (fun b => ws_dist Rops (Wc P) a b * p b)
        + p a * rsum K (fun b => ws_dist Rops (fun x y => U x y + V x y) a b * p b + ws_dist Rops (Wc P) a b * d b)))).
  { unfold wso_clean.
    apply (dR_rsum K (fun a t => pi0 n (pert P D t) a * rsum K (fun b => ws_dist Rops (Wc (pert P D t)) a b * pi0 n (pert P D t) b))).
    intros a Ha.
    assert (Hin : is_derive (fun t : R => rsum K (fun b => ws_dist Rops (Wc (pert P D t)) a b * pi0 n (pert P D t) b)) 0
              (rsum K (fun b => ws_dist Rops (fun x y => U x y + V x y) a b * p b + ws_dist Rops (Wc P) a b * d b))).
    { apply (dR_rsum K (fun b t => ws_dist Rops (Wc (pert P D t)) a b * pi0 n (pert P D t) b)).
      intros b Hb.
      pose proof (dR_mult _ _ 0 _ _ (dist_derive P D uu vv a b Hn Hp Ha Hb HE) (pi0_pert_derive P D b)) as Hm.
      cbn beta in Hm. rewrite pert_0 in Hm. exact Hm. }
    pose proof (dR_mult _ _ 0 _ _ (pi0_pert_derive P D a) Hin) as Hm.
    cbn beta in Hm. rewrite pert_0 in Hm. exact Hm. }
  eapply dR_val; [|exact H].
  rewrite ovo_algebra.
  unfold inner. rewrite (rsum_swap n K). apply rsum_ext. intros k Hk.
  assert (Hpi : pi0 n P k <> 0) by (assert (0 < pi0 n P k) by (apply (pi0_pos n K); auto); lra).
  unfold wso_grad.
  rewrite (rsum_ext n _ (fun i =>
      rsum K (fun k2 => (if Nat.ltb k k2 then 2 * pi0 n P k2 *
          (cen n (uu k k2) i / INR n - rsum n (fun j => cen n (uu k k2) j * P j k) / (INR n * INR n * pi0 n P k)) else 0) * D i k)
    + rsum K (fun k1 => (if Nat.ltb k1 k then 2 * pi0 n P k1 *
          (cen n (vv k1 k) i / INR n - rsum n (fun j => cen n (vv k1 k) j * P j k) / (INR n * INR n * pi0 n P k)) else 0) * D i k)
    + (2 * rsum K (fun b => ws_dist Rops (Wc P) k b * pi0 n P b) / INR n) * D i k)).
  2:{ intros i Hi. rewrite !rsum_scal_r. ring. }
  rewrite !rsum_plus, rsum_scal, rsum_col by exact Hn.
  rewrite (rsum_swap n K), (rsum_swap n K).
  fold (d k). f_equal; [f_equal|].
  - apply rsum_ext. intros k2 Hk2. destruct (Nat.ltb k k2).
    + rewrite (rsum_ext n _ (fun i => (2 * pi0 n P k2) *
        ((cen n (uu k k2) i / INR n - rsum n (fun j => cen n (uu k k2) j * P j k) / (INR n * INR n * pi0 n P k)) * D i k)))
        by (intros; ring).
      rewrite rsum_scal, chain_centre by assumption. reflexivity.
    + symmetry. apply rsum_zero. intros; ring.
  - apply rsum_ext. intros k1 Hk1. destruct (Nat.ltb k1 k).
    + rewrite (rsum_ext n _ (fun i => (2 * pi0 n P k1) *
        ((cen n (vv k1 k) i / INR n - rsum n (fun j => cen n (vv k1 k) j * P j k) / (INR n * INR n * pi0 n P k)) * D i k)))
        by (intros; ring).
      rewrite rsum_scal, chain_centre by assumption. reflexivity.
    + symmetry. apply rsum_zero. intros; ring.
  - unfold p. field. lra.
Qed.

(* ------------------------------------------------------------------ 3. final statements about the model *)
(* H_envelope, at every call made at P: the potentials returned by the solver are the derivative of the
   optimal cost along mass-preserving perturbations of the marginals of that call.
     one-vs-all : only the first marginal moves (the second is the constant 1/n), and it moves on a
                  straight line (cond_pert_line), so the directional form [envelope_line] suffices;
     one-vs-one : the two marginals move on two lines at different speeds (sp a t <> sp b t in general), so
                  differentiability along lines is not enough (a function of two variables can have all
                  directional derivatives without being differentiable along curves); the exact
                  hypothesis is [envelope_joint]: differentiability in the two step sizes. *)
Definition envelope_calls (P : mat) (ovo : bool) : Prop :=
  if ovo then forall k1 k2, (k1 < k2)%nat -> (k2 < K)%nat ->
         envelope_joint n W (cond n P k1) (cond n P k2) (o_u_ovo P k1 k2) (o_v_ovo P k1 k2)
  else forall k, (k < K)%nat -> envelope_line n W (cond n P k) (unif n) (o_u_ova P k).

Section AtP.
Variables (eps : R) (P : mat).
Hypothesis He : 0 <= eps.
Hypothesis Hn : (0 < n)%nat.
Hypothesis HI : interior eps n K P.

Section OvA.
Hypothesis H_envelope : envelope_calls P false.
Theorem ws_grad_is_derivative_ova D :
  is_derive (fun t : R => ws_eval eps (pert P D t) false) 0 (inner n K (ws_gradient eps P false) D).
Proof.
  pose proof (interior_pos eps n K P He HI) as Hp.
  apply (lift_derivative (fun Y => ws_eval eps Y false) (fun Y => gemini_ova n K Y W)
           (ws_gradient eps P false) (wsa_grad n P (fun k => W (cond n P k) (unif n)) (o_u_ova P)) eps n K P D).
  - intros Y HY. apply (ws_eval_clean eps Y false He Hn HY).
  - intros i k Hi Hk. unfold ws_gradient. rewrite (ws_grad_interior eps n K P _ _ _ _ _ false i k HI Hi Hk).
    unfold wsa_grad, o_emd_ova. rewrite H_cost; [reflexivity | apply (cond_wvec_interior eps n K); auto | apply unif_wvec; exact Hn].
  - exact HI.
  - apply wsa_derive; [exact Hn | exact Hp | exact H_envelope].
Qed.
End OvA.

Section OvO.
Hypothesis H_envelope : envelope_calls P true.
Theorem ws_grad_is_derivative_ovo D :
  is_derive (fun t : R => ws_eval eps (pert P D t) true) 0 (inner n K (ws_gradient eps P true) D).
Proof.
  pose proof (interior_pos eps n K P He HI) as Hp.
  assert (Hw : forall k, (k < K)%nat -> wvec n (cond n P k)) by (intros; apply (cond_wvec_interior eps n K); auto).
  apply (lift_derivative (fun Y => ws_eval eps Y true) wso_clean
           (ws_gradient eps P true) (wso_grad n K P (Wc P) (o_u_ovo P) (o_v_ovo P)) eps n K P D).
  - intros Y HY. apply (ws_eval_clean eps Y true He Hn HY).
  - intros i k Hi Hk. unfold ws_gradient. rewrite (ws_grad_interior eps n K P _ _ _ _ _ true i k HI Hi Hk).
    unfold wso_grad. f_equal. f_equal. f_equal. apply rsum_ext. intros b Hb. f_equal.
    unfold ws_dist, o_emd_ovo, Wc.
    destruct (Nat.ltb k b); [apply H_cost; auto|]. destruct (Nat.ltb b k); [apply H_cost; auto | reflexivity].
  - exact HI.
  - apply wso_derive; [exact Hn | exact Hp | exact H_envelope].
Qed.
End OvO.

Theorem ws_grad_is_derivative D ovo : envelope_calls P ovo ->
  is_derive (fun t : R => ws_eval eps (pert P D t) ovo) 0 (inner n K (ws_gradient eps P ovo) D).
Proof. intros HE. destruct ovo; [apply ws_grad_is_derivative_ovo | apply ws_grad_is_derivative_ova]; exact HE. Qed.

(* ------------------------------------------------------------------ 4. C13 facts relative to the oracle *)
Theorem ws_nonneg ovo : W_nonneg -> 0 <= ws_eval eps P ovo.
Proof.
  intros HW. rewrite ws_eval_clean by assumption.
  pose proof (interior_pos eps n K P He HI) as Hp.
  assert (Hpi : forall k, (k < K)%nat -> 0 < pi0 n P k) by (intros; apply (pi0_pos n K); auto).
  assert (Hw : forall k, (k < K)%nat -> wvec n (cond n P k)) by (intros; apply (cond_wvec_interior eps n K); auto).
  destruct ovo.
  - apply rsum_nonneg. intros a Ha. apply Rmult_le_pos; [apply Rlt_le, Hpi; exact Ha|].
    apply rsum_nonneg. intros b Hb. apply Rmult_le_pos; [|apply Rlt_le, Hpi; exact Hb].
    unfold ws_dist, Wc. cbn [n0 Rops].
    destruct (Nat.ltb a b); [apply HW; auto|]. destruct (Nat.ltb b a); [apply HW; auto | lra].
  - unfold gemini_ova. apply rsum_nonneg. intros k Hk. apply Rmult_le_pos; [apply Rlt_le, Hpi; exact Hk|].
    apply HW; [auto | apply unif_wvec; exact Hn].
Qed.

(* all rows equal (cluster assignment independent of the sample): every conditional is the uniform law *)
Theorem ws_independent_zero ovo : W_refl0 -> W_local ->
  (forall i k, (i < n)%nat -> (k < K)%nat -> P i k = P 0%nat k) -> ws_eval eps P ovo = 0.
Proof.
  intros Hd Hl Hrow. rewrite ws_eval_clean by assumption.
  pose proof (interior_pos eps n K P He HI) as Hp.
  assert (HN : 0 < INR n) by (apply lt_0_INR; lia).
  assert (Hc : forall k i, (k < K)%nat -> (i < n)%nat -> cond n P k i = unif n i).
  { intros k i Hk Hi. unfold cond, unif.
    assert (E : pi0 n P k = P 0%nat k).
    { unfold pi0. rewrite (rsum_ext n _ (fun _ => P 0%nat k)) by (intros j Hj; apply Hrow; assumption).
      rewrite rsum_const. field. lra. }
    rewrite E, (Hrow i k Hi Hk). assert (0 < P 0%nat k) by (apply Hp; assumption). field. split; lra. }
  assert (Hu : W (unif n) (unif n) = 0) by (apply Hd, unif_wvec; exact Hn).
  destruct ovo.
  - apply rsum_zero. intros a Ha. rewrite (rsum_zero K); [ring|]. intros b Hb.
    assert (E : forall x y, (x < K)%nat -> (y < K)%nat -> Wc P x y = 0).
    { intros x y Hx Hy. unfold Wc. rewrite <- Hu. apply Hl; intros i Hi; apply Hc; assumption. }
    unfold ws_dist. cbn [n0 Rops].
    destruct (Nat.ltb a b); [rewrite E by assumption; ring|]. destruct (Nat.ltb b a); [rewrite E by assumption; ring | ring].
  - unfold gemini_ova. apply rsum_zero. intros k Hk.
    replace (W (cond n P k) (unif n)) with 0; [ring|]. rewrite <- Hu. symmetry.
    apply Hl; intros i Hi; [apply Hc; assumption | reflexivity].
Qed.

(* relabelling the clusters does not change the score (one-vs-one: when W is symmetric, i.e. for a
   symmetric cost matrix -- the code orders each pair by the cluster index) *)
Theorem ws_perm_clusters ovo (s : nat -> nat) : perm_on K s -> (ovo = true -> W_sym) ->
  ws_eval eps (fun i k => P i (s k)) ovo = ws_eval eps P ovo.
Proof.
  intros Hs HW. destruct Hs as [Hr Hinj].
  assert (HI' : interior eps n K (fun i k => P i (s k))) by (intros i k Hi Hk; apply HI; [exact Hi | apply Hr; exact Hk]).
  assert (Hw : forall k, (k < K)%nat -> wvec n (cond n P k)) by (intros; apply (cond_wvec_interior eps n K); auto).
  rewrite (ws_eval_clean eps _ ovo He Hn HI'), (ws_eval_clean eps P ovo He Hn HI).
  destruct ovo.
  - specialize (HW eq_refl).
    rewrite <- (rsum_perm K s (fun x => pi0 n P x * rsum K (fun b => ws_dist Rops (Wc P) x b * pi0 n P b))) by (split; assumption).
    apply rsum_ext. intros a Ha. change (pi0 n (fun i k => P i (s k)) a) with (pi0 n P (s a)). f_equal.
    rewrite <- (rsum_perm K s (fun y => ws_dist Rops (Wc P) (s a) y * pi0 n P y)) by (split; assumption).
    apply rsum_ext. intros b Hb. change (pi0 n (fun i k => P i (s k)) b) with (pi0 n P (s b)). f_equal.
    unfold ws_dist. cbn [n0 Rops].
    change (Wc (fun i k => P i (s k)) a b) with (Wc P (s a) (s b)).
    change (Wc (fun i k => P i (s k)) b a) with (Wc P (s b) (s a)).
    assert (Hsym : Wc P (s a) (s b) = Wc P (s b) (s a)) by (unfold Wc; apply HW; apply Hw, Hr; assumption).
    destruct (Nat.ltb_spec a b); destruct (Nat.ltb_spec b a); try lia;
      destruct (Nat.ltb_spec (s a) (s b)); destruct (Nat.ltb_spec (s b) (s a)); try lia; try reflexivity; try (symmetry; exact Hsym); try exact Hsym.
    + assert (a = b) by (apply Hinj; [assumption | assumption | lia]). lia.
    + assert (a = b) by (apply Hinj; [assumption | assumption | lia]). lia.
    + assert (a = b) by lia. subst b. lia.
    + assert (a = b) by lia. subst b. lia.
  - unfold gemini_ova.
    rewrite <- (rsum_perm K s (fun x => pi0 n P x * W (cond n P x) (unif n))) by (split; assumption).
    reflexivity.
Qed.
End AtP.
End Wasserstein.

(* non-vacuity of the hypotheses of ws_grad_is_derivative: a solver for a cost linear in the marginals *)
Lemma ws_hypotheses_satisfiable n K (c e : nat -> R) (P : mat) ovo :
  let W0 := fun x y : nat -> R => dot n c x + dot n e y in
  (forall a b, wvec n a -> wvec n b -> W0 a b = W0 a b) /\
  envelope_calls n K W0 (fun _ _ => c) (fun _ _ => e) P ovo.
Proof.
  intros W0. split; [reflexivity|]. destruct ovo; cbn [envelope_calls].
  - intros k1 k2 _ _. apply envelope_joint_linear.
  - intros k _. apply (envelope_joint_line n W0 _ _ c e). apply envelope_joint_linear.
Qed.
