(* Squared-Hellinger GEMINI (one-vs-all and one-vs-one): score = definition (C01), gradient =
   derivative of the score (C02), range / independence / permutation facts (C13).
   Source: gemclus/gemini/_fdivergences.py, class HellingerGEMINI; model: he_score / he_grad. *)
From Coq Require Import Reals Lra Lia Psatz.
From Coquelicot Require Import Coquelicot.
From GV Require Import Common.Num Common.NumR Model.Gemini Proofs.RSumLib Proofs.GeminiDefs.
Open Scope R_scope.

(* ------------------------------------------------------------------ clean (unclipped) forms *)
(* cluster_wise_estimates[i,k] = sqrt(p[i,k] * pi[k]) ; estimates[i] = sum_k of them *)
Definition hcw (n : nat) (p : mat) (i k : nat) : R := sqrt (p i k * pi0 n p k).
Definition hE (n K : nat) (p : mat) (i : nat) : R := rsum K (fun k => hcw n p i k).
Definition hec (n K : nat) (p : mat) : R := 1 - rsum n (fun i => hE n K p i) / INR n.
Definition heo (n K : nat) (p : mat) : R := 1 - rsum n (fun i => hE n K p i * hE n K p i) / INR n.
Definition hec_grad (n K : nat) (p : mat) (i k : nat) : R :=
  (0 - 1 / (1 + 1)) * (pi0 n p k / hcw n p i k + rsum n (fun j => p j k / hcw n p j k) / INR n) / INR n.
(* as the code writes it: sqrt(estimates) with estimates already squared *)
Definition heo_grad (n K : nat) (p : mat) (i k : nat) : R :=
  (0 - (pi0 n p k / hcw n p i k * sqrt (hE n K p i * hE n K p i)
        + rsum n (fun j => p j k / hcw n p j k * sqrt (hE n K p j * hE n K p j)) / INR n)) / INR n.

Lemma he_cwe_interior eps n K Y i k : interior eps n K Y -> (i < n)%nat -> (k < K)%nat ->
  he_cwe Rops eps n Y i k = hcw n Y i k.
Proof.
  intros HI Hi Hk. unfold he_cwe, hcw. cbn [nsqrt nmul Rops].
  rewrite (P_interior eps n K Y HI) by assumption. rewrite (pi_interior eps n K Y HI) by assumption. reflexivity.
Qed.
Lemma he_est0_interior eps n K Y i : interior eps n K Y -> (i < n)%nat ->
  he_est0 Rops eps n K Y i = hE n K Y i.
Proof.
  intros HI Hi. unfold he_est0, hE. fold (rsum K). apply rsum_ext. intros k Hk.
  apply (he_cwe_interior eps n K); assumption.
Qed.

Lemma he_score_interior eps n K Y ovo : interior eps n K Y ->
  he_score Rops eps n K Y ovo = if ovo then heo n K Y else hec n K Y.
Proof.
  intros HI. unfold he_score, mean, ofn, hec, heo. cbn [nsub ndiv n1 nofnat Rops]. fold (rsum n).
  destruct ovo; f_equal; f_equal; apply rsum_ext; intros i Hi; unfold he_est; cbn [nmul Rops];
    rewrite (he_est0_interior eps n K Y i HI Hi); reflexivity.
Qed.

Lemma he_grad_interior eps n K Y ovo i k : interior eps n K Y -> (i < n)%nat -> (k < K)%nat ->
  he_grad Rops eps n K Y ovo i k = if ovo then heo_grad n K Y i k else hec_grad n K Y i k.
Proof.
  intros HI Hi Hk. unfold he_grad, hec_grad, heo_grad, mean, ofn, half, nneg, n2, he_est.
  rewrite (maskT_interior eps n K Y HI) by assumption.
  cbn [nadd nsub nmul ndiv nsqrt nofnat n0 n1 Rops]. fold (rsum n).
  rewrite (pi_interior eps n K Y HI) by assumption.
  rewrite (he_cwe_interior eps n K Y i k HI Hi Hk).
  destruct ovo; rewrite Rmult_1_r.
  - rewrite (he_est0_interior eps n K Y i HI Hi).
    f_equal. f_equal. f_equal. f_equal. apply rsum_ext. intros j Hj.
    rewrite (P_interior eps n K Y HI) by assumption.
    rewrite (he_cwe_interior eps n K Y j k HI Hj Hk).
    rewrite (he_est0_interior eps n K Y j HI Hj). reflexivity.
  - f_equal. f_equal. f_equal. f_equal. apply rsum_ext. intros j Hj.
    rewrite (P_interior eps n K Y HI) by assumption.
    rewrite (he_cwe_interior eps n K Y j k HI Hj Hk). reflexivity.
Qed.

(* ------------------------------------------------------------------ basic facts *)
Lemma hcw_pos n K p : (0 < n)%nat -> (forall i k, (i < n)%nat -> (k < K)%nat -> 0 < p i k) ->
  forall i k, (i < n)%nat -> (k < K)%nat -> 0 < hcw n p i k.
Proof.
  intros Hn Hp i k Hi Hk. unfold hcw. apply sqrt_lt_R0. apply Rmult_lt_0_compat; [apply Hp; assumption|].
  apply (pi0_pos n K); assumption.
Qed.
Lemma hE_nonneg n K p i : 0 <= hE n K p i.
Proof. unfold hE. apply rsum_nonneg. intros k Hk. apply sqrt_pos. Qed.
Lemma pert_0 p d i k : pert p d 0 i k = p i k.
Proof. unfold pert. rewrite Rmult_0_l, Rplus_0_r. reflexivity. Qed.
Lemma pi0_pert_0 n p d k : pi0 n (pert p d 0) k = pi0 n p k.
Proof. rewrite pi0_pert. rewrite Rmult_0_l, Rplus_0_r. reflexivity. Qed.
Lemma hE_pert_0 n K p d i : hE n K (pert p d 0) i = hE n K p i.
Proof. unfold hE, hcw. apply rsum_ext. intros k Hk. rewrite pert_0, pi0_pert_0. reflexivity. Qed.

(* ------------------------------------------------------------------ C02: the derivative *)
Lemma d_sqrt_prod (a b c d : R) : 0 < a -> 0 < c ->
  is_derive (fun t : R => sqrt ((a + t * b) * (c + t * d))) 0 ((b * c + a * d) / (2 * sqrt (a * c))).
Proof.
  intros Ha Hc.
  assert (H : is_derive (fun t : R => (a + t * b) * (c + t * d)) 0 (b * (c + 0 * d) + (a + 0 * b) * d)).
  { apply (dR_mult (fun t : R => a + t * b) (fun t : R => c + t * d)); apply dR_lin. }
  eapply dR_val; [| apply (dR_sqrt _ 0 _ H)].
  - rewrite !Rmult_0_l, !Rplus_0_r. reflexivity.
  - rewrite !Rmult_0_l, !Rplus_0_r. apply Rmult_lt_0_compat; assumption.
Qed.

(* derivative of one row estimate E_i(t) = sum_k sqrt(p_ik(t) pi_k(t)) *)
Definition hE' (n K : nat) (p d : mat) (i : nat) : R :=
  rsum K (fun k => (d i k * pi0 n p k + p i k * pi0 n d k) / (2 * hcw n p i k)).
Lemma hE_derive n K p d i :
  (0 < n)%nat -> (forall i k, (i < n)%nat -> (k < K)%nat -> 0 < p i k) -> (i < n)%nat ->
  is_derive (fun t : R => hE n K (pert p d t) i) 0 (hE' n K p d i).
Proof.
  intros Hn Hp Hi. unfold hE, hE'.
  apply (dR_rsum K (fun k t => hcw n (pert p d t) i k)). intros k Hk. unfold hcw.
  apply (dR_ext (fun t : R => sqrt ((p i k + t * d i k) * (pi0 n p k + t * pi0 n d k)))).
  { intros t. rewrite pi0_pert. reflexivity. }
  apply d_sqrt_prod; [apply Hp; assumption | apply (pi0_pos n K); assumption].
Qed.

Lemma rsum_neg_divc n c f : 0 - rsum n f / c = rsum n (fun i => (0 - f i) / c).
Proof.
  rewrite (rsum_ext n (fun i => (0 - f i) / c) (fun i => (- / c) * f i)) by (intros; unfold Rdiv; ring).
  rewrite rsum_scal. unfold Rdiv. ring.
Qed.

Theorem hec_derive n K p d :
  (0 < n)%nat -> (forall i k, (i < n)%nat -> (k < K)%nat -> 0 < p i k) ->
  is_derive (fun t : R => hec n K (pert p d t)) 0 (inner n K (hec_grad n K p) d).
Proof.
  intros Hn Hp. unfold hec, inner.
  assert (HN : 0 < INR n) by (apply lt_0_INR; lia).
  assert (H : is_derive (fun t : R => 1 - rsum n (fun i => hE n K (pert p d t) i) / INR n) 0
                (0 - rsum n (fun i => hE' n K p d i) / INR n)).
  { apply dR_minus; [apply dR_const|]. apply dR_divc.
    apply (dR_rsum n (fun i t => hE n K (pert p d t) i)). intros i Hi. apply hE_derive; assumption. }
  eapply dR_val; [|exact H].
  unfold hE'. rewrite (rsum_swap n K). rewrite (rsum_swap n K). rewrite rsum_neg_divc.
  apply rsum_ext. intros k Hk.
  assert (Hc : forall i, (i < n)%nat -> 0 < hcw n p i k) by (intros; apply (hcw_pos n K); assumption).
  set (S0 := pi0 n p k). set (S1 := pi0 n d k).
  set (Q := rsum n (fun j => p j k / hcw n p j k)).
  rewrite (rsum_ext n (fun i => (d i k * S0 + p i k * S1) / (2 * hcw n p i k))
             (fun i => S0 / 2 * (d i k / hcw n p i k) + S1 / 2 * (p i k / hcw n p i k))).
  2:{ intros i Hi. specialize (Hc i Hi). field. lra. }
  rewrite (rsum_ext n (fun i => hec_grad n K p i k * d i k)
             (fun i => (- S0 / (2 * INR n)) * (d i k / hcw n p i k) + (- Q / (2 * INR n * INR n)) * d i k)).
  2:{ intros i Hi. specialize (Hc i Hi). unfold hec_grad. fold S0. fold Q. field. lra. }
  rewrite !rsum_plus, !rsum_scal. fold Q. unfold S1, pi0. field. lra.
Qed.

Theorem heo_derive n K p d :
  (0 < n)%nat -> (forall i k, (i < n)%nat -> (k < K)%nat -> 0 < p i k) ->
  is_derive (fun t : R => heo n K (pert p d t)) 0 (inner n K (heo_grad n K p) d).
Proof.
  intros Hn Hp. unfold heo, inner.
  assert (HN : 0 < INR n) by (apply lt_0_INR; lia).
  assert (H : is_derive (fun t : R => 1 - rsum n (fun i => hE n K (pert p d t) i * hE n K (pert p d t) i) / INR n) 0
                (0 - rsum n (fun i => hE' n K p d i * hE n K p i + hE n K p i * hE' n K p d i) / INR n)).
  { apply dR_minus; [apply dR_const|]. apply dR_divc.
    apply (dR_rsum n (fun i t => hE n K (pert p d t) i * hE n K (pert p d t) i)). intros i Hi.
    pose proof (hE_derive n K p d i Hn Hp Hi) as Hd.
    eapply dR_val; [| exact (dR_mult _ _ 0 _ _ Hd Hd)]. cbn beta. rewrite hE_pert_0. reflexivity. }
  eapply dR_val; [|exact H].
  rewrite (rsum_ext n (fun i => hE' n K p d i * hE n K p i + hE n K p i * hE' n K p d i)
             (fun i => rsum K (fun k => hE n K p i * ((d i k * pi0 n p k + p i k * pi0 n d k) / hcw n p i k)))).
  2:{ intros i Hi. rewrite rsum_scal. unfold hE'.
      rewrite (rsum_ext K (fun k => (d i k * pi0 n p k + p i k * pi0 n d k) / hcw n p i k)
                 (fun k => 2 * ((d i k * pi0 n p k + p i k * pi0 n d k) / (2 * hcw n p i k)))).
      2:{ intros k Hk. pose proof (hcw_pos n K p Hn Hp i k Hi Hk). field. lra. }
      rewrite rsum_scal. ring. }
  rewrite (rsum_swap n K). rewrite (rsum_swap n K). rewrite rsum_neg_divc.
  apply rsum_ext. intros k Hk.
  assert (Hc : forall i, (i < n)%nat -> 0 < hcw n p i k) by (intros; apply (hcw_pos n K); assumption).
  set (S0 := pi0 n p k). set (S1 := pi0 n d k).
  set (Q := rsum n (fun j => p j k / hcw n p j k * hE n K p j)).
  rewrite (rsum_ext n (fun i => hE n K p i * ((d i k * S0 + p i k * S1) / hcw n p i k))
             (fun i => S0 * (d i k / hcw n p i k * hE n K p i) + S1 * (p i k / hcw n p i k * hE n K p i))).
  2:{ intros i Hi. specialize (Hc i Hi). field. lra. }
  rewrite (rsum_ext n (fun i => heo_grad n K p i k * d i k)
             (fun i => (- S0 / INR n) * (d i k / hcw n p i k * hE n K p i) + (- Q / (INR n * INR n)) * d i k)).
  2:{ intros i Hi. specialize (Hc i Hi). unfold heo_grad. fold S0.
      rewrite (rsum_ext n (fun j => p j k / hcw n p j k * sqrt (hE n K p j * hE n K p j))
                 (fun j => p j k / hcw n p j k * hE n K p j)).
      2:{ intros j Hj. rewrite sqrt_square by apply hE_nonneg. reflexivity. }
      fold Q. rewrite sqrt_square by apply hE_nonneg. field. lra. }
  rewrite !rsum_plus, !rsum_scal. fold Q. unfold S1, pi0. field. lra.
Qed.

(* ------------------------------------------------------------------ C01: score = definition *)
Lemma sqrt_div_sq a b : 0 <= a -> 0 < b -> sqrt (a / (b * b)) = sqrt a / b.
Proof.
  intros Ha Hb. rewrite sqrt_div_alt by (apply Rmult_lt_0_compat; assumption).
  rewrite sqrt_square by lra. reflexivity.
Qed.
(* one-vs-all: sum_k pi_k H^2( p(x|y=k), p(x) ) *)
Lemma hec_is_definition n K p : (0 < n)%nat -> (forall i k, (i < n)%nat -> (k < K)%nat -> 0 < p i k) ->
  row_stochastic n K p ->
  hec n K p = gemini_ova n K p (Hell2 n).
Proof.
  intros Hn Hp Hrow. assert (HN : 0 < INR n) by (apply lt_0_INR; lia).
  assert (Hsum : rsum K (fun k => pi0 n p k) = 1) by (apply pi0_sum_one; auto).
  assert (Hsum' : rsum K (pi0 n p) = 1) by exact Hsum.
  unfold gemini_ova, Hell2.
  rewrite (rsum_ext K _ (fun k => pi0 n p k - rsum n (fun i => hcw n p i k) / INR n)).
  2:{ intros k Hk. assert (Hpi : 0 < pi0 n p k) by (apply (pi0_pos n K); auto).
      rewrite (rsum_ext n (fun i => sqrt (cond n p k i * unif n i)) (fun i => hcw n p i k / (INR n * pi0 n p k))).
      2:{ intros i Hi. assert (0 < p i k) by (apply Hp; auto). unfold cond, unif, hcw.
          rewrite <- sqrt_div_sq; [| apply Rlt_le, Rmult_lt_0_compat; lra | apply Rmult_lt_0_compat; lra].
          f_equal. field. lra. }
      rewrite rsum_divc. field. lra. }
  rewrite rsum_minus, ?Hsum, ?Hsum'. unfold hec, hE. rewrite (rsum_swap n K). rewrite rsum_divc. reflexivity.
Qed.
(* one-vs-one: sum_{a,b} pi_a pi_b H^2( p(x|y=a), p(x|y=b) ) *)
Lemma heo_is_definition n K p : (0 < n)%nat -> (forall i k, (i < n)%nat -> (k < K)%nat -> 0 < p i k) ->
  row_stochastic n K p ->
  heo n K p = gemini_ovo n K p (Hell2 n).
Proof.
  intros Hn Hp Hrow. assert (HN : 0 < INR n) by (apply lt_0_INR; lia).
  assert (Hpi : forall k, (k < K)%nat -> 0 < pi0 n p k) by (intros; apply (pi0_pos n K); auto).
  assert (Hsum : rsum K (fun k => pi0 n p k) = 1) by (apply pi0_sum_one; auto).
  assert (Hsum' : rsum K (pi0 n p) = 1) by exact Hsum.
  unfold gemini_ovo, Hell2.
  rewrite (rsum_ext K _ (fun a => rsum K (fun b =>
      pi0 n p a * pi0 n p b - rsum n (fun i => hcw n p i a * hcw n p i b) / INR n))).
  2:{ intros a Ha. apply rsum_ext. intros b Hb. specialize (Hpi a Ha) as Hpa. specialize (Hpi b Hb) as Hpb.
      rewrite (rsum_ext n (fun i => sqrt (cond n p a i * cond n p b i))
                 (fun i => hcw n p i a * hcw n p i b / (INR n * (pi0 n p a * pi0 n p b)))).
      2:{ intros i Hi. assert (0 < p i a) by (apply Hp; auto). assert (0 < p i b) by (apply Hp; auto).
          unfold cond, hcw. rewrite <- sqrt_mult by (apply Rlt_le, Rmult_lt_0_compat; lra).
          assert (Hq : 0 < INR n * (pi0 n p a * pi0 n p b)) by (apply Rmult_lt_0_compat; [|apply Rmult_lt_0_compat]; lra).
          rewrite <- sqrt_div_sq; [| apply Rlt_le, Rmult_lt_0_compat; apply Rmult_lt_0_compat; lra | exact Hq].
          f_equal. field. lra. }
      rewrite rsum_divc. field. lra. }
  rewrite (rsum_ext K _ (fun a => pi0 n p a * 1 - rsum K (fun b => rsum n (fun i => hcw n p i a * hcw n p i b) / INR n))).
  2:{ intros a Ha. rewrite rsum_minus, rsum_scal, ?Hsum, ?Hsum'. reflexivity. }
  rewrite rsum_minus, rsum_scal_r, ?Hsum, ?Hsum'. unfold heo. f_equal; [ring|].
  rewrite <- rsum_divc.
  rewrite (rsum_ext K _ (fun a => rsum n (fun i => rsum K (fun b => hcw n p i a * hcw n p i b / INR n)))).
  2:{ intros a Ha. rewrite rsum_swap. apply rsum_ext. intros b Hb. rewrite rsum_divc. reflexivity. }
  rewrite rsum_swap. apply rsum_ext. intros i Hi. unfold hE.
  rewrite <- rsum_scal_r. rewrite <- rsum_divc. apply rsum_ext. intros a Ha.
  rewrite <- rsum_scal. rewrite <- rsum_divc. reflexivity.
Qed.

(* ------------------------------------------------------------------ final statements about the model *)
(* Checked by hand and by the proof: NO tangent hypothesis on D is needed; the identity holds for every
   direction D, and every radicand is positive in the interior, so no region hypothesis either.
   In the one-vs-one gradient the code's sqrt(estimates^2) equals estimates because estimates >= 0. *)
Theorem he_grad_is_derivative eps n K P D ovo : 0 <= eps -> (0 < n)%nat -> interior eps n K P ->
  is_derive (fun t : R => he_score Rops eps n K (pert P D t) ovo) 0 (inner n K (he_grad Rops eps n K P ovo) D).
Proof.
  intros He Hn HI. pose proof (interior_pos eps n K P He HI) as Hp.
  apply (lift_derivative (fun Y => he_score Rops eps n K Y ovo) (fun Y => if ovo then heo n K Y else hec n K Y)
           (he_grad Rops eps n K P ovo) (if ovo then heo_grad n K P else hec_grad n K P) eps n K P D).
  - intros Y HY. apply he_score_interior. exact HY.
  - intros i k Hi Hk. rewrite (he_grad_interior eps n K P ovo i k HI Hi Hk). destruct ovo; reflexivity.
  - exact HI.
  - destruct ovo; [apply heo_derive | apply hec_derive]; assumption.
Qed.
Theorem he_score_is_definition eps n K P ovo : 0 <= eps -> (0 < n)%nat -> interior eps n K P -> row_stochastic n K P ->
  he_score Rops eps n K P ovo = if ovo then gemini_ovo n K P (Hell2 n) else gemini_ova n K P (Hell2 n).
Proof.
  intros He Hn HI Hr. pose proof (interior_pos eps n K P He HI) as Hp. rewrite he_score_interior by exact HI.
  destruct ovo; [apply heo_is_definition | apply hec_is_definition]; assumption.
Qed.

(* ------------------------------------------------------------------ C13: range *)
(* score <= 1 holds for the model unconditionally (every estimate is a sum of square roots, or a square) *)
Lemma he_est_nonneg eps n K Y ovo i : 0 <= he_est Rops eps n K Y ovo i.
Proof.
  assert (H0 : 0 <= he_est0 Rops eps n K Y i).
  { unfold he_est0. apply (rsum_nonneg K). intros k Hk. unfold he_cwe. cbn [nsqrt Rops]. apply sqrt_pos. }
  unfold he_est. destruct ovo; [|exact H0]. cbn [nmul Rops]. apply Rmult_le_pos; exact H0.
Qed.
Theorem he_le_1 eps n K Y ovo : he_score Rops eps n K Y ovo <= 1.
Proof.
  unfold he_score, mean, ofn. cbn [nsub ndiv n1 nofnat Rops].
  change (bsum Rops n (he_est Rops eps n K Y ovo)) with (rsum n (he_est Rops eps n K Y ovo)).
  assert (HS : 0 <= rsum n (he_est Rops eps n K Y ovo)) by (apply rsum_nonneg; intros; apply he_est_nonneg).
  assert (0 <= rsum n (he_est Rops eps n K Y ovo) / INR n); [|lra].
  destruct n as [|m].
  - rewrite rsum_0. unfold Rdiv. rewrite Rmult_0_l. lra.
  - apply Rmult_le_pos; [exact HS|]. apply Rlt_le, Rinv_0_lt_compat, lt_0_INR. lia.
Qed.

(* arithmetic-geometric mean: enough for the Cauchy-Schwarz step sum_k sqrt(p_ik pi_k) <= 1 *)
Lemma sqrt_am_gm a b : 0 <= a -> 0 <= b -> sqrt (a * b) <= (a + b) / 2.
Proof.
  intros Ha Hb. rewrite sqrt_mult by assumption.
  pose proof (sqrt_sqrt a Ha) as Ea. pose proof (sqrt_sqrt b Hb) as Eb.
  pose proof (pow2_ge_0 (sqrt a - sqrt b)) as Hq. nra.
Qed.
Lemma hE_le_1 n K p i : (0 < n)%nat -> (forall i k, (i < n)%nat -> (k < K)%nat -> 0 < p i k) ->
  row_stochastic n K p -> (i < n)%nat -> hE n K p i <= 1.
Proof.
  intros Hn Hp Hrow Hi.
  assert (Hsum : rsum K (fun k => pi0 n p k) = 1) by (apply pi0_sum_one; auto).
  apply Rle_trans with (rsum K (fun k => / 2 * p i k + / 2 * pi0 n p k)).
  - unfold hE. apply rsum_le. intros k Hk. unfold hcw.
    assert (0 < p i k) by (apply Hp; auto). assert (0 < pi0 n p k) by (apply (pi0_pos n K); auto).
    pose proof (sqrt_am_gm (p i k) (pi0 n p k)). lra.
  - rewrite rsum_plus, (rsum_scal K (/ 2) (fun k => p i k)), (rsum_scal K (/ 2) (fun k => pi0 n p k)), Hsum, (Hrow i Hi). lra.
Qed.
Lemma mean_bounds n f : (0 < n)%nat -> (forall i, (i < n)%nat -> 0 <= f i <= 1) -> 0 <= rsum n f / INR n <= 1.
Proof.
  intros Hn Hf. assert (HN : 0 < INR n) by (apply lt_0_INR; lia).
  assert (H0 : 0 <= rsum n f) by (apply rsum_nonneg; intros; apply Hf; assumption).
  assert (H1 : rsum n f <= rsum n (fun _ => 1)) by (apply rsum_le; intros; apply Hf; assumption).
  rewrite rsum_const in H1. split.
  - apply Rmult_le_pos; [exact H0 | apply Rlt_le, Rinv_0_lt_compat, HN].
  - apply (Rmult_le_reg_r (INR n)); [exact HN|]. unfold Rdiv. rewrite Rmult_assoc, Rinv_l by lra. lra.
Qed.
Theorem he_nonneg eps n K P ovo : 0 <= eps -> (0 < n)%nat -> interior eps n K P -> row_stochastic n K P ->
  0 <= he_score Rops eps n K P ovo.
Proof.
  intros He Hn HI Hr. pose proof (interior_pos eps n K P He HI) as Hp. rewrite he_score_interior by exact HI.
  assert (HE : forall i, (i < n)%nat -> 0 <= hE n K P i <= 1).
  { intros i Hi. split; [apply hE_nonneg | apply hE_le_1; assumption]. }
  destruct ovo; unfold heo, hec.
  - assert (0 <= rsum n (fun i => hE n K P i * hE n K P i) / INR n <= 1); [|lra].
    apply mean_bounds; [exact Hn|]. intros i Hi. specialize (HE i Hi). nra.
  - assert (0 <= rsum n (fun i => hE n K P i) / INR n <= 1); [|lra].
    apply mean_bounds; [exact Hn|]. exact HE.
Qed.

(* ------------------------------------------------------------------ C13: independence *)
(* all rows equal (the prediction ignores the sample): the objective vanishes *)
Theorem he_independent_zero eps n K P ovo : 0 <= eps -> (0 < n)%nat -> interior eps n K P -> row_stochastic n K P ->
  (forall i j k, (i < n)%nat -> (j < n)%nat -> (k < K)%nat -> P i k = P j k) ->
  he_score Rops eps n K P ovo = 0.
Proof.
  intros He Hn HI Hr Heq. pose proof (interior_pos eps n K P He HI) as Hp. rewrite he_score_interior by exact HI.
  assert (HN : 0 < INR n) by (apply lt_0_INR; lia).
  assert (Hpi : forall i k, (i < n)%nat -> (k < K)%nat -> pi0 n P k = P i k).
  { intros i k Hi Hk. unfold pi0. rewrite (rsum_ext n _ (fun _ => P i k)) by (intros j Hj; apply Heq; assumption).
    rewrite rsum_const. field. lra. }
  assert (HE : forall i, (i < n)%nat -> hE n K P i = 1).
  { intros i Hi. rewrite <- (Hr i Hi). unfold hE. apply rsum_ext. intros k Hk. unfold hcw.
    rewrite (Hpi i k Hi Hk). apply sqrt_square. apply Rlt_le, Hp; assumption. }
  destruct ovo; unfold heo, hec.
  - rewrite (rsum_ext n _ (fun _ => 1)) by (intros i Hi; rewrite (HE i Hi); ring).
    rewrite rsum_const. field. lra.
  - rewrite (rsum_ext n _ (fun _ => 1)) by (intros i Hi; apply HE; exact Hi).
    rewrite rsum_const. field. lra.
Qed.

(* ------------------------------------------------------------------ C13: permutations *)
Lemma mean_ext n f g : (forall j, (j < n)%nat -> f j = g j) -> mean Rops n f = mean Rops n g.
Proof. intros H. unfold mean. f_equal. apply (rsum_ext n). exact H. Qed.
Lemma mean_perm n s f : perm_on n s -> mean Rops n (fun j => f (s j)) = mean Rops n f.
Proof. intros Hs. unfold mean. f_equal. apply (rsum_perm n s f Hs). Qed.

Section PermSamples.
Variables (eps : R) (n K : nat) (Y : mat) (s : nat -> nat).
Hypothesis Hs : perm_on n s.
Let Y' : mat := fun i k => Y (s i) k.
Lemma pi_perm_samples k : pi Rops eps n Y' k = pi Rops eps n Y k.
Proof. unfold pi. apply (mean_perm n s (fun i => P Rops eps Y i k) Hs). Qed.
Lemma he_cwe_perm_samples i k : he_cwe Rops eps n Y' i k = he_cwe Rops eps n Y (s i) k.
Proof. unfold he_cwe. rewrite pi_perm_samples. reflexivity. Qed.
Lemma he_est0_perm_samples i : he_est0 Rops eps n K Y' i = he_est0 Rops eps n K Y (s i).
Proof. unfold he_est0. apply (rsum_ext K). intros k Hk. apply he_cwe_perm_samples. Qed.
Lemma he_est_perm_samples ovo i : he_est Rops eps n K Y' ovo i = he_est Rops eps n K Y ovo (s i).
Proof. unfold he_est. rewrite he_est0_perm_samples. reflexivity. Qed.
Theorem he_perm_samples ovo : he_score Rops eps n K (fun i k => Y (s i) k) ovo = he_score Rops eps n K Y ovo.
Proof.
  unfold he_score. f_equal. fold Y'.
  rewrite (mean_ext n (he_est Rops eps n K Y' ovo) (fun i => he_est Rops eps n K Y ovo (s i)))
    by (intros; apply he_est_perm_samples).
  apply (mean_perm n s (he_est Rops eps n K Y ovo) Hs).
Qed.
(* the gradient is equivariant: permuting the samples permutes the gradient rows *)
Theorem he_grad_perm_samples ovo i k :
  he_grad Rops eps n K (fun i k => Y (s i) k) ovo i k = he_grad Rops eps n K Y ovo (s i) k.
Proof.
  fold Y'. unfold he_grad. destruct ovo; cbv zeta.
  - rewrite pi_perm_samples, he_cwe_perm_samples, he_est_perm_samples.
    assert (Hm : mean Rops n (fun j => nmul Rops (ndiv Rops (P Rops eps Y' j k) (he_cwe Rops eps n Y' j k))
                                         (nsqrt Rops (he_est Rops eps n K Y' true j)))
               = mean Rops n (fun j => nmul Rops (ndiv Rops (P Rops eps Y j k) (he_cwe Rops eps n Y j k))
                                         (nsqrt Rops (he_est Rops eps n K Y true j)))).
    { rewrite <- (mean_perm n s (fun j => nmul Rops (ndiv Rops (P Rops eps Y j k) (he_cwe Rops eps n Y j k))
                                         (nsqrt Rops (he_est Rops eps n K Y true j))) Hs).
      apply mean_ext. intros j Hj. rewrite he_cwe_perm_samples, he_est_perm_samples. reflexivity. }
    rewrite Hm. reflexivity.
  - rewrite pi_perm_samples, he_cwe_perm_samples.
    assert (Hm : mean Rops n (fun j => ndiv Rops (P Rops eps Y' j k) (he_cwe Rops eps n Y' j k))
               = mean Rops n (fun j => ndiv Rops (P Rops eps Y j k) (he_cwe Rops eps n Y j k))).
    { rewrite <- (mean_perm n s (fun j => ndiv Rops (P Rops eps Y j k) (he_cwe Rops eps n Y j k)) Hs).
      apply mean_ext. intros j Hj. rewrite he_cwe_perm_samples. reflexivity. }
    rewrite Hm. reflexivity.
Qed.
End PermSamples.

Section PermClusters.
Variables (eps : R) (n K : nat) (Y : mat) (s : nat -> nat).
Hypothesis Hs : perm_on K s.
Let Y' : mat := fun i k => Y i (s k).
Lemma pi_perm_clusters k : pi Rops eps n Y' k = pi Rops eps n Y (s k).
Proof. reflexivity. Qed.
Lemma he_cwe_perm_clusters i k : he_cwe Rops eps n Y' i k = he_cwe Rops eps n Y i (s k).
Proof. reflexivity. Qed.
Lemma he_est0_perm_clusters i : he_est0 Rops eps n K Y' i = he_est0 Rops eps n K Y i.
Proof. unfold he_est0. apply (rsum_perm K s (fun k => he_cwe Rops eps n Y i k) Hs). Qed.
Lemma he_est_perm_clusters ovo i : he_est Rops eps n K Y' ovo i = he_est Rops eps n K Y ovo i.
Proof. unfold he_est. rewrite he_est0_perm_clusters. reflexivity. Qed.
Theorem he_perm_clusters ovo : he_score Rops eps n K (fun i k => Y i (s k)) ovo = he_score Rops eps n K Y ovo.
Proof.
  unfold he_score. f_equal. fold Y'. apply mean_ext. intros i Hi. apply he_est_perm_clusters.
Qed.
(* the gradient is equivariant: permuting the clusters permutes the gradient columns *)
Theorem he_grad_perm_clusters ovo i k :
  he_grad Rops eps n K (fun i k => Y i (s k)) ovo i k = he_grad Rops eps n K Y ovo i (s k).
Proof.
  fold Y'. unfold he_grad. destruct ovo; cbv zeta; [|reflexivity].
  rewrite he_est_perm_clusters.
  assert (Hm : mean Rops n (fun j => nmul Rops (ndiv Rops (P Rops eps Y' j k) (he_cwe Rops eps n Y' j k))
                                       (nsqrt Rops (he_est Rops eps n K Y' true j)))
             = mean Rops n (fun j => nmul Rops (ndiv Rops (P Rops eps Y j (s k)) (he_cwe Rops eps n Y j (s k)))
                                       (nsqrt Rops (he_est Rops eps n K Y true j)))).
  { apply mean_ext. intros j Hj. rewrite he_est_perm_clusters. reflexivity. }
  rewrite Hm. reflexivity.
Qed.
End PermClusters.
