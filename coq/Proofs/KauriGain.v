(* C08 — proofs about the KAURI gain formulas, the top-2 pair selection, the brute-force arg-max and the
   telescoping of the score.  Real-number instance [Rops] of the model Model/KauriGain.v; the formulas proved
   correct are the ones regenerated from the .pyx in Gen/KauriFormulas.v. *)
From Coq Require Import Reals Lra Lia List Bool Arith ZArith Permutation.
From GV Require Import Common.Num Common.NumR Model.KauriGain Gen.KauriFormulas.
Import ListNotations.
Local Open Scope R_scope.

(* ------------------------------------------------------------------ sums and stocks over R *)
Notation sig := (sigma Rops).
Notation rterm := (term Rops).
Definition rsuml (l : list R) : R := lsum Rops l.

Lemma rsuml_nil : rsuml [] = 0. Proof. reflexivity. Qed.
Lemma rsuml_cons x l : rsuml (x :: l) = x + rsuml l. Proof. reflexivity. Qed.
Lemma rsuml_app a b : rsuml (a ++ b) = rsuml a + rsuml b.
Proof. induction a as [|x a IH]; simpl app; rewrite ?rsuml_nil, ?rsuml_cons, ?IH; lra. Qed.
Lemma rsuml_map_plus {A} (f g : A -> R) l :
  rsuml (map (fun x => f x + g x) l) = rsuml (map f l) + rsuml (map g l).
Proof. induction l as [|x l IH]; simpl map; rewrite ?rsuml_nil, ?rsuml_cons, ?IH; lra. Qed.
Lemma rsuml_map_ext {A} (f g : A -> R) l : (forall x, In x l -> f x = g x) -> rsuml (map f l) = rsuml (map g l).
Proof.
  induction l as [|x l IH]; intros H; simpl map; [reflexivity|].
  rewrite !rsuml_cons, IH, (H x); [reflexivity | now left | intros y Hy; apply H; now right].
Qed.
Lemma rsuml_map_swap {A B} (f : A -> B -> R) la lb :
  rsuml (map (fun a => rsuml (map (fun b => f a b) lb)) la) =
  rsuml (map (fun b => rsuml (map (fun a => f a b) la)) lb).
Proof.
  induction la as [|a la IH]; simpl map.
  - rewrite rsuml_nil. induction lb as [|b lb IHb]; simpl map; rewrite ?rsuml_nil, ?rsuml_cons, <- ?IHb; lra.
  - rewrite rsuml_cons, IH.
    rewrite <- rsuml_map_plus. apply rsuml_map_ext. intros b _. reflexivity.
Qed.

Lemma sig_unfold kap a b : sig kap a b = rsuml (map (fun i => rsuml (map (fun j => kap i j) b)) a).
Proof. reflexivity. Qed.
Lemma sig_nil_l kap b : sig kap [] b = 0. Proof. reflexivity. Qed.
Lemma sig_nil_r kap a : sig kap a [] = 0.
Proof.
  induction a as [|x a IH]; [reflexivity|].
  change (sig kap (x :: a) []) with (0 + sig kap a []). rewrite IH; lra.
Qed.
Lemma sig_app_l kap a a' b : sig kap (a ++ a') b = sig kap a b + sig kap a' b.
Proof. rewrite !sig_unfold, map_app, rsuml_app. reflexivity. Qed.
Lemma sig_app_r kap a b b' : sig kap a (b ++ b') = sig kap a b + sig kap a b'.
Proof.
  rewrite !sig_unfold, <- rsuml_map_plus. apply rsuml_map_ext. intros i _.
  now rewrite map_app, rsuml_app.
Qed.

Definition symmetric (kap : nat -> nat -> R) : Prop := forall i j, kap i j = kap j i.

(* sigma(a, b) = sigma(b, a) for every symmetric kernel, PSD or not *)
Lemma sig_sym kap a b : symmetric kap -> sig kap a b = sig kap b a.
Proof.
  intros H. rewrite !sig_unfold, rsuml_map_swap. apply rsuml_map_ext. intros j _.
  apply rsuml_map_ext. intros i _. apply H.
Qed.

Lemma rterm_ne kap C : C <> [] -> rterm kap C = sig kap C C / INR (length C).
Proof. destruct C; [congruence | reflexivity]. Qed.
Lemma rterm_nil kap : rterm kap [] = 0. Proof. reflexivity. Qed.

Lemma len_pos {A} (l : list A) : l <> [] -> 0 < INR (length l).
Proof. destruct l; [congruence|]. intros _. apply lt_0_INR. simpl. lia. Qed.
Lemma len_nonneg {A} (l : list A) : 0 <= INR (length l).
Proof. apply pos_INR. Qed.

Lemma app_ne_l {A} (a b : list A) : a <> [] -> a ++ b <> [].
Proof. destruct a; [congruence | discriminate]. Qed.
Lemma app_ne_r {A} (a b : list A) : b <> [] -> a ++ b <> [].
Proof. destruct a; [now simpl | discriminate]. Qed.

Ltac rops :=
  change (nadd Rops) with Rplus in *; change (nsub Rops) with Rminus in *; change (nmul Rops) with Rmult in *;
  change (ndiv Rops) with Rdiv in *; change (n1 Rops) with 1 in *; change (n0 Rops) with 0 in *;
  change (nofnat Rops) with INR in *; change (nltb Rops) with Rltb in *; change (nleb Rops) with Rleb in *;
  change (neqb Rops) with Reqb in *.

(* ------------------------------------------------------------------ layer A: the regenerated formulas *)
Section Formulas.
Variable kap : nat -> nat -> R.
Hypothesis Hsym : symmetric kap.

(* The stocks compute_all_splits receives when leaf N = Sl ++ Sr (left part, right part) belongs to
   cluster C_k = Sl ++ Sr ++ O (O = the other leaves of the cluster), P = the members of cluster k_prime and
   f = feature_id.  sl_clusters[k] = sum_{i in Sl} omega[k, i] = sigma(C_k, Sl), etc. *)
Definition stocks_of (Sl Sr O P : list nat) (f : nat) : stocks :=
  let Ck := Sl ++ Sr ++ O in
  let Nl := Sl ++ Sr in
  {| sl_square := sig kap Sl Sl; sr_square := sig kap Sr Sr; leaf_square := sig kap Nl Nl;
     sl_clusters_k := sig kap Ck Sl; sr_clusters_k := sig kap Ck Sr;
     sl_clusters_k_prime := sig kap P Sl; sr_clusters_k_prime := sig kap P Sr;
     gamma_k_k := sig kap Ck Ck; gamma_k_prime_k_prime := sig kap P P;
     omega_k_feature_id := sig kap Ck [f];
     n_leaf := INR (length Nl); split_size := INR (length Sl);
     cluster_sizes_k := INR (length Ck); cluster_sizes_k_prime := INR (length P) |}.

Ltac sig_norm Sl Sr O P :=
  repeat rewrite ?sig_app_l, ?sig_app_r;
  rewrite ?(sig_sym kap Sr Sl Hsym), ?(sig_sym kap O Sl Hsym), ?(sig_sym kap O Sr Hsym),
          ?(sig_sym kap P Sl Hsym), ?(sig_sym kap P Sr Hsym), ?(sig_sym kap P O Hsym);
  rewrite ?app_length, ?plus_INR.

Lemma left_star_is_gain Sl Sr O P f : Sl <> [] -> Sr ++ O <> [] ->
  left_star (stocks_of Sl Sr O P f) =
  rterm kap Sl + rterm kap (Sr ++ O) - rterm kap (Sl ++ Sr ++ O).
Proof.
  intros Hl Hr.
  rewrite (rterm_ne kap Sl Hl), (rterm_ne kap (Sr ++ O) Hr), (rterm_ne kap (Sl ++ Sr ++ O) (app_ne_l _ _ Hl)).
  cbv beta iota zeta delta [left_star stocks_of].
  sig_norm Sl Sr O P.
  pose proof (len_pos Sl Hl) as Pl. pose proof (len_pos _ Hr) as Pr. rewrite app_length, plus_INR in Pr.
  field. lra.
Qed.

Lemma right_star_is_gain Sl Sr O P f : Sr <> [] -> Sl ++ O <> [] ->
  right_star (stocks_of Sl Sr O P f) =
  rterm kap Sr + rterm kap (Sl ++ O) - rterm kap (Sl ++ Sr ++ O).
Proof.
  intros Hr Hl.
  rewrite (rterm_ne kap Sr Hr), (rterm_ne kap (Sl ++ O) Hl), (rterm_ne kap (Sl ++ Sr ++ O) (app_ne_r _ _ (app_ne_l _ _ Hr))).
  cbv beta iota zeta delta [right_star stocks_of].
  sig_norm Sl Sr O P.
  pose proof (len_pos Sr Hr) as Pr. pose proof (len_pos _ Hl) as Pl. rewrite app_length, plus_INR in Pl.
  pose proof (len_nonneg Sl). pose proof (len_nonneg O).
  field. lra.
Qed.

Lemma left_switch_is_gain Sl Sr O P f : Sl <> [] -> Sr ++ O <> [] -> P <> [] ->
  left_switch (stocks_of Sl Sr O P f) =
  rterm kap (P ++ Sl) + rterm kap (Sr ++ O) - rterm kap P - rterm kap (Sl ++ Sr ++ O).
Proof.
  intros Hl Hr Hp.
  rewrite (rterm_ne kap (P ++ Sl) (app_ne_l _ _ Hp)), (rterm_ne kap (Sr ++ O) Hr), (rterm_ne kap P Hp),
          (rterm_ne kap (Sl ++ Sr ++ O) (app_ne_l _ _ Hl)).
  cbv beta iota zeta delta [left_switch stocks_of].
  sig_norm Sl Sr O P.
  pose proof (len_pos Sl Hl) as Pl. pose proof (len_pos _ Hr) as Pr. rewrite app_length, plus_INR in Pr.
  pose proof (len_pos P Hp) as Pp.
  field. lra.
Qed.

Lemma right_switch_is_gain Sl Sr O P f : Sr <> [] -> Sl ++ O <> [] -> P <> [] ->
  right_switch (stocks_of Sl Sr O P f) =
  rterm kap (P ++ Sr) + rterm kap (Sl ++ O) - rterm kap P - rterm kap (Sl ++ Sr ++ O).
Proof.
  intros Hr Hl Hp.
  rewrite (rterm_ne kap (P ++ Sr) (app_ne_l _ _ Hp)), (rterm_ne kap (Sl ++ O) Hl), (rterm_ne kap P Hp),
          (rterm_ne kap (Sl ++ Sr ++ O) (app_ne_r _ _ (app_ne_l _ _ Hr))).
  cbv beta iota zeta delta [right_switch stocks_of].
  sig_norm Sl Sr O P.
  pose proof (len_pos Sr Hr) as Pr. pose proof (len_pos _ Hl) as Pl. rewrite app_length, plus_INR in Pl.
  pose proof (len_pos P Hp) as Pp. pose proof (len_nonneg Sl). pose proof (len_nonneg O).
  field. lra.
Qed.

(* reallocation: the left part joins cluster P, the right part joins cluster Q, the rest O of C_k stays:
   gain = left_switch(P) + right_switch(Q) + corrective_term *)
Lemma realloc_is_gain Sl Sr O P Q f : Sl <> [] -> Sr <> [] -> O <> [] -> P <> [] -> Q <> [] ->
  left_switch (stocks_of Sl Sr O P f) + right_switch (stocks_of Sl Sr O Q f) + corrective_term (stocks_of Sl Sr O P f) =
  rterm kap (P ++ Sl) + rterm kap (Q ++ Sr) + rterm kap O
  - rterm kap P - rterm kap Q - rterm kap (Sl ++ Sr ++ O).
Proof.
  intros Hl Hr Ho Hp Hq.
  rewrite (rterm_ne kap (P ++ Sl) (app_ne_l _ _ Hp)), (rterm_ne kap (Q ++ Sr) (app_ne_l _ _ Hq)), (rterm_ne kap O Ho),
          (rterm_ne kap P Hp), (rterm_ne kap Q Hq), (rterm_ne kap (Sl ++ Sr ++ O) (app_ne_l _ _ Hl)).
  cbv beta iota zeta delta [left_switch right_switch corrective_term stocks_of].
  sig_norm Sl Sr O P.
  rewrite ?(sig_sym kap Q Sl Hsym), ?(sig_sym kap Q Sr Hsym), ?(sig_sym kap Q O Hsym).
  pose proof (len_pos Sl Hl). pose proof (len_pos Sr Hr). pose proof (len_pos O Ho).
  pose proof (len_pos P Hp). pose proof (len_pos Q Hq).
  field. lra.
Qed.

(* the double-star gain with both errors repaired (Model.double_star_f with fix7 = true) *)
Lemma double_star_corrected_is_gain Sl Sr O om : Sl <> [] -> Sr <> [] -> O <> [] ->
  let Ck := Sl ++ Sr ++ O in let Nl := Sl ++ Sr in
  double_star_f Rops true (sig kap Sl Sl) (sig kap Sr Sr) (sig kap Nl Nl) (sig kap Ck Ck) (sig kap Ck Sl) (sig kap Ck Sr) om
                (length Ck) (length Nl) (length Sl) =
  rterm kap Sl + rterm kap Sr + rterm kap O - rterm kap (Sl ++ Sr ++ O).
Proof.
  intros Hl Hr Ho Ck Nl. subst Ck Nl.
  rewrite (rterm_ne kap Sl Hl), (rterm_ne kap Sr Hr), (rterm_ne kap O Ho), (rterm_ne kap (Sl ++ Sr ++ O) (app_ne_l _ _ Hl)).
  unfold double_star_f, n2; rops.
  replace (length (Sl ++ Sr ++ O) - length (Sl ++ Sr))%nat with (length O) by (rewrite !app_length; lia).
  replace (length (Sl ++ Sr) - length Sl)%nat with (length Sr) by (rewrite !app_length; lia).
  sig_norm Sl Sr O (@nil nat).
  pose proof (len_pos Sl Hl). pose proof (len_pos Sr Hr). pose proof (len_pos O Ho).
  field. lra.
Qed.
End Formulas.

(* ------------------------------------------------------------------ the as-is model's formulas ARE the regenerated ones *)
(* Whatever the stocks, and for sizes split_size <= n_leaf <= |C_k| as naturals, the formula functions
   called by Model.compute_all_splits (fix7 = false) compute exactly the expressions regenerated from the .pyx. *)
Lemma asis_formulas_regenerated :
  forall (sl sr lf slck srck slcp srcp gkk gpp om : R) (n s c p : nat), (s <= n)%nat -> (n <= c)%nat ->
  let st := {| sl_square := sl; sr_square := sr; leaf_square := lf; sl_clusters_k := slck; sr_clusters_k := srck;
               sl_clusters_k_prime := slcp; sr_clusters_k_prime := srcp; gamma_k_k := gkk; gamma_k_prime_k_prime := gpp;
               omega_k_feature_id := om; n_leaf := INR n; split_size := INR s; cluster_sizes_k := INR c;
               cluster_sizes_k_prime := INR p |} in
  star_f Rops sl gkk slck c s = left_star st /\
  star_f Rops sr gkk srck c (n - s) = right_star st /\
  left_switch_f Rops sl gkk gpp slck slcp c p s = left_switch st /\
  left_switch_f Rops sr gkk gpp srck srcp c p (n - s) = right_switch st /\
  corrective_f Rops sl sr lf gkk slck srck c n s = corrective_term st /\
  double_star_f Rops false sl sr lf gkk slck srck om c n s = double_star_gain st.
Proof.
  intros sl sr lf slck srck slcp srcp gkk gpp om n s c p Hsn Hnc st. subst st.
  cbv beta iota zeta delta [left_star right_star left_switch right_switch corrective_term double_star_gain].
  unfold star_f, left_switch_f, corrective_f, double_star_f, n2; rops.
  rewrite ?plus_INR. repeat (rewrite minus_INR by lia). rewrite ?plus_INR.
  replace (1 + 1) with 2 by lra.
  repeat split; reflexivity.
Qed.

(* ------------------------------------------------------------------ F7: the double-star gain as written is not the increase *)
Definition kid (i j : nat) : R := if Nat.eqb i j then 1 else 0.
Lemma kid_sym : symmetric kid.
Proof. intros i j. unfold kid. rewrite (Nat.eqb_sym i j). reflexivity. Qed.

(* identity kernel, leaf {0,1} split into {0} | {1}, cluster C_k = {0,1,2}, feature_id = 0:
   reported 5, real increase 2 *)
Lemma double_star_asis_refuted :
  exists (kap : nat -> nat -> R) (Sl Sr O P : list nat) (f : nat),
    symmetric kap /\ Sl <> [] /\ Sr <> [] /\ O <> [] /\
    double_star_gain (stocks_of kap Sl Sr O P f) <>
    rterm kap Sl + rterm kap Sr + rterm kap O - rterm kap (Sl ++ Sr ++ O).
Proof.
  exists kid, [0%nat], [1%nat], [2%nat], (@nil nat), 0%nat.
  split; [exact kid_sym|]. repeat (split; [discriminate|]).
  cbv beta iota zeta delta [double_star_gain stocks_of].
  unfold term, sigma; simpl; rops; unfold kid; simpl. lra.
Qed.

(* the same witness on the executable as-is model: what Model.double_star_f false returns *)
Lemma double_star_asis_model_refuted :
  double_star_f Rops false (sig kid [0%nat] [0%nat]) (sig kid [1%nat] [1%nat]) (sig kid [0;1]%nat [0;1]%nat)
                (sig kid [0;1;2]%nat [0;1;2]%nat) (sig kid [0;1;2]%nat [0%nat]) (sig kid [0;1;2]%nat [1%nat])
                (sig kid [0;1;2]%nat [0%nat]) 3 2 1 = 5 /\
  rterm kid [0%nat] + rterm kid [1%nat] + rterm kid [2%nat] - rterm kid [0;1;2]%nat = 2.
Proof.
  unfold double_star_f, n2, term, sigma; simpl; rops; unfold kid; simpl. split; lra.
Qed.

(* ------------------------------------------------------------------ the as-is model's branch tests ARE the regenerated ones *)
Ltac zspec :=
  repeat match goal with
  | |- context [Z.ltb ?a ?b] => destruct (Z.ltb_spec a b)
  | |- context [Z.leb ?a ?b] => destruct (Z.leb_spec a b)
  | |- context [Z.eqb ?a ?b] => destruct (Z.eqb_spec a b)
  | |- context [Nat.ltb ?a ?b] => destruct (Nat.ltb_spec a b)
  | |- context [Nat.leb ?a ?b] => destruct (Nat.leb_spec a b)
  | |- context [Nat.eqb ?a ?b] => destruct (Nat.eqb_spec a b)
  end; simpl; try reflexivity; try lia.

Lemma asis_guards_regenerated : forall nc kmax nl cs : nat,
  let z := Z.of_nat in
  guard_double_star (z nc) (z kmax) (z nl) (z cs) = g_double_star nc kmax nl cs /\
  guard_star (z nc) (z kmax) (z nl) (z cs) = g_star nc kmax /\
  guard_switch (z nc) (z kmax) (z nl) (z cs) = g_switch nc /\
  guard_realloc (z nc) (z kmax) (z nl) (z cs) = (g_switch nc && g_realloc nc nl cs)%bool /\
  (forall k k' : nat, skip_cluster (z k) (z k') = (k =? k')%nat) /\
  (forall a b : nat, pair_distinct (z a) (z b) = negb (eq_optnat (Some a) (Some b))).
Proof.
  intros nc kmax nl cs z. subst z.
  unfold guard_double_star, guard_star, guard_switch, guard_realloc, skip_cluster, pair_distinct,
         g_double_star, g_star, g_switch, g_realloc, eq_optnat.
  repeat split; intros; zspec.
Qed.

Lemma asis_tests_regenerated : forall (g l r b rf c ls rs tl sl tr sr : R),
  upd_double_star g b = t_gt Rops g b /\
  upd_star l r b = (t_gt Rops l b || t_gt Rops r b)%bool /\
  pick_star l r = t_gt Rops l r /\
  upd_switch l r b = (t_ge Rops l b || t_ge Rops r b)%bool /\
  pick_switch l r = t_gt Rops l r /\
  upd_realloc rf c b = t_gt Rops (rf + c) b /\
  pair_choice ls rs tl sl tr sr = gt_opt Rops (add_opt Rops (Some tl) (Some sr)) (add_opt Rops (Some tr) (Some sl)) /\
  track_top_left ls rs tl sl tr sr = ge_opt Rops ls (Some tl) /\
  track_second_left ls rs tl sl tr sr = ge_opt Rops ls (Some sl) /\
  track_top_right ls rs tl sl tr sr = ge_opt Rops rs (Some tr) /\
  (* F8 as written: the elif of the right-hand tracker tests left_switch *)
  track_second_right ls rs tl sl tr sr = ge_opt Rops (if false then rs else ls) (Some sr).
Proof. intros. repeat split; reflexivity. Qed.

(* ------------------------------------------------------------------ top-2 tracking and the choice of the pair *)
(* an entry = (k_prime, left_switch, right_switch) *)
Definition entry : Type := (nat * (R * R))%type.
Definition e_id (e : entry) : nat := fst e.
Definition e_gl (e : entry) : R := fst (snd e).
Definition e_gr (e : entry) : R := snd (snd e).

Definition track_left_from (t : @track R) (es : list entry) : @track R :=
  fold_left (fun t e => upd_track Rops t (e_gl e) (e_gl e) (e_id e)) es t.
Definition track_right_from (fix8 : bool) (t : @track R) (es : list entry) : @track R :=
  fold_left (fun t e => upd_track Rops t (e_gr e) (if fix8 then e_gr e else e_gl e) (e_id e)) es t.
Definition track_left es := track_left_from track0 es.
Definition track_right fix8 es := track_right_from fix8 track0 es.

(* one-sided tracker whose elif tests the value it stores (the repaired text) *)
Definition upd1 (t : @track R) (p : nat * R) : @track R := upd_track Rops t (snd p) (snd p) (fst p).

Definition tinv (t : @track R) (vs : list (nat * R)) : Prop :=
  match top_g t, top_k t, sec_g t, sec_k t with
  | None, None, None, None => vs = []
  | Some g, Some k, None, None => vs = [(k, g)]
  | Some g, Some k, Some g2, Some k2 =>
      In (k, g) vs /\ In (k2, g2) vs /\ k2 <> k /\
      (forall p, In p vs -> snd p <= g) /\ (forall p, In p vs -> fst p <> k -> snd p <= g2)
  | _, _, _, _ => False
  end.

Lemma tinv_step t vs p : tinv t vs -> ~ In (fst p) (map fst vs) -> tinv (upd1 t p) (vs ++ [p]).
Proof.
  destruct p as [k' g]. destruct t as [[tg|] [tk|] [sg|] [sk|]]; unfold tinv; simpl; try contradiction; intros Hi Hn.
  - (* top and second known *)
    destruct Hi as (Ht & Hs & Hne & Hall & Hoth).
    assert (Hk' : forall q, In q vs -> fst q <> k').
    { intros q Hq E. apply Hn. rewrite <- E. now apply in_map. }
    unfold upd1, upd_track, ge_opt; simpl; rops; unfold Rleb.
    destruct (Rle_dec tg g) as [H1|H1]; simpl.
    + repeat split.
      * apply in_or_app; right; now left.
      * apply in_or_app; now left.
      * exact (Hk' _ Ht).
      * intros q Hq. apply in_app_or in Hq. destruct Hq as [Hq|[<-|[]]]; simpl; [specialize (Hall _ Hq); lra | lra].
      * intros q Hq Hd. apply in_app_or in Hq. destruct Hq as [Hq|[<-|[]]]; simpl in *; [exact (Hall _ Hq) | congruence].
    + destruct (Rle_dec sg g) as [H2|H2]; simpl.
      * repeat split.
        -- apply in_or_app; now left.
        -- apply in_or_app; right; now left.
        -- intros E. exact (Hk' _ Ht (eq_sym E)).
        -- intros q Hq. apply in_app_or in Hq. destruct Hq as [Hq|[<-|[]]]; simpl; [exact (Hall _ Hq) | lra].
        -- intros q Hq Hd. apply in_app_or in Hq. destruct Hq as [Hq|[<-|[]]]; simpl in *; [specialize (Hoth _ Hq Hd); lra | lra].
      * repeat split.
        -- apply in_or_app; now left.
        -- apply in_or_app; now left.
        -- exact Hne.
        -- intros q Hq. apply in_app_or in Hq. destruct Hq as [Hq|[<-|[]]]; simpl; [exact (Hall _ Hq) | lra].
        -- intros q Hq Hd. apply in_app_or in Hq. destruct Hq as [Hq|[<-|[]]]; simpl in *; [exact (Hoth _ Hq Hd) | lra].
  - (* only the top known: vs = [(tk, tg)] *)
    subst vs. simpl in Hn.
    unfold upd1, upd_track, ge_opt; simpl; rops; unfold Rleb.
    destruct (Rle_dec tg g) as [H1|H1]; simpl.
    + repeat split; [now right; left | now left | intros E; apply Hn; now left | |].
      * intros q [<-|[<-|[]]]; simpl; lra.
      * intros q [<-|[<-|[]]] Hd; simpl in *; [lra | congruence].
    + repeat split; [now left | now right; left | intros E; apply Hn; left; congruence | |].
      * intros q [<-|[<-|[]]]; simpl; lra.
      * intros q [<-|[<-|[]]] Hd; simpl in *; [congruence | lra].
  - (* nothing known *)
    subst vs. reflexivity.
Qed.

Lemma tinv_fold vs : forall pre t, tinv t pre -> NoDup (map fst (pre ++ vs)) ->
  tinv (fold_left upd1 vs t) (pre ++ vs).
Proof.
  induction vs as [|p vs IH]; intros pre t Hi Hnd; simpl.
  - now rewrite app_nil_r.
  - replace (pre ++ p :: vs) with ((pre ++ [p]) ++ vs) in * by (rewrite <- app_assoc; reflexivity).
    apply IH; [|exact Hnd].
    apply tinv_step; [exact Hi|].
    rewrite !map_app in Hnd. simpl in Hnd. rewrite <- app_assoc in Hnd. simpl in Hnd.
    apply NoDup_remove_2 in Hnd. intros Hin. apply Hnd. apply in_or_app. now left.
Qed.

Lemma tinv0 : tinv track0 []. Proof. reflexivity. Qed.

Lemma fold_left_map {A B C} (f : A -> C -> A) (g : B -> C) l a :
  fold_left f (map g l) a = fold_left (fun a b => f a (g b)) l a.
Proof. revert a; induction l; simpl; auto. Qed.

Lemma track_left_inv es : NoDup (map e_id es) -> tinv (track_left es) (map (fun e => (e_id e, e_gl e)) es).
Proof.
  intros Hnd.
  assert (E : track_left es = fold_left upd1 (map (fun e => (e_id e, e_gl e)) es) track0)
    by (rewrite fold_left_map; reflexivity).
  rewrite E. apply (tinv_fold _ [] track0 tinv0). simpl. now rewrite map_map.
Qed.
Lemma track_right_inv es : NoDup (map e_id es) -> tinv (track_right true es) (map (fun e => (e_id e, e_gr e)) es).
Proof.
  intros Hnd.
  assert (E : track_right true es = fold_left upd1 (map (fun e => (e_id e, e_gr e)) es) track0)
    by (rewrite fold_left_map; reflexivity).
  rewrite E. apply (tinv_fold _ [] track0 tinv0). simpl. now rewrite map_map.
Qed.

(* With the repaired tracker, "choose the best pair of top switches" returns the best ordered pair of two
   DISTINCT clusters: left part to cluster a, right part to cluster b. *)
Lemma top2_pair_optimal : forall es : list entry, NoDup (map e_id es) -> (2 <= length es)%nat ->
  exists r a b, pair_select Rops (track_left es) (track_right true es) = (Some r, Some a, Some b) /\ a <> b /\
    (exists ea eb, In ea es /\ In eb es /\ e_id ea = a /\ e_id eb = b /\ r = e_gl ea + e_gr eb) /\
    (forall e1 e2, In e1 es -> In e2 es -> e_id e1 <> e_id e2 -> e_gl e1 + e_gr e2 <= r).
Proof.
  intros es Hnd Hlen.
  pose proof (track_left_inv es Hnd) as HL. pose proof (track_right_inv es Hnd) as HR.
  destruct (track_left es) as [[gL|] [kL|] [gL2|] [kL2|]]; unfold tinv in HL; simpl in HL; try contradiction;
    try (apply (f_equal (@length _)) in HL; rewrite map_length in HL; simpl in HL; lia).
  destruct (track_right true es) as [[gR|] [kR|] [gR2|] [kR2|]]; unfold tinv in HR; simpl in HR; try contradiction;
    try (apply (f_equal (@length _)) in HR; rewrite map_length in HR; simpl in HR; lia).
  destruct HL as (L1 & L2 & Lne & Lall & Loth). destruct HR as (R1 & R2 & Rne & Rall & Roth).
  assert (Lall' : forall e, In e es -> e_gl e <= gL).
  { intros e He. apply (Lall (e_id e, e_gl e)). apply in_map_iff. now exists e. }
  assert (Loth' : forall e, In e es -> e_id e <> kL -> e_gl e <= gL2).
  { intros e He Hd. apply (Loth (e_id e, e_gl e)); [apply in_map_iff; now exists e | exact Hd]. }
  assert (Rall' : forall e, In e es -> e_gr e <= gR).
  { intros e He. apply (Rall (e_id e, e_gr e)). apply in_map_iff. now exists e. }
  assert (Roth' : forall e, In e es -> e_id e <> kR -> e_gr e <= gR2).
  { intros e He Hd. apply (Roth (e_id e, e_gr e)); [apply in_map_iff; now exists e | exact Hd]. }
  apply in_map_iff in L1; destruct L1 as (eL & EL & InL). apply in_map_iff in L2; destruct L2 as (eL2 & EL2 & InL2).
  apply in_map_iff in R1; destruct R1 as (eR & ER & InR). apply in_map_iff in R2; destruct R2 as (eR2 & ER2 & InR2).
  inversion EL; inversion EL2; inversion ER; inversion ER2; subst; clear EL EL2 ER ER2.
  unfold pair_select, eq_optnat, add_opt, gt_opt; simpl; rops; unfold Rltb.
  assert (Hopt : forall r, e_gl eL2 + e_gr eR <= r -> e_gl eL + e_gr eR2 <= r -> e_id eL = e_id eR ->
            forall e1 e2, In e1 es -> In e2 es -> e_id e1 <> e_id e2 -> e_gl e1 + e_gr e2 <= r).
  { intros r H1 H2 E e1 e2 I1 I2 Hd. destruct (Nat.eq_dec (e_id e1) (e_id eL)) as [E1|D1].
    - assert (e_id e2 <> e_id eR) by congruence.
      pose proof (Lall' e1 I1). pose proof (Roth' e2 I2 H). lra.
    - pose proof (Loth' e1 I1 D1). pose proof (Rall' e2 I2). lra. }
  destruct (Nat.eqb_spec (e_id eL) (e_id eR)) as [E|D]; simpl.
  - match goal with |- context [Rlt_dec ?x ?y] => destruct (Rlt_dec x y) as [C|C] end; simpl.
    + exists (e_gl eL + e_gr eR2), (e_id eL), (e_id eR2). repeat split.
      * congruence.
      * exists eL, eR2. repeat split; assumption.
      * apply Hopt; [lra | lra | exact E].
    + exists (e_gr eR + e_gl eL2), (e_id eL2), (e_id eR). repeat split.
      * congruence.
      * exists eL2, eR. repeat split; try assumption. lra.
      * apply Hopt; [lra | lra | exact E].
  - exists (e_gl eL + e_gr eR), (e_id eL), (e_id eR). repeat split.
    + exact D.
    + exists eL, eR. repeat split; assumption.
    + intros e1 e2 I1 I2 _. pose proof (Lall' e1 I1). pose proof (Rall' e2 I2). lra.
Qed.

(* F8: with the text as written (`elif left_switch >= second_gain_right`) the second-best right switch can be
   missed: three other clusters 1, 2, 3 with (left_switch, right_switch) = (10,10), (5,1), (-5,8).
   Cluster 1 is the top on both sides, the as-is tracker keeps right second = 1 (cluster 2) although cluster 3
   offers 8, and the pair returned is worth 15 while left->1, right->3 is worth 18. *)
Definition f8_witness : list entry := [(1%nat, (10, 10)); (2%nat, (5, 1)); (3%nat, (-5, 8))].
Lemma second_right_asis_refuted :
  NoDup (map e_id f8_witness) /\
  pair_select Rops (track_left f8_witness) (track_right false f8_witness) = (Some 15, Some 2%nat, Some 1%nat) /\
  (exists e1 e2, In e1 f8_witness /\ In e2 f8_witness /\ e_id e1 <> e_id e2 /\ 15 < e_gl e1 + e_gr e2) /\
  (* and the regenerated test itself is not the intended one *)
  (exists ls rs tl sl tr sr, track_second_right ls rs tl sl tr sr <> ge_opt Rops rs (Some sr)).
Proof.
  split; [|split; [|split]].
  - simpl. repeat constructor; simpl; intuition discriminate.
  - unfold f8_witness, track_left, track_right, track_left_from, track_right_from, pair_select; simpl.
    unfold upd_track, ge_opt, e_gl, e_gr, e_id; simpl; rops; unfold Rleb.
    repeat (match goal with |- context [Rle_dec ?x ?y] => destruct (Rle_dec x y); try lra end; simpl).
    unfold gt_opt, add_opt; simpl; rops; unfold Rltb.
    repeat (match goal with |- context [Rlt_dec ?x ?y] => destruct (Rlt_dec x y); try lra end; simpl).
    repeat f_equal; lra.
  - exists (1%nat, (10, 10)), (3%nat, (-5, 8)). unfold f8_witness, e_id, e_gl, e_gr; simpl.
    repeat split; [now left | now right; right; left | discriminate | lra].
  - exists 0, 5, 0, 0, 0, 3. unfold track_second_right, ge_opt; rops; unfold Rleb.
    destruct (Rle_dec 3 0); destruct (Rle_dec 3 5); try lra; try discriminate.
Qed.

(* the trackers inside Model.switch_step are the folds studied above *)
Section SwitchFold.
Variables (fix8 : bool) (sl_square sr_square : R) (slc src : nat -> R) (cs : nat -> nat) (gamma : nat -> nat -> R)
          (n_leaf k leaf_id split_size feat : nat) (thr : R).
Definition entries_of (ks : list nat) : list entry :=
  flat_map (fun k' => if (k =? k')%nat then [] else
    [(k', (left_switch_f Rops sl_square (gamma k k) (gamma k' k') (slc k) (slc k') (cs k) (cs k') split_size,
           left_switch_f Rops sr_square (gamma k k) (gamma k' k') (src k) (src k') (cs k) (cs k') (n_leaf - split_size)))]) ks.

Lemma switch_fold_tracks ks : forall best tl tr,
  let res := fold_left (switch_step Rops fix8 sl_square sr_square slc src cs gamma n_leaf k leaf_id split_size feat thr)
                       ks (best, tl, tr) in
  snd (fst res) = track_left_from tl (entries_of ks) /\ snd res = track_right_from fix8 tr (entries_of ks).
Proof.
  induction ks as [|k' ks IH]; intros best tl tr; simpl.
  - split; reflexivity.
  - unfold switch_step at 2. destruct (k =? k')%nat eqn:E; simpl.
    + apply IH.
    + unfold track_left_from, track_right_from in *. simpl. apply IH.
Qed.

Lemma entries_of_ids nc : NoDup (map e_id (entries_of (seq 0 nc))).
Proof.
  assert (H : forall l, NoDup l -> NoDup (map e_id (entries_of l)) /\ (forall x, In x (map e_id (entries_of l)) -> In x l)).
  { induction l as [|x l IH]; intros Hnd; simpl; [split; [constructor | tauto]|].
    inversion Hnd as [|? ? Hx Hl]; subst. destruct (IH Hl) as [IH1 IH2].
    destruct (k =? x)%nat; simpl.
    - split; [exact IH1 | intros y Hy; right; now apply IH2].
    - split; [constructor; [intros Hin; apply Hx; now apply IH2 | exact IH1]
             | intros y [<-|Hy]; [now left | right; now apply IH2]]. }
  apply H, seq_NoDup.
Qed.
End SwitchFold.

(* ------------------------------------------------------------------ brute-force arg-max *)
Lemma argmax_fold {A} (f : A -> R) rest : forall acc, fst acc = f (snd acc) ->
  let r := fold_left (argmax_step Rops f) rest acc in
  fst r = f (snd r) /\ fst acc <= fst r /\ (forall x, In x rest -> f x <= fst r) /\ (snd r = snd acc \/ In (snd r) rest).
Proof.
  induction rest as [|x rest IH]; intros acc Hacc; simpl.
  - repeat split; [exact Hacc | lra | tauto | now left].
  - set (acc' := argmax_step Rops f acc x).
    assert (H' : fst acc' = f (snd acc') /\ fst acc <= fst acc' /\ f x <= fst acc' /\ (snd acc' = snd acc \/ snd acc' = x)).
    { unfold acc', argmax_step; rops; unfold Rltb. destruct (Rlt_dec (fst acc) (f x)); simpl; repeat split; try lra; auto. }
    destruct H' as (H1 & H2 & H3 & H4). destruct (IH acc' H1) as (I1 & I2 & I3 & I4).
    repeat split; [exact I1 | lra | |].
    + intros y [<-|Hy]; [lra | now apply I3].
    + destruct I4 as [I4|I4]; [rewrite I4; destruct H4 as [H4|H4]; [now left | right; left; now rewrite H4] | right; now right].
Qed.

Lemma best_spec_is_argmax : forall (st : @kstate R) (c : @cand R),
  In c (candidates Rops st) -> gain Rops st c <= gain Rops st (best_spec Rops st).
Proof.
  intros st c Hin. unfold best_spec, best_spec_pair.
  destruct (candidates Rops st) as [|c0 r]; [contradiction|].
  unfold argmax_from.
  destruct (argmax_fold (gain Rops st) r (gain Rops st c0, c0) eq_refl) as (H1 & H2 & H3 & _).
  simpl in *. rewrite <- H1. destruct Hin as [<-|Hin]; [exact H2 | now apply H3].
Qed.

Lemma best_spec_is_candidate : forall (st : @kstate R),
  candidates Rops st <> [] -> In (best_spec Rops st) (candidates Rops st).
Proof.
  intros st Hne. unfold best_spec, best_spec_pair.
  destruct (candidates Rops st) as [|c0 r]; [congruence|].
  unfold argmax_from.
  destruct (argmax_fold (gain Rops st) r (gain Rops st c0, c0) eq_refl) as (_ & _ & _ & H4).
  simpl in *. destruct H4 as [->|H4]; [now left | now right].
Qed.

(* ------------------------------------------------------------------ telescoping *)
Lemma score_is_root_plus_gains : forall (cs : list (@cand R)) (st : @kstate R),
  objective Rops (run_splits Rops st cs) = objective Rops st + rsuml (gains_along Rops st cs).
Proof.
  induction cs as [|c cs IH]; intros st.
  - change (objective Rops st = objective Rops st + 0). lra.
  - change (objective Rops (run_splits Rops (apply_split Rops st c) cs) =
            objective Rops st + (gain Rops st c + rsuml (gains_along Rops (apply_split Rops st c) cs))).
    rewrite IH. unfold gain; rops. lra.
Qed.
